(* C03 – purchase orders mint only after quorum approval, exactly once.

   Model: model/Enterprise.v (x/enterprise msg_server.go, purchase.go, blocker.go, locked.go) on
   model/Bank.v; history vocabulary: model/EnterpriseSpec.v.  Proofs: proofs/EnterpriseProofs.v
   (the inductive invariant [ent_inv], preserved by every well-formed step), proofs/EnterpriseC03.v.

   Worlds [w] are (bank, enterprise state, block time); [ent_step w o = None] means a block hook
   panicked (chain halt).  [ent_op_wf] restricts histories to: non-decreasing block times below
   2^63, ordinary (non-module) signers, governance not changing the enterprise denomination (that
   class is C14), fee coins positive with distinct denominations.

   Deviations from the informal statement, all explicit below:
   - C03_tally_rule needs [length signers < 2^63] (a list length; stated as a hypothesis);
   - C03_begin_block_never_panics / C03_chain_never_halts need bank balances to be non-negative
     ([bank_nonneg], a second invariant of the steps: the model's bank is a bare table of integers). *)
From MC Require Import lib.Prelude lib.AMap model.Bank model.Enterprise model.EnterpriseSpec
  proofs.EnterpriseProofs proofs.EnterpriseC03 proofs.EnterpriseExamples.
Local Open Scope Z_scope.

(* ---------- the shared invariant ---------- *)

Theorem C03_inv_genesis :
  forall b0 p start wl t0,
    ent_params_valid p = true -> 1 <= start -> 0 <= t0 < two63 ->
    (forall d, balance b0 ENT_MACC d = 0) ->
    ent_inv {| w_bank := b0; w_ent := ent_genesis p start wl; w_now := t0 |}.
Proof. exact ent_inv_genesis. Qed.
Print Assumptions C03_inv_genesis.

Theorem C03_inv_step :
  forall w o w', ent_inv w -> ent_op_wf w o -> ent_step w o = Some w' -> ent_inv w'.
Proof. exact ent_inv_step. Qed.
Print Assumptions C03_inv_step.

Theorem C03_inv_run :
  forall h w w', ent_inv w -> ent_hist_wf w h -> ent_run w h = Some w' -> ent_inv w'.
Proof. exact ent_inv_run. Qed.
Print Assumptions C03_inv_run.

(* ---------- 1. raising ---------- *)

Theorem C03_raise_needs_whitelist :
  forall now s p d amt s' id,
    ent_exec now s (ERaise p d amt) = Ok (s', id) ->
    mem_addr p (e_wl s) = true /\ id = e_next s /\ status_of s' id = ST_RAISED /\
    d = ep_denom (e_params s) /\ 0 < amt.
Proof. exact raise_needs_whitelist. Qed.
Print Assumptions C03_raise_needs_whitelist.

Theorem C03_raise_id_fresh :
  forall w p d amt s' id,
    ent_inv w -> ent_exec (w_now w) (w_ent w) (ERaise p d amt) = Ok (s', id) ->
    aget id (e_pos (w_ent w)) = None /\ status_of (w_ent w) id = ST_NIL.
Proof. exact raise_id_fresh. Qed.
Print Assumptions C03_raise_id_fresh.

(* ---------- 2. deciding ---------- *)

Theorem C03_decide_needs_current_signer_once :
  forall now s sg poid dec s' r,
    ent_exec now s (EDecide sg poid dec) = Ok (s', r) ->
    is_signer s sg = true /\ status_of s poid = ST_RAISED /\
    (forall o, aget poid (e_pos s) = Some o -> ~ In sg (map d_signer (po_decisions o))) /\
    (dec = ST_ACCEPTED \/ dec = ST_REJECTED).
Proof. exact decide_needs_current_signer_once. Qed.
Print Assumptions C03_decide_needs_current_signer_once.

(* in every reachable world the signers of an order's decisions are pairwise distinct *)
Theorem C03_decisions_distinct_signers :
  forall b0 p start wl t0 h w,
    ent_params_valid p = true -> 1 <= start -> 0 <= t0 < two63 ->
    (forall d, balance b0 ENT_MACC d = 0) ->
    ent_hist_wf {| w_bank := b0; w_ent := ent_genesis p start wl; w_now := t0 |} h ->
    ent_run {| w_bank := b0; w_ent := ent_genesis p start wl; w_now := t0 |} h = Some w ->
    forall id o, aget id (e_pos (w_ent w)) = Some o ->
      NoDup (map d_signer (po_decisions o)) /\
      Forall (fun d => d_decision d = ST_ACCEPTED \/ d_decision d = ST_REJECTED) (po_decisions o).
Proof.
  intros b0 p start wl t0 h w V S T B W R id o.
  exact (decisions_distinct_signers w id o (ent_inv_reachable b0 p start wl t0 h w V S T B W R)).
Qed.
Print Assumptions C03_decisions_distinct_signers.

(* ---------- 3. the tally rule, free of Go's casts and wrap-arounds ---------- *)

Theorem C03_tally_rule :
  forall p now o,
    ent_params_valid p = true ->
    Z.of_nat (List.length (ep_signers p)) < two63 ->
    po_raise_time o <= now < two63 -> 0 <= po_raise_time o ->
    let acc := count_decisions (po_decisions o) ST_ACCEPTED in
    let rej := count_decisions (po_decisions o) ST_REJECTED in
    let n := Z.of_nat (List.length (ep_signers p)) in
    tally_one p now o =
    (if (ep_time_limit p <=? now - po_raise_time o) && (acc <? ep_min_accepts p) then Some ST_REJECTED
     else if n - ep_min_accepts p <? rej then Some ST_REJECTED
     else if ep_min_accepts p <=? acc then Some ST_ACCEPTED
     else None).
Proof. exact tally_rule. Qed.
Print Assumptions C03_tally_rule.

(* ---------- 4. status only moves raised -> accepted -> completed or raised -> rejected ---------- *)

Theorem C03_status_monotone :
  forall w o w',
    ent_inv w -> ent_op_wf w o -> ent_step w o = Some w' ->
    forall id,
      let a := status_of (w_ent w) id in
      let b := status_of (w_ent w') id in
      a = b \/ (a = ST_NIL /\ b = ST_RAISED) \/ (a = ST_RAISED /\ b = ST_ACCEPTED) \/
      (a = ST_RAISED /\ b = ST_REJECTED) \/ (a = ST_ACCEPTED /\ b = ST_COMPLETED).
Proof. exact status_monotone. Qed.
Print Assumptions C03_status_monotone.

(* the exact ways one step can change one stored order *)
Theorem C03_order_change :
  forall w o w',
    ent_inv w -> ent_op_wf w o -> ent_step w o = Some w' ->
    forall id, order_change w o id (aget id (e_pos (w_ent w))) (aget id (e_pos (w_ent w'))).
Proof. exact step_order_change. Qed.
Print Assumptions C03_order_change.

Theorem C03_terminal_orders_frozen :
  forall w o w',
    ent_inv w -> ent_op_wf w o -> ent_step w o = Some w' ->
    forall id, status_of (w_ent w) id = ST_REJECTED \/ status_of (w_ent w) id = ST_COMPLETED ->
    aget id (e_pos (w_ent w')) = aget id (e_pos (w_ent w)).
Proof. exact terminal_frozen_step. Qed.
Print Assumptions C03_terminal_orders_frozen.

Theorem C03_terminal_orders_frozen_run :
  forall h w w',
    ent_inv w -> ent_hist_wf w h -> ent_run w h = Some w' ->
    forall id, status_of (w_ent w) id = ST_REJECTED \/ status_of (w_ent w) id = ST_COMPLETED ->
    aget id (e_pos (w_ent w')) = aget id (e_pos (w_ent w)).
Proof. exact terminal_frozen_run. Qed.
Print Assumptions C03_terminal_orders_frozen_run.

(* ---------- 5. only BeginBlock changes a status once an order exists ---------- *)

Theorem C03_only_begin_block_changes_status_after_raise :
  forall w o w',
    ent_inv w -> ent_op_wf w o -> ent_step w o = Some w' ->
    (* a message other than a raise changes no status *)
    (forall m, o = OMsg m -> (forall p d amt, m <> ERaise p d amt) ->
       forall id, status_of (w_ent w') id = status_of (w_ent w) id) /\
    (* a raise touches only the fresh id *)
    (forall p d amt, o = OMsg (ERaise p d amt) ->
       forall id, id <> e_next (w_ent w) -> aget id (e_pos (w_ent w')) = aget id (e_pos (w_ent w))) /\
    (* a decision only appends itself to the decided order *)
    (forall sg poid dec, o = OMsg (EDecide sg poid dec) ->
       forall id, aget id (e_pos (w_ent w')) = aget id (e_pos (w_ent w)) \/
                  (id = poid /\ exists po0, aget id (e_pos (w_ent w)) = Some po0 /\
                     aget id (e_pos (w_ent w')) = Some (add_decision po0 sg dec (w_now w)))) /\
    (* parameter changes and fee unlocking touch no order and no queue *)
    ((exists p, o = OSetParams p) \/ (exists payer fee, o = OUnlock payer fee) ->
       e_pos (w_ent w') = e_pos (w_ent w) /\ e_raisedq (w_ent w') = e_raisedq (w_ent w) /\
       e_acceptedq (w_ent w') = e_acceptedq (w_ent w)).
Proof.
  intros w o w' I W H. split; [|split; [|split]].
  - intros m ->. exact (non_raise_msgs_keep_status w m w' I W H).
  - intros p d amt ->. exact (raise_keeps_other_statuses w p d amt w' I W H).
  - intros sg poid dec ->. exact (decide_only_appends w sg poid dec w' I W H).
  - exact (params_unlock_keep_orders w o w' I W H).
Qed.
Print Assumptions C03_only_begin_block_changes_status_after_raise.

(* ---------- 6. completion in the following block, exactly the order's amount, exactly once ---------- *)

Theorem C03_accepted_completed_next_block_exactly_once :
  forall w now w',
    ent_inv w -> ent_op_wf w (OBegin now) -> ent_step w (OBegin now) = Some w' ->
    (forall id o, aget id (e_pos (w_ent w)) = Some o -> po_status o = ST_ACCEPTED ->
                  aget id (e_pos (w_ent w')) = Some (set_po_status o ST_COMPLETED 0 false) /\
                  status_of (w_ent w') id = ST_COMPLETED) /\
    (forall a, amount_coin (w_ent w') a (e_locked (w_ent w')) - amount_coin (w_ent w) a (e_locked (w_ent w))
               = asum (fun o => if (po_status o =? ST_ACCEPTED) && (po_purchaser o =? a)
                                then po_amount o else 0) (e_pos (w_ent w))) /\
    snd (total_locked (w_ent w')) - snd (total_locked (w_ent w))
    = asum (fun o => if po_status o =? ST_ACCEPTED then po_amount o else 0) (e_pos (w_ent w)) /\
    (forall d, supply_of (w_bank w') d - supply_of (w_bank w) d
               = if d =? ep_denom (e_params (w_ent w))
                 then asum (fun o => if po_status o =? ST_ACCEPTED then po_amount o else 0) (e_pos (w_ent w))
                 else 0) /\
    (forall a d, a <> ENT_MACC -> balance (w_bank w') a d = balance (w_bank w) a d).
Proof. exact begin_completes_accepted. Qed.
Print Assumptions C03_accepted_completed_next_block_exactly_once.

Theorem C03_purchasers_not_blocked :
  forall w id o, ent_inv w -> aget id (e_pos (w_ent w)) = Some o ->
    0 <= po_purchaser o /\ blocked (po_purchaser o) = false.
Proof.
  intros w id o I G. split; [apply (si_po _ _ (inv_s _ I) _ _ G)|exact (purchasers_not_blocked w id o I G)].
Qed.
Print Assumptions C03_purchasers_not_blocked.

Theorem C03_blocked_are_module_accounts : forall a, blocked a = true -> a < 0.
Proof. exact blocked_neg. Qed.
Print Assumptions C03_blocked_are_module_accounts.

Theorem C03_begin_block_never_panics :
  forall w now,
    ent_inv w -> bank_nonneg (w_bank w) -> ent_op_wf w (OBegin now) ->
    ent_step w (OBegin now) <> None.
Proof. exact begin_block_never_panics. Qed.
Print Assumptions C03_begin_block_never_panics.

Theorem C03_bank_nonneg_step :
  forall w o w', ent_inv w -> ent_op_wf w o -> ent_step w o = Some w' ->
    bank_nonneg (w_bank w) -> bank_nonneg (w_bank w').
Proof. exact ent_step_bank_nonneg. Qed.
Print Assumptions C03_bank_nonneg_step.

(* no well-formed history from a genesis with non-negative balances ever halts the chain *)
Theorem C03_chain_never_halts :
  forall b0 p start wl t0 h,
    ent_params_valid p = true -> 1 <= start -> 0 <= t0 < two63 ->
    (forall d, balance b0 ENT_MACC d = 0) -> (forall a d, 0 <= balance b0 a d) ->
    ent_hist_wf {| w_bank := b0; w_ent := ent_genesis p start wl; w_now := t0 |} h ->
    ent_run {| w_bank := b0; w_ent := ent_genesis p start wl; w_now := t0 |} h <> None.
Proof.
  intros b0 p start wl t0 h V S T B N W.
  exact (run_never_halts h _ (ent_inv_genesis b0 p start wl t0 V S T B) N W).
Qed.
Print Assumptions C03_chain_never_halts.

(* ---------- 7. nothing but BeginBlock mints ---------- *)

Theorem C03_non_begin_ops_never_mint :
  forall w o w',
    ent_inv w -> ent_op_wf w o -> ent_step w o = Some w' ->
    (forall now, o <> OBegin now) ->
    (forall d, supply_of (w_bank w') d = supply_of (w_bank w) d) /\
    ((forall payer fee, o <> OUnlock payer fee) -> w_bank w' = w_bank w).
Proof. exact non_begin_ops_never_mint. Qed.
Print Assumptions C03_non_begin_ops_never_mint.

(* ---------- examples: the hypotheses are satisfiable, and the numbers ---------- *)
(* ex_obs id a w = (status of id, locked[a], spent[a], total locked, total spent, escrow,
                    a's liquid balance, supply); scenario in proofs/EnterpriseExamples.v *)

Example C03_ex_genesis_inv : ent_inv ex_genesis /\ bank_nonneg (w_bank ex_genesis).
Proof. exact (conj ex_genesis_inv ex_genesis_nonneg). Qed.

Example C03_ex_history_wf : ent_hist_wf ex_genesis ex_hist_stale.
Proof. exact ex_hist_stale_wf. Qed.

(* raised + two accepts: still raised until the next BeginBlock *)
Example C03_ex_raised :
  option_map (ex_obs 1 7) (ent_run ex_genesis (firstn 3 ex_hist_accept))
  = Some (ST_RAISED, 0, 0, 0, 0, 0, 50, 50).
Proof. vm_compute. reflexivity. Qed.

(* BeginBlock at 1010: accepted, nothing minted yet *)
Example C03_ex_accepted :
  option_map (ex_obs 1 7) (ent_run ex_genesis (firstn 4 ex_hist_accept))
  = Some (ST_ACCEPTED, 0, 0, 0, 0, 0, 50, 50).
Proof. vm_compute. reflexivity. Qed.

(* BeginBlock at 1020: completed; locked[7] = escrow = 1000, supply + 1000, liquid unchanged *)
Example C03_ex_completed :
  option_map (ex_obs 1 7) (ent_run ex_genesis (firstn 5 ex_hist_accept))
  = Some (ST_COMPLETED, 1000, 0, 1000, 0, 1000, 50, 1050).
Proof. vm_compute. reflexivity. Qed.

(* two rejections out of three signers with MinAccepts 2: rejected at the next BeginBlock *)
Example C03_ex_rejected :
  option_map (ex_obs 2 7) (ent_run ex_genesis (firstn 9 ex_hist_reject))
  = Some (ST_RAISED, 700, 300, 700, 300, 700, 350, 1050) /\
  option_map (ex_obs 2 7) (ent_run ex_genesis ex_hist_reject)
  = Some (ST_REJECTED, 700, 300, 700, 300, 700, 350, 1050).
Proof. split; vm_compute; reflexivity. Qed.

(* one accept only: still raised 99 s after raising, auto-rejected at 100 s; order 1 stays
   completed and nothing more is minted *)
Example C03_ex_stale :
  option_map (ex_obs 3 7) (ent_run ex_genesis (firstn 13 ex_hist_stale))
  = Some (ST_RAISED, 700, 300, 700, 300, 700, 350, 1050) /\
  option_map (ex_obs 3 7) (ent_run ex_genesis ex_hist_stale)
  = Some (ST_REJECTED, 700, 300, 700, 300, 700, 350, 1050) /\
  option_map (ex_obs 1 7) (ent_run ex_genesis ex_hist_stale)
  = Some (ST_COMPLETED, 700, 300, 700, 300, 700, 350, 1050).
Proof. repeat split; vm_compute; reflexivity. Qed.

(* a non-whitelisted raiser, a non-signer and a repeated decision are refused: one order, one
   recorded decision, still raised after BeginBlock *)
Example C03_ex_refused :
  ent_hist_wf ex_genesis ex_hist_refused /\
  option_map (fun w => (status_of (w_ent w) 1, e_next (w_ent w),
                        map (fun o => map d_signer (po_decisions o)) (avals (e_pos (w_ent w)))))
             (ent_run ex_genesis ex_hist_refused)
  = Some (ST_RAISED, 2, [[1]]).
Proof. split; [exact ex_hist_refused_wf | vm_compute; reflexivity]. Qed.

(* the side condition [bank_nonneg] of C03_begin_block_never_panics is needed in the model:
   from a genesis whose purchaser has balance -1 the completing BeginBlock halts *)
Example C03_ex_negative_balance_halts :
  ent_inv ex_genesis_neg /\ ent_hist_wf ex_genesis_neg (firstn 5 ex_hist_accept) /\
  ent_run ex_genesis_neg (firstn 5 ex_hist_accept) = None.
Proof.
  split; [exact ex_genesis_neg_inv|]. split; [exact ex_neg_wf|]. vm_compute. reflexivity.
Qed.
