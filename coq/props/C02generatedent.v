(* C02, link to the source: the one place where the supply rises.  The BeginBlocker of /repo/x/enterprise (abci.go:
   ProcessAcceptedPurchaseOrders, then TallyPurchaseOrderDecisions of keeper/blocker.go) as generated on every run
   (coq/GeneratedEnterpriseKeeper.v, against the primitives of model/EnterpriseKeeperPrims.v) is the model's
   ent_begin_block (model/Enterprise.v), about which C02 is proved (props/C02.v), outcome for outcome, panic codes
   included, whenever
     - the block time in seconds fits uint64 (it is written into the orders the tally closes),
     - len(signers) - int(MinAccepts) fits int ([threshold_fits]; implied by valid parameters and len(signers) < 2^63:
       params_valid_threshold_fits),
     - every stored order is filed under its own id ([pos_keyed]: SetPurchaseOrder files under po.Id; part of the
       invariant of C03 / C04: sinv_pos_keyed),
     - len(po.Decisions) < 2^63 for the stored orders ([decisions_fit]: the tally counts in int).
   The first three are shown necessary in proofs/GeneratedEnterpriseBlockEq.v (gen_*_refuted).
   [eblift w o] turns the model's (bank, state) outcome into the generated code's (world, unit) outcome.
   Proofs: proofs/GeneratedEnterpriseBlockEq.v. *)
From MC Require Import lib.Prelude lib.AMap lib.GoSdk GeneratedEnterpriseTypes model.Bank model.Enterprise
  model.EnterpriseSpec model.EnterpriseKeeperPrims GeneratedEnterpriseKeeper model.EnterpriseGenSpec.
From MC Require Import proofs.EnterpriseProofs proofs.GeneratedEnterpriseEq proofs.GeneratedEnterpriseBlockEq.
Local Open Scope Z_scope.

Theorem C02_generated_begin_block_is_model : forall w,
  0 <= ew_now w / NSEC < two64 ->
  threshold_fits (e_params (ew_ent w)) ->
  pos_keyed (ew_ent w) ->
  decisions_fit (ew_ent w) ->
  go_ent_begin_block w = eblift w (ent_begin_block (ew_now w / NSEC) (ew_bank w) (ew_ent w)).
Proof. exact gen_ent_begin_block_eq. Qed.
Print Assumptions C02_generated_begin_block_is_model.

(* the minting half on its own: every accepted order is completed and its amount minted and locked for the purchaser *)
Theorem C02_generated_process_accepted_is_model : forall w,
  pos_keyed (ew_ent w) ->
  go_ProcessAcceptedPurchaseOrders w = eblift w (process_accepted (e_acceptedq (ew_ent w)) (ew_bank w) (ew_ent w)).
Proof. exact gen_ent_ProcessAcceptedPurchaseOrders_eq. Qed.
Print Assumptions C02_generated_process_accepted_is_model.

(* the two hypotheses on the parameters and the order table follow from the invariant of C03 / C04 *)
Theorem C02_generated_hyps_from_inv : forall w,
  ent_inv w -> Z.of_nat (List.length (ep_signers (e_params (w_ent w)))) < two63 ->
  threshold_fits (e_params (w_ent w)) /\ pos_keyed (w_ent w).
Proof. exact ent_inv_block_hyps. Qed.
Print Assumptions C02_generated_hyps_from_inv.

(* ---- examples (world: proofs/GeneratedEnterpriseBlockEq.v, part 6) ----
   xb_w0: block time 1700000000 s; account 7 holds 100 nund and has no locked entry, supply 100; order 1 (500 nund for
   account 7) is accepted, orders 2..5 are raised.
   xb_obs w = (statuses of orders 1..5, raised queue, accepted queue, locked[7], total locked, supply of nund);
   statuses: 1 raised, 2 accepted, 3 rejected, 4 completed *)

Example C02_generated_ex_hypotheses :
  0 <= ew_now xb_w0 / NSEC < two64 /\ threshold_fits (e_params (ew_ent xb_w0)) /\
  pos_keyed (ew_ent xb_w0) /\ decisions_fit (ew_ent xb_w0).
Proof. exact xb_w0_hyps. Qed.

Example C02_generated_ex_start : xb_obs xb_w0 = ([2; 1; 1; 1; 1], [2; 3; 4; 5], [1], 0, 0, 100).
Proof. vm_compute. reflexivity. Qed.

(* ProcessAcceptedPurchaseOrders: order 1 is completed and leaves the accepted queue; 500 nund are minted (supply 100 -> 600)
   and booked as locked for account 7 *)
Example C02_generated_ex_process_accepted :
  exists w', go_ProcessAcceptedPurchaseOrders xb_w0 = Ok (w', tt) /\
             xb_obs w' = ([4; 1; 1; 1; 1], [2; 3; 4; 5], [], 500, 500, 600).
Proof. eexists. split; vm_compute; reflexivity. Qed.

(* the whole BeginBlocker: the supply rises by exactly the 500 of the completed order; order 2, accepted by the tally of
   this block, is only queued: it mints in the next block *)
Example C02_generated_ex_begin_block :
  exists w', go_ent_begin_block xb_w0 = Ok (w', tt) /\
             xb_obs w' = ([4; 2; 3; 3; 1], [5], [2], 500, 500, 600) /\
             supply_of (ew_bank w') NUND = supply_of (ew_bank xb_w0) NUND + 500 /\
             balance (ew_bank w') ENT_MACC NUND = 500 /\ balance (ew_bank w') 7 NUND = 100.
Proof. eexists. split; [vm_compute; reflexivity|]. repeat split; vm_compute; reflexivity. Qed.

(* the model computes the same world (by computation here; by the theorem in general) *)
Example C02_generated_ex_model_agrees :
  go_ent_begin_block xb_w0 = eblift xb_w0 (ent_begin_block (ew_now xb_w0 / NSEC) (ew_bank xb_w0) (ew_ent xb_w0)).
Proof. vm_compute. reflexivity. Qed.

(* an accepted order whose purchaser string does not parse: the block hook panics (chain halt), code 21 *)
Example C02_generated_ex_bad_purchaser :
  let w := mk_eworld (xb_sec * NSEC) xe_bank0
             (xb_state (xb_params 1)
                [(1, {| po_id := 1; po_purchaser := BAD_ADDR; po_denom := NUND; po_amount := 500; po_status := ST_ACCEPTED;
                        po_raise_time := xb_sec - 300; po_completion_time := 0; po_decisions := [] |})] [] [1]) in
  go_ent_begin_block w = Panic PANIC_BLOCKER /\ PANIC_BLOCKER = 21.
Proof. vm_compute. split; reflexivity. Qed.

(* the hypothesis "filed under its own id" cannot be dropped *)
Example C02_generated_ex_unkeyed :
  let w := mk_eworld (xb_sec * NSEC) xe_bank0
             (xb_state (xb_params 1) [(5, xb_po 6 ST_ACCEPTED (xb_sec - 300) [])] [] [5]) in
  map (status_of (ew_ent (xb_after (go_ProcessAcceptedPurchaseOrders w)))) [5; 6] = [ST_ACCEPTED; ST_COMPLETED] /\
  map (status_of (ew_ent (xb_after (eblift w (process_accepted (e_acceptedq (ew_ent w)) (ew_bank w) (ew_ent w))))))
      [5; 6] = [ST_COMPLETED; ST_NIL] /\
  go_ProcessAcceptedPurchaseOrders w <> eblift w (process_accepted (e_acceptedq (ew_ent w)) (ew_bank w) (ew_ent w)).
Proof. exact gen_process_accepted_unkeyed_refuted. Qed.
