(* Source-derived obligations of C18wiring: facts read from /repo by the translator on every run (coq/Generated.v), re-checked here. *)
From Coq Require Import List String ZArith.
From MC Require Import lib.Reach Generated proofs.Wiring.
Import ListNotations.
Open Scope string_scope.

Theorem C18_prefixes_as_modelled : ltac:(let T := type of wiring_prefixes in exact T).
Proof. exact wiring_prefixes. Qed.
Print Assumptions C18_prefixes_as_modelled.

Theorem C18_separate_stores : ltac:(let T := type of wiring_separate_stores in exact T).
Proof. exact wiring_separate_stores. Qed.
Print Assumptions C18_separate_stores.
