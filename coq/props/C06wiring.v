(* Source-derived obligations of C06wiring: facts read from /repo by the translator on every run (coq/Generated.v), re-checked here. *)
From Coq Require Import List String ZArith.
From MC Require Import lib.Reach Generated proofs.Wiring.
Import ListNotations.
Open Scope string_scope.

Theorem C06_ante_order : ltac:(let T := type of wiring_ante_order in exact T).
Proof. exact wiring_ante_order. Qed.
Print Assumptions C06_ante_order.

Theorem C06_fee_switches_agree : ltac:(let T := type of wiring_fee_switches in exact T).
Proof. exact wiring_fee_switches. Qed.
Print Assumptions C06_fee_switches_agree.
