(* Source-derived obligations of C16wiring: facts read from /repo by the translator on every run (coq/Generated.v), re-checked here. *)
From Coq Require Import List String ZArith.
From MC Require Import lib.Reach Generated proofs.Wiring.
Import ListNotations.
Open Scope string_scope.

Theorem C16_setparams_validates : ltac:(let T := type of wiring_authority_and_validation in exact T).
Proof. exact wiring_authority_and_validation. Qed.
Print Assumptions C16_setparams_validates.
