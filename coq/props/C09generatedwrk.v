(* C09, link to the source: registration and the owner check of /repo/x/wrkchain/keeper/{register,msg_server}.go as
   generated on every run (coq/GeneratedWrkchainKeeper.v) are the registry model's (model/Registry.v, heighted = true),
   about which C09 is proved (props/C09.v): a new WRKChain gets the id HighestWrkChainID, which then advances by one;
   it stores what the message said; only its owner records to it or purchases storage for it.
   Proofs: proofs/GeneratedWrkchainEq.v. *)
From MC Require Import lib.Prelude lib.AMap lib.GoSdk GeneratedWrkchainTypes model.Bank model.Registry model.RegistrySpec
  model.WrkchainKeeperPrims GeneratedWrkchainKeeper model.WrkchainGenSpec.
From MC Require Import proofs.RegistryProofs proofs.GeneratedWrkchainEq.
Local Open Scope string_scope.
Local Open Scope Z_scope.

Theorem C09_generated_wrk_register : forall w moniker name genesis type (owner : addr),
  0 <= Time_Unix (rw_now w) < two64 -> 0 <= r_next (rw_reg w) < two64 - 1 ->
  go_RegisterNewWrkChain w moniker name genesis type owner =
    let s := rw_reg w in
    Ok (with_reg w {| r_params := r_params s; r_next := r_next s + 1;
                      r_regs := aset (r_next s)
                                  {| rg_id := r_next s; rg_owner := owner; rg_moniker := moniker; rg_name := name;
                                     rg_genesis := genesis; rg_type := type; rg_last := 0; rg_num := 0; rg_lowest := 0;
                                     rg_regtime := Time_Unix (rw_now w) |} (r_regs s);
                      r_limits := aset (r_next s) (rp_default_limit (r_params s)) (r_limits s);
                      r_recs := r_recs s |}, r_next s).
Proof. exact gen_wrk_RegisterNewWrkChain_eq. Qed.
Print Assumptions C09_generated_wrk_register.

(* by the equality with the model: a record or a purchase by anyone but the owner of a registered WRKChain fails (no
   state is returned), with the owner-check error whenever ValidateBasic accepts the message *)
Theorem C09_generated_wrk_owner_only : forall now wall s g (o : addr) id rg,
  reg_inv true s g -> reg_counters_small s -> 0 <= now / NSEC < two63 ->
  aget id (r_regs s) = Some rg -> o <> rg_owner rg ->
  (forall key hashes, List.length hashes = 5%nat ->
     exists c, wrk_msg_exec (mk_rworld now wall s) (RRecord o id key hashes) = Err c /\
       (reg_validate_basic true (RRecord o id key hashes) = Ok tt -> c = ERR_REG_NOT_OWNER)) /\
  (forall n, 0 <= n ->
     exists c, wrk_msg_exec (mk_rworld now wall s) (RPurchase o id n) = Err c /\
       (reg_validate_basic true (RPurchase o id n) = Ok tt -> c = ERR_REG_NOT_OWNER)).
Proof. exact gen_wrk_non_owner_rejected. Qed.
Print Assumptions C09_generated_wrk_owner_only.

(* examples: one WRKChain (id 1, owner 7), HighestWrkChainID = 2 *)
(* account 9 registers: it gets id 2, the counter becomes 3, the default limit 2 is stored, the first chain is untouched *)
Example C09_generated_wrk_register_ex :
  exists w', wrk_msg_exec (mk_rworld ex_now 0 ex_state) (RRegister 9 "x" "y" "0xdef" "cosmos") = Ok (w', RespRegistered 2) /\
    r_next (rw_reg w') = 3 /\ limit_of (rw_reg w') 2 = 2 /\
    aget 2 (r_regs (rw_reg w')) =
      Some {| rg_id := 2; rg_owner := 9; rg_moniker := "x"; rg_name := "y"; rg_genesis := "0xdef"; rg_type := "cosmos";
              rg_last := 0; rg_num := 0; rg_lowest := 0; rg_regtime := 1700000000 |} /\
    aget 1 (r_regs (rw_reg w')) = Some ex_rg.
Proof. eexists. split; [vm_compute; reflexivity|]. vm_compute. auto. Qed.

(* an empty moniker is refused *)
Example C09_generated_wrk_register_rejected_ex :
  wrk_msg_exec (mk_rworld ex_now 0 ex_state) (RRegister 9 "" "y" "0xdef" "cosmos") = Err ERR_REG.
Proof. vm_compute. reflexivity. Qed.

(* account 8 is not the owner of WRKChain 1 *)
Example C09_generated_wrk_owner_only_ex :
  wrk_msg_exec (mk_rworld ex_now 0 ex_state) (RRecord 8 1 100 (ex_hashes "b")) = Err ERR_REG_NOT_OWNER /\
  wrk_msg_exec (mk_rworld ex_now 0 ex_state) (RPurchase 8 1 3) = Err ERR_REG_NOT_OWNER /\
  (exists w', wrk_msg_exec (mk_rworld ex_now 0 ex_state) (RRecord 7 1 100 (ex_hashes "b")) = Ok (w', RespRecorded 1 100)).
Proof. split; [vm_compute; reflexivity|]. split; [vm_compute; reflexivity|]. eexists. vm_compute. reflexivity. Qed.
