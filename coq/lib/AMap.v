(* Association-list maps with replace-in-place / append-at-end insertion.
   Keys inserted in increasing order (sequential ids) therefore stay in store order.
   The lemmas live here (library), models only use the definitions. *)
From MC Require Import lib.Prelude.

Class EqKey (K : Type) := {
  keqb : K -> K -> bool;
  keqb_spec : forall a b, keqb a b = true <-> a = b
}.

#[global] Instance EqKey_Z : EqKey Z := {| keqb := Z.eqb; keqb_spec := Z.eqb_eq |}.

Lemma pair_keqb_spec {A B} `{EqKey A} `{EqKey B} (x y : A * B) :
  keqb (fst x) (fst y) && keqb (snd x) (snd y) = true <-> x = y.
Proof.
  destruct x as [a1 a2], y as [b1 b2]; cbn. rewrite andb_true_iff, !keqb_spec.
  split; [intros [-> ->]; reflexivity | intros E; inversion E; auto].
Qed.

#[global] Instance EqKey_pair {A B} `{EqKey A} `{EqKey B} : EqKey (A * B) :=
  {| keqb := fun x y => keqb (fst x) (fst y) && keqb (snd x) (snd y); keqb_spec := pair_keqb_spec |}.

Section AMap.
  Context {K V : Type} `{EqKey K}.

  Definition amap := list (K * V).

  Fixpoint aget (k : K) (m : amap) : option V :=
    match m with
    | [] => None
    | (k', v) :: r => if keqb k k' then Some v else aget k r
    end.

  Fixpoint aset (k : K) (v : V) (m : amap) : amap :=
    match m with
    | [] => [(k, v)]
    | (k', v') :: r => if keqb k k' then (k, v) :: r else (k', v') :: aset k v r
    end.

  Fixpoint adel (k : K) (m : amap) : amap :=
    match m with
    | [] => []
    | (k', v') :: r => if keqb k k' then r else (k', v') :: adel k r
    end.

  Definition ahas (k : K) (m : amap) : bool := match aget k m with Some _ => true | None => false end.
  Definition akeys (m : amap) : list K := map fst m.
  Definition avals (m : amap) : list V := map snd m.

  Definition asum (f : V -> Z) (m : amap) : Z := sumZ (map (fun kv => f (snd kv)) m).

  Lemma keqb_refl k : keqb k k = true.
  Proof. apply keqb_spec; reflexivity. Qed.

  Lemma keqb_neq a b : a <> b -> keqb a b = false.
  Proof. intros N. destruct (keqb a b) eqn:E; [apply keqb_spec in E; contradiction | reflexivity]. Qed.

  Lemma keqb_false a b : keqb a b = false -> a <> b.
  Proof. intros E ->. rewrite keqb_refl in E. discriminate. Qed.

  Lemma aget_aset_eq k v m : aget k (aset k v m) = Some v.
  Proof.
    induction m as [|[k' v'] r IH]; cbn.
    - rewrite keqb_refl; reflexivity.
    - destruct (keqb k k') eqn:E; cbn; [rewrite keqb_refl; reflexivity | rewrite E; exact IH].
  Qed.

  Lemma aget_aset_neq k k' v m : k <> k' -> aget k' (aset k v m) = aget k' m.
  Proof.
    intros N. induction m as [|[k2 v2] r IH]; cbn.
    - rewrite (keqb_neq k' k); auto.
    - destruct (keqb k k2) eqn:E; cbn.
      + apply keqb_spec in E; subst k2. rewrite (keqb_neq k' k); auto.
      + destruct (keqb k' k2); [reflexivity | exact IH].
  Qed.

  Lemma aget_In k v m : aget k m = Some v -> In (k, v) m.
  Proof.
    induction m as [|[k' v'] r IH]; cbn; [discriminate|].
    destruct (keqb k k') eqn:E.
    - apply keqb_spec in E; subst. intros [= ->]. left; reflexivity.
    - intros G; right; auto.
  Qed.

  Lemma aget_None_notin k m : aget k m = None -> ~ In k (akeys m).
  Proof.
    induction m as [|[k' v'] r IH]; cbn; [tauto|].
    destruct (keqb k k') eqn:E; [discriminate|].
    intros G [X|X]; [subst; rewrite keqb_refl in E; discriminate | exact (IH G X)].
  Qed.

  Lemma In_akeys_aget k m : In k (akeys m) -> exists v, aget k m = Some v.
  Proof.
    induction m as [|[k' v'] r IH]; cbn; [tauto|].
    intros [E|I].
    - subst. rewrite keqb_refl. eauto.
    - destruct (keqb k k'); eauto.
  Qed.

  Lemma akeys_aset_in k v m : In k (akeys m) -> akeys (aset k v m) = akeys m.
  Proof.
    induction m as [|[k' v'] r IH]; cbn; [tauto|].
    destruct (keqb k k') eqn:E; cbn.
    - apply keqb_spec in E; subst; reflexivity.
    - intros [X|X]; [subst; rewrite keqb_refl in E; discriminate | unfold akeys in *; cbn; rewrite IH; auto].
  Qed.

  Lemma akeys_aset_notin k v m : ~ In k (akeys m) -> akeys (aset k v m) = akeys m ++ [k].
  Proof.
    induction m as [|[k' v'] r IH]; cbn; [reflexivity|].
    intros N. destruct (keqb k k') eqn:E; cbn.
    - apply keqb_spec in E; subst; tauto.
    - unfold akeys in *; cbn. rewrite IH; tauto.
  Qed.

  Lemma NoDup_akeys_aset k v m : NoDup (akeys m) -> NoDup (akeys (aset k v m)).
  Proof.
    intros ND. destruct (in_dec (fun a b => match keqb a b as x return keqb a b = x -> {a=b}+{a<>b} with
                                   | true => fun E => left (proj1 (keqb_spec a b) E)
                                   | false => fun E => right (keqb_false a b E) end eq_refl) k (akeys m)) as [I|N].
    - rewrite akeys_aset_in; auto.
    - rewrite akeys_aset_notin; auto.
      clear -ND N. induction (akeys m) as [|x l IHl]; cbn.
      + constructor; [intros []|constructor].
      + inversion ND as [|? ? NI ND']; subst. constructor.
        * rewrite in_app_iff; cbn. intros [X|[X|[]]]; [tauto|subst; apply N; left; reflexivity].
        * apply IHl; auto. intros X; apply N; right; exact X.
  Qed.

  Lemma akeys_adel_incl k m x : In x (akeys (adel k m)) -> In x (akeys m).
  Proof.
    induction m as [|[k' v'] r IH]; cbn; [tauto|].
    destruct (keqb k k'); cbn; intuition.
  Qed.

  Lemma NoDup_akeys_adel k m : NoDup (akeys m) -> NoDup (akeys (adel k m)).
  Proof.
    induction m as [|[k' v'] r IH]; cbn; [auto|].
    intros ND; inversion ND as [|? ? NI ND']; subst.
    destruct (keqb k k'); cbn; [exact ND'|].
    constructor; [intros X; apply NI; eapply akeys_adel_incl; eauto | auto].
  Qed.

  Lemma aget_adel_eq k m : NoDup (akeys m) -> aget k (adel k m) = None.
  Proof.
    induction m as [|[k' v'] r IH]; cbn; [reflexivity|].
    intros ND; inversion ND as [|? ? NI ND']; subst.
    destruct (keqb k k') eqn:E; cbn.
    - apply keqb_spec in E; subst.
      destruct (aget k' r) eqn:G; [|reflexivity].
      exfalso; apply NI. apply aget_In in G. change k' with (fst (k', v)). apply in_map; exact G.
    - rewrite E; auto.
  Qed.

  Lemma aget_adel_neq k k' m : k <> k' -> aget k' (adel k m) = aget k' m.
  Proof.
    intros N. induction m as [|[k2 v2] r IH]; cbn; [reflexivity|].
    destruct (keqb k k2) eqn:E; cbn.
    - apply keqb_spec in E; subst. rewrite (keqb_neq k' k2); auto.
    - destruct (keqb k' k2); auto.
  Qed.

  Lemma asum_aset f k v m :
    asum f (aset k v m) = asum f m - match aget k m with Some o => f o | None => 0 end + f v.
  Proof.
    unfold asum. induction m as [|[k' v'] r IH]; cbn; [lia|].
    destruct (keqb k k') eqn:E; cbn; [lia | rewrite IH; lia].
  Qed.

  Lemma asum_adel f k m :
    asum f (adel k m) = asum f m - match aget k m with Some o => f o | None => 0 end.
  Proof.
    unfold asum. induction m as [|[k' v'] r IH]; cbn; [lia|].
    destruct (keqb k k') eqn:E; cbn; [lia | rewrite IH; lia].
  Qed.

End AMap.

Arguments amap K V : clear implicits.
