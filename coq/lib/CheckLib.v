(* Helpers shared by the executable correspondence checkers (model/*Check.v). *)
From MC Require Import lib.Prelude.

Fixpoint bad_indices {A} (f : A -> bool) (i : nat) (l : list A) : list nat :=
  match l with
  | [] => []
  | x :: r => if f x then bad_indices f (S i) r else i :: bad_indices f (S i) r
  end.

(* indices i of l for which some j <> i has  rel (l_i, l_j) = false *)
Fixpoint bad_pairs_from {A} (rel : A -> A -> bool) (x : A) (l : list A) : bool :=
  match l with [] => true | y :: r => rel x y && bad_pairs_from rel x r end.

Fixpoint bad_pair_indices {A} (rel : A -> A -> bool) (i : nat) (l : list A) : list nat :=
  match l with
  | [] => []
  | x :: r => if bad_pairs_from rel x r then bad_pair_indices rel (S i) r else i :: bad_pair_indices rel (S i) r
  end.

Definition opt_eqb {A} (eqb : A -> A -> bool) (a b : option A) : bool :=
  match a, b with
  | None, None => true
  | Some x, Some y => eqb x y
  | _, _ => false
  end.

Fixpoint list_eqb {A} (eqb : A -> A -> bool) (a b : list A) : bool :=
  match a, b with
  | [], [] => true
  | x :: r, y :: s => eqb x y && list_eqb eqb r s
  | _, _ => false
  end.
