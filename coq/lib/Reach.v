(* Reachability in a finite graph given as adjacency lists over string node names.
   A candidate closed set is supplied from outside (the translator computes it); Coq checks that
   it contains the roots and is closed under successors, which is sound for "nothing outside the
   set is reachable" by the lemma below. *)
From Coq Require Import List String Bool.
Import ListNotations.
Open Scope string_scope.

Definition graph := list (string * list string).

Fixpoint succs (g : graph) (n : string) : list string :=
  match g with
  | [] => []
  | (m, l) :: r => if String.eqb n m then l else succs r n
  end.

Definition mem (x : string) (l : list string) : bool := existsb (String.eqb x) l.

Definition closed (g : graph) (S : list string) : bool :=
  forallb (fun n => forallb (fun m => mem m S) (succs g n)) S.

Definition subset (a b : list string) : bool := forallb (fun x => mem x b) a.

Inductive path (g : graph) : string -> string -> Prop :=
| path_refl n : path g n n
| path_step n m x : In m (succs g n) -> path g m x -> path g n x.

Lemma mem_In x l : mem x l = true <-> In x l.
Proof.
  unfold mem. rewrite existsb_exists. split.
  - intros [y [Hy E]]. apply String.eqb_eq in E. subst; exact Hy.
  - intros H. exists x. split; [exact H | apply String.eqb_refl].
Qed.

Lemma closed_sound g S : closed g S = true ->
  forall r x, In r S -> path g r x -> In x S.
Proof.
  intros C r x Hr P. induction P as [n | n m x Hm P IH]; [exact Hr|].
  apply IH. unfold closed in C. rewrite forallb_forall in C.
  specialize (C n Hr). rewrite forallb_forall in C. apply mem_In. apply C. exact Hm.
Qed.

(* nothing reachable from the roots lies outside S *)
Theorem unreachable_outside g S roots x :
  closed g S = true -> subset roots S = true -> mem x S = false ->
  forall r, In r roots -> ~ path g r x.
Proof.
  intros C Sub NM r Hr P.
  assert (In r S) as HrS.
  { unfold subset in Sub. rewrite forallb_forall in Sub. apply mem_In. apply Sub. exact Hr. }
  pose proof (closed_sound g S C r x HrS P) as HxS.
  apply mem_In in HxS. rewrite HxS in NM. discriminate.
Qed.

(* functions carrying a flagged effect: those inside the closed set are listed by [flagged_in];
   every other flagged function is unreachable from the roots *)
Definition flagged_in (bad : list string -> bool) (S : list string) (effs : list (string * list string))
  : list (string * list string) :=
  filter (fun e => mem (fst e) S && bad (snd e)) effs.

Theorem flagged_outside_unreachable g S roots effs bad :
  closed g S = true -> subset roots S = true ->
  forall n es, In (n, es) effs -> bad es = true ->
    mem n (map fst (flagged_in bad S effs)) = false ->
    forall r, In r roots -> ~ path g r n.
Proof.
  intros C Sub n es Hin Hbad Hnot r Hr.
  apply (unreachable_outside g S roots n C Sub); [|exact Hr].
  destruct (mem n S) eqn:E; [|reflexivity].
  exfalso.
  assert (In (n, es) (flagged_in bad S effs)) as X.
  { unfold flagged_in. apply filter_In. split; [exact Hin|]. cbn [fst snd]. rewrite E, Hbad. reflexivity. }
  assert (mem n (map fst (flagged_in bad S effs)) = true) as Y.
  { apply mem_In. change n with (fst (n, es)). apply in_map. exact X. }
  rewrite Y in Hnot. discriminate.
Qed.

Definition callers (g : graph) (x : string) : list string :=
  map fst (filter (fun e => mem x (snd e)) g).
