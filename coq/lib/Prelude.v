(* Shared basics: outcomes (a Go panic is a value, never a totalised default),
   machine integers as Go computes them, small list helpers. *)
From Coq Require Export ZArith List Bool Lia String Ascii.
Export ListNotations.
Open Scope Z_scope.

Inductive outcome (A : Type) : Type :=
| Ok (a : A)
| Err (code : Z)        (* an ordinary Go error; code = ABCI error code where it matters *)
| Panic (code : Z).     (* a Go panic (recovered by runTx inside a tx; fatal in a block hook) *)
Arguments Ok {A} a.
Arguments Err {A} code.
Arguments Panic {A} code.

Definition obind {A B} (o : outcome A) (f : A -> outcome B) : outcome B :=
  match o with Ok a => f a | Err c => Err c | Panic c => Panic c end.
Notation "'do' x <- o ; k" := (obind o (fun x => k)) (at level 200, x pattern, o at level 100, k at level 200).

Definition is_ok {A} (o : outcome A) : bool := match o with Ok _ => true | _ => false end.

(* Go machine integers *)
Definition two64 : Z := 18446744073709551616.
Definition two63 : Z := 9223372036854775808.
Definition wrap64 (z : Z) : Z := z mod two64.                       (* uint64 arithmetic *)
Definition i64_of (z : Z) : Z := (z + two63) mod two64 - two63.    (* int64 conversion / wrap *)
Definition u64_max : Z := two64 - 1.
Definition i64_max : Z := two63 - 1.

Definition zmin := Z.min.
Definition zmax := Z.max.

Fixpoint sumZ (l : list Z) : Z := match l with [] => 0 | x :: r => x + sumZ r end.
