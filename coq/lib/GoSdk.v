(* Semantics of the small slice of Go / cosmos-sdk API that the translated pure functions use
   (coq/GeneratedFns.v is produced from /repo's Go source by the translator; every Go call it meets is
   mapped to one of the functions below).  This file is the trusted description of that API:
   sdk.Int = unbounded integer (the 256-bit overflow panic of sdk.Int is out of reach for the amounts
   considered: stated where used), sdk.Dec = integer scaled by 10^18 (LegacyDec), sdk.Coin =
   (denomination, amount), time.Time = nanoseconds since the Unix epoch, int64 / uint64 as Z with the
   conversions Go performs.  A Go panic is the [Panic] outcome. *)
From MC Require Import lib.Prelude.

Definition go_int := Z.           (* sdk.Int *)
Definition go_dec := Z.           (* sdk.Dec: value * 10^18 *)
Definition go_denom := Z.         (* a denomination string, abstract (as in model/Bank.v) *)
Definition go_coin := (go_denom * Z)%type.
Definition go_addr := Z.          (* an account address, or the bech32 string spelling it: abstract (as in model/Bank.v) *)
Definition go_zero_addr : go_addr := -100.     (* the empty address / empty string: nobody *)
Definition go_time := Z.          (* ns since epoch *)

Definition PREC : Z := 1000000000000000000.
Definition NSEC : Z := 1000000000.

Definition GO_PANIC_INT64 : Z := 2.      (* "Int64() out of bound" *)
Definition GO_PANIC_NEGCOIN : Z := 4.    (* "negative coin amount" *)
Definition GO_PANIC_DENOM : Z := 20.     (* "invalid coin denominations" *)

(* ---- integer conversions ---- *)
Definition go_uint64_of_int64 (x : Z) : Z := wrap64 x.          (* uint64(x) *)
Definition go_int64_of_uint64 (x : Z) : Z := i64_of x.          (* int64(x) *)
Definition go_int64_of_int (x : Z) : Z := x.                    (* int64(t.Nanosecond()) etc.: in range *)

(* ---- sdk.Int ---- *)
Definition sdk_NewInt (x : Z) : go_int := x.                    (* sdk.NewInt(int64) *)
Definition sdk_NewIntFromUint64 (x : Z) : go_int := x.          (* argument already a uint64 value *)
Definition Int_GT (a b : go_int) : bool := b <? a.
Definition Int_LT (a b : go_int) : bool := a <? b.
Definition Int_Mul (a b : go_int) : go_int := a * b.
Definition Int_IsZero (a : go_int) : bool := a =? 0.

(* ---- sdk.Dec (LegacyDec) ---- *)
Definition sdk_NewDecFromInt (i : go_int) : go_dec := i * PREC.
(* d.QuoTruncateMut(d2): (d * 10^36 / d2) chopped by 10^18, both truncating toward zero *)
Definition Dec_QuoTruncate (d d2 : go_dec) : go_dec := Z.quot (Z.quot (d * PREC * PREC) d2) PREC.
(* d.Mul(d2): d*d2 / 10^18 with banker's rounding at the last digit *)
Definition Dec_Mul (d d2 : go_dec) : go_dec :=
  let p := d * d2 in
  let q := Z.quot (Z.abs p) PREC in
  let r := Z.rem (Z.abs p) PREC in
  let q' := if r * 2 <? PREC then q
            else if PREC <? r * 2 then q + 1
            else (if Z.even q then q else q + 1) in
  if p <? 0 then - q' else q'.
Definition Dec_GT (a b : go_dec) : bool := b <? a.
Definition Dec_TruncateInt (d : go_dec) : go_int := Z.quot d PREC.
Definition Dec_TruncateInt64 (d : go_dec) : outcome Z :=
  let t := Z.quot d PREC in
  if (- two63 <=? t) && (t <? two63) then Ok t else Panic GO_PANIC_INT64.

(* ---- sdk.Coin / sdk.DecCoin ---- *)
Definition Coin_Denom (c : go_coin) : go_denom := fst c.
Definition Coin_Amount (c : go_coin) : go_int := snd c.
Definition sdk_NewCoin (d : go_denom) (a : go_int) : outcome go_coin :=
  if a <? 0 then Panic GO_PANIC_NEGCOIN else Ok (d, a).
(* NewDecCoinFromCoin validates the coin (panics on a negative amount); .Amount is the Dec *)
Definition sdk_NewDecCoinFromCoin_Amount (c : go_coin) : outcome go_dec :=
  if snd c <? 0 then Panic GO_PANIC_NEGCOIN else Ok (sdk_NewDecFromInt (snd c)).
Definition Coin_Sub (a b : go_coin) : outcome go_coin :=
  if negb (fst a =? fst b) then Panic GO_PANIC_DENOM
  else if snd a - snd b <? 0 then Panic GO_PANIC_NEGCOIN else Ok (fst a, snd a - snd b).
Definition go_zero_denom : go_denom := -1.     (* the empty string: no valid denomination *)
Definition go_zero_coin : go_coin := (go_zero_denom, 0).   (* sdk.Coin{} (its nil amount reads as 0) *)
Definition Coin_Add (a b : go_coin) : outcome go_coin :=
  if negb (fst a =? fst b) then Panic GO_PANIC_DENOM else Ok (fst a, snd a + snd b).
(* a.IsLT(b): panics on different denominations *)
Definition Coin_IsLT (a b : go_coin) : outcome bool :=
  if negb (fst a =? fst b) then Panic GO_PANIC_DENOM else Ok (snd a <? snd b).
Definition Coin_IsNil (c : go_coin) : bool := false.         (* amounts are never the nil Int here *)
Definition Coin_IsNegative (c : go_coin) : bool := snd c <? 0.
Definition Coin_IsZero (c : go_coin) : bool := snd c =? 0.

(* ---- time.Time ---- *)
Definition Time_Unix (t : go_time) : Z := t / NSEC.
Definition Time_Nanosecond (t : go_time) : Z := t mod NSEC.
Definition Time_After (a b : go_time) : bool := b <? a.
Definition Time_Before (a b : go_time) : bool := a <? b.
Definition Time_Equal (a b : go_time) : bool := a =? b.
Definition Time_UTC (a : go_time) : go_time := a.
(* time.Unix(sec, nsec) for 0 <= nsec < 10^9 (the only use: nsec is a Nanosecond() value or 0) *)
Definition Time_FromUnix (sec nsec : Z) : go_time := sec * NSEC + nsec.
Definition go_zero_time : go_time := -62135596800 * NSEC.     (* time.Time{}: 1 Jan of year 1 *)

(* int64 arithmetic as Go performs it (wrap-around) *)
Definition i64_sub (a b : Z) : Z := i64_of (a - b).
Definition i64_add (a b : Z) : Z := i64_of (a + b).
Definition i64_mul (a b : Z) : Z := i64_of (a * b).
(* uint64 arithmetic (wrap-around) *)
Definition u64_add (a b : Z) : Z := wrap64 (a + b).
Definition u64_sub (a b : Z) : Z := wrap64 (a - b).
Definition u64_mul (a b : Z) : Z := wrap64 (a * b).

(* len(s) of a Go string: bytes *)
Definition go_len (s : string) : Z := Z.of_nat (String.length s).
(* addr.String(): the bech32 spelling, abstract *)
Definition Addr_String (a : go_addr) : go_addr := a.
Definition Addr_Empty (a : go_addr) : bool := a =? go_zero_addr.

(* `x, err := f(..); if err != nil { return .., Wrap(E, ..) }`: an error of f is replaced by E *)
Definition map_err {A} (c : Z) (o : outcome A) : outcome A :=
  match o with Err _ => Err c | _ => o end.

(* ---- sdk.Coins: a list of coins; the code translated so far only builds them with sdk.NewCoins(one coin) or receives a
   fee (valid: pairwise distinct denominations, positive amounts) ---- *)
Definition GO_PANIC_COINS : Z := 1.      (* "invalid coin set" *)
Definition GO_PANIC_NILCOIN : Z := 22.   (* a method called on the nil Int of the zero value sdk.Coin{} *)
(* sdk.NewCoins(c): validates, drops a zero coin *)
Definition sdk_NewCoins1 (c : go_coin) : outcome (list go_coin) :=
  if snd c <? 0 then Panic GO_PANIC_COINS else if snd c =? 0 then Ok [] else Ok [c].
Definition Coins_AmountOf (cs : list go_coin) (d : go_denom) : go_int :=
  fold_right (fun c acc => if fst c =? d then snd c + acc else acc) 0 cs.
(* cs.Find(d): the zero value Coin{} when absent *)
Definition Coins_Find (cs : list go_coin) (d : go_denom) : bool * go_coin :=
  match find (fun c => fst c =? d) cs with Some c => (true, c) | None => (false, go_zero_coin) end.
Definition Coins_Empty (cs : list go_coin) : bool := match cs with [] => true | _ => false end.
Definition Coins_sub1 (cs : list go_coin) (c : go_coin) : list go_coin :=
  if existsb (fun x => fst x =? fst c) cs
  then map (fun x => if fst x =? fst c then (fst x, snd x - snd c) else x) cs
  else cs ++ [(fst c, - snd c)].
(* cs.SafeSub(c) = cs.safeAdd(NewCoins(c).negative()): (difference, "some amount of it is negative").
   Coin{} (denomination go_zero_denom) has a nil amount: NewCoins dereferences it. *)
Definition Coins_SafeSub1 (cs : list go_coin) (c : go_coin) : outcome (list go_coin * bool) :=
  if fst c =? go_zero_denom then Panic GO_PANIC_NILCOIN
  else if snd c <? 0 then Panic GO_PANIC_COINS
  else
    let r := if snd c =? 0 then cs else Coins_sub1 cs c in
    Ok (filter (fun x => negb (snd x =? 0)) r, existsb (fun x => snd x <? 0) r).
Definition Coins_add1 (cs : list go_coin) (c : go_coin) : list go_coin :=
  if existsb (fun x => fst x =? fst c) cs
  then map (fun x => if fst x =? fst c then (fst x, snd x + snd c) else x) cs
  else cs ++ [c].
(* a.Add(b...) *)
Definition Coins_AddAll (a b : list go_coin) : outcome (list go_coin) := Ok (fold_left Coins_add1 b a).
Definition Coin_IsPositive (c : go_coin) : bool := 0 <? snd c.

(* ---- `for _, x := range xs { .. }`: the body maps the loop state to "continue with this state" or "return this
   value from the function"; errors and panics propagate through the outcome ---- *)
Inductive loop_res (S R : Type) : Type := LCont (s : S) | LRet (r : R).
Arguments LCont {S R} s.
Arguments LRet {S R} r.
Fixpoint go_range {A S R : Type} (body : A -> S -> outcome (loop_res S R)) (xs : list A) (s : S) : outcome (loop_res S R) :=
  match xs with
  | [] => Ok (LCont s)
  | x :: rest =>
      do res <- body x s;
      match res with
      | LCont s' => go_range body rest s'
      | LRet v => Ok (LRet v)
      end
  end.
Definition go_len_list {A} (l : list A) : Z := Z.of_nat (List.length l).
(* `err := f(..); if err != nil { panic(err) }` *)
Definition panic_on_err {A} (c : Z) (o : outcome A) : outcome A :=
  match o with Err _ => Panic c | _ => o end.
Definition go_append {A} (l : list A) (x : A) : list A := l ++ [x].
Definition Addr_Equals (a b : go_addr) : bool := a =? b.
(* c.IsValid(): a well-formed denomination and a non-negative amount *)
Definition Coin_IsValid (c : go_coin) : bool := (0 <=? fst c) && (0 <=? snd c).
(* a call whose error result is dropped on the floor: a failing call changes nothing, execution goes on *)
Definition ignore_err {W} (w : W) (o : outcome (W * unit)) : outcome (W * unit) :=
  match o with Err _ => Ok (w, tt) | _ => o end.
(* v, _ := f(..): on error v is the zero value *)
Definition drop_err {A} (z : A) (o : outcome A) : outcome A :=
  match o with Err _ => Ok z | _ => o end.
(* xs[i]: out of range panics *)
Definition GO_PANIC_INDEX : Z := 9.
Definition go_index {A} (l : list A) (i : Z) : outcome A :=
  if i <? 0 then Panic GO_PANIC_INDEX else
  match nth_error l (Z.to_nat i) with Some x => Ok x | None => Panic GO_PANIC_INDEX end.
(* a nil slice: ranging over it does nothing, like over an empty one *)
Definition go_is_nil {A} (l : list A) : bool := match l with [] => true | _ => false end.
(* coins.IsZero(): no coin with a non-zero amount *)
Definition Coins_IsZero (cs : list go_coin) : bool := forallb (fun c => snd c =? 0) cs.
(* coins.Add(c): the zero coin is dropped *)
Definition Coins_AddCoin (cs : list go_coin) (c : go_coin) : outcome (list go_coin) :=
  Ok (filter (fun x => negb (snd x =? 0)) (Coins_add1 cs c)).
(* a.IsEqual(b) (cosmos-sdk v0.47): false for different lengths; otherwise compares position by position after
   sorting and PANICS when two denominations differ (Coin.IsEqual) *)
Fixpoint Coins_eq_sorted (a b : list go_coin) : outcome bool :=
  match a, b with
  | [], [] => Ok true
  | x :: a', y :: b' =>
      if negb (fst x =? fst y) then Panic GO_PANIC_DENOM
      else if negb (snd x =? snd y) then Ok false else Coins_eq_sorted a' b'
  | _, _ => Ok false
  end.
Fixpoint insert_coin (c : go_coin) (l : list go_coin) : list go_coin :=
  match l with [] => [c] | x :: r => if fst c <=? fst x then c :: l else x :: insert_coin c r end.
Definition Coins_IsEqual (a b : list go_coin) : outcome bool :=
  if negb (Nat.eqb (List.length a) (List.length b)) then Ok false
  else Coins_eq_sorted (fold_right insert_coin [] a) (fold_right insert_coin [] b).

(* ---- parameter validation helpers ---- *)
Definition Dec_IsNil (d : go_dec) : bool := false.               (* a decoded Dec is never the nil one *)
Definition Dec_IsNegative (d : go_dec) : bool := d <? 0.
Definition Dec_One : go_dec := PREC.                              (* math.LegacyOneDec() *)
(* denominations are abstract: a negative one stands for a string that is blank or not a valid denomination *)
Definition Denom_IsBlank (d : go_denom) : bool := d =? go_zero_denom.
Definition sdk_ValidateDenom (d : go_denom) : outcome unit := if 0 <=? d then Ok tt else Err 1.
(* the length of the comma-separated signers string: zero exactly for the empty list *)
Definition Signers_strlen (l : list go_addr) : Z := Z.of_nat (List.length l).

(* a module account handle (Get<Module>Account): nil when the account is not set *)
Definition go_modacc := option go_addr.
Definition modacc_is_nil (m : go_modacc) : bool := match m with None => true | Some _ => false end.
Definition modacc_addr (m : go_modacc) : go_addr := match m with Some a => a | None => go_zero_addr end.

(* ---- `for i, x := range xs { .. }`: as go_range, the body also receives the index ---- *)
Fixpoint go_range_from {A S R : Type} (body : Z -> A -> S -> outcome (loop_res S R)) (i : Z) (xs : list A) (s : S)
  : outcome (loop_res S R) :=
  match xs with
  | [] => Ok (LCont s)
  | x :: rest =>
      do res <- body i x s;
      match res with
      | LCont s' => go_range_from body (i + 1) rest s'
      | LRet v => Ok (LRet v)
      end
  end.
Definition go_range_i {A S R : Type} (body : Z -> A -> S -> outcome (loop_res S R)) (xs : list A) (s : S) :=
  go_range_from body 0 xs s.
(* xs[i] = v: out of range panics *)
Fixpoint list_set {A} (l : list A) (n : nat) (v : A) : list A :=
  match l, n with
  | [], _ => []
  | _ :: r, O => v :: r
  | x :: r, S n' => x :: list_set r n' v
  end.
Definition go_set_index {A} (l : list A) (i : Z) (v : A) : outcome (list A) :=
  if (i <? 0) || (go_len_list l <=? i) then Panic GO_PANIC_INDEX else Ok (list_set l (Z.to_nat i) v).

(* ---- the deferred-error idiom: `v.., err := f(..)` ... `return .., err` for an f that returns zero values with its
   error: execution goes on with the zero values, the return statements deliver the error ---- *)
Definition catch_err {A} (z : A) (o : outcome A) : outcome (A * option Z) :=
  match o with Ok v => Ok (v, None) | Err c => Ok (z, Some c) | Panic c => Panic c end.
Definition ret_err {A} (e : option Z) (o : outcome A) : outcome A :=
  match e with Some c => match o with Panic p => Panic p | _ => Err c end | None => o end.

(* i.Uint64(): panics outside [0, 2^64) *)
Definition GO_PANIC_UINT64 : Z := 24.    (* "Uint64() out of bounds" *)
Definition Int_Uint64 (i : go_int) : outcome Z :=
  if (0 <=? i) && (i <? 18446744073709551616) then Ok i else Panic GO_PANIC_UINT64.

(* ---- query.PageRequest / query.PageResponse.  A page request is represented by WHAT IT SELECTS from an ordered
   listing of coins (the only paginated listing the translated code hands one to is the bank's total supply): any
   function from the listing to a page, or an error.  Theorems about code taking a page request quantify over all such
   functions, hence over all keys, offsets, limits, count-total and reverse flags. ---- *)
Definition go_PageResponse : Type := (list go_denom * Z)%type.      (* NextKey (the denomination it names), Total *)
Definition go_zero_PageResponse : go_PageResponse := ([], 0).
Definition go_PageRequest : Type := list go_coin -> outcome (list go_coin * go_PageResponse).
(* a nil request: the first 100 entries, Total counted *)
Definition go_zero_PageRequest : go_PageRequest :=
  fun cs => Ok (firstn 100 cs, (match nth_error cs 100 with Some c => [fst c] | None => [] end, Z.of_nat (List.length cs))).

(* ---- address strings in the list-query filters: addresses are abstract, so of a bech32 string only its emptiness
   (len(s) > 0) and the address it denotes are observable; strings.EqualFold of two bech32 strings compares the
   addresses (bech32 is case-insensitive as a whole; stored addresses are in canonical lower case) ---- *)
Definition AddrStr_len (a : go_addr) : Z := if a =? go_zero_addr then 0 else 1.
Definition AddrStr_EqualFold (a b : go_addr) : bool := a =? b.

(* ---- map[uint64]V as an association list in first-insertion order: m[k] is the zero value for an absent key;
   m[k] = v replaces in place or appends.  Go's iteration order over a map is unspecified; a `range` over such a list
   visits the entries in first-insertion order, and the theorems about those loops do not depend on the order. ---- *)
Fixpoint go_map_get {V} (zero : V) (m : list (Z * V)) (k : Z) : V :=
  match m with
  | [] => zero
  | (k', v) :: r => if k' =? k then v else go_map_get zero r k
  end.
Fixpoint go_map_set {V} (m : list (Z * V)) (k : Z) (v : V) : list (Z * V) :=
  match m with
  | [] => [(k, v)]
  | (k', v') :: r => if k' =? k then (k, v) :: r else (k', v') :: go_map_set r k v
  end.
(* coins.IsValid(): positive amounts, well-formed denominations, each denomination once (sdk: strictly ascending by
   denomination - the order of abstract denominations carries no meaning, the absence of duplicates does) *)
Fixpoint denoms_distinct (cs : list go_coin) : bool :=
  match cs with
  | [] => true
  | c :: r => negb (existsb (fun x => fst x =? fst c) r) && denoms_distinct r
  end.
Definition Coins_IsValid (cs : list go_coin) : bool :=
  forallb (fun c => (0 <? snd c) && (0 <=? fst c)) cs && denoms_distinct cs.

(* ---- gRPC status codes (google.golang.org/grpc/codes), used as error classes by the query servers ---- *)
Definition grpc_codes_InvalidArgument : Z := 3.
Definition grpc_codes_NotFound : Z := 5.
Definition grpc_codes_Internal : Z := 13.
