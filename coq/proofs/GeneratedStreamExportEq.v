(* The genesis export generated from /repo/x/stream/keeper/genesis.go (go_ExportGenesis, go_NewGenesisState in
   GeneratedStreamKeeper.v, re-generated on every run) against the hand-written model of genesis export
   (model/Genesis.v: export_str), read through the vocabulary of model/StreamGenesisGenSpec.v ([gen_str_of_go],
   [fresh_kworld]).  The Go code iterates over every stored stream with a callback (k.IterateAllStreams); the translator
   renders it as a `go_range` over the primitive [str_AllStreams] (model/StreamKeeperPrims.v).

   Structure (no temporary of the generated file is mentioned; the loop is picked from the goal, its body is never named):
     part 1  a loop that appends one element per iteration ([go_range_append]); the protobuf struct and the model's
             record ([of_to_go_stream]);
     part 2  ExportGenesis on EVERY world, no hypothesis: the document ([gen_str_ExportGenesis_run]), read as the
             model's it is [export_str] ([gen_str_ExportGenesis_eq]), never an error or a panic, one entry per stored
             stream in the model's order with exactly the stored pair and stream ([gen_str_ExportGenesis_entries]);
     part 3  what [str_inv] (the invariant of reachable states, model/StreamSpec.v) and [bank_wf] give about the exported
             document: the hypotheses of the InitGenesis theorems of proofs/GeneratedStreamGenesisEq.v;
     part 4  export, then import into a fresh store (go_InitGenesis), then export again: the identical document;
     part 5  a concrete world with two streams; the hypotheses of the round trip cannot be dropped. *)
From Coq Require Import ZifyBool.
From MC Require Import lib.Prelude lib.AMap lib.GoSdk GeneratedFns GeneratedStreamTypes model.Bank model.Stream model.StreamSpec
  model.Genesis model.StreamKeeperPrims GeneratedStreamKeeper model.StreamGenesisGenSpec.
From MC Require Import proofs.BankProofs proofs.RegistryProofs proofs.StreamProofs proofs.AppParamsProofs proofs.GenesisLib
  proofs.GenesisProofs proofs.GeneratedStreamGenesisEq.
Local Open Scope Z_scope.

#[local] Arguments go_range : simpl never.
#[local] Arguments Z.add : simpl never.
#[local] Arguments Z.sub : simpl never.
#[local] Arguments Z.ltb : simpl never.
#[local] Arguments Z.leb : simpl never.
#[local] Arguments Z.eqb : simpl never.

(* ================================================================= *)
(* 1. the loop; the two representations of a stream                   *)
(* ================================================================= *)

(* every iteration appends one element computed from the loop variable *)
Lemma go_range_append {A B R} (body : A -> list B -> outcome (loop_res (list B) R)) (F : A -> B) :
  (forall x s, body x s = Ok (LCont (s ++ [F x]))) ->
  forall l s, go_range body l s = Ok (LCont (s ++ map F l)).
Proof.
  intros E l. induction l as [|x l IH]; intros s.
  - rewrite go_range_nil. cbn [map]. rewrite app_nil_r. reflexivity.
  - rewrite go_range_cons, E. cbn [obind map]. rewrite IH, <- app_assoc. reflexivity.
Qed.

Lemma of_to_go_stream st : of_go_stream (to_go_stream st) = st.
Proof. destruct st; reflexivity. Qed.

(* ================================================================= *)
(* 2. ExportGenesis                                                   *)
(* ================================================================= *)

(* what ExportGenesis appends for one visited stream: receiver, sender (as strings) and the stream, in this order *)
Definition go_str_export_entry (e : go_StreamExport) : go_StreamExport :=
  mk_go_StreamExport (Addr_String (StreamExport_Receiver e)) (Addr_String (StreamExport_Sender e)) (StreamExport_Stream e).

Lemma go_str_export_entry_id e : go_str_export_entry e = e.
Proof. destruct e; reflexivity. Qed.

(* the document ExportGenesis writes *)
Definition str_export_doc (w : kworld) : go_GenesisState :=
  mk_go_GenesisState (mk_go_Params (s_valfee (kw_str w)))
    (map (fun kv => mk_go_StreamExport (fst (fst kv)) (snd (fst kv)) (to_go_stream (snd kv))) (s_streams (kw_str w))).

(* on every world: never an error, never a panic *)
Theorem gen_str_ExportGenesis_run : forall w, go_ExportGenesis w = Ok (str_export_doc w).
Proof.
  intros w. unfold go_ExportGenesis.
  match goal with
  | |- context [go_range ?b (str_AllStreams w) ?s0] => rewrite (go_range_append b go_str_export_entry)
  end.
  - cbn [obind app]. unfold go_NewGenesisState. cbn [obind].
    rewrite (map_ext _ (fun e => e) go_str_export_entry_id), map_id. reflexivity.
  - intros x s. unfold go_append. reflexivity.
Qed.

Theorem gen_str_of_export_doc : forall w, gen_str_of_go (str_export_doc w) = export_str (kw_str w).
Proof.
  intros w. unfold gen_str_of_go, str_export_doc, export_str.
  cbn [GenesisState_Params GenesisState_Streams Params_ValidatorFee]. f_equal.
  rewrite map_map. rewrite <- (map_id (s_streams (kw_str w))) at 2. apply map_ext.
  intros [[r sn] st]. cbn [StreamExport_Receiver StreamExport_Sender StreamExport_Stream fst snd].
  rewrite of_to_go_stream. reflexivity.
Qed.

(* the generated ExportGenesis is the model's export, on EVERY world *)
Theorem gen_str_ExportGenesis_eq : forall w,
  exists g, go_ExportGenesis w = Ok g /\ gen_str_of_go g = export_str (kw_str w).
Proof. intros w. exists (str_export_doc w). split; [apply gen_str_ExportGenesis_run | apply gen_str_of_export_doc]. Qed.

Theorem gen_str_ExportGenesis_ok : forall w g,
  go_ExportGenesis w = Ok g -> gen_str_of_go g = export_str (kw_str w).
Proof. intros w g H. rewrite gen_str_ExportGenesis_run in H. injection H as <-. apply gen_str_of_export_doc. Qed.

(* ExportGenesis never fails and never panics *)
Theorem gen_str_ExportGenesis_total : forall w,
  (exists g, go_ExportGenesis w = Ok g) /\ (forall e, go_ExportGenesis w <> Err e) /\ (forall c, go_ExportGenesis w <> Panic c).
Proof.
  intros w. rewrite gen_str_ExportGenesis_run. split; [eexists; reflexivity|]. split; intros ? H; discriminate H.
Qed.

(* ExportGenesis reads the stream store only: neither the clock nor the bank *)
Theorem gen_str_ExportGenesis_store_only : forall w w', kw_str w = kw_str w' -> go_ExportGenesis w = go_ExportGenesis w'.
Proof. intros w w' E. rewrite !gen_str_ExportGenesis_run. unfold str_export_doc. rewrite E. reflexivity. Qed.

(* the exported document: the stored fee; one entry per stored stream, in the model's order, carrying exactly the stored
   (receiver, sender) pair and the stored stream *)
Theorem gen_str_ExportGenesis_entries : forall w g,
  go_ExportGenesis w = Ok g ->
  Params_ValidatorFee (GenesisState_Params g) = s_valfee (kw_str w) /\
  List.length (GenesisState_Streams g) = List.length (s_streams (kw_str w)) /\
  (forall i r sn st, nth_error (s_streams (kw_str w)) i = Some ((r, sn), st) ->
                     nth_error (GenesisState_Streams g) i = Some (mk_go_StreamExport r sn (to_go_stream st))) /\
  map (fun e => ((StreamExport_Receiver e, StreamExport_Sender e), of_go_stream (StreamExport_Stream e)))
      (GenesisState_Streams g) = s_streams (kw_str w).
Proof.
  intros w g H. pose proof (gen_str_ExportGenesis_ok w g H) as M.
  rewrite gen_str_ExportGenesis_run in H. injection H as <-.
  split; [reflexivity|]. split; [apply map_length|]. split.
  - intros i r sn st Hn. unfold str_export_doc. cbn [GenesisState_Streams].
    exact (map_nth_error _ _ _ Hn).
  - exact (f_equal gs_streams M).
Qed.

(* ================================================================= *)
(* 3. the exported document of a reachable state                      *)
(* ================================================================= *)

Lemma str_export_doc_keys w : str_doc_keys (str_export_doc w) = akeys (s_streams (kw_str w)).
Proof.
  unfold str_doc_keys, str_export_doc, akeys. cbn [GenesisState_Streams]. rewrite map_map. apply map_ext.
  intros [[r sn] st]. reflexivity.
Qed.

Lemma str_export_doc_storable w now :
  NoDup (akeys (s_streams (kw_str w))) -> streams_ok now (kw_str w) ->
  Forall stream_storable (GenesisState_Streams (str_export_doc w)).
Proof.
  intros K S. apply Forall_forall. intros e Hin. unfold str_export_doc in Hin. cbn [GenesisState_Streams] in Hin.
  apply in_map_iff in Hin. destruct Hin as ([k st] & <- & Hin). apply (In_aget_NoDup _ _ _ K) in Hin.
  pose proof (S k st Hin) as O. split; [exact (so_lot_storable _ _ O) | exact (so_dzt_storable _ _ O)].
Qed.

Lemma asum_nonneg {K V} (f : V -> Z) (m : list (K * V)) :
  (forall kv, In kv m -> 0 <= f (snd kv)) -> 0 <= sumZ (map (fun kv => f (snd kv)) m).
Proof.
  induction m as [|kv r IH]; cbn [map sumZ]; intros H; [lia|].
  pose proof (H kv (or_introl eq_refl)). pose proof (IH (fun x Hx => H x (or_intror Hx))). lia.
Qed.

(* a backed escrow of non-negative deposits: no row of the module account is negative *)
Lemma str_inv_macc_nonneg now b s : str_inv now b s -> bank_wf b -> macc_nonneg b.
Proof.
  intros I Wf d v Hin. pose proof (si_backed _ _ _ I d) as B. unfold balance in B.
  rewrite (In_aget_nodup _ _ _ Wf Hin) in B. rewrite B. unfold total_deposits, asum.
  apply (asum_nonneg (fun st => if st_denom st =? d then st_deposit st else 0)).
  intros [k st] Hk. cbn [snd]. apply (In_aget_NoDup _ _ _ (si_keys _ _ _ I)) in Hk.
  pose proof (so_deposit _ _ (si_streams _ _ _ I _ _ Hk)). destruct (st_denom st =? d); lia.
Qed.

(* ================================================================= *)
(* 4. export, import into a fresh store, export again                 *)
(* ================================================================= *)

(* the state is a reachable one ([str_inv], at any block time [now0]) over a bank with one row per (account,
   denomination): the exported document is the model's, the model imports it to the very same store, the generated
   InitGenesis run on a fresh store (any clock, any previous fee) over the same bank builds the very same store *)
Theorem gen_str_export_import_roundtrip : forall w now0 now' vf0,
  str_inv now0 (kw_bank w) (kw_str w) -> bank_wf (kw_bank w) ->
  exists d, go_ExportGenesis w = Ok d /\
            gen_str_of_go d = export_str (kw_str w) /\
            import_str (kw_bank w) (gen_str_of_go d) = Some (kw_str w) /\
            go_InitGenesis (fresh_kworld now' (kw_bank w) vf0) d =
              Ok (with_str (fresh_kworld now' (kw_bank w) vf0) (kw_str w), tt).
Proof.
  intros w now0 now' vf0 I Wf. exists (str_export_doc w).
  pose proof (gen_str_of_export_doc w) as M. pose proof (import_export_str now0 _ _ I Wf) as Imp.
  split; [apply gen_str_ExportGenesis_run|]. split; [exact M|]. split; [rewrite M; exact Imp|].
  assert (V : str_params_valid (Params_ValidatorFee (GenesisState_Params (str_export_doc w))) = true).
  { apply str_params_valid_spec. exact (si_valfee _ _ _ I). }
  assert (ND : NoDup (str_doc_keys (str_export_doc w))) by (rewrite str_export_doc_keys; exact (si_keys _ _ _ I)).
  pose proof (gen_str_InitGenesis_eq now' (kw_bank w) vf0 (str_export_doc w) V Wf (str_inv_macc_nonneg _ _ _ I Wf) ND
                (str_export_doc_storable w now0 (si_keys _ _ _ I) (si_streams _ _ _ I))) as Run.
  rewrite M, Imp in Run. exact Run.
Qed.

(* export -> import -> export is the identity on the document *)
Theorem gen_str_export_again : forall w now0 now' vf0 d,
  str_inv now0 (kw_bank w) (kw_str w) -> bank_wf (kw_bank w) ->
  go_ExportGenesis w = Ok d ->
  exists w', go_InitGenesis (fresh_kworld now' (kw_bank w) vf0) d = Ok (w', tt) /\
             kw_str w' = kw_str w /\ kw_bank w' = kw_bank w /\ kw_now w' = now' /\
             go_ExportGenesis w' = Ok d.
Proof.
  intros w now0 now' vf0 d I Wf E.
  destruct (gen_str_export_import_roundtrip w now0 now' vf0 I Wf) as (d' & E' & _ & _ & Run).
  rewrite E in E'. injection E' as <-.
  exists (with_str (fresh_kworld now' (kw_bank w) vf0) (kw_str w)). split; [exact Run|].
  split; [reflexivity|]. split; [reflexivity|]. split; [reflexivity|].
  rewrite <- E. apply gen_str_ExportGenesis_store_only. reflexivity.
Qed.

(* the other way round: a document the generated InitGenesis accepts on a fresh store, without two entries under one
   key, is exported again unchanged - up to the protobuf representation of a stream, which [gen_str_of_go] reads *)
Theorem gen_str_import_export : forall now b vf0 g w',
  str_params_valid (Params_ValidatorFee (GenesisState_Params g)) = true ->
  bank_wf b -> macc_nonneg b -> NoDup (str_doc_keys g) ->
  go_InitGenesis (fresh_kworld now b vf0) g = Ok (w', tt) ->
  exists g', go_ExportGenesis w' = Ok g' /\ gen_str_of_go g' = gen_str_of_go g.
Proof.
  intros now b vf0 g w' V Wf NN ND Run.
  destruct (gen_str_InitGenesis_ok now b vf0 g w' V Wf NN ND Run) as [Imp _].
  exists (str_export_doc w'). split; [apply gen_str_ExportGenesis_run|]. rewrite gen_str_of_export_doc.
  rewrite (import_str_go b g vf0 V) in Imp.
  destruct (str_model_check b (import_go g (fresh_str vf0)) (str_doc_kvs (GenesisState_Streams g))); [|discriminate Imp].
  injection Imp as <-. unfold export_str, gen_str_of_go. rewrite (import_go_streams g vf0 ND). f_equal.
  unfold import_go. clear. generalize (GenesisState_Streams g) as l.
  assert (F : forall l s, s_valfee (fold_left (fun s e => imp_stream e s) l s) = s_valfee s).
  { induction l as [|e l IH]; intros s; cbn [fold_left]; [reflexivity|]. rewrite IH. reflexivity. }
  intros l. rewrite F. reflexivity.
Qed.

(* ================================================================= *)
(* 5. a concrete world; the hypotheses cannot be dropped              *)
(* ================================================================= *)

(* two streams in two denominations (500 of denomination 0, 70 of denomination 1; flow rate 10, last outflow at second
   1000, deposit-zero time 50 and 7 seconds later), the module account holding e0 and e1; block time: second 1005 *)
Definition exx_stream (d amt dzt : Z) : stream :=
  {| st_denom := d; st_deposit := amt; st_rate := 10; st_lot := 1000 * NSEC; st_dzt := dzt * NSEC; st_cancellable := true |}.
Definition exx_state : str_state :=
  {| s_valfee := 10000000000000000; s_streams := [((10, 11), exx_stream 0 500 1050); ((12, 11), exx_stream 1 70 1007)] |}.
Definition exx_bank (e0 e1 : Z) : bank :=
  {| bal := [((STREAM_MACC, 1), e1); ((11, 0), 40); ((STREAM_MACC, 0), e0)]; supply := [(0, e0 + 40); (1, e1)] |}.
Definition exx_world : kworld := mk_kworld (1005 * NSEC) (exx_bank 500 70) exx_state.
Definition exx_doc : go_GenesisState :=
  mk_go_GenesisState (mk_go_Params 10000000000000000)
    [mk_go_StreamExport 10 11 (mk_go_Stream (0, 500) 10 (1000 * NSEC) (1050 * NSEC) true);
     mk_go_StreamExport 12 11 (mk_go_Stream (1, 70) 10 (1000 * NSEC) (1007 * NSEC) true)].

Lemma exx_bank_wf e0 e1 : bank_wf (exx_bank e0 e1).
Proof.
  unfold bank_wf, exx_bank. cbn. repeat constructor; cbn; intros H; repeat (destruct H as [H|H]; [discriminate H|]); exact H.
Qed.

Lemma exx_world_inv : str_inv (kw_now exx_world) (kw_bank exx_world) (kw_str exx_world) /\ bank_wf (kw_bank exx_world).
Proof.
  split; [|apply exx_bank_wf]. constructor.
  - cbn. repeat constructor; cbn; intros H; repeat (destruct H as [H|H]; [discriminate H|]); exact H.
  - intros k st H. apply aget_In in H. cbn in H.
    destruct H as [H|[H|[]]]; injection H as _ <-;
      (constructor; cbn [exx_stream st_rate st_deposit st_lot st_dzt kw_now exx_world];
       [ unfold two63; lia | lia | unfold NSEC; lia | reflexivity | reflexivity | left; unfold NSEC, NS; lia ]).
  - intros d. unfold balance, total_deposits. cbn [kw_bank kw_str exx_world exx_bank exx_state bal s_streams].
    destruct (Z.eq_dec d 0) as [->|N0]; [reflexivity|]. destruct (Z.eq_dec d 1) as [->|N1]; [reflexivity|].
    unfold asum. cbn [aget map sumZ snd st_denom st_deposit exx_stream].
    assert (E0 : (0 =? d) = false) by (apply Z.eqb_neq; lia). assert (E1 : (1 =? d) = false) by (apply Z.eqb_neq; lia).
    rewrite E0, E1.
    assert (K1 : keqb (STREAM_MACC, d) (STREAM_MACC, 1) = false).
    { unfold keqb; cbn. apply andb_false_iff. right. apply Z.eqb_neq. lia. }
    assert (K2 : keqb (STREAM_MACC, d) (11, 0) = false) by reflexivity.
    assert (K3 : keqb (STREAM_MACC, d) (STREAM_MACC, 0) = false).
    { unfold keqb; cbn. apply andb_false_iff. right. apply Z.eqb_neq. lia. }
    rewrite K1, K2, K3. reflexivity.
  - vm_compute. split; congruence.
  - intros r sn st H. apply aget_In in H. cbn in H.
    destruct H as [H|[H|[]]]; injection H as <- _ _; reflexivity.
  - split; [reflexivity | vm_compute; congruence].
Qed.

(* export; the document; import it into a fresh store (other clock, other fee) over the same bank: the same store;
   export again: the identical document *)
Example gen_str_ExportGenesis_ex :
  go_ExportGenesis exx_world = Ok exx_doc /\
  gen_str_of_go exx_doc = export_str (kw_str exx_world) /\
  match go_InitGenesis (fresh_kworld 99 (kw_bank exx_world) 7) exx_doc with
  | Ok (w', _) =>
      import_str (kw_bank exx_world) (gen_str_of_go exx_doc) = Some (kw_str w') /\
      kw_str w' = kw_str exx_world /\ kw_bank w' = kw_bank exx_world /\ kw_now w' = 99 /\
      go_ExportGenesis w' = Ok exx_doc
  | _ => False
  end.
Proof. vm_compute. repeat split; reflexivity. Qed.

(* an emptied stream (deposit 0, as a complete claim leaves it) is exported like any other, and comes back on import *)
Example gen_str_ExportGenesis_zero_deposit_ex :
  let s := {| s_valfee := 10000000000000000; s_streams := [((10, 11), exx_stream 0 500 1050); ((12, 11), exx_stream 1 0 1000)] |} in
  let w := mk_kworld (1005 * NSEC) (exx_bank 500 0) s in
  match go_ExportGenesis w with
  | Ok d => List.length (GenesisState_Streams d) = 2%nat /\ gen_str_of_go d = export_str s /\
            go_InitGenesis (fresh_kworld 99 (kw_bank w) 7) d = Ok (with_str (fresh_kworld 99 (kw_bank w) 7) s, tt)
  | _ => False
  end.
Proof. vm_compute. repeat split; reflexivity. Qed.

(* the escrow one unit short (not a reachable state: [escrow_backed] fails): the export succeeds all the same, importing
   the exported document panics, the model refuses it *)
Example gen_str_roundtrip_needs_backing :
  let w := mk_kworld (1005 * NSEC) (exx_bank 499 70) exx_state in
  go_ExportGenesis w = Ok exx_doc /\
  go_InitGenesis (fresh_kworld 99 (kw_bank w) 7) exx_doc = Panic stream_PANIC /\
  import_str (kw_bank w) (gen_str_of_go exx_doc) = None.
Proof. vm_compute. repeat split; reflexivity. Qed.

(* two stored entries under one key (not a reachable state: [si_keys] fails), the escrow holding the deposit of the one
   that a lookup finds: the export lists both, importing the exported document panics (the holdings of the document are
   the sum of both), and the model refuses it too (its store keeps the later entry) *)
Example gen_str_roundtrip_needs_nodup :
  let s := {| s_valfee := 10000000000000000; s_streams := [((10, 11), exx_stream 0 500 1050); ((10, 11), exx_stream 0 30 1003)] |} in
  let w := mk_kworld (1005 * NSEC) (exx_bank 500 0) s in
  match go_ExportGenesis w with
  | Ok d => List.length (GenesisState_Streams d) = 2%nat /\ gen_str_of_go d = export_str s /\
            go_InitGenesis (fresh_kworld 99 (kw_bank w) 7) d = Panic stream_PANIC /\
            import_str (kw_bank w) (gen_str_of_go d) = None
  | _ => False
  end.
Proof. vm_compute. repeat split; reflexivity. Qed.
