(* Generic facts about the ordered byte-keyed store (model/KVStore.v) needed on top of proofs/KVStoreFacts.v by
   proofs/GeneratedStreamStoreEq.v: a write at a key outside a prefix leaves the prefix listing alone (no sortedness
   needed), the two classes of readers ("depends on one key only" / "depends on one prefix listing only") and
   their isolation from writes elsewhere, iteration over a listing that decodes, order and uniqueness of a sorted
   listing. *)
From Coq Require Import NArith List Bool Lia.
From MC Require Import lib.Prelude model.Keys model.KVStore proofs.KeysProofs proofs.KVStoreFacts.
Import ListNotations.

Lemma obind_ret {A} (o : outcome A) : (do x <- o; Ok x) = o.
Proof. destruct o; reflexivity. Qed.

Section Facts2.
Context {V : Type}.
Notation okv := (okv V).

Lemma sorted_nil : okv_sorted (@nil (list N * V)) = true.
Proof. reflexivity. Qed.

(* ---- a write outside a prefix does not touch the prefix listing (any store, sorted or not) ---- *)
Lemma prefix_set_other (s : okv) p k v : is_prefix p k = false -> okv_prefix (okv_set s k v) p = okv_prefix s p.
Proof.
  intros H. induction s as [|[k1 v1] s IH].
  - cbn. rewrite H. reflexivity.
  - cbn [okv_set]. destruct (key_eqb k k1) eqn:E1.
    + apply key_eqb_spec in E1; subst k1. unfold okv_prefix. cbn [filter fst]. rewrite H. reflexivity.
    + destruct (lex_lt k k1).
      * unfold okv_prefix at 1. cbn [filter fst]. rewrite H. reflexivity.
      * unfold okv_prefix in *. cbn [filter fst]. rewrite IH. reflexivity.
Qed.

Lemma prefix_del_other (s : okv) p k : is_prefix p k = false -> okv_prefix (okv_del s k) p = okv_prefix s p.
Proof.
  intros H. induction s as [|[k1 v1] s IH]; [reflexivity|].
  cbn [okv_del]. destruct (key_eqb k k1) eqn:E1.
  - apply key_eqb_spec in E1; subst k1. unfold okv_prefix. cbn [filter fst]. rewrite H. reflexivity.
  - unfold okv_prefix in *. cbn [filter fst]. rewrite IH. reflexivity.
Qed.

(* ---- readers ---- *)
(* [f] looks at the store only through the entry under [k] *)
Definition point_reader {A} (f : okv -> A) (k : list N) : Prop :=
  forall s1 s2, okv_get s1 k = okv_get s2 k -> f s1 = f s2.
(* [f] looks at the store only through the ascending listing of the entries under the prefix [p] *)
Definition prefix_reader {A} (f : okv -> A) (p : list N) : Prop :=
  forall s1 s2, okv_prefix s1 p = okv_prefix s2 p -> f s1 = f s2.

Lemma point_reader_set {A} (f : okv -> A) k' s k v : point_reader f k' -> k' <> k -> f (okv_set s k v) = f s.
Proof. intros Hf Hne. apply Hf. apply get_set_other; exact Hne. Qed.
Lemma point_reader_del {A} (f : okv -> A) k' s k : point_reader f k' -> k' <> k -> f (okv_del s k) = f s.
Proof. intros Hf Hne. apply Hf. apply get_del_other; exact Hne. Qed.
Lemma prefix_reader_set {A} (f : okv -> A) p s k v : prefix_reader f p -> is_prefix p k = false -> f (okv_set s k v) = f s.
Proof. intros Hf Hp. apply Hf. apply prefix_set_other; exact Hp. Qed.
Lemma prefix_reader_del {A} (f : okv -> A) p s k : prefix_reader f p -> is_prefix p k = false -> f (okv_del s k) = f s.
Proof. intros Hf Hp. apply Hf. apply prefix_del_other; exact Hp. Qed.

Lemma point_reader_const {A} (a : A) k : point_reader (fun _ : okv => a) k.
Proof. intros s1 s2 _. reflexivity. Qed.

(* ---- iteration ---- *)
Lemma iterate_ext {A St} (dec1 dec2 : list N -> V -> outcome A) (cb : St -> A -> outcome (St * bool)) (es : okv) st :
  (forall k v, dec1 k v = dec2 k v) -> okv_iterate dec1 cb es st = okv_iterate dec2 cb es st.
Proof.
  intros H. revert st. induction es as [|[k v] r IH]; intros st; cbn; [reflexivity|].
  rewrite H. destruct (dec2 k v) as [a| |]; cbn; try reflexivity.
  destruct (cb st a) as [[st' b]| |]; cbn; try reflexivity. destruct b; [reflexivity | apply IH].
Qed.

(* the Go loop `for _, a := range l { if cb(a) { break } }` over an already decoded list *)
Fixpoint list_iterate {A St} (cb : St -> A -> outcome (St * bool)) (l : list A) (st : St) : outcome St :=
  match l with
  | [] => Ok st
  | a :: r => do res <- cb st a; if snd res then Ok (fst res) else list_iterate cb r (fst res)
  end.

(* when every entry of the listing decodes, the store loop is the loop over the decoded list, whatever the callback *)
Lemma iterate_decoded {A St} (dec : list N -> V -> outcome A) (cb : St -> A -> outcome (St * bool)) (es : okv) L st :
  decode_all dec es = Ok L -> okv_iterate dec cb es st = list_iterate cb L st.
Proof.
  revert L st. induction es as [|[k v] r IH]; intros L st H; cbn in H.
  - injection H as <-. reflexivity.
  - destruct (dec k v) as [a| |] eqn:Ea; cbn in H; try discriminate H.
    destruct (decode_all dec r) as [l| |] eqn:El; cbn in H; try discriminate H.
    injection H as <-. cbn. rewrite Ea. cbn.
    destruct (cb st a) as [[st' b]| |]; cbn; try reflexivity.
    destruct b; [reflexivity | apply IH; reflexivity].
Qed.

Lemma list_iterate_append {A} (L acc : list A) :
  list_iterate (fun acc_ a_ => Ok (acc_ ++ [a_], false)) L acc = Ok (acc ++ L).
Proof.
  revert acc. induction L as [|a L IH]; intros acc; cbn.
  - rewrite app_nil_r. reflexivity.
  - rewrite IH, <- app_assoc. reflexivity.
Qed.

(* ---- a sorted listing: ascending pairwise, no key twice ---- *)
Lemma sorted_pairs (s : okv) : okv_sorted s = true ->
  ForallOrdPairs (fun e1 e2 => lex_lt (fst e1) (fst e2) = true) s.
Proof.
  induction s as [|[k v] s IH]; intros Hs; [constructor|].
  apply sorted_cons in Hs. destruct Hs as [Hs Hab]. constructor; [|apply IH; exact Hs].
  apply Forall_forall. intros [k' v'] Hin. cbn. eapply Hab; exact Hin.
Qed.

Lemma sorted_nodup_keys (s : okv) : okv_sorted s = true -> NoDup (map fst s).
Proof.
  induction s as [|[k v] s IH]; intros Hs; [constructor|].
  apply sorted_cons in Hs. destruct Hs as [Hs Hab]. cbn. constructor; [|apply IH; exact Hs].
  intros Hin. apply in_map_iff in Hin. destruct Hin as [[k' v'] [E Hin]]. cbn in E. subst k'.
  specialize (Hab _ _ Hin). rewrite lex_lt_irrefl in Hab. discriminate.
Qed.

Lemma ForallOrdPairs_map {A B} (R : B -> B -> Prop) (f : A -> B) (l : list A) :
  ForallOrdPairs R (map f l) -> ForallOrdPairs (fun a b => R (f a) (f b)) l.
Proof.
  induction l as [|a l IH]; intros H; [constructor|].
  cbn in H. inversion H as [|? ? Hh Ht]; subst. constructor; [|apply IH; exact Ht].
  apply Forall_forall. intros b Hb. rewrite Forall_forall in Hh. apply Hh. apply in_map. exact Hb.
Qed.

End Facts2.
