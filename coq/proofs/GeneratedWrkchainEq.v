(* The keeper and message-server code generated from /repo/x/wrkchain/keeper/{register,record,msg_server}.go
   (coq/GeneratedWrkchainKeeper.v, re-generated on every run, written against model/WrkchainKeeperPrims.v and
   model/RegistryWorld.v) computes exactly what the hand-written registry model of model/Registry.v computes with
   [heighted = true], on every state whose registrations are stored under their own ids (which [reg_inv] gives) and
   whose counters fit a uint64 with room for one increment ([reg_counters_small]).

   Structure (so that the proofs survive a harmless re-generation):
     part 1  facts about the primitives (uint64 wrap-around, string lengths) and a tactic [rwalk] that walks any body
             built from the primitives: it unfolds them, normalises, removes [wrap64] where the context shows the
             argument in range, rewrites calls of generated functions already proved equal to the model, and splits on
             the leftmost atom of the next test; it never mentions a temporary of the generated file nor the nesting
             of its tests;
     part 2  the keeper functions;
     part 3  the message server (weakest hypotheses: gen_wrk_msg_exec_eq_weak), steps and runs;
     part 4  examples showing that the hypotheses cannot be dropped. *)
From Coq Require Import ZifyBool.
From MC Require Import lib.Prelude lib.AMap lib.GoSdk GeneratedWrkchainTypes model.Bank model.Registry model.RegistrySpec
  model.WrkchainKeeperPrims GeneratedWrkchainKeeper model.WrkchainGenSpec.
From MC Require Import proofs.RegistryProofs.
Local Open Scope Z_scope.

Lemma wrap64_small x : 0 <= x < two64 -> wrap64 x = x.
Proof. intros H. unfold wrap64. apply Z.mod_small. exact H. Qed.

Lemma go_len_gt (n : nat) s : (Z.of_nat n <? go_len s) = too_long n s.
Proof.
  unfold go_len, too_long.
  destruct (Nat.ltb_spec n (String.length s)); [apply Z.ltb_lt | apply Z.ltb_ge]; lia.
Qed.
Lemma go_len_gt_128 s : (128 <? go_len s) = too_long 128 s. Proof. exact (go_len_gt 128 s). Qed.
Lemma go_len_gt_64 s : (64 <? go_len s) = too_long 64 s. Proof. exact (go_len_gt 64 s). Qed.
Lemma go_len_gt_66 s : (66 <? go_len s) = too_long 66 s. Proof. exact (go_len_gt 66 s). Qed.
Lemma go_len_is_0 s : (go_len s =? 0) = is_empty s.
Proof.
  unfold go_len, is_empty.
  destruct (Nat.eqb_spec (String.length s) 0); [apply Z.eqb_eq | apply Z.eqb_neq]; lia.
Qed.

#[local] Arguments Z.add : simpl never.
#[local] Arguments Z.sub : simpl never.
#[local] Arguments Z.mul : simpl never.
#[local] Arguments Z.div : simpl never.
#[local] Arguments Z.modulo : simpl never.
#[local] Arguments Z.ltb : simpl never.
#[local] Arguments Z.leb : simpl never.
#[local] Arguments Z.eqb : simpl never.
#[local] Arguments Z.of_nat : simpl never.
#[local] Arguments wrap64 : simpl never.
#[local] Arguments Time_Unix : simpl never.
#[local] Arguments go_len : simpl never.
#[local] Arguments too_long : simpl never.
#[local] Arguments is_empty : simpl never.
#[local] Arguments aget : simpl never.
#[local] Arguments aset : simpl never.
#[local] Arguments adel : simpl never.
#[local] Arguments lowest_key : simpl never.
#[local] Arguments String.length : simpl never.

Ltac runfold :=
  progress unfold u64_add, u64_sub, go_uint64_of_int64, Addr_String, sdk_AccAddressFromBech32,
    reg_IsRegistered, reg_GetHighestID, reg_SetHighestID, reg_IsAuthorisedToRecord, reg_GetParamMaxStorageLimit,
    reg_GetParamDefaultStorageLimit, reg_SetStorageLimit, reg_DeleteRecord, reg_LowestKeyInState, reg_put_record,
    reg_put_entity, of_go_entity, to_go_entity, reg_GetEntity, reg_SetEntity, reg_GetStorageLimit, reg_SetRecord, with_reg, with_regs, ahas,
    limit_of in *.


Ltac rside := first [ assumption | lia | unfold two64, two63, MODULE_DEFAULT_LIMIT in *; lia ].

Ltac rwrap :=
  match goal with
  | |- context [wrap64 ?x] => rewrite (wrap64_small x) by rside
  end.

Ltac rstr :=
  match goal with
  | |- context [128 <? go_len ?s] => rewrite (go_len_gt_128 s)
  | |- context [64 <? go_len ?s] => rewrite (go_len_gt_64 s)
  | |- context [66 <? go_len ?s] => rewrite (go_len_gt_66 s)
  | |- context [go_len ?s =? 0] => rewrite (go_len_is_0 s)
  end.

Ltac rknown :=
  match goal with
  | H : ?x = Some _ |- context [?x] => rewrite H
  | H : ?x = None |- context [?x] => rewrite H
  end.

Ltac bool_atom c :=
  lazymatch c with
  | (?a || _)%bool => bool_atom a
  | (?a && _)%bool => bool_atom a
  | negb ?a => bool_atom a
  | _ => constr:(c)
  end.

Ltac rsplit :=
  match goal with
  | |- context [match ?x with Some _ => _ | None => _ end] =>
      lazymatch x with
      | context [match _ with Some _ => _ | None => _ end] => fail
      | context [if _ then _ else _] => fail
      | _ => destruct x eqn:?
      end
  | |- context [if ?c then _ else _] =>
      lazymatch c with
      | context [if _ then _ else _] => fail
      | context [match _ with Some _ => _ | None => _ end] => fail
      | _ => let a := bool_atom c in destruct a eqn:?
      end
  end.

Ltac rcall := fail.
Ltac rstep := first [ runfold | progress cbn | rknown | rstr | rwrap | rcall | rsplit ].
Ltac rwalk := repeat rstep.
Ltac rfinish := first [ reflexivity | repeat (f_equal; try lia) ].


#[local] Arguments record_new : simpl never.
#[local] Arguments max_purchasable : simpl never.

(* ---- the keeper ---- *)

Theorem gen_wrk_QuickCheckHeightIsNew_eq : forall w id height,
  go_QuickCheckHeightIsNew w id height =
    Ok (match aget id (r_regs (rw_reg w)) with Some rg => rg_last rg <? height | None => 0 <? height end).
Proof.
  intros [now wall s] id height. unfold go_QuickCheckHeightIsNew. rwalk; reflexivity.
Qed.

Theorem gen_wrk_GetMaxPurchasableSlots_eq : forall w id,
  rp_max_limit (r_params (rw_reg w)) < two64 ->
  (forall l, aget id (r_limits (rw_reg w)) = Some l -> 0 <= l) ->
  go_GetMaxPurchasableSlots w id = Ok (max_purchasable (rw_reg w) id).
Proof.
  intros [now wall s] id Hmax Hl. cbn in Hmax, Hl. unfold go_GetMaxPurchasableSlots, max_purchasable.
  destruct (aget id (r_limits s)) as [l|] eqn:E; [pose proof (Hl l eq_refl)|]; rwalk; reflexivity.
Qed.

Theorem gen_wrk_IncreaseInStateStorage_eq : forall w id n,
  0 <= limit_of (rw_reg w) id + n < two64 ->
  go_IncreaseInStateStorage w id n =
    Ok (with_reg w (with_regs (rw_reg w) (r_regs (rw_reg w))
                      (aset id (limit_of (rw_reg w) id + n) (r_limits (rw_reg w))) (r_recs (rw_reg w))), tt).
Proof.
  intros [now wall s] id n H. cbn in H. unfold go_IncreaseInStateStorage. unfold limit_of in H.
  rwalk; reflexivity.
Qed.

Theorem gen_wrk_RegisterNewWrkChain_eq : forall w moniker name genesis type (owner : addr),
  0 <= Time_Unix (rw_now w) < two64 -> 0 <= r_next (rw_reg w) < two64 - 1 ->
  go_RegisterNewWrkChain w moniker name genesis type owner =
    let s := rw_reg w in
    Ok (with_reg w {| r_params := r_params s; r_next := r_next s + 1;
                      r_regs := aset (r_next s)
                                  {| rg_id := r_next s; rg_owner := owner; rg_moniker := moniker; rg_name := name;
                                     rg_genesis := genesis; rg_type := type; rg_last := 0; rg_num := 0; rg_lowest := 0;
                                     rg_regtime := Time_Unix (rw_now w) |} (r_regs s);
                      r_limits := aset (r_next s) (rp_default_limit (r_params s)) (r_limits s);
                      r_recs := r_recs s |}, r_next s).
Proof.
  intros [now wall s] moniker name genesis type owner Ht Hn. cbn in Ht, Hn.
  unfold go_RegisterNewWrkChain. rwalk; reflexivity.
Qed.

Theorem gen_wrk_RecordNewWrkchainHashes_eq : forall w id rg height h0 h1 h2 h3 h4,
  aget id (r_regs (rw_reg w)) = Some rg -> rg_id rg = id ->
  0 <= Time_Unix (rw_now w) < two64 -> 0 <= rg_num rg < two64 - 1 ->
  go_RecordNewWrkchainHashes w id height h0 h1 h2 h3 h4 =
    let '(s', _, pruned) := record_new true (Time_Unix (rw_now w)) (rw_reg w) rg height [h0; h1; h2; h3; h4] in
    Ok (with_reg w s', pruned).
Proof.
  intros [now wall s] id rg key h0 h1 h2 h3 h4 Hg Hid Ht Hn. cbn in Hg, Ht. subst id.
  unfold go_RecordNewWrkchainHashes, record_new.
  rwalk; reflexivity.
Qed.

Theorem gen_wrk_UpdateParams_eq : forall w (auth : addr) p,
  go_UpdateParams w (mk_go_MsgUpdateParams auth p) =
    if negb (auth =? GOV_MACC) then Err 42
    else if reg_params_valid (params_of_go p)
         then Ok (with_reg w {| r_params := params_of_go p; r_next := r_next (rw_reg w); r_regs := r_regs (rw_reg w);
                                r_limits := r_limits (rw_reg w); r_recs := r_recs (rw_reg w) |},
                  mk_go_MsgUpdateParamsResponse)
         else Err 40.
Proof.
  intros w auth p. unfold go_UpdateParams, reg_SetParams, reg_store_params, KEEPER_authority, govtypes_ErrInvalidSigner.
  cbn [MsgUpdateParams_Authority MsgUpdateParams_Params].
  rewrite (Z.eqb_sym GOV_MACC auth).
  destruct (auth =? GOV_MACC); cbn [negb]; [|reflexivity].
  destruct (reg_params_valid (params_of_go p)); reflexivity.
Qed.

(* ---- the message server ---- *)
#[local] Arguments go_QuickCheckHeightIsNew : simpl never.
#[local] Arguments go_GetMaxPurchasableSlots : simpl never.
#[local] Arguments go_IncreaseInStateStorage : simpl never.
#[local] Arguments go_RegisterNewWrkChain : simpl never.
#[local] Arguments go_RecordNewWrkchainHashes : simpl never.

Definition regs_keyed (s : reg_state) : Prop :=
  forall id rg, aget id (r_regs s) = Some rg -> rg_id rg = id.

Definition wrk_small (s : reg_state) : Prop :=
  0 <= r_next s < two64 - 1 /\ rp_max_limit (r_params s) < two64 /\
  (forall id l, aget id (r_limits s) = Some l -> 0 <= l) /\
  (forall id rg, aget id (r_regs s) = Some rg -> 0 <= rg_num rg < two64 - 1).

Definition wrk_msg_ok (m : reg_msg) : Prop :=
  match m with
  | RRegister _ _ _ _ _ => True
  | RRecord _ _ _ hashes => List.length hashes = 5%nat
  | RPurchase _ _ n => 0 <= n
  end.

Lemma record_new_true_key t s rg key hashes : snd (fst (record_new true t s rg key hashes)) = key.
Proof.
  unfold record_new.
  destruct (limit_of s (rg_id rg) <? rg_num rg + 1); [destruct (0 <? rg_lowest rg)|]; reflexivity.
Qed.

Ltac rfacts :=
  repeat match goal with
  | HK : regs_keyed ?s, Hg : aget ?id (r_regs ?s) = Some ?rg |- _ =>
      lazymatch goal with
      | _ : rg_id rg = id |- _ => fail
      | _ => pose proof (HK id rg Hg)
      end
  | HS : forall id rg, aget id (r_regs ?s) = Some rg -> 0 <= rg_num rg < two64 - 1,
    Hg : aget ?id (r_regs ?s) = Some ?rg |- _ =>
      lazymatch goal with
      | _ : 0 <= rg_num rg < two64 - 1 |- _ => fail
      | _ => pose proof (HS id rg Hg)
      end
  | HL : forall id l, aget id (r_limits ?s) = Some l -> 0 <= l,
    Hg : aget ?id (r_limits ?s) = Some ?l |- _ =>
      lazymatch goal with
      | _ : 0 <= l |- _ => fail
      | _ => pose proof (HL id l Hg)
      end
  end.

Ltac rlimit_side :=
  cbn; intros ? ?;
  match goal with
  | H : aget ?id (aset ?id ?v ?m) = Some ?l |- _ => rewrite aget_aset_eq in H; injection H as <-; rside
  end.

Ltac rcall ::=
  match goal with
  | |- context [go_QuickCheckHeightIsNew ?w ?id ?h] => rewrite (gen_wrk_QuickCheckHeightIsNew_eq w id h)
  | |- context [go_RegisterNewWrkChain ?w ?a ?b ?c ?d ?o] =>
      rewrite (gen_wrk_RegisterNewWrkChain_eq w a b c d o) by (cbn; rside)
  | Hg : aget ?id (r_regs ?s) = Some ?rg |- context [go_RecordNewWrkchainHashes ?w ?id ?k ?a ?b ?c ?d ?e] =>
      rewrite (gen_wrk_RecordNewWrkchainHashes_eq w id rg k a b c d e Hg) by (cbn; rside);
      let E := fresh "ER" in
      pose proof (record_new_true_key (Time_Unix (rw_now w)) (rw_reg w) rg k [a; b; c; d; e]) as E;
      cbn [rw_now rw_reg] in E |- *;
      destruct (record_new true _ _ rg k [a; b; c; d; e]) as [[? ?] ?];
      cbn [fst snd] in E; subst
  | |- context [go_IncreaseInStateStorage ?w ?id ?n] =>
      rewrite (gen_wrk_IncreaseInStateStorage_eq w id n) by (cbn; unfold limit_of; cbn; rknown; rside)
  | |- context [go_GetMaxPurchasableSlots ?w ?id] =>
      rewrite (gen_wrk_GetMaxPurchasableSlots_eq w id) by first [ cbn; rside | rlimit_side ]
  end.

Ltac rstep ::= first [ rcall | runfold | progress cbn | rknown | rstr | rwrap | rsplit; rfacts ].

Lemma gen_wrk_exec_register : forall now wall s o moniker name genesis type,
  wrk_small s -> 0 <= Time_Unix now < two64 ->
  wrk_msg_exec (mk_rworld now wall s) (RRegister o moniker name genesis type) =
    rlift (mk_rworld now wall s) (reg_exec true (Time_Unix now) s (RRegister o moniker name genesis type)).
Proof.
  intros now wall s o moniker name genesis type (Hnext & Hmax & HL & HS) Ht.
  unfold wrk_msg_exec, reg_exec, go_RegisterWrkChain. rwalk; reflexivity.
Qed.

Lemma gen_wrk_exec_record : forall now wall s o id key h0 h1 h2 h3 h4,
  regs_keyed s -> wrk_small s -> 0 <= Time_Unix now < two64 ->
  wrk_msg_exec (mk_rworld now wall s) (RRecord o id key [h0; h1; h2; h3; h4]) =
    rlift (mk_rworld now wall s) (reg_exec true (Time_Unix now) s (RRecord o id key [h0; h1; h2; h3; h4])).
Proof.
  intros now wall s o id key h0 h1 h2 h3 h4 HK (Hnext & Hmax & HL & HS) Ht.
  unfold wrk_msg_exec, reg_exec, go_RecordWrkChainBlock. rwalk; reflexivity.
Qed.

Lemma gen_wrk_exec_purchase : forall now wall s o id n,
  wrk_small s -> 0 <= n ->
  wrk_msg_exec (mk_rworld now wall s) (RPurchase o id n) =
    rlift (mk_rworld now wall s) (reg_exec true (Time_Unix now) s (RPurchase o id n)).
Proof.
  intros now wall s o id n (Hnext & Hmax & HL & HS) Hn.
  unfold wrk_msg_exec, reg_exec, go_PurchaseWrkChainStateStorage. rwalk; reflexivity.
Qed.

Theorem gen_wrk_msg_exec_eq_weak : forall now wall s m,
  regs_keyed s -> wrk_small s -> wrk_msg_ok m -> 0 <= now / NSEC < two64 ->
  wrk_msg_exec (mk_rworld now wall s) m = rlift (mk_rworld now wall s) (reg_exec true (now / NSEC) s m).
Proof.
  intros now wall s m HK HS Hm Ht. change (now / NSEC) with (Time_Unix now) in *.
  destruct m as [o moniker name genesis type | o id key hashes | o id n]; cbn [wrk_msg_ok] in Hm.
  - apply gen_wrk_exec_register; assumption.
  - destruct hashes as [|h0 [|h1 [|h2 [|h3 [|h4 [|h5 tl]]]]]]; try discriminate Hm.
    apply gen_wrk_exec_record; assumption.
  - apply gen_wrk_exec_purchase; assumption.
Qed.

Lemma reg_inv_regs_keyed heighted s g : reg_inv heighted s g -> regs_keyed s.
Proof. intros I id rg G. destruct (inv_regs _ _ _ I _ _ G) as [_ Hok]. exact (ok_id _ _ _ _ _ _ Hok). Qed.

Lemma reg_counters_small_wrk s : reg_counters_small s -> wrk_small s.
Proof.
  intros (Hn & Hm & _ & HL & HR). split; [lia|]. split; [lia|]. split.
  - intros id l G. pose proof (HL id l G). lia.
  - intros id rg G. pose proof (HR id rg G). lia.
Qed.

Lemma reg_msg_wf_wrk m :
  reg_msg_wf m -> (forall o id key hashes, m = RRecord o id key hashes -> List.length hashes = 5%nat) -> wrk_msg_ok m.
Proof.
  intros W H5. destruct m as [o moniker name genesis type | o id key hashes | o id n]; cbn in *.
  - exact I.
  - eapply H5; reflexivity.
  - unfold u64 in W. lia.
Qed.

Theorem gen_wrk_msg_exec_eq : forall now wall s g m,
  reg_inv true s g -> reg_counters_small s -> reg_msg_wf m ->
  (forall o id key hashes, m = RRecord o id key hashes -> List.length hashes = 5%nat) ->
  0 <= now / NSEC < two63 ->
  wrk_msg_exec (mk_rworld now wall s) m = rlift (mk_rworld now wall s) (reg_exec true (now / NSEC) s m).
Proof.
  intros now wall s g m I HS W H5 Ht. apply gen_wrk_msg_exec_eq_weak.
  - exact (reg_inv_regs_keyed _ _ _ I).
  - exact (reg_counters_small_wrk _ HS).
  - exact (reg_msg_wf_wrk _ W H5).
  - unfold two63, two64 in *. lia.
Qed.

(* ---- steps and runs ---- *)

(* [reg_step true] of model/RegistrySpec.v, executing the generated message server in a world whose block time
   is [t] seconds after the epoch and whose wall clock is [wall]; the ghost is threaded exactly as there *)
Definition wrk_step (wall : Z) (sg : reg_state * ghost) (tm : Z * reg_msg) : reg_state * ghost :=
  let '(s, g) := sg in
  let '(t, m) := tm in
  match reg_validate_basic true m with
  | Ok _ =>
      match wrk_msg_exec (mk_rworld (t * NSEC) wall s) m with
      | Ok (w', RespRegistered id) =>
          (rw_reg w', {| g_log := g_log g; g_reg := g_reg g ++ [(id, m, t)] |})
      | Ok (w', RespRecorded id k) =>
          match aget (id, k) (r_recs (rw_reg w')) with
          | Some rc => (rw_reg w', {| g_log := aset id (log_of g id ++ [(k, rc)]) (g_log g); g_reg := g_reg g |})
          | None => (rw_reg w', g)
          end
      | Ok (w', _) => (rw_reg w', g)
      | _ => (s, g)
      end
  | _ => (s, g)
  end.

Definition wrk_run (wall : Z) (sg : reg_state * ghost) (h : list (Z * reg_msg)) : reg_state * ghost :=
  fold_left (wrk_step wall) h sg.

Lemma unix_of_seconds t : t * NSEC / NSEC = t.
Proof. apply Z.div_mul. discriminate. Qed.

Theorem gen_wrk_step_eq_weak : forall wall s g t m,
  regs_keyed s -> wrk_small s -> wrk_msg_ok m -> 0 <= t < two64 ->
  wrk_step wall (s, g) (t, m) = reg_step true (s, g) (t, m).
Proof.
  intros wall s g t m HK HS Hm Ht. unfold wrk_step, reg_step.
  destruct (reg_validate_basic true m) as [[]| |]; try reflexivity.
  rewrite gen_wrk_msg_exec_eq_weak by (rewrite ?unix_of_seconds; assumption).
  rewrite unix_of_seconds.
  destruct (reg_exec true t s m) as [[s' [id|id k|id n c]]| |]; reflexivity.
Qed.

Theorem gen_wrk_step_eq : forall wall s g t m,
  reg_inv true s g -> reg_counters_small s -> reg_msg_wf m ->
  (forall o id key hashes, m = RRecord o id key hashes -> List.length hashes = 5%nat) ->
  0 <= t < two63 ->
  wrk_step wall (s, g) (t, m) = reg_step true (s, g) (t, m).
Proof.
  intros wall s g t m I HS W H5 Ht. apply gen_wrk_step_eq_weak.
  - exact (reg_inv_regs_keyed _ _ _ I).
  - exact (reg_counters_small_wrk _ HS).
  - exact (reg_msg_wf_wrk _ W H5).
  - unfold two63, two64 in *. lia.
Qed.

(* the counters of the state are bounded by [B] (and the quantities that no message increases are in range) *)
Definition wrk_bounded (B : Z) (s : reg_state) : Prop :=
  0 <= r_next s <= B /\ rp_max_limit (r_params s) < two64 /\ 0 <= rp_default_limit (r_params s) /\
  (forall id l, aget id (r_limits s) = Some l -> 0 <= l) /\
  (forall id rg, aget id (r_regs s) = Some rg -> 0 <= rg_num rg <= B).

Lemma wrk_bounded_small B s : wrk_bounded B s -> B < two64 - 1 -> wrk_small s.
Proof.
  intros (Hn & Hm & _ & HL & HR) HB. split; [lia|]. split; [lia|]. split; [exact HL|].
  intros id rg G. pose proof (HR id rg G). lia.
Qed.

Lemma wrk_bounded_mono B B' s : wrk_bounded B s -> B <= B' -> wrk_bounded B' s.
Proof.
  intros (Hn & Hm & Hd & HL & HR) HB. split; [lia|]. split; [lia|]. split; [lia|]. split; [exact HL|].
  intros id rg G. pose proof (HR id rg G). lia.
Qed.

Lemma record_new_regs heighted t s rg key hashes s' k pr :
  record_new heighted t s rg key hashes = (s', k, pr) ->
  exists rg', r_regs s' = aset (rg_id rg) rg' (r_regs s) /\
              (rg_num rg' = rg_num rg + 1 \/ rg_num rg' = rg_num rg + 1 - 1).
Proof.
  unfold record_new.
  destruct (limit_of s (rg_id rg) <? rg_num rg + 1);
    [destruct heighted; [destruct (0 <? rg_lowest rg)|]|];
    intros [= <- _ _]; eexists; (split; [reflexivity|]); cbn; auto.
Qed.

(* every counter grows by at most one per delivered message *)
Lemma wrk_bounded_exec B t s m s' r :
  wrk_bounded B s -> wrk_msg_ok m -> reg_exec true t s m = Ok (s', r) -> wrk_bounded (B + 1) s'.
Proof.
  intros (Hn & Hm & Hd & HL & HR) Hok E.
  destruct m as [o moniker name genesis type | o id key hashes | o id n].
  - apply reg_exec_register_inv in E. destruct E as [_ ->].
    unfold wrk_bounded. cbn [r_next r_params r_limits r_regs].
    split; [lia|]. split; [lia|]. split; [lia|]. split.
    + intros id l G. destruct (Z.eq_dec id (r_next s)) as [->|N].
      * rewrite aget_aset_eq in G. injection G as <-. exact Hd.
      * rewrite aget_aset_neq in G by congruence. apply (HL id l G).
    + intros id rg G. destruct (Z.eq_dec id (r_next s)) as [->|N].
      * rewrite aget_aset_eq in G. injection G as <-. cbn. lia.
      * rewrite aget_aset_neq in G by congruence. pose proof (HR id rg G). lia.
  - apply reg_exec_record_inv in E. destruct E as (rg & k & pr & G & _ & _ & _ & ER & _).
    destruct (record_new_frame _ _ _ _ _ _ _ _ _ ER) as (Ep & En & El).
    destruct (record_new_regs _ _ _ _ _ _ _ _ _ ER) as (rg' & Er & Hnum).
    pose proof (HR id rg G) as Hrg.
    unfold wrk_bounded. rewrite Ep, En, El, Er.
    split; [lia|]. split; [lia|]. split; [lia|]. split; [exact HL|].
    intros id0 rg0 G0. destruct (Z.eq_dec id0 (rg_id rg)) as [->|N].
    + rewrite aget_aset_eq in G0. injection G0 as <-. lia.
    + rewrite aget_aset_neq in G0 by congruence. pose proof (HR id0 rg0 G0). lia.
  - cbn [wrk_msg_ok] in Hok.
    apply reg_exec_purchase_inv in E. destruct E as (rg & G & _ & _ & _ & Hle & -> & _).
    unfold wrk_bounded. cbn [with_regs r_next r_params r_limits r_regs].
    split; [lia|]. split; [lia|]. split; [lia|]. split.
    + intros id0 l G0. destruct (Z.eq_dec id0 id) as [->|N].
      * rewrite aget_aset_eq in G0. injection G0 as <-.
        assert (0 <= limit_of s id).
        { unfold limit_of. destruct (aget id (r_limits s)) as [l0|] eqn:E0; [apply (HL id l0 E0)|].
          unfold MODULE_DEFAULT_LIMIT. lia. }
        lia.
      * rewrite aget_aset_neq in G0 by congruence. apply (HL id0 l G0).
    + intros id0 rg0 G0. pose proof (HR id0 rg0 G0). lia.
Qed.

Definition wrk_hist_ok (h : list (Z * reg_msg)) : Prop :=
  Forall (fun tm => reg_msg_wf (snd tm) /\ 0 <= fst tm < two63 /\
                    (forall o id key hashes, snd tm = RRecord o id key hashes -> List.length hashes = 5%nat)) h.

Lemma wrk_bounded_step B s g t m :
  wrk_bounded B s -> wrk_msg_ok m -> wrk_bounded (B + 1) (fst (reg_step true (s, g) (t, m))).
Proof.
  intros HB Hok. unfold reg_step.
  assert (H0 : wrk_bounded (B + 1) s) by (apply (wrk_bounded_mono B); [assumption|lia]).
  destruct (reg_validate_basic true m) as [[]| |]; try exact H0.
  destruct (reg_exec true t s m) as [[s' r]| |] eqn:E; try exact H0.
  pose proof (wrk_bounded_exec _ _ _ _ _ _ HB Hok E) as H1.
  destruct r as [id|id k|id n c]; try exact H1.
  destruct (aget (id, k) (r_recs s')); exact H1.
Qed.

(* a whole history: the counters need only leave room for one increment per message *)
Theorem gen_wrk_run_eq : forall wall h s g B,
  reg_inv true s g -> wrk_bounded B s -> B + Z.of_nat (List.length h) < two64 -> wrk_hist_ok h ->
  wrk_run wall (s, g) h = reg_run true (s, g) h.
Proof.
  intros wall h. induction h as [|[t m] h IH]; intros s g B I HB Hlen Hh; [reflexivity|].
  inversion Hh as [|? ? (W & Ht & H5) Hh']; subst. cbn [fst snd] in W, Ht, H5.
  cbn [List.length] in Hlen. rewrite Nat2Z.inj_succ in Hlen.
  pose proof (reg_msg_wf_wrk _ W H5) as Hok.
  unfold wrk_run, reg_run. cbn [fold_left].
  rewrite (gen_wrk_step_eq_weak wall s g t m (reg_inv_regs_keyed _ _ _ I)
             (wrk_bounded_small B s HB ltac:(lia)) Hok ltac:(unfold two63, two64 in *; lia)).
  pose proof (reg_inv_step true s g t m I W ltac:(lia)) as I'.
  pose proof (wrk_bounded_step B s g t m HB Hok) as HB'.
  destruct (reg_step true (s, g) (t, m)) as [s1 g1]. cbn [fst snd] in I', HB'.
  exact (IH s1 g1 (B + 1) I' HB' ltac:(lia) Hh').
Qed.

(* ---- consequences stated on their own (props/C08generated*.v, props/C09generated*.v) ---- *)

(* the purchase handler alone: no invariant is needed *)
Theorem gen_wrk_purchase_eq : forall now wall s (o : addr) id n,
  reg_counters_small s -> 0 <= n ->
  wrk_msg_exec (mk_rworld now wall s) (RPurchase o id n) =
    rlift (mk_rworld now wall s) (reg_exec true (now / NSEC) s (RPurchase o id n)).
Proof.
  intros now wall s o id n HS Hn. change (now / NSEC) with (Time_Unix now).
  apply gen_wrk_exec_purchase; [exact (reg_counters_small_wrk _ HS)|exact Hn].
Qed.

(* the model rejects a record / a purchase by anyone but the owner; with the error of the owner check whenever
   ValidateBasic accepts the message *)
Lemma reg_exec_non_owner heighted t s (o : addr) id rg :
  aget id (r_regs s) = Some rg -> o <> rg_owner rg ->
  (forall key hashes, exists c, reg_exec heighted t s (RRecord o id key hashes) = Err c /\
     (reg_validate_basic heighted (RRecord o id key hashes) = Ok tt -> c = ERR_REG_NOT_OWNER)) /\
  (forall n, exists c, reg_exec heighted t s (RPurchase o id n) = Err c /\
     (reg_validate_basic heighted (RPurchase o id n) = Ok tt -> c = ERR_REG_NOT_OWNER)).
Proof.
  intros G N. assert (Eo : negb (o =? rg_owner rg) = true) by lia. split.
  - intros key hashes. cbn [reg_exec reg_validate_basic]. rewrite G, Eo.
    destruct (id =? 0); destruct (is_empty (hd EmptyString hashes)); destruct (key =? 0);
      destruct (existsb (too_long 66) hashes); destruct heighted; cbn [andb];
      eexists; (split; [reflexivity|]); intros X; first [ discriminate X | reflexivity ].
  - intros n. cbn [reg_exec reg_validate_basic]. rewrite G, Eo.
    destruct (id =? 0); destruct (n =? 0);
      eexists; (split; [reflexivity|]); intros X; first [ discriminate X | reflexivity ].
Qed.

Theorem gen_wrk_non_owner_rejected : forall now wall s g (o : addr) id rg,
  reg_inv true s g -> reg_counters_small s -> 0 <= now / NSEC < two63 ->
  aget id (r_regs s) = Some rg -> o <> rg_owner rg ->
  (forall key hashes, List.length hashes = 5%nat -> 
     exists c, wrk_msg_exec (mk_rworld now wall s) (RRecord o id key hashes) = Err c /\
       (reg_validate_basic true (RRecord o id key hashes) = Ok tt -> c = ERR_REG_NOT_OWNER)) /\
  (forall n, 0 <= n ->
     exists c, wrk_msg_exec (mk_rworld now wall s) (RPurchase o id n) = Err c /\
       (reg_validate_basic true (RPurchase o id n) = Ok tt -> c = ERR_REG_NOT_OWNER)).
Proof.
  intros now wall s g o id rg I HS Ht G N.
  assert (Ht' : 0 <= now / NSEC < two64) by (unfold two63, two64 in *; lia).
  destruct (reg_exec_non_owner true (now / NSEC) s o id rg G N) as [HR HP].
  split.
  - intros key hashes Hlen . destruct (HR key hashes) as (c & E & Hc). exists c. split; [|exact Hc].
    rewrite (gen_wrk_msg_exec_eq_weak now wall s (RRecord o id key hashes) (reg_inv_regs_keyed _ _ _ I)
               (reg_counters_small_wrk _ HS) Hlen Ht').
    rewrite E. reflexivity.
  - intros n Hn. destruct (HP n) as (c & E & Hc). exists c. split; [|exact Hc].
    rewrite (gen_wrk_msg_exec_eq_weak now wall s (RPurchase o id n) (reg_inv_regs_keyed _ _ _ I)
               (reg_counters_small_wrk _ HS) Hn Ht').
    rewrite E. reflexivity.
Qed.

(* ---- examples: the hypotheses cannot be dropped ---- *)
Local Open Scope string_scope.
Local Open Scope Z_scope.

Definition ex_params : reg_params :=
  {| rp_fee_register := 1; rp_fee_record := 1; rp_fee_purchase := 1; rp_denom := 0; rp_default_limit := 2; rp_max_limit := 10 |}.
(* one WRKChain (id 1, owner 7) that holds nothing *)
Definition ex_rg : registration :=
  {| rg_id := 1; rg_owner := 7; rg_moniker := "m"; rg_name := "n"; rg_genesis := "0xabc"; rg_type := "geth";
     rg_last := 0; rg_num := 0; rg_lowest := 0; rg_regtime := 1600000000 |}.
Definition ex_state : reg_state :=
  {| r_params := ex_params; r_next := 2; r_regs := [(1, ex_rg)]; r_limits := [(1, 2)]; r_recs := [] |}.
Definition ex_now : Z := 1700000000 * NSEC.

Lemma ex_state_inv : reg_inv true ex_state ghost_init.
Proof.
  constructor.
  - repeat constructor. intros [].
  - repeat constructor. intros [].
  - constructor.
  - reflexivity.
  - cbn. lia.
  - intros id rg G. cbv [aget keqb EqKey_Z ex_state r_regs] in G.
    destruct (id =? 1) eqn:E; [|discriminate]. apply Z.eqb_eq in E. subst id.
    injection G as <-. split; [cbn; lia|].
    constructor; cbn; try reflexivity; try lia; try constructor.
    + exists 2. split; [reflexivity|lia].
    + intros H. exfalso. apply H. reflexivity.
  - intros id k rc G. discriminate G.
  - reflexivity.
  - intros id G. reflexivity.
  - intros id m t [].
Qed.

Lemma ex_state_small : reg_counters_small ex_state.
Proof.
  unfold reg_counters_small. cbn [ex_state r_next r_params r_limits r_regs ex_params rp_max_limit rp_default_limit].
  unfold two64. split; [lia|]. split; [lia|]. split; [lia|]. split.
  - intros id l G. cbv [aget keqb EqKey_Z] in G. destruct (id =? 1); [|discriminate]. injection G as <-. lia.
  - intros id rg G. cbv [aget keqb EqKey_Z] in G. destruct (id =? 1); [|discriminate]. injection G as <-. cbn. lia.
Qed.

(* non-vacuity of gen_wrk_msg_exec_eq: a state and a message that satisfy every hypothesis *)
Example gen_wrk_msg_exec_eq_ex :
  let m := RRecord 7 1 100 ["b"; "p"; "1"; "2"; "3"] in
  reg_inv true ex_state ghost_init /\ reg_counters_small ex_state /\ reg_msg_wf m /\
  (forall o id key hashes, m = RRecord o id key hashes -> List.length hashes = 5%nat) /\
  0 <= ex_now / NSEC < two63 /\
  exists s', wrk_msg_exec (mk_rworld ex_now 0 ex_state) m = Ok (mk_rworld ex_now 0 s', RespRecorded 1 100).
Proof.
  cbv zeta. split; [exact ex_state_inv|]. split; [exact ex_state_small|].
  split; [cbn; unfold u64, two64; lia|].
  split; [intros o id key hashes [= <- <- <- <-]; reflexivity|].
  split; [vm_compute; split; [discriminate|reflexivity]|].
  eexists. vm_compute. reflexivity.
Qed.

(* a WRKChain record carries exactly five hashes: [wrk_msg_exec] fills the message from the list with empty strings,
   and the handler stores five strings, whereas the model stores the list it is given *)
Example gen_wrk_msg_exec_eq_without_five_hashes_refuted :
  let m := RRecord 7 1 100 ["b"] in
  reg_inv true ex_state ghost_init /\ reg_counters_small ex_state /\ reg_msg_wf m /\ 0 <= ex_now / NSEC < two63 /\
  wrk_msg_exec (mk_rworld ex_now 0 ex_state) m <> rlift (mk_rworld ex_now 0 ex_state) (reg_exec true (ex_now / NSEC) ex_state m).
Proof.
  cbv zeta. split; [exact ex_state_inv|]. split; [exact ex_state_small|].
  split; [cbn; unfold u64, two64; lia|].
  split; [vm_compute; split; [discriminate|reflexivity]|].
  vm_compute. intro X. discriminate X.
Qed.

(* the machine-integer side conditions cannot be dropped: at HighestWrkChainID = 2^64 - 1 the Go counter wraps
   to 0, the model's does not *)
Example gen_wrk_msg_exec_eq_without_counters_refuted :
  let s := reg_init ex_params (two64 - 1) in
  reg_inv true s ghost_init /\
  wrk_msg_exec (mk_rworld ex_now 0 s) (RRegister 7 "m" "n" "0xabc" "geth") <>
    rlift (mk_rworld ex_now 0 s) (reg_exec true (ex_now / NSEC) s (RRegister 7 "m" "n" "0xabc" "geth")).
Proof.
  cbv zeta. split; [apply reg_inv_init; [reflexivity|unfold two64; lia]|].
  vm_compute. intro X. discriminate X.
Qed.

(* a history from genesis (first id 1, default limit 2, maximum 10): a registration and three records *)
Definition ex_hashes (b : string) : list string := [b; "p"; "1"; "2"; "3"].
Definition ex_history : list (Z * reg_msg) :=
  [ (1700000000, RRegister 7 "m" "n" "0xabc" "geth");
    (1700000010, RRecord 7 1 10 (ex_hashes "a"));
    (1700000020, RRecord 7 1 20 (ex_hashes "b"));
    (1700000030, RRecord 7 1 30 (ex_hashes "c")) ].

Print Assumptions gen_wrk_QuickCheckHeightIsNew_eq.
Print Assumptions gen_wrk_GetMaxPurchasableSlots_eq.
Print Assumptions gen_wrk_IncreaseInStateStorage_eq.
Print Assumptions gen_wrk_RegisterNewWrkChain_eq.
Print Assumptions gen_wrk_RecordNewWrkchainHashes_eq.
Print Assumptions gen_wrk_UpdateParams_eq.
Print Assumptions gen_wrk_msg_exec_eq_weak.
Print Assumptions gen_wrk_msg_exec_eq.
Print Assumptions gen_wrk_step_eq.
Print Assumptions gen_wrk_run_eq.
Print Assumptions gen_wrk_msg_exec_eq_ex.
Print Assumptions gen_wrk_msg_exec_eq_without_five_hashes_refuted.
Print Assumptions gen_wrk_msg_exec_eq_without_counters_refuted.
Print Assumptions gen_wrk_purchase_eq.
Print Assumptions gen_wrk_non_owner_rejected.
