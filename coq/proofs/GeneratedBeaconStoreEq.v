(* The GENERATED store accessors of x/beacon (GeneratedBeaconStore.v, translated from /repo/x/beacon/keeper/
   {register.go,record.go,params.go}) implement maps on the ordered byte-keyed store of model/KVStore.v:
     (a) KEY  : the key each accessor computes is the byte model's encoding (model/Keys.v), never empty;
     (b) SPEC : each writer is okv_set / okv_del at that key, each point reader a function of okv_get at that key,
                each iteration okv_iterate over okv_prefix;
     (c) MAP LAWS, (d) ISOLATION ACROSS KINDS, (e) LISTINGS, (f) a concrete run.
   Ids are the Z the translation uses for a Go uint64; the key lemmas hold for every Z (the builders truncate as Go
   does), range hypotheses [0 <= x < 2^64] appear only where two DIFFERENT ids must have different keys or where
   byte order must be numeric order. *)
From Coq Require Import ZArith NArith List Bool Lia Sorted.
From MC Require Import lib.Prelude lib.GoSdk model.Keys model.KeyPrims model.KVStore model.StoreCodecPrims.
From MC Require Import GeneratedKeys GeneratedBeaconTypes GeneratedBeaconKeeper GeneratedBeaconStore.
From MC Require Import proofs.KeysProofs proofs.GeneratedKeysEq proofs.KVStoreFacts proofs.KVStoreFacts2Beacon.
Import ListNotations.
Open Scope Z_scope.

Notation store := (okv beacon_val).

(* ================================================================== *)
(* (a) KEYS                                                             *)
(* ================================================================== *)

Definition kReg (id : Z) : list N := bcn_encode (RkReg (Z.to_N id)).
Definition kLim (id : Z) : list N := bcn_encode (RkLimit (Z.to_N id)).
Definition kRec (id t : Z) : list N := bcn_encode (RkRecord (Z.to_N id) (Z.to_N t)).
Definition pRecs (id : Z) : list N := bcn_prefix_records_of (Z.to_N id).

Lemma key_Params : beacon_ParamsKey = bcn_encode RkParams /\ beacon_ParamsKey <> [].
Proof. split; [reflexivity | discriminate]. Qed.
Lemma key_Highest : beacon_HighestBeaconIDKey = bcn_encode RkHighestId /\ beacon_HighestBeaconIDKey <> [].
Proof. split; [reflexivity | discriminate]. Qed.
Lemma key_Beacon id : go_beacon_BeaconKey (Z.to_N id) = Ok (kReg id) /\ kReg id <> [].
Proof. split; [apply gen_bcn_BeaconKey_eq | discriminate]. Qed.
Lemma key_Limit id : go_beacon_BeaconStorageLimitKey (Z.to_N id) = Ok (kLim id) /\ kLim id <> [].
Proof. split; [apply gen_bcn_BeaconStorageLimitKey_eq | discriminate]. Qed.
Lemma key_Timestamp id t : go_beacon_BeaconTimestampKey (Z.to_N id) (Z.to_N t) = Ok (kRec id t) /\ kRec id t <> [].
Proof. split; [apply gen_bcn_BeaconTimestampKey_eq | discriminate]. Qed.
Lemma key_AllTimestamps id : go_beacon_BeaconAllTimestampsKey (Z.to_N id) = Ok (pRecs id) /\ pRecs id <> [].
Proof. split; [apply gen_bcn_BeaconAllTimestampsKey_eq | discriminate]. Qed.
Lemma prefix_Beacons : beacon_RegisteredBeaconPrefix = bcn_prefix_regs.
Proof. reflexivity. Qed.

Lemma kReg_ne id : kReg id <> []. Proof. discriminate. Qed.
Lemma kLim_ne id : kLim id <> []. Proof. discriminate. Qed.
Lemma kRec_ne id t : kRec id t <> []. Proof. discriminate. Qed.

(* first bytes: what separates the kinds *)
Lemma hd_kReg id : hd 0%N (kReg id) = 1%N. Proof. reflexivity. Qed.
Lemma hd_kLim id : hd 0%N (kLim id) = 3%N. Proof. reflexivity. Qed.
Lemma hd_kRec id t : hd 0%N (kRec id t) = 2%N. Proof. reflexivity. Qed.
Lemma hd_pRecs id : hd 0%N (pRecs id) = 2%N. Proof. reflexivity. Qed.

Lemma kReg_under id : is_prefix beacon_RegisteredBeaconPrefix (kReg id) = true. Proof. reflexivity. Qed.
Lemma kLim_under id : is_prefix beacon_BeaconStorageLimitPrefix (kLim id) = true. Proof. reflexivity. Qed.
Lemma kRec_under_all id t : is_prefix beacon_RecordedBeaconTimestampPrefix (kRec id t) = true. Proof. reflexivity. Qed.
Lemma kRec_under id t : is_prefix (pRecs id) (kRec id t) = true.
Proof. unfold pRecs, kRec, bcn_prefix_records_of, bcn_encode, reg_encode. apply (is_prefix_app (2%N :: be64 (Z.to_N id))). Qed.

(* a key under a beacon's record prefix is a record key of that beacon *)
Lemma kRec_under_inv id id' t : is_prefix (pRecs id) (kRec id' t) = true -> kRec id' t = kRec id t.
Proof.
  unfold pRecs, kRec, bcn_prefix_records_of, bcn_encode, reg_encode. rewrite is_prefix_cons. cbn [N.eqb Pos.eqb andb].
  intros H. apply (is_prefix_same_len_app (be64 (Z.to_N id)) (be64 (Z.to_N id')) (be64 (Z.to_N t)) eq_refl) in H.
  rewrite H. reflexivity.
Qed.

Lemma wf_id_Z a : 0 <= a < 2 ^ 64 -> wf_id (Z.to_N a) = true.
Proof. intros H. apply wf_id_lt. lia. Qed.

(* injectivity within a kind (needs the uint64 range) *)
Lemma kReg_inj a b : 0 <= a < 2 ^ 64 -> 0 <= b < 2 ^ 64 -> kReg a = kReg b -> a = b.
Proof.
  intros Ha Hb E. unfold kReg, kLim, bcn_encode in E. apply reg_injective in E; cbn [wf_reg_key]; try (apply wf_id_Z; assumption).
  injection E as E. apply Z2N.inj in E; lia.
Qed.
Lemma kLim_inj a b : 0 <= a < 2 ^ 64 -> 0 <= b < 2 ^ 64 -> kLim a = kLim b -> a = b.
Proof.
  intros Ha Hb E. unfold kReg, kLim, bcn_encode in E. apply reg_injective in E; cbn [wf_reg_key]; try (apply wf_id_Z; assumption).
  injection E as E. apply Z2N.inj in E; lia.
Qed.
Lemma kRec_inj a t b u : 0 <= a < 2 ^ 64 -> 0 <= t < 2 ^ 64 -> 0 <= b < 2 ^ 64 -> 0 <= u < 2 ^ 64 ->
  kRec a t = kRec b u -> a = b /\ t = u.
Proof.
  intros Ha Ht Hb Hu E. unfold kRec, bcn_encode in E. apply reg_injective in E; cbn [wf_reg_key]; try (rewrite !wf_id_Z by assumption; reflexivity).
  injection E as E1 E2. apply Z2N.inj in E1; [|lia|lia]. apply Z2N.inj in E2; [|lia|lia]. split; assumption.
Qed.
(* within one beacon, the beacon id needs no range *)
Lemma kRec_inj_same a t u : 0 <= t < 2 ^ 64 -> 0 <= u < 2 ^ 64 -> kRec a t = kRec a u -> t = u.
Proof.
  intros Ht Hu E. unfold kRec, bcn_encode, reg_encode in E. apply cons_eq_inv in E as [_ E].
  apply app_inv_head in E. apply be64_inj in E; [|apply wf_id_lt, wf_id_Z; assumption ..].
  apply Z2N.inj in E; lia.
Qed.
Lemma kRec_order a t u : 0 <= t < 2 ^ 64 -> 0 <= u < 2 ^ 64 -> (lex_lt (kRec a t) (kRec a u) = true <-> t < u).
Proof.
  intros Ht Hu. unfold kRec, bcn_encode, reg_encode. rewrite lex_lt_cons_same.
  rewrite (lex_lt_app_same_len (be64 (Z.to_N a)) (be64 (Z.to_N a)) _ _ eq_refl).
  rewrite lex_lt_irrefl. rewrite be64_order by (apply wf_id_lt, wf_id_Z; assumption).
  split; [intros [H|[_ H]]; [discriminate | lia] | intros H; right; split; [reflexivity | lia]].
Qed.
Lemma kReg_order a b : 0 <= a < 2 ^ 64 -> 0 <= b < 2 ^ 64 -> (lex_lt (kReg a) (kReg b) = true <-> a < b).
Proof.
  intros Ha Hb. unfold kReg, bcn_encode. rewrite reg_order_reg by (apply wf_id_Z; assumption). lia.
Qed.

(* ================================================================== *)
(* (b) SPEC: what each accessor does to / reads from the store           *)
(* ================================================================== *)

Definition is_some (o : option beacon_val) : bool := match o with Some _ => true | None => false end.

(* ---- params ---- *)
Definition rd_Params (o : option beacon_val) : outcome go_Params :=
  match o with None => Ok zero_go_Params | Some (BV_Params x) => Ok x | Some _ => Panic OKV_PANIC_UNMARSHAL end.

Lemma GetParams_spec (s : store) : go_st_GetParams s = rd_Params (okv_get s beacon_ParamsKey).
Proof.
  unfold go_st_GetParams. rewrite Get_ok by discriminate. cbn [obind].
  destruct (okv_get s beacon_ParamsKey) as [[]|]; reflexivity.
Qed.

Lemma SetParams_spec (s : store) p :
  go_st_SetParams s p = do _ <- go_Params_Validate p; Ok (okv_set s beacon_ParamsKey (BV_Params p), tt).
Proof.
  unfold go_st_SetParams. destruct (go_Params_Validate p); cbn [obind]; [|reflexivity|reflexivity].
  unfold beacon_marshal_Params. cbn [obind]. rewrite Set_ok by discriminate. reflexivity.
Qed.

Lemma SetParams_inv (s s' : store) p : go_st_SetParams s p = Ok (s', tt) ->
  go_Params_Validate p = Ok tt /\ s' = okv_set s beacon_ParamsKey (BV_Params p).
Proof.
  rewrite SetParams_spec. destruct (go_Params_Validate p) as [[]| |]; cbn [obind]; intros H; try discriminate.
  injection H as <-. split; reflexivity.
Qed.

(* ---- highest beacon id ---- *)
Definition rd_Highest (o : option beacon_val) : outcome Z :=
  match o with
  | None => Err STORE_ERR
  | Some (BV_bytes b) => do n <- go_beacon_GetBeaconIDFromBytes b; Ok (Z.of_N n)
  | Some _ => Panic OKV_PANIC_UNMARSHAL
  end.

Lemma GetHighestBeaconID_spec (s : store) : go_st_GetHighestBeaconID s = rd_Highest (okv_get s beacon_HighestBeaconIDKey).
Proof.
  unfold go_st_GetHighestBeaconID. rewrite Get_ok by discriminate. cbn [obind].
  destruct (okv_get s beacon_HighestBeaconIDKey) as [[]|]; reflexivity.
Qed.

Lemma SetHighestBeaconID_spec (s : store) id :
  go_st_SetHighestBeaconID s id = Ok (okv_set s beacon_HighestBeaconIDKey (BV_bytes (be64 (Z.to_N id))), tt).
Proof.
  unfold go_st_SetHighestBeaconID. rewrite gen_bcn_GetBeaconIDBytes_eq. cbn [obind].
  unfold beacon_marshal_bytes. cbn [obind]. rewrite Set_ok by discriminate. reflexivity.
Qed.

(* ---- beacons ---- *)
Definition rd_Beacon (o : option beacon_val) : outcome (go_Beacon * bool) :=
  match o with
  | None => Ok (zero_go_Beacon, false)
  | Some (BV_Beacon x) => Ok (x, true)
  | Some _ => Panic OKV_PANIC_UNMARSHAL
  end.

Lemma SetBeacon_spec (s : store) b : go_st_SetBeacon s b = Ok (okv_set s (kReg (Beacon_BeaconId b)) (BV_Beacon b), tt).
Proof.
  unfold go_st_SetBeacon. rewrite gen_bcn_BeaconKey_eq. cbn [obind].
  unfold beacon_marshal_Beacon. cbn [obind]. rewrite Set_ok by discriminate. reflexivity.
Qed.

Lemma IsBeaconRegistered_spec (s : store) id : go_st_IsBeaconRegistered s id = Ok (is_some (okv_get s (kReg id))).
Proof.
  unfold go_st_IsBeaconRegistered. rewrite gen_bcn_BeaconKey_eq. cbn [obind].
  rewrite Has_ok by discriminate. reflexivity.
Qed.

Lemma GetBeacon_spec (s : store) id : go_st_GetBeacon s id = rd_Beacon (okv_get s (kReg id)).
Proof.
  unfold go_st_GetBeacon. rewrite IsBeaconRegistered_spec. cbn [obind].
  fold (kReg id). destruct (okv_get s (kReg id)) as [v|] eqn:E; cbn [is_some negb rd_Beacon]; [|reflexivity].
  rewrite gen_bcn_BeaconKey_eq. cbn [obind]. rewrite Get_ok by discriminate. cbn [obind].
  fold (kReg id). rewrite E. destruct v; reflexivity.
Qed.

Definition dec_Beacon (_ : list N) (v : beacon_val) : outcome go_Beacon :=
  do b <- beacon_unmarshal_Beacon (Some v); Ok b.

Lemma IterateBeacons_spec {St} (s : store) (cb : St -> go_Beacon -> outcome (St * bool)) st :
  go_st_IterateBeacons s cb st = okv_iterate dec_Beacon cb (okv_prefix s beacon_RegisteredBeaconPrefix) st.
Proof. unfold go_st_IterateBeacons, okv_iter_prefix. cbn [obind]. apply obind_ret. Qed.

Lemma GetAllBeacons_spec (s : store) :
  go_st_GetAllBeacons s =
  okv_iterate dec_Beacon (fun acc b => Ok (acc ++ [b], false)) (okv_prefix s beacon_RegisteredBeaconPrefix) [].
Proof. unfold go_st_GetAllBeacons. rewrite IterateBeacons_spec. apply obind_ret. Qed.

(* ---- storage limits ---- *)
Definition rd_Limit (id : Z) (o : option beacon_val) : outcome (go_BeaconStorageLimit * bool) :=
  match o with
  | None => Ok (mk_go_BeaconStorageLimit id store_const_DefaultStorageLimit, false)
  | Some (BV_BeaconStorageLimit x) => Ok (x, true)
  | Some _ => Panic OKV_PANIC_UNMARSHAL
  end.

Lemma SetBeaconStorageLimit_spec (s : store) id l :
  go_st_SetBeaconStorageLimit s id l = Ok (okv_set s (kLim id) (BV_BeaconStorageLimit (mk_go_BeaconStorageLimit id l)), tt).
Proof.
  unfold go_st_SetBeaconStorageLimit. cbv zeta. rewrite gen_bcn_BeaconStorageLimitKey_eq. cbn [obind].
  unfold beacon_marshal_BeaconStorageLimit. cbn [obind]. rewrite Set_ok by discriminate. reflexivity.
Qed.

Lemma HasBeaconStorageLimit_spec (s : store) id : go_st_HasBeaconStorageLimit s id = Ok (is_some (okv_get s (kLim id))).
Proof.
  unfold go_st_HasBeaconStorageLimit. rewrite gen_bcn_BeaconStorageLimitKey_eq. cbn [obind].
  rewrite Has_ok by discriminate. reflexivity.
Qed.

Lemma GetBeaconStorageLimit_spec (s : store) id : go_st_GetBeaconStorageLimit s id = rd_Limit id (okv_get s (kLim id)).
Proof.
  unfold go_st_GetBeaconStorageLimit. rewrite HasBeaconStorageLimit_spec. cbn [obind].
  destruct (okv_get s (kLim id)) as [v|] eqn:E; cbn [is_some negb rd_Limit]; [|reflexivity].
  rewrite gen_bcn_BeaconStorageLimitKey_eq. cbn [obind]. rewrite Get_ok by discriminate. cbn [obind].
  fold (kLim id). rewrite E. destruct v; reflexivity.
Qed.

(* ---- timestamps ---- *)
Definition rd_Timestamp (o : option beacon_val) : outcome (go_BeaconTimestamp * bool) :=
  match o with
  | None => Ok (zero_go_BeaconTimestamp, false)
  | Some (BV_BeaconTimestamp x) => Ok (x, true)
  | Some _ => Panic OKV_PANIC_UNMARSHAL
  end.

Lemma SetBeaconTimestamp_spec (s : store) id ts :
  go_st_SetBeaconTimestamp s id ts = Ok (okv_set s (kRec id (BeaconTimestamp_TimestampId ts)) (BV_BeaconTimestamp ts), tt).
Proof.
  unfold go_st_SetBeaconTimestamp. rewrite gen_bcn_BeaconTimestampKey_eq. cbn [obind].
  unfold beacon_marshal_BeaconTimestamp. cbn [obind]. rewrite Set_ok by discriminate. reflexivity.
Qed.

Lemma IsBeaconTimestampRecordedByID_spec (s : store) id t :
  go_st_IsBeaconTimestampRecordedByID s id t = Ok (is_some (okv_get s (kRec id t))).
Proof.
  unfold go_st_IsBeaconTimestampRecordedByID. rewrite gen_bcn_BeaconTimestampKey_eq. cbn [obind].
  rewrite Has_ok by discriminate. reflexivity.
Qed.

Lemma GetBeaconTimestampByID_spec (s : store) id t :
  go_st_GetBeaconTimestampByID s id t = rd_Timestamp (okv_get s (kRec id t)).
Proof.
  unfold go_st_GetBeaconTimestampByID. rewrite IsBeaconTimestampRecordedByID_spec. cbn [obind].
  destruct (okv_get s (kRec id t)) as [v|] eqn:E; cbn [is_some negb rd_Timestamp]; [|reflexivity].
  rewrite gen_bcn_BeaconTimestampKey_eq. cbn [obind]. rewrite Get_ok by discriminate. cbn [obind].
  fold (kRec id t). rewrite E. destruct v; reflexivity.
Qed.

(* the delete is guarded by Has; on a missing entry the store is returned untouched, which is what okv_del does too *)
Lemma deleteBeaconTimestamp_spec (s : store) id t :
  go_st_deleteBeaconTimestamp s id t = Ok (okv_del s (kRec id t), tt).
Proof.
  unfold go_st_deleteBeaconTimestamp. rewrite IsBeaconTimestampRecordedByID_spec. cbn [obind].
  destruct (okv_get s (kRec id t)) as [v|] eqn:E; cbn [is_some negb].
  - rewrite gen_bcn_BeaconTimestampKey_eq. cbn [obind]. rewrite Delete_ok by discriminate. reflexivity.
  - rewrite del_absent by exact E. reflexivity.
Qed.

Lemma deleteBeaconTimestamp_guard (s : store) id t : okv_get s (kRec id t) = None ->
  go_st_deleteBeaconTimestamp s id t = Ok (s, tt).
Proof. intros E. rewrite deleteBeaconTimestamp_spec, del_absent by exact E. reflexivity. Qed.

Definition dec_Timestamp (_ : list N) (v : beacon_val) : outcome go_BeaconTimestamp :=
  do b <- beacon_unmarshal_BeaconTimestamp (Some v); Ok b.

Lemma IterateBeaconTimestamps_spec {St} (s : store) id (cb : St -> go_BeaconTimestamp -> outcome (St * bool)) st :
  go_st_IterateBeaconTimestamps s id cb st = okv_iterate dec_Timestamp cb (okv_prefix s (pRecs id)) st.
Proof.
  unfold go_st_IterateBeaconTimestamps, okv_iter_prefix. rewrite gen_bcn_BeaconAllTimestampsKey_eq. cbn [obind].
  apply obind_ret.
Qed.

Lemma IterateBeaconTimestampsReverse_spec {St} (s : store) id (cb : St -> go_BeaconTimestamp -> outcome (St * bool)) st :
  go_st_IterateBeaconTimestampsReverse s id cb st = okv_iterate dec_Timestamp cb (rev (okv_prefix s (pRecs id))) st.
Proof.
  unfold go_st_IterateBeaconTimestampsReverse, okv_iter_prefix_rev. rewrite gen_bcn_BeaconAllTimestampsKey_eq. cbn [obind].
  apply obind_ret.
Qed.

Lemma GetAllBeaconTimestamps_spec (s : store) id :
  go_st_GetAllBeaconTimestamps s id =
  okv_iterate dec_Timestamp (fun acc b => Ok (acc ++ [b], false)) (okv_prefix s (pRecs id)) [].
Proof. unfold go_st_GetAllBeaconTimestamps. rewrite IterateBeaconTimestamps_spec. apply obind_ret. Qed.

(* ================================================================== *)
(* every writer is one set / delete at its key                           *)
(* ================================================================== *)

Definition mod_at (K : list N) (s s' : store) : Prop := (exists v, s' = okv_set s K v) \/ s' = okv_del s K.

Lemma mod_at_sorted K (s s' : store) : mod_at K s s' -> okv_sorted s = true -> okv_sorted s' = true.
Proof. intros [[v ->]| ->] Hs; [apply set_sorted | apply del_sorted]; exact Hs. Qed.

Lemma mod_at_get K (s s' : store) K' : mod_at K s s' -> K' <> K -> okv_get s' K' = okv_get s K'.
Proof. intros [[v ->]| ->] Hn; [apply get_set_other | apply get_del_other]; exact Hn. Qed.

Lemma mod_at_prefix K (s s' : store) P : mod_at K s s' -> is_prefix P K = false -> okv_prefix s' P = okv_prefix s P.
Proof. intros [[v ->]| ->] Hn; [apply prefix_set_other | apply prefix_del_other]; exact Hn. Qed.

Lemma SetParams_mod (s s' : store) p : go_st_SetParams s p = Ok (s', tt) -> mod_at beacon_ParamsKey s s'.
Proof. intros H. apply SetParams_inv in H as [_ ->]. left. eexists. reflexivity. Qed.
Lemma SetHighestBeaconID_mod (s s' : store) id : go_st_SetHighestBeaconID s id = Ok (s', tt) -> mod_at beacon_HighestBeaconIDKey s s'.
Proof. rewrite SetHighestBeaconID_spec. intros H. injection H as <-. left. eexists. reflexivity. Qed.
Lemma SetBeacon_mod (s s' : store) b : go_st_SetBeacon s b = Ok (s', tt) -> mod_at (kReg (Beacon_BeaconId b)) s s'.
Proof. rewrite SetBeacon_spec. intros H. injection H as <-. left. eexists. reflexivity. Qed.
Lemma SetBeaconStorageLimit_mod (s s' : store) id l : go_st_SetBeaconStorageLimit s id l = Ok (s', tt) -> mod_at (kLim id) s s'.
Proof. rewrite SetBeaconStorageLimit_spec. intros H. injection H as <-. left. eexists. reflexivity. Qed.
Lemma SetBeaconTimestamp_mod (s s' : store) id ts :
  go_st_SetBeaconTimestamp s id ts = Ok (s', tt) -> mod_at (kRec id (BeaconTimestamp_TimestampId ts)) s s'.
Proof. rewrite SetBeaconTimestamp_spec. intros H. injection H as <-. left. eexists. reflexivity. Qed.
Lemma deleteBeaconTimestamp_mod (s s' : store) id t : go_st_deleteBeaconTimestamp s id t = Ok (s', tt) -> mod_at (kRec id t) s s'.
Proof. rewrite deleteBeaconTimestamp_spec. intros H. injection H as <-. right. reflexivity. Qed.

(* ---- writers preserve the representation invariant ---- *)
Theorem writers_sorted (s s' : store) : okv_sorted s = true ->
  (forall p, go_st_SetParams s p = Ok (s', tt) -> okv_sorted s' = true) /\
  (forall id, go_st_SetHighestBeaconID s id = Ok (s', tt) -> okv_sorted s' = true) /\
  (forall b, go_st_SetBeacon s b = Ok (s', tt) -> okv_sorted s' = true) /\
  (forall id l, go_st_SetBeaconStorageLimit s id l = Ok (s', tt) -> okv_sorted s' = true) /\
  (forall id ts, go_st_SetBeaconTimestamp s id ts = Ok (s', tt) -> okv_sorted s' = true) /\
  (forall id t, go_st_deleteBeaconTimestamp s id t = Ok (s', tt) -> okv_sorted s' = true).
Proof.
  intros Hs. split; [|split; [|split; [|split; [|split]]]]; intros.
  - eapply mod_at_sorted; [eapply SetParams_mod; eassumption | exact Hs].
  - eapply mod_at_sorted; [eapply SetHighestBeaconID_mod; eassumption | exact Hs].
  - eapply mod_at_sorted; [eapply SetBeacon_mod; eassumption | exact Hs].
  - eapply mod_at_sorted; [eapply SetBeaconStorageLimit_mod; eassumption | exact Hs].
  - eapply mod_at_sorted; [eapply SetBeaconTimestamp_mod; eassumption | exact Hs].
  - eapply mod_at_sorted; [eapply deleteBeaconTimestamp_mod; eassumption | exact Hs].
Qed.

(* ================================================================== *)
(* (d) views of the five kinds; a reader depends on its own keys only     *)
(* ================================================================== *)

Definition same_params_view (s s' : store) : Prop :=
  go_st_GetParams s' = go_st_GetParams s /\
  go_st_GetParamDenom s' = go_st_GetParamDenom s /\
  go_st_GetParamRegistrationFee s' = go_st_GetParamRegistrationFee s /\
  go_st_GetParamRecordFee s' = go_st_GetParamRecordFee s /\
  go_st_GetParamPurchaseStorageFee s' = go_st_GetParamPurchaseStorageFee s /\
  go_st_GetParamDefaultStorageLimit s' = go_st_GetParamDefaultStorageLimit s /\
  go_st_GetParamMaxStorageLimit s' = go_st_GetParamMaxStorageLimit s.

Definition same_highest_view (s s' : store) : Prop :=
  go_st_GetHighestBeaconID s' = go_st_GetHighestBeaconID s.

Definition same_beacon_view (s s' : store) : Prop :=
  (forall id, go_st_IsBeaconRegistered s' id = go_st_IsBeaconRegistered s id) /\
  (forall id, go_st_GetBeacon s' id = go_st_GetBeacon s id) /\
  (forall (St : Type) (cb : St -> go_Beacon -> outcome (St * bool)) st,
     go_st_IterateBeacons s' cb st = go_st_IterateBeacons s cb st) /\
  go_st_GetAllBeacons s' = go_st_GetAllBeacons s.

Definition same_limit_view (s s' : store) : Prop :=
  (forall id, go_st_HasBeaconStorageLimit s' id = go_st_HasBeaconStorageLimit s id) /\
  (forall id, go_st_GetBeaconStorageLimit s' id = go_st_GetBeaconStorageLimit s id).

(* the timestamps of ONE beacon: point reads and the three listings *)
Definition same_timestamps_of (id : Z) (s s' : store) : Prop :=
  (forall t, go_st_IsBeaconTimestampRecordedByID s' id t = go_st_IsBeaconTimestampRecordedByID s id t) /\
  (forall t, go_st_GetBeaconTimestampByID s' id t = go_st_GetBeaconTimestampByID s id t) /\
  (forall (St : Type) (cb : St -> go_BeaconTimestamp -> outcome (St * bool)) st,
     go_st_IterateBeaconTimestamps s' id cb st = go_st_IterateBeaconTimestamps s id cb st) /\
  (forall (St : Type) (cb : St -> go_BeaconTimestamp -> outcome (St * bool)) st,
     go_st_IterateBeaconTimestampsReverse s' id cb st = go_st_IterateBeaconTimestampsReverse s id cb st) /\
  go_st_GetAllBeaconTimestamps s' id = go_st_GetAllBeaconTimestamps s id.

Definition same_timestamp_view (s s' : store) : Prop := forall id, same_timestamps_of id s s'.

Lemma params_view_dep (s s' : store) :
  okv_get s' beacon_ParamsKey = okv_get s beacon_ParamsKey -> same_params_view s s'.
Proof.
  intros H. assert (E : go_st_GetParams s' = go_st_GetParams s) by (rewrite !GetParams_spec, H; reflexivity).
  unfold same_params_view, go_st_GetParamDenom, go_st_GetParamRegistrationFee, go_st_GetParamRecordFee,
    go_st_GetParamPurchaseStorageFee, go_st_GetParamDefaultStorageLimit, go_st_GetParamMaxStorageLimit.
  rewrite E. repeat split; reflexivity.
Qed.

Lemma highest_view_dep (s s' : store) :
  okv_get s' beacon_HighestBeaconIDKey = okv_get s beacon_HighestBeaconIDKey -> same_highest_view s s'.
Proof. intros H. unfold same_highest_view. rewrite !GetHighestBeaconID_spec, H. reflexivity. Qed.

Lemma beacon_view_dep (s s' : store) :
  (forall id, okv_get s' (kReg id) = okv_get s (kReg id)) ->
  okv_prefix s' beacon_RegisteredBeaconPrefix = okv_prefix s beacon_RegisteredBeaconPrefix ->
  same_beacon_view s s'.
Proof.
  intros Hg Hp. repeat split; intros.
  - rewrite !IsBeaconRegistered_spec, Hg. reflexivity.
  - rewrite !GetBeacon_spec, Hg. reflexivity.
  - rewrite !IterateBeacons_spec, Hp. reflexivity.
  - rewrite !GetAllBeacons_spec, Hp. reflexivity.
Qed.

Lemma limit_view_dep (s s' : store) :
  (forall id, okv_get s' (kLim id) = okv_get s (kLim id)) -> same_limit_view s s'.
Proof.
  intros Hg. split; intros.
  - rewrite !HasBeaconStorageLimit_spec, Hg. reflexivity.
  - rewrite !GetBeaconStorageLimit_spec, Hg. reflexivity.
Qed.

Lemma timestamps_of_dep id (s s' : store) :
  (forall t, okv_get s' (kRec id t) = okv_get s (kRec id t)) ->
  okv_prefix s' (pRecs id) = okv_prefix s (pRecs id) ->
  same_timestamps_of id s s'.
Proof.
  intros Hg Hp. repeat split; intros.
  - rewrite !IsBeaconTimestampRecordedByID_spec, Hg. reflexivity.
  - rewrite !GetBeaconTimestampByID_spec, Hg. reflexivity.
  - rewrite !IterateBeaconTimestamps_spec, Hp. reflexivity.
  - rewrite !IterateBeaconTimestampsReverse_spec, Hp. reflexivity.
  - rewrite !GetAllBeaconTimestamps_spec, Hp. reflexivity.
Qed.

Lemma is_prefix_weaken x p k : is_prefix [x] k = false -> is_prefix (x :: p) k = false.
Proof. destruct k as [|y k]; [reflexivity|]. cbn. rewrite andb_true_r. intros ->. reflexivity. Qed.

(* the generic isolation lemmas: a set / delete at K, a reader of keys K' <> K and of prefixes not over K *)
Lemma mod_at_params_view K (s s' : store) : mod_at K s s' -> K <> beacon_ParamsKey -> same_params_view s s'.
Proof. intros M Hn. apply params_view_dep. apply (mod_at_get K); [exact M | congruence]. Qed.

Lemma mod_at_highest_view K (s s' : store) : mod_at K s s' -> K <> beacon_HighestBeaconIDKey -> same_highest_view s s'.
Proof. intros M Hn. apply highest_view_dep. apply (mod_at_get K); [exact M | congruence]. Qed.

Lemma mod_at_beacon_view K (s s' : store) :
  mod_at K s s' -> is_prefix beacon_RegisteredBeaconPrefix K = false -> same_beacon_view s s'.
Proof.
  intros M Hn. apply beacon_view_dep.
  - intros id. apply (mod_at_get K); [exact M|]. eapply is_prefix_true_neq; [apply kReg_under | exact Hn].
  - apply (mod_at_prefix K); assumption.
Qed.

Lemma mod_at_limit_view K (s s' : store) :
  mod_at K s s' -> is_prefix beacon_BeaconStorageLimitPrefix K = false -> same_limit_view s s'.
Proof.
  intros M Hn. apply limit_view_dep.
  intros id. apply (mod_at_get K); [exact M|]. eapply is_prefix_true_neq; [apply kLim_under | exact Hn].
Qed.

Lemma mod_at_timestamps_of K id (s s' : store) :
  mod_at K s s' -> is_prefix (pRecs id) K = false -> same_timestamps_of id s s'.
Proof.
  intros M Hn. apply timestamps_of_dep.
  - intros t. apply (mod_at_get K); [exact M|]. eapply is_prefix_true_neq; [apply kRec_under | exact Hn].
  - apply (mod_at_prefix K); assumption.
Qed.

Lemma mod_at_timestamp_view K (s s' : store) :
  mod_at K s s' -> is_prefix beacon_RecordedBeaconTimestampPrefix K = false -> same_timestamp_view s s'.
Proof.
  intros M Hn id. apply (mod_at_timestamps_of K); [exact M|].
  unfold pRecs, bcn_prefix_records_of. apply is_prefix_weaken. exact Hn.
Qed.

(* ---- the six writers against the views of the other kinds ---- *)
Theorem SetParams_isolated (s s' : store) p : go_st_SetParams s p = Ok (s', tt) ->
  same_highest_view s s' /\ same_beacon_view s s' /\ same_limit_view s s' /\ same_timestamp_view s s'.
Proof.
  intros H. apply SetParams_mod in H. split; [|split; [|split]].
  - apply (mod_at_highest_view _ _ _ H). discriminate.
  - apply (mod_at_beacon_view _ _ _ H). reflexivity.
  - apply (mod_at_limit_view _ _ _ H). reflexivity.
  - apply (mod_at_timestamp_view _ _ _ H). reflexivity.
Qed.

Theorem SetHighestBeaconID_isolated (s s' : store) id : go_st_SetHighestBeaconID s id = Ok (s', tt) ->
  same_params_view s s' /\ same_beacon_view s s' /\ same_limit_view s s' /\ same_timestamp_view s s'.
Proof.
  intros H. apply SetHighestBeaconID_mod in H. split; [|split; [|split]].
  - apply (mod_at_params_view _ _ _ H). discriminate.
  - apply (mod_at_beacon_view _ _ _ H). reflexivity.
  - apply (mod_at_limit_view _ _ _ H). reflexivity.
  - apply (mod_at_timestamp_view _ _ _ H). reflexivity.
Qed.

Theorem SetBeacon_isolated (s s' : store) b : go_st_SetBeacon s b = Ok (s', tt) ->
  same_params_view s s' /\ same_highest_view s s' /\ same_limit_view s s' /\ same_timestamp_view s s'.
Proof.
  intros H. apply SetBeacon_mod in H. split; [|split; [|split]].
  - apply (mod_at_params_view _ _ _ H). discriminate.
  - apply (mod_at_highest_view _ _ _ H). discriminate.
  - apply (mod_at_limit_view _ _ _ H). reflexivity.
  - apply (mod_at_timestamp_view _ _ _ H). reflexivity.
Qed.

Theorem SetBeaconStorageLimit_isolated (s s' : store) id l : go_st_SetBeaconStorageLimit s id l = Ok (s', tt) ->
  same_params_view s s' /\ same_highest_view s s' /\ same_beacon_view s s' /\ same_timestamp_view s s'.
Proof.
  intros H. apply SetBeaconStorageLimit_mod in H. split; [|split; [|split]].
  - apply (mod_at_params_view _ _ _ H). discriminate.
  - apply (mod_at_highest_view _ _ _ H). discriminate.
  - apply (mod_at_beacon_view _ _ _ H). reflexivity.
  - apply (mod_at_timestamp_view _ _ _ H). reflexivity.
Qed.

Lemma timestamp_key_isolated K (s s' : store) : mod_at K s s' -> hd 0%N K = 2%N -> K <> [] ->
  same_params_view s s' /\ same_highest_view s s' /\ same_beacon_view s s' /\ same_limit_view s s'.
Proof.
  intros H Hh Hne. split; [|split; [|split]].
  - apply (mod_at_params_view _ _ _ H). intros E. rewrite E in Hh. discriminate.
  - apply (mod_at_highest_view _ _ _ H). intros E. rewrite E in Hh. discriminate.
  - apply (mod_at_beacon_view _ _ _ H). apply is_prefix_head_neq; [discriminate | rewrite Hh; discriminate].
  - apply (mod_at_limit_view _ _ _ H). apply is_prefix_head_neq; [discriminate | rewrite Hh; discriminate].
Qed.

Theorem SetBeaconTimestamp_isolated (s s' : store) id ts : go_st_SetBeaconTimestamp s id ts = Ok (s', tt) ->
  same_params_view s s' /\ same_highest_view s s' /\ same_beacon_view s s' /\ same_limit_view s s'.
Proof. intros H. apply SetBeaconTimestamp_mod in H. apply (timestamp_key_isolated _ _ _ H); [reflexivity | discriminate]. Qed.

Theorem deleteBeaconTimestamp_isolated (s s' : store) id t : go_st_deleteBeaconTimestamp s id t = Ok (s', tt) ->
  same_params_view s s' /\ same_highest_view s s' /\ same_beacon_view s s' /\ same_limit_view s s'.
Proof. intros H. apply deleteBeaconTimestamp_mod in H. apply (timestamp_key_isolated _ _ _ H); [reflexivity | discriminate]. Qed.

(* ================================================================== *)
(* (c) MAP LAWS                                                          *)
(* ================================================================== *)

(* ---- params ---- *)
Theorem SetParams_GetParams (s s' : store) p : go_st_SetParams s p = Ok (s', tt) -> go_st_GetParams s' = Ok p.
Proof. intros H. apply SetParams_inv in H as [_ ->]. rewrite GetParams_spec, get_set_same. reflexivity. Qed.

(* the guard: invalid parameters are refused, nothing is written (no store comes back) *)
Theorem SetParams_guard (s : store) p c : go_Params_Validate p = Err c -> go_st_SetParams s p = Err c.
Proof. intros H. rewrite SetParams_spec, H. reflexivity. Qed.

Theorem GetParams_empty : go_st_GetParams [] = Ok zero_go_Params.
Proof. reflexivity. Qed.

(* ---- highest beacon id ---- *)
Theorem SetHighestBeaconID_Get (s s' : store) id : 0 <= id < 2 ^ 64 ->
  go_st_SetHighestBeaconID s id = Ok (s', tt) -> go_st_GetHighestBeaconID s' = Ok id.
Proof.
  intros R. rewrite SetHighestBeaconID_spec. intros H. injection H as <-.
  rewrite GetHighestBeaconID_spec, get_set_same. cbn [rd_Highest].
  rewrite gen_bcn_GetBeaconIDFromBytes_eq, de64_checked_be64 by (apply wf_id_lt, wf_id_Z; exact R).
  cbn [lift_opt obind]. rewrite Z2N.id by lia. reflexivity.
Qed.

Example SetHighestBeaconID_Get_range_refuted :
  exists s', go_st_SetHighestBeaconID [] (2 ^ 64) = Ok (s', tt) /\ go_st_GetHighestBeaconID s' = Ok 0.
Proof. eexists. split; vm_compute; reflexivity. Qed.

Theorem GetHighestBeaconID_absent (s : store) :
  okv_get s beacon_HighestBeaconIDKey = None -> go_st_GetHighestBeaconID s = Err STORE_ERR.
Proof. intros H. rewrite GetHighestBeaconID_spec, H. reflexivity. Qed.

(* ---- beacons ---- *)
Theorem SetBeacon_GetBeacon (s s' : store) b : go_st_SetBeacon s b = Ok (s', tt) ->
  go_st_GetBeacon s' (Beacon_BeaconId b) = Ok (b, true) /\ go_st_IsBeaconRegistered s' (Beacon_BeaconId b) = Ok true.
Proof.
  rewrite SetBeacon_spec. intros H. injection H as <-.
  rewrite GetBeacon_spec, IsBeaconRegistered_spec, get_set_same. split; reflexivity.
Qed.

Theorem SetBeacon_other (s s' : store) b id : go_st_SetBeacon s b = Ok (s', tt) ->
  0 <= Beacon_BeaconId b < 2 ^ 64 -> 0 <= id < 2 ^ 64 -> id <> Beacon_BeaconId b ->
  go_st_GetBeacon s' id = go_st_GetBeacon s id /\ go_st_IsBeaconRegistered s' id = go_st_IsBeaconRegistered s id.
Proof.
  intros H Rb Ri Hn. apply SetBeacon_mod in H.
  assert (E : okv_get s' (kReg id) = okv_get s (kReg id)).
  { apply (mod_at_get _ _ _ _ H). intros E. apply Hn. apply kReg_inj; assumption. }
  rewrite !GetBeacon_spec, !IsBeaconRegistered_spec, E. split; reflexivity.
Qed.

Theorem GetBeacon_unregistered (s : store) id :
  go_st_IsBeaconRegistered s id = Ok false -> go_st_GetBeacon s id = Ok (zero_go_Beacon, false).
Proof.
  rewrite IsBeaconRegistered_spec, GetBeacon_spec. destruct (okv_get s (kReg id)); cbn; [discriminate | reflexivity].
Qed.

(* ---- storage limits ---- *)
Theorem SetBeaconStorageLimit_Get (s s' : store) id l : go_st_SetBeaconStorageLimit s id l = Ok (s', tt) ->
  go_st_GetBeaconStorageLimit s' id = Ok (mk_go_BeaconStorageLimit id l, true) /\ go_st_HasBeaconStorageLimit s' id = Ok true.
Proof.
  rewrite SetBeaconStorageLimit_spec. intros H. injection H as <-.
  rewrite GetBeaconStorageLimit_spec, HasBeaconStorageLimit_spec, get_set_same. split; reflexivity.
Qed.

Theorem SetBeaconStorageLimit_other (s s' : store) id l id' : go_st_SetBeaconStorageLimit s id l = Ok (s', tt) ->
  0 <= id < 2 ^ 64 -> 0 <= id' < 2 ^ 64 -> id' <> id ->
  go_st_GetBeaconStorageLimit s' id' = go_st_GetBeaconStorageLimit s id' /\
  go_st_HasBeaconStorageLimit s' id' = go_st_HasBeaconStorageLimit s id'.
Proof.
  intros H R R' Hn. apply SetBeaconStorageLimit_mod in H.
  assert (E : okv_get s' (kLim id') = okv_get s (kLim id')).
  { apply (mod_at_get _ _ _ _ H). intros E. apply Hn. apply kLim_inj; assumption. }
  rewrite !GetBeaconStorageLimit_spec, !HasBeaconStorageLimit_spec, E. split; reflexivity.
Qed.

(* without the range two different ids share a key (uint64 truncation of the model's Z) *)
Example SetBeaconStorageLimit_other_range_refuted :
  exists s', go_st_SetBeaconStorageLimit [] 0 7 = Ok (s', tt) /\
             go_st_GetBeaconStorageLimit s' (2 ^ 64) <> go_st_GetBeaconStorageLimit [] (2 ^ 64).
Proof. eexists. split; [vm_compute; reflexivity | vm_compute; discriminate]. Qed.

Theorem GetBeaconStorageLimit_default (s : store) id : go_st_HasBeaconStorageLimit s id = Ok false ->
  go_st_GetBeaconStorageLimit s id = Ok (mk_go_BeaconStorageLimit id store_const_DefaultStorageLimit, false).
Proof.
  rewrite HasBeaconStorageLimit_spec, GetBeaconStorageLimit_spec. destruct (okv_get s (kLim id)); cbn; [discriminate | reflexivity].
Qed.

Theorem GetBeaconStorageLimit_empty id :
  go_st_GetBeaconStorageLimit [] id = Ok (mk_go_BeaconStorageLimit id store_const_DefaultStorageLimit, false).
Proof. rewrite GetBeaconStorageLimit_spec. reflexivity. Qed.

(* ---- timestamps ---- *)
Theorem SetBeaconTimestamp_Get (s s' : store) id ts : go_st_SetBeaconTimestamp s id ts = Ok (s', tt) ->
  go_st_GetBeaconTimestampByID s' id (BeaconTimestamp_TimestampId ts) = Ok (ts, true) /\
  go_st_IsBeaconTimestampRecordedByID s' id (BeaconTimestamp_TimestampId ts) = Ok true.
Proof.
  rewrite SetBeaconTimestamp_spec. intros H. injection H as <-.
  rewrite GetBeaconTimestampByID_spec, IsBeaconTimestampRecordedByID_spec, get_set_same. split; reflexivity.
Qed.

Theorem deleteBeaconTimestamp_Get (s s' : store) id t : okv_sorted s = true ->
  go_st_deleteBeaconTimestamp s id t = Ok (s', tt) ->
  go_st_GetBeaconTimestampByID s' id t = Ok (zero_go_BeaconTimestamp, false) /\
  go_st_IsBeaconTimestampRecordedByID s' id t = Ok false.
Proof.
  intros Hs. rewrite deleteBeaconTimestamp_spec. intros H. injection H as <-.
  rewrite GetBeaconTimestampByID_spec, IsBeaconTimestampRecordedByID_spec, get_del_same by exact Hs. split; reflexivity.
Qed.

(* the representation invariant is needed: a list with the key twice is not a store *)
Example deleteBeaconTimestamp_Get_sorted_refuted :
  let e := (kRec 1 1, BV_BeaconTimestamp zero_go_BeaconTimestamp) in
  exists s', go_st_deleteBeaconTimestamp [e; e] 1 1 = Ok (s', tt) /\ go_st_IsBeaconTimestampRecordedByID s' 1 1 = Ok true.
Proof. eexists. split; vm_compute; reflexivity. Qed.

Lemma timestamp_other_key (s s' : store) K id' t' : mod_at K s s' -> K <> kRec id' t' ->
  go_st_GetBeaconTimestampByID s' id' t' = go_st_GetBeaconTimestampByID s id' t' /\
  go_st_IsBeaconTimestampRecordedByID s' id' t' = go_st_IsBeaconTimestampRecordedByID s id' t'.
Proof.
  intros M Hn. assert (E : okv_get s' (kRec id' t') = okv_get s (kRec id' t')) by (apply (mod_at_get _ _ _ _ M); congruence).
  rewrite !GetBeaconTimestampByID_spec, !IsBeaconTimestampRecordedByID_spec, E. split; reflexivity.
Qed.

Theorem SetBeaconTimestamp_other (s s' : store) id ts id' t' : go_st_SetBeaconTimestamp s id ts = Ok (s', tt) ->
  0 <= id < 2 ^ 64 -> 0 <= BeaconTimestamp_TimestampId ts < 2 ^ 64 -> 0 <= id' < 2 ^ 64 -> 0 <= t' < 2 ^ 64 ->
  (id', t') <> (id, BeaconTimestamp_TimestampId ts) ->
  go_st_GetBeaconTimestampByID s' id' t' = go_st_GetBeaconTimestampByID s id' t' /\
  go_st_IsBeaconTimestampRecordedByID s' id' t' = go_st_IsBeaconTimestampRecordedByID s id' t'.
Proof.
  intros H R1 R2 R3 R4 Hn. apply SetBeaconTimestamp_mod in H. apply (timestamp_other_key _ _ _ _ _ H).
  intros E. apply kRec_inj in E; try assumption. destruct E as [E1 E2]. apply Hn. congruence.
Qed.

Theorem deleteBeaconTimestamp_other (s s' : store) id t id' t' : go_st_deleteBeaconTimestamp s id t = Ok (s', tt) ->
  0 <= id < 2 ^ 64 -> 0 <= t < 2 ^ 64 -> 0 <= id' < 2 ^ 64 -> 0 <= t' < 2 ^ 64 ->
  (id', t') <> (id, t) ->
  go_st_GetBeaconTimestampByID s' id' t' = go_st_GetBeaconTimestampByID s id' t' /\
  go_st_IsBeaconTimestampRecordedByID s' id' t' = go_st_IsBeaconTimestampRecordedByID s id' t'.
Proof.
  intros H R1 R2 R3 R4 Hn. apply deleteBeaconTimestamp_mod in H. apply (timestamp_other_key _ _ _ _ _ H).
  intros E. apply kRec_inj in E; try assumption. destruct E as [E1 E2]. apply Hn. congruence.
Qed.

(* a record key of beacon id is not under the record prefix of a different beacon id' *)
Lemma kRec_not_under id t id' : 0 <= id < 2 ^ 64 -> 0 <= id' < 2 ^ 64 -> id' <> id -> is_prefix (pRecs id') (kRec id t) = false.
Proof.
  intros R R' Hn. destruct (is_prefix (pRecs id') (kRec id t)) eqn:E; [|reflexivity]. exfalso.
  unfold pRecs, kRec, bcn_prefix_records_of, bcn_encode, reg_encode in E. rewrite is_prefix_cons in E. cbn [N.eqb Pos.eqb andb] in E.
  apply (is_prefix_same_len_app (be64 (Z.to_N id')) (be64 (Z.to_N id)) (be64 (Z.to_N t)) eq_refl) in E.
  apply be64_inj in E; [|apply wf_id_lt, wf_id_Z; assumption ..]. apply Z2N.inj in E; lia.
Qed.

(* a write / delete of a timestamp of one beacon leaves every read and listing of another beacon's timestamps alone *)
Theorem SetBeaconTimestamp_other_beacon (s s' : store) id ts id' : go_st_SetBeaconTimestamp s id ts = Ok (s', tt) ->
  0 <= id < 2 ^ 64 -> 0 <= id' < 2 ^ 64 -> id' <> id -> same_timestamps_of id' s s'.
Proof.
  intros H R R' Hn. apply SetBeaconTimestamp_mod in H. apply (mod_at_timestamps_of _ _ _ _ H).
  apply kRec_not_under; assumption.
Qed.

Theorem deleteBeaconTimestamp_other_beacon (s s' : store) id t id' : go_st_deleteBeaconTimestamp s id t = Ok (s', tt) ->
  0 <= id < 2 ^ 64 -> 0 <= id' < 2 ^ 64 -> id' <> id -> same_timestamps_of id' s s'.
Proof.
  intros H R R' Hn. apply deleteBeaconTimestamp_mod in H. apply (mod_at_timestamps_of _ _ _ _ H).
  apply kRec_not_under; assumption.
Qed.

(* ================================================================== *)
(* (e) LISTINGS                                                          *)
(* ================================================================== *)

(* weak well-formedness: the entries under the two iterated prefixes hold values of the right constructor *)
Definition beacon_store_typed (s : store) : Prop := forall k v, In (k, v) s ->
  (is_prefix beacon_RegisteredBeaconPrefix k = true -> exists x, v = BV_Beacon x) /\
  (is_prefix beacon_RecordedBeaconTimestampPrefix k = true -> exists x, v = BV_BeaconTimestamp x).

(* strong well-formedness: every value sits under the key its own content determines (what the writers do) *)
Definition beacon_entry_ok (k : list N) (v : beacon_val) : Prop :=
  match v with
  | BV_Beacon x => k = bcn_encode (RkReg (Z.to_N (Beacon_BeaconId x)))
  | BV_BeaconStorageLimit x => k = bcn_encode (RkLimit (Z.to_N (BeaconStorageLimit_BeaconId x)))
  | BV_BeaconTimestamp x => exists id, k = bcn_encode (RkRecord (Z.to_N id) (Z.to_N (BeaconTimestamp_TimestampId x)))
  | BV_Params _ => k = beacon_ParamsKey
  | BV_bytes _ => k = beacon_HighestBeaconIDKey
  end.
Definition beacon_store_wf (s : store) : Prop := forall k v, In (k, v) s -> beacon_entry_ok k v.

Lemma entry_ok_typed k v : beacon_entry_ok k v ->
  (is_prefix beacon_RegisteredBeaconPrefix k = true -> exists x, v = BV_Beacon x) /\
  (is_prefix beacon_RecordedBeaconTimestampPrefix k = true -> exists x, v = BV_BeaconTimestamp x).
Proof.
  destruct v; cbn [beacon_entry_ok]; intros H.
  - subst k. split; intros P; [eexists; reflexivity | discriminate P].
  - subst k. split; intros P; discriminate P.
  - destruct H as [id ->]. split; intros P; [discriminate P | eexists; reflexivity].
  - subst k. split; intros P; discriminate P.
  - subst k. split; intros P; discriminate P.
Qed.

Theorem wf_typed (s : store) : beacon_store_wf s -> beacon_store_typed s.
Proof. intros W k v Hin. apply entry_ok_typed. apply W. exact Hin. Qed.

Theorem empty_wf : beacon_store_wf [] /\ beacon_store_typed [] /\ okv_sorted ([] : store) = true.
Proof. split; [intros k v []| split; [intros k v [] | reflexivity]]. Qed.

Lemma wf_mod_set (s : store) K v : beacon_store_wf s -> beacon_entry_ok K v -> beacon_store_wf (okv_set s K v).
Proof. intros W Hv k' v' Hin. apply set_in in Hin. destruct Hin as [[-> ->]|Hin]; [exact Hv | apply W; exact Hin]. Qed.
Lemma wf_mod_del (s : store) K : beacon_store_wf s -> beacon_store_wf (okv_del s K).
Proof. intros W k' v' Hin. apply del_in in Hin. apply W; exact Hin. Qed.

Lemma typed_mod_set (s : store) K v : beacon_store_typed s ->
  ((is_prefix beacon_RegisteredBeaconPrefix K = true -> exists x, v = BV_Beacon x) /\
   (is_prefix beacon_RecordedBeaconTimestampPrefix K = true -> exists x, v = BV_BeaconTimestamp x)) ->
  beacon_store_typed (okv_set s K v).
Proof. intros W Hv k' v' Hin. apply set_in in Hin. destruct Hin as [[-> ->]|Hin]; [exact Hv | apply W; exact Hin]. Qed.
Lemma typed_mod_del (s : store) K : beacon_store_typed s -> beacon_store_typed (okv_del s K).
Proof. intros W k' v' Hin. apply del_in in Hin. apply W; exact Hin. Qed.

Theorem writers_wf (s s' : store) : beacon_store_wf s ->
  (forall p, go_st_SetParams s p = Ok (s', tt) -> beacon_store_wf s') /\
  (forall id, go_st_SetHighestBeaconID s id = Ok (s', tt) -> beacon_store_wf s') /\
  (forall b, go_st_SetBeacon s b = Ok (s', tt) -> beacon_store_wf s') /\
  (forall id l, go_st_SetBeaconStorageLimit s id l = Ok (s', tt) -> beacon_store_wf s') /\
  (forall id ts, go_st_SetBeaconTimestamp s id ts = Ok (s', tt) -> beacon_store_wf s') /\
  (forall id t, go_st_deleteBeaconTimestamp s id t = Ok (s', tt) -> beacon_store_wf s').
Proof.
  intros W. split; [|split; [|split; [|split; [|split]]]].
  - intros p H. apply SetParams_inv in H as [_ ->]. apply wf_mod_set; [exact W | reflexivity].
  - intros id. rewrite SetHighestBeaconID_spec. intros H. injection H as <-. apply wf_mod_set; [exact W | reflexivity].
  - intros b. rewrite SetBeacon_spec. intros H. injection H as <-. apply wf_mod_set; [exact W | reflexivity].
  - intros id l. rewrite SetBeaconStorageLimit_spec. intros H. injection H as <-. apply wf_mod_set; [exact W | reflexivity].
  - intros id ts. rewrite SetBeaconTimestamp_spec. intros H. injection H as <-. apply wf_mod_set; [exact W | exists id; reflexivity].
  - intros id t. rewrite deleteBeaconTimestamp_spec. intros H. injection H as <-. apply wf_mod_del; exact W.
Qed.

Theorem writers_typed (s s' : store) : beacon_store_typed s ->
  (forall p, go_st_SetParams s p = Ok (s', tt) -> beacon_store_typed s') /\
  (forall id, go_st_SetHighestBeaconID s id = Ok (s', tt) -> beacon_store_typed s') /\
  (forall b, go_st_SetBeacon s b = Ok (s', tt) -> beacon_store_typed s') /\
  (forall id l, go_st_SetBeaconStorageLimit s id l = Ok (s', tt) -> beacon_store_typed s') /\
  (forall id ts, go_st_SetBeaconTimestamp s id ts = Ok (s', tt) -> beacon_store_typed s') /\
  (forall id t, go_st_deleteBeaconTimestamp s id t = Ok (s', tt) -> beacon_store_typed s').
Proof.
  intros W. split; [|split; [|split; [|split; [|split]]]].
  - intros p H. apply SetParams_inv in H as [_ ->]. apply typed_mod_set; [exact W | split; intros P; discriminate P].
  - intros id. rewrite SetHighestBeaconID_spec. intros H. injection H as <-.
    apply typed_mod_set; [exact W | split; intros P; discriminate P].
  - intros b. rewrite SetBeacon_spec. intros H. injection H as <-.
    apply typed_mod_set; [exact W | split; intros P; [eexists; reflexivity | discriminate P]].
  - intros id l. rewrite SetBeaconStorageLimit_spec. intros H. injection H as <-.
    apply typed_mod_set; [exact W | split; intros P; discriminate P].
  - intros id ts. rewrite SetBeaconTimestamp_spec. intros H. injection H as <-.
    apply typed_mod_set; [exact W | split; intros P; [discriminate P | eexists; reflexivity]].
  - intros id t. rewrite deleteBeaconTimestamp_spec. intros H. injection H as <-. apply typed_mod_del; exact W.
Qed.

(* ---- decoding ---- *)
Lemma dec_Beacon_ok k b : dec_Beacon k (BV_Beacon b) = Ok b. Proof. reflexivity. Qed.
Lemma dec_Beacon_inv k v b : dec_Beacon k v = Ok b -> v = BV_Beacon b.
Proof. destruct v; cbn; intros H; try discriminate H. injection H as ->. reflexivity. Qed.
Lemma dec_Timestamp_ok k b : dec_Timestamp k (BV_BeaconTimestamp b) = Ok b. Proof. reflexivity. Qed.
Lemma dec_Timestamp_inv k v b : dec_Timestamp k v = Ok b -> v = BV_BeaconTimestamp b.
Proof. destruct v; cbn; intros H; try discriminate H. injection H as ->. reflexivity. Qed.

Lemma rd_Beacon_found o b : rd_Beacon o = Ok (b, true) <-> o = Some (BV_Beacon b).
Proof.
  split; [|intros ->; reflexivity]. destruct o as [[]|]; cbn; intros H; try discriminate H. injection H as ->. reflexivity.
Qed.
Lemma rd_Timestamp_found o b : rd_Timestamp o = Ok (b, true) <-> o = Some (BV_BeaconTimestamp b).
Proof.
  split; [|intros ->; reflexivity]. destruct o as [[]|]; cbn; intros H; try discriminate H. injection H as ->. reflexivity.
Qed.

(* ---- beacons: what the listing is, under the weak predicate ---- *)
Lemma typed_beacons_decodable (s : store) : beacon_store_typed s ->
  exists l, Forall2 (fun a e => dec_Beacon (fst e) (snd e) = Ok a) l (okv_prefix s beacon_RegisteredBeaconPrefix).
Proof.
  intros T. apply decodable_list. intros k v Hin. apply prefix_in in Hin. destruct Hin as [Hin P].
  destruct (proj1 (T k v Hin) P) as [x ->]. exists x. reflexivity.
Qed.

Theorem GetAllBeacons_typed (s : store) : beacon_store_typed s ->
  exists l, go_st_GetAllBeacons s = Ok l /\
            map BV_Beacon l = map snd (okv_prefix s beacon_RegisteredBeaconPrefix) /\
            (forall (St : Type) (cb : St -> go_Beacon -> outcome (St * bool)) st, go_st_IterateBeacons s cb st = visit cb l st).
Proof.
  intros T. destruct (typed_beacons_decodable s T) as [l Hl]. exists l. split; [|split].
  - rewrite GetAllBeacons_spec, (iterate_visit _ _ _ _ _ Hl), visit_append. reflexivity.
  - symmetry. apply (Forall2_maps _ _ _ _ _ Hl). intros a [k v] _ H. cbn in *. apply dec_Beacon_inv in H. exact H.
  - intros St cb st. rewrite IterateBeacons_spec. apply iterate_visit. exact Hl.
Qed.

(* the predicate is needed: a value of another type under the prefix makes the listing panic *)
Example GetAllBeacons_typed_refuted :
  go_st_GetAllBeacons [(kReg 1, BV_Params zero_go_Params)] = Panic OKV_PANIC_UNMARSHAL.
Proof. vm_compute. reflexivity. Qed.

Definition enc_Beacon (b : go_Beacon) : list N * beacon_val := (bcn_encode (RkReg (Z.to_N (Beacon_BeaconId b))), BV_Beacon b).

Lemma wf_beacons_listing (s : store) : beacon_store_wf s ->
  exists l, go_st_GetAllBeacons s = Ok l /\
            okv_prefix s beacon_RegisteredBeaconPrefix = map enc_Beacon l /\
            (forall (St : Type) (cb : St -> go_Beacon -> outcome (St * bool)) st, go_st_IterateBeacons s cb st = visit cb l st).
Proof.
  intros W. destruct (typed_beacons_decodable s (wf_typed s W)) as [l Hl]. exists l. split; [|split].
  - rewrite GetAllBeacons_spec, (iterate_visit _ _ _ _ _ Hl), visit_append. reflexivity.
  - rewrite <- (map_id (okv_prefix s beacon_RegisteredBeaconPrefix)) at 1.
    apply (Forall2_maps _ _ _ _ _ Hl). intros a [k v] Hin H. cbn in H. apply dec_Beacon_inv in H. subst v.
    apply prefix_in in Hin. destruct Hin as [Hin _]. apply W in Hin. cbn [beacon_entry_ok] in Hin. subst k. reflexivity.
  - intros St cb st. rewrite IterateBeacons_spec. apply iterate_visit. exact Hl.
Qed.

Lemma enc_Beacon_in b l : In (enc_Beacon b) (map enc_Beacon l) <-> In b l.
Proof.
  split; [|apply in_map]. intros H. apply in_map_iff in H. destruct H as [b' [E H]].
  unfold enc_Beacon in E. injection E as _ E. subst b'. exact H.
Qed.

Theorem GetAllBeacons_listing (s : store) : okv_sorted s = true -> beacon_store_wf s ->
  exists l, go_st_GetAllBeacons s = Ok l /\
    (forall b, In b l <-> go_st_GetBeacon s (Beacon_BeaconId b) = Ok (b, true)) /\
    (forall id b, go_st_GetBeacon s id = Ok (b, true) -> In b l) /\
    NoDup l /\
    ((forall b, In b l -> 0 <= Beacon_BeaconId b < 2 ^ 64) ->
     StronglySorted (fun a b => Beacon_BeaconId a < Beacon_BeaconId b) l).
Proof.
  intros Hs W. destruct (wf_beacons_listing s W) as [l [Hl [He _]]]. exists l. split; [exact Hl|].
  assert (Hmem : forall b, In b l <-> okv_get s (kReg (Beacon_BeaconId b)) = Some (BV_Beacon b)).
  { intros b. rewrite <- enc_Beacon_in, <- He. unfold enc_Beacon. rewrite prefix_get by exact Hs.
    fold (kReg (Beacon_BeaconId b)). split; [intros [H _]; exact H | intros H; split; [exact H | apply kReg_under]]. }
  split; [|split; [|split]].
  - intros b. rewrite GetBeacon_spec, rd_Beacon_found. apply Hmem.
  - intros id b. rewrite GetBeacon_spec, rd_Beacon_found. intros H. apply Hmem.
    pose proof (get_in _ _ _ H) as Hin. apply W in Hin. cbn [beacon_entry_ok] in Hin. change (kReg id = kReg (Beacon_BeaconId b)) in Hin.
    rewrite <- Hin. exact H.
  - apply (NoDup_map_inv (fun b => fst (enc_Beacon b))). rewrite <- map_map, <- He.
    apply sorted_keys_nodup, prefix_sorted, Hs.
  - intros R. apply (strongly_map enc_Beacon (fun a b => lex_lt (fst a) (fst b) = true)).
    + rewrite <- He. apply sorted_strongly, prefix_sorted, Hs.
    + intros a b Ha Hb. unfold enc_Beacon. cbn [fst]. apply (kReg_order (Beacon_BeaconId a) (Beacon_BeaconId b)); apply R; assumption.
Qed.

(* ---- timestamps of one beacon ---- *)
Lemma typed_timestamps_decodable (s : store) id : beacon_store_typed s ->
  exists l, Forall2 (fun a e => dec_Timestamp (fst e) (snd e) = Ok a) l (okv_prefix s (pRecs id)).
Proof.
  intros T. apply decodable_list. intros k v Hin. apply prefix_in in Hin. destruct Hin as [Hin P].
  assert (P2 : is_prefix beacon_RecordedBeaconTimestampPrefix k = true).
  { apply is_prefix_spec in P. destruct P as [r ->]. reflexivity. }
  destruct (proj2 (T k v Hin) P2) as [x ->]. exists x. reflexivity.
Qed.

Theorem GetAllBeaconTimestamps_typed (s : store) id : beacon_store_typed s ->
  exists l, go_st_GetAllBeaconTimestamps s id = Ok l /\
            map BV_BeaconTimestamp l = map snd (okv_prefix s (bcn_prefix_records_of (Z.to_N id))) /\
            (forall (St : Type) (cb : St -> go_BeaconTimestamp -> outcome (St * bool)) st,
               go_st_IterateBeaconTimestamps s id cb st = visit cb l st) /\
            (forall (St : Type) (cb : St -> go_BeaconTimestamp -> outcome (St * bool)) st,
               go_st_IterateBeaconTimestampsReverse s id cb st = visit cb (rev l) st).
Proof.
  intros T. destruct (typed_timestamps_decodable s id T) as [l Hl]. exists l. split; [|split; [|split]].
  - rewrite GetAllBeaconTimestamps_spec, (iterate_visit _ _ _ _ _ Hl), visit_append. reflexivity.
  - symmetry. apply (Forall2_maps _ _ _ _ _ Hl). intros a [k v] _ H. cbn in *. apply dec_Timestamp_inv in H. exact H.
  - intros St cb st. rewrite IterateBeaconTimestamps_spec. apply iterate_visit. exact Hl.
  - intros St cb st. rewrite IterateBeaconTimestampsReverse_spec. apply iterate_visit. apply Forall2_rev. exact Hl.
Qed.

Definition enc_Timestamp (id : Z) (t : go_BeaconTimestamp) : list N * beacon_val :=
  (bcn_encode (RkRecord (Z.to_N id) (Z.to_N (BeaconTimestamp_TimestampId t))), BV_BeaconTimestamp t).

Lemma wf_timestamps_listing (s : store) id : beacon_store_wf s ->
  exists l, go_st_GetAllBeaconTimestamps s id = Ok l /\
            okv_prefix s (pRecs id) = map (enc_Timestamp id) l /\
            (forall (St : Type) (cb : St -> go_BeaconTimestamp -> outcome (St * bool)) st,
               go_st_IterateBeaconTimestamps s id cb st = visit cb l st) /\
            (forall (St : Type) (cb : St -> go_BeaconTimestamp -> outcome (St * bool)) st,
               go_st_IterateBeaconTimestampsReverse s id cb st = visit cb (rev l) st).
Proof.
  intros W. destruct (typed_timestamps_decodable s id (wf_typed s W)) as [l Hl]. exists l. split; [|split; [|split]].
  - rewrite GetAllBeaconTimestamps_spec, (iterate_visit _ _ _ _ _ Hl), visit_append. reflexivity.
  - rewrite <- (map_id (okv_prefix s (pRecs id))) at 1.
    apply (Forall2_maps _ _ _ _ _ Hl). intros a [k v] Hin H. cbn in H. apply dec_Timestamp_inv in H. subst v.
    apply prefix_in in Hin. destruct Hin as [Hin P]. apply W in Hin. cbn [beacon_entry_ok] in Hin. destruct Hin as [id0 ->].
    unfold enc_Timestamp. cbv beta. f_equal. apply (kRec_under_inv id id0). exact P.
  - intros St cb st. rewrite IterateBeaconTimestamps_spec. apply iterate_visit. exact Hl.
  - intros St cb st. rewrite IterateBeaconTimestampsReverse_spec. apply iterate_visit. apply Forall2_rev. exact Hl.
Qed.

Lemma enc_Timestamp_in id b l : In (enc_Timestamp id b) (map (enc_Timestamp id) l) <-> In b l.
Proof.
  split; [|apply in_map]. intros H. apply in_map_iff in H. destruct H as [b' [E H]].
  unfold enc_Timestamp in E. injection E as _ E. subst b'. exact H.
Qed.

Theorem GetAllBeaconTimestamps_listing (s : store) id : okv_sorted s = true -> beacon_store_wf s ->
  exists l, go_st_GetAllBeaconTimestamps s id = Ok l /\
    (forall t, In t l <-> go_st_GetBeaconTimestampByID s id (BeaconTimestamp_TimestampId t) = Ok (t, true)) /\
    (forall tid t, go_st_GetBeaconTimestampByID s id tid = Ok (t, true) -> In t l) /\
    NoDup l /\
    ((forall t, In t l -> 0 <= BeaconTimestamp_TimestampId t < 2 ^ 64) ->
     StronglySorted (fun a b => BeaconTimestamp_TimestampId a < BeaconTimestamp_TimestampId b) l) /\
    (forall (St : Type) (cb : St -> go_BeaconTimestamp -> outcome (St * bool)) st,
       go_st_IterateBeaconTimestamps s id cb st = visit cb l st) /\
    (forall (St : Type) (cb : St -> go_BeaconTimestamp -> outcome (St * bool)) st,
       go_st_IterateBeaconTimestampsReverse s id cb st = visit cb (rev l) st).
Proof.
  intros Hs W. destruct (wf_timestamps_listing s id W) as [l [Hl [He [Hi Hr]]]]. exists l. split; [exact Hl|].
  assert (Hmem : forall t, In t l <-> okv_get s (kRec id (BeaconTimestamp_TimestampId t)) = Some (BV_BeaconTimestamp t)).
  { intros t. rewrite <- (enc_Timestamp_in id), <- He. unfold enc_Timestamp. rewrite prefix_get by exact Hs.
    fold (kRec id (BeaconTimestamp_TimestampId t)).
    split; [intros [H _]; exact H | intros H; split; [exact H | apply kRec_under]]. }
  split; [|split; [|split; [|split; [|split]]]].
  - intros t. rewrite GetBeaconTimestampByID_spec, rd_Timestamp_found. apply Hmem.
  - intros tid t. rewrite GetBeaconTimestampByID_spec, rd_Timestamp_found. intros H. apply Hmem.
    pose proof (get_in _ _ _ H) as Hin. apply W in Hin. cbn [beacon_entry_ok] in Hin. destruct Hin as [id0 Hin].
    assert (E : kRec id tid = kRec id (BeaconTimestamp_TimestampId t)).
    { rewrite Hin. apply (kRec_under_inv id id0). unfold kRec. rewrite <- Hin. apply kRec_under. }
    rewrite <- E. exact H.
  - apply (NoDup_map_inv (fun b => fst (enc_Timestamp id b))). rewrite <- map_map, <- He.
    apply sorted_keys_nodup, prefix_sorted, Hs.
  - intros R. apply (strongly_map (enc_Timestamp id) (fun a b => lex_lt (fst a) (fst b) = true)).
    + rewrite <- He. apply sorted_strongly, prefix_sorted, Hs.
    + intros a b Ha Hb. unfold enc_Timestamp. cbn [fst].
      apply (kRec_order id (BeaconTimestamp_TimestampId a) (BeaconTimestamp_TimestampId b)); apply R; assumption.
  - exact Hi.
  - exact Hr.
Qed.

(* descending: the reverse iteration with the collecting callback yields the reversed ascending listing *)
Theorem IterateBeaconTimestampsReverse_descending (s : store) id l : okv_sorted s = true -> beacon_store_wf s ->
  go_st_GetAllBeaconTimestamps s id = Ok l ->
  go_st_IterateBeaconTimestampsReverse s id (fun acc t => Ok (acc ++ [t], false)) [] = Ok (rev l) /\
  ((forall t, In t l -> 0 <= BeaconTimestamp_TimestampId t < 2 ^ 64) ->
   StronglySorted (fun a b => BeaconTimestamp_TimestampId b < BeaconTimestamp_TimestampId a) (rev l)).
Proof.
  intros Hs W Hl. destruct (GetAllBeaconTimestamps_listing s id Hs W) as [l' [Hl' [_ [_ [_ [Ho [_ Hr]]]]]]].
  rewrite Hl in Hl'. injection Hl' as <-. split.
  - rewrite Hr, visit_append. reflexivity.
  - intros R. apply (strongly_rev (fun a b => BeaconTimestamp_TimestampId a < BeaconTimestamp_TimestampId b)). apply Ho. exact R.
Qed.

(* ---- listings after a write ---- *)
Theorem SetBeacon_listed (s s' : store) b : okv_sorted s = true -> beacon_store_wf s ->
  go_st_SetBeacon s b = Ok (s', tt) -> exists l, go_st_GetAllBeacons s' = Ok l /\ In b l.
Proof.
  intros Hs W H.
  assert (Hs' : okv_sorted s' = true) by (eapply mod_at_sorted; [eapply SetBeacon_mod; exact H | exact Hs]).
  assert (W' : beacon_store_wf s') by (apply (proj1 (proj2 (proj2 (writers_wf s s' W))) b H)).
  destruct (GetAllBeacons_listing s' Hs' W') as [l [Hl [Hm _]]]. exists l. split; [exact Hl|].
  apply Hm. apply (SetBeacon_GetBeacon s s' b H).
Qed.

Theorem SetBeaconTimestamp_listed (s s' : store) id ts : okv_sorted s = true -> beacon_store_wf s ->
  go_st_SetBeaconTimestamp s id ts = Ok (s', tt) -> exists l, go_st_GetAllBeaconTimestamps s' id = Ok l /\ In ts l.
Proof.
  intros Hs W H.
  assert (Hs' : okv_sorted s' = true) by (eapply mod_at_sorted; [eapply SetBeaconTimestamp_mod; exact H | exact Hs]).
  assert (W' : beacon_store_wf s') by (apply (proj1 (proj2 (proj2 (proj2 (proj2 (writers_wf s s' W))))) id ts H)).
  destruct (GetAllBeaconTimestamps_listing s' id Hs' W') as [l [Hl [Hm _]]]. exists l. split; [exact Hl|].
  apply Hm. apply (SetBeaconTimestamp_Get s s' id ts H).
Qed.

Theorem deleteBeaconTimestamp_unlisted (s s' : store) id t : okv_sorted s = true -> beacon_store_wf s ->
  go_st_deleteBeaconTimestamp s id t = Ok (s', tt) ->
  exists l, go_st_GetAllBeaconTimestamps s' id = Ok l /\ forall ts, In ts l -> BeaconTimestamp_TimestampId ts <> t.
Proof.
  intros Hs W H.
  assert (Hs' : okv_sorted s' = true) by (eapply mod_at_sorted; [eapply deleteBeaconTimestamp_mod; exact H | exact Hs]).
  assert (W' : beacon_store_wf s') by (apply (proj2 (proj2 (proj2 (proj2 (proj2 (writers_wf s s' W))))) id t H)).
  destruct (GetAllBeaconTimestamps_listing s' id Hs' W') as [l [Hl [Hm _]]]. exists l. split; [exact Hl|].
  intros ts Hin E. apply Hm in Hin. rewrite E in Hin.
  rewrite (proj1 (deleteBeaconTimestamp_Get s s' id t Hs H)) in Hin. discriminate Hin.
Qed.

(* ---- hypotheses of the listing theorems are needed ---- *)
(* the weak predicate does not give point-vs-listing consistency: a beacon under a key that is not its own *)
Example listing_needs_wf :
  let s : store := [([1; 7]%N, BV_Beacon zero_go_Beacon)] in
  okv_sorted s = true /\ beacon_store_typed s /\
  go_st_GetAllBeacons s = Ok [zero_go_Beacon] /\ go_st_GetBeacon s 0 = Ok (zero_go_Beacon, false).
Proof.
  split; [reflexivity|]. split; [|split; vm_compute; reflexivity].
  intros k v [E|[]]. injection E as <- <-. split; intros P; [eexists; reflexivity | discriminate P].
Qed.

(* without the uint64 range byte order is not the order of the model's Z: 2^64 is stored under the key of 0 *)
Example listing_order_range_refuted :
  let b (i : Z) := set_Beacon_BeaconId zero_go_Beacon i in
  exists s1 s2, go_st_SetBeacon [] (b 1) = Ok (s1, tt) /\ go_st_SetBeacon s1 (b (2 ^ 64)) = Ok (s2, tt) /\
                go_st_GetAllBeacons s2 = Ok [b (2 ^ 64); b 1].
Proof. do 2 eexists. split; [|split]; vm_compute; reflexivity. Qed.

(* ================================================================== *)
(* (f) a concrete run of the generated writers from the empty store      *)
(* ================================================================== *)

Definition demo_params : go_Params := mk_go_Params 1 1 1 1 10 20.
Definition demo_beacon (i : Z) : go_Beacon := set_Beacon_BeaconId zero_go_Beacon i.
Definition demo_ts (i : Z) : go_BeaconTimestamp := mk_go_BeaconTimestamp i (100 + i) EmptyString.

Definition demo_store : outcome store :=
  do r <- go_st_SetParams [] demo_params;
  do r <- go_st_SetHighestBeaconID (fst r) 3;
  do r <- go_st_SetBeacon (fst r) (demo_beacon 2);
  do r <- go_st_SetBeacon (fst r) (demo_beacon 1);
  do r <- go_st_SetBeaconStorageLimit (fst r) 1 100;
  do r <- go_st_SetBeaconTimestamp (fst r) 1 (demo_ts 2);
  do r <- go_st_SetBeaconTimestamp (fst r) 2 (demo_ts 5);
  do r <- go_st_SetBeaconTimestamp (fst r) 1 (demo_ts 3);
  do r <- go_st_SetBeaconTimestamp (fst r) 1 (demo_ts 1);
  do r <- go_st_deleteBeaconTimestamp (fst r) 1 2;
  Ok (fst r).

Example demo_run :
  exists s, demo_store = Ok s /\ okv_sorted s = true /\ List.length s = 8%nat /\
    (* read-back *)
    go_st_GetParams s = Ok demo_params /\
    go_st_GetHighestBeaconID s = Ok 3 /\
    go_st_GetBeacon s 2 = Ok (demo_beacon 2, true) /\
    go_st_GetBeacon s 3 = Ok (zero_go_Beacon, false) /\
    go_st_GetBeaconStorageLimit s 1 = Ok (mk_go_BeaconStorageLimit 1 100, true) /\
    (* isolation: the limit of beacon 1 did not touch beacon 2's (default, nothing stored) *)
    go_st_GetBeaconStorageLimit s 2 = Ok (mk_go_BeaconStorageLimit 2 store_const_DefaultStorageLimit, false) /\
    go_st_GetBeaconTimestampByID s 1 3 = Ok (demo_ts 3, true) /\
    go_st_GetBeaconTimestampByID s 1 2 = Ok (zero_go_BeaconTimestamp, false) /\
    go_st_GetBeaconTimestampByID s 2 3 = Ok (zero_go_BeaconTimestamp, false) /\
    (* listings: ascending id whatever the order of the writes; one beacon's timestamps only *)
    go_st_GetAllBeacons s = Ok [demo_beacon 1; demo_beacon 2] /\
    go_st_GetAllBeaconTimestamps s 1 = Ok [demo_ts 1; demo_ts 3] /\
    go_st_GetAllBeaconTimestamps s 2 = Ok [demo_ts 5] /\
    go_st_GetAllBeaconTimestamps s 3 = Ok [] /\
    go_st_IterateBeaconTimestampsReverse s 1 (fun acc t => Ok (acc ++ [t], false)) [] = Ok [demo_ts 3; demo_ts 1] /\
    (* a callback that stops at once sees the lowest / the highest timestamp id *)
    go_st_IterateBeaconTimestamps s 1 (fun _ t => Ok (Some t, true)) None = Ok (Some (demo_ts 1)) /\
    go_st_IterateBeaconTimestampsReverse s 1 (fun _ t => Ok (Some t, true)) None = Ok (Some (demo_ts 3)).
Proof. eexists. split; [vm_compute; reflexivity|]. repeat split; vm_compute; reflexivity. Qed.

(* invalid parameters are refused *)
Example demo_SetParams_refused : exists c, go_st_SetParams [] zero_go_Params = Err c.
Proof. eexists. vm_compute. reflexivity. Qed.

(* ================================================================== *)
(* headline packaging for props/C18storebeacon.v                         *)
(* ================================================================== *)

Theorem writers_spec (s : store) :
  (forall p, go_st_SetParams s p = do _ <- go_Params_Validate p; Ok (okv_set s beacon_ParamsKey (BV_Params p), tt)) /\
  (forall id, go_st_SetHighestBeaconID s id = Ok (okv_set s beacon_HighestBeaconIDKey (BV_bytes (be64 (Z.to_N id))), tt)) /\
  (forall b, go_st_SetBeacon s b = Ok (okv_set s (bcn_encode (RkReg (Z.to_N (Beacon_BeaconId b)))) (BV_Beacon b), tt)) /\
  (forall id l, go_st_SetBeaconStorageLimit s id l =
     Ok (okv_set s (bcn_encode (RkLimit (Z.to_N id))) (BV_BeaconStorageLimit (mk_go_BeaconStorageLimit id l)), tt)) /\
  (forall id ts, go_st_SetBeaconTimestamp s id ts =
     Ok (okv_set s (bcn_encode (RkRecord (Z.to_N id) (Z.to_N (BeaconTimestamp_TimestampId ts)))) (BV_BeaconTimestamp ts), tt)) /\
  (forall id t, go_st_deleteBeaconTimestamp s id t = Ok (okv_del s (bcn_encode (RkRecord (Z.to_N id) (Z.to_N t))), tt)).
Proof.
  split; [|split; [|split; [|split; [|split]]]]; intros.
  - apply SetParams_spec.
  - apply SetHighestBeaconID_spec.
  - apply SetBeacon_spec.
  - apply SetBeaconStorageLimit_spec.
  - apply SetBeaconTimestamp_spec.
  - apply deleteBeaconTimestamp_spec.
Qed.

Theorem readers_spec (s : store) :
  go_st_GetParams s = rd_Params (okv_get s beacon_ParamsKey) /\
  go_st_GetHighestBeaconID s = rd_Highest (okv_get s beacon_HighestBeaconIDKey) /\
  (forall id, go_st_IsBeaconRegistered s id = Ok (is_some (okv_get s (bcn_encode (RkReg (Z.to_N id)))))) /\
  (forall id, go_st_GetBeacon s id = rd_Beacon (okv_get s (bcn_encode (RkReg (Z.to_N id))))) /\
  (forall id, go_st_HasBeaconStorageLimit s id = Ok (is_some (okv_get s (bcn_encode (RkLimit (Z.to_N id)))))) /\
  (forall id, go_st_GetBeaconStorageLimit s id = rd_Limit id (okv_get s (bcn_encode (RkLimit (Z.to_N id))))) /\
  (forall id t, go_st_IsBeaconTimestampRecordedByID s id t = Ok (is_some (okv_get s (bcn_encode (RkRecord (Z.to_N id) (Z.to_N t)))))) /\
  (forall id t, go_st_GetBeaconTimestampByID s id t = rd_Timestamp (okv_get s (bcn_encode (RkRecord (Z.to_N id) (Z.to_N t))))) /\
  (forall (St : Type) (cb : St -> go_Beacon -> outcome (St * bool)) st,
     go_st_IterateBeacons s cb st = okv_iterate dec_Beacon cb (okv_prefix s bcn_prefix_regs) st) /\
  (forall (St : Type) id (cb : St -> go_BeaconTimestamp -> outcome (St * bool)) st,
     go_st_IterateBeaconTimestamps s id cb st = okv_iterate dec_Timestamp cb (okv_prefix s (bcn_prefix_records_of (Z.to_N id))) st) /\
  (forall (St : Type) id (cb : St -> go_BeaconTimestamp -> outcome (St * bool)) st,
     go_st_IterateBeaconTimestampsReverse s id cb st =
     okv_iterate dec_Timestamp cb (rev (okv_prefix s (bcn_prefix_records_of (Z.to_N id)))) st).
Proof.
  split; [apply GetParams_spec|]. split; [apply GetHighestBeaconID_spec|].
  split; [intros; apply IsBeaconRegistered_spec|]. split; [intros; apply GetBeacon_spec|].
  split; [intros; apply HasBeaconStorageLimit_spec|]. split; [intros; apply GetBeaconStorageLimit_spec|].
  split; [intros; apply IsBeaconTimestampRecordedByID_spec|]. split; [intros; apply GetBeaconTimestampByID_spec|].
  split; [intros; apply IterateBeacons_spec|]. split; [intros; apply IterateBeaconTimestamps_spec|].
  intros; apply IterateBeaconTimestampsReverse_spec.
Qed.

Theorem highest_laws (s : store) :
  (forall s' id, 0 <= id < 2 ^ 64 -> go_st_SetHighestBeaconID s id = Ok (s', tt) -> go_st_GetHighestBeaconID s' = Ok id) /\
  (okv_get s beacon_HighestBeaconIDKey = None -> go_st_GetHighestBeaconID s = Err STORE_ERR) /\
  go_st_GetHighestBeaconID [] = Err STORE_ERR.
Proof.
  split; [intros s' id; apply SetHighestBeaconID_Get|]. split; [apply GetHighestBeaconID_absent | reflexivity].
Qed.

Theorem limit_default (s : store) id :
  (go_st_HasBeaconStorageLimit s id = Ok false ->
   go_st_GetBeaconStorageLimit s id = Ok (mk_go_BeaconStorageLimit id store_const_DefaultStorageLimit, false)) /\
  go_st_GetBeaconStorageLimit [] id = Ok (mk_go_BeaconStorageLimit id store_const_DefaultStorageLimit, false) /\
  store_const_DefaultStorageLimit = 50000.
Proof. split; [apply GetBeaconStorageLimit_default|]. split; [apply GetBeaconStorageLimit_empty | reflexivity]. Qed.

Theorem timestamp_write_other_key (s s' : store) id t id' t' :
  0 <= id < 2 ^ 64 -> 0 <= t < 2 ^ 64 -> 0 <= id' < 2 ^ 64 -> 0 <= t' < 2 ^ 64 -> (id', t') <> (id, t) ->
  (forall ts, BeaconTimestamp_TimestampId ts = t -> go_st_SetBeaconTimestamp s id ts = Ok (s', tt) ->
     go_st_GetBeaconTimestampByID s' id' t' = go_st_GetBeaconTimestampByID s id' t' /\
     go_st_IsBeaconTimestampRecordedByID s' id' t' = go_st_IsBeaconTimestampRecordedByID s id' t') /\
  (go_st_deleteBeaconTimestamp s id t = Ok (s', tt) ->
     go_st_GetBeaconTimestampByID s' id' t' = go_st_GetBeaconTimestampByID s id' t' /\
     go_st_IsBeaconTimestampRecordedByID s' id' t' = go_st_IsBeaconTimestampRecordedByID s id' t').
Proof.
  intros R1 R2 R3 R4 Hn. split.
  - intros ts E H. subst t. apply (SetBeaconTimestamp_other s s' id ts id' t' H); assumption.
  - intros H. apply (deleteBeaconTimestamp_other s s' id t id' t' H); assumption.
Qed.

Theorem timestamp_write_other_beacon (s s' : store) id id' :
  0 <= id < 2 ^ 64 -> 0 <= id' < 2 ^ 64 -> id' <> id ->
  (forall ts, go_st_SetBeaconTimestamp s id ts = Ok (s', tt) -> same_timestamps_of id' s s') /\
  (forall t, go_st_deleteBeaconTimestamp s id t = Ok (s', tt) -> same_timestamps_of id' s s').
Proof.
  intros R R' Hn. split.
  - intros ts H. apply (SetBeaconTimestamp_other_beacon s s' id ts id' H); assumption.
  - intros t H. apply (deleteBeaconTimestamp_other_beacon s s' id t id' H); assumption.
Qed.

Theorem listing_after_write (s s' : store) : okv_sorted s = true -> beacon_store_wf s ->
  (forall b, go_st_SetBeacon s b = Ok (s', tt) -> exists l, go_st_GetAllBeacons s' = Ok l /\ In b l) /\
  (forall id ts, go_st_SetBeaconTimestamp s id ts = Ok (s', tt) ->
     exists l, go_st_GetAllBeaconTimestamps s' id = Ok l /\ In ts l) /\
  (forall id t, go_st_deleteBeaconTimestamp s id t = Ok (s', tt) ->
     exists l, go_st_GetAllBeaconTimestamps s' id = Ok l /\ forall ts, In ts l -> BeaconTimestamp_TimestampId ts <> t).
Proof.
  intros Hs W. split; [|split].
  - intros b. apply SetBeacon_listed; assumption.
  - intros id ts. apply SetBeaconTimestamp_listed; assumption.
  - intros id t. apply deleteBeaconTimestamp_unlisted; assumption.
Qed.
