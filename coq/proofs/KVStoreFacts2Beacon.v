(* More generic facts about the ordered byte-keyed store of model/KVStore.v, used by proofs/GeneratedBeaconStoreEq.v:
   a write / delete at a key outside a prefix leaves the prefix listing alone (no sortedness needed), sortedness as
   [StronglySorted], keys of a sorted store are distinct, and [okv_iterate] over a listing whose entries all decode
   is a plain in-order visit ([visit]) of the decoded values. *)
From Coq Require Import NArith List Bool Lia Sorted.
From MC Require Import lib.Prelude model.Keys model.KVStore proofs.KeysProofs proofs.KVStoreFacts.
Import ListNotations.

Lemma obind_ret {A} (o : outcome A) : (do x <- o; Ok x) = o.
Proof. destruct o; reflexivity. Qed.

(* a key whose first byte differs from the first byte of a non-empty prefix is not under the prefix *)
Lemma is_prefix_head_neq (p k : list N) : p <> [] -> hd 0%N p <> hd 0%N k -> is_prefix p k = false.
Proof.
  destruct p as [|x p]; [congruence|]. intros _ H. destruct k as [|y k]; [reflexivity|].
  cbn in *. apply N.eqb_neq in H. rewrite H. reflexivity.
Qed.

Lemma is_prefix_true_neq (p k k' : list N) : is_prefix p k = true -> is_prefix p k' = false -> k <> k'.
Proof. intros H1 H2 E. subst. congruence. Qed.

(* in-order visit of a list by a Go iteration callback: stop when the callback answers true *)
Fixpoint visit {A St : Type} (cb : St -> A -> outcome (St * bool)) (l : list A) (st : St) : outcome St :=
  match l with
  | [] => Ok st
  | a :: r => do res <- cb st a; if snd res then Ok (fst res) else visit cb r (fst res)
  end.

Lemma visit_append {A} (l : list A) acc : visit (fun acc_ a_ => Ok (acc_ ++ [a_], false)) l acc = Ok (acc ++ l).
Proof.
  revert acc. induction l as [|a l IH]; intros acc; cbn.
  - rewrite app_nil_r. reflexivity.
  - rewrite IH. rewrite <- app_assoc. reflexivity.
Qed.

Section Facts2.
Context {V : Type}.
Notation okv := (okv V).

Lemma prefix_set_other (s : okv) p k v : is_prefix p k = false -> okv_prefix (okv_set s k v) p = okv_prefix s p.
Proof.
  intros Hp. induction s as [|[k1 v1] s IH]; cbn.
  - rewrite Hp. reflexivity.
  - destruct (key_eqb k k1) eqn:E1.
    + apply key_eqb_spec in E1. subst k1. cbn. rewrite Hp. reflexivity.
    + destruct (lex_lt k k1); cbn.
      * rewrite Hp. reflexivity.
      * fold (okv_prefix (okv_set s k v) p). rewrite IH. reflexivity.
Qed.

Lemma prefix_del_other (s : okv) p k : is_prefix p k = false -> okv_prefix (okv_del s k) p = okv_prefix s p.
Proof.
  intros Hp. induction s as [|[k1 v1] s IH]; cbn; [reflexivity|].
  destruct (key_eqb k k1) eqn:E1.
  - apply key_eqb_spec in E1. subst k1. rewrite Hp. reflexivity.
  - cbn. fold (okv_prefix (okv_del s k) p). rewrite IH. reflexivity.
Qed.

Lemma sorted_strongly (s : okv) : okv_sorted s = true ->
  StronglySorted (fun a b => lex_lt (fst a) (fst b) = true) s.
Proof.
  induction s as [|[k v] s IH]; intros Hs; [constructor|].
  apply sorted_cons in Hs. destruct Hs as [Hs Hab]. constructor; [apply IH; exact Hs|].
  apply Forall_forall. intros [k' v'] Hin. cbn. eapply Hab. exact Hin.
Qed.

Lemma sorted_keys_nodup (s : okv) : okv_sorted s = true -> NoDup (map fst s).
Proof.
  induction s as [|[k v] s IH]; intros Hs; [constructor|].
  apply sorted_cons in Hs. destruct Hs as [Hs Hab]. cbn. constructor; [|apply IH; exact Hs].
  intros Hin. apply in_map_iff in Hin. destruct Hin as [[k' v'] [E Hin]]. cbn in E. subst k'.
  specialize (Hab _ _ Hin). rewrite lex_lt_irrefl in Hab. discriminate.
Qed.

(* two entries of a sorted store under the same key are the same entry *)
Lemma sorted_in_fun (s : okv) k v1 v2 : okv_sorted s = true -> In (k, v1) s -> In (k, v2) s -> v1 = v2.
Proof.
  intros Hs H1 H2. apply (in_get _ _ _ Hs) in H1. apply (in_get _ _ _ Hs) in H2. congruence.
Qed.

Lemma prefix_get (s : okv) p k v : okv_sorted s = true ->
  (In (k, v) (okv_prefix s p) <-> okv_get s k = Some v /\ is_prefix p k = true).
Proof.
  intros Hs. rewrite prefix_in. split; intros [H1 H2]; (split; [|exact H2]).
  - apply in_get; assumption.
  - apply get_in; assumption.
Qed.

(* ---- iteration over a listing whose entries all decode ---- *)
Lemma decodable_list {A} (dec : list N -> V -> outcome A) (es : okv) :
  (forall k v, In (k, v) es -> exists a, dec k v = Ok a) ->
  exists l, Forall2 (fun a e => dec (fst e) (snd e) = Ok a) l es.
Proof.
  induction es as [|[k v] es IH]; intros H.
  - exists []. constructor.
  - destruct (H k v (or_introl eq_refl)) as [a Ea].
    destruct IH as [l Hl]; [intros k' v' Hin; apply H; right; exact Hin|].
    exists (a :: l). constructor; [exact Ea | exact Hl].
Qed.

Lemma iterate_visit {A St} (dec : list N -> V -> outcome A) (cb : St -> A -> outcome (St * bool)) (es : okv) l st :
  Forall2 (fun a e => dec (fst e) (snd e) = Ok a) l es ->
  okv_iterate dec cb es st = visit cb l st.
Proof.
  intros H. revert st. induction H as [|a [k v] l es Ha _ IH]; intros st; cbn; [reflexivity|].
  cbn in Ha. rewrite Ha. cbn. destruct (cb st a) as [[st' b]| |]; cbn; [|reflexivity|reflexivity].
  destruct b; [reflexivity | apply IH].
Qed.

Lemma Forall2_rev {A B} (R : A -> B -> Prop) l1 l2 : Forall2 R l1 l2 -> Forall2 R (rev l1) (rev l2).
Proof.
  induction 1 as [|a b l1 l2 Hab _ IH]; cbn; [constructor|].
  apply Forall2_app; [exact IH | constructor; [exact Hab | constructor]].
Qed.

Lemma Forall2_in_left {A B} (R : A -> B -> Prop) l1 l2 a : Forall2 R l1 l2 -> In a l1 -> exists b, In b l2 /\ R a b.
Proof.
  induction 1 as [|a0 b0 l1 l2 Hab _ IH]; intros Hin; [destruct Hin|].
  destruct Hin as [<-|Hin]; [exists b0; split; [left; reflexivity | exact Hab]|].
  destruct (IH Hin) as [b [Hb Hr]]. exists b. split; [right; exact Hb | exact Hr].
Qed.

Lemma Forall2_in_right {A B} (R : A -> B -> Prop) l1 l2 b : Forall2 R l1 l2 -> In b l2 -> exists a, In a l1 /\ R a b.
Proof.
  induction 1 as [|a0 b0 l1 l2 Hab _ IH]; intros Hin; [destruct Hin|].
  destruct Hin as [<-|Hin]; [exists a0; split; [left; reflexivity | exact Hab]|].
  destruct (IH Hin) as [a [Ha Hr]]. exists a. split; [right; exact Ha | exact Hr].
Qed.

(* transport an order on the entries to an order on what they decode to *)
Lemma Forall2_strongly {A B} (R : A -> B -> Prop) (P : B -> B -> Prop) (Q : A -> A -> Prop) l1 l2 :
  Forall2 R l1 l2 -> StronglySorted P l2 ->
  (forall a1 a2 b1 b2, In a1 l1 -> In a2 l1 -> R a1 b1 -> R a2 b2 -> P b1 b2 -> Q a1 a2) ->
  StronglySorted Q l1.
Proof.
  induction 1 as [|a b l1 l2 Hab H12 IH]; intros HS HQ; [constructor|].
  inversion HS as [|? ? HS' HF]; subst. constructor.
  - apply IH; [exact HS'|]. intros a1 a2 b1 b2 I1 I2. apply HQ; right; assumption.
  - apply Forall_forall. intros a' Hin.
    destruct (Forall2_in_left _ _ _ _ H12 Hin) as [b' [Hin' Hr]].
    rewrite Forall_forall in HF. eapply HQ; [left; reflexivity | right; exact Hin | exact Hab | exact Hr | apply HF; exact Hin'].
Qed.

End Facts2.

(* ---- small list facts used for the listings ---- *)
Lemma Forall2_maps {A B C} (R : A -> B -> Prop) (f : A -> C) (g : B -> C) l es :
  Forall2 R l es -> (forall a e, In e es -> R a e -> g e = f a) -> map g es = map f l.
Proof.
  induction 1 as [|a e l es Hae _ IH]; intros H; [reflexivity|]. cbn. f_equal.
  - apply H; [left; reflexivity | exact Hae].
  - apply IH. intros a' e' Hin. apply H. right; exact Hin.
Qed.

Lemma strongly_map {A B} (f : A -> B) (P : B -> B -> Prop) (Q : A -> A -> Prop) l :
  StronglySorted P (map f l) -> (forall a b, In a l -> In b l -> P (f a) (f b) -> Q a b) -> StronglySorted Q l.
Proof.
  induction l as [|a l IH]; intros HS HQ; [constructor|].
  cbn in HS. inversion HS as [|? ? HS' HF]; subst. constructor.
  - apply IH; [exact HS'|]. intros x y Hx Hy. apply HQ; right; assumption.
  - apply Forall_forall. intros b Hb. rewrite Forall_forall in HF.
    apply HQ; [left; reflexivity | right; exact Hb | apply HF; apply in_map; exact Hb].
Qed.

Lemma strongly_rev {A} (R : A -> A -> Prop) l : StronglySorted R l -> StronglySorted (fun a b => R b a) (rev l).
Proof.
  induction 1 as [|a l HS IH HF]; cbn; [constructor|].
  assert (G : forall l1, StronglySorted (fun a b => R b a) l1 -> Forall (fun b => R a b) l1 ->
              StronglySorted (fun a b => R b a) (l1 ++ [a])).
  { induction l1 as [|x l1 IH1]; intros H1 H2; cbn; [constructor; constructor|].
    inversion H1; subst. inversion H2; subst. constructor; [apply IH1; assumption|].
    apply Forall_app. split; [assumption | constructor; [assumption | constructor]]. }
  apply G; [exact IH|]. apply Forall_forall. intros b Hb. apply in_rev in Hb. rewrite Forall_forall in HF. apply HF. exact Hb.
Qed.
