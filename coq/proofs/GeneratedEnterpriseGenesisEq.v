(* The genesis code generated from /repo/x/enterprise/genesis.go (go_InitGenesis, go_ExportGenesis in
   GeneratedEnterpriseKeeper.v, re-generated on every run) against the hand-written model of genesis export / import
   (model/Genesis.v: export_ent, import_ent), read through the vocabulary of model/EnterpriseGenesisGenSpec.v.

   Structure (so that the proofs survive a harmless re-generation: no temporary of the generated file is mentioned, the
   loops are recognised by the list they range over, the duplicated continuation of `if data.Whitelist != nil` is walked
   twice by the same tactic):
     part 1  `for .. range` loops: unfolding lemmas;
     part 2  ExportGenesis (no hypothesis);
     part 3  InitGenesis, what the generated code does on every world and every document with valid parameters
             ([gen_ent_InitGenesis_run]): the three keeper checks (a failure is a panic), the store after the four loops
             ([import_go], written with one step function per loop), the comparison of the module account
             ([go_escrow_check]);
     part 4  the interleaved writes build, as data, the store the model's folds build ([import_ent_go]);
     part 5  Coins.IsEqual of the positive balances with the recorded holdings against the model's test
             ([escrow_check_eq]);
     part 6  InitGenesis is the model's import;
     part 7  export then import;
     part 8  examples showing that the hypotheses cannot be dropped; a concrete world. *)
From Coq Require Import ZifyBool.
From MC Require Import lib.Prelude lib.AMap lib.GoSdk GeneratedEnterpriseTypes model.Bank model.Enterprise model.EnterpriseSpec
  model.Genesis model.EnterpriseKeeperPrims GeneratedEnterpriseKeeper model.EnterpriseGenesisGenSpec.
From MC Require Import proofs.BankProofs proofs.EnterpriseProofs proofs.RegistryProofs proofs.GenesisLib proofs.GenesisProofs.
Local Open Scope Z_scope.

(* ================================================================= *)
(* 1. loops                                                           *)
(* ================================================================= *)

Lemma go_range_nil {A S R} (f : A -> S -> outcome (loop_res S R)) s : go_range f [] s = Ok (LCont s).
Proof. reflexivity. Qed.

Lemma go_range_cons {A S R} (f : A -> S -> outcome (loop_res S R)) x l s :
  go_range f (x :: l) s =
    (do res <- f x s; match res with LCont s' => go_range f l s' | LRet v => Ok (LRet v) end).
Proof. reflexivity. Qed.

Lemma with_ent_with_ent w a b : with_ent (with_ent w a) b = with_ent w b.
Proof. reflexivity. Qed.
Lemma ew_ent_with_ent w a : ew_ent (with_ent w a) = a.
Proof. reflexivity. Qed.
Lemma with_ent_same w : with_ent w (ew_ent w) = w.
Proof. destruct w; reflexivity. Qed.

#[local] Arguments go_range : simpl never.
#[local] Arguments Z.add : simpl never.
#[local] Arguments Z.sub : simpl never.
#[local] Arguments Z.ltb : simpl never.
#[local] Arguments Z.leb : simpl never.
#[local] Arguments Z.eqb : simpl never.
#[local] Arguments aget : simpl never.
#[local] Arguments aset : simpl never.
#[local] Arguments ent_params_valid : simpl never.

(* ================================================================= *)
(* 2. ExportGenesis                                                   *)
(* ================================================================= *)

Lemma of_to_decision d : of_go_decision (to_go_decision d) = d.
Proof. destruct d; reflexivity. Qed.
Lemma of_to_decisions l : map of_go_decision (map to_go_decision l) = l.
Proof. induction l as [|d r IH]; [reflexivity|]. cbn [map]. rewrite of_to_decision, IH. reflexivity. Qed.
Lemma of_to_po o : of_go_po (to_go_po o) = o.
Proof. destruct o. unfold of_go_po, to_go_po. cbn. rewrite of_to_decisions. reflexivity. Qed.
Lemma params_of_to_go p : params_of_go (params_to_go p) = p.
Proof. destruct p; reflexivity. Qed.

(* the document, on every world: never an error, never a panic *)
Theorem gen_ent_ExportGenesis_run : forall w,
  go_ExportGenesis w =
    Ok (mk_go_GenesisState (params_to_go (e_params (ew_ent w))) (e_next (ew_ent w))
          (map (fun kv => to_go_po (snd kv)) (e_pos (ew_ent w)))
          (map (fun kv => mk_go_LockedUnd (fst kv) (snd kv)) (e_locked (ew_ent w)))
          (total_locked (ew_ent w)) (e_wl (ew_ent w))
          (map (fun kv => mk_go_SpentEFUND (fst kv) (snd kv)) (e_spent (ew_ent w)))
          (total_spent (ew_ent w))).
Proof. intros w. reflexivity. Qed.

(* no hypothesis: every stored order, decision list, locked / spent row is carried as it is *)
Theorem gen_ent_ExportGenesis_eq : forall w,
  exists g, go_ExportGenesis w = Ok g /\ gen_ent_of_go g = export_ent (ew_ent w).
Proof.
  intros w. eexists. split; [apply gen_ent_ExportGenesis_run|].
  unfold gen_ent_of_go, export_ent.
  cbn [GenesisState_Params GenesisState_StartingPurchaseOrderId GenesisState_PurchaseOrders GenesisState_LockedUnd
       GenesisState_TotalLocked GenesisState_Whitelist GenesisState_SpentEfund GenesisState_TotalSpent].
  rewrite params_of_to_go, !map_map. f_equal.
  - apply map_ext. intros kv. apply of_to_po.
  - rewrite <- (map_id (e_locked (ew_ent w))) at 2. apply map_ext. intros [k v]. reflexivity.
  - rewrite <- (map_id (e_spent (ew_ent w))) at 2. apply map_ext. intros [k v]. reflexivity.
Qed.

(* ================================================================= *)
(* 3. InitGenesis: what the generated code does                       *)
(* ================================================================= *)

(* what one iteration of each of the four loops of InitGenesis does to the store *)
Definition imp_wl (a : addr) (s : ent_state) : ent_state := with_wl s (e_wl s ++ [a]).
Definition imp_po (g : go_EnterpriseUndPurchaseOrder) (s : ent_state) : ent_state :=
  let id := EnterpriseUndPurchaseOrder_Id g in
  let st := EnterpriseUndPurchaseOrder_Status g in
  with_pos s (aset id (of_go_po g) (e_pos s))
    (if st =? ST_RAISED then e_raisedq s ++ [id] else e_raisedq s)
    (if st =? ST_ACCEPTED then e_acceptedq s ++ [id] else e_acceptedq s).
Definition imp_locked (l : go_LockedUnd) (s : ent_state) : ent_state :=
  with_books s (aset (LockedUnd_Owner l) (LockedUnd_Amount l) (e_locked s)) (e_spent s) (e_totlocked s) (e_totspent s).
Definition imp_spent (l : go_SpentEFUND) (s : ent_state) : ent_state :=
  with_books s (e_locked s) (aset (SpentEFUND_Owner l) (SpentEFUND_Amount l) (e_spent s)) (e_totlocked s) (e_totspent s).

(* the stores InitGenesis goes through, started on any store (valid parameters) *)
Definition imp_head (g : go_GenesisState) (s : ent_state) : ent_state :=
  {| e_params := params_of_go (GenesisState_Params g); e_next := GenesisState_StartingPurchaseOrderId g;
     e_pos := e_pos s; e_raisedq := e_raisedq s; e_acceptedq := e_acceptedq s; e_wl := e_wl s;
     e_locked := e_locked s; e_spent := e_spent s; e_totlocked := e_totlocked s; e_totspent := e_totspent s |}.
Definition imp_totals (g : go_GenesisState) (s : ent_state) : ent_state :=
  with_books s (e_locked s) (e_spent s) (Some (GenesisState_TotalLocked g)) (Some (GenesisState_TotalSpent g)).
Definition import_go (g : go_GenesisState) (s : ent_state) : ent_state :=
  fold_left (fun s x => imp_spent x s) (GenesisState_SpentEfund g)
    (fold_left (fun s x => imp_locked x s) (GenesisState_LockedUnd g)
       (fold_left (fun s x => imp_po x s) (GenesisState_PurchaseOrders g)
          (imp_totals g
             (fold_left (fun s x => imp_wl x s) (GenesisState_Whitelist g) (imp_head g s))))).

(* the last step of InitGenesis: the positive balances of the module account against the recorded total *)
Definition escrow_balances (b : bank) : list go_coin :=
  map (fun kv => (snd (fst kv), snd kv)) (filter (fun kv => (fst (fst kv) =? ENT_MACC) && (0 <? snd kv)) (bal b)).
Definition escrow_holdings (tl : go_coin) : list go_coin := filter (fun x => negb (snd x =? 0)) (Coins_add1 [] tl).
Definition go_escrow_check (b : bank) (tl : go_coin) : outcome bool :=
  Coins_IsEqual (escrow_balances b) (escrow_holdings tl).

Lemma GetAllBalances_escrow w : bank_GetAllBalances w (modacc_addr (ent_GetEnterpriseAccount w)) = escrow_balances (ew_bank w).
Proof. reflexivity. Qed.
Lemma AddCoin_escrow tl : Coins_AddCoin [] tl = Ok (escrow_holdings tl).
Proof. reflexivity. Qed.

(* the three per-entry checks InitGenesis makes through the keeper (each failure is a panic(err)) *)
Definition wl_okb (a : addr) : bool := addr_parses a.
Definition po_okb (g : go_EnterpriseUndPurchaseOrder) : bool :=
  (1 <=? EnterpriseUndPurchaseOrder_Status g) && (EnterpriseUndPurchaseOrder_Status g <=? 4).
Definition locked_okb (l : go_LockedUnd) : bool := negb (snd (LockedUnd_Amount l) <? 0).
Definition doc_okb (g : go_GenesisState) : bool :=
  forallb wl_okb (GenesisState_Whitelist g) && forallb po_okb (GenesisState_PurchaseOrders g)
  && forallb locked_okb (GenesisState_LockedUnd g).

Definition wl_ok (a : addr) : Prop := a <> BAD_ADDR /\ a <> EMPTY_ADDR.
Definition po_status_ok (g : go_EnterpriseUndPurchaseOrder) : Prop := 1 <= EnterpriseUndPurchaseOrder_Status g <= 4.
Definition locked_ok (l : go_LockedUnd) : Prop := 0 <= snd (LockedUnd_Amount l).

Lemma doc_okb_spec g :
  doc_okb g = true <->
  Forall wl_ok (GenesisState_Whitelist g) /\ Forall po_status_ok (GenesisState_PurchaseOrders g) /\
  Forall locked_ok (GenesisState_LockedUnd g).
Proof.
  unfold doc_okb. rewrite !andb_true_iff, !forallb_forall, !Forall_forall.
  unfold wl_okb, addr_parses, po_okb, locked_okb, wl_ok, po_status_ok, locked_ok.
  split.
  - intros [[H1 H2] H3]. split; [|split]; intros x Hx.
    + specialize (H1 x Hx). lia.
    + specialize (H2 x Hx). lia.
    + specialize (H3 x Hx). lia.
  - intros (H1 & H2 & H3). split; [split|]; intros x Hx.
    + specialize (H1 x Hx). lia.
    + specialize (H2 x Hx). lia.
    + specialize (H3 x Hx). lia.
Qed.

(* every iteration either continues with a world that differs from the previous one by a function of the enterprise
   store, or - when the entry fails its check - panics *)
Lemma go_range_eworld_chk {A R} (p : A -> bool) (c : Z) (body : A -> eworld -> outcome (loop_res eworld R))
      (f : A -> ent_state -> ent_state) :
  (forall x w, body x w = if p x then Ok (LCont (with_ent w (f x (ew_ent w)))) else Panic c) ->
  forall l w,
    go_range body l w =
      if forallb p l then Ok (LCont (with_ent w (fold_left (fun s y => f y s) l (ew_ent w)))) else Panic c.
Proof.
  intros E l. induction l as [|x l IH]; intros w.
  - rewrite go_range_nil. cbn [fold_left forallb]. rewrite with_ent_same. reflexivity.
  - rewrite go_range_cons, (E x w). cbn [forallb fold_left]. destruct (p x); cbn [obind andb]; [|reflexivity].
    rewrite IH, with_ent_with_ent, ew_ent_with_ent. reflexivity.
Qed.

Lemma go_is_nil_true {A} (l : list A) : go_is_nil l = true -> l = [].
Proof. destruct l; [reflexivity|discriminate]. Qed.

Lemma GetAllBalances_bank w : bank_GetAllBalances w ENT_MACC = escrow_balances (ew_bank w).
Proof. reflexivity. Qed.

Lemma forallb_true {A} (l : list A) : forallb (fun _ => true) l = true.
Proof. induction l; [reflexivity|assumption]. Qed.

(* walking InitGenesis and the bodies of its loops: only primitives and the fields of the document are mentioned; the
   loops are recognised by the list they range over, their bodies are never named *)
Ltac gprims :=
  progress unfold ent_SetParams, ent_set_params, ent_SetHighestPurchaseOrderID, ent_AccAddressFromBech32,
    ent_AddAddressToWhitelist, ent_SetTotalLockedUnd, ent_SetTotalSpentEFUND, ent_SetPurchaseOrder, ent_AddPoToRaisedQueue,
    ent_AddPoToAcceptedQueue, ent_SetLockedUndForAccount, ent_SetSpentEFUNDForAccount, acc_SetModuleAccount,
    enterprise_StatusRaised, enterprise_StatusAccepted.
Ltac gloop := fail.
Ltac gcbn :=
  progress cbn [obind panic_on_err ignore_err negb andb modacc_is_nil modacc_addr ent_GetEnterpriseAccount
                EnterpriseUndPurchaseOrder_Id EnterpriseUndPurchaseOrder_Status LockedUnd_Owner LockedUnd_Amount].
Ltac gstep :=
  first [ rewrite with_ent_with_ent
        | rewrite ew_ent_with_ent
        | gloop
        | match goal with H : forallb _ _ = _ |- _ => rewrite H end
        | rewrite forallb_true
        | gprims
        | progress cbv beta zeta
        | gcbn ].
Ltac gwalk := repeat gstep.
(* a loop body: the tests it makes are comparisons of integers; both sides are split on each of them *)
Ltac gsplit :=
  match goal with
  | |- context [if addr_parses ?a then _ else _] => destruct (addr_parses a)
  | |- context [if ?a =? ?b then _ else _] => destruct (a =? b)
  | |- context [if ?a <? ?b then _ else _] => destruct (a <? b)
  | |- context [if negb (?a =? ?b) then _ else _] => destruct (a =? b)
  | |- context [if negb (?a <? ?b) then _ else _] => destruct (a <? b)
  | |- context [if negb ((?a <=? ?b) && _) then _ else _] => destruct (a <=? b)
  | |- context [if (?a <=? ?b) && _ then _ else _] => destruct (a <=? b)
  | |- context [if ?a <=? ?b then _ else _] => destruct (a <=? b)
  | |- context [if negb (?a <=? ?b) then _ else _] => destruct (a <=? b)
  end.
Ltac gbody :=
  let x := fresh "x" in let w' := fresh "w" in
  intros x w'; destruct w' as [? ? ?]; gwalk;
  unfold imp_wl, imp_po, imp_locked, imp_spent, wl_okb, po_okb, locked_okb, ST_RAISED, ST_ACCEPTED;
  repeat (gsplit; try gcbn); reflexivity.
Ltac gloop ::=
  match goal with
  | |- context [go_range ?b (GenesisState_Whitelist ?g) ?w0] =>
      rewrite (go_range_eworld_chk wl_okb enterprise_PANIC b imp_wl) by gbody
  | |- context [go_range ?b (GenesisState_PurchaseOrders ?g) ?w0] =>
      rewrite (go_range_eworld_chk po_okb enterprise_PANIC b imp_po) by gbody
  | |- context [go_range ?b (GenesisState_LockedUnd ?g) ?w0] =>
      rewrite (go_range_eworld_chk locked_okb enterprise_PANIC b imp_locked) by gbody
  | |- context [go_range ?b (GenesisState_SpentEfund ?g) ?w0] =>
      rewrite (go_range_eworld_chk (fun _ => true) enterprise_PANIC b imp_spent) by gbody
  end.

(* InitGenesis on every world and every document with valid parameters: an entry failing its check panics; otherwise
   the result hangs on the comparison of the module account with the recorded total *)
Theorem gen_ent_InitGenesis_run : forall w g,
  ent_params_valid (params_of_go (GenesisState_Params g)) = true ->
  go_InitGenesis w g =
    if doc_okb g then
      match go_escrow_check (ew_bank w) (GenesisState_TotalLocked g) with
      | Ok true => Ok (with_ent w (import_go g (ew_ent w)), tt)
      | Ok false => Panic enterprise_PANIC
      | Panic c => Panic c
      | Err e => Err e
      end
    else Panic enterprise_PANIC.
Proof.
  intros w g V. unfold go_InitGenesis, go_escrow_check, import_go, doc_okb.
  gprims. rewrite V.
  destruct (forallb wl_okb (GenesisState_Whitelist g)) eqn:E1;
  destruct (forallb po_okb (GenesisState_PurchaseOrders g)) eqn:E2;
  destruct (forallb locked_okb (GenesisState_LockedUnd g)) eqn:E3; cbn [andb].
  all: destruct (go_is_nil (GenesisState_Whitelist g)) eqn:EN;
    [rewrite (go_is_nil_true _ EN) in *; cbn [fold_left forallb] in * |];
    gwalk; try reflexivity; try discriminate.
  all: rewrite AddCoin_escrow, !GetAllBalances_bank; cbn [obind ew_bank with_ent ew_ent ew_now].
  all: match goal with |- context [Coins_IsZero ?x] => destruct (Coins_IsZero x) end;
    match goal with |- context [Coins_IsEqual ?x ?y] => destruct (Coins_IsEqual x y) as [[|]| |] end;
    cbn [obind negb]; reflexivity.
Qed.

(* ================================================================= *)
(* 4. the interleaved writes build the model's store                  *)
(* ================================================================= *)

Lemma fold_left_map' {A B C} (f : A -> B -> A) (h : C -> B) l : forall acc,
  fold_left f (map h l) acc = fold_left (fun a x => f a (h x)) l acc.
Proof. induction l as [|x l IH]; intros acc; [reflexivity|]. cbn [map fold_left]. apply IH. Qed.

Lemma fold_imp_wl l : forall s, fold_left (fun s x => imp_wl x s) l s = with_wl s (e_wl s ++ l).
Proof.
  induction l as [|a l IH]; intros s; cbn [fold_left].
  - rewrite app_nil_r. destruct s; reflexivity.
  - rewrite IH. unfold imp_wl, with_wl. cbn. rewrite <- app_assoc. reflexivity.
Qed.

Definition go_ids_with (st : Z) (l : list go_EnterpriseUndPurchaseOrder) : list Z :=
  map EnterpriseUndPurchaseOrder_Id (filter (fun g => EnterpriseUndPurchaseOrder_Status g =? st) l).

Lemma fold_imp_po l : forall s,
  fold_left (fun s x => imp_po x s) l s =
    with_pos s (fold_left (fun m g => aset (EnterpriseUndPurchaseOrder_Id g) (of_go_po g) m) l (e_pos s))
      (e_raisedq s ++ go_ids_with ST_RAISED l) (e_acceptedq s ++ go_ids_with ST_ACCEPTED l).
Proof.
  unfold go_ids_with. induction l as [|g l IH]; intros s; cbn [fold_left filter map].
  - rewrite !app_nil_r. destruct s; reflexivity.
  - rewrite IH. unfold imp_po, with_pos. cbn.
    destruct (EnterpriseUndPurchaseOrder_Status g =? ST_RAISED), (EnterpriseUndPurchaseOrder_Status g =? ST_ACCEPTED);
      cbn [map]; rewrite <- ?app_assoc; reflexivity.
Qed.

Lemma fold_imp_locked l : forall s,
  fold_left (fun s x => imp_locked x s) l s =
    with_books s (fold_left (fun m x => aset (LockedUnd_Owner x) (LockedUnd_Amount x) m) l (e_locked s)) (e_spent s)
      (e_totlocked s) (e_totspent s).
Proof.
  induction l as [|x l IH]; intros s; cbn [fold_left]; [destruct s; reflexivity|]. rewrite IH. reflexivity.
Qed.

Lemma fold_imp_spent l : forall s,
  fold_left (fun s x => imp_spent x s) l s =
    with_books s (e_locked s) (fold_left (fun m x => aset (SpentEFUND_Owner x) (SpentEFUND_Amount x) m) l (e_spent s))
      (e_totlocked s) (e_totspent s).
Proof.
  induction l as [|x l IH]; intros s; cbn [fold_left]; [destruct s; reflexivity|]. rewrite IH. reflexivity.
Qed.

Lemma ids_with_of_go st l :
  map po_id (filter (fun o => po_status o =? st) (map of_go_po l)) = go_ids_with st l.
Proof.
  unfold go_ids_with. induction l as [|g l IH]; [reflexivity|]. cbn [map filter].
  change (po_status (of_go_po g)) with (EnterpriseUndPurchaseOrder_Status g).
  destruct (EnterpriseUndPurchaseOrder_Status g =? st); cbn [map]; rewrite IH; reflexivity.
Qed.

(* the model's test of the module account *)
Definition ent_escrow_check (b : bank) (tl : coin) : bool :=
  (balance b ENT_MACC (fst tl) =? snd tl)
  && forallb (fun kv => (snd (fst kv) =? fst tl) || negb (fst (fst kv) =? ENT_MACC) || (snd kv =? 0)) (bal b).

Definition fresh_ent (p0 : ent_params) : ent_state :=
  {| e_params := p0; e_next := 0; e_pos := []; e_raisedq := []; e_acceptedq := []; e_wl := [];
     e_locked := []; e_spent := []; e_totlocked := None; e_totspent := None |}.

(* on a fresh store and a document with valid parameters the store built by the generated code is, as data, the store
   the model's import builds: no hypothesis on the document (duplicate ids, duplicate owners, any status) *)
Lemma import_ent_go b g p0 :
  ent_params_valid (params_of_go (GenesisState_Params g)) = true ->
  import_ent b (gen_ent_of_go g) =
    if ent_escrow_check b (GenesisState_TotalLocked g) then Some (import_go g (fresh_ent p0)) else None.
Proof.
  intros V. unfold import_ent, ent_escrow_check, gen_ent_of_go.
  cbn [ge_params ge_start ge_pos ge_locked ge_totlocked ge_wl ge_totspent ge_spent]. rewrite V. cbn [negb].
  match goal with |- (if ?c then _ else _) = _ => destruct c; [|reflexivity] end.
  f_equal. unfold import_go. rewrite fold_imp_spent, fold_imp_locked, fold_imp_po, fold_imp_wl.
  rewrite !fold_left_map', !ids_with_of_go. reflexivity.
Qed.

(* ================================================================= *)
(* 5. the module account: Coins.IsEqual against the model's test      *)
(* ================================================================= *)

Lemma Coins_eq_sorted_no_err a : forall b e, Coins_eq_sorted a b <> Err e.
Proof.
  induction a as [|x a IH]; intros [|y b] e; cbn [Coins_eq_sorted]; try discriminate.
  destruct (negb (fst x =? fst y)); [discriminate|]. destruct (negb (snd x =? snd y)); [discriminate|apply IH].
Qed.

Lemma Coins_IsEqual_no_err a b e : Coins_IsEqual a b <> Err e.
Proof.
  unfold Coins_IsEqual. destruct (negb _); [discriminate|apply Coins_eq_sorted_no_err].
Qed.

Lemma Coins_IsEqual_nil a : Coins_IsEqual a [] = Ok true <-> a = [].
Proof.
  destruct a as [|x a]; [split; reflexivity|]. split; [|discriminate]. unfold Coins_IsEqual. cbn. discriminate.
Qed.

Lemma Coins_IsEqual_one a (c : go_coin) : Coins_IsEqual a [c] = Ok true <-> a = [c].
Proof.
  destruct a as [|x [|y a]].
  - split; discriminate.
  - unfold Coins_IsEqual. cbn [List.length Nat.eqb negb fold_right insert_coin Coins_eq_sorted].
    destruct x as [d v], c as [d' v']. cbn [fst snd].
    destruct (Z.eqb_spec d d') as [->|Nd]; cbn [negb].
    + destruct (Z.eqb_spec v v') as [->|Nv]; cbn [negb]; [split; reflexivity|].
      split; [discriminate|]. intros [= E]. contradiction.
    + split; [discriminate|]. intros [= E _]. contradiction.
  - split; [|discriminate]. unfold Coins_IsEqual. cbn. discriminate.
Qed.

Lemma escrow_holdings_eq (tl : go_coin) : escrow_holdings tl = if snd tl =? 0 then [] else [tl].
Proof. unfold escrow_holdings, Coins_add1. cbn. destruct (snd tl =? 0); reflexivity. Qed.

(* the rows of the module account are not negative *)
Definition escrow_nonneg (b : bank) : Prop := forall d v, In ((ENT_MACC, d), v) (bal b) -> 0 <= v.

Definition escrow_row (kv : (addr * denom) * Z) : bool := (fst (fst kv) =? ENT_MACC) && (0 <? snd kv).

Lemma filter_nil_iff {A} (p : A -> bool) l : filter p l = [] <-> forall x, In x l -> p x = false.
Proof.
  induction l as [|x l IH]; cbn [filter In]; [tauto|]. destruct (p x) eqn:E.
  - split; [discriminate|]. intros H. rewrite (H x (or_introl eq_refl)) in E. discriminate.
  - rewrite IH. split; [intros H y [<-|Hy]; auto | intros H y Hy; auto].
Qed.

(* a duplicate-free map has at most one entry under a key *)
Lemma filter_single {K V} `{EqKey K} (p : K * V -> bool) (m : amap K V) k v :
  NoDup (akeys m) -> In (k, v) m -> p (k, v) = true -> (forall kv, In kv m -> p kv = true -> fst kv = k) ->
  filter p m = [(k, v)].
Proof.
  induction m as [|[k' v'] r IH]; cbn [In filter akeys map fst]; [tauto|].
  intros ND Hin Hp Hk. inversion ND as [|? ? NI ND']; subst. destruct Hin as [E|Hin].
  - injection E as -> ->. rewrite Hp. f_equal. apply filter_nil_iff. intros [k2 v2] H2.
    destruct (p (k2, v2)) eqn:E2; [|reflexivity]. exfalso. apply NI.
    rewrite <- (Hk (k2, v2) (or_intror H2) E2). change (fst (k2, v2)) with (fst (k2, v2)). apply in_map. exact H2.
  - destruct (p (k', v')) eqn:E2.
    + exfalso. apply NI. pose proof (Hk (k', v') (or_introl eq_refl) E2) as X. cbn [fst] in X. subst k'.
      change k with (fst (k, v)). apply in_map. exact Hin.
    + apply IH; auto.
Qed.

Lemma escrow_balances_rows b :
  escrow_balances b = map (fun kv => (snd (fst kv), snd kv)) (filter escrow_row (bal b)).
Proof. reflexivity. Qed.

Ltac tnorm := cbv delta [go_coin go_denom go_addr go_int coin denom addr] in *.

Theorem escrow_check_eq b (tl : go_coin) :
  bank_wf b -> escrow_nonneg b ->
  (go_escrow_check b tl = Ok true <-> ent_escrow_check b tl = true).
Proof.
  intros Wf NN. unfold go_escrow_check, ent_escrow_check. rewrite escrow_holdings_eq, escrow_balances_rows.
  rewrite andb_true_iff, forallb_forall, Z.eqb_eq.
  destruct tl as [d amt]. cbn [fst snd]. unfold escrow_nonneg, bank_wf in *. tnorm.
  assert (Hbal : forall v, In ((ENT_MACC, d), v) (bal b) -> balance b ENT_MACC d = v).
  { intros v Hin. unfold balance. rewrite (In_aget_nodup _ _ _ Wf Hin). reflexivity. }
  destruct (Z.eqb_spec amt 0) as [->|Na].
  - rewrite Coins_IsEqual_nil. split.
    + intros E. apply map_eq_nil in E. rewrite filter_nil_iff in E. split.
      * unfold balance. match goal with |- context [aget ?k ?m] => destruct (aget k m) as [v|] eqn:G end; [|reflexivity].
        apply aget_In in G. pose proof (NN d v G) as P. pose proof (E _ G) as Q. unfold escrow_row in Q. cbn [fst snd] in Q. lia.
      * intros [[a d'] v] Hin. cbn [fst snd]. pose proof (E _ Hin) as Q. unfold escrow_row in Q. cbn [fst snd] in Q.
        destruct (Z.eqb_spec a ENT_MACC) as [->|Ne]; [|lia]. pose proof (NN d' v Hin). lia.
    + intros [B F]. match goal with |- context [@filter ?T ?p ?m] => assert (E : @filter T p m = []); [|rewrite E; reflexivity] end.
      apply filter_nil_iff. intros [[a d'] v] Hin. unfold escrow_row. cbn [fst snd].
      destruct (Z.eqb_spec a ENT_MACC) as [->|Ne]; [|reflexivity]. cbn [andb].
      destruct (Z.eqb_spec d' d) as [->|Nd].
      * rewrite (Hbal v Hin) in B. lia.
      * pose proof (F _ Hin) as Q. cbn [fst snd] in Q. lia.
  - rewrite Coins_IsEqual_one. split.
    + intros E. match type of E with context [@filter ?T ?p ?m] => destruct (@filter T p m) as [|kv0 [|kv1 r]] eqn:EF end; try discriminate E.
      cbn [map] in E. destruct kv0 as [[a0 d0] v0]. cbn [fst snd] in E. injection E as -> ->.
      assert (H0 : In ((a0, d), amt) (bal b) /\ escrow_row ((a0, d), amt) = true).
      { apply filter_In. rewrite EF. left. reflexivity. }
      destruct H0 as [H0 P0]. unfold escrow_row in P0. cbn [fst snd] in P0.
      assert (a0 = ENT_MACC) by lia. subst a0. split; [exact (Hbal amt H0)|].
      intros [[a d'] v] Hin. cbn [fst snd].
      destruct (Z.eqb_spec d' d) as [->|Nd]; [reflexivity|]. destruct (Z.eqb_spec a ENT_MACC) as [->|Ne]; [|reflexivity].
      cbn [orb negb]. pose proof (NN d' v Hin) as P. destruct (Z.eqb_spec v 0) as [|Nv]; [reflexivity|]. exfalso.
      match type of EF with @filter ?T ?p ?m = _ => assert (X : In ((ENT_MACC, d'), v) (@filter T p m)) end.
      { apply filter_In. split; [exact Hin|]. unfold escrow_row. cbn [fst snd]. lia. }
      rewrite EF in X. destruct X as [X|[]]. injection X as X _. apply Nd. symmetry. exact X.
    + intros [B F].
      assert (G : In ((ENT_MACC, d), amt) (bal b)).
      { unfold balance in B. match type of B with context [aget ?k ?m] => destruct (aget k m) as [v|] eqn:G end; [|lia].
        subst v. apply aget_In. exact G. }
      pose proof (NN d amt G) as P.
      rewrite (filter_single _ _ _ _ Wf G).
      * reflexivity.
      * unfold escrow_row. cbn [fst snd]. lia.
      * intros [[a d'] v] Hin Q. unfold escrow_row in Q. cbn [fst snd] in *. assert (a = ENT_MACC) by lia. subst a.
        pose proof (F _ Hin) as Q2. cbn [fst snd] in Q2. f_equal. lia.
Qed.

(* ================================================================= *)
(* 6. InitGenesis is the model's import                               *)
(* ================================================================= *)

Lemma fresh_eworld_ent now b p0 : ew_ent (fresh_eworld now b p0) = fresh_ent p0.
Proof. reflexivity. Qed.

Theorem gen_ent_InitGenesis_eq : forall now b p0 g,
  ent_params_valid (params_of_go (GenesisState_Params g)) = true ->
  Forall wl_ok (GenesisState_Whitelist g) ->
  Forall po_status_ok (GenesisState_PurchaseOrders g) ->
  Forall locked_ok (GenesisState_LockedUnd g) ->
  bank_wf b -> escrow_nonneg b ->
  match import_ent b (gen_ent_of_go g) with
  | Some s' => go_InitGenesis (fresh_eworld now b p0) g = Ok (with_ent (fresh_eworld now b p0) s', tt)
  | None => exists c, go_InitGenesis (fresh_eworld now b p0) g = Panic c
  end.
Proof.
  intros now b p0 g V Hwl Hpo Hlk Wf NN.
  rewrite (gen_ent_InitGenesis_run _ g V), (import_ent_go b g p0 V).
  rewrite (proj2 (doc_okb_spec g) (conj Hwl (conj Hpo Hlk))).
  change (ew_bank (fresh_eworld now b p0)) with b. rewrite fresh_eworld_ent.
  pose proof (escrow_check_eq b (GenesisState_TotalLocked g) Wf NN) as EQ.
  destruct (ent_escrow_check b (GenesisState_TotalLocked g)).
  - rewrite (proj2 EQ eq_refl). reflexivity.
  - destruct (go_escrow_check b (GenesisState_TotalLocked g)) as [[|]|e|c] eqn:E.
    + destruct EQ as [EQ _]. discriminate (EQ eq_refl).
    + eexists; reflexivity.
    + exfalso. exact (Coins_IsEqual_no_err _ _ _ E).
    + eexists; reflexivity.
Qed.

(* a document with an entry failing its keeper check makes InitGenesis panic, on every world *)
Theorem gen_ent_InitGenesis_bad_doc : forall w g,
  ent_params_valid (params_of_go (GenesisState_Params g)) = true ->
  doc_okb g = false -> go_InitGenesis w g = Panic enterprise_PANIC.
Proof. intros w g V D. rewrite (gen_ent_InitGenesis_run w g V), D. reflexivity. Qed.

(* whenever the model's import refuses, the generated InitGenesis panics: no hypothesis on the document *)
Theorem gen_ent_InitGenesis_none : forall now b p0 g,
  ent_params_valid (params_of_go (GenesisState_Params g)) = true ->
  bank_wf b -> escrow_nonneg b ->
  import_ent b (gen_ent_of_go g) = None ->
  exists c, go_InitGenesis (fresh_eworld now b p0) g = Panic c.
Proof.
  intros now b p0 g V Wf NN Imp. destruct (doc_okb g) eqn:D.
  - apply doc_okb_spec in D. destruct D as (Hwl & Hpo & Hlk).
    pose proof (gen_ent_InitGenesis_eq now b p0 g V Hwl Hpo Hlk Wf NN) as H. rewrite Imp in H. exact H.
  - eexists. apply gen_ent_InitGenesis_bad_doc; assumption.
Qed.

(* whenever the generated InitGenesis succeeds on a fresh store, the document passed the three keeper checks, the
   model's import succeeds and the store is the model's: no hypothesis on the document *)
Theorem gen_ent_InitGenesis_ok : forall now b p0 g w',
  ent_params_valid (params_of_go (GenesisState_Params g)) = true ->
  bank_wf b -> escrow_nonneg b ->
  go_InitGenesis (fresh_eworld now b p0) g = Ok (w', tt) ->
  doc_okb g = true /\
  import_ent b (gen_ent_of_go g) = Some (ew_ent w') /\ w' = with_ent (fresh_eworld now b p0) (ew_ent w').
Proof.
  intros now b p0 g w' V Wf NN Run. destruct (doc_okb g) eqn:D.
  - split; [reflexivity|]. apply doc_okb_spec in D. destruct D as (Hwl & Hpo & Hlk).
    pose proof (gen_ent_InitGenesis_eq now b p0 g V Hwl Hpo Hlk Wf NN) as H.
    destruct (import_ent b (gen_ent_of_go g)) as [s'|].
    + rewrite H in Run. injection Run as <-. split; reflexivity.
    + destruct H as [c H]. rewrite H in Run. discriminate Run.
  - rewrite (gen_ent_InitGenesis_bad_doc _ g V D) in Run. discriminate Run.
Qed.

(* a successful generated InitGenesis has checked the escrow: the module account holds exactly the imported total
   locked, in its denomination, and nothing in any other denomination *)
Corollary gen_ent_InitGenesis_checks_escrow : forall now b p0 g w',
  ent_params_valid (params_of_go (GenesisState_Params g)) = true ->
  bank_wf b -> escrow_nonneg b ->
  go_InitGenesis (fresh_eworld now b p0) g = Ok (w', tt) ->
  ew_bank w' = b /\
  e_totlocked (ew_ent w') = Some (GenesisState_TotalLocked g) /\
  balance b ENT_MACC (fst (total_locked (ew_ent w'))) = snd (total_locked (ew_ent w')) /\
  (forall d, d <> fst (total_locked (ew_ent w')) -> balance b ENT_MACC d = 0).
Proof.
  intros now b p0 g w' V Wf NN Run.
  destruct (gen_ent_InitGenesis_ok now b p0 g w' V Wf NN Run) as (_ & Imp & Ew).
  split; [rewrite Ew; reflexivity|].
  unfold import_ent in Imp.
  cbn [gen_ent_of_go ge_params ge_start ge_pos ge_locked ge_totlocked ge_wl ge_totspent ge_spent] in Imp.
  rewrite V in Imp. cbn [negb] in Imp.
  match type of Imp with (if ?c then _ else _) = _ => destruct c eqn:C; [|discriminate Imp] end.
  injection Imp as Imp. rewrite <- Imp. unfold total_locked. cbn [e_totlocked].
  split; [reflexivity|].
  apply andb_true_iff in C. destruct C as [C1 C2]. split; [apply Z.eqb_eq; exact C1|].
  intros d Nd. unfold balance.
  match goal with |- context [aget ?k ?m] => destruct (aget k m) as [v|] eqn:G end; [|reflexivity].
  apply aget_In in G. rewrite forallb_forall in C2. pose proof (C2 _ G) as Q. cbn [fst snd] in Q.
  unfold ENT_MACC in *. lia.
Qed.

(* ================================================================= *)
(* 7. export, then import into a fresh store                          *)
(* ================================================================= *)

(* what the invariant of the module gives for the exported document: every hypothesis of the import theorem but the
   whitelist one (the model's whitelist message does not refuse an undecodable address) *)
Lemma ent_inv_escrow_nonneg b s n :
  ent_inv {| w_bank := b; w_ent := s; w_now := n |} -> bank_wf b -> escrow_nonneg b.
Proof.
  intros [Is _ Ie Ie0] Wf d v Hin. cbn [w_bank w_ent w_now] in *.
  assert (B : balance b ENT_MACC d = v).
  { unfold balance. rewrite (In_aget_nodup _ _ _ Wf Hin). reflexivity. }
  destruct (Z.eq_dec d (dn s)) as [->|Nd].
  - rewrite Ie in B. destruct (si_tl _ _ Is) as [_ P]. lia.
  - rewrite (Ie0 d Nd) in B. lia.
Qed.

Lemma sinv_doc_ok n s :
  sinv n s ->
  Forall po_status_ok (map (fun kv => to_go_po (snd kv)) (e_pos s)) /\
  Forall locked_ok (map (fun kv => mk_go_LockedUnd (fst kv) (snd kv)) (e_locked s)).
Proof.
  intros Is. split; apply Forall_forall; intros x Hx; apply in_map_iff in Hx; destruct Hx as ([k v] & <- & Hin).
  - pose proof (In_aget_nodup _ _ _ (si_nd_pos _ _ Is) Hin) as G.
    pose proof (pk_status _ _ _ _ _ (si_po _ _ Is _ _ G)) as St.
    unfold po_status_ok, to_go_po, st_valid, ST_RAISED, ST_ACCEPTED, ST_REJECTED, ST_COMPLETED in *.
    cbn [snd EnterpriseUndPurchaseOrder_Status]. lia.
  - pose proof (In_aget_nodup _ _ _ (si_nd_locked _ _ Is) Hin) as G.
    destruct (si_locked _ _ Is _ _ G) as [_ P]. unfold locked_ok. cbn [fst snd LockedUnd_Amount]. exact P.
Qed.

(* the generated import of the generated export of a reachable state succeeds and yields exactly the store the model's
   round trip yields ([ent_reimported] of proofs/GenesisProofs.v) *)
Theorem gen_ent_export_import_roundtrip : forall w n now' p0,
  ent_inv {| w_bank := ew_bank w; w_ent := ew_ent w; w_now := n |} -> bank_wf (ew_bank w) ->
  Forall wl_ok (e_wl (ew_ent w)) ->
  exists d, go_ExportGenesis w = Ok d /\
            gen_ent_of_go d = export_ent (ew_ent w) /\
            import_ent (ew_bank w) (gen_ent_of_go d) = Some (ent_reimported (ew_ent w)) /\
            go_InitGenesis (fresh_eworld now' (ew_bank w) p0) d =
              Ok (with_ent (fresh_eworld now' (ew_bank w) p0) (ent_reimported (ew_ent w)), tt).
Proof.
  intros w n now' p0 I Wf Hwl.
  destruct (gen_ent_ExportGenesis_eq w) as (d & E & M).
  exists d. split; [exact E|]. split; [exact M|].
  pose proof (import_export_ent _ _ _ I Wf) as RT.
  split; [rewrite M; exact RT|].
  rewrite gen_ent_ExportGenesis_run in E. injection E as <-.
  destruct (sinv_doc_ok _ _ (inv_s _ I)) as [Hpo Hlk]. cbn [w_ent w_now] in Hpo, Hlk.
  assert (V : ent_params_valid (params_of_go (params_to_go (e_params (ew_ent w)))) = true).
  { rewrite params_of_to_go. exact (si_params _ _ (inv_s _ I)). }
  match goal with |- go_InitGenesis _ ?d = _ =>
    pose proof (gen_ent_InitGenesis_eq now' (ew_bank w) p0 d V Hwl Hpo Hlk Wf (ent_inv_escrow_nonneg _ _ _ I Wf)) as H
  end.
  rewrite M, RT in H. exact H.
Qed.

(* ================================================================= *)
(* 8. the hypotheses cannot be dropped; a concrete world              *)
(* ================================================================= *)

Definition exg_params : ent_params := {| ep_denom := 0; ep_min_accepts := 1; ep_time_limit := 100; ep_signers := [7] |}.
Definition exg_bad_params : ent_params := {| ep_denom := -1; ep_min_accepts := 1; ep_time_limit := 100; ep_signers := [7] |}.
Definition exg_p0 : ent_params := {| ep_denom := 3; ep_min_accepts := 2; ep_time_limit := 5; ep_signers := [8; 9] |}.
Definition exg_empty_bank : bank := {| bal := []; supply := [] |}.
(* an empty document with valid parameters *)
Definition exg_doc0 : go_GenesisState := mk_go_GenesisState (params_to_go exg_params) 1 [] [] (0, 0) [] [] (0, 0).
Definition exg_go_po (id st : Z) : go_EnterpriseUndPurchaseOrder :=
  mk_go_EnterpriseUndPurchaseOrder id 10 (0, 500) st 1000 0 [].

(* InitGenesis drops the error of SetParams: with parameters that do not validate the generated code keeps the old
   parameters and imports the rest, the model's import refuses.  (x/enterprise's ValidateGenesis rejects such a
   document before InitGenesis runs.) *)
Example gen_ent_InitGenesis_invalid_params_differ :
  let g := set_GenesisState_Params (set_GenesisState_Whitelist exg_doc0 [10]) (params_to_go exg_bad_params) in
  ent_params_valid (params_of_go (GenesisState_Params g)) = false /\
  import_ent exg_empty_bank (gen_ent_of_go g) = None /\
  go_InitGenesis (fresh_eworld 0 exg_empty_bank exg_p0) g =
    Ok (with_ent (fresh_eworld 0 exg_empty_bank exg_p0)
          {| e_params := exg_p0; e_next := 1; e_pos := []; e_raisedq := []; e_acceptedq := []; e_wl := [10];
             e_locked := []; e_spent := []; e_totlocked := Some (0, 0); e_totspent := Some (0, 0) |}, tt).
Proof. vm_compute. repeat split; reflexivity. Qed.

(* a whitelist entry that does not decode: the keeper's AccAddressFromBech32 fails and InitGenesis panics, the model
   stores the entry *)
Example gen_ent_InitGenesis_whitelist_refuted :
  let g := set_GenesisState_Whitelist exg_doc0 [10; BAD_ADDR] in
  ent_params_valid (params_of_go (GenesisState_Params g)) = true /\
  (exists s', import_ent exg_empty_bank (gen_ent_of_go g) = Some s') /\
  go_InitGenesis (fresh_eworld 0 exg_empty_bank exg_p0) g = Panic enterprise_PANIC.
Proof. vm_compute. split; [reflexivity|]. split; [eexists; reflexivity|reflexivity]. Qed.

(* a purchase order with the nil status: SetPurchaseOrder refuses it and InitGenesis panics, the model stores it *)
Example gen_ent_InitGenesis_status_refuted :
  let g := set_GenesisState_PurchaseOrders exg_doc0 [exg_go_po 1 0] in
  ent_params_valid (params_of_go (GenesisState_Params g)) = true /\
  (exists s', import_ent exg_empty_bank (gen_ent_of_go g) = Some s') /\
  go_InitGenesis (fresh_eworld 0 exg_empty_bank exg_p0) g = Panic enterprise_PANIC.
Proof. vm_compute. split; [reflexivity|]. split; [eexists; reflexivity|reflexivity]. Qed.

(* a negative locked amount: SetLockedUndForAccount refuses it and InitGenesis panics, the model stores it *)
Example gen_ent_InitGenesis_locked_refuted :
  let g := set_GenesisState_LockedUnd exg_doc0 [mk_go_LockedUnd 10 (0, -5)] in
  ent_params_valid (params_of_go (GenesisState_Params g)) = true /\
  (exists s', import_ent exg_empty_bank (gen_ent_of_go g) = Some s') /\
  go_InitGenesis (fresh_eworld 0 exg_empty_bank exg_p0) g = Panic enterprise_PANIC.
Proof. vm_compute. split; [reflexivity|]. split; [eexists; reflexivity|reflexivity]. Qed.

(* two rows for the same (account, denomination): the model reads the first (0), GetAllBalances lists both; the model
   accepts a total of 0, InitGenesis panics *)
Example gen_ent_InitGenesis_bank_wf_refuted :
  let b := {| bal := [((ENT_MACC, 0), 0); ((ENT_MACC, 0), 5)]; supply := [] |} in
  ent_params_valid (params_of_go (GenesisState_Params exg_doc0)) = true /\ doc_okb exg_doc0 = true /\
  (forall d v, In ((ENT_MACC, d), v) (bal b) -> 0 <= v) /\
  (exists s', import_ent b (gen_ent_of_go exg_doc0) = Some s') /\
  go_InitGenesis (fresh_eworld 0 b exg_p0) exg_doc0 = Panic enterprise_PANIC.
Proof.
  cbv zeta. split; [vm_compute; reflexivity|]. split; [vm_compute; reflexivity|]. split.
  - intros d v [E|[E|[]]]; injection E as _ <-; lia.
  - split; [eexists; vm_compute; reflexivity|vm_compute; reflexivity].
Qed.

(* a negative row of the module account in another denomination: GetAllBalances lists the positive rows only and
   InitGenesis succeeds, the model's "every other row is zero" refuses *)
Example gen_ent_InitGenesis_nonneg_refuted :
  let b := {| bal := [((ENT_MACC, 1), -5)]; supply := [] |} in
  ent_params_valid (params_of_go (GenesisState_Params exg_doc0)) = true /\ doc_okb exg_doc0 = true /\
  NoDup (akeys (bal b)) /\
  import_ent b (gen_ent_of_go exg_doc0) = None /\
  exists w', go_InitGenesis (fresh_eworld 0 b exg_p0) exg_doc0 = Ok (w', tt).
Proof.
  cbv zeta. split; [vm_compute; reflexivity|]. split; [vm_compute; reflexivity|]. split.
  - cbn. constructor; [intros []|constructor].
  - split; [vm_compute; reflexivity|eexists; vm_compute; reflexivity].
Qed.

(* not needed: well-formed denominations, a non-negative total.  A negative total is refused by both sides (no balance
   is negative), and so is a total in the blank denomination unless the account really holds it *)
Example gen_ent_InitGenesis_negative_total_both_refuse :
  let g := set_GenesisState_TotalLocked exg_doc0 (0, -5) in
  import_ent exg_empty_bank (gen_ent_of_go g) = None /\
  go_InitGenesis (fresh_eworld 0 exg_empty_bank exg_p0) g = Panic enterprise_PANIC.
Proof. vm_compute. split; reflexivity. Qed.

(* ---- a concrete world ---- *)
(* two purchase orders (the first completed, the second raised with one decision), one locked entry of 500 and a total
   locked of 500, one spent entry, a whitelist of two, the module account holding 500 *)
Definition exg_po1 : po :=
  {| po_id := 1; po_purchaser := 10; po_denom := 0; po_amount := 525; po_status := ST_COMPLETED; po_raise_time := 1000;
     po_completion_time := 1100; po_decisions := [{| d_signer := 7; d_decision := ST_ACCEPTED; d_time := 1050 |}] |}.
Definition exg_po2 : po :=
  {| po_id := 2; po_purchaser := 11; po_denom := 0; po_amount := 70; po_status := ST_RAISED; po_raise_time := 2000;
     po_completion_time := 0; po_decisions := [{| d_signer := 7; d_decision := ST_REJECTED; d_time := 2050 |}] |}.
Definition exg_state : ent_state :=
  {| e_params := exg_params; e_next := 3; e_pos := [(1, exg_po1); (2, exg_po2)]; e_raisedq := [2]; e_acceptedq := [];
     e_wl := [10; 11]; e_locked := [(10, (0, 500))]; e_spent := [(10, (0, 25))];
     e_totlocked := Some (0, 500); e_totspent := Some (0, 25) |}.
Definition exg_bank (escrow : Z) : bank :=
  {| bal := [((ENT_MACC, 0), escrow); ((10, 0), 40); ((11, 0), 7)]; supply := [(0, escrow + 47)] |}.
Definition exg_world : eworld := mk_eworld (3000 * NSEC) (exg_bank 500) exg_state.

Lemma exg_bank_wf e : bank_wf (exg_bank e).
Proof.
  unfold bank_wf, exg_bank. cbn. repeat constructor; cbn; intros H; repeat (destruct H as [H|H]; [discriminate H|]); exact H.
Qed.

Lemma exg_bank_nonneg e : 0 <= e -> escrow_nonneg (exg_bank e).
Proof.
  intros P d v H. cbn in H. destruct H as [H|[H|[H|[]]]]; try discriminate H. injection H as _ <-. exact P.
Qed.

Lemma exg_banks_ok : bank_wf (exg_bank 500) /\ escrow_nonneg (exg_bank 500) /\
                     bank_wf (exg_bank 499) /\ escrow_nonneg (exg_bank 499).
Proof.
  split; [apply exg_bank_wf|]. split; [apply exg_bank_nonneg; lia|]. split; [apply exg_bank_wf|apply exg_bank_nonneg; lia].
Qed.
