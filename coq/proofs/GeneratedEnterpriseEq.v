(* The eFUND book-keeping code generated from /repo/x/enterprise/keeper/locked.go (coq/GeneratedEnterpriseKeeper.v,
   re-generated on every run, written against model/EnterpriseKeeperPrims.v and the sdk.Coins slice of lib/GoSdk.v)
   computes exactly what the hand-written model of model/Enterprise.v computes: increment_locked, increment_spent and
   mint_and_lock on EVERY input, decrement_locked and unlock_for_fees under the hypotheses listed with each theorem, every
   one of which is shown necessary by a refutation (part 6).

   Structure (so that the proofs survive a harmless re-generation):
     part 1  facts about sdk.Coins (lib/GoSdk.v) and about the primitives of model/EnterpriseKeeperPrims.v, each proved
             separately;
     part 2  a tactic [ewalk] that walks any body built from those primitives: it never mentions a temporary of the
             generated file, nor the nesting of its tests;
     part 3  the five functions;
     part 4  the equalities restated over the worlds of model/EnterpriseSpec.v, and theorems about the model transported
             to the generated code;
     part 5  a concrete world;
     part 6  the hypotheses cannot be dropped;
     part 7  the ante decorator of the application model calling the generated code: under [app_inv] all hypotheses
             hold where it calls UnlockCoinsForFees. *)
From Coq Require Import ZifyBool.
From MC Require Import lib.Prelude lib.AMap lib.GoSdk GeneratedEnterpriseTypes model.Bank model.Enterprise
  model.EnterpriseSpec model.EnterpriseKeeperPrims GeneratedEnterpriseKeeper model.EnterpriseGenSpec.
From MC Require Import proofs.BankProofs proofs.EnterpriseProofs proofs.EnterpriseC03 proofs.EnterpriseC04.
Local Open Scope Z_scope.

(* [eblift w o] (model/EnterpriseGenSpec.v): a model outcome (bank, state) as an outcome of the generated code run in world w *)
Definition slift (w : eworld) (o : outcome ent_state) : outcome (eworld * unit) :=
  match o with Ok s => Ok (with_ent w s, tt) | Err c => Err c | Panic c => Panic c end.

(* ------------------------------------------------------------------------------------------ *)
(* part 1: the primitives                                                                     *)
(* ------------------------------------------------------------------------------------------ *)

(* the aliases of Z * Z (go_coin, coin) and of Z: made transparent wherever a test is to be destructed, so that the
   implicit type arguments of [fst] / [snd] on the two sides coincide *)
Ltac tnorm := cbv delta [go_coin go_denom go_addr go_int coin denom addr] in *.

(* --- sdk.Coin --- *)
Lemma Coin_Add_model (a b : go_coin) : Coin_Add a b = coin_add a b.
Proof.
  destruct a as [d x], b as [d' y]. unfold Coin_Add, coin_add, PANIC_DENOM, GO_PANIC_DENOM. cbn [fst snd].
  destruct (d =? d'); reflexivity.
Qed.

Lemma NewCoin_ok (d : go_denom) a : 0 <= a -> sdk_NewCoin d a = Ok (d, a).
Proof. intros H. unfold sdk_NewCoin. destruct (a <? 0) eqn:E; [lia|reflexivity]. Qed.

(* Coin.Sub after a SafeSub that reported no negative amount *)
Lemma Coin_Sub_model (l c : go_coin) : safesub_neg l c = false ->
  Coin_Sub l c = if fst l =? fst c then Ok (fst l, snd l - snd c) else Panic PANIC_DENOM.
Proof.
  destruct l as [d x], c as [d' y]. unfold safesub_neg, Coin_Sub. cbn [fst snd].
  destruct (d =? d'); cbn [negb]; [|reflexivity].
  intros H. destruct (x - y <? 0) eqn:E; [lia|reflexivity].
Qed.

Lemma safesub_neg_false_same (l c : go_coin) : safesub_neg l c = false -> (fst l =? fst c) = true -> snd c <= snd l.
Proof. destruct l as [d x], c as [d' y]. unfold safesub_neg. cbn [fst snd]. intros H E. rewrite E in H. lia. Qed.

(* --- sdk.Coins --- *)
(* sdk.NewCoins(c) for a non-negative coin: the zero coin is dropped *)
Definition one_coins (c : go_coin) : list go_coin := if snd c =? 0 then [] else [c].
(* the two results of cs.SafeSub(c) *)
Definition coins_sub (cs : list go_coin) (c : go_coin) : list go_coin := if snd c =? 0 then cs else Coins_sub1 cs c.
Definition coins_hasneg (cs : list go_coin) (c : go_coin) : bool := existsb (fun x => snd x <? 0) (coins_sub cs c).
Definition coins_rest (cs : list go_coin) (c : go_coin) : list go_coin :=
  filter (fun x => negb (snd x =? 0)) (coins_sub cs c).

Lemma NewCoins1_split (c : go_coin) :
  sdk_NewCoins1 c = if snd c <? 0 then Panic GO_PANIC_COINS else Ok (one_coins c).
Proof. unfold sdk_NewCoins1, one_coins. destruct (snd c <? 0), (snd c =? 0); reflexivity. Qed.

Lemma NewCoins1_ok (c : go_coin) : 0 <= snd c -> sdk_NewCoins1 c = Ok (one_coins c).
Proof. intros H. rewrite NewCoins1_split. destruct (snd c <? 0) eqn:E; [lia|reflexivity]. Qed.

Lemma one_coins_pos (c : go_coin) : 0 < snd c -> one_coins c = [c].
Proof. intros H. unfold one_coins. destruct (snd c =? 0) eqn:E; [lia|reflexivity]. Qed.

Lemma SafeSub1_ok cs (c : go_coin) : fst c <> go_zero_denom -> 0 <= snd c ->
  Coins_SafeSub1 cs c = Ok (coins_rest cs c, coins_hasneg cs c).
Proof.
  intros Hd Ha. unfold Coins_SafeSub1, coins_rest, coins_hasneg, coins_sub.
  destruct (fst c =? go_zero_denom) eqn:E1; [lia|]. destruct (snd c <? 0) eqn:E2; [lia|]. reflexivity.
Qed.

Lemma SafeSub1_zero_coin cs : Coins_SafeSub1 cs go_zero_coin = Panic PANIC_NILCOIN.
Proof. reflexivity. Qed.

(* Coins{l}.SafeSub(c) reports a negative amount exactly when the model's [safesub_neg] says so *)
Lemma hasneg_one (l c : go_coin) : 0 <= snd l -> 0 <= snd c -> coins_hasneg (one_coins l) c = safesub_neg l c.
Proof.
  destruct l as [d x], c as [d' y]. cbn [fst snd]. intros Hl Hc.
  unfold coins_hasneg, coins_sub, one_coins, safesub_neg, Coins_sub1. cbn [fst snd].
  destruct (y =? 0) eqn:Ec, (x =? 0) eqn:El, (d =? d') eqn:Ed;
    cbn [existsb map app fst snd orb]; rewrite ?Ed; cbn [existsb map app fst snd orb]; lia.
Qed.

Lemma existsb_neg_false (cs : list (Z * Z)) :
  Forall (fun x => 0 <= snd x) cs -> existsb (fun x => snd x <? 0) cs = false.
Proof. induction 1 as [|x r Hx _ IH]; cbn [existsb]; [reflexivity|]. rewrite IH. lia. Qed.

Lemma existsb_denom_false (cs : list (Z * Z)) (d : Z) :
  existsb (fun x => fst x =? d) cs = false <-> ~ In d (map fst cs).
Proof.
  tnorm. induction cs as [|x r IH]; cbn [existsb map In]; [tauto|].
  destruct (fst x =? d) eqn:E; cbn [orb].
  - split; [intros X; discriminate X|]. intros N. exfalso. apply N. left. lia.
  - rewrite IH. split; [intros N [X|X]; [lia|tauto] | tauto].
Qed.

Lemma AmountOf_notin (cs : list (Z * Z)) (d : Z) : ~ In d (map fst cs) -> Coins_AmountOf cs d = 0.
Proof.
  tnorm. induction cs as [|x r IH]; cbn [Coins_AmountOf fold_right map In]; [reflexivity|].
  intros N. fold (Coins_AmountOf r d). rewrite IH by tauto.
  destruct (fst x =? d) eqn:E; [exfalso; apply N; left; lia | reflexivity].
Qed.

Lemma AmountOf_cons (x : Z * Z) cs (d : Z) :
  Coins_AmountOf (x :: cs) d = (if fst x =? d then snd x else 0) + Coins_AmountOf cs d.
Proof. tnorm. unfold Coins_AmountOf. cbn [fold_right]. destruct (fst x =? d); lia. Qed.

Lemma AmountOf_app (cs cs' : list (Z * Z)) (d : Z) : Coins_AmountOf (cs ++ cs') d = Coins_AmountOf cs d + Coins_AmountOf cs' d.
Proof. tnorm. induction cs as [|x r IH]; [reflexivity|]. cbn [app]. rewrite !AmountOf_cons, IH. lia. Qed.

Lemma AmountOf_fee (fee : list (Z * Z)) (d : Z) : Coins_AmountOf fee d = fee_amount_of fee d.
Proof.
  tnorm. unfold fee_amount_of. induction fee as [|x r IH]; [reflexivity|].
  rewrite AmountOf_cons, IH. reflexivity.
Qed.

Lemma Find_fee (fee : list (Z * Z)) (d : Z) :
  Coins_Find fee d = match fee_find fee d with Some c => (true, c) | None => (false, go_zero_coin) end.
Proof. reflexivity. Qed.

Lemma fee_find_Some (fee : list (Z * Z)) (d : Z) (c : Z * Z) : fee_find fee d = Some c -> fst c = d /\ In c fee.
Proof. unfold fee_find. intros H. apply find_some in H. destruct H as [I E]. cbv beta in E. apply Z.eqb_eq in E. split; [exact E|exact I]. Qed.

Lemma fee_amount_nonneg (fee : list (Z * Z)) (d : Z) : Forall (fun c => 0 <= snd c) fee -> 0 <= fee_amount_of fee d.
Proof.
  tnorm. unfold fee_amount_of. induction 1 as [|x r Hx _ IH]; cbn [map sumZ]; [lia|]. destruct (fst x =? d); lia.
Qed.

(* subtracting from / adding to the coin of one denomination *)
Lemma map_denom_notin (f : Z * Z -> Z * Z) (cs : list (Z * Z)) (d : Z) :
  ~ In d (map fst cs) -> map (fun x => if fst x =? d then f x else x) cs = cs.
Proof.
  tnorm. induction cs as [|x r IH]; cbn [map In]; [reflexivity|]. intros N.
  rewrite IH by tauto. destruct (fst x =? d) eqn:E; [exfalso; apply N; left; lia | reflexivity].
Qed.

Lemma hasneg_map_sub (cs : list (Z * Z)) (c : Z * Z) :
  NoDup (map fst cs) -> Forall (fun x => 0 <= snd x) cs -> existsb (fun x => fst x =? fst c) cs = true ->
  existsb (fun x => snd x <? 0) (map (fun x => if fst x =? fst c then (fst x, snd x - snd c) else x) cs)
    = (Coins_AmountOf cs (fst c) <? snd c).
Proof.
  tnorm. induction cs as [|x r IH]; intros ND NN Ex; [discriminate|].
  cbn [map fst] in ND. inversion ND as [|? ? NI ND']; subst. inversion NN as [|? ? Hx NN']; subst.
  cbn [existsb] in Ex. cbn [map existsb]. rewrite AmountOf_cons.
  destruct (fst x =? fst c) eqn:E.
  - assert (NI' : ~ In (fst c) (map fst r)) by (replace (fst c) with (fst x) by lia; exact NI).
    rewrite (map_denom_notin (fun x => (fst x, snd x - snd c))) by exact NI'.
    rewrite (existsb_neg_false r NN'), (AmountOf_notin r _ NI'). cbn [snd]. lia.
  - cbn [orb] in Ex. rewrite (IH ND' NN' Ex). lia.
Qed.

Lemma hasneg_sub1 (cs : list (Z * Z)) (c : Z * Z) :
  NoDup (map fst cs) -> Forall (fun x => 0 <= snd x) cs -> 0 < snd c ->
  existsb (fun x => snd x <? 0) (Coins_sub1 cs c) = (Coins_AmountOf cs (fst c) <? snd c).
Proof.
  intros ND NN Hc. unfold Coins_sub1. tnorm.
  destruct (existsb (fun x => fst x =? fst c) cs) eqn:Ex.
  - apply hasneg_map_sub; assumption.
  - apply existsb_denom_false in Ex. rewrite existsb_app, (existsb_neg_false cs NN), (AmountOf_notin _ _ Ex).
    cbn [existsb snd]. lia.
Qed.

Lemma fst_add1 (cs : list (Z * Z)) (l : Z * Z) :
  map fst (Coins_add1 cs l) = if existsb (fun x => fst x =? fst l) cs then map fst cs else map fst cs ++ [fst l].
Proof.
  unfold Coins_add1. tnorm. destruct (existsb _ cs).
  - rewrite map_map. apply map_ext. intros x. destruct (fst x =? fst l); reflexivity.
  - rewrite map_app. reflexivity.
Qed.

Lemma NoDup_add1 (cs : list (Z * Z)) (l : Z * Z) : NoDup (map fst cs) -> NoDup (map fst (Coins_add1 cs l)).
Proof.
  tnorm. intros ND. rewrite fst_add1. destruct (existsb _ cs) eqn:Ex; [exact ND|].
  apply NoDup_snoc; [exact ND|]. apply existsb_denom_false. exact Ex.
Qed.

Lemma nonneg_add1 (cs : list (Z * Z)) (l : Z * Z) :
  Forall (fun x => 0 <= snd x) cs -> 0 <= snd l -> Forall (fun x => 0 <= snd x) (Coins_add1 cs l).
Proof.
  intros NN Hl. unfold Coins_add1. tnorm. destruct (existsb _ cs).
  - induction NN as [|x r Hx _ IH]; cbn [map]; constructor; [|exact IH].
    destruct (fst x =? fst l); cbn [snd]; lia.
  - apply Forall_app. split; [exact NN|]. constructor; [exact Hl|constructor].
Qed.

Lemma AmountOf_map_add (cs : list (Z * Z)) (l : Z * Z) (d : Z) :
  NoDup (map fst cs) -> existsb (fun x => fst x =? fst l) cs = true ->
  Coins_AmountOf (map (fun x => if fst x =? fst l then (fst x, snd x + snd l) else x) cs) d
    = Coins_AmountOf cs d + (if fst l =? d then snd l else 0).
Proof.
  tnorm. induction cs as [|x r IH]; intros ND Ex; [discriminate|].
  cbn [map fst] in ND. inversion ND as [|? ? NI ND']; subst.
  cbn [existsb] in Ex. cbn [map]. rewrite !AmountOf_cons.
  destruct (fst x =? fst l) eqn:E.
  - assert (NI' : ~ In (fst l) (map fst r)) by (replace (fst l) with (fst x) by lia; exact NI).
    rewrite (map_denom_notin (fun x => (fst x, snd x + snd l))) by exact NI'. cbn [fst snd].
    destruct (fst x =? d) eqn:E1, (fst l =? d) eqn:E2; lia.
  - cbn [orb] in Ex. rewrite (IH ND' Ex). lia.
Qed.

Lemma AmountOf_add1 (cs : list (Z * Z)) (l : Z * Z) (d : Z) : NoDup (map fst cs) ->
  Coins_AmountOf (Coins_add1 cs l) d = Coins_AmountOf cs d + (if fst l =? d then snd l else 0).
Proof.
  intros ND. unfold Coins_add1. tnorm. destruct (existsb (fun x => fst x =? fst l) cs) eqn:Ex.
  - apply AmountOf_map_add; assumption.
  - rewrite AmountOf_app, AmountOf_cons. cbn [Coins_AmountOf fold_right]. lia.
Qed.

(* --- x/bank --- *)
Lemma send_all_one b f t (c : go_coin) : send_all b f t [c] = bank_send b f t (fst c) (snd c).
Proof. cbn [send_all]. destruct (bank_send b f t (fst c) (snd c)); reflexivity. Qed.

Lemma mint_all_one b m (c : go_coin) : mint_all b m [c] = bank_mint b m (fst c) (snd c).
Proof. cbn [mint_all]. destruct (bank_mint b m (fst c) (snd c)); reflexivity. Qed.

Lemma send_all_undelegate b a (cs : list go_coin) : send_all b ENT_MACC a cs = undelegate_all b a cs.
Proof.
  revert b. induction cs as [|c r IH]; intros b; [reflexivity|]. cbn [send_all undelegate_all]. tnorm.
  destruct (bank_send b ENT_MACC a (fst c) (snd c)); cbn [obind]; [apply IH|reflexivity..].
Qed.

Lemma bank_mint_neg b m d a : a < 0 -> bank_mint b m d a = Panic GO_PANIC_COINS.
Proof. intros H. unfold bank_mint. destruct (a <? 0) eqn:E; [reflexivity|lia]. Qed.

Lemma MintCoins_one n b s m (c : go_coin) : 0 < snd c ->
  bank_MintCoins (mk_eworld n b s) m (one_coins c) = do b1 <- bank_mint b m (fst c) (snd c); Ok (mk_eworld n b1 s, tt).
Proof. intros H. rewrite (one_coins_pos c H). unfold bank_MintCoins. rewrite mint_all_one. reflexivity. Qed.

Lemma Delegate_one n b s a m (c : go_coin) : 0 < snd c ->
  bank_DelegateCoinsFromAccountToModule (mk_eworld n b s) a m (one_coins c) =
    do b1 <- bank_send b a m (fst c) (snd c); Ok (mk_eworld n b1 s, tt).
Proof.
  intros H. rewrite (one_coins_pos c H). unfold bank_DelegateCoinsFromAccountToModule. rewrite send_all_one. reflexivity.
Qed.

Lemma Undelegate_one n b s a (c : go_coin) : 0 < snd c ->
  bank_UndelegateCoinsFromModuleToAccount (mk_eworld n b s) ENT_MACC a (one_coins c) =
    do b1 <- bank_send b ENT_MACC a (fst c) (snd c); Ok (mk_eworld n b1 s, tt).
Proof.
  intros H. rewrite (one_coins_pos c H). unfold bank_UndelegateCoinsFromModuleToAccount. rewrite send_all_one. reflexivity.
Qed.

Lemma Undelegate_fee n b s a (fee : list go_coin) :
  bank_UndelegateCoinsFromModuleToAccount (mk_eworld n b s) ENT_MACC a fee =
    do b1 <- undelegate_all b a fee; Ok (mk_eworld n b1 s, tt).
Proof. unfold bank_UndelegateCoinsFromModuleToAccount. rewrite send_all_undelegate. reflexivity. Qed.

Lemma SendM2A_one n b s m a (c : go_coin) : 0 < snd c ->
  bank_SendCoinsFromModuleToAccount (mk_eworld n b s) m a (one_coins c) =
    do b1 <- bank_send_m2a b m a (fst c) (snd c); Ok (mk_eworld n b1 s, tt).
Proof.
  intros H. rewrite (one_coins_pos c H). unfold bank_SendCoinsFromModuleToAccount, bank_send_m2a. rewrite send_all_one.
  destruct (blocked a); reflexivity.
Qed.

Lemma AddAll_one sp (l : go_coin) : 0 < snd l -> Coins_AddAll sp (one_coins l) = Ok (Coins_add1 sp l).
Proof. intros H. rewrite (one_coins_pos l H). reflexivity. Qed.

(* SpendableCoins: the positive rows of one account; with one row per (account, denomination) its amount of [d] is
   the balance when positive *)
Definition spendable_rows (rows : amap (addr * denom) Z) (a : addr) : list go_coin :=
  map (fun kv => (snd (fst kv), snd kv)) (filter (fun kv => (fst (fst kv) =? a) && (0 <? snd kv)) rows).

Lemma spendable_rows_in rows a d : In d (map fst (spendable_rows rows a)) -> In (a, d) (akeys rows).
Proof.
  tnorm. unfold spendable_rows, akeys. rewrite map_map. cbn [fst]. rewrite !in_map_iff.
  intros ([[a' d'] v] & E & I). cbn [fst snd] in E. apply filter_In in I. destruct I as [I T]. cbn [fst snd] in T.
  exists ((a', d'), v). split; [|exact I]. cbn [fst]. f_equal; lia.
Qed.

Lemma spendable_rows_NoDup rows a : NoDup (akeys rows) -> NoDup (map fst (spendable_rows rows a)).
Proof.
  tnorm. induction rows as [|[[a' d'] v] r IH]; intros ND; [constructor|].
  cbn [akeys map fst] in ND. inversion ND as [|? ? NI ND']; subst.
  unfold spendable_rows. cbn [filter fst snd]. fold (akeys r) in *.
  destruct ((a' =? a) && (0 <? v)) eqn:E; [|exact (IH ND')].
  cbn [map fst snd]. constructor; [|exact (IH ND')].
  intros X. apply spendable_rows_in in X. apply NI. replace a' with a by lia. exact X.
Qed.

Lemma spendable_rows_pos rows a : Forall (fun x => 0 <= snd x) (spendable_rows rows a).
Proof.
  tnorm. unfold spendable_rows. apply Forall_forall. intros x I. apply in_map_iff in I. destruct I as (kv & <- & I).
  apply filter_In in I. cbn [snd]. lia.
Qed.

Lemma spendable_rows_amount rows a d : NoDup (akeys rows) ->
  Coins_AmountOf (spendable_rows rows a) d = Z.max 0 (match aget (a, d) rows with Some v => v | None => 0 end).
Proof.
  tnorm. induction rows as [|[[a' d'] v] r IH]; intros ND; [reflexivity|].
  cbn [akeys map fst] in ND. inversion ND as [|? ? NI ND']; subst. fold (akeys r) in *.
  cbn [aget]. rewrite keqb_addr_denom.
  assert (Hs : spendable_rows (((a', d'), v) :: r) a =
               if (a' =? a) && (0 <? v) then (d', v) :: spendable_rows r a else spendable_rows r a).
  { unfold spendable_rows. cbn [filter fst snd]. destruct ((a' =? a) && (0 <? v)); reflexivity. }
  rewrite Hs. clear Hs.
  destruct ((a =? a') && (d =? d')) eqn:E.
  - assert (a = a' /\ d = d') as [-> ->] by lia.
    assert (Z0 : Coins_AmountOf (spendable_rows r a') d' = 0).
    { apply AmountOf_notin. intros X. apply NI. apply spendable_rows_in. exact X. }
    rewrite Z.eqb_refl. cbn [andb]. destruct (0 <? v) eqn:Ev.
    + rewrite AmountOf_cons, Z0. cbn [fst snd]. rewrite Z.eqb_refl. lia.
    + rewrite Z0. lia.
  - rewrite <- (IH ND'). destruct ((a' =? a) && (0 <? v)) eqn:E2; [|reflexivity].
    rewrite AmountOf_cons. cbn [fst snd]. destruct (d' =? d) eqn:E3; [lia|reflexivity].
Qed.

Lemma SpendableCoins_rows n b s a : bank_SpendableCoins (mk_eworld n b s) a = spendable_rows (bal b) a.
Proof. reflexivity. Qed.

(* the second test of UnlockCoinsForFees: spendable.Add(locked).SafeSub(fee coin) reports a negative amount exactly when
   the model's "potentially available" is below the fee.  [safesub_neg l c = true]: the first test has failed. *)
Lemma hasneg_potential n b s a (l c : go_coin) :
  bank_wf b -> 0 < snd l -> 0 <= snd c -> safesub_neg l c = true ->
  coins_hasneg (Coins_add1 (bank_SpendableCoins (mk_eworld n b s) a) l) c =
    ((if fst l =? fst c then balance b a (fst c) + snd l else balance b a (fst c)) <? snd c).
Proof.
  intros Wf Hl Hc Hn. rewrite SpendableCoins_rows.
  assert (Hc' : 0 < snd c /\ ((fst l =? fst c) = true -> snd l < snd c)).
  { unfold safesub_neg in Hn. tnorm. destruct (fst l =? fst c); lia. }
  destruct Hc' as [Hc' Hsame].
  unfold coins_hasneg, coins_sub. tnorm. destruct (snd c =? 0) eqn:E0; [lia|].
  rewrite hasneg_sub1; [| apply NoDup_add1, spendable_rows_NoDup, Wf
                         | apply nonneg_add1; [apply spendable_rows_pos | lia] | exact Hc'].
  rewrite AmountOf_add1 by (apply spendable_rows_NoDup, Wf).
  rewrite spendable_rows_amount by exact Wf. unfold balance. tnorm.
  destruct (aget (a, fst c) (bal b)) as [v|]; (destruct (fst l =? fst c) eqn:E; [specialize (Hsame eq_refl)|]; lia).
Qed.

(* --- the store: one write, then the reads the generated code makes --- *)
Definition set_locked (s : ent_state) (a : addr) (c : coin) : ent_state :=
  with_books s (aset a c (e_locked s)) (e_spent s) (e_totlocked s) (e_totspent s).
Definition set_totlocked (s : ent_state) (c : coin) : ent_state :=
  with_books s (e_locked s) (e_spent s) (Some c) (e_totspent s).
Definition set_spent (s : ent_state) (a : addr) (c : coin) : ent_state :=
  with_books s (e_locked s) (aset a c (e_spent s)) (e_totlocked s) (e_totspent s).
Definition set_totspent (s : ent_state) (c : coin) : ent_state :=
  with_books s (e_locked s) (e_spent s) (e_totlocked s) (Some c).

Lemma GetLocked_world n b s a : ent_GetLockedUndForAccount (mk_eworld n b s) a = mk_go_LockedUnd a (locked_coin s a).
Proof. reflexivity. Qed.
Lemma GetSpent_world n b s a : ent_GetSpentEFUNDForAccount (mk_eworld n b s) a = mk_go_SpentEFUND a (spent_coin s a).
Proof. reflexivity. Qed.
Lemma GetTotalLocked_world n b s : ent_GetTotalLockedUnd (mk_eworld n b s) = total_locked s.
Proof. reflexivity. Qed.
Lemma GetTotalSpent_world n b s : ent_GetTotalSpentEFUND (mk_eworld n b s) = total_spent s.
Proof. reflexivity. Qed.
Lemma GetParamDenom_world n b s : ent_GetParamDenom (mk_eworld n b s) = ep_denom (e_params s).
Proof. reflexivity. Qed.

Lemma SetLocked_world n b s a (c : go_coin) :
  ent_SetLockedUndForAccount (mk_eworld n b s) (mk_go_LockedUnd a c) =
    if snd c <? 0 then Err ERR_ENT else Ok (mk_eworld n b (set_locked s a c), tt).
Proof. reflexivity. Qed.
Lemma SetLocked_ok n b s a (c : go_coin) : 0 <= snd c ->
  ent_SetLockedUndForAccount (mk_eworld n b s) (mk_go_LockedUnd a c) = Ok (mk_eworld n b (set_locked s a c), tt).
Proof. intros H. rewrite SetLocked_world. destruct (snd c <? 0) eqn:E; [lia|reflexivity]. Qed.
Lemma SetSpent_world n b s a (c : go_coin) :
  ent_SetSpentEFUNDForAccount (mk_eworld n b s) (mk_go_SpentEFUND a c) = Ok (mk_eworld n b (set_spent s a c), tt).
Proof. reflexivity. Qed.
Lemma SetTotalLocked_world n b s (c : go_coin) :
  ent_SetTotalLockedUnd (mk_eworld n b s) c = Ok (mk_eworld n b (set_totlocked s c), tt).
Proof. reflexivity. Qed.
Lemma SetTotalSpent_world n b s (c : go_coin) :
  ent_SetTotalSpentEFUND (mk_eworld n b s) c = Ok (mk_eworld n b (set_totspent s c), tt).
Proof. reflexivity. Qed.

Lemma total_locked_set_locked s a c : total_locked (set_locked s a c) = total_locked s.
Proof. reflexivity. Qed.
Lemma total_spent_set_spent s a c : total_spent (set_spent s a c) = total_spent s.
Proof. reflexivity. Qed.
Lemma params_set_locked s a c : e_params (set_locked s a c) = e_params s.
Proof. reflexivity. Qed.

(* the states the model writes *)
Lemma locked_books s a l t :
  set_totlocked (set_locked s a l) t = with_books s (aset a l (e_locked s)) (e_spent s) (Some t) (e_totspent s).
Proof. reflexivity. Qed.
Lemma spent_books s a sp t :
  set_totspent (set_spent s a sp) t = with_books s (e_locked s) (aset a sp (e_spent s)) (e_totlocked s) (Some t).
Proof. reflexivity. Qed.

Lemma Empty_one (c : go_coin) : 0 < snd c -> Coins_Empty (one_coins c) = false.
Proof. intros H. rewrite (one_coins_pos c H). reflexivity. Qed.

(* ------------------------------------------------------------------------------------------ *)
(* part 2: walking a generated body                                                           *)
(* ------------------------------------------------------------------------------------------ *)

#[local] Arguments go_sendCoinsFromModuleToAccount : simpl never.
#[local] Arguments go_incrementSpentEFUND : simpl never.
#[local] Arguments go_incrementLockedUnd : simpl never.
#[local] Arguments go_decrementLockedUnd : simpl never.
#[local] Arguments go_MintCoinsAndLock : simpl never.
#[local] Arguments go_UnlockCoinsForFees : simpl never.
#[local] Arguments one_coins : simpl never.
#[local] Arguments coins_hasneg : simpl never.
#[local] Arguments coins_rest : simpl never.
#[local] Arguments set_locked : simpl never.
#[local] Arguments set_totlocked : simpl never.
#[local] Arguments set_spent : simpl never.
#[local] Arguments set_totspent : simpl never.

(* boolean tests met so far, as propositions *)
Ltac prop_tests :=
  repeat match goal with
         | H : (_ <? _) = true |- _ => apply Z.ltb_lt in H
         | H : (_ <? _) = false |- _ => apply Z.ltb_ge in H
         | H : (_ <=? _) = true |- _ => apply Z.leb_le in H
         | H : (_ <=? _) = false |- _ => apply Z.leb_gt in H
         | H : (_ =? _) = true |- _ => apply Z.eqb_eq in H
         | H : (_ =? _) = false |- _ => apply Z.eqb_neq in H
         | H : negb _ = true |- _ => apply negb_true_iff in H
         | H : negb _ = false |- _ => apply negb_false_iff in H
         end.

(* what the recorded tests say about the coins at hand *)
Ltac efacts :=
  repeat match goal with
         | H : safesub_neg ?l ?c = false, E : (fst ?l =? fst ?c) = true |- _ =>
             lazymatch goal with
             | _ : snd c <= snd l |- _ => fail
             | _ => pose proof (safesub_neg_false_same l c H E)
             end
         | H : fee_find ?fee ?d = Some ?c, F : Forall (fun x => 0 <= snd x) ?fee |- _ =>
             lazymatch goal with
             | _ : In c fee |- _ => fail
             | _ => let E := fresh "Hfd" in let I := fresh "Hfi" in
                    destruct (fee_find_Some fee d c H) as [E I];
                    pose proof (proj1 (Forall_forall _ _) F c I)
             end
         end.

Ltac eside :=
  first [ assumption
        | solve [ cbn [fst snd ew_bank ew_ent] in *; tnorm; efacts; tnorm; cbv beta in *;
                  first [ assumption | prop_tests; first [ lia | congruence ] ] ] ].

(* the names the walker may unfold: plumbing only *)
Ltac enorm :=
  cbn [obind fst snd negb andb orb ew_bank ew_ent ew_now with_ebank with_ent eblift slift
       LockedUnd_Owner LockedUnd_Amount set_LockedUnd_Owner set_LockedUnd_Amount
       SpentEFUND_Owner SpentEFUND_Amount set_SpentEFUND_Owner set_SpentEFUND_Amount
       Coin_Denom Coin_Amount].

Ltac eunfold :=
  progress unfold Int_IsZero, MOD_enterprise, Coin_Amount, Coin_Denom, with_ent, with_ebank,
    set_LockedUnd_Owner, set_LockedUnd_Amount, set_SpentEFUND_Owner, set_SpentEFUND_Amount.

(* facts recorded in the context are used to rewrite the goal *)
Ltac eknown :=
  match goal with
  | H : ?x = Some _ |- context [?x] => rewrite H
  | H : ?x = None |- context [?x] => rewrite H
  | H : ?x = Ok _ |- context [?x] => rewrite H
  | H : ?x = Err _ |- context [?x] => rewrite H
  | H : ?x = Panic _ |- context [?x] => rewrite H
  | H : ?x = true |- context [?x] => rewrite H
  | H : ?x = false |- context [?x] => rewrite H
  end.

Ltac eprim :=
  match goal with
  (* the store *)
  | |- context [ent_GetLockedUndForAccount (mk_eworld ?n ?b ?s) ?a] => rewrite (GetLocked_world n b s a)
  | |- context [ent_GetSpentEFUNDForAccount (mk_eworld ?n ?b ?s) ?a] => rewrite (GetSpent_world n b s a)
  | |- context [ent_GetTotalLockedUnd (mk_eworld ?n ?b ?s)] => rewrite (GetTotalLocked_world n b s)
  | |- context [ent_GetTotalSpentEFUND (mk_eworld ?n ?b ?s)] => rewrite (GetTotalSpent_world n b s)
  | |- context [ent_GetParamDenom (mk_eworld ?n ?b ?s)] => rewrite (GetParamDenom_world n b s)
  | |- context [ent_SetLockedUndForAccount (mk_eworld ?n ?b ?s) (mk_go_LockedUnd ?a ?c)] =>
      first [ rewrite (SetLocked_ok n b s a c) by eside | rewrite (SetLocked_world n b s a c) ]
  | |- context [ent_SetSpentEFUNDForAccount (mk_eworld ?n ?b ?s) (mk_go_SpentEFUND ?a ?c)] =>
      rewrite (SetSpent_world n b s a c)
  | |- context [ent_SetTotalLockedUnd (mk_eworld ?n ?b ?s) ?c] => rewrite (SetTotalLocked_world n b s c)
  | |- context [ent_SetTotalSpentEFUND (mk_eworld ?n ?b ?s) ?c] => rewrite (SetTotalSpent_world n b s c)
  | |- context [total_locked (set_locked ?s ?a ?c)] => rewrite (total_locked_set_locked s a c)
  | |- context [total_spent (set_spent ?s ?a ?c)] => rewrite (total_spent_set_spent s a c)
  | |- context [e_params (set_locked ?s ?a ?c)] => rewrite (params_set_locked s a c)
  (* sdk.Coin, sdk.Coins *)
  | |- context [Coin_Add ?a ?b] => rewrite (Coin_Add_model a b)
  | |- context [Coin_Sub ?a ?b] => rewrite (Coin_Sub_model a b) by eside
  | |- context [sdk_NewCoin ?d ?a] => rewrite (NewCoin_ok d a) by eside
  | |- context [sdk_NewCoins1 ?c] => first [ rewrite (NewCoins1_ok c) by eside | rewrite (NewCoins1_split c) ]
  | |- context [Coins_SafeSub1 ?cs go_zero_coin] => rewrite (SafeSub1_zero_coin cs)
  | |- context [Coins_SafeSub1 ?cs ?c] => rewrite (SafeSub1_ok cs c) by eside
  | |- context [coins_hasneg (one_coins ?l) ?c] => rewrite (hasneg_one l c) by eside
  | |- context [coins_hasneg (Coins_add1 (bank_SpendableCoins (mk_eworld ?n ?b ?s) ?a) ?l) ?c] =>
      rewrite (hasneg_potential n b s a l c) by eside
  | |- context [Coins_AmountOf ?f ?d] => rewrite (AmountOf_fee f d)
  | |- context [Coins_Find ?f ?d] => rewrite (Find_fee f d)
  | |- context [Coins_AddAll ?sp (one_coins ?l)] => rewrite (AddAll_one sp l) by eside
  | |- context [Coins_Empty (one_coins ?c)] => rewrite (Empty_one c) by eside
  (* x/bank *)
  | |- context [bank_MintCoins (mk_eworld ?n ?b ?s) ?m (one_coins ?c)] => rewrite (MintCoins_one n b s m c) by eside
  | |- context [bank_SendCoinsFromModuleToAccount (mk_eworld ?n ?b ?s) ?m ?a (one_coins ?c)] =>
      rewrite (SendM2A_one n b s m a c) by eside
  | |- context [bank_DelegateCoinsFromAccountToModule (mk_eworld ?n ?b ?s) ?a ?m (one_coins ?c)] =>
      rewrite (Delegate_one n b s a m c) by eside
  | |- context [bank_UndelegateCoinsFromModuleToAccount (mk_eworld ?n ?b ?s) ENT_MACC ?a (one_coins ?c)] =>
      rewrite (Undelegate_one n b s a c) by eside
  | |- context [bank_UndelegateCoinsFromModuleToAccount (mk_eworld ?n ?b ?s) ENT_MACC ?a ?fee] =>
      rewrite (Undelegate_fee n b s a fee)
  | |- context [bank_mint ?b ?m ?d ?a] => rewrite (bank_mint_neg b m d a) by eside
  end.

(* a call whose result is not yet known: nothing inside it is left to split on *)
Ltac eatomic o :=
  lazymatch o with
  | Ok _ => fail | Err _ => fail | Panic _ => fail
  | context [obind _ _] => fail
  | context [eblift _ _] => fail
  | context [slift _ _] => fail
  | context [if _ then _ else _] => fail
  | context [match _ with Some _ => _ | None => _ end] => fail
  | context [match _ with pair _ _ => _ end] => fail
  | _ => idtac
  end.

(* split on the leftmost innermost atom of a test *)
Ltac split_on c :=
  lazymatch c with
  | negb ?x => split_on x
  | andb ?x _ => split_on x
  | orb ?x _ => split_on x
  | context [if ?y then _ else _] => split_on y
  | context [match ?y with Some _ => _ | None => _ end] => destruct y eqn:?
  | _ => destruct c eqn:?
  end.

Ltac esplit :=
  match goal with
  | |- context [if ?c then _ else _] => split_on c
  | |- context [match ?x with Some _ => _ | None => _ end] => destruct x eqn:?
  | |- context [slift _ ?o] => eatomic o; destruct o as [?|?|?] eqn:?
  | |- context [eblift _ ?o] => eatomic o; destruct o as [[? ?]|?|?] eqn:?
  | |- context [obind ?o _] => eatomic o; destruct o as [?|?|?] eqn:?
  end; try (exfalso; solve [ cbn [fst snd] in *; tnorm; efacts; tnorm; cbv beta in *; prop_tests; first [ lia | congruence ] ]).

(* calls of generated functions already proved equal to the model: extended below, as the theorems become available *)
Ltac ecall := fail.

Ltac estep := first [ progress tnorm | progress enorm | eunfold | eknown | ecall | eprim | esplit ].
Ltac ewalk := repeat estep.

(* ------------------------------------------------------------------------------------------ *)
(* part 3: the functions of locked.go                                                         *)
(* ------------------------------------------------------------------------------------------ *)

(* 0. sendCoinsFromModuleToAccount, for the one use the translated code makes of it *)
Lemma gen_ent_sendCoins_one : forall n b s (a : addr) (c : go_coin), 0 < snd c ->
  go_sendCoinsFromModuleToAccount (mk_eworld n b s) a (one_coins c) =
    do b1 <- bank_send_m2a b ENT_MACC a (fst c) (snd c); Ok (mk_eworld n b1 s, tt).
Proof.
  intros n b s a c Hc. unfold go_sendCoinsFromModuleToAccount. ewalk; reflexivity.
Qed.

(* 1. incrementLockedUnd: no hypothesis *)
Theorem gen_ent_incrementLockedUnd_eq : forall w (a : addr) (c : coin),
  go_incrementLockedUnd w a c = slift w (increment_locked (ew_ent w) a c).
Proof.
  intros [n b s] a c. unfold go_incrementLockedUnd, increment_locked. ewalk; reflexivity.
Qed.

(* 2. incrementSpentEFUND: no hypothesis *)
Theorem gen_ent_incrementSpentEFUND_eq : forall w (a : addr) (c : coin),
  go_incrementSpentEFUND w a c = slift w (increment_spent (ew_ent w) a c).
Proof.
  intros [n b s] a c. unfold go_incrementSpentEFUND, increment_spent. ewalk; reflexivity.
Qed.

Ltac ecall ::=
  match goal with
  | |- context [go_sendCoinsFromModuleToAccount (mk_eworld ?n ?b ?s) ?a (one_coins ?c)] =>
      rewrite (gen_ent_sendCoins_one n b s a c) by eside
  | |- context [go_incrementLockedUnd (mk_eworld ?n ?b ?s) ?a ?c] =>
      rewrite (gen_ent_incrementLockedUnd_eq (mk_eworld n b s) a c)
  | |- context [go_incrementSpentEFUND (mk_eworld ?n ?b ?s) ?a ?c] =>
      rewrite (gen_ent_incrementSpentEFUND_eq (mk_eworld n b s) a c)
  end.

(* 3. decrementLockedUnd.  sdk.NewCoins panics on a negative stored amount and Coins.SafeSub on a negative or
   zero-value argument, none of which the model looks at: hence the four hypotheses (necessity: part 6). *)
Theorem gen_ent_decrementLockedUnd_eq : forall w (a : addr) (c : coin),
  0 <= snd (locked_coin (ew_ent w) a) -> 0 <= snd (total_locked (ew_ent w)) ->
  fst c <> go_zero_denom -> 0 <= snd c ->
  go_decrementLockedUnd w a c = slift w (decrement_locked (ew_ent w) a c).
Proof.
  intros [n b s] a c Hl Ht Hd Hc. cbn [ew_ent] in Hl, Ht.
  unfold go_decrementLockedUnd, decrement_locked. ewalk; reflexivity.
Qed.

(* 4. MintCoinsAndLock: no hypothesis (a negative amount panics with "invalid coin set" in sdk.NewCoins, where the model's
   bank_mint panics with the same code) *)
Theorem gen_ent_MintCoinsAndLock_eq : forall w (a : addr) (c : coin),
  go_MintCoinsAndLock w a c = eblift w (mint_and_lock (ew_bank w) (ew_ent w) a c).
Proof.
  intros [n b s] a c. unfold go_MintCoinsAndLock, mint_and_lock. ewalk; reflexivity.
Qed.

Ltac ecall ::=
  match goal with
  | |- context [go_sendCoinsFromModuleToAccount (mk_eworld ?n ?b ?s) ?a (one_coins ?c)] =>
      rewrite (gen_ent_sendCoins_one n b s a c) by eside
  | |- context [go_incrementLockedUnd (mk_eworld ?n ?b ?s) ?a ?c] =>
      rewrite (gen_ent_incrementLockedUnd_eq (mk_eworld n b s) a c)
  | |- context [go_incrementSpentEFUND (mk_eworld ?n ?b ?s) ?a ?c] =>
      rewrite (gen_ent_incrementSpentEFUND_eq (mk_eworld n b s) a c)
  | |- context [go_decrementLockedUnd (mk_eworld ?n ?b ?s) ?a ?c] =>
      rewrite (gen_ent_decrementLockedUnd_eq (mk_eworld n b s) a c) by eside
  end.

(* 5. UnlockCoinsForFees.  Hypotheses (necessity of each: part 6):
     - the enterprise denomination and the denomination of the payer's locked entry are not the empty string (else the
       generated code panics in Coins.SafeSub where the model goes on);
     - the payer has a positive locked amount (the ante decorator calls the function only when IsLocked) and the total is
       not negative (sdk.NewCoins panics on a negative amount; for a zero locked amount the two sides differ as data when
       the liquid balance alone covers the fee: the model's bank_send of 0 rewrites two balances, x/bank moves nothing);
     - no fee amount is negative (implied by sdk.Coins.IsValid, which also gives distinct denominations and positive
       amounts: neither is needed here);
     - the balance table has one row per (account, denomination): SpendableCoins lists rows, the model reads the first. *)
Theorem gen_ent_UnlockCoinsForFees_eq : forall w (payer : addr) (fee : list coin),
  ep_denom (e_params (ew_ent w)) <> go_zero_denom ->
  fst (locked_coin (ew_ent w) payer) <> go_zero_denom ->
  0 < snd (locked_coin (ew_ent w) payer) ->
  0 <= snd (total_locked (ew_ent w)) ->
  Forall (fun c => 0 <= snd c) fee ->
  bank_wf (ew_bank w) ->
  go_UnlockCoinsForFees w payer fee = eblift w (unlock_for_fees (ew_bank w) (ew_ent w) payer fee).
Proof.
  intros [n b s] payer fee Hd Hld Hl Ht Hfee Wf. cbn [ew_ent ew_bank] in *.
  pose proof (fee_amount_nonneg fee (ep_denom (e_params s)) Hfee) as Hf.
  unfold go_UnlockCoinsForFees, unlock_for_fees. ewalk; reflexivity.
Qed.

(* ------------------------------------------------------------------------------------------ *)
(* part 4: over the worlds of model/EnterpriseSpec.v; theorems about the model, transported   *)
(* ------------------------------------------------------------------------------------------ *)

Definition eworld_of_ent (w : ent_world) : eworld := mk_eworld (w_now w * NSEC) (w_bank w) (w_ent w).   (* w_now: unix seconds *)

(* the fee-unlock step of model/EnterpriseSpec.v ([ent_step w (OUnlock payer fee)]) with the generated code in the place
   of the model: a failed ante stage leaves the world as it was *)
Definition go_unlock_step (w : ent_world) (payer : addr) (fee : list coin) : ent_world :=
  match go_UnlockCoinsForFees (eworld_of_ent w) payer fee with
  | Ok (w', _) => {| w_bank := ew_bank w'; w_ent := ew_ent w'; w_now := w_now w |}
  | _ => w
  end.

(* the invariant gives every hypothesis of gen_ent_UnlockCoinsForFees_eq but two *)
Lemma ent_inv_unlock_hyps w payer (fee : list coin) :
  ent_inv w -> Forall (fun c => 0 < snd c) fee ->
  ep_denom (e_params (w_ent w)) <> go_zero_denom /\
  fst (locked_coin (w_ent w) payer) <> go_zero_denom /\
  0 <= snd (total_locked (w_ent w)) /\
  Forall (fun c => 0 <= snd c) fee.
Proof.
  intros I P. pose proof (inv_s _ I) as Is.
  assert (D : 0 <= ep_denom (e_params (w_ent w))).
  { pose proof (si_params _ _ Is) as V. unfold ent_params_valid in V.
    repeat (apply andb_true_iff in V; destruct V as [V ?]). lia. }
  pose proof (locked_coin_ok _ _ payer Is) as [L1 _]. pose proof (si_tl _ _ Is) as [_ T2].
  unfold dn in *. unfold go_zero_denom. tnorm. split; [lia|]. split; [rewrite L1; lia|]. split; [lia|].
  revert P. apply Forall_impl. intros c. lia.
Qed.

Theorem gen_ent_UnlockCoinsForFees_eq_inv : forall w payer (fee : list coin),
  ent_inv w -> Forall (fun c => 0 < snd c) fee ->
  bank_wf (w_bank w) -> 0 < snd (locked_coin (w_ent w) payer) ->
  go_UnlockCoinsForFees (eworld_of_ent w) payer fee = eblift (eworld_of_ent w) (unlock_for_fees (w_bank w) (w_ent w) payer fee).
Proof.
  intros w payer fee I P Wf Hl. destruct (ent_inv_unlock_hyps w payer fee I P) as (H1 & H2 & H3 & H4).
  exact (gen_ent_UnlockCoinsForFees_eq (eworld_of_ent w) payer fee H1 H2 Hl H3 H4 Wf).
Qed.

Theorem gen_unlock_step_eq : forall w payer fee,
  ent_inv w -> ent_op_wf w (OUnlock payer fee) ->
  bank_wf (w_bank w) -> 0 < snd (locked_coin (w_ent w) payer) ->
  ent_step w (OUnlock payer fee) = Some (go_unlock_step w payer fee).
Proof.
  intros w payer fee I (_ & P & _) Wf Hl. unfold go_unlock_step.
  rewrite (gen_ent_UnlockCoinsForFees_eq_inv w payer fee I P Wf Hl). cbn [ent_step].
  destruct (unlock_for_fees (w_bank w) (w_ent w) payer fee) as [[b' s']| |]; reflexivity.
Qed.

(* C04 (props/C04.v: C04_unlock_exact_cases), for the generated code *)
Theorem gen_unlock_exact_cases : forall w payer fee w',
  ent_inv w -> ent_op_wf w (OUnlock payer fee) ->
  bank_wf (w_bank w) -> 0 < snd (locked_coin (w_ent w) payer) ->
  go_unlock_step w payer fee = w' ->
  let d := ep_denom (e_params (w_ent w)) in
  let L := amount_coin (w_ent w) payer (e_locked (w_ent w)) in
  let f := fee_amount_of fee d in
  let liquid := balance (w_bank w) payer d in
  (fee_find fee d = None -> w' = w) /\
  (fee_find fee d <> None -> f <= L -> fee = [(d, f)] -> unlocked w w' payer f) /\
  (fee_find fee d <> None -> f <= L -> fee <> [(d, f)] -> w' = w) /\
  (fee_find fee d <> None -> L < f <= liquid + L -> unlocked w w' payer L) /\
  (fee_find fee d <> None -> L < f -> liquid + L < f -> w' = w).
Proof.
  intros w payer fee w' I W Wf Hl E. apply (unlock_cases w payer fee w' I W).
  rewrite (gen_unlock_step_eq w payer fee I W Wf Hl), E. reflexivity.
Qed.

(* the outcomes themselves, for the two ways the ante stage fails *)
Theorem gen_unlock_failures : forall w payer fee,
  ent_inv w -> ent_op_wf w (OUnlock payer fee) ->
  bank_wf (w_bank w) -> 0 < snd (locked_coin (w_ent w) payer) ->
  let d := ep_denom (e_params (w_ent w)) in
  (fee_find fee d = None -> go_UnlockCoinsForFees (eworld_of_ent w) payer fee = Panic PANIC_NILCOIN) /\
  (fee_find fee d <> None -> fee_amount_of fee d <= snd (locked_coin (w_ent w) payer) ->
   fee <> [(d, fee_amount_of fee d)] ->
   exists c, go_UnlockCoinsForFees (eworld_of_ent w) payer fee = Err c \/
             go_UnlockCoinsForFees (eworld_of_ent w) payer fee = Panic c).
Proof.
  intros w payer fee I W Wf Hl. cbv zeta. destruct W as (Hp & P & ND).
  rewrite (gen_ent_UnlockCoinsForFees_eq_inv w payer fee I P Wf Hl). split.
  - intros Fi. unfold unlock_for_fees. cbv zeta. rewrite Fi. reflexivity.
  - intros Fi Hf Nfee.
    destruct (unlock_for_fees (w_bank w) (w_ent w) payer fee) as [[b' s']|c|c] eqn:E; cbn [eblift]; eauto.
    exfalso. apply (unlock_ok_inv (w_now w)) in E; auto using inv_s, inv_escrow0.
    cbv zeta in E. unfold dn in E.
    destruct E as (_ & [(_ & Efee & _)|[(C & _)|(C & _)]]); [exact (Nfee Efee)|lia|lia].
Qed.

(* C04 (props/C04.v: C04_books_balance_inv), after a fee unlock by the generated code *)
Theorem gen_unlock_preserves_inv : forall w payer fee,
  ent_inv w -> ent_op_wf w (OUnlock payer fee) ->
  bank_wf (w_bank w) -> 0 < snd (locked_coin (w_ent w) payer) ->
  ent_inv (go_unlock_step w payer fee).
Proof.
  intros w payer fee I W Wf Hl.
  exact (ent_inv_unlock w payer fee _ I W (gen_unlock_step_eq w payer fee I W Wf Hl)).
Qed.

Theorem gen_unlock_books_balance : forall w payer fee,
  ent_inv w -> ent_op_wf w (OUnlock payer fee) ->
  bank_wf (w_bank w) -> 0 < snd (locked_coin (w_ent w) payer) ->
  let w' := go_unlock_step w payer fee in
  let s := w_ent w' in
  let d := ep_denom (e_params s) in
  balance (w_bank w') ENT_MACC d = snd (total_locked s) /\
  snd (total_locked s) = asum snd (e_locked s) /\
  snd (total_spent s) = asum snd (e_spent s) /\
  (forall a, amount_coin s a (e_locked s) + amount_coin s a (e_spent s) = completed_sum s a) /\
  (forall d', d' <> d -> balance (w_bank w') ENT_MACC d' = 0) /\
  fst (total_locked s) = d /\ fst (total_spent s) = d /\
  0 <= snd (total_locked s) /\ 0 <= snd (total_spent s) /\
  (forall a c, aget a (e_locked s) = Some c -> fst c = d /\ 0 <= snd c) /\
  (forall a c, aget a (e_spent s) = Some c -> fst c = d /\ 0 <= snd c).
Proof.
  intros w payer fee I W Wf Hl. exact (books_balance _ (gen_unlock_preserves_inv w payer fee I W Wf Hl)).
Qed.

(* MintCoinsAndLock by the generated code (proofs/EnterpriseProofs.v: mint_and_lock_ok, mint_and_lock_inv): it succeeds,
   every minted coin sits in the escrow account and is booked as locked for the recipient, whose spendable balance does not
   move; escrow = total locked ([binv]) is kept *)
Theorem gen_mint_and_lock_succeeds : forall w (a : addr) amt,
  let b := ew_bank w in let s := ew_ent w in
  0 < amt -> 0 <= a -> coin_ok (dn s) (locked_coin s a) -> coin_ok (dn s) (total_locked s) ->
  0 <= balance b a (dn s) -> 0 <= balance b ENT_MACC (dn s) ->
  exists b', go_MintCoinsAndLock w a (dn s, amt) = Ok (mk_eworld (ew_now w) b' (lock_state s a amt), tt).
Proof.
  intros w a amt. cbv zeta. intros Pa Ha L T Nn Ne. rewrite gen_ent_MintCoinsAndLock_eq.
  destruct (mint_and_lock_ok (ew_bank w) (ew_ent w) a amt Pa Ha L T Nn Ne) as (b' & E).
  exists b'. rewrite E. reflexivity.
Qed.

Theorem gen_mint_and_lock_books : forall w (a : addr) amt w',
  let b := ew_bank w in let s := ew_ent w in
  0 < amt -> 0 <= a -> coin_ok (dn s) (locked_coin s a) -> coin_ok (dn s) (total_locked s) -> binv b s ->
  go_MintCoinsAndLock w a (dn s, amt) = Ok (w', tt) ->
  let b' := ew_bank w' in let s' := ew_ent w' in
  binv b' s' /\
  s' = lock_state s a amt /\
  snd (locked_coin s' a) = snd (locked_coin s a) + amt /\
  snd (total_locked s') = snd (total_locked s) + amt /\
  (forall x, x <> a -> aget x (e_locked s') = aget x (e_locked s)) /\
  e_spent s' = e_spent s /\ e_totspent s' = e_totspent s /\
  (forall x d', balance b' x d' = balance b x d' + (if (x =? ENT_MACC) && (d' =? dn s) then amt else 0)) /\
  (forall d', supply_of b' d' = supply_of b d' + (if d' =? dn s then amt else 0)).
Proof.
  intros w a amt w'. cbv zeta. intros Pa Ha L T [B1 B2] H. rewrite gen_ent_MintCoinsAndLock_eq in H.
  destruct (mint_and_lock (ew_bank w) (ew_ent w) a (dn (ew_ent w), amt)) as [[b' s']| |] eqn:E; try discriminate.
  cbn [eblift] in H. injection H as <-. cbn [ew_bank ew_ent].
  destruct (mint_and_lock_inv _ _ _ _ _ _ Pa Ha L T E) as (-> & Mb & Ms).
  set (s := ew_ent w) in *.
  assert (Dn : dn (lock_state s a amt) = dn s) by reflexivity.
  assert (Tl : total_locked (lock_state s a amt) = (dn s, snd (total_locked s) + amt)) by reflexivity.
  assert (Lc : locked_coin (lock_state s a amt) a = (dn s, snd (locked_coin s a) + amt)).
  { unfold locked_coin, lock_state at 1. cbn [with_books e_locked]. rewrite aget_aset_eq. reflexivity. }
  split; [|split; [reflexivity|]].
  - split.
    + rewrite Dn, Tl, Mb, !Z.eqb_refl. cbn [andb snd]. lia.
    + intros d N. rewrite Dn in N. rewrite Mb, (B2 _ N). destruct (Z.eqb_spec d (dn s)); [contradiction|].
      rewrite andb_false_r. lia.
  - rewrite Lc, Tl. cbn [snd]. repeat split; try reflexivity; auto.
    intros x N. unfold lock_state. cbn [with_books e_locked]. apply aget_aset_neq. congruence.
Qed.

(* ------------------------------------------------------------------------------------------ *)
(* part 5: a concrete world                                                                   *)
(* ------------------------------------------------------------------------------------------ *)

Definition xe_state (d : denom) (locked spent : amap addr coin) (tl ts : option coin) : ent_state :=
  {| e_params := {| ep_denom := d; ep_min_accepts := 1; ep_time_limit := 100; ep_signers := [9] |};
     e_next := 1; e_pos := []; e_raisedq := []; e_acceptedq := []; e_wl := [];
     e_locked := locked; e_spent := spent; e_totlocked := tl; e_totspent := ts |}.

(* account 7 holds 100 nund, nothing is locked, the escrow is empty *)
Definition xe_now : Z := 1700000000 * NSEC.
Definition xe_bank0 : bank := {| bal := [((7, NUND), 100)]; supply := [(NUND, 100)] |}.
Definition xe_w0 : eworld := mk_eworld xe_now xe_bank0 (xe_state NUND [] [] None None).

(* (locked[7], spent[7], total locked, total spent, escrow, liquid balance of 7, supply) *)
Definition xe_obs (w : eworld) : Z * Z * Z * Z * Z * Z * Z :=
  (snd (locked_coin (ew_ent w) 7), snd (spent_coin (ew_ent w) 7),
   snd (total_locked (ew_ent w)), snd (total_spent (ew_ent w)),
   balance (ew_bank w) ENT_MACC NUND, balance (ew_bank w) 7 NUND, supply_of (ew_bank w) NUND).

Definition xe_after {A} (o : outcome (eworld * A)) : eworld :=
  match o with Ok (w, _) => w | _ => xe_w0 end.

(* the world after MintCoinsAndLock of 50 nund for account 7 *)
Definition xe_w1 : eworld := xe_after (go_MintCoinsAndLock xe_w0 7 (NUND, 50)).

Lemma bank_wf_rows (rows : amap (addr * denom) Z) sup :
  NoDup (akeys rows) -> bank_wf {| bal := rows; supply := sup |}.
Proof. intros H; exact H. Qed.

Lemma xe_w1_hyps :
  ep_denom (e_params (ew_ent xe_w1)) <> go_zero_denom /\ fst (locked_coin (ew_ent xe_w1) 7) <> go_zero_denom /\
  0 < snd (locked_coin (ew_ent xe_w1) 7) /\ 0 <= snd (total_locked (ew_ent xe_w1)) /\ bank_wf (ew_bank xe_w1).
Proof.
  split; [vm_compute; intro X; discriminate X|]. split; [vm_compute; intro X; discriminate X|].
  split; [reflexivity|]. split; [vm_compute; intro X; discriminate X|].
  vm_compute. repeat constructor; cbn [In]; intros X; repeat (destruct X as [X|X]; [discriminate X|]); exact X.
Qed.

(* ------------------------------------------------------------------------------------------ *)
(* part 6: the hypotheses cannot be dropped                                                   *)
(* ------------------------------------------------------------------------------------------ *)

Ltac absurd_eq := let X := fresh "X" in intro X; discriminate X.
Ltac absurd_in := let X := fresh "X" in intros X; repeat (destruct X as [X|X]; [discriminate X|]); exact X.
Ltac refute :=
  repeat split;
  first [ reflexivity
        | solve [ vm_compute; absurd_eq ]
        | solve [ vm_compute; repeat constructor; cbn [In snd]; first [ absurd_eq | absurd_in ] ] ].

(* --- decrementLockedUnd --- *)
(* a negative stored amount: sdk.NewCoins panics ("invalid coin set"), the model resets the entry *)
Example gen_decrement_negative_locked_refuted :
  let w := mk_eworld xe_now xe_bank0 (xe_state NUND [(7, (NUND, -1))] [] (Some (NUND, 5)) None) in
  let c := (NUND, 1) in
  0 <= snd (total_locked (ew_ent w)) /\ fst c <> go_zero_denom /\ 0 <= snd c /\
  go_decrementLockedUnd w 7 c = Panic GO_PANIC_COINS /\
  go_decrementLockedUnd w 7 c <> slift w (decrement_locked (ew_ent w) 7 c).
Proof. cbv zeta. refute. Qed.

Example gen_decrement_negative_total_refuted :
  let w := mk_eworld xe_now xe_bank0 (xe_state NUND [(7, (NUND, 5))] [] (Some (NUND, -3)) None) in
  let c := (NUND, 1) in
  0 <= snd (locked_coin (ew_ent w) 7) /\ fst c <> go_zero_denom /\ 0 <= snd c /\
  go_decrementLockedUnd w 7 c = Panic GO_PANIC_COINS /\
  go_decrementLockedUnd w 7 c <> slift w (decrement_locked (ew_ent w) 7 c).
Proof. cbv zeta. refute. Qed.

(* the zero value Coin{}: Coins.SafeSub dereferences its nil amount *)
Example gen_decrement_zero_value_coin_refuted :
  let w := mk_eworld xe_now xe_bank0 (xe_state NUND [(7, (NUND, 5))] [] (Some (NUND, 5)) None) in
  let c := go_zero_coin in
  0 <= snd (locked_coin (ew_ent w) 7) /\ 0 <= snd (total_locked (ew_ent w)) /\ 0 <= snd c /\
  go_decrementLockedUnd w 7 c = Panic GO_PANIC_NILCOIN /\
  go_decrementLockedUnd w 7 c <> slift w (decrement_locked (ew_ent w) 7 c).
Proof. cbv zeta. refute. Qed.

Example gen_decrement_negative_amount_refuted :
  let w := mk_eworld xe_now xe_bank0 (xe_state NUND [(7, (NUND, 5))] [] (Some (NUND, 5)) None) in
  let c := (NUND, -1) in
  0 <= snd (locked_coin (ew_ent w) 7) /\ 0 <= snd (total_locked (ew_ent w)) /\ fst c <> go_zero_denom /\
  go_decrementLockedUnd w 7 c = Panic GO_PANIC_COINS /\
  go_decrementLockedUnd w 7 c <> slift w (decrement_locked (ew_ent w) 7 c).
Proof. cbv zeta. refute. Qed.

(* --- UnlockCoinsForFees --- *)
Definition unlock_differs (w : eworld) (payer : addr) (fee : list coin) : Prop :=
  go_UnlockCoinsForFees w payer fee <> eblift w (unlock_for_fees (ew_bank w) (ew_ent w) payer fee).

(* the enterprise denomination is the empty string and so is the fee's: the generated code takes the coin it finds for the
   zero value Coin{} and panics; the model goes on *)
Example gen_unlock_blank_denom_refuted :
  let w := mk_eworld xe_now xe_bank0 (xe_state go_zero_denom [(7, (NUND, 5))] [] (Some (NUND, 5)) None) in
  let fee := [(go_zero_denom, 3)] in
  fst (locked_coin (ew_ent w) 7) <> go_zero_denom /\ 0 < snd (locked_coin (ew_ent w) 7) /\
  0 <= snd (total_locked (ew_ent w)) /\ Forall (fun c => 0 <= snd c) fee /\ bank_wf (ew_bank w) /\
  go_UnlockCoinsForFees w 7 fee = Panic GO_PANIC_NILCOIN /\ unlock_differs w 7 fee.
Proof. cbv zeta. unfold unlock_differs. refute. Qed.

(* the payer's locked entry carries the empty denomination: decrementLockedUnd panics in Coins.SafeSub *)
Example gen_unlock_blank_locked_denom_refuted :
  let w := mk_eworld xe_now {| bal := [((7, NUND), 100); ((ENT_MACC, go_zero_denom), 5)]; supply := [] |}
                     (xe_state NUND [(7, (go_zero_denom, 5))] [] (Some (NUND, 5)) None) in
  let fee := [(NUND, 7)] in
  ep_denom (e_params (ew_ent w)) <> go_zero_denom /\ 0 < snd (locked_coin (ew_ent w) 7) /\
  0 <= snd (total_locked (ew_ent w)) /\ Forall (fun c => 0 <= snd c) fee /\ bank_wf (ew_bank w) /\
  go_UnlockCoinsForFees w 7 fee = Panic GO_PANIC_NILCOIN /\ unlock_differs w 7 fee.
Proof. cbv zeta. unfold unlock_differs. refute. Qed.

(* nothing locked, the liquid balance covers the fee: both sides succeed and agree on every balance, but the model's
   bank_send of 0 nund writes a (zero) escrow row that x/bank, given the empty Coins, does not *)
Example gen_unlock_zero_locked_refuted :
  let w := xe_w0 in
  let fee := [(NUND, 30)] in
  ep_denom (e_params (ew_ent w)) <> go_zero_denom /\ fst (locked_coin (ew_ent w) 7) <> go_zero_denom /\
  0 <= snd (locked_coin (ew_ent w) 7) /\
  0 <= snd (total_locked (ew_ent w)) /\ Forall (fun c => 0 <= snd c) fee /\ bank_wf (ew_bank w) /\
  (exists w1 b2 s2, go_UnlockCoinsForFees w 7 fee = Ok (w1, tt) /\
                    unlock_for_fees (ew_bank w) (ew_ent w) 7 fee = Ok (b2, s2) /\
                    ew_ent w1 = s2 /\ bal (ew_bank w1) = [((7, NUND), 100)] /\
                    bal b2 = [((7, NUND), 100); ((ENT_MACC, NUND), 0)]) /\
  unlock_differs w 7 fee.
Proof.
  cbv zeta. unfold unlock_differs. repeat split; try solve [refute].
  eexists. eexists. eexists. split; [vm_compute; reflexivity|]. split; [vm_compute; reflexivity|].
  split; [reflexivity|]. split; reflexivity.
Qed.

(* a negative locked amount: sdk.NewCoins panics first (1); for a fee without the enterprise denomination the model
   panics with 22 *)
Example gen_unlock_negative_locked_refuted :
  let w := mk_eworld xe_now xe_bank0 (xe_state NUND [(7, (NUND, -1))] [] (Some (NUND, 5)) None) in
  let fee := [(17, 3)] in
  ep_denom (e_params (ew_ent w)) <> go_zero_denom /\ fst (locked_coin (ew_ent w) 7) <> go_zero_denom /\
  0 <= snd (total_locked (ew_ent w)) /\ Forall (fun c => 0 <= snd c) fee /\ bank_wf (ew_bank w) /\
  go_UnlockCoinsForFees w 7 fee = Panic GO_PANIC_COINS /\
  eblift w (unlock_for_fees (ew_bank w) (ew_ent w) 7 fee) = Panic PANIC_NILCOIN /\ unlock_differs w 7 fee.
Proof. cbv zeta. unfold unlock_differs. refute. Qed.

Example gen_unlock_negative_total_refuted :
  let w := mk_eworld xe_now {| bal := [((7, NUND), 100); ((ENT_MACC, NUND), 5)]; supply := [] |}
                     (xe_state NUND [(7, (NUND, 5))] [] (Some (NUND, -3)) None) in
  let fee := [(NUND, 3)] in
  ep_denom (e_params (ew_ent w)) <> go_zero_denom /\ fst (locked_coin (ew_ent w) 7) <> go_zero_denom /\
  0 < snd (locked_coin (ew_ent w) 7) /\ Forall (fun c => 0 <= snd c) fee /\ bank_wf (ew_bank w) /\
  go_UnlockCoinsForFees w 7 fee = Panic GO_PANIC_COINS /\ unlock_differs w 7 fee.
Proof. cbv zeta. unfold unlock_differs. refute. Qed.

(* a negative fee amount: sdk.NewCoin panics ("negative coin amount", 4), the model's bank_send panics with 1 *)
Example gen_unlock_negative_fee_refuted :
  let w := mk_eworld xe_now xe_bank0 (xe_state NUND [(7, (NUND, 5))] [] (Some (NUND, 5)) None) in
  let fee := [(NUND, -2)] in
  ep_denom (e_params (ew_ent w)) <> go_zero_denom /\ fst (locked_coin (ew_ent w) 7) <> go_zero_denom /\
  0 < snd (locked_coin (ew_ent w) 7) /\ 0 <= snd (total_locked (ew_ent w)) /\ bank_wf (ew_bank w) /\
  go_UnlockCoinsForFees w 7 fee = Panic GO_PANIC_NEGCOIN /\
  eblift w (unlock_for_fees (ew_bank w) (ew_ent w) 7 fee) = Panic 1 /\ unlock_differs w 7 fee.
Proof. cbv zeta. unfold unlock_differs. refute. Qed.

(* two rows for (7, nund): SpendableCoins lists both (10 and 3), the model's balance reads the first.  Locked 1 < fee 5:
   the generated code finds 3 + 1 < 5 and unlocks nothing, the model finds 10 + 1 >= 5 and unlocks *)
Example gen_unlock_duplicate_rows_refuted :
  let w := mk_eworld xe_now {| bal := [((7, NUND), 10); ((7, NUND), 3); ((ENT_MACC, NUND), 1)]; supply := [] |}
                     (xe_state NUND [(7, (NUND, 1))] [] (Some (NUND, 1)) None) in
  let fee := [(NUND, 5)] in
  ep_denom (e_params (ew_ent w)) <> go_zero_denom /\ fst (locked_coin (ew_ent w) 7) <> go_zero_denom /\
  0 < snd (locked_coin (ew_ent w) 7) /\ 0 <= snd (total_locked (ew_ent w)) /\ Forall (fun c => 0 <= snd c) fee /\
  go_UnlockCoinsForFees w 7 fee = Ok (w, tt) /\ unlock_differs w 7 fee.
Proof. cbv zeta. unfold unlock_differs. refute. Qed.

(* ------------------------------------------------------------------------------------------ *)
(* part 7: the ante decorator of the application model (model/App.v) with the generated code  *)
(* ------------------------------------------------------------------------------------------ *)
From MC Require model.App model.AppSpec proofs.AppInv proofs.AppLockedProofs.

(* x/enterprise/ante CheckLockedUndDecorator ([App.unlock_ante]) calling the generated UnlockCoinsForFees *)
Definition go_unlock_ante (a : App.app) (t : App.tx) : outcome App.app :=
  if (App.is_registry_tx t && (0 <? snd (locked_coin (App.a_ent a) (App.tx_payer t))))%bool then
    do (w', _) <- go_UnlockCoinsForFees (mk_eworld (App.a_now a) (App.a_bank a) (App.a_ent a)) (App.tx_payer t) (App.tx_fee t);
    Ok (App.with_ent a (ew_bank w') (ew_ent w'))
  else Ok a.

(* under the application invariant and for a valid fee (checked earlier in the ante chain) every hypothesis of
   gen_ent_UnlockCoinsForFees_eq holds where the decorator calls the function: IsLocked is its guard *)
Theorem gen_unlock_ante_eq : forall a t,
  AppInv.app_inv a -> App.coins_valid (App.tx_fee t) = true ->
  go_unlock_ante a t = App.unlock_ante a t.
Proof.
  intros a t I Cv. unfold go_unlock_ante, App.unlock_ante.
  destruct (App.is_registry_tx t); cbn [andb]; [|reflexivity].
  destruct (0 <? snd (locked_coin (App.a_ent a) (App.tx_payer t))) eqn:Lp; [|reflexivity].
  destruct (ent_inv_unlock_hyps (AppInv.ew a) (App.tx_payer t) (App.tx_fee t) (AppInv.ai_ent a I)
              (AppInv.coins_valid_pos _ Cv)) as (H1 & H2 & H3 & H4).
  cbn [AppInv.ew w_ent w_bank] in H1, H2, H3.
  rewrite (gen_ent_UnlockCoinsForFees_eq (mk_eworld (App.a_now a) (App.a_bank a) (App.a_ent a)) (App.tx_payer t)
             (App.tx_fee t) H1 H2 ltac:(cbn [ew_ent]; lia) H3 H4 (AppInv.ai_wf a I)).
  cbn [ew_bank ew_ent].
  destruct (unlock_for_fees (App.a_bank a) (App.a_ent a) (App.tx_payer t) (App.tx_fee t)) as [[b' s']| |];
    reflexivity.
Qed.

(* C05 (proofs/AppLockedProofs.v: unlock_ante_rule, behind props/C05.v: C05_unlock_rule), for the decorator calling the
   generated code: what it unlocks is one amount u, 0 or min(fee, locked), taken from the payer's locked entry and the
   escrow and booked as spent *)
Theorem gen_unlock_ante_rule : forall a t au,
  go_unlock_ante a t = Ok au -> AppInv.app_inv a -> 0 <= App.tx_payer t -> App.coins_valid (App.tx_fee t) = true ->
  NoDup (map fst (App.tx_fee t)) -> exists u, AppLockedProofs.unlocked_by a au t u.
Proof.
  intros a t au H I Hp Cv Nd. rewrite (gen_unlock_ante_eq a t I Cv) in H.
  exact (AppLockedProofs.unlock_ante_rule a t au H I Hp Cv Nd).
Qed.

Print Assumptions gen_ent_sendCoins_one.
Print Assumptions gen_ent_incrementLockedUnd_eq.
Print Assumptions gen_ent_incrementSpentEFUND_eq.
Print Assumptions gen_ent_decrementLockedUnd_eq.
Print Assumptions gen_ent_MintCoinsAndLock_eq.
Print Assumptions gen_ent_UnlockCoinsForFees_eq.
Print Assumptions gen_ent_UnlockCoinsForFees_eq_inv.
Print Assumptions gen_unlock_step_eq.
Print Assumptions gen_unlock_exact_cases.
Print Assumptions gen_unlock_failures.
Print Assumptions gen_unlock_preserves_inv.
Print Assumptions gen_unlock_books_balance.
Print Assumptions gen_mint_and_lock_succeeds.
Print Assumptions gen_mint_and_lock_books.
Print Assumptions gen_unlock_ante_eq.
Print Assumptions gen_unlock_ante_rule.
Print Assumptions gen_decrement_negative_locked_refuted.
Print Assumptions gen_decrement_negative_total_refuted.
Print Assumptions gen_decrement_zero_value_coin_refuted.
Print Assumptions gen_decrement_negative_amount_refuted.
Print Assumptions gen_unlock_blank_denom_refuted.
Print Assumptions gen_unlock_blank_locked_denom_refuted.
Print Assumptions gen_unlock_zero_locked_refuted.
Print Assumptions gen_unlock_negative_locked_refuted.
Print Assumptions gen_unlock_negative_total_refuted.
Print Assumptions gen_unlock_negative_fee_refuted.
Print Assumptions gen_unlock_duplicate_rows_refuted.
