(* CAPSTONE of the store layer of x/beacon: the keeper and message server of
   /repo/x/beacon/keeper/{register,record,msg_server}.go rendered over the BYTE-LEVEL store
   (GeneratedBeaconKeeperOnStore.v: world [bsworld] of model/BeaconStoreWorld.v, store access through the GENERATED
   accessors of GeneratedBeaconStore.v and the GENERATED key builders) simulates the rendering over the hand-written
   primitives (GeneratedBeaconKeeper.v: world [rworld] of model/RegistryWorld.v + model/BeaconKeeperPrims.v), about which
   C07 / C08 / C09 are proved (proofs/GeneratedBeaconEq.v, proofs/GeneratedBeaconValidateEq.v).

   Rw w ws   - the byte-level world ws represents the abstract world w: same block time, same wall clock, and
               Rreg (bsw_store ws) (rw_reg w) (proofs/GeneratedBeaconStoreRefines.v).
   lowest_ok - every stored registration has its FirstIdInState (rg_lowest) in uint64.  It is NOT part of Rreg (the
               store holds the Beacon struct as a value, its fields are not encoded), and it is needed: the keeper
               hands that field to deleteBeaconTimestamp as a KEY component.  Every function below preserves it.
   Rwi w ws  - Rw w ws /\ lowest_ok (rw_reg w): what the simulation carries.
   sim a c   - the two results agree: Ok/Ok with Rwi-related worlds and EQUAL values, Err/Err and Panic/Panic with
               equal codes.
   Side conditions (all hold for anything decoded from a protobuf uint64): the BEACON id of a message / argument is in
   uint64; MsgUpdateParams carries non-negative uint64 fields and a well-formed or blank denomination (otherwise the
   two SetParams answer with different error CODES: C18_store_beacon_refines_SetParams_code_refuted).
   No bound on the counters is needed: u64_add wraps on both sides alike.

   part 1  the relation, sim, the "bind" library;
   part 2  every adapter of model/BeaconStoreWorld.v simulates its primitive;
   part 3  a tactic walking two bodies of the same shape; the four keeper functions; the three handlers + UpdateParams;
   part 4  messages, ValidateBasic, histories;
   part 5  C07 / C08 / C09 transported to the on-store rendering;
   part 6  a concrete run. *)
From MC Require Import lib.Prelude lib.AMap lib.GoSdk GeneratedBeaconTypes model.Bank model.Registry model.RegistrySpec
  model.Genesis model.Keys model.KVStore model.StoreCodecPrims model.BeaconKeeperPrims model.BeaconStoreWorld model.BeaconGenSpec
  GeneratedKeys GeneratedBeaconStore.
From MC Require GeneratedBeaconKeeper GeneratedBeaconKeeperOnStore.
From MC Require Import proofs.RegistryProofs proofs.GeneratedBeaconEq proofs.GeneratedBeaconValidateEq
  proofs.GeneratedBeaconParamsEq proofs.GeneratedBeaconStoreEq proofs.GeneratedBeaconStoreRefines.
From Coq Require Import NArith ZArith List Bool Lia String.
Import ListNotations.
Local Open Scope Z_scope.

(* the two renderings, by short names; never imported *)
Module K := MC.GeneratedBeaconKeeper.
Module S := MC.GeneratedBeaconKeeperOnStore.

(* the two notions of "fits a uint64" in use are one *)
Notation u64 := GeneratedBeaconStoreRefines.u64.

Lemma u64_spec x : u64 x <-> RegistrySpec.u64 x.
Proof. unfold u64, RegistrySpec.u64. assert (E : 2 ^ 64 = two64) by reflexivity. rewrite E. reflexivity. Qed.

Lemma u64_range x : u64 x -> 0 <= x < two64.
Proof. intros H. apply u64_spec in H. exact H. Qed.
Lemma u64_of_range x : 0 <= x < two64 -> u64 x.
Proof. intros H. apply u64_spec. exact H. Qed.

Lemma obind_Ok {A B} (x : A) (f : A -> outcome B) : obind (Ok x) f = f x.
Proof. reflexivity. Qed.

Lemma u64_wrap x : u64 (wrap64 x).
Proof.
  unfold u64, wrap64. assert (E : 2 ^ 64 = two64) by reflexivity. rewrite E.
  apply Z.mod_pos_bound. reflexivity.
Qed.
Lemma u64_add_ok a b : u64 (u64_add a b). Proof. apply u64_wrap. Qed.
Lemma u64_sub_ok a b : u64 (u64_sub a b). Proof. apply u64_wrap. Qed.
Lemma u64_of_int64_ok a : u64 (go_uint64_of_int64 a). Proof. apply u64_wrap. Qed.
Lemma u64_0 : u64 0. Proof. unfold u64. split; [apply Z.le_refl | reflexivity]. Qed.

(* ================================================================== *)
(* messages and histories: definitions                                  *)
(* ================================================================== *)

(* the on-store message server and ValidateBasic, driven by the model's message type exactly as [bcn_msg_exec]
   (model/BeaconGenSpec.v) / [bcn_validate_basic] (proofs/GeneratedBeaconValidateEq.v) drive rendering (1) *)
Definition os_msg_exec (w : bsworld) (m : reg_msg) : outcome (bsworld * reg_resp) :=
  match m with
  | RRegister owner moniker name _ _ =>
      do (w', rsp) <- S.go_RegisterBeacon w
           {| MsgRegisterBeacon_Moniker := moniker; MsgRegisterBeacon_Name := name; MsgRegisterBeacon_Owner := owner |};
      Ok (w', RespRegistered (MsgRegisterBeaconResponse_BeaconId rsp))
  | RRecord owner id key hashes =>
      do (w', rsp) <- S.go_RecordBeaconTimestamp w
           {| MsgRecordBeaconTimestamp_BeaconId := id; MsgRecordBeaconTimestamp_Hash := nth 0 hashes EmptyString;
              MsgRecordBeaconTimestamp_SubmitTime := key; MsgRecordBeaconTimestamp_Owner := owner |};
      Ok (w', RespRecorded (MsgRecordBeaconTimestampResponse_BeaconId rsp) (MsgRecordBeaconTimestampResponse_TimestampId rsp))
  | RPurchase owner id n =>
      do (w', rsp) <- S.go_PurchaseBeaconStateStorage w
           {| MsgPurchaseBeaconStateStorage_BeaconId := id; MsgPurchaseBeaconStateStorage_Number := n;
              MsgPurchaseBeaconStateStorage_Owner := owner |};
      Ok (w', RespPurchased (MsgPurchaseBeaconStateStorageResponse_BeaconId rsp)
                            (MsgPurchaseBeaconStateStorageResponse_NumberPurchased rsp)
                            (MsgPurchaseBeaconStateStorageResponse_NumCanPurchase rsp))
  end.

Definition os_validate_basic (m : reg_msg) : outcome unit :=
  match m with
  | RRegister owner moniker name _ _ =>
      S.go_MsgRegisterBeacon_ValidateBasic
        {| MsgRegisterBeacon_Moniker := moniker; MsgRegisterBeacon_Name := name; MsgRegisterBeacon_Owner := owner |}
  | RRecord owner id key hashes =>
      S.go_MsgRecordBeaconTimestamp_ValidateBasic
        {| MsgRecordBeaconTimestamp_BeaconId := id; MsgRecordBeaconTimestamp_Hash := nth 0 hashes EmptyString;
           MsgRecordBeaconTimestamp_SubmitTime := key; MsgRecordBeaconTimestamp_Owner := owner |}
  | RPurchase owner id n =>
      S.go_MsgPurchaseBeaconStateStorage_ValidateBasic
        {| MsgPurchaseBeaconStateStorage_BeaconId := id; MsgPurchaseBeaconStateStorage_Number := n;
           MsgPurchaseBeaconStateStorage_Owner := owner |}
  end.

(* the four message kinds of the module: the three of the model, and MsgUpdateParams *)
Inductive kmsg :=
| KReg (m : reg_msg)
| KUpdateParams (req : go_MsgUpdateParams).

Inductive kresp :=
| KRReg (r : reg_resp)
| KRParams.

(* DeliverTx of one message: ValidateBasic, then the handler (MsgUpdateParams has no ValidateBasic of its own) *)
Definition k_deliver (w : rworld) (m : kmsg) : outcome (rworld * kresp) :=
  match m with
  | KReg m => do _ <- bcn_validate_basic m; do (w', r) <- bcn_msg_exec w m; Ok (w', KRReg r)
  | KUpdateParams req => do (w', _) <- K.go_UpdateParams w req; Ok (w', KRParams)
  end.
Definition s_deliver (w : bsworld) (m : kmsg) : outcome (bsworld * kresp) :=
  match m with
  | KReg m => do _ <- os_validate_basic m; do (w', r) <- os_msg_exec w m; Ok (w', KRReg r)
  | KUpdateParams req => do (w', _) <- S.go_UpdateParams w req; Ok (w', KRParams)
  end.

(* the clocks of a world: block time [t] SECONDS after the epoch (as [bcn_step] of proofs/GeneratedBeaconEq.v), and the
   node's wall clock at the moment of delivery - any value, a different one for every message if one likes *)
Definition rw_at (tw : Z * Z) (w : rworld) : rworld := mk_rworld (fst tw * NSEC) (snd tw) (rw_reg w).
Definition bs_at (tw : Z * Z) (w : bsworld) : bsworld := mk_bsworld (fst tw * NSEC) (snd tw) (bsw_store w).

(* a history: ((block time, wall clock), message).  A message that fails (Err) or panics (recovered by runTx) leaves the
   state untouched; the trace keeps every result. *)
Section HRun.
  Context {W : Type}.
  Variable at_time : Z * Z -> W -> W.
  Variable deliver : W -> kmsg -> outcome (W * kresp).
  Fixpoint hrun (w : W) (h : list ((Z * Z) * kmsg)) : list (outcome kresp) * W :=
    match h with
    | [] => ([], w)
    | (t, m) :: h' =>
        match deliver (at_time t w) m with
        | Ok (w', r) => let tr := hrun w' h' in (Ok r :: fst tr, snd tr)
        | Err e => let tr := hrun (at_time t w) h' in (Err e :: fst tr, snd tr)
        | Panic c => let tr := hrun (at_time t w) h' in (Panic c :: fst tr, snd tr)
        end
    end.
End HRun.

Definition k_run : rworld -> list ((Z * Z) * kmsg) -> list (outcome kresp) * rworld := hrun rw_at k_deliver.
Definition s_run : bsworld -> list ((Z * Z) * kmsg) -> list (outcome kresp) * bsworld := hrun bs_at s_deliver.

(* a history of the model's three kinds under one wall clock, as a history of the four *)
Definition lift_hist (wall : Z) (h : list (Z * reg_msg)) : list ((Z * Z) * kmsg) :=
  map (fun tm => ((fst tm, wall), KReg (snd tm))) h.

(* the two ValidateBasic are one function: they touch no store *)
Lemma os_validate_basic_eq m : os_validate_basic m = bcn_validate_basic m.
Proof. destruct m; reflexivity. Qed.

(* one step of a history on the state *)
Definition k_step (t : Z * Z) (m : kmsg) (w : rworld) : rworld :=
  match k_deliver (rw_at t w) m with Ok (w', _) => w' | _ => rw_at t w end.

Lemma k_run_cons w t m h : snd (k_run w ((t, m) :: h)) = snd (k_run (k_step t m w) h).
Proof.
  unfold k_run, k_step. cbn [hrun]. destruct (k_deliver (rw_at t w) m) as [[w' r]|e|p]; reflexivity.
Qed.

(* a step of the three kinds is [bcn_step_v] on the registry state (the ghost of the model rides along) *)
Lemma k_step_reg t wall m w g :
  rw_reg (k_step (t, wall) (KReg m) w) = fst (bcn_step_v wall (rw_reg w, g) (t, m)).
Proof.
  unfold k_step, k_deliver, bcn_step_v, rw_at. cbn [fst snd rw_reg].
  destruct (bcn_validate_basic m) as [[]|e|p]; cbn [obind]; try reflexivity.
  destruct (bcn_msg_exec (mk_rworld (t * NSEC) wall (rw_reg w)) m) as [[w' r]|e|p]; cbn [obind]; try reflexivity.
  destruct r as [id | id k | id n c]; cbn [fst]; try reflexivity.
  destruct (aget (id, k) (r_recs (rw_reg w'))); reflexivity.
Qed.

Lemma bcn_run_v_cons wall sg tm h : bcn_run_v wall sg (tm :: h) = bcn_run_v wall (bcn_step_v wall sg tm) h.
Proof. reflexivity. Qed.

(* ================================================================== *)
(* part 1: the relation, sim, binds                                     *)
(* ================================================================== *)

Definition Rw (w : rworld) (ws : bsworld) : Prop :=
  rw_now w = bsw_now ws /\ rw_wall w = bsw_wall ws /\ Rreg (bsw_store ws) (rw_reg w).

Definition lowest_ok (st : reg_state) : Prop :=
  forall id rg, aget id (r_regs st) = Some rg -> u64 (rg_lowest rg).

Definition Rwi (w : rworld) (ws : bsworld) : Prop := Rw w ws /\ lowest_ok (rw_reg w).

Definition Rres {R} (a : rworld * R) (c : bsworld * R) : Prop := Rwi (fst a) (fst c) /\ snd a = snd c.

Definition sim {R} (a : outcome (rworld * R)) (c : outcome (bsworld * R)) : Prop :=
  match a, c with
  | Ok x, Ok y => Rres x y
  | Err e, Err e' => e = e'
  | Panic p, Panic p' => p = p'
  | _, _ => False
  end.

Lemma sim_ret {R} w ws (r : R) : Rwi w ws -> sim (Ok (w, r)) (Ok (ws, r)).
Proof. intros H. split; [exact H | reflexivity]. Qed.

Lemma sim_err {R} e : @sim R (Err e) (Err e).
Proof. reflexivity. Qed.

Lemma sim_panic {R} e : @sim R (Panic e) (Panic e).
Proof. reflexivity. Qed.

(* a state-changing call on both sides, then related continuations *)
Lemma sim_bind {R R'} (a : outcome (rworld * R)) (c : outcome (bsworld * R))
      (ka : rworld * R -> outcome (rworld * R')) (kc : bsworld * R -> outcome (bsworld * R')) :
  sim a c ->
  (forall w ws r, Rwi w ws -> sim (ka (w, r)) (kc (ws, r))) ->
  sim (obind a ka) (obind c kc).
Proof.
  intros H Kk. destruct a as [[w r]|e|p], c as [[ws r']|e'|p']; cbn in H |- *; try contradiction.
  - destruct H as [H E]. cbn in H, E. subst r'. apply Kk, H.
  - exact H.
  - exact H.
Qed.

(* the same pure computation on both sides *)
Lemma sim_bind_pure {A R} (p : outcome A) (ka : A -> outcome (rworld * R)) (kc : A -> outcome (bsworld * R)) :
  (forall x, sim (ka x) (kc x)) -> sim (obind p ka) (obind p kc).
Proof. intros Kk. destruct p as [x|e|q]; cbn; [apply Kk | reflexivity | reflexivity]. Qed.

Lemma sim_if {R} (b : bool) (a1 a2 : outcome (rworld * R)) (c1 c2 : outcome (bsworld * R)) :
  (b = true -> sim a1 c1) -> (b = false -> sim a2 c2) -> sim (if b then a1 else a2) (if b then c1 else c2).
Proof. destruct b; auto. Qed.

(* results: what a successful pair of runs gives *)
Lemma sim_Ok_inv {R} (a : outcome (rworld * R)) ws' r :
  forall c, sim a c -> c = Ok (ws', r) -> exists w', a = Ok (w', r) /\ Rwi w' ws'.
Proof.
  intros c H ->. destruct a as [[w' r']|e|p]; cbn in H; try contradiction.
  destruct H as [H E]. cbn in H, E. subst r'. exists w'. split; [reflexivity | exact H].
Qed.

Lemma sim_Ok_inv_l {R} (c : outcome (bsworld * R)) w' r :
  forall a, sim a c -> a = Ok (w', r) -> exists ws', c = Ok (ws', r) /\ Rwi w' ws'.
Proof.
  intros a H ->. destruct c as [[ws' r']|e|p]; cbn in H; try contradiction.
  destruct H as [H E]. cbn in H, E. subst r'. exists ws'. split; [reflexivity | exact H].
Qed.

Lemma sim_Err_inv_l {R} (c : outcome (bsworld * R)) e :
  forall a, sim a c -> a = Err e -> c = Err e.
Proof. intros a H ->. destruct c as [[ws' r']|e'|p]; cbn in H; try contradiction. subst. reflexivity. Qed.

(* ================================================================== *)
(* part 2: the primitives                                               *)
(* ================================================================== *)

Lemma Rwi_R w ws : Rwi w ws -> Rreg (bsw_store ws) (rw_reg w).
Proof. intros [(_ & _ & H) _]. exact H. Qed.

Lemma prim_now w ws : Rwi w ws -> os_rw_now ws = rw_now w.
Proof. intros [(H & _) _]. symmetry. exact H. Qed.

Lemma prim_wall w ws : Rwi w ws -> os_rw_wall ws = rw_wall w.
Proof. intros [(_ & H & _) _]. symmetry. exact H. Qed.

Lemma prim_GetEntity w ws id : Rwi w ws -> u64 id -> os_reg_GetEntity ws id = Ok (reg_GetEntity w id).
Proof. intros H Hid. exact (GetEntity_refines _ _ (Rwi_R _ _ H) id Hid). Qed.

Lemma prim_IsRegistered w ws id : Rwi w ws -> u64 id -> os_reg_IsRegistered ws id = Ok (reg_IsRegistered w id).
Proof. intros H Hid. exact (IsRegistered_refines _ _ (Rwi_R _ _ H) id Hid). Qed.

Lemma prim_GetHighestID w ws : Rwi w ws -> os_reg_GetHighestID ws = reg_GetHighestID w.
Proof. intros H. exact (GetHighestID_refines _ _ (Rwi_R _ _ H)). Qed.

Lemma prim_GetStorageLimit w ws id : Rwi w ws -> u64 id ->
  os_reg_GetStorageLimit ws id = Ok (reg_GetStorageLimit w id).
Proof. intros H Hid. exact (GetStorageLimit_refines _ _ (Rwi_R _ _ H) id Hid). Qed.

Lemma prim_GetParamMaxStorageLimit w ws : Rwi w ws ->
  os_reg_GetParamMaxStorageLimit ws = Ok (reg_GetParamMaxStorageLimit w).
Proof. intros H. exact (GetParamMaxStorageLimit_refines _ _ (Rwi_R _ _ H)). Qed.

Lemma prim_GetParamDefaultStorageLimit w ws : Rwi w ws ->
  os_reg_GetParamDefaultStorageLimit ws = Ok (reg_GetParamDefaultStorageLimit w).
Proof. intros H. exact (GetParamDefaultStorageLimit_refines _ _ (Rwi_R _ _ H)). Qed.

Lemma prim_GetParams w ws : Rwi w ws -> os_reg_GetParams ws = Ok (reg_GetParams w).
Proof. intros H. exact (GetParams_refines _ _ (Rwi_R _ _ H)). Qed.

Lemma prim_GetRecord w ws id t : Rwi w ws -> u64 id -> u64 t -> os_reg_GetRecord ws id t = Ok (reg_GetRecord w id t).
Proof. intros H Hid Ht. exact (GetRecord_refines _ _ (Rwi_R _ _ H) id t Hid Ht). Qed.

(* the one adapter that is not a bare accessor: the owner comparison over go_st_GetBeacon.  It needs the ENTITY entry of
   Rreg: the Beacon the store holds under the id is the conversion of the abstract registration, so the owners agree *)
Lemma prim_IsAuthorisedToRecord w ws id a : Rwi w ws -> u64 id ->
  os_reg_IsAuthorisedToRecord ws id a = Ok (reg_IsAuthorisedToRecord w id a).
Proof.
  intros H Hid. unfold os_reg_IsAuthorisedToRecord.
  rewrite (GetEntity_refines _ _ (Rwi_R _ _ H) id Hid), obind_Ok.
  unfold reg_GetEntity, reg_IsAuthorisedToRecord.
  destruct (aget id (r_regs (rw_reg w))) as [rg|]; reflexivity.
Qed.

(* what a reader of an entity returns: its id is the one asked for (or 0), its FirstIdInState is in range *)
Lemma GetEntity_facts w ws id b f : Rwi w ws -> u64 id -> reg_GetEntity w id = (b, f) ->
  u64 (Beacon_BeaconId b) /\ u64 (Beacon_FirstIdInState b).
Proof.
  intros H Hid E. unfold reg_GetEntity in E.
  destruct (aget id (r_regs (rw_reg w))) as [rg|] eqn:G; injection E as <- <-.
  - cbn [to_go_entity Beacon_BeaconId Beacon_FirstIdInState]. split.
    + destruct (R_regs_wf _ _ (Rwi_R _ _ H)) as [_ Hw]. destruct (Hw id rg (aget_In _ _ _ G)) as (_ & -> & _). exact Hid.
    + exact (proj2 H id rg G).
  - cbn. split; exact u64_0.
Qed.

(* a store writer: the new abstract world differs from w in its registry state only, and keeps lowest_ok *)
Lemma writer_sim w ws (a : outcome (rworld * unit)) (c : outcome (okv beacon_val * unit)) :
  Rwi w ws ->
  (forall x, a = Ok x -> rw_now (fst x) = rw_now w /\ rw_wall (fst x) = rw_wall w /\ lowest_ok (rw_reg (fst x))) ->
  sim_res a c ->
  sim a (lift_w ws c).
Proof.
  intros [(Hn & Hwl & _) _] Hfr H. unfold lift_w, sim_res in *.
  destruct a as [[w' []]|e|p], c as [[s' []]|e'|p']; cbn [obind] in H |- *; try contradiction; try exact H.
  destruct (Hfr _ eq_refl) as (Hn' & Hw' & HL). cbn [fst] in Hn', Hw', HL.
  split; [|reflexivity]. cbn [fst]. split; [|exact HL].
  unfold Rw, with_bstore. cbn [bsw_now bsw_wall bsw_store].
  split; [congruence | split; [congruence | exact H]].
Qed.

Lemma prim_SetEntity w ws g : Rwi w ws -> u64 (Beacon_BeaconId g) -> u64 (Beacon_FirstIdInState g) ->
  sim (reg_SetEntity w g) (os_reg_SetEntity ws g).
Proof.
  intros H Hg Hf. unfold os_reg_SetEntity. apply (writer_sim w ws); [exact H | |].
  - intros x. unfold reg_SetEntity, reg_put_entity. intros [= <-]. cbn [fst with_reg rw_now rw_wall rw_reg].
    split; [reflexivity | split; [reflexivity|]].
    intros id rg. unfold with_regs. cbn [r_regs of_go_entity rg_id].
    destruct (Z.eq_dec (Beacon_BeaconId g) id) as [->|N].
    + rewrite aget_aset_eq. intros [= <-]. exact Hf.
    + rewrite (aget_aset_neq _ _ _ _ N). exact (proj2 H id rg).
  - exact (SetEntity_sim _ _ g (Rwi_R _ _ H) Hg).
Qed.

Lemma prim_SetHighestID w ws v : Rwi w ws -> u64 v -> sim (reg_SetHighestID w v) (os_reg_SetHighestID ws v).
Proof.
  intros H Hv. unfold os_reg_SetHighestID. apply (writer_sim w ws); [exact H | |].
  - intros x. unfold reg_SetHighestID. intros [= <-]. cbn [fst with_reg rw_now rw_wall rw_reg].
    split; [reflexivity | split; [reflexivity|]]. exact (proj2 H).
  - exact (SetHighestID_sim _ _ v (Rwi_R _ _ H) Hv).
Qed.

Lemma prim_SetStorageLimit w ws id l : Rwi w ws -> u64 id ->
  sim (reg_SetStorageLimit w id l) (os_reg_SetStorageLimit ws id l).
Proof.
  intros H Hid. unfold os_reg_SetStorageLimit. apply (writer_sim w ws); [exact H | |].
  - intros x. unfold reg_SetStorageLimit. intros [= <-]. cbn [fst with_reg rw_now rw_wall rw_reg].
    split; [reflexivity | split; [reflexivity|]]. exact (proj2 H).
  - exact (SetStorageLimit_sim _ _ id l (Rwi_R _ _ H) Hid).
Qed.

Lemma prim_SetRecord w ws id b : Rwi w ws -> u64 id -> u64 (BeaconTimestamp_TimestampId b) ->
  sim (reg_SetRecord w id b) (os_reg_SetRecord ws id b).
Proof.
  intros H Hid Hb. unfold os_reg_SetRecord. apply (writer_sim w ws); [exact H | |].
  - intros x. unfold reg_SetRecord, reg_put_record. intros [= <-]. cbn [fst with_reg rw_now rw_wall rw_reg].
    split; [reflexivity | split; [reflexivity|]]. exact (proj2 H).
  - exact (SetRecord_sim _ _ id b (Rwi_R _ _ H) Hid Hb).
Qed.

Lemma prim_DeleteRecord w ws id t : Rwi w ws -> u64 id -> u64 t ->
  sim (reg_DeleteRecord w id t) (os_reg_DeleteRecord ws id t).
Proof.
  intros H Hid Ht. unfold os_reg_DeleteRecord. apply (writer_sim w ws); [exact H | |].
  - intros x. unfold reg_DeleteRecord. intros [= <-]. cbn [fst with_reg rw_now rw_wall rw_reg].
    split; [reflexivity | split; [reflexivity|]]. exact (proj2 H).
  - exact (DeleteRecord_sim _ _ id t (Rwi_R _ _ H) Hid Ht).
Qed.

(* what MsgUpdateParams must carry for the two SetParams to give the same CODE when they refuse *)
Definition params_ok (p : go_Params) : Prop := bcn_params_nonneg p /\ denom_ok p.

Lemma prim_SetParams w ws p : Rwi w ws -> params_ok p -> sim (reg_SetParams w p) (os_reg_SetParams ws p).
Proof.
  intros H [Hp Hd]. unfold os_reg_SetParams. apply (writer_sim w ws); [exact H | |].
  - intros x. unfold reg_SetParams, reg_store_params. destruct (reg_params_valid (params_of_go p)); [|discriminate].
    intros [= <-]. cbn [fst with_reg rw_now rw_wall rw_reg].
    split; [reflexivity | split; [reflexivity|]]. exact (proj2 H).
  - exact (SetParams_sim _ _ p (Rwi_R _ _ H) Hp Hd).
Qed.

(* ================================================================== *)
(* part 3: the walk                                                     *)
(* ================================================================== *)

(* One step on a goal [sim A C] where A and C are the two renderings of one Go body at related worlds.  Nothing here names
   a temporary of the generated files or the nesting of their tests. *)
Ltac sred := cbv beta iota zeta.

(* goals [u64 x]: a hypothesis, a wrapped uint64 operation, or a field of a Beacon built by setters *)
Ltac su64 :=
  unfold set_Beacon_BeaconId, set_Beacon_LastTimestampId, set_Beacon_FirstIdInState, set_Beacon_NumInState,
    set_Beacon_RegTime;
  cbn [Beacon_BeaconId Beacon_FirstIdInState BeaconTimestamp_TimestampId];
  first [ assumption | apply u64_add_ok | apply u64_sub_ok | apply u64_of_int64_ok | exact u64_0 ].

(* the pure reader GetMaxPurchasableSlots (re-bound below, once it is proved) *)
Ltac sread_fn := fail.

(* the store-side readers answer Ok of the abstract reader *)
Ltac sread :=
  match goal with
  | HR : Rwi ?w ?ws |- context [os_reg_GetEntity ?ws ?id] =>
      rewrite (prim_GetEntity w ws id HR) by su64; rewrite obind_Ok
  | HR : Rwi ?w ?ws |- context [os_reg_IsRegistered ?ws ?id] =>
      rewrite (prim_IsRegistered w ws id HR) by su64; rewrite obind_Ok
  | HR : Rwi ?w ?ws |- context [os_reg_IsAuthorisedToRecord ?ws ?id ?a] =>
      rewrite (prim_IsAuthorisedToRecord w ws id a HR) by su64; rewrite obind_Ok
  | HR : Rwi ?w ?ws |- context [os_reg_GetStorageLimit ?ws ?id] =>
      rewrite (prim_GetStorageLimit w ws id HR) by su64; rewrite obind_Ok
  | HR : Rwi ?w ?ws |- context [os_reg_GetParamMaxStorageLimit ?ws] =>
      rewrite (prim_GetParamMaxStorageLimit w ws HR); rewrite obind_Ok
  | HR : Rwi ?w ?ws |- context [os_reg_GetParamDefaultStorageLimit ?ws] =>
      rewrite (prim_GetParamDefaultStorageLimit w ws HR); rewrite obind_Ok
  | HR : Rwi ?w ?ws |- context [os_reg_GetHighestID ?ws] =>
      rewrite (prim_GetHighestID w ws HR)
  | HR : Rwi ?w ?ws |- context [os_rw_now ?ws] =>
      rewrite (prim_now w ws HR)
  | HR : Rwi ?w ?ws |- context [os_rw_wall ?ws] =>
      rewrite (prim_wall w ws HR)
  | _ => sread_fn
  end.

Ltac sprim :=
  first [ apply prim_SetEntity | apply prim_SetHighestID | apply prim_SetStorageLimit | apply prim_SetRecord
        | apply prim_DeleteRecord | apply prim_SetParams ]; first [ assumption | su64 ].

(* [scall]: a call of an already treated function (re-bound below, after each function) *)
Ltac scall := fail.

(* the pair a reader returned: an entity comes with what Rreg / lowest_ok say about it *)
Ltac spair :=
  match goal with
  | HR : Rwi ?w ?ws |- context [match reg_GetEntity ?w ?id with pair _ _ => _ end] =>
      let b := fresh "b" in let f := fresh "f" in let E := fresh "EG" in
      destruct (reg_GetEntity w id) as [b f] eqn:E;
      let F := fresh "Fb" in
      assert (F : u64 (Beacon_BeaconId b) /\ u64 (Beacon_FirstIdInState b))
        by (apply (GetEntity_facts w ws id b f HR); [su64 | exact E]);
      destruct F as [? ?]
  | |- context [match reg_GetStorageLimit ?w ?id with pair _ _ => _ end] =>
      destruct (reg_GetStorageLimit w id) as [? ?]
  | |- context [match ?v with pair _ _ => _ end] => is_var v; destruct v
  end.

Ltac sstep :=
  first
  [ progress sread
  | spair
  | match goal with
    | |- sim (Err _) (Err _) => reflexivity
    | |- sim (Panic _) (Panic _) => reflexivity
    | |- sim (Ok (_, _)) (Ok (_, _)) => apply sim_ret; assumption
    | |- sim (if ?b then _ else _) (if ?b then _ else _) => destruct b eqn:?
    | |- sim (obind _ _) (obind _ _) =>
        first [ apply sim_bind_pure; intro
              | apply sim_bind; [ first [ sprim | scall ] | intros ? ? ? ? ] ]
    end ].

Ltac swalk := sred; repeat (sstep; sred).

(* ---- the keeper functions ---- *)

(* GetMaxPurchasableSlots reads only: the two renderings return the same outcome *)
Theorem os_GetMaxPurchasableSlots_eq w ws id : Rwi w ws -> u64 id ->
  S.go_GetMaxPurchasableSlots ws id = K.go_GetMaxPurchasableSlots w id.
Proof.
  intros HR Hid. unfold S.go_GetMaxPurchasableSlots, K.go_GetMaxPurchasableSlots.
  rewrite (prim_GetStorageLimit w ws id HR Hid), obind_Ok. sred.
  destruct (reg_GetStorageLimit w id) as [st found]. destruct (negb found); [reflexivity|].
  rewrite (prim_GetParamMaxStorageLimit w ws HR), obind_Ok. reflexivity.
Qed.

Ltac sread_fn ::=
  match goal with
  | HR : Rwi ?w ?ws |- context [S.go_GetMaxPurchasableSlots ?ws ?id] =>
      rewrite (os_GetMaxPurchasableSlots_eq w ws id HR) by su64
  end.

Theorem sim_IncreaseInStateStorage w ws id amount : Rwi w ws -> u64 id ->
  sim (K.go_IncreaseInStateStorage w id amount) (S.go_IncreaseInStateStorage ws id amount).
Proof.
  intros HR Hid. unfold K.go_IncreaseInStateStorage, S.go_IncreaseInStateStorage. swalk.
Qed.

Theorem sim_RegisterNewBeacon w ws beacon : Rwi w ws ->
  sim (K.go_RegisterNewBeacon w beacon) (S.go_RegisterNewBeacon ws beacon).
Proof.
  intros HR. pose proof (R_next_range _ _ (Rwi_R _ _ HR)) as Hn.
  unfold K.go_RegisterNewBeacon, S.go_RegisterNewBeacon.
  rewrite (prim_GetHighestID w ws HR). unfold reg_GetHighestID. rewrite !obind_Ok. swalk.
Qed.

Theorem sim_RecordNewBeaconTimestamp w ws id hash submitTime : Rwi w ws -> u64 id ->
  sim (K.go_RecordNewBeaconTimestamp w id hash submitTime) (S.go_RecordNewBeaconTimestamp ws id hash submitTime).
Proof.
  intros HR Hid. unfold K.go_RecordNewBeaconTimestamp, S.go_RecordNewBeaconTimestamp. swalk.
Qed.

Ltac scall ::=
  first [ apply sim_IncreaseInStateStorage | apply sim_RegisterNewBeacon | apply sim_RecordNewBeaconTimestamp ];
  first [ assumption | su64 ].

(* ---- the message server ---- *)

Theorem sim_RegisterBeacon w ws msg : Rwi w ws -> sim (K.go_RegisterBeacon w msg) (S.go_RegisterBeacon ws msg).
Proof.
  intros HR. unfold K.go_RegisterBeacon, S.go_RegisterBeacon, sdk_AccAddressFromBech32. rewrite !obind_Ok. swalk.
Qed.

Theorem sim_RecordBeaconTimestamp w ws msg : Rwi w ws -> u64 (MsgRecordBeaconTimestamp_BeaconId msg) ->
  sim (K.go_RecordBeaconTimestamp w msg) (S.go_RecordBeaconTimestamp ws msg).
Proof.
  intros HR Hid. unfold K.go_RecordBeaconTimestamp, S.go_RecordBeaconTimestamp, sdk_AccAddressFromBech32.
  rewrite !obind_Ok. swalk.
Qed.

Theorem sim_PurchaseBeaconStateStorage w ws msg : Rwi w ws -> u64 (MsgPurchaseBeaconStateStorage_BeaconId msg) ->
  sim (K.go_PurchaseBeaconStateStorage w msg) (S.go_PurchaseBeaconStateStorage ws msg).
Proof.
  intros HR Hid. unfold K.go_PurchaseBeaconStateStorage, S.go_PurchaseBeaconStateStorage, sdk_AccAddressFromBech32.
  rewrite !obind_Ok. swalk.
Qed.

Theorem sim_UpdateParams w ws req : Rwi w ws -> params_ok (MsgUpdateParams_Params req) ->
  sim (K.go_UpdateParams w req) (S.go_UpdateParams ws req).
Proof.
  intros HR Hp. unfold K.go_UpdateParams, S.go_UpdateParams. swalk.
Qed.

(* ================================================================== *)
(* part 4: messages, histories                                          *)
(* ================================================================== *)

(* what a delivered message must satisfy: its BEACON id is a uint64; the parameters of MsgUpdateParams are [params_ok] *)
Definition msg_ok (m : reg_msg) : Prop :=
  match m with
  | RRegister _ _ _ _ _ => True
  | RRecord _ id _ _ => u64 id
  | RPurchase _ id _ => u64 id
  end.
Definition kmsg_ok (m : kmsg) : Prop :=
  match m with KReg m => msg_ok m | KUpdateParams req => params_ok (MsgUpdateParams_Params req) end.

Ltac scall ::=
  first [ apply sim_RegisterBeacon | apply sim_RecordBeaconTimestamp | apply sim_PurchaseBeaconStateStorage
        | apply sim_UpdateParams ]; assumption.

Theorem sim_msg_exec w ws m : Rwi w ws -> msg_ok m -> sim (bcn_msg_exec w m) (os_msg_exec ws m).
Proof.
  intros HR Hm.
  destruct m as [o moniker name genesis type | o id key hashes | o id n]; cbn [msg_ok] in Hm;
    unfold bcn_msg_exec, os_msg_exec; swalk.
Qed.

Theorem sim_deliver w ws m : Rwi w ws -> kmsg_ok m -> sim (k_deliver w m) (s_deliver ws m).
Proof.
  intros HR D. destruct m as [m|req]; unfold k_deliver, s_deliver; cbn [kmsg_ok] in D.
  - change (os_validate_basic m) with (bcn_validate_basic m). apply sim_bind_pure. intros _.
    apply sim_bind; [apply sim_msg_exec; assumption|]. intros w' ws' r HR'. apply sim_ret, HR'.
  - apply sim_bind; [apply sim_UpdateParams; assumption|]. intros w' ws' r HR'. apply sim_ret, HR'.
Qed.

Lemma Rwi_at t w ws : Rwi w ws -> Rwi (rw_at t w) (bs_at t ws).
Proof. intros [(_ & _ & HR) HL]. split; [|exact HL]. unfold Rw, rw_at, bs_at. cbn. auto. Qed.

(* any history of the four message kinds, from related worlds: the same result for every message, related final worlds *)
Theorem sim_run h : forall w ws, Rwi w ws -> Forall (fun tm => kmsg_ok (snd tm)) h ->
  fst (k_run w h) = fst (s_run ws h) /\ Rwi (snd (k_run w h)) (snd (s_run ws h)).
Proof.
  induction h as [|[t m] h IH]; intros w ws HR HD.
  - split; [reflexivity | exact HR].
  - inversion HD as [|x l Dm Dh]; subst x l. cbn [snd] in Dm.
    pose proof (Rwi_at t w ws HR) as HRt.
    pose proof (sim_deliver (rw_at t w) (bs_at t ws) m HRt Dm) as Hs.
    unfold k_run, s_run in *. cbn [hrun].
    destruct (k_deliver (rw_at t w) m) as [[w' r]|e|p], (s_deliver (bs_at t ws) m) as [[ws' r']|e'|p'];
      cbn in Hs; try contradiction.
    + destruct Hs as [HR' E]. cbn [fst snd] in HR', E. subst r'.
      destruct (IH w' ws' HR' Dh) as [E1 E2]. cbn [fst snd]. rewrite E1. split; [reflexivity | exact E2].
    + subst e'. destruct (IH _ _ HRt Dh) as [E1 E2]. cbn [fst snd]. rewrite E1. split; [reflexivity | exact E2].
    + subst p'. destruct (IH _ _ HRt Dh) as [E1 E2]. cbn [fst snd]. rewrite E1. split; [reflexivity | exact E2].
Qed.

(* a history of the three kinds, run as a history of the four under one wall clock, is [bcn_run_v] on the registry state *)
Theorem k_run_lift wall h : forall w g,
  rw_reg (snd (k_run w (lift_hist wall h))) = fst (bcn_run_v wall (rw_reg w, g) h).
Proof.
  induction h as [|[t m] h IH]; intros w g; [reflexivity|].
  cbn [lift_hist map fst snd]. rewrite k_run_cons. fold (lift_hist wall h).
  rewrite bcn_run_v_cons.
  destruct (bcn_step_v wall (rw_reg w, g) (t, m)) as [s1 g1] eqn:E.
  rewrite (IH _ g1). rewrite (k_step_reg t wall m w g), E. reflexivity.
Qed.

Lemma lift_hist_ok wall h : Forall (fun tm => msg_ok (snd tm)) h ->
  Forall (fun tm => kmsg_ok (snd tm)) (lift_hist wall h).
Proof.
  intros HD. unfold lift_hist. apply Forall_map. eapply Forall_impl; [|exact HD]. intros [t m] H. exact H.
Qed.

(* [reg_msg_wf] (what the wire format guarantees, model/RegistrySpec.v) gives the side condition on ids *)
Lemma reg_msg_wf_ok m : reg_msg_wf m -> msg_ok m.
Proof.
  destruct m as [o moniker name genesis type | o id key hashes | o id n]; cbn [reg_msg_wf msg_ok]; [tauto| |];
    intros (_ & H & _); apply u64_spec; exact H.
Qed.

Lemma bcn_hist_ok_msg_ok h : bcn_hist_ok h -> Forall (fun tm => msg_ok (snd tm)) h.
Proof.
  unfold bcn_hist_ok. intros H. eapply Forall_impl; [|exact H]. intros [t m] (W & _). apply reg_msg_wf_ok, W.
Qed.

(* ================================================================== *)
(* part 5: C07 / C08 / C09 on the on-store rendering                    *)
(* ================================================================== *)

Lemma rworld_eta w : w = mk_rworld (rw_now w) (rw_wall w) (rw_reg w).
Proof. destruct w; reflexivity. Qed.

(* the hypotheses under which rendering (1) is the model give lowest_ok *)
Lemma bounded_lowest_ok B s : bcn_bounded B s -> B < two64 -> lowest_ok s.
Proof.
  intros (_ & _ & _ & _ & HR) HB id rg G. destruct (HR id rg G) as (_ & _ & H).
  apply u64_of_range. lia.
Qed.

Lemma counters_small_lowest_ok s : reg_counters_small s -> lowest_ok s.
Proof.
  intros (_ & _ & _ & _ & HR) id rg G. destruct (HR id rg G) as (_ & _ & H).
  apply u64_of_range. lia.
Qed.

(* what Rreg knows of a stored registration *)
Lemma Rw_reg_entry w ws id rg : Rw w ws -> aget id (r_regs (rw_reg w)) = Some rg ->
  u64 id /\ rg_id rg = id /\ rg_genesis rg = EmptyString /\ rg_type rg = EmptyString.
Proof.
  intros (_ & _ & HR) G. destruct (R_regs_wf _ _ HR) as [_ Hw]. exact (Hw id rg (aget_In _ _ _ G)).
Qed.

Lemma Rw_no_genesis w ws : Rw w ws -> bcn_no_genesis (rw_reg w).
Proof. intros H id rg G. destruct (Rw_reg_entry w ws id rg H G) as (_ & _ & Hg & Ht). split; assumption. Qed.

(* the Beacon the GENERATED accessor reads from the byte store is the registration the abstract map holds *)
Lemma os_GetEntity_found w ws id b : Rwi w ws -> u64 id ->
  os_reg_GetEntity ws id = Ok (b, true) ->
  exists rg, aget id (r_regs (rw_reg w)) = Some rg /\ b = to_go_entity rg.
Proof.
  intros HR Hid H. rewrite (prim_GetEntity w ws id HR Hid) in H. unfold reg_GetEntity in H.
  destruct (aget id (r_regs (rw_reg w))) as [rg|]; [|discriminate H].
  injection H as <-. exists rg. split; reflexivity.
Qed.

(* ---- C07 / C08: recording a timestamp on the byte store is the model's [record_new]: the id it gets, what it prunes ---- *)
Theorem os_record_is_model w ws id rg hash submitTime :
  Rwi w ws -> aget id (r_regs (rw_reg w)) = Some rg ->
  0 <= rg_last rg < two64 - 1 -> 0 <= rg_num rg < two64 - 1 -> 0 <= rg_lowest rg < two64 - 1 ->
  (rg_lowest rg = 0 -> rg_num rg < limit_of (rw_reg w) id) ->
  let '(s', k, pruned) := record_new false (Time_Unix (rw_now w)) (rw_reg w) rg submitTime [hash] in
  exists ws', S.go_RecordNewBeaconTimestamp ws id hash submitTime = Ok (ws', (k, pruned)) /\ Rwi (with_reg w s') ws'.
Proof.
  intros HR G Hl Hn Hlo Hfr. destruct (Rw_reg_entry w ws id rg (proj1 HR) G) as (Hid & Hrid & Hg & Ht).
  pose proof (gen_bcn_RecordNewBeaconTimestamp_eq w id rg hash submitTime G Hrid Hg Ht Hl Hn Hlo Hfr) as E.
  destruct (record_new false (Time_Unix (rw_now w)) (rw_reg w) rg submitTime [hash]) as [[s' k] pruned].
  exact (sim_Ok_inv_l _ _ _ _ (sim_RecordNewBeaconTimestamp w ws id hash submitTime HR Hid) E).
Qed.

(* ---- C07: the on-store message server is the model's [reg_exec false] ---- *)
Theorem os_exec_is_model now wall s g m ws :
  Rw (mk_rworld now wall s) ws ->
  reg_inv false s g -> reg_counters_small s -> reg_msg_wf m ->
  (forall o id key hashes, m = RRecord o id key hashes -> List.length hashes = 1%nat /\ key <> 0) ->
  0 <= now / NSEC < two63 ->
  sim (rlift (mk_rworld now wall s) (reg_exec false (now / NSEC) s m)) (os_msg_exec ws m).
Proof.
  intros HR I CS W H1 Hn.
  rewrite <- (gen_bcn_msg_exec_eq now wall s g m I (Rw_no_genesis _ _ HR) CS W H1 Hn).
  apply sim_msg_exec; [split; [exact HR | exact (counters_small_lowest_ok s CS)] | exact (reg_msg_wf_ok m W)].
Qed.

(* ---- C07: whole histories (generated ValidateBasic, then the on-store message server) end in a byte store that
   represents the state of the MODEL's run [reg_run false], inside its invariant, with the same answers as rendering (1) ---- *)
Theorem os_run_is_model wall h w ws g B :
  Rw w ws -> reg_inv false (rw_reg w) g -> bcn_bounded B (rw_reg w) -> B + Z.of_nat (List.length h) < two64 ->
  bcn_hist_ok h ->
  exists w', Rwi w' (snd (s_run ws (lift_hist wall h))) /\
             rw_reg w' = fst (reg_run false (rw_reg w, g) h) /\
             reg_inv false (rw_reg w') (snd (reg_run false (rw_reg w, g) h)) /\
             fst (s_run ws (lift_hist wall h)) = fst (k_run w (lift_hist wall h)).
Proof.
  intros HR I HB Hlen Hh. exists (snd (k_run w (lift_hist wall h))).
  assert (HRi : Rwi w ws) by (split; [exact HR | apply (bounded_lowest_ok B); [exact HB | lia]]).
  destruct (sim_run (lift_hist wall h) w ws HRi (lift_hist_ok wall h (bcn_hist_ok_msg_ok h Hh))) as [E HR'].
  assert (Es : rw_reg (snd (k_run w (lift_hist wall h))) = fst (reg_run false (rw_reg w, g) h)).
  { rewrite (k_run_lift wall h w g).
    rewrite (gen_bcn_run_v_eq wall h (rw_reg w) g B I (Rw_no_genesis _ _ HR) HB Hlen Hh). reflexivity. }
  split; [exact HR'|]. split; [exact Es|]. split; [|symmetry; exact E].
  rewrite Es. apply reg_inv_run; [exact I|].
  unfold hist_wf. unfold bcn_hist_ok in Hh. eapply Forall_impl; [|exact Hh]. intros [t m] (Wf & Ht & _).
  split; [exact Wf | cbn [fst] in *; lia].
Qed.

(* ---- C07 on the bytes: after any such history every timestamp ever accepted (the model's log) is either read back
   bit-for-bit from the byte store by the generated GetBeaconTimestampByID, or it has been pruned by the retention limit
   (the accessor finds nothing, and its id is below the lowest id in state) ---- *)
Theorem os_accepted_record_immutable wall h w ws g B id :
  Rw w ws -> reg_inv false (rw_reg w) g -> bcn_bounded B (rw_reg w) -> B + Z.of_nat (List.length h) < two64 ->
  bcn_hist_ok h -> u64 id ->
  let ws' := snd (s_run ws (lift_hist wall h)) in
  let g' := snd (reg_run false (rw_reg w, g) h) in
  (forall k rc, In (k, rc) (log_of g id) -> In (k, rc) (log_of g' id)) /\
  (forall k rc, In (k, rc) (log_of g' id) -> u64 k ->
     os_reg_GetRecord ws' id k = Ok (rec_to_go rc, true) \/
     (os_reg_GetRecord ws' id k = Ok (zero_go_BeaconTimestamp, false) /\
      exists b, os_reg_GetEntity ws' id = Ok (b, true) /\ 1 <= Beacon_NumInState b /\ k < Beacon_FirstIdInState b)) /\
  (forall k b, u64 k -> os_reg_GetRecord ws' id k = Ok (b, true) ->
     exists rc, In (k, rc) (log_of g' id) /\ b = rec_to_go rc).
Proof.
  intros HR I HB Hlen Hh Hid. cbv zeta.
  destruct (os_run_is_model wall h w ws g B HR I HB Hlen Hh) as (w' & HR' & Es & _ & _).
  assert (Hw : hist_wf h).
  { unfold hist_wf. unfold bcn_hist_ok in Hh. eapply Forall_impl; [|exact Hh]. intros [t m] (Wf & Ht & _).
    split; [exact Wf | cbn [fst] in *; lia]. }
  pose proof (C07_accepted_record_immutable_stmt false (rw_reg w) g h id I Hw) as C.
  destruct (reg_run false (rw_reg w, g) h) as [s' g'] eqn:ER. cbn [fst snd] in *.
  destruct C as (_ & C2 & C3 & C4). split; [exact C2|]. split.
  - intros k rc Hin Hk. rewrite (prim_GetRecord w' _ id k HR' Hid Hk), reg_GetRecord_eq, Es.
    destruct (C3 k rc Hin) as [Q|(Q & _ & rg' & Qr & Hn & Hlow)]; unfold q_record in Q; rewrite Q.
    + left. reflexivity.
    + right. split; [reflexivity|]. exists (to_go_entity rg').
      rewrite (prim_GetEntity w' _ id HR' Hid). unfold reg_GetEntity. unfold q_registration in Qr. rewrite Es, Qr.
      split; [reflexivity|]. cbn [to_go_entity Beacon_NumInState Beacon_FirstIdInState]. split; assumption.
  - intros k b Hk H. rewrite (prim_GetRecord w' _ id k HR' Hid Hk), reg_GetRecord_eq, Es in H.
    destruct (aget (id, k) (r_recs s')) as [rc|] eqn:Q; [|discriminate H]. injection H as <-.
    exists rc. split; [apply C4; exact Q | reflexivity].
Qed.

(* ---- C08: the capacity the byte store reports ---- *)
Theorem os_capacity w ws id :
  Rwi w ws -> u64 id -> rp_max_limit (r_params (rw_reg w)) < two64 ->
  (forall l, aget id (r_limits (rw_reg w)) = Some l -> 0 <= l) ->
  S.go_GetMaxPurchasableSlots ws id = Ok (max_purchasable (rw_reg w) id).
Proof.
  intros HR Hid Hm Hl. rewrite (os_GetMaxPurchasableSlots_eq w ws id HR Hid).
  exact (gen_bcn_GetMaxPurchasableSlots_eq w id Hm Hl).
Qed.

(* ---- C08: the purchase handler on the byte store is the model's ---- *)
Theorem os_purchase_is_model now wall s (o : addr) id n ws :
  Rw (mk_rworld now wall s) ws -> reg_counters_small s -> 0 <= n -> u64 id ->
  sim (rlift (mk_rworld now wall s) (reg_exec false (now / NSEC) s (RPurchase o id n))) (os_msg_exec ws (RPurchase o id n)).
Proof.
  intros HR CS Hn Hid. rewrite <- (gen_bcn_purchase_eq now wall s o id n CS Hn).
  apply sim_msg_exec; [split; [exact HR | exact (counters_small_lowest_ok s CS)] | exact Hid].
Qed.

(* ---- C08 on the bytes: in a state inside the model's invariant, the timestamps the generated GetAllBeaconTimestamps
   lists from the byte store for a registered BEACON are the NEWEST rg_num accepted ones, and there are at most
   limit-many of them ---- *)
Theorem os_retained_is_newest_suffix w ws g id rg :
  Rw w ws -> reg_inv false (rw_reg w) g -> aget id (r_regs (rw_reg w)) = Some rg ->
  exists L, go_st_GetAllBeaconTimestamps (bsw_store ws) id = Ok L /\
    Permutation.Permutation L (map (fun kr => rec_to_go (snd kr)) (lastn (Z.to_nat (rg_num rg)) (log_of g id))) /\
    Z.of_nat (List.length L) = rg_num rg /\ rg_num rg <= limit_of (rw_reg w) id.
Proof.
  intros HR I G. destruct (Rw_reg_entry w ws id rg HR G) as (Hid & _).
  destruct HR as (_ & _ & HR).
  destruct (GetAllRecords_refines _ w id HR Hid) as (HL & _).
  destruct (C08_newest_suffix false _ g id rg I G) as (Hs & H0 & Hlim & Hlen).
  eexists. split; [exact HL|].
  assert (P : Permutation.Permutation
                (map (fun kr : Z * record => rec_to_go (snd kr)) (sort_by_key (records_of id (r_recs (rw_reg w)))))
                (map (fun kr : Z * record => rec_to_go (snd kr)) (lastn (Z.to_nat (rg_num rg)) (log_of g id)))).
  { apply Permutation.Permutation_map. rewrite sort_by_key_zsort. rewrite <- Hs. apply zsort_perm. }
  split; [exact P|]. split; [|exact Hlim].
  rewrite (Permutation.Permutation_length P), map_length, lastn_length by lia. lia.
Qed.

(* ---- C09: registration on the byte store takes the id HighestBeaconID, which then advances by one; it stores what the
   message said ---- *)
Theorem os_register_is_model w ws (b : go_Beacon) :
  Rwi w ws -> 0 <= Time_Unix (rw_now w) < two64 -> r_next (rw_reg w) < two64 - 1 ->
  let s := rw_reg w in
  exists ws', S.go_RegisterNewBeacon ws b = Ok (ws', r_next s) /\
    Rwi (with_reg w {| r_params := r_params s; r_next := r_next s + 1;
                       r_regs := aset (r_next s)
                                   {| rg_id := r_next s; rg_owner := Beacon_Owner b; rg_moniker := Beacon_Moniker b;
                                      rg_name := Beacon_Name b; rg_genesis := EmptyString; rg_type := EmptyString;
                                      rg_last := 0; rg_num := 0; rg_lowest := 0;
                                      rg_regtime := Time_Unix (rw_now w) |} (r_regs s);
                       r_limits := aset (r_next s) (rp_default_limit (r_params s)) (r_limits s);
                       r_recs := r_recs s |}) ws' /\
    os_reg_GetHighestID ws' = Ok (r_next s + 1).
Proof.
  intros HR Ht Hn. cbv zeta.
  pose proof (u64_range _ (R_next_range _ _ (Rwi_R _ _ HR))) as Hr.
  assert (Hn' : 0 <= r_next (rw_reg w) < two64 - 1) by lia.
  pose proof (gen_bcn_RegisterNewBeacon_eq w b Ht Hn') as E. cbv zeta in E.
  destruct (sim_Ok_inv_l _ _ _ _ (sim_RegisterNewBeacon w ws b HR) E) as (ws' & H' & HR').
  exists ws'. split; [exact H'|]. split; [exact HR'|].
  rewrite (prim_GetHighestID _ ws' HR'). reflexivity.
Qed.

(* ---- C09: a timestamp or a purchase by anyone but the owner THE BYTE STORE holds is refused ---- *)
Theorem os_owner_only now wall s g ws (o : addr) id b :
  Rw (mk_rworld now wall s) ws -> reg_inv false s g -> reg_counters_small s -> 0 <= now / NSEC < two63 ->
  u64 id -> os_reg_GetEntity ws id = Ok (b, true) -> o <> Beacon_Owner b ->
  (forall key hashes, List.length hashes = 1%nat -> key <> 0 ->
     exists c, os_msg_exec ws (RRecord o id key hashes) = Err c /\
       (reg_validate_basic false (RRecord o id key hashes) = Ok tt -> c = ERR_REG_NOT_OWNER)) /\
  (forall n, 0 <= n ->
     exists c, os_msg_exec ws (RPurchase o id n) = Err c /\
       (reg_validate_basic false (RPurchase o id n) = Ok tt -> c = ERR_REG_NOT_OWNER)).
Proof.
  intros HR I CS Hn Hid Hb Ho.
  assert (HRi : Rwi (mk_rworld now wall s) ws) by (split; [exact HR | exact (counters_small_lowest_ok s CS)]).
  destruct (os_GetEntity_found _ ws id b HRi Hid Hb) as (rg & G & ->). cbn [rw_reg] in G. cbn in Ho.
  destruct (gen_bcn_non_owner_rejected now wall s g o id rg I (Rw_no_genesis _ _ HR) CS Hn G Ho) as [H1 H2].
  split.
  - intros key hashes Hl Hk. destruct (H1 key hashes Hl Hk) as (c & E & Hc). exists c. split; [|exact Hc].
    exact (sim_Err_inv_l _ _ _ (sim_msg_exec _ ws (RRecord o id key hashes) HRi Hid) E).
  - intros n Hn0. destruct (H2 n Hn0) as (c & E & Hc). exists c. split; [|exact Hc].
    exact (sim_Err_inv_l _ _ _ (sim_msg_exec _ ws (RPurchase o id n) HRi Hid) E).
Qed.

(* ---- C09 on the bytes: from a store initialised with parameters and the counter [start], after any history the
   HighestBeaconID cell of the byte store holds start + the number of registrations accepted, and the ids handed out
   were start, start+1, ... without repetition ---- *)
Theorem os_ids_sequential wall h p start w ws :
  Rw w ws -> rw_reg w = reg_init p start ->
  reg_params_valid p = true -> 1 <= start -> rp_max_limit p < two64 ->
  start + Z.of_nat (List.length h) < two64 -> bcn_hist_ok h ->
  let g' := snd (reg_run false (reg_init p start, ghost_init) h) in
  os_reg_GetHighestID (snd (s_run ws (lift_hist wall h))) = Ok (start + Z.of_nat (List.length (g_reg g'))) /\
  map (fun x => fst (fst x)) (g_reg g') = map (fun i => start + Z.of_nat i) (seq 0 (List.length (g_reg g'))) /\
  NoDup (map (fun x => fst (fst x)) (g_reg g')).
Proof.
  intros HR E0 Hp Hs Hm Hlen Hh. cbv zeta.
  assert (I : reg_inv false (rw_reg w) ghost_init) by (rewrite E0; apply reg_inv_init; assumption).
  assert (HB : bcn_bounded start (rw_reg w)).
  { rewrite E0. unfold bcn_bounded, reg_init. cbn [r_next r_params r_limits r_regs aget].
    split; [lia|]. split; [exact Hm|]. split.
    - unfold reg_params_valid in Hp. lia.
    - split; intros; discriminate. }
  destruct (os_run_is_model wall h w ws ghost_init start HR I HB Hlen Hh) as (w' & HR' & Es & _ & _).
  rewrite E0 in Es.
  pose proof (C09_ids_sequential_stmt false p start h) as C.
  destruct (reg_run false (reg_init p start, ghost_init) h) as [s' g'] eqn:ER. cbn [fst snd] in *.
  destruct C as (C1 & C2 & C3). split; [|split; assumption].
  rewrite (prim_GetHighestID w' _ HR'). unfold reg_GetHighestID. rewrite Es, C2. reflexivity.
Qed.

(* ================================================================== *)
(* summaries (for props/C09onstorebeacon.v)                             *)
(* ================================================================== *)

Lemma sim_spelled {R} (a : outcome (rworld * R)) (c : outcome (bsworld * R)) :
  sim a c <->
  match a, c with
  | Ok (w, x), Ok (ws, y) => (Rw w ws /\ lowest_ok (rw_reg w)) /\ x = y
  | Err e, Err e' => e = e'
  | Panic p, Panic p' => p = p'
  | _, _ => False
  end.
Proof. destruct a as [[w x]|e|p], c as [[ws y]|e'|p']; cbn; reflexivity. Qed.

Theorem sim_primitives w ws : Rwi w ws ->
  os_rw_now ws = rw_now w /\ os_rw_wall ws = rw_wall w /\
  os_reg_GetHighestID ws = reg_GetHighestID w /\
  os_reg_GetParams ws = Ok (reg_GetParams w) /\
  os_reg_GetParamMaxStorageLimit ws = Ok (reg_GetParamMaxStorageLimit w) /\
  os_reg_GetParamDefaultStorageLimit ws = Ok (reg_GetParamDefaultStorageLimit w) /\
  (forall id, u64 id -> os_reg_GetEntity ws id = Ok (reg_GetEntity w id)) /\
  (forall id, u64 id -> os_reg_IsRegistered ws id = Ok (reg_IsRegistered w id)) /\
  (forall id a, u64 id -> os_reg_IsAuthorisedToRecord ws id a = Ok (reg_IsAuthorisedToRecord w id a)) /\
  (forall id, u64 id -> os_reg_GetStorageLimit ws id = Ok (reg_GetStorageLimit w id)) /\
  (forall id t, u64 id -> u64 t -> os_reg_GetRecord ws id t = Ok (reg_GetRecord w id t)) /\
  (forall g, u64 (Beacon_BeaconId g) -> u64 (Beacon_FirstIdInState g) -> sim (reg_SetEntity w g) (os_reg_SetEntity ws g)) /\
  (forall v, u64 v -> sim (reg_SetHighestID w v) (os_reg_SetHighestID ws v)) /\
  (forall id l, u64 id -> sim (reg_SetStorageLimit w id l) (os_reg_SetStorageLimit ws id l)) /\
  (forall id b, u64 id -> u64 (BeaconTimestamp_TimestampId b) -> sim (reg_SetRecord w id b) (os_reg_SetRecord ws id b)) /\
  (forall id t, u64 id -> u64 t -> sim (reg_DeleteRecord w id t) (os_reg_DeleteRecord ws id t)) /\
  (forall p, params_ok p -> sim (reg_SetParams w p) (os_reg_SetParams ws p)).
Proof.
  intros HR.
  split; [exact (prim_now w ws HR)|]. split; [exact (prim_wall w ws HR)|].
  split; [exact (prim_GetHighestID w ws HR)|]. split; [exact (prim_GetParams w ws HR)|].
  split; [exact (prim_GetParamMaxStorageLimit w ws HR)|]. split; [exact (prim_GetParamDefaultStorageLimit w ws HR)|].
  split; [intros; apply prim_GetEntity; assumption|]. split; [intros; apply prim_IsRegistered; assumption|].
  split; [intros; apply prim_IsAuthorisedToRecord; assumption|]. split; [intros; apply prim_GetStorageLimit; assumption|].
  split; [intros; apply prim_GetRecord; assumption|]. split; [intros; apply prim_SetEntity; assumption|].
  split; [intros; apply prim_SetHighestID; assumption|]. split; [intros; apply prim_SetStorageLimit; assumption|].
  split; [intros; apply prim_SetRecord; assumption|]. split; [intros; apply prim_DeleteRecord; assumption|].
  intros; apply prim_SetParams; assumption.
Qed.

Theorem sim_keeper w ws : Rwi w ws ->
  (forall id, u64 id -> S.go_GetMaxPurchasableSlots ws id = K.go_GetMaxPurchasableSlots w id) /\
  (forall id amount, u64 id -> sim (K.go_IncreaseInStateStorage w id amount) (S.go_IncreaseInStateStorage ws id amount)) /\
  (forall beacon, sim (K.go_RegisterNewBeacon w beacon) (S.go_RegisterNewBeacon ws beacon)) /\
  (forall id hash submitTime, u64 id ->
     sim (K.go_RecordNewBeaconTimestamp w id hash submitTime) (S.go_RecordNewBeaconTimestamp ws id hash submitTime)).
Proof.
  intros HR.
  split; [intros; apply os_GetMaxPurchasableSlots_eq; assumption|].
  split; [intros; apply sim_IncreaseInStateStorage; assumption|].
  split; [intros; apply sim_RegisterNewBeacon; assumption | intros; apply sim_RecordNewBeaconTimestamp; assumption].
Qed.

Theorem sim_msg_server w ws : Rwi w ws ->
  (forall msg, sim (K.go_RegisterBeacon w msg) (S.go_RegisterBeacon ws msg)) /\
  (forall msg, u64 (MsgRecordBeaconTimestamp_BeaconId msg) ->
     sim (K.go_RecordBeaconTimestamp w msg) (S.go_RecordBeaconTimestamp ws msg)) /\
  (forall msg, u64 (MsgPurchaseBeaconStateStorage_BeaconId msg) ->
     sim (K.go_PurchaseBeaconStateStorage w msg) (S.go_PurchaseBeaconStateStorage ws msg)) /\
  (forall req, params_ok (MsgUpdateParams_Params req) -> sim (K.go_UpdateParams w req) (S.go_UpdateParams ws req)).
Proof.
  intros HR.
  split; [intros; apply sim_RegisterBeacon; assumption|]. split; [intros; apply sim_RecordBeaconTimestamp; assumption|].
  split; [intros; apply sim_PurchaseBeaconStateStorage; assumption | intros; apply sim_UpdateParams; assumption].
Qed.

(* the pure functions of the two files are the same functions *)
Theorem pure_functions_agree :
  (forall i, S.go_validateFeeDenom i = K.go_validateFeeDenom i) /\
  (forall i, S.go_validateFeeRegister i = K.go_validateFeeRegister i) /\
  (forall i, S.go_validateFeeRecord i = K.go_validateFeeRecord i) /\
  (forall i, S.go_validateFeePurchaseStorage i = K.go_validateFeePurchaseStorage i) /\
  (forall i, S.go_validateDefaultStorageLimit i = K.go_validateDefaultStorageLimit i) /\
  (forall i, S.go_validateMaxStorageLimit i = K.go_validateMaxStorageLimit i) /\
  (forall p, S.go_Params_Validate p = K.go_Params_Validate p) /\
  (forall m, S.go_MsgRegisterBeacon_ValidateBasic m = K.go_MsgRegisterBeacon_ValidateBasic m) /\
  (forall m, S.go_MsgRecordBeaconTimestamp_ValidateBasic m = K.go_MsgRecordBeaconTimestamp_ValidateBasic m) /\
  (forall m, S.go_MsgPurchaseBeaconStateStorage_ValidateBasic m = K.go_MsgPurchaseBeaconStateStorage_ValidateBasic m).
Proof. repeat split. Qed.

(* the history theorem with the side conditions spelled out, from Rw and lowest_ok *)
Theorem sim_run_spelled h w ws : Rw w ws -> lowest_ok (rw_reg w) ->
  Forall (fun tm => match snd tm with
                    | KReg (RRegister _ _ _ _ _) => True
                    | KReg (RRecord _ id _ _) | KReg (RPurchase _ id _) => 0 <= id < 2 ^ 64
                    | KUpdateParams req =>
                        let p := MsgUpdateParams_Params req in
                        (0 <= Params_FeeRegister p /\ 0 <= Params_FeeRecord p /\ 0 <= Params_FeePurchaseStorage p /\
                         0 <= Params_DefaultStorageLimit p) /\
                        (0 <= Params_Denom p \/ Params_Denom p = go_zero_denom)
                    end) h ->
  fst (k_run w h) = fst (s_run ws h) /\
  Rw (snd (k_run w h)) (snd (s_run ws h)) /\ lowest_ok (rw_reg (snd (k_run w h))).
Proof.
  intros HR HL HD.
  destruct (sim_run h w ws (conj HR HL)) as (E & HR' & HL').
  - eapply Forall_impl; [|exact HD].
    intros [t [[o moniker name genesis type | o id key hashes | o id n]|req]] H; exact H.
  - split; [exact E | split; assumption].
Qed.

Lemma ok_spelled m km p :
  (msg_ok m <-> match m with RRegister _ _ _ _ _ => True | RRecord _ id _ _ | RPurchase _ id _ => 0 <= id < 2 ^ 64 end) /\
  (kmsg_ok km <-> match km with KReg m => msg_ok m | KUpdateParams req => params_ok (MsgUpdateParams_Params req) end) /\
  (params_ok p <->
   (0 <= Params_FeeRegister p /\ 0 <= Params_FeeRecord p /\ 0 <= Params_FeePurchaseStorage p /\
    0 <= Params_DefaultStorageLimit p) /\ (0 <= Params_Denom p \/ Params_Denom p = go_zero_denom)) /\
  (forall st, lowest_ok st <-> forall id rg, aget id (r_regs st) = Some rg -> 0 <= rg_lowest rg < 2 ^ 64).
Proof.
  split; [destruct m; reflexivity|]. split; [destruct km; reflexivity|]. split; [reflexivity|]. intros st. reflexivity.
Qed.

(* ================================================================== *)
(* part 6: a concrete run                                               *)
(* ================================================================== *)

Local Open Scope string_scope.

(* the genesis of proofs/GeneratedBeaconEq.v (fees 1, denomination 0, default limit 2, maximum 10; first id 1) on the byte
   store: a Params cell and the HighestBeaconID cell, exactly what SetParams + SetHighestBeaconID write into [] *)
Definition ex_gp : go_Params := params_to_go ex_params.
Definition ex_gp2 : go_Params := mk_go_Params 5 6 7 0 3 20.
Definition ex_store0 : okv beacon_val :=
  [(beacon_ParamsKey, BV_Params ex_gp); (beacon_HighestBeaconIDKey, BV_bytes (be64 1%N))].
Definition ex_bs0 : bsworld := mk_bsworld 0 0 ex_store0.
Definition ex_rw0 : rworld := mk_rworld 0 0 (reg_init ex_params 1).

Example ex_store0_init :
  (do x <- go_st_SetParams [] ex_gp; go_st_SetHighestBeaconID (fst x) 1) = Ok (ex_store0, tt).
Proof. vm_compute. reflexivity. Qed.

Lemma ex_Rw0 : Rw ex_rw0 ex_bs0.
Proof.
  unfold Rw, ex_rw0, ex_bs0. cbn [rw_now rw_wall rw_reg bsw_now bsw_wall bsw_store].
  split; [reflexivity | split; [reflexivity|]].
  change (reg_init ex_params 1) with (init_state ex_gp 1).
  apply (init_refines ex_gp 1 [(beacon_ParamsKey, BV_Params ex_gp)] ex_store0);
    [vm_compute; reflexivity | vm_compute; reflexivity | apply u64_of_range; vm_compute; split; [discriminate | reflexivity]].
Qed.

Lemma ex_Rwi0 : Rwi ex_rw0 ex_bs0.
Proof. split; [exact ex_Rw0 | intros id rg G; discriminate G]. Qed.

(* register; three timestamps (the third prunes id 1: the limit is 2); a timestamp by a stranger (refused); the owner buys
   3 slots; an UpdateParams by account 7 (refused: not the authority); UpdateParams by the authority.  Every message is
   delivered under its own wall clock. *)
Definition ex_khist : list ((Z * Z) * kmsg) :=
  [ ((1700000000, 11), KReg (RRegister 7 "m" "n" "" ""));
    ((1700000010, 12), KReg (RRecord 7 1 1700000005 ["a"]));
    ((1700000020, 13), KReg (RRecord 7 1 1700000015 ["b"]));
    ((1700000030, 14), KReg (RRecord 7 1 1700000025 ["c"]));
    ((1700000035, 15), KReg (RRecord 8 1 1700000031 ["x"]));
    ((1700000040, 16), KReg (RPurchase 7 1 3));
    ((1700000045, 17), KUpdateParams (mk_go_MsgUpdateParams 7 ex_gp2));
    ((1700000050, 18), KUpdateParams (mk_go_MsgUpdateParams GOV_MACC ex_gp2)) ].

Lemma ex_u64_small x : 0 <= x < 1000 -> u64 x.
Proof. intros H. apply u64_of_range. unfold two64. lia. Qed.

Lemma ex_khist_ok : Forall (fun tm => kmsg_ok (snd tm)) ex_khist.
Proof.
  unfold ex_khist. repeat (apply Forall_cons; [cbn [snd kmsg_ok msg_ok MsgUpdateParams_Params]|]); try apply Forall_nil;
    try exact I; try (apply ex_u64_small; lia);
    (split; [unfold bcn_params_nonneg; cbn; lia | left; cbn; lia]).
Qed.

(* the on-store rendering runs: the results of the eight messages, and the final byte store - six cells: the Beacon
   (9-byte key), the two timestamps left (17-byte keys), the storage limit, the parameters, the counter *)
Example ex_onstore_run :
  fst (s_run ex_bs0 ex_khist) =
    [ Ok (KRReg (RespRegistered 1)); Ok (KRReg (RespRecorded 1 1)); Ok (KRReg (RespRecorded 1 2));
      Ok (KRReg (RespRecorded 1 3)); Err ERR_REG_NOT_OWNER; Ok (KRReg (RespPurchased 1 3 5)); Err 42; Ok KRParams ] /\
  map (fun kv => List.length (fst kv)) (bsw_store (snd (s_run ex_bs0 ex_khist))) = [9; 17; 17; 9; 1; 1]%nat /\
  os_reg_GetEntity (snd (s_run ex_bs0 ex_khist)) 1 = Ok (mk_go_Beacon 1 "m" "n" 3 2 2 1700000000 7, true) /\
  go_st_GetAllBeaconTimestamps (bsw_store (snd (s_run ex_bs0 ex_khist))) 1 =
    Ok [mk_go_BeaconTimestamp 2 1700000015 "b"; mk_go_BeaconTimestamp 3 1700000025 "c"] /\
  os_reg_GetStorageLimit (snd (s_run ex_bs0 ex_khist)) 1 = Ok (mk_go_BeaconStorageLimit 1 5, true) /\
  os_reg_GetHighestID (snd (s_run ex_bs0 ex_khist)) = Ok 2 /\
  os_reg_GetParams (snd (s_run ex_bs0 ex_khist)) = Ok ex_gp2.
Proof. vm_compute. repeat split; reflexivity. Qed.

(* ... and it is related to the run of rendering (1): by the theorem, and by computation *)
Example ex_onstore_related :
  fst (k_run ex_rw0 ex_khist) = fst (s_run ex_bs0 ex_khist) /\
  Rw (snd (k_run ex_rw0 ex_khist)) (snd (s_run ex_bs0 ex_khist)) /\
  lowest_ok (rw_reg (snd (k_run ex_rw0 ex_khist))).
Proof.
  destruct (sim_run ex_khist ex_rw0 ex_bs0 ex_Rwi0 ex_khist_ok) as (E & R & L).
  split; [exact E | split; [exact R | exact L]].
Qed.

Example ex_onstore_traces_computed : fst (k_run ex_rw0 ex_khist) = fst (s_run ex_bs0 ex_khist).
Proof. vm_compute. reflexivity. Qed.

(* the first four messages as a history of the model: the byte store represents the MODEL's state *)
Example ex_onstore_is_model :
  exists w', Rwi w' (snd (s_run ex_bs0 (lift_hist 0 ex_history))) /\
             rw_reg w' = fst (reg_run false (reg_init ex_params 1, ghost_init) ex_history) /\
             keys_of 1 (r_recs (rw_reg w')) = [2; 3].
Proof.
  destruct (os_run_is_model 0 ex_history ex_rw0 ex_bs0 ghost_init 1 ex_Rw0) as (w' & HR & Es & _ & _).
  - apply reg_inv_init; [reflexivity | apply Z.le_refl].
  - unfold bcn_bounded, ex_rw0, reg_init. cbn [rw_reg r_next r_params r_limits r_regs aget ex_params rp_max_limit rp_default_limit].
    split; [lia|]. split; [reflexivity|]. split; [lia|]. split; intros; discriminate.
  - reflexivity.
  - unfold bcn_hist_ok, ex_history.
    repeat (apply Forall_cons; [cbn [fst snd reg_msg_wf]|]); try apply Forall_nil;
      (split; [unfold RegistrySpec.u64, two64; lia|]); (split; [unfold two63; lia|]);
      intros o id key hashes [= <- <- <- <-]; reflexivity.
  - exists w'. split; [exact HR|]. split; [exact Es|]. rewrite Es. vm_compute. reflexivity.
Qed.

(* ---- lowest_ok cannot be dropped ----
   After register / "a" / "b" (BEACON 1 holds the timestamps 1 and 2, its limit is 2), overwrite its FirstIdInState by
   2^64 + 1 with SetBeacon on both sides: Rw still holds (Rreg says nothing of that field).  The next timestamp exceeds the
   limit and prunes "FirstIdInState": the primitive deletes the record keyed (1, 2^64+1) - there is none -, the generated
   deleteBeaconTimestamp builds the key from the low 8 bytes and deletes timestamp 1.  Both calls return Ok and the same
   pair, but the worlds are no longer related. *)
Definition ex_bad_beacon : go_Beacon := mk_go_Beacon 1 "m" "n" 2 (2 ^ 64 + 1) 2 1700000000 7.
Definition ex_rw_mid : rworld := snd (k_run ex_rw0 (firstn 3 ex_khist)).
Definition ex_bs_mid : bsworld := snd (s_run ex_bs0 (firstn 3 ex_khist)).
Definition ex_rw_bad : rworld := match reg_SetEntity ex_rw_mid ex_bad_beacon with Ok (w, _) => w | _ => ex_rw_mid end.
Definition ex_bs_bad : bsworld := match os_reg_SetEntity ex_bs_mid ex_bad_beacon with Ok (w, _) => w | _ => ex_bs_mid end.

Lemma ex_Rw_bad : Rw ex_rw_bad ex_bs_bad.
Proof.
  assert (HM : Rwi ex_rw_mid ex_bs_mid).
  { refine (proj2 (sim_run (firstn 3 ex_khist) ex_rw0 ex_bs0 ex_Rwi0 _)).
    unfold ex_khist. cbn [firstn].
    repeat (apply Forall_cons; [cbn [snd kmsg_ok msg_ok]|]); try apply Forall_nil; try exact I; apply ex_u64_small; lia. }
  destruct HM as [(Hn & Hw & HR) _].
  pose proof (SetEntity_sim _ _ ex_bad_beacon HR (ex_u64_small 1 ltac:(lia))) as H.
  unfold ex_rw_bad, ex_bs_bad, os_reg_SetEntity, lift_w.
  unfold reg_SetEntity, reg_put_entity in *. unfold sim_res in H.
  destruct (go_st_SetBeacon (bsw_store ex_bs_mid) ex_bad_beacon) as [[s' []]|e|p]; cbn [obind fst]; try contradiction.
  unfold Rw, with_bstore. cbn [rw_now rw_wall rw_reg with_reg bsw_now bsw_wall bsw_store].
  split; [exact Hn | split; [exact Hw | exact H]].
Qed.

Example ex_lowest_ok_needed :
  Rw ex_rw_bad ex_bs_bad /\ ~ lowest_ok (rw_reg ex_rw_bad) /\
  exists w' ws',
    K.go_RecordNewBeaconTimestamp ex_rw_bad 1 "c" 1700000025 = Ok (w', (3, 2 ^ 64 + 1)) /\
    S.go_RecordNewBeaconTimestamp ex_bs_bad 1 "c" 1700000025 = Ok (ws', (3, 2 ^ 64 + 1)) /\
    reg_GetRecord w' 1 1 = (mk_go_BeaconTimestamp 1 1700000005 "a", true) /\
    os_reg_GetRecord ws' 1 1 = Ok (zero_go_BeaconTimestamp, false) /\
    ~ Rw w' ws'.
Proof.
  split; [exact ex_Rw_bad|]. split.
  - intros L. assert (G : aget 1 (r_regs (rw_reg ex_rw_bad)) = Some (of_go_entity ex_bad_beacon)) by (vm_compute; reflexivity).
    pose proof (u64_range _ (L 1 _ G)) as H. cbn in H. unfold two64 in H. lia.
  - destruct (K.go_RecordNewBeaconTimestamp ex_rw_bad 1 "c" 1700000025) as [[w' r]|e|p] eqn:EK;
      [|exfalso; vm_compute in EK; discriminate EK ..].
    destruct (S.go_RecordNewBeaconTimestamp ex_bs_bad 1 "c" 1700000025) as [[ws' r']|e|p] eqn:ES;
      [|exfalso; vm_compute in ES; discriminate ES ..].
    assert (Er : r = (3, 2 ^ 64 + 1)) by (vm_compute in EK; injection EK as _ <-; reflexivity).
    assert (Er' : r' = (3, 2 ^ 64 + 1)) by (vm_compute in ES; injection ES as _ <-; reflexivity).
    assert (G1 : reg_GetRecord w' 1 1 = (mk_go_BeaconTimestamp 1 1700000005 "a", true))
      by (vm_compute in EK; injection EK as <- _; vm_compute; reflexivity).
    assert (G2 : os_reg_GetRecord ws' 1 1 = Ok (zero_go_BeaconTimestamp, false))
      by (vm_compute in ES; injection ES as <- _; vm_compute; reflexivity).
    exists w', ws'. subst r r'. split; [reflexivity|]. split; [reflexivity|]. split; [exact G1|]. split; [exact G2|].
    intros (_ & _ & HR).
    pose proof (GetRecord_refines _ _ HR 1 1 (ex_u64_small 1 ltac:(lia)) (ex_u64_small 1 ltac:(lia))) as H.
    unfold os_reg_GetRecord in G2. rewrite G2, G1 in H. discriminate H.
Qed.

(* the runs, spelled out *)
Lemma runs_spelled w ws t m h :
  k_run w [] = ([], w) /\ s_run ws [] = ([], ws) /\
  k_run w ((t, m) :: h) =
    match k_deliver (rw_at t w) m with
    | Ok (w', r) => (Ok r :: fst (k_run w' h), snd (k_run w' h))
    | Err e => (Err e :: fst (k_run (rw_at t w) h), snd (k_run (rw_at t w) h))
    | Panic c => (Panic c :: fst (k_run (rw_at t w) h), snd (k_run (rw_at t w) h))
    end /\
  s_run ws ((t, m) :: h) =
    match s_deliver (bs_at t ws) m with
    | Ok (ws', r) => (Ok r :: fst (s_run ws' h), snd (s_run ws' h))
    | Err e => (Err e :: fst (s_run (bs_at t ws) h), snd (s_run (bs_at t ws) h))
    | Panic c => (Panic c :: fst (s_run (bs_at t ws) h), snd (s_run (bs_at t ws) h))
    end /\
  rw_at t w = mk_rworld (fst t * NSEC) (snd t) (rw_reg w) /\
  bs_at t ws = mk_bsworld (fst t * NSEC) (snd t) (bsw_store ws).
Proof.
  split; [reflexivity|]. split; [reflexivity|]. split.
  - unfold k_run. cbn [hrun]. destruct (k_deliver (rw_at t w) m) as [[w' r]|e|p]; reflexivity.
  - split; [|split; reflexivity].
    unfold s_run. cbn [hrun]. destruct (s_deliver (bs_at t ws) m) as [[w' r]|e|p]; reflexivity.
Qed.

Lemma delivers_spelled w ws m req wall h :
  k_deliver w (KReg m) = (do _ <- bcn_validate_basic m; do (w', r) <- bcn_msg_exec w m; Ok (w', KRReg r)) /\
  k_deliver w (KUpdateParams req) = (do (w', _) <- K.go_UpdateParams w req; Ok (w', KRParams)) /\
  s_deliver ws (KReg m) = (do _ <- os_validate_basic m; do (w', r) <- os_msg_exec ws m; Ok (w', KRReg r)) /\
  s_deliver ws (KUpdateParams req) = (do (w', _) <- S.go_UpdateParams ws req; Ok (w', KRParams)) /\
  os_validate_basic m = bcn_validate_basic m /\
  lift_hist wall h = map (fun tm => ((fst tm, wall), KReg (snd tm))) h.
Proof. repeat split. Qed.

Print Assumptions sim_primitives.
Print Assumptions os_GetMaxPurchasableSlots_eq.
Print Assumptions sim_IncreaseInStateStorage.
Print Assumptions sim_RegisterNewBeacon.
Print Assumptions sim_RecordNewBeaconTimestamp.
Print Assumptions sim_RegisterBeacon.
Print Assumptions sim_RecordBeaconTimestamp.
Print Assumptions sim_PurchaseBeaconStateStorage.
Print Assumptions sim_UpdateParams.
Print Assumptions sim_keeper.
Print Assumptions sim_msg_server.
Print Assumptions pure_functions_agree.
Print Assumptions sim_msg_exec.
Print Assumptions sim_deliver.
Print Assumptions sim_run.
Print Assumptions sim_run_spelled.
Print Assumptions k_run_lift.
Print Assumptions os_record_is_model.
Print Assumptions os_exec_is_model.
Print Assumptions os_run_is_model.
Print Assumptions os_accepted_record_immutable.
Print Assumptions os_capacity.
Print Assumptions os_purchase_is_model.
Print Assumptions os_retained_is_newest_suffix.
Print Assumptions os_register_is_model.
Print Assumptions os_owner_only.
Print Assumptions os_ids_sequential.
Print Assumptions ex_onstore_run.
Print Assumptions ex_onstore_related.
Print Assumptions ex_onstore_is_model.
Print Assumptions ex_lowest_ok_needed.

Lemma ex_bad_defs :
  ex_bad_beacon = mk_go_Beacon 1 "m" "n" 2 (2 ^ 64 + 1) 2 1700000000 7 /\
  ex_rw_mid = snd (k_run ex_rw0 (firstn 3 ex_khist)) /\ ex_bs_mid = snd (s_run ex_bs0 (firstn 3 ex_khist)) /\
  reg_SetEntity ex_rw_mid ex_bad_beacon = Ok (ex_rw_bad, tt) /\
  os_reg_SetEntity ex_bs_mid ex_bad_beacon = Ok (ex_bs_bad, tt).
Proof.
  split; [reflexivity|]. split; [reflexivity|]. split; [reflexivity|]. split; [reflexivity|].
  vm_compute. reflexivity.
Qed.
Print Assumptions ex_bad_defs.
