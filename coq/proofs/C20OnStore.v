(* C20 ON THE BYTES.  props/C20generated.v states C20 ("list queries are complete, duplicate-free, consistent with
   point queries") for the pages produced with the GENERATED FilteredPaginate callbacks over an ABSTRACT listing
   [items : list (N * V)] that is assumed to be "the store's listing in key order".  This file instantiates that
   listing with what the prefix store really yields on the byte-keyed store of model/KVStore.v:

       store_items s  =  the entries of  okv_prefix s <entity prefix>,  the key decoded to the numeric id
                         (strip the one prefix byte, de64), the value decoded (the typed constructor)

   and restates C20 for the three list queries (x/wrkchain WrkChainsFiltered, x/beacon BeaconsFiltered, x/enterprise
   EnterpriseUndPurchaseOrders) in terms of the store [s] and the GENERATED point reader / listing / writer of
   Generated{Wrkchain,Beacon,Enterprise}Store.v only:
     1. store_items: keys strictly ascending, key = id of the value, listed <-> point reader, = generated listing;
     2. the four client walks (by key / by offset, forward / reverse) = the matching stored entities in id order, each
        once; a single page (any request) is sound; count_total = number of matching stored entities;
     3. every item is what the point reader answers for its id; every entity the point reader finds is on the walk;
     4. after the generated writer the walk lists the written entity and, for the other ids, what was there before;
     5. vm_compute runs on stores built with the generated writers, and *_refuted examples for the hypotheses.
   The three x/stream list queries (GenericFilteredPaginate, key-parsing callbacks, byte-string keys) are treated at the
   end (Module Str) over the hand-written pagination model, with ranks as numeric keys.

   Layout: Section OnStore is the development once, for an abstract entity kind stored under  p :: be64 id ;
   Modules Wrk / Bcn / Ent instantiate it (the StoreEq files use clashing names, hence the modules: the files are
   Required at the top and Imported inside the module that needs them).  Statements: props/C20onstore.v. *)
From Coq Require Import ZArith NArith List Bool Lia Sorted.
From MC Require Import lib.Prelude lib.GoSdk model.Keys model.KeyPrims model.KVStore model.StoreCodecPrims.
From MC Require Import proofs.KeysProofs proofs.KVStoreFacts proofs.KVStoreFacts2Wrkchain.
From MC Require Import model.Paginate model.PaginateCallback model.QueryFilterSpec.
From MC Require Import proofs.PaginateProofs proofs.PaginateCallbackEq.
From MC Require GeneratedKeys proofs.GeneratedKeysEq.
From MC Require GeneratedWrkchainTypes GeneratedWrkchainKeeper GeneratedWrkchainStore proofs.GeneratedWrkchainStoreEq
  proofs.GeneratedWrkchainQueryEq.
From MC Require GeneratedBeaconTypes GeneratedBeaconKeeper GeneratedBeaconStore proofs.GeneratedBeaconStoreEq
  proofs.GeneratedBeaconQueryEq.
From MC Require GeneratedEnterpriseTypes GeneratedEnterpriseKeeper GeneratedEnterpriseStore proofs.GeneratedEnterpriseStoreEq
  proofs.GeneratedEnterpriseListQueryEq.
From MC Require GeneratedStreamTypes GeneratedStreamStore proofs.GeneratedStreamStoreEq.
Import ListNotations.
Open Scope Z_scope.
Local Notation length := List.length.

(* ================================================================== *)
(* 0. small list facts                                                  *)
(* ================================================================== *)

Lemma u64N x : 0 <= x < 2 ^ 64 -> (Z.to_N x < 2 ^ 64)%N.
Proof. intros H. change (2 ^ 64)%N with (Z.to_N (2 ^ 64)). apply Z2N.inj_lt; lia. Qed.

Lemma StronglySorted_filter {A} (R : A -> A -> Prop) (f : A -> bool) (l : list A) :
  StronglySorted R l -> StronglySorted R (filter f l).
Proof.
  intros H. induction H as [|a l Hs IH Hall]; cbn; [constructor|].
  destruct (f a); [|exact IH]. constructor; [exact IH|].
  rewrite Forall_forall in *. intros y Hy. apply filter_In in Hy. apply Hall. exact (proj1 Hy).
Qed.

Lemma StronglySorted_snoc {A} (R : A -> A -> Prop) (l : list A) (a : A) :
  StronglySorted R l -> Forall (fun y => R y a) l -> StronglySorted R (l ++ [a]).
Proof.
  intros H. induction H as [|b l Hs IH Hall]; intros Ha; cbn.
  - constructor; constructor.
  - inversion Ha as [|? ? Hba Ha']; subst. constructor; [apply IH; exact Ha'|].
    apply Forall_app. split; [exact Hall | constructor; [exact Hba | constructor]].
Qed.

Lemma StronglySorted_rev {A} (R : A -> A -> Prop) (l : list A) :
  StronglySorted R l -> StronglySorted (fun a b => R b a) (rev l).
Proof.
  intros H. induction H as [|a l Hs IH Hall]; cbn; [constructor|].
  apply StronglySorted_snoc; [exact IH|]. apply Forall_rev. exact Hall.
Qed.

Lemma NoDup_map_in_inj {A B} (f : A -> B) (l : list A) :
  (forall a b, In a l -> In b l -> f a = f b -> a = b) -> NoDup l -> NoDup (map f l).
Proof.
  intros Hinj H. induction H as [|a l Hn Hd IH]; cbn; constructor.
  - intros Hin. apply in_map_iff in Hin. destruct Hin as [b [E Hb]].
    assert (b = a) by (apply Hinj; [right; exact Hb | left; reflexivity | exact E]). subst b. exact (Hn Hb).
  - apply IH. intros x y Hx Hy. apply Hinj; right; assumption.
Qed.

Lemma filter_length_le_os {A} (f : A -> bool) (l : list A) : (length (filter f l) <= length l)%nat.
Proof. induction l as [|a l IH]; cbn; [lia|]. destruct (f a); cbn; lia. Qed.

(* the four client walks of model/PaginateCallback.v over one listing *)
Definition four_walks {X} (fuel : nat) (items : list (N * X)) (cb : X -> bool -> list X -> outcome (list X * bool))
  (limit : N) : list (list X) :=
  [ all_pages_by_key_cb fuel items cb limit; all_pages_by_offset_cb fuel items cb limit;
    all_pages_by_key_rev_cb fuel items cb limit; all_pages_by_offset_rev_cb fuel items cb limit ].

(* ================================================================== *)
(* 1. one entity kind stored under  p :: be64 id                        *)
(* ================================================================== *)
Section OnStore.
  Context {V X : Type}.
  Variable inj : X -> V.          (* the typed constructor: k.cdc.MustMarshal *)
  Variable prj : V -> X.          (* its decoding (an arbitrary value on the other constructors) *)
  Variable idof : X -> Z.         (* the id field *)
  Variable p : N.                 (* the section's prefix byte *)
  Hypothesis prj_inj : forall x, prj (inj x) = x.

  Definition ekey (n : N) : list N := p :: be64 n.
  Definition eitem (kv : list N * V) : N * X := (de64 (strip_prefix [p] (fst kv)), prj (snd kv)).
  (* the listing FilteredPaginate walks: (numeric key, decoded value), in the order of the prefix iterator *)
  Definition entity_items (s : okv V) : list (N * X) := map eitem (okv_prefix s [p]).
  Definition entity_listing (s : okv V) : list X := map (fun kv => prj (snd kv)) (okv_prefix s [p]).
  (* what the module's well-formedness predicate says about the section *)
  Definition entity_wf (s : okv V) : Prop :=
    forall k v, In (k, v) s -> is_prefix [p] k = true ->
      exists x, v = inj x /\ 0 <= idof x < 2 ^ 64 /\ k = ekey (Z.to_N (idof x)).

  Lemma ekey_under n : is_prefix [p] (ekey n) = true.
  Proof. unfold ekey. cbn. rewrite N.eqb_refl. reflexivity. Qed.

  Lemma eitem_ekey n v : (n < 2 ^ 64)%N -> eitem (ekey n, v) = (n, prj v).
  Proof.
    intros H. unfold eitem, ekey, strip_prefix. cbn [fst snd List.length skipn]. rewrite de64_be64 by exact H. reflexivity.
  Qed.

  Lemma wf_entry s : entity_wf s -> forall k v, In (k, v) (okv_prefix s [p]) ->
    exists x, v = inj x /\ 0 <= idof x < 2 ^ 64 /\ k = ekey (Z.to_N (idof x)).
  Proof. intros Hw k v Hin. apply prefix_in in Hin. destruct Hin as [Hin Hp]. exact (Hw k v Hin Hp). Qed.

  Lemma items_snd s : map snd (entity_items s) = entity_listing s.
  Proof. unfold entity_items, entity_listing. rewrite map_map. reflexivity. Qed.

  Lemma items_length s : length (entity_items s) = length (entity_listing s).
  Proof. unfold entity_items, entity_listing. rewrite !map_length. reflexivity. Qed.

  Lemma items_length_le s : (length (entity_items s) <= length s)%nat.
  Proof. unfold entity_items, okv_prefix. rewrite map_length. apply filter_length_le_os. Qed.

  (* every item's key is the id stored in its value *)
  Lemma items_eq s : entity_wf s -> entity_items s = map (fun x => (Z.to_N (idof x), x)) (entity_listing s).
  Proof.
    intros Hw. unfold entity_items, entity_listing. rewrite map_map. apply map_ext_in. intros [k v] Hin.
    destruct (wf_entry s Hw k v Hin) as [x [-> [R ->]]]. rewrite eitem_ekey by (apply u64N, R).
    cbn [snd]. rewrite prj_inj. reflexivity.
  Qed.

  Lemma items_key_is_id s n x : entity_wf s -> In (n, x) (entity_items s) ->
    0 <= idof x < 2 ^ 64 /\ n = Z.to_N (idof x) /\ Z.of_N n = idof x.
  Proof.
    intros Hw Hin. unfold entity_items in Hin. apply in_map_iff in Hin. destruct Hin as [[k v] [E Hin]].
    destruct (wf_entry s Hw k v Hin) as [x' [-> [R ->]]]. rewrite eitem_ekey in E by (apply u64N, R).
    rewrite prj_inj in E. injection E as <- <-. split; [exact R|]. split; [reflexivity | apply Z2N.id; lia].
  Qed.

  (* keys strictly ascending *)
  Lemma items_keys_strongly_sorted s : okv_sorted s = true -> entity_wf s ->
    StronglySorted N.lt (map fst (entity_items s)).
  Proof.
    intros Hs Hw. unfold entity_items. rewrite map_map.
    apply (StronglySorted_map_in key_lt); [|apply sorted_strongly, prefix_sorted, Hs].
    intros [ka va] [kb vb] Ha Hb Hlt.
    destruct (wf_entry s Hw _ _ Ha) as [xa [-> [Ra ->]]]. destruct (wf_entry s Hw _ _ Hb) as [xb [-> [Rb ->]]].
    rewrite !eitem_ekey by (apply u64N; assumption). cbn [fst]. unfold key_lt in Hlt; cbn [fst] in Hlt.
    apply order_cons_be64 in Hlt; [exact Hlt | apply wf_id_lt, u64N; assumption ..].
  Qed.

  Lemma items_keys_sorted s : okv_sorted s = true -> entity_wf s -> Sorted N.lt (map fst (entity_items s)).
  Proof. intros Hs Hw. apply StronglySorted_Sorted, items_keys_strongly_sorted; assumption. Qed.

  Lemma items_keys_nodup s : okv_sorted s = true -> entity_wf s -> NoDup (map fst (entity_items s)).
  Proof.
    intros Hs Hw. eapply StronglySorted_irrefl_NoDup; [|apply items_keys_strongly_sorted; assumption].
    intros a. apply N.lt_irrefl.
  Qed.

  Lemma listing_sorted s : okv_sorted s = true -> entity_wf s ->
    StronglySorted (fun a b => idof a < idof b) (entity_listing s).
  Proof.
    intros Hs Hw. unfold entity_listing.
    apply (StronglySorted_map_in key_lt); [|apply sorted_strongly, prefix_sorted, Hs].
    intros [ka va] [kb vb] Ha Hb Hlt.
    destruct (wf_entry s Hw _ _ Ha) as [xa [-> [Ra ->]]]. destruct (wf_entry s Hw _ _ Hb) as [xb [-> [Rb ->]]].
    cbn [snd]. rewrite !prj_inj. unfold key_lt in Hlt; cbn [fst] in Hlt.
    apply order_cons_be64 in Hlt; [|apply wf_id_lt, u64N; assumption ..]. apply Z2N.inj_lt; lia.
  Qed.

  (* listed iff the cell at the entity's key holds it *)
  Lemma listing_in_iff s x : okv_sorted s = true -> entity_wf s ->
    (In x (entity_listing s) <-> okv_get s (ekey (Z.to_N (idof x))) = Some (inj x)).
  Proof.
    intros Hs Hw. unfold entity_listing. split.
    - intros Hin. apply in_map_iff in Hin. destruct Hin as [[k v] [E Hin]].
      destruct (wf_entry s Hw k v Hin) as [x' [-> [R ->]]]. cbn [snd] in E. rewrite prj_inj in E. subst x'.
      apply prefix_in in Hin. apply (in_get _ _ _ Hs), (proj1 Hin).
    - intros G. apply in_map_iff. exists (ekey (Z.to_N (idof x)), inj x). split; [cbn [snd]; apply prj_inj|].
      apply prefix_in. split; [apply get_in, G | apply ekey_under].
  Qed.

  (* whatever the point read finds under ANY key of the section is listed *)
  Lemma found_listed s n x : okv_get s (ekey n) = Some (inj x) -> In x (entity_listing s).
  Proof.
    intros G. unfold entity_listing. apply in_map_iff. exists (ekey n, inj x). split; [cbn [snd]; apply prj_inj|].
    apply prefix_in. split; [apply get_in, G | apply ekey_under].
  Qed.

  Lemma items_in_iff s n x : okv_sorted s = true -> entity_wf s -> (n < 2 ^ 64)%N ->
    (In (n, x) (entity_items s) <-> okv_get s (ekey n) = Some (inj x)).
  Proof.
    intros Hs Hw Hn. split.
    - intros Hin. destruct (items_key_is_id s n x Hw Hin) as [_ [-> _]].
      apply (proj1 (listing_in_iff s x Hs Hw)). rewrite <- items_snd. apply in_map_iff. exists (Z.to_N (idof x), x). split; [reflexivity | exact Hin].
    - intros G. unfold entity_items. apply in_map_iff. exists (ekey n, inj x).
      split; [rewrite eitem_ekey by exact Hn; rewrite prj_inj; reflexivity|].
      apply prefix_in. split; [apply get_in, G | apply ekey_under].
  Qed.

  (* ---- the effect of the writer: one okv_set at the entity's key ---- *)
  Lemma wf_set_entity s x : entity_wf s -> 0 <= idof x < 2 ^ 64 ->
    entity_wf (okv_set s (ekey (Z.to_N (idof x))) (inj x)).
  Proof.
    intros Hw R k v Hin Hp. apply set_in in Hin. destruct Hin as [[-> ->]|Hin]; [|exact (Hw k v Hin Hp)].
    exists x. split; [reflexivity|]. split; [exact R | reflexivity].
  Qed.

  Lemma ekey_inj a b : (a < 2 ^ 64)%N -> (b < 2 ^ 64)%N -> ekey a = ekey b -> a = b.
  Proof. intros Ha Hb E. apply be64_inj; [assumption ..|]. exact (f_equal (@tl N) E). Qed.

  Lemma listing_after_set s x y : okv_sorted s = true -> entity_wf s -> 0 <= idof x < 2 ^ 64 ->
    (In y (entity_listing (okv_set s (ekey (Z.to_N (idof x))) (inj x))) <->
     y = x \/ (idof y <> idof x /\ In y (entity_listing s))).
  Proof.
    intros Hs Hw R. set (s' := okv_set s (ekey (Z.to_N (idof x))) (inj x)).
    assert (Hs' : okv_sorted s' = true) by (apply set_sorted, Hs).
    assert (Hw' : entity_wf s') by (apply wf_set_entity; assumption).
    split.
    - intros Hin. destruct (Z.eq_dec (idof y) (idof x)) as [E|Hne].
      + left. apply (listing_in_iff s' y Hs' Hw') in Hin. rewrite E in Hin. unfold s' in Hin. rewrite get_set_same in Hin.
        injection Hin as Hin. rewrite <- (prj_inj x), <- (prj_inj y), Hin. reflexivity.
      + right. split; [exact Hne|].
        assert (Ry : 0 <= idof y < 2 ^ 64).
        { rewrite <- items_snd in Hin. apply in_map_iff in Hin. destruct Hin as [[n y'] [E Hin]]. cbn [snd] in E. subst y'.
          exact (proj1 (items_key_is_id s' n y Hw' Hin)). }
        apply (listing_in_iff s' y Hs' Hw') in Hin. unfold s' in Hin. rewrite get_set_other in Hin.
        * apply (listing_in_iff s y Hs Hw). exact Hin.
        * intros E. apply ekey_inj in E; [|apply u64N; assumption ..]. apply Hne. apply Z2N.inj; lia.
    - intros [->|[Hne Hin]].
      + apply (listing_in_iff s' x Hs' Hw'). unfold s'. apply get_set_same.
      + assert (Ry : 0 <= idof y < 2 ^ 64).
        { rewrite <- items_snd in Hin. apply in_map_iff in Hin. destruct Hin as [[n y'] [E Hin]]. cbn [snd] in E. subst y'.
          exact (proj1 (items_key_is_id s n y Hw Hin)). }
        apply (listing_in_iff s' y Hs' Hw'). unfold s'. rewrite get_set_other.
        * apply (listing_in_iff s y Hs Hw). exact Hin.
        * intros E. apply ekey_inj in E; [|apply u64N; assumption ..]. apply Hne. apply Z2N.inj; lia.
  Qed.

  Lemma items_length_after_set s k v : (length (entity_items (okv_set s k v)) <= S (length (entity_items s)))%nat.
  Proof.
    unfold entity_items. rewrite !map_length. unfold okv_prefix.
    generalize (fun kv : list N * V => is_prefix [p] (fst kv)). intros f.
    induction s as [|[k' v'] r IH]; cbn [okv_set].
    - cbn [filter]. destruct (f (k, v)); cbn [List.length]; lia.
    - destruct (key_eqb k k') eqn:E.
      + cbn [filter]. destruct (f (k, v)); destruct (f (k', v')); cbn [List.length]; lia.
      + destruct (lex_lt k k'); cbn [filter].
        * destruct (f (k, v)); destruct (f (k', v')); cbn [List.length]; lia.
        * destruct (f (k', v')); cbn [List.length]; lia.
  Qed.

  (* ================================================================== *)
  (* 2. the generated accessors, abstractly                              *)
  (* ================================================================== *)
  Variable get : okv V -> Z -> outcome (X * bool).            (* go_st_Get<Entity> *)
  Variable getall : okv V -> outcome (list X).                (* go_st_GetAll<Entities> *)
  Hypothesis get_found : forall s id x, get s id = Ok (x, true) <-> okv_get s (ekey (Z.to_N id)) = Some (inj x).
  Hypothesis getall_typed : forall s, (forall k v, In (k, v) (okv_prefix s [p]) -> exists x, v = inj x) ->
    getall s = Ok (entity_listing s).

  Lemma getall_listing s : entity_wf s -> getall s = Ok (entity_listing s).
  Proof. intros Hw. apply getall_typed. intros k v Hin. destruct (wf_entry s Hw k v Hin) as [x [-> _]]. eauto. Qed.

  (* item 1 of the task, for the abstract kind *)
  Theorem os_items_facts s : okv_sorted s = true -> entity_wf s ->
    Sorted N.lt (map fst (entity_items s)) /\
    NoDup (map fst (entity_items s)) /\
    (forall n x, In (n, x) (entity_items s) -> 0 <= idof x < 2 ^ 64 /\ Z.of_N n = idof x) /\
    (forall n x, (n < 2 ^ 64)%N -> (In (n, x) (entity_items s) <-> get s (Z.of_N n) = Ok (x, true))) /\
    (exists l, getall s = Ok l /\ entity_items s = map (fun x => (Z.to_N (idof x), x)) l).
  Proof.
    intros Hs Hw. split; [apply items_keys_sorted; assumption|]. split; [apply items_keys_nodup; assumption|].
    split; [|split].
    - intros n x Hin. destruct (items_key_is_id s n x Hw Hin) as [R [_ E]]. split; assumption.
    - intros n x Hn. rewrite get_found, N2Z.id. apply items_in_iff; assumption.
    - exists (entity_listing s). split; [apply getall_listing, Hw | apply items_eq, Hw].
  Qed.

  (* the listing, pointwise: exactly what the point reader finds, ascending by id *)
  Lemma listing_point s x : okv_sorted s = true -> entity_wf s ->
    (In x (entity_listing s) <-> get s (idof x) = Ok (x, true)).
  Proof. intros Hs Hw. rewrite get_found. apply listing_in_iff; assumption. Qed.

  Lemma get_found_listed s id x : get s id = Ok (x, true) -> In x (entity_listing s).
  Proof. rewrite get_found. apply found_listed. Qed.

  (* ================================================================== *)
  (* 3. C20 with a filter-append callback over the store's listing       *)
  (* ================================================================== *)
  Variable cb : X -> bool -> list X -> outcome (list X * bool).
  Variable flt : X -> bool.
  Hypothesis Hcb : filter_append_cb cb flt.

  (* the matching stored entities: ascending id, each once, exactly those the point reader finds and the filter accepts *)
  Definition matching_listing (s : okv V) : list X := filter flt (entity_listing s).

  Lemma matching_spec s : okv_sorted s = true -> entity_wf s ->
    StronglySorted (fun a b => idof a < idof b) (matching_listing s) /\
    NoDup (matching_listing s) /\
    (forall x, In x (matching_listing s) <-> get s (idof x) = Ok (x, true) /\ flt x = true).
  Proof.
    intros Hs Hw. assert (H : StronglySorted (fun a b => idof a < idof b) (matching_listing s))
      by (apply StronglySorted_filter, listing_sorted; assumption).
    split; [exact H|]. split.
    - eapply StronglySorted_irrefl_NoDup; [|exact H]. intros a. cbv beta. lia.
    - intros x. unfold matching_listing. rewrite filter_In, listing_point by assumption. reflexivity.
  Qed.

  Lemma matching_rev_spec s : okv_sorted s = true -> entity_wf s ->
    StronglySorted (fun a b => idof b < idof a) (rev (matching_listing s)) /\
    NoDup (rev (matching_listing s)) /\
    (forall x, In x (rev (matching_listing s)) <-> get s (idof x) = Ok (x, true) /\ flt x = true).
  Proof.
    intros Hs Hw. destruct (matching_spec s Hs Hw) as [H1 [H2 H3]].
    split; [apply (StronglySorted_rev _ _ H1)|]. split; [apply NoDup_rev, H2|].
    intros x. rewrite <- in_rev. apply H3.
  Qed.

  (* the shape all partition statements take: the walk is [filter flt l] for the generated listing l, and pointwise *)
  Definition walk_is_asc (s : okv V) (w : list X) : Prop :=
    (exists l, getall s = Ok l /\ w = filter flt l) /\
    StronglySorted (fun a b => idof a < idof b) w /\
    NoDup w /\
    (forall x, In x w <-> get s (idof x) = Ok (x, true) /\ flt x = true).
  Definition walk_is_desc (s : okv V) (w : list X) : Prop :=
    (exists l, getall s = Ok l /\ w = rev (filter flt l)) /\
    StronglySorted (fun a b => idof b < idof a) w /\
    NoDup w /\
    (forall x, In x w <-> get s (idof x) = Ok (x, true) /\ flt x = true).

  Lemma asc_intro s w : okv_sorted s = true -> entity_wf s -> w = matching_listing s -> walk_is_asc s w.
  Proof.
    intros Hs Hw ->. split; [exists (entity_listing s); split; [apply getall_listing, Hw | reflexivity]|].
    apply matching_spec; assumption.
  Qed.
  Lemma desc_intro s w : okv_sorted s = true -> entity_wf s -> w = rev (matching_listing s) -> walk_is_desc s w.
  Proof.
    intros Hs Hw ->. split; [exists (entity_listing s); split; [apply getall_listing, Hw | reflexivity]|].
    apply matching_rev_spec; assumption.
  Qed.

  Theorem os_key_walk s limit fuel : okv_sorted s = true -> entity_wf s ->
    (1 <= limit)%N -> (limit + 1 < two64N)%N -> (N.of_nat (length (entity_items s)) < two64N)%N ->
    (length (entity_items s) + 1 <= fuel)%nat ->
    walk_is_asc s (all_pages_by_key_cb fuel (entity_items s) cb limit).
  Proof.
    intros Hs Hw H1 H2 H3 H4. apply asc_intro; [assumption ..|].
    rewrite (cb_key_pages_partition cb flt Hcb) by (try assumption; apply items_keys_sorted; assumption).
    rewrite items_snd. reflexivity.
  Qed.

  Theorem os_offset_walk s limit fuel : okv_sorted s = true -> entity_wf s ->
    (1 <= limit)%N -> (N.of_nat (length (entity_items s)) + limit + 1 < two64N)%N ->
    (length (entity_items s) + 1 <= fuel)%nat ->
    walk_is_asc s (all_pages_by_offset_cb fuel (entity_items s) cb limit).
  Proof.
    intros Hs Hw H1 H2 H3. apply asc_intro; [assumption ..|].
    rewrite (cb_offset_pages_partition cb flt Hcb) by assumption. rewrite items_snd. reflexivity.
  Qed.

  Theorem os_key_walk_rev s limit fuel : okv_sorted s = true -> entity_wf s ->
    (1 <= limit)%N -> (limit + 1 < two64N)%N -> (N.of_nat (length (entity_items s)) < two64N)%N ->
    (length (entity_items s) + 1 <= fuel)%nat ->
    walk_is_desc s (all_pages_by_key_rev_cb fuel (entity_items s) cb limit).
  Proof.
    intros Hs Hw H1 H2 H3 H4. apply desc_intro; [assumption ..|].
    rewrite (cb_key_pages_partition_rev cb flt Hcb) by (try assumption; apply items_keys_sorted; assumption).
    rewrite items_snd. reflexivity.
  Qed.

  Theorem os_offset_walk_rev s limit fuel : okv_sorted s = true -> entity_wf s ->
    (1 <= limit)%N -> (N.of_nat (length (entity_items s)) + limit + 1 < two64N)%N ->
    (length (entity_items s) + 1 <= fuel)%nat ->
    walk_is_desc s (all_pages_by_offset_rev_cb fuel (entity_items s) cb limit).
  Proof.
    intros Hs Hw H1 H2 H3. apply desc_intro; [assumption ..|].
    rewrite (cb_offset_pages_partition_rev cb flt Hcb) by assumption. rewrite items_snd. reflexivity.
  Qed.

  (* a single page, any request: sound w.r.t. the point reader, duplicate free, within the limit *)
  Theorem os_single_page s preq r : okv_sorted s = true -> entity_wf s ->
    list_query_cb (entity_items s) cb preq = Ok r ->
    (forall x, In x (cres_state r) -> get s (idof x) = Ok (x, true) /\ flt x = true) /\
    NoDup (cres_state r) /\
    ((pr_offset preq < two64N)%N -> (pr_limit preq < two64N)%N -> (N.of_nat (length (entity_items s)) < two64N)%N ->
     (length (cres_state r) <= N.to_nat (eff_limit preq))%nat).
  Proof.
    intros Hs Hw H.
    destruct (cb_single_page_sound cb flt Hcb (entity_items s) preq r (items_keys_sorted s Hs Hw) H)
      as [its [E [Ha [Hn Hb]]]].
    split; [|split; [|exact Hb]].
    - intros x Hx. rewrite E in Hx. apply in_map_iff in Hx. destruct Hx as [[n x'] [Ex Hin]]. cbn [snd] in Ex. subst x'.
      destruct (Ha _ Hin) as [Hin' Hf]. cbn [snd] in Hf. split; [|exact Hf].
      apply listing_point; [assumption ..|]. rewrite <- items_snd. apply in_map_iff. exists (n, x). split; [reflexivity | exact Hin'].
    - rewrite E. apply NoDup_map_in_inj; [|exact Hn]. intros [na xa] [nb xb] Hina Hinb Eab. cbn [snd] in Eab. subst xb.
      destruct (items_key_is_id s na xa Hw (proj1 (Ha _ Hina))) as [_ [-> _]].
      destruct (items_key_is_id s nb xa Hw (proj1 (Ha _ Hinb))) as [_ [-> _]]. reflexivity.
  Qed.

  (* count_total (offset mode): the number of matching stored entities *)
  Theorem os_total_count s preq r : entity_wf s ->
    (match pr_key preq with KeyAt _ => False | _ => True end) ->
    (pr_count_total preq = true \/ pr_limit preq = 0%N) ->
    (N.of_nat (length (entity_items s)) < two64N)%N ->
    list_query_cb (entity_items s) cb preq = Ok r ->
    exists l, getall s = Ok l /\ cres_total r = N.of_nat (length (filter flt l)).
  Proof.
    intros Hw Hk Hc Hl H. exists (entity_listing s). split; [apply getall_listing, Hw|].
    rewrite (cb_total_count cb flt Hcb (entity_items s) preq r Hk Hc Hl H), items_snd. reflexivity.
  Qed.

  (* ---- item 3: consistency with the point reader and completeness, for each of the four walks ---- *)
  Lemma four_walks_matching s limit fuel w : okv_sorted s = true -> entity_wf s ->
    (1 <= limit)%N -> (N.of_nat (length (entity_items s)) + limit + 1 < two64N)%N ->
    (length (entity_items s) + 1 <= fuel)%nat ->
    In w (four_walks fuel (entity_items s) cb limit) ->
    w = matching_listing s \/ w = rev (matching_listing s).
  Proof.
    intros Hs Hw H1 H2 H3 Hin.
    assert (Hk : Sorted N.lt (map fst (entity_items s))) by (apply items_keys_sorted; assumption).
    unfold four_walks in Hin. cbn [In] in Hin. destruct Hin as [<-|[<-|[<-|[<-|[]]]]].
    - left. rewrite (cb_key_pages_partition cb flt Hcb) by (try assumption; lia). rewrite items_snd. reflexivity.
    - left. rewrite (cb_offset_pages_partition cb flt Hcb) by assumption. rewrite items_snd. reflexivity.
    - right. rewrite (cb_key_pages_partition_rev cb flt Hcb) by (try assumption; lia). rewrite items_snd. reflexivity.
    - right. rewrite (cb_offset_pages_partition_rev cb flt Hcb) by assumption. rewrite items_snd. reflexivity.
  Qed.

  Theorem os_walks_point_consistent s limit fuel : okv_sorted s = true -> entity_wf s ->
    (1 <= limit)%N -> (N.of_nat (length (entity_items s)) + limit + 1 < two64N)%N ->
    (length (entity_items s) + 1 <= fuel)%nat ->
    forall w, In w (four_walks fuel (entity_items s) cb limit) ->
      (* every item is what the point reader answers for its id, and matches *)
      (forall x, In x w -> get s (idof x) = Ok (x, true) /\ flt x = true) /\
      (* every entity the point reader finds, under whatever id, is on the walk if it matches *)
      (forall id x, get s id = Ok (x, true) -> flt x = true -> In x w) /\
      NoDup w.
  Proof.
    intros Hs Hw H1 H2 H3 w Hin.
    destruct (matching_spec s Hs Hw) as [_ [Hn Hm]].
    assert (Hmem : forall x, In x w <-> In x (matching_listing s)).
    { destruct (four_walks_matching s limit fuel w Hs Hw H1 H2 H3 Hin) as [->| ->]; intros x; [reflexivity | symmetry; apply in_rev]. }
    split; [|split].
    - intros x Hx. apply Hm, Hmem, Hx.
    - intros id x G Hf. apply Hmem. unfold matching_listing. apply filter_In. split; [exact (get_found_listed s id x G) | exact Hf].
    - destruct (four_walks_matching s limit fuel w Hs Hw H1 H2 H3 Hin) as [->| ->]; [exact Hn | apply NoDup_rev, Hn].
  Qed.

  (* ---- item 4: a write shows up ---- *)
  Variable set : okv V -> X -> outcome (okv V * unit).        (* go_st_Set<Entity> *)
  Hypothesis set_spec : forall s x s', set s x = Ok (s', tt) -> s' = okv_set s (ekey (Z.to_N (idof x))) (inj x).

  Theorem os_write_shows_up s x s' limit fuel : okv_sorted s = true -> entity_wf s ->
    0 <= idof x < 2 ^ 64 -> set s x = Ok (s', tt) ->
    (1 <= limit)%N -> (N.of_nat (length (entity_items s')) + limit + 1 < two64N)%N ->
    (length (entity_items s') + 1 <= fuel)%nat ->
    okv_sorted s' = true /\ entity_wf s' /\
    forall w, In w (four_walks fuel (entity_items s') cb limit) ->
      (flt x = true -> In x w) /\
      (forall y, In y w <-> (y = x /\ flt x = true) \/ (idof y <> idof x /\ get s (idof y) = Ok (y, true) /\ flt y = true)).
  Proof.
    intros Hs Hw R E H1 H2 H3. apply set_spec in E. subst s'.
    set (s' := okv_set s (ekey (Z.to_N (idof x))) (inj x)) in *.
    assert (Hs' : okv_sorted s' = true) by (apply set_sorted, Hs).
    assert (Hw' : entity_wf s') by (apply wf_set_entity; assumption).
    split; [exact Hs'|]. split; [exact Hw'|]. intros w Hin.
    assert (Hmem : forall y, In y w <-> In y (matching_listing s')).
    { destruct (four_walks_matching s' limit fuel w Hs' Hw' H1 H2 H3 Hin) as [->| ->]; intros y; [reflexivity | symmetry; apply in_rev]. }
    assert (Hy : forall y, In y w <-> (y = x /\ flt x = true) \/ (idof y <> idof x /\ get s (idof y) = Ok (y, true) /\ flt y = true)).
    { intros y. rewrite Hmem. unfold matching_listing. rewrite filter_In. unfold s'. rewrite listing_after_set by assumption.
      rewrite (listing_point s y Hs Hw). split.
      - intros [[->|[Hne G]] Hf]; [left; split; [reflexivity | exact Hf] | right; repeat split; assumption].
      - intros [[-> Hf]|[Hne [G Hf]]]; (split; [|exact Hf]); [left; reflexivity | right; split; assumption]. }
    split; [|exact Hy]. intros Hf. apply Hy. left. split; [reflexivity | exact Hf].
  Qed.
End OnStore.

(* ================================================================== *)
(* x/wrkchain: WrkChainsFiltered over the bytes                         *)
(* ================================================================== *)
Module Wrk.
  Import MC.GeneratedKeys MC.GeneratedWrkchainTypes MC.GeneratedWrkchainKeeper MC.GeneratedWrkchainStore.
  Import MC.proofs.GeneratedWrkchainStoreEq MC.proofs.GeneratedWrkchainQueryEq.
  Local Notation cbk := go_WrkChainsFiltered_callback.
  Local Notation idf := WrkChain_WrkchainId.

  Definition prj (v : wrkchain_val) : go_WrkChain := match v with WV_WrkChain w => w | _ => zero_go_WrkChain end.
  (* what FilteredPaginate walks under RegisteredWrkChainPrefix = {0x01}: (de64 of the key behind the prefix byte, the WrkChain) *)
  Definition store_items (s : okv wrkchain_val) : list (N * go_WrkChain) := entity_items prj 1 s.

  Lemma prj_inj x : prj (WV_WrkChain x) = x. Proof. reflexivity. Qed.

  Lemma store_items_def s : store_items s =
    map (fun kv => (de64 (strip_prefix wrkchain_RegisteredWrkChainPrefix (fst kv)),
                    match snd kv with WV_WrkChain w => w | _ => zero_go_WrkChain end)) (okv_prefix s wrkchain_RegisteredWrkChainPrefix).
  Proof. reflexivity. Qed.

  Lemma ewf s : wrk_store_wf s -> entity_wf WV_WrkChain idf 1 s.
  Proof. intros Hw k v Hin Hp. exact (wf_under_regs k v (Hw k v Hin) Hp). Qed.

  Lemma get_found s id x :
    go_st_GetWrkChain s id = Ok (x, true) <-> okv_get s (ekey 1 (Z.to_N id)) = Some (WV_WrkChain x).
  Proof.
    rewrite spec_GetWrkChain. change (ekey 1 (Z.to_N id)) with (kreg id).
    destruct (okv_get s (kreg id)) as [[]|]; cbn [rd_wrkchain]; split; intros H; try discriminate H;
      injection H as ->; reflexivity.
  Qed.

  Lemma getall_typed s : (forall k v, In (k, v) (okv_prefix s [1%N]) -> exists x, v = WV_WrkChain x) ->
    go_st_GetAllWrkChains s = Ok (entity_listing prj 1 s).
  Proof.
    intros H. rewrite spec_GetAllWrkChains. apply decode_all_map. intros k v Hin. destruct (H k v Hin) as [x ->]. reflexivity.
  Qed.

  Lemma set_spec s x s' : go_st_SetWrkChain s x = Ok (s', tt) -> s' = okv_set s (ekey 1 (Z.to_N (idf x))) (WV_WrkChain x).
  Proof. rewrite spec_SetWrkChain. intros H. injection H as <-. reflexivity. Qed.

  (* 1. the listing the query walks *)
  Theorem items_facts s : okv_sorted s = true -> wrk_store_wf s ->
    Sorted N.lt (map fst (store_items s)) /\
    NoDup (map fst (store_items s)) /\
    (forall n x, In (n, x) (store_items s) -> 0 <= idf x < 2 ^ 64 /\ Z.of_N n = idf x) /\
    (forall n x, (n < 2 ^ 64)%N -> (In (n, x) (store_items s) <-> go_st_GetWrkChain s (Z.of_N n) = Ok (x, true))) /\
    (exists l, go_st_GetAllWrkChains s = Ok l /\ store_items s = map (fun x => (Z.to_N (idf x), x)) l).
  Proof. intros Hs Hw. exact (os_items_facts _ _ _ _ prj_inj _ _ get_found getall_typed s Hs (ewf s Hw)). Qed.

  Lemma items_length_le s : (length (store_items s) <= length s)%nat.
  Proof. apply items_length_le. Qed.

  (* 2. the four walks, a single page, count_total *)
  Notation asc req := (walk_is_asc idf go_st_GetWrkChain go_st_GetAllWrkChains (wrk_list_flt req)).
  Notation desc req := (walk_is_desc idf go_st_GetWrkChain go_st_GetAllWrkChains (wrk_list_flt req)).

  Theorem key_walk s req limit fuel : okv_sorted s = true -> wrk_store_wf s ->
    (1 <= limit)%N -> (limit + 1 < two64N)%N -> (N.of_nat (length (store_items s)) < two64N)%N ->
    (length (store_items s) + 1 <= fuel)%nat ->
    asc req s (all_pages_by_key_cb fuel (store_items s) (cbk req) limit).
  Proof.
    intros Hs Hw. exact (os_key_walk _ _ _ _ prj_inj _ _ get_found getall_typed _ _ (wrk_callback_filter_append req) s limit fuel Hs (ewf s Hw)).
  Qed.

  Theorem offset_walk s req limit fuel : okv_sorted s = true -> wrk_store_wf s ->
    (1 <= limit)%N -> (N.of_nat (length (store_items s)) + limit + 1 < two64N)%N ->
    (length (store_items s) + 1 <= fuel)%nat ->
    asc req s (all_pages_by_offset_cb fuel (store_items s) (cbk req) limit).
  Proof.
    intros Hs Hw. exact (os_offset_walk _ _ _ _ prj_inj _ _ get_found getall_typed _ _ (wrk_callback_filter_append req) s limit fuel Hs (ewf s Hw)).
  Qed.

  Theorem key_walk_rev s req limit fuel : okv_sorted s = true -> wrk_store_wf s ->
    (1 <= limit)%N -> (limit + 1 < two64N)%N -> (N.of_nat (length (store_items s)) < two64N)%N ->
    (length (store_items s) + 1 <= fuel)%nat ->
    desc req s (all_pages_by_key_rev_cb fuel (store_items s) (cbk req) limit).
  Proof.
    intros Hs Hw. exact (os_key_walk_rev _ _ _ _ prj_inj _ _ get_found getall_typed _ _ (wrk_callback_filter_append req) s limit fuel Hs (ewf s Hw)).
  Qed.

  Theorem offset_walk_rev s req limit fuel : okv_sorted s = true -> wrk_store_wf s ->
    (1 <= limit)%N -> (N.of_nat (length (store_items s)) + limit + 1 < two64N)%N ->
    (length (store_items s) + 1 <= fuel)%nat ->
    desc req s (all_pages_by_offset_rev_cb fuel (store_items s) (cbk req) limit).
  Proof.
    intros Hs Hw. exact (os_offset_walk_rev _ _ _ _ prj_inj _ _ get_found getall_typed _ _ (wrk_callback_filter_append req) s limit fuel Hs (ewf s Hw)).
  Qed.

  Theorem single_page s req preq r : okv_sorted s = true -> wrk_store_wf s ->
    list_query_cb (store_items s) (cbk req) preq = Ok r ->
    (forall x, In x (cres_state r) -> go_st_GetWrkChain s (idf x) = Ok (x, true) /\ wrk_list_flt req x = true) /\
    NoDup (cres_state r) /\
    ((pr_offset preq < two64N)%N -> (pr_limit preq < two64N)%N -> (N.of_nat (length (store_items s)) < two64N)%N ->
     (length (cres_state r) <= N.to_nat (eff_limit preq))%nat).
  Proof.
    intros Hs Hw. exact (os_single_page _ _ _ _ prj_inj _ get_found _ _ (wrk_callback_filter_append req) s preq r Hs (ewf s Hw)).
  Qed.

  Theorem total_count s req preq r : wrk_store_wf s ->
    (match pr_key preq with KeyAt _ => False | _ => True end) ->
    (pr_count_total preq = true \/ pr_limit preq = 0%N) ->
    (N.of_nat (length (store_items s)) < two64N)%N ->
    list_query_cb (store_items s) (cbk req) preq = Ok r ->
    exists l, go_st_GetAllWrkChains s = Ok l /\ cres_total r = N.of_nat (length (filter (wrk_list_flt req) l)).
  Proof.
    intros Hw. exact (os_total_count _ _ _ _ _ getall_typed _ _ (wrk_callback_filter_append req) s preq r (ewf s Hw)).
  Qed.

  (* 3. consistent with the point reader, complete *)
  Theorem walks_point_consistent s req limit fuel : okv_sorted s = true -> wrk_store_wf s ->
    (1 <= limit)%N -> (N.of_nat (length (store_items s)) + limit + 1 < two64N)%N ->
    (length (store_items s) + 1 <= fuel)%nat ->
    forall w, In w (four_walks fuel (store_items s) (cbk req) limit) ->
      (forall x, In x w -> go_st_GetWrkChain s (idf x) = Ok (x, true) /\ wrk_list_flt req x = true) /\
      (forall id x, go_st_GetWrkChain s id = Ok (x, true) -> wrk_list_flt req x = true -> In x w) /\
      NoDup w.
  Proof.
    intros Hs Hw. exact (os_walks_point_consistent _ _ _ _ prj_inj _ _ get_found getall_typed _ _ (wrk_callback_filter_append req) s limit fuel Hs (ewf s Hw)).
  Qed.

  (* 4. a write shows up *)
  Theorem write_shows_up s x s' req limit fuel : okv_sorted s = true -> wrk_store_wf s ->
    0 <= idf x < 2 ^ 64 -> go_st_SetWrkChain s x = Ok (s', tt) ->
    (1 <= limit)%N -> (N.of_nat (length (store_items s')) + limit + 1 < two64N)%N ->
    (length (store_items s') + 1 <= fuel)%nat ->
    okv_sorted s' = true /\ wrk_store_wf s' /\
    forall w, In w (four_walks fuel (store_items s') (cbk req) limit) ->
      (wrk_list_flt req x = true -> In x w) /\
      (forall y, In y w <-> (y = x /\ wrk_list_flt req x = true) \/
                            (idf y <> idf x /\ go_st_GetWrkChain s (idf y) = Ok (y, true) /\ wrk_list_flt req y = true)).
  Proof.
    intros Hs Hw R E H1 H2 H3.
    destruct (os_write_shows_up _ _ _ _ prj_inj _ _ get_found getall_typed _ _ (wrk_callback_filter_append req) _ set_spec
                s x s' limit fuel Hs (ewf s Hw) R E H1 H2 H3) as [Hs' [_ H]].
    split; [exact Hs'|]. split; [exact (SetWrkChain_wf s x s' R Hw E) | exact H].
  Qed.

  Lemma items_length_after_write s x s' : go_st_SetWrkChain s x = Ok (s', tt) ->
    (length (store_items s') <= S (length (store_items s)))%nat.
  Proof. intros E. apply set_spec in E. subst s'. apply items_length_after_set. Qed.

  (* 5. a run: a store built with the generated writers, 5 WRKChains written out of order (300 needs two key bytes),
        other kinds of entries around them, one owner excluded by the filter *)
  Definition dwc (id : Z) (owner : go_addr) : go_WrkChain :=
    mk_go_WrkChain id EmptyString EmptyString EmptyString EmptyString 0 0 0 0 owner.
  Definition dreq (owner : go_addr) : go_QueryWrkChainsFilteredRequest :=
    set_QueryWrkChainsFilteredRequest_Owner zero_go_QueryWrkChainsFilteredRequest owner.
  Definition dpreq k o l ct rv : page_req :=
    {| pr_key := k; pr_offset := o; pr_limit := l; pr_count_total := ct; pr_reverse := rv |}.
  Definition demo_run : outcome (okv wrkchain_val) :=
    do r <- go_st_SetWrkChain [] (dwc 3 7);
    do r <- go_st_SetWrkChainBlock (fst r) 3 (mk_go_WrkChainBlock 9 EmptyString EmptyString EmptyString EmptyString EmptyString 9);
    do r <- go_st_SetWrkChain (fst r) (dwc 300 7);
    do r <- go_st_SetHighestWrkChainID (fst r) 300;
    do r <- go_st_SetWrkChain (fst r) (dwc 1 7);
    do r <- go_st_SetWrkChainStorageLimit (fst r) 1 100;
    do r <- go_st_SetWrkChain (fst r) (dwc 7 8);
    do r <- go_st_SetWrkChain (fst r) (dwc 2 7);
    Ok (fst r).
  Definition demo : okv wrkchain_val := match demo_run with Ok s => s | _ => [] end.

  Example demo_store : demo_run = Ok demo /\ okv_sorted demo = true /\ length demo = 8%nat /\
    store_items demo = [(1%N, dwc 1 7); (2%N, dwc 2 7); (3%N, dwc 3 7); (7%N, dwc 7 8); (300%N, dwc 300 7)].
  Proof. vm_compute. repeat split; reflexivity. Qed.

  Example demo_wf : wrk_store_wf demo.
  Proof.
    intros k v Hin. vm_compute in Hin.
    repeat (destruct Hin as [Hin|Hin]; [injection Hin as <- <-|]); try contradiction; cbn [wrk_entry_wf];
      first [ reflexivity
            | split; [cbn; lia | reflexivity]
            | split; [cbn; lia | exists 3; split; [lia | reflexivity]] ].
  Qed.

  (* by key, forward: the first request has no key *)
  Example demo_page1 : list_query_cb (store_items demo) (cbk (dreq 7)) (dpreq KeyNil 0 2 false false)
    = Ok {| cres_state := [dwc 1 7; dwc 2 7]; cres_next_key := Some 3%N; cres_total := 0 |}.
  Proof. vm_compute. reflexivity. Qed.
  Example demo_page2 : list_query_cb (store_items demo) (cbk (dreq 7)) (dpreq (KeyAt 3) 0 2 false false)
    = Ok {| cres_state := [dwc 3 7; dwc 300 7]; cres_next_key := None; cres_total := 0 |}.
  Proof. vm_compute. reflexivity. Qed.
  Example demo_walk_key : all_pages_by_key_cb 6 (store_items demo) (cbk (dreq 7)) 2 = [dwc 1 7; dwc 2 7; dwc 3 7; dwc 300 7].
  Proof. vm_compute. reflexivity. Qed.
  (* by key, reverse *)
  Example demo_rev_page1 : list_query_cb (store_items demo) (cbk (dreq 7)) (dpreq KeyNil 0 2 false true)
    = Ok {| cres_state := [dwc 300 7; dwc 3 7]; cres_next_key := Some 2%N; cres_total := 0 |}.
  Proof. vm_compute. reflexivity. Qed.
  Example demo_rev_page2 : list_query_cb (store_items demo) (cbk (dreq 7)) (dpreq (KeyAt 2) 0 2 false true)
    = Ok {| cres_state := [dwc 2 7; dwc 1 7]; cres_next_key := None; cres_total := 0 |}.
  Proof. vm_compute. reflexivity. Qed.
  Example demo_walk_key_rev : all_pages_by_key_rev_cb 6 (store_items demo) (cbk (dreq 7)) 2 = [dwc 300 7; dwc 3 7; dwc 2 7; dwc 1 7].
  Proof. vm_compute. reflexivity. Qed.
  (* by offset, with count_total *)
  Example demo_offset_page2 : list_query_cb (store_items demo) (cbk (dreq 7)) (dpreq KeyNil 2 2 true false)
    = Ok {| cres_state := [dwc 3 7; dwc 300 7]; cres_next_key := None; cres_total := 4 |}.
  Proof. vm_compute. reflexivity. Qed.
  Example demo_walk_offset : all_pages_by_offset_cb 6 (store_items demo) (cbk (dreq 7)) 2 = [dwc 1 7; dwc 2 7; dwc 3 7; dwc 300 7].
  Proof. vm_compute. reflexivity. Qed.
  Example demo_walk_offset_rev : all_pages_by_offset_rev_cb 6 (store_items demo) (cbk (dreq 7)) 2 = [dwc 300 7; dwc 3 7; dwc 2 7; dwc 1 7].
  Proof. vm_compute. reflexivity. Qed.
  (* the point reader, the listing, the filter *)
  Example demo_points :
    map (fun x => go_st_GetWrkChain demo (idf x)) [dwc 1 7; dwc 2 7; dwc 3 7; dwc 300 7] =
    map (fun x => Ok (x, true)) [dwc 1 7; dwc 2 7; dwc 3 7; dwc 300 7] /\
    go_st_GetWrkChain demo 7 = Ok (dwc 7 8, true) /\ wrk_list_flt (dreq 7) (dwc 7 8) = false /\
    go_st_GetAllWrkChains demo = Ok [dwc 1 7; dwc 2 7; dwc 3 7; dwc 7 8; dwc 300 7].
  Proof. vm_compute. repeat split; reflexivity. Qed.
  (* a write shows up: WRKChain 5 of owner 7 is written; the walk lists it between 3 and 300 *)
  Example demo_write :
    (do r <- go_st_SetWrkChain demo (dwc 5 7); Ok (all_pages_by_key_cb 7 (store_items (fst r)) (cbk (dreq 7)) 2))
    = Ok [dwc 1 7; dwc 2 7; dwc 3 7; dwc 5 7; dwc 300 7].
  Proof. vm_compute. reflexivity. Qed.

  (* ---- the hypotheses are needed ---- *)
  (* [okv_sorted]: the store type allows lists that are not in key order (no real store is one); the key walk then
     serves the same entry over and over and never reaches the other, which the point reader does find *)
  Definition bad_unsorted : okv wrkchain_val := [(kreg 2, WV_WrkChain (dwc 2 7)); (kreg 1, WV_WrkChain (dwc 1 7))].
  Example sorted_needed_refuted :
    wrk_store_wf bad_unsorted /\ okv_sorted bad_unsorted = false /\
    all_pages_by_key_cb 3 (store_items bad_unsorted) (cbk (dreq 7)) 1 = [dwc 2 7; dwc 2 7; dwc 2 7] /\
    go_st_GetWrkChain bad_unsorted 1 = Ok (dwc 1 7, true).
  Proof.
    split; [|vm_compute; repeat split; reflexivity].
    intros k v [H|[H|[]]]; injection H as <- <-; (split; [cbn; lia | reflexivity]).
  Qed.
  (* [wrk_store_wf], typing: a value of another constructor under the prefix; Go panics in MustUnmarshal, the point reader
     and the listing of the store layer panic, the abstract pagination model (values always decode) pages a zero WrkChain *)
  Definition bad_typed : okv wrkchain_val := [(kreg 1, WV_Params zero_go_Params)].
  Example typed_needed_refuted :
    okv_sorted bad_typed = true /\
    all_pages_by_key_cb 2 (store_items bad_typed) (cbk (dreq go_zero_addr)) 1 = [zero_go_WrkChain] /\
    go_st_GetWrkChain bad_typed 1 = Panic OKV_PANIC_UNMARSHAL /\ go_st_GetAllWrkChains bad_typed = Panic OKV_PANIC_UNMARSHAL.
  Proof. vm_compute. repeat split; reflexivity. Qed.
  (* [wrk_store_wf], key = key of the value's id: WRKChain 2 stored under the key of id 1 is paged, but the point reader does
     not find it under its id *)
  Definition bad_key : okv wrkchain_val := [(kreg 1, WV_WrkChain (dwc 2 7))].
  Example key_needed_refuted :
    okv_sorted bad_key = true /\
    all_pages_by_key_cb 2 (store_items bad_key) (cbk (dreq 7)) 1 = [dwc 2 7] /\
    go_st_GetWrkChain bad_key 2 = Ok (zero_go_WrkChain, false).
  Proof. vm_compute. repeat split; reflexivity. Qed.
End Wrk.

(* ================================================================== *)
(* x/beacon: BeaconsFiltered over the bytes                             *)
(* ================================================================== *)
Module Bcn.
  Import MC.GeneratedKeys MC.GeneratedBeaconTypes MC.GeneratedBeaconKeeper MC.GeneratedBeaconStore.
  Import MC.proofs.GeneratedBeaconStoreEq MC.proofs.GeneratedBeaconQueryEq.
  Local Notation cbk := go_BeaconsFiltered_callback.
  Local Notation idf := Beacon_BeaconId.

  Definition prj (v : beacon_val) : go_Beacon := match v with BV_Beacon b => b | _ => zero_go_Beacon end.
  (* what FilteredPaginate walks under RegisteredBeaconPrefix = {0x01} *)
  Definition store_items (s : okv beacon_val) : list (N * go_Beacon) := entity_items prj 1 s.

  (* [beacon_store_wf] (proofs/GeneratedBeaconStoreEq.v) puts every value under the key of its own content but, unlike
     [wrk_store_wf] / [ent_wf], says nothing about the RANGE of a beacon id; the key builder truncates to 64 bits, so a
     beacon whose id field is outside the uint64 range sits under the key of another number.  A Go uint64 cannot hold
     such an id; in Coq it is a separate hypothesis, preserved by SetBeacon of an in-range beacon. *)
  Definition beacon_ids_u64 (s : okv beacon_val) : Prop :=
    forall k b, In (k, BV_Beacon b) s -> 0 <= Beacon_BeaconId b < 2 ^ 64.

  Lemma prj_inj x : prj (BV_Beacon x) = x. Proof. reflexivity. Qed.

  Lemma store_items_def s : store_items s =
    map (fun kv => (de64 (strip_prefix beacon_RegisteredBeaconPrefix (fst kv)),
                    match snd kv with BV_Beacon b => b | _ => zero_go_Beacon end)) (okv_prefix s beacon_RegisteredBeaconPrefix).
  Proof. reflexivity. Qed.

  Lemma ewf s : beacon_store_wf s -> beacon_ids_u64 s -> entity_wf BV_Beacon idf 1 s.
  Proof.
    intros Hw Hr k v Hin Hp. pose proof (Hw k v Hin) as He. destruct v; cbn [beacon_entry_ok] in He.
    - exists x. split; [reflexivity|]. split; [exact (Hr k x Hin) | exact He].
    - subst k. discriminate Hp.
    - destruct He as [id ->]. discriminate Hp.
    - subst k. discriminate Hp.
    - subst k. discriminate Hp.
  Qed.

  Lemma get_found s id x :
    go_st_GetBeacon s id = Ok (x, true) <-> okv_get s (ekey 1 (Z.to_N id)) = Some (BV_Beacon x).
  Proof. rewrite GetBeacon_spec, rd_Beacon_found. reflexivity. Qed.

  Lemma getall_typed s : (forall k v, In (k, v) (okv_prefix s [1%N]) -> exists x, v = BV_Beacon x) ->
    go_st_GetAllBeacons s = Ok (entity_listing prj 1 s).
  Proof.
    intros H. rewrite GetAllBeacons_spec, (iterate_append_total dec_Beacon).
    change (okv_prefix s beacon_RegisteredBeaconPrefix) with (okv_prefix s [1%N]).
    rewrite (decode_all_map dec_Beacon (fun kv => prj (snd kv))); [reflexivity|].
    intros k v Hin. destruct (H k v Hin) as [x ->]. reflexivity.
  Qed.

  Lemma set_spec s x s' : go_st_SetBeacon s x = Ok (s', tt) -> s' = okv_set s (ekey 1 (Z.to_N (idf x))) (BV_Beacon x).
  Proof. rewrite SetBeacon_spec. intros H. injection H as <-. reflexivity. Qed.

  Lemma set_wf s x s' : beacon_store_wf s -> beacon_ids_u64 s -> 0 <= idf x < 2 ^ 64 ->
    go_st_SetBeacon s x = Ok (s', tt) -> beacon_store_wf s' /\ beacon_ids_u64 s'.
  Proof.
    intros Hw Hr R E. split; [exact (proj1 (proj2 (proj2 (writers_wf s s' Hw))) x E)|].
    apply set_spec in E. subst s'. intros k b Hin. apply set_in in Hin. destruct Hin as [[_ Eb]|Hin]; [|exact (Hr k b Hin)].
    injection Eb as ->. exact R.
  Qed.

  (* the other writers of the module do not touch a beacon cell *)
  Lemma ids_u64_other_writers s s' : beacon_ids_u64 s ->
    (exists p, go_st_SetParams s p = Ok (s', tt)) \/
    (exists id, go_st_SetHighestBeaconID s id = Ok (s', tt)) \/
    (exists id l, go_st_SetBeaconStorageLimit s id l = Ok (s', tt)) \/
    (exists id ts, go_st_SetBeaconTimestamp s id ts = Ok (s', tt)) \/
    (exists id t, go_st_deleteBeaconTimestamp s id t = Ok (s', tt)) ->
    beacon_ids_u64 s'.
  Proof.
    intros Hr H k b Hin.
    destruct H as [[p E]|[[id E]|[[id [l E]]|[[id [ts E]]|[id [t E]]]]]].
    - apply SetParams_inv in E. destruct E as [_ ->]. apply set_in in Hin.
      destruct Hin as [[_ Ev]|Hin]; [discriminate Ev | exact (Hr k b Hin)].
    - rewrite SetHighestBeaconID_spec in E. injection E as <-. apply set_in in Hin.
      destruct Hin as [[_ Ev]|Hin]; [discriminate Ev | exact (Hr k b Hin)].
    - rewrite SetBeaconStorageLimit_spec in E. injection E as <-. apply set_in in Hin.
      destruct Hin as [[_ Ev]|Hin]; [discriminate Ev | exact (Hr k b Hin)].
    - rewrite SetBeaconTimestamp_spec in E. injection E as <-. apply set_in in Hin.
      destruct Hin as [[_ Ev]|Hin]; [discriminate Ev | exact (Hr k b Hin)].
    - rewrite deleteBeaconTimestamp_spec in E. injection E as <-. apply del_in in Hin. exact (Hr k b Hin).
  Qed.

  Lemma ids_u64_preserved (s s' : okv beacon_val) :
    (beacon_ids_u64 []) /\
    (forall x, beacon_store_wf s -> beacon_ids_u64 s -> 0 <= idf x < 2 ^ 64 ->
       go_st_SetBeacon s x = Ok (s', tt) -> beacon_store_wf s' /\ beacon_ids_u64 s') /\
    (beacon_ids_u64 s ->
       (exists p, go_st_SetParams s p = Ok (s', tt)) \/
       (exists id, go_st_SetHighestBeaconID s id = Ok (s', tt)) \/
       (exists id l, go_st_SetBeaconStorageLimit s id l = Ok (s', tt)) \/
       (exists id ts, go_st_SetBeaconTimestamp s id ts = Ok (s', tt)) \/
       (exists id t, go_st_deleteBeaconTimestamp s id t = Ok (s', tt)) ->
       beacon_ids_u64 s').
  Proof.
    split; [intros k b []|]. split; [intros x Hw Hr R E; exact (set_wf s x s' Hw Hr R E) | apply ids_u64_other_writers].
  Qed.

  (* 1. the listing the query walks *)
  Theorem items_facts s : okv_sorted s = true -> beacon_store_wf s -> beacon_ids_u64 s ->
    Sorted N.lt (map fst (store_items s)) /\
    NoDup (map fst (store_items s)) /\
    (forall n x, In (n, x) (store_items s) -> 0 <= idf x < 2 ^ 64 /\ Z.of_N n = idf x) /\
    (forall n x, (n < 2 ^ 64)%N -> (In (n, x) (store_items s) <-> go_st_GetBeacon s (Z.of_N n) = Ok (x, true))) /\
    (exists l, go_st_GetAllBeacons s = Ok l /\ store_items s = map (fun x => (Z.to_N (idf x), x)) l).
  Proof. intros Hs Hw Hr. exact (os_items_facts _ _ _ _ prj_inj _ _ get_found getall_typed s Hs (ewf s Hw Hr)). Qed.

  Lemma items_length_le s : (length (store_items s) <= length s)%nat.
  Proof. apply items_length_le. Qed.

  (* 2. the four walks, a single page, count_total *)
  Notation asc req := (walk_is_asc idf go_st_GetBeacon go_st_GetAllBeacons (bcn_list_flt req)).
  Notation desc req := (walk_is_desc idf go_st_GetBeacon go_st_GetAllBeacons (bcn_list_flt req)).

  Theorem key_walk s req limit fuel : okv_sorted s = true -> beacon_store_wf s -> beacon_ids_u64 s ->
    (1 <= limit)%N -> (limit + 1 < two64N)%N -> (N.of_nat (length (store_items s)) < two64N)%N ->
    (length (store_items s) + 1 <= fuel)%nat ->
    asc req s (all_pages_by_key_cb fuel (store_items s) (cbk req) limit).
  Proof.
    intros Hs Hw Hr. exact (os_key_walk _ _ _ _ prj_inj _ _ get_found getall_typed _ _ (bcn_callback_filter_append req) s limit fuel Hs (ewf s Hw Hr)).
  Qed.

  Theorem offset_walk s req limit fuel : okv_sorted s = true -> beacon_store_wf s -> beacon_ids_u64 s ->
    (1 <= limit)%N -> (N.of_nat (length (store_items s)) + limit + 1 < two64N)%N ->
    (length (store_items s) + 1 <= fuel)%nat ->
    asc req s (all_pages_by_offset_cb fuel (store_items s) (cbk req) limit).
  Proof.
    intros Hs Hw Hr. exact (os_offset_walk _ _ _ _ prj_inj _ _ get_found getall_typed _ _ (bcn_callback_filter_append req) s limit fuel Hs (ewf s Hw Hr)).
  Qed.

  Theorem key_walk_rev s req limit fuel : okv_sorted s = true -> beacon_store_wf s -> beacon_ids_u64 s ->
    (1 <= limit)%N -> (limit + 1 < two64N)%N -> (N.of_nat (length (store_items s)) < two64N)%N ->
    (length (store_items s) + 1 <= fuel)%nat ->
    desc req s (all_pages_by_key_rev_cb fuel (store_items s) (cbk req) limit).
  Proof.
    intros Hs Hw Hr. exact (os_key_walk_rev _ _ _ _ prj_inj _ _ get_found getall_typed _ _ (bcn_callback_filter_append req) s limit fuel Hs (ewf s Hw Hr)).
  Qed.

  Theorem offset_walk_rev s req limit fuel : okv_sorted s = true -> beacon_store_wf s -> beacon_ids_u64 s ->
    (1 <= limit)%N -> (N.of_nat (length (store_items s)) + limit + 1 < two64N)%N ->
    (length (store_items s) + 1 <= fuel)%nat ->
    desc req s (all_pages_by_offset_rev_cb fuel (store_items s) (cbk req) limit).
  Proof.
    intros Hs Hw Hr. exact (os_offset_walk_rev _ _ _ _ prj_inj _ _ get_found getall_typed _ _ (bcn_callback_filter_append req) s limit fuel Hs (ewf s Hw Hr)).
  Qed.

  Theorem single_page s req preq r : okv_sorted s = true -> beacon_store_wf s -> beacon_ids_u64 s ->
    list_query_cb (store_items s) (cbk req) preq = Ok r ->
    (forall x, In x (cres_state r) -> go_st_GetBeacon s (idf x) = Ok (x, true) /\ bcn_list_flt req x = true) /\
    NoDup (cres_state r) /\
    ((pr_offset preq < two64N)%N -> (pr_limit preq < two64N)%N -> (N.of_nat (length (store_items s)) < two64N)%N ->
     (length (cres_state r) <= N.to_nat (eff_limit preq))%nat).
  Proof.
    intros Hs Hw Hr. exact (os_single_page _ _ _ _ prj_inj _ get_found _ _ (bcn_callback_filter_append req) s preq r Hs (ewf s Hw Hr)).
  Qed.

  Theorem total_count s req preq r : beacon_store_wf s -> beacon_ids_u64 s ->
    (match pr_key preq with KeyAt _ => False | _ => True end) ->
    (pr_count_total preq = true \/ pr_limit preq = 0%N) ->
    (N.of_nat (length (store_items s)) < two64N)%N ->
    list_query_cb (store_items s) (cbk req) preq = Ok r ->
    exists l, go_st_GetAllBeacons s = Ok l /\ cres_total r = N.of_nat (length (filter (bcn_list_flt req) l)).
  Proof.
    intros Hw Hr. exact (os_total_count _ _ _ _ _ getall_typed _ _ (bcn_callback_filter_append req) s preq r (ewf s Hw Hr)).
  Qed.

  (* 3. consistent with the point reader, complete *)
  Theorem walks_point_consistent s req limit fuel : okv_sorted s = true -> beacon_store_wf s -> beacon_ids_u64 s ->
    (1 <= limit)%N -> (N.of_nat (length (store_items s)) + limit + 1 < two64N)%N ->
    (length (store_items s) + 1 <= fuel)%nat ->
    forall w, In w (four_walks fuel (store_items s) (cbk req) limit) ->
      (forall x, In x w -> go_st_GetBeacon s (idf x) = Ok (x, true) /\ bcn_list_flt req x = true) /\
      (forall id x, go_st_GetBeacon s id = Ok (x, true) -> bcn_list_flt req x = true -> In x w) /\
      NoDup w.
  Proof.
    intros Hs Hw Hr. exact (os_walks_point_consistent _ _ _ _ prj_inj _ _ get_found getall_typed _ _ (bcn_callback_filter_append req) s limit fuel Hs (ewf s Hw Hr)).
  Qed.

  (* 4. a write shows up *)
  Theorem write_shows_up s x s' req limit fuel : okv_sorted s = true -> beacon_store_wf s -> beacon_ids_u64 s ->
    0 <= idf x < 2 ^ 64 -> go_st_SetBeacon s x = Ok (s', tt) ->
    (1 <= limit)%N -> (N.of_nat (length (store_items s')) + limit + 1 < two64N)%N ->
    (length (store_items s') + 1 <= fuel)%nat ->
    okv_sorted s' = true /\ (beacon_store_wf s' /\ beacon_ids_u64 s') /\
    forall w, In w (four_walks fuel (store_items s') (cbk req) limit) ->
      (bcn_list_flt req x = true -> In x w) /\
      (forall y, In y w <-> (y = x /\ bcn_list_flt req x = true) \/
                            (idf y <> idf x /\ go_st_GetBeacon s (idf y) = Ok (y, true) /\ bcn_list_flt req y = true)).
  Proof.
    intros Hs Hw Hr R E H1 H2 H3.
    destruct (os_write_shows_up _ _ _ _ prj_inj _ _ get_found getall_typed _ _ (bcn_callback_filter_append req) _ set_spec
                s x s' limit fuel Hs (ewf s Hw Hr) R E H1 H2 H3) as [Hs' [_ H]].
    split; [exact Hs'|]. split; [exact (set_wf s x s' Hw Hr R E) | exact H].
  Qed.

  Lemma items_length_after_write s x s' : go_st_SetBeacon s x = Ok (s', tt) ->
    (length (store_items s') <= S (length (store_items s)))%nat.
  Proof. intros E. apply set_spec in E. subst s'. apply items_length_after_set. Qed.


  (* 5. a run: 5 beacons written out of order with the generated writer (300 needs two key bytes), other kinds of
        entries around them, one owner excluded by the filter *)
  Definition dbc (id : Z) (owner : go_addr) : go_Beacon := mk_go_Beacon id EmptyString EmptyString 0 0 0 0 owner.
  Definition dreq (owner : go_addr) : go_QueryBeaconsFilteredRequest :=
    set_QueryBeaconsFilteredRequest_Owner zero_go_QueryBeaconsFilteredRequest owner.
  Definition dpreq k o l ct rv : page_req :=
    {| pr_key := k; pr_offset := o; pr_limit := l; pr_count_total := ct; pr_reverse := rv |}.
  Definition demo_run : outcome (okv beacon_val) :=
    do r <- go_st_SetBeacon [] (dbc 3 7);
    do r <- go_st_SetBeaconTimestamp (fst r) 3 (mk_go_BeaconTimestamp 9 9 EmptyString);
    do r <- go_st_SetBeacon (fst r) (dbc 300 7);
    do r <- go_st_SetHighestBeaconID (fst r) 300;
    do r <- go_st_SetBeacon (fst r) (dbc 1 7);
    do r <- go_st_SetBeaconStorageLimit (fst r) 1 100;
    do r <- go_st_SetBeacon (fst r) (dbc 7 8);
    do r <- go_st_SetBeacon (fst r) (dbc 2 7);
    Ok (fst r).
  Definition demo : okv beacon_val := match demo_run with Ok s => s | _ => [] end.

  Example demo_store : demo_run = Ok demo /\ okv_sorted demo = true /\ length demo = 8%nat /\
    store_items demo = [(1%N, dbc 1 7); (2%N, dbc 2 7); (3%N, dbc 3 7); (7%N, dbc 7 8); (300%N, dbc 300 7)].
  Proof. vm_compute. repeat split; reflexivity. Qed.

  Example demo_wf : beacon_store_wf demo /\ beacon_ids_u64 demo.
  Proof.
    split.
    - intros k v Hin. vm_compute in Hin.
      repeat (destruct Hin as [Hin|Hin]; [injection Hin as <- <-|]); try contradiction; cbn [beacon_entry_ok];
        first [ reflexivity | exists 3; reflexivity ].
    - intros k b Hin. vm_compute in Hin.
      repeat (destruct Hin as [Hin|Hin]; [try discriminate Hin; injection Hin as _ <-; cbn; lia|]). contradiction.
  Qed.

  Example demo_page1 : list_query_cb (store_items demo) (cbk (dreq 7)) (dpreq KeyNil 0 2 false false)
    = Ok {| cres_state := [dbc 1 7; dbc 2 7]; cres_next_key := Some 3%N; cres_total := 0 |}.
  Proof. vm_compute. reflexivity. Qed.
  Example demo_page2 : list_query_cb (store_items demo) (cbk (dreq 7)) (dpreq (KeyAt 3) 0 2 false false)
    = Ok {| cres_state := [dbc 3 7; dbc 300 7]; cres_next_key := None; cres_total := 0 |}.
  Proof. vm_compute. reflexivity. Qed.
  Example demo_walk_key : all_pages_by_key_cb 6 (store_items demo) (cbk (dreq 7)) 2 = [dbc 1 7; dbc 2 7; dbc 3 7; dbc 300 7].
  Proof. vm_compute. reflexivity. Qed.
  Example demo_rev_page1 : list_query_cb (store_items demo) (cbk (dreq 7)) (dpreq KeyNil 0 2 false true)
    = Ok {| cres_state := [dbc 300 7; dbc 3 7]; cres_next_key := Some 2%N; cres_total := 0 |}.
  Proof. vm_compute. reflexivity. Qed.
  Example demo_walk_key_rev : all_pages_by_key_rev_cb 6 (store_items demo) (cbk (dreq 7)) 2 = [dbc 300 7; dbc 3 7; dbc 2 7; dbc 1 7].
  Proof. vm_compute. reflexivity. Qed.
  Example demo_offset_page2 : list_query_cb (store_items demo) (cbk (dreq 7)) (dpreq KeyNil 2 2 true false)
    = Ok {| cres_state := [dbc 3 7; dbc 300 7]; cres_next_key := None; cres_total := 4 |}.
  Proof. vm_compute. reflexivity. Qed.
  Example demo_walk_offset : all_pages_by_offset_cb 6 (store_items demo) (cbk (dreq 7)) 2 = [dbc 1 7; dbc 2 7; dbc 3 7; dbc 300 7].
  Proof. vm_compute. reflexivity. Qed.
  Example demo_walk_offset_rev : all_pages_by_offset_rev_cb 6 (store_items demo) (cbk (dreq 7)) 2 = [dbc 300 7; dbc 3 7; dbc 2 7; dbc 1 7].
  Proof. vm_compute. reflexivity. Qed.
  Example demo_points :
    map (fun x => go_st_GetBeacon demo (idf x)) [dbc 1 7; dbc 2 7; dbc 3 7; dbc 300 7] =
    map (fun x => Ok (x, true)) [dbc 1 7; dbc 2 7; dbc 3 7; dbc 300 7] /\
    go_st_GetBeacon demo 7 = Ok (dbc 7 8, true) /\ bcn_list_flt (dreq 7) (dbc 7 8) = false /\
    go_st_GetAllBeacons demo = Ok [dbc 1 7; dbc 2 7; dbc 3 7; dbc 7 8; dbc 300 7].
  Proof. vm_compute. repeat split; reflexivity. Qed.
  Example demo_write :
    (do r <- go_st_SetBeacon demo (dbc 5 7); Ok (all_pages_by_key_cb 7 (store_items (fst r)) (cbk (dreq 7)) 2))
    = Ok [dbc 1 7; dbc 2 7; dbc 3 7; dbc 5 7; dbc 300 7].
  Proof. vm_compute. reflexivity. Qed.

  (* ---- the hypotheses are needed ---- *)
  (* [beacon_ids_u64]: a sorted store that satisfies [beacon_store_wf] but holds a beacon whose id field is 2^64 + 3.  The
     writer's key builder truncates: the cell is the one of id 3.  The item's key is not its id, the walk is not in
     ascending id order, and the point reader answers this beacon both for its id and for id 3. *)
  Definition bad_range : okv beacon_val :=
    match (do r <- go_st_SetBeacon [] (dbc (2 ^ 64 + 3) 7); do r <- go_st_SetBeacon (fst r) (dbc 5 7); Ok (fst r)) with
    | Ok s => s | _ => [] end.
  Example ids_u64_needed_refuted :
    okv_sorted bad_range = true /\ beacon_store_wf bad_range /\
    store_items bad_range = [(3%N, dbc (2 ^ 64 + 3) 7); (5%N, dbc 5 7)] /\
    all_pages_by_key_cb 3 (store_items bad_range) (cbk (dreq 7)) 1 = [dbc (2 ^ 64 + 3) 7; dbc 5 7] /\
    go_st_GetBeacon bad_range 3 = Ok (dbc (2 ^ 64 + 3) 7, true) /\
    go_st_GetBeacon bad_range (2 ^ 64 + 3) = Ok (dbc (2 ^ 64 + 3) 7, true).
  Proof.
    split; [vm_compute; reflexivity|]. split; [|vm_compute; repeat split; reflexivity].
    intros k v Hin. vm_compute in Hin. destruct Hin as [Hin|[Hin|[]]]; injection Hin as <- <-; vm_compute; reflexivity.
  Qed.
  (* [okv_sorted] *)
  Definition bad_unsorted : okv beacon_val := [(kReg 2, BV_Beacon (dbc 2 7)); (kReg 1, BV_Beacon (dbc 1 7))].
  Example sorted_needed_refuted :
    beacon_store_wf bad_unsorted /\ beacon_ids_u64 bad_unsorted /\ okv_sorted bad_unsorted = false /\
    all_pages_by_key_cb 3 (store_items bad_unsorted) (cbk (dreq 7)) 1 = [dbc 2 7; dbc 2 7; dbc 2 7] /\
    go_st_GetBeacon bad_unsorted 1 = Ok (dbc 1 7, true).
  Proof.
    split; [|split; [|vm_compute; repeat split; reflexivity]].
    - intros k v [H|[H|[]]]; injection H as <- <-; reflexivity.
    - intros k b [H|[H|[]]]; injection H as _ <-; cbn; lia.
  Qed.
  (* [beacon_store_wf], typing *)
  Definition bad_typed : okv beacon_val := [(kReg 1, BV_Params zero_go_Params)].
  Example typed_needed_refuted :
    okv_sorted bad_typed = true /\
    all_pages_by_key_cb 2 (store_items bad_typed) (cbk (dreq go_zero_addr)) 1 = [zero_go_Beacon] /\
    go_st_GetBeacon bad_typed 1 = Panic OKV_PANIC_UNMARSHAL /\ go_st_GetAllBeacons bad_typed = Panic OKV_PANIC_UNMARSHAL.
  Proof. vm_compute. repeat split; reflexivity. Qed.
  (* [beacon_store_wf], key = key of the value's id *)
  Definition bad_key : okv beacon_val := [(kReg 1, BV_Beacon (dbc 2 7))].
  Example key_needed_refuted :
    okv_sorted bad_key = true /\
    all_pages_by_key_cb 2 (store_items bad_key) (cbk (dreq 7)) 1 = [dbc 2 7] /\
    go_st_GetBeacon bad_key 2 = Ok (zero_go_Beacon, false).
  Proof. vm_compute. repeat split; reflexivity. Qed.
End Bcn.

(* ================================================================== *)
(* x/enterprise: EnterpriseUndPurchaseOrders over the bytes             *)
(* ================================================================== *)
Module Ent.
  Import MC.GeneratedKeys MC.GeneratedEnterpriseTypes MC.GeneratedEnterpriseKeeper MC.GeneratedEnterpriseStore.
  Import MC.proofs.GeneratedEnterpriseStoreEq MC.proofs.GeneratedEnterpriseListQueryEq.
  Local Notation cbk := go_EnterpriseUndPurchaseOrders_callback.
  Local Notation idf := EnterpriseUndPurchaseOrder_Id.

  Definition prj (v : enterprise_val) : go_EnterpriseUndPurchaseOrder :=
    match v with EV_EnterpriseUndPurchaseOrder x => x | _ => zero_go_EnterpriseUndPurchaseOrder end.
  (* what FilteredPaginate walks under PurchaseOrderIDKeyPrefix = {0x01} *)
  Definition store_items (s : okv enterprise_val) : list (N * go_EnterpriseUndPurchaseOrder) := entity_items prj 1 s.

  Lemma prj_inj x : prj (EV_EnterpriseUndPurchaseOrder x) = x. Proof. reflexivity. Qed.

  Lemma store_items_def s : store_items s =
    map (fun kv => (de64 (strip_prefix enterprise_PurchaseOrderIDKeyPrefix (fst kv)),
                    match snd kv with EV_EnterpriseUndPurchaseOrder x => x | _ => zero_go_EnterpriseUndPurchaseOrder end))
        (okv_prefix s enterprise_PurchaseOrderIDKeyPrefix).
  Proof. reflexivity. Qed.

  (* [ent_wf bech32] takes the address decoder as an argument (it constrains the locked / spent sections); only its
     purchase-order clause is used here, so every theorem holds for every [bech32] *)
  Lemma ewf bech32 s : ent_wf bech32 s -> entity_wf EV_EnterpriseUndPurchaseOrder idf 1 s.
  Proof. intros Hw k v Hin Hp. destruct (Hw k v Hin) as (F & _). exact (F Hp). Qed.

  Lemma get_found s id x :
    go_st_GetPurchaseOrder s id = Ok (x, true) <-> okv_get s (ekey 1 (Z.to_N id)) = Some (EV_EnterpriseUndPurchaseOrder x).
  Proof.
    rewrite spec_GetPurchaseOrder. change (ekey 1 (Z.to_N id)) with (kpo id).
    destruct (okv_get s (kpo id)) as [[]|]; cbn [rd_po]; split; intros H; try discriminate H;
      injection H as ->; reflexivity.
  Qed.

  Lemma getall_typed s : (forall k v, In (k, v) (okv_prefix s [1%N]) -> exists x, v = EV_EnterpriseUndPurchaseOrder x) ->
    go_st_GetAllPurchaseOrders s = Ok (entity_listing prj 1 s).
  Proof.
    intros H. rewrite spec_GetAllPurchaseOrders. apply decode_all_map. intros k v Hin. destruct (H k v Hin) as [x ->]. reflexivity.
  Qed.

  Lemma set_spec s x s' : go_st_SetPurchaseOrder s x = Ok (s', tt) ->
    s' = okv_set s (ekey 1 (Z.to_N (idf x))) (EV_EnterpriseUndPurchaseOrder x).
  Proof. intros H. apply eff_SetPurchaseOrder in H. exact (proj2 H). Qed.

  Lemma set_wf bech32 s x s' : ent_wf bech32 s -> 0 <= idf x < 2 ^ 64 ->
    go_st_SetPurchaseOrder s x = Ok (s', tt) -> ent_wf bech32 s'.
  Proof.
    intros Hw R E. apply eff_SetPurchaseOrder in E. destruct E as [_ ->]. apply wf_set; [exact Hw | apply fits_po, R].
  Qed.

  (* 1. the listing the query walks *)
  Theorem items_facts bech32 s : okv_sorted s = true -> ent_wf bech32 s ->
    Sorted N.lt (map fst (store_items s)) /\
    NoDup (map fst (store_items s)) /\
    (forall n x, In (n, x) (store_items s) -> 0 <= idf x < 2 ^ 64 /\ Z.of_N n = idf x) /\
    (forall n x, (n < 2 ^ 64)%N -> (In (n, x) (store_items s) <-> go_st_GetPurchaseOrder s (Z.of_N n) = Ok (x, true))) /\
    (exists l, go_st_GetAllPurchaseOrders s = Ok l /\ store_items s = map (fun x => (Z.to_N (idf x), x)) l).
  Proof. intros Hs Hw. exact (os_items_facts _ _ _ _ prj_inj _ _ get_found getall_typed s Hs (ewf bech32 s Hw)). Qed.

  Lemma items_length_le s : (length (store_items s) <= length s)%nat.
  Proof. apply items_length_le. Qed.

  (* 2. the four walks, a single page, count_total *)
  Notation asc req := (walk_is_asc idf go_st_GetPurchaseOrder go_st_GetAllPurchaseOrders (ent_po_flt req)).
  Notation desc req := (walk_is_desc idf go_st_GetPurchaseOrder go_st_GetAllPurchaseOrders (ent_po_flt req)).

  Theorem key_walk bech32 s req limit fuel : okv_sorted s = true -> ent_wf bech32 s ->
    (1 <= limit)%N -> (limit + 1 < two64N)%N -> (N.of_nat (length (store_items s)) < two64N)%N ->
    (length (store_items s) + 1 <= fuel)%nat ->
    asc req s (all_pages_by_key_cb fuel (store_items s) (cbk req) limit).
  Proof.
    intros Hs Hw. exact (os_key_walk _ _ _ _ prj_inj _ _ get_found getall_typed _ _ (ent_callback_filter_append req) s limit fuel Hs (ewf bech32 s Hw)).
  Qed.

  Theorem offset_walk bech32 s req limit fuel : okv_sorted s = true -> ent_wf bech32 s ->
    (1 <= limit)%N -> (N.of_nat (length (store_items s)) + limit + 1 < two64N)%N ->
    (length (store_items s) + 1 <= fuel)%nat ->
    asc req s (all_pages_by_offset_cb fuel (store_items s) (cbk req) limit).
  Proof.
    intros Hs Hw. exact (os_offset_walk _ _ _ _ prj_inj _ _ get_found getall_typed _ _ (ent_callback_filter_append req) s limit fuel Hs (ewf bech32 s Hw)).
  Qed.

  Theorem key_walk_rev bech32 s req limit fuel : okv_sorted s = true -> ent_wf bech32 s ->
    (1 <= limit)%N -> (limit + 1 < two64N)%N -> (N.of_nat (length (store_items s)) < two64N)%N ->
    (length (store_items s) + 1 <= fuel)%nat ->
    desc req s (all_pages_by_key_rev_cb fuel (store_items s) (cbk req) limit).
  Proof.
    intros Hs Hw. exact (os_key_walk_rev _ _ _ _ prj_inj _ _ get_found getall_typed _ _ (ent_callback_filter_append req) s limit fuel Hs (ewf bech32 s Hw)).
  Qed.

  Theorem offset_walk_rev bech32 s req limit fuel : okv_sorted s = true -> ent_wf bech32 s ->
    (1 <= limit)%N -> (N.of_nat (length (store_items s)) + limit + 1 < two64N)%N ->
    (length (store_items s) + 1 <= fuel)%nat ->
    desc req s (all_pages_by_offset_rev_cb fuel (store_items s) (cbk req) limit).
  Proof.
    intros Hs Hw. exact (os_offset_walk_rev _ _ _ _ prj_inj _ _ get_found getall_typed _ _ (ent_callback_filter_append req) s limit fuel Hs (ewf bech32 s Hw)).
  Qed.

  Theorem single_page bech32 s req preq r : okv_sorted s = true -> ent_wf bech32 s ->
    list_query_cb (store_items s) (cbk req) preq = Ok r ->
    (forall x, In x (cres_state r) -> go_st_GetPurchaseOrder s (idf x) = Ok (x, true) /\ ent_po_flt req x = true) /\
    NoDup (cres_state r) /\
    ((pr_offset preq < two64N)%N -> (pr_limit preq < two64N)%N -> (N.of_nat (length (store_items s)) < two64N)%N ->
     (length (cres_state r) <= N.to_nat (eff_limit preq))%nat).
  Proof.
    intros Hs Hw. exact (os_single_page _ _ _ _ prj_inj _ get_found _ _ (ent_callback_filter_append req) s preq r Hs (ewf bech32 s Hw)).
  Qed.

  Theorem total_count bech32 s req preq r : ent_wf bech32 s ->
    (match pr_key preq with KeyAt _ => False | _ => True end) ->
    (pr_count_total preq = true \/ pr_limit preq = 0%N) ->
    (N.of_nat (length (store_items s)) < two64N)%N ->
    list_query_cb (store_items s) (cbk req) preq = Ok r ->
    exists l, go_st_GetAllPurchaseOrders s = Ok l /\ cres_total r = N.of_nat (length (filter (ent_po_flt req) l)).
  Proof.
    intros Hw. exact (os_total_count _ _ _ _ _ getall_typed _ _ (ent_callback_filter_append req) s preq r (ewf bech32 s Hw)).
  Qed.

  (* 3. consistent with the point reader, complete *)
  Theorem walks_point_consistent bech32 s req limit fuel : okv_sorted s = true -> ent_wf bech32 s ->
    (1 <= limit)%N -> (N.of_nat (length (store_items s)) + limit + 1 < two64N)%N ->
    (length (store_items s) + 1 <= fuel)%nat ->
    forall w, In w (four_walks fuel (store_items s) (cbk req) limit) ->
      (forall x, In x w -> go_st_GetPurchaseOrder s (idf x) = Ok (x, true) /\ ent_po_flt req x = true) /\
      (forall id x, go_st_GetPurchaseOrder s id = Ok (x, true) -> ent_po_flt req x = true -> In x w) /\
      NoDup w.
  Proof.
    intros Hs Hw. exact (os_walks_point_consistent _ _ _ _ prj_inj _ _ get_found getall_typed _ _ (ent_callback_filter_append req) s limit fuel Hs (ewf bech32 s Hw)).
  Qed.

  (* 4. a write shows up *)
  Theorem write_shows_up bech32 s x s' req limit fuel : okv_sorted s = true -> ent_wf bech32 s ->
    0 <= idf x < 2 ^ 64 -> go_st_SetPurchaseOrder s x = Ok (s', tt) ->
    (1 <= limit)%N -> (N.of_nat (length (store_items s')) + limit + 1 < two64N)%N ->
    (length (store_items s') + 1 <= fuel)%nat ->
    okv_sorted s' = true /\ ent_wf bech32 s' /\
    forall w, In w (four_walks fuel (store_items s') (cbk req) limit) ->
      (ent_po_flt req x = true -> In x w) /\
      (forall y, In y w <-> (y = x /\ ent_po_flt req x = true) \/
                            (idf y <> idf x /\ go_st_GetPurchaseOrder s (idf y) = Ok (y, true) /\ ent_po_flt req y = true)).
  Proof.
    intros Hs Hw R E H1 H2 H3.
    destruct (os_write_shows_up _ _ _ _ prj_inj _ _ get_found getall_typed _ _ (ent_callback_filter_append req) _ set_spec
                s x s' limit fuel Hs (ewf bech32 s Hw) R E H1 H2 H3) as [Hs' [_ H]].
    split; [exact Hs'|]. split; [exact (set_wf bech32 s x s' Hw R E) | exact H].
  Qed.

  Lemma items_length_after_write s x s' : go_st_SetPurchaseOrder s x = Ok (s', tt) ->
    (length (store_items s') <= S (length (store_items s)))%nat.
  Proof. intros E. apply set_spec in E. subst s'. apply items_length_after_set. Qed.


  (* 5. a run: 5 purchase orders written out of order with the generated writer (300 needs two key bytes), entries of
        the other sections around them (the raised queue uses the same 8-byte ids under another prefix byte); the
        request asks for the RAISED orders of purchaser 7: order 7 (accepted) and order 2 (purchaser 8) are excluded *)
  Definition dpo (id : Z) (purchaser : go_addr) (status : Z) : go_EnterpriseUndPurchaseOrder :=
    mk_go_EnterpriseUndPurchaseOrder id purchaser (1, 1000) status 0 0 [].
  Definition dreq (purchaser : go_addr) (status : Z) : go_QueryEnterpriseUndPurchaseOrdersRequest :=
    mk_go_QueryEnterpriseUndPurchaseOrdersRequest go_zero_PageRequest purchaser status.
  Definition dpreq k o l ct rv : page_req :=
    {| pr_key := k; pr_offset := o; pr_limit := l; pr_count_total := ct; pr_reverse := rv |}.
  Definition demo_run : outcome (okv enterprise_val) :=
    do r <- go_st_SetPurchaseOrder [] (dpo 3 7 1);
    do r <- go_st_AddPoToRaisedQueue (fst r) 3;
    do r <- go_st_SetPurchaseOrder (fst r) (dpo 300 7 1);
    do r <- go_st_SetHighestPurchaseOrderID (fst r) 300;
    do r <- go_st_SetPurchaseOrder (fst r) (dpo 1 7 1);
    do r <- go_st_SetTotalLockedUnd (fst r) (1, 5);
    do r <- go_st_SetPurchaseOrder (fst r) (dpo 7 7 2);
    do r <- go_st_SetPurchaseOrder (fst r) (dpo 2 8 1);
    do r <- go_st_SetPurchaseOrder (fst r) (dpo 9 7 1);
    Ok (fst r).
  Definition demo : okv enterprise_val := match demo_run with Ok s => s | _ => [] end.

  Example demo_store : demo_run = Ok demo /\ okv_sorted demo = true /\ length demo = 9%nat /\
    store_items demo = [(1%N, dpo 1 7 1); (2%N, dpo 2 8 1); (3%N, dpo 3 7 1); (7%N, dpo 7 7 2); (9%N, dpo 9 7 1); (300%N, dpo 300 7 1)].
  Proof. vm_compute. repeat split; reflexivity. Qed.

  Example demo_wf bech32 : ent_wf bech32 demo.
  Proof.
    intros k v Hin. vm_compute in Hin.
    repeat (destruct Hin as [Hin|Hin]; [injection Hin as <- <-|]); try contradiction;
      unfold ent_fits; repeat split; intros Hfit; try discriminate Hfit;
      first [ eexists; split; [reflexivity | split; [cbn; lia | reflexivity]]
            | exists 3; repeat split; (lia || reflexivity)
            | exists 300; repeat split; (lia || reflexivity)
            | eexists; reflexivity ].
  Qed.

  Example demo_page1 : list_query_cb (store_items demo) (cbk (dreq 7 1)) (dpreq KeyNil 0 2 false false)
    = Ok {| cres_state := [dpo 1 7 1; dpo 3 7 1]; cres_next_key := Some 9%N; cres_total := 0 |}.
  Proof. vm_compute. reflexivity. Qed.
  Example demo_page2 : list_query_cb (store_items demo) (cbk (dreq 7 1)) (dpreq (KeyAt 9) 0 2 false false)
    = Ok {| cres_state := [dpo 9 7 1; dpo 300 7 1]; cres_next_key := None; cres_total := 0 |}.
  Proof. vm_compute. reflexivity. Qed.
  Example demo_walk_key : all_pages_by_key_cb 7 (store_items demo) (cbk (dreq 7 1)) 2 = [dpo 1 7 1; dpo 3 7 1; dpo 9 7 1; dpo 300 7 1].
  Proof. vm_compute. reflexivity. Qed.
  Example demo_rev_page1 : list_query_cb (store_items demo) (cbk (dreq 7 1)) (dpreq KeyNil 0 2 false true)
    = Ok {| cres_state := [dpo 300 7 1; dpo 9 7 1]; cres_next_key := Some 3%N; cres_total := 0 |}.
  Proof. vm_compute. reflexivity. Qed.
  Example demo_walk_key_rev : all_pages_by_key_rev_cb 7 (store_items demo) (cbk (dreq 7 1)) 2 = [dpo 300 7 1; dpo 9 7 1; dpo 3 7 1; dpo 1 7 1].
  Proof. vm_compute. reflexivity. Qed.
  Example demo_offset_page2 : list_query_cb (store_items demo) (cbk (dreq 7 1)) (dpreq KeyNil 2 2 true false)
    = Ok {| cres_state := [dpo 9 7 1; dpo 300 7 1]; cres_next_key := None; cres_total := 4 |}.
  Proof. vm_compute. reflexivity. Qed.
  Example demo_walk_offset : all_pages_by_offset_cb 7 (store_items demo) (cbk (dreq 7 1)) 2 = [dpo 1 7 1; dpo 3 7 1; dpo 9 7 1; dpo 300 7 1].
  Proof. vm_compute. reflexivity. Qed.
  Example demo_walk_offset_rev : all_pages_by_offset_rev_cb 7 (store_items demo) (cbk (dreq 7 1)) 2 = [dpo 300 7 1; dpo 9 7 1; dpo 3 7 1; dpo 1 7 1].
  Proof. vm_compute. reflexivity. Qed.
  (* status only / purchaser only / no filter *)
  Example demo_other_filters :
    all_pages_by_key_cb 7 (store_items demo) (cbk (dreq go_zero_addr 2)) 2 = [dpo 7 7 2] /\
    all_pages_by_key_cb 7 (store_items demo) (cbk (dreq 8 0)) 2 = [dpo 2 8 1] /\
    all_pages_by_key_cb 7 (store_items demo) (cbk (dreq go_zero_addr 0)) 2 = [dpo 1 7 1; dpo 2 8 1; dpo 3 7 1; dpo 7 7 2; dpo 9 7 1; dpo 300 7 1].
  Proof. vm_compute. repeat split; reflexivity. Qed.
  Example demo_points :
    map (fun x => go_st_GetPurchaseOrder demo (idf x)) [dpo 1 7 1; dpo 3 7 1; dpo 9 7 1; dpo 300 7 1] =
    map (fun x => Ok (x, true)) [dpo 1 7 1; dpo 3 7 1; dpo 9 7 1; dpo 300 7 1] /\
    go_st_GetPurchaseOrder demo 7 = Ok (dpo 7 7 2, true) /\ ent_po_flt (dreq 7 1) (dpo 7 7 2) = false /\
    go_st_GetPurchaseOrder demo 2 = Ok (dpo 2 8 1, true) /\ ent_po_flt (dreq 7 1) (dpo 2 8 1) = false /\
    go_st_GetAllPurchaseOrders demo = Ok [dpo 1 7 1; dpo 2 8 1; dpo 3 7 1; dpo 7 7 2; dpo 9 7 1; dpo 300 7 1].
  Proof. vm_compute. repeat split; reflexivity. Qed.
  (* writes show up: order 7 is re-written as RAISED, order 5 is new *)
  Example demo_write :
    (do r <- go_st_SetPurchaseOrder demo (dpo 7 7 1); do r <- go_st_SetPurchaseOrder (fst r) (dpo 5 7 1);
     Ok (all_pages_by_key_cb 8 (store_items (fst r)) (cbk (dreq 7 1)) 2))
    = Ok [dpo 1 7 1; dpo 3 7 1; dpo 5 7 1; dpo 7 7 1; dpo 9 7 1; dpo 300 7 1].
  Proof. vm_compute. reflexivity. Qed.

  (* ---- the hypotheses are needed ---- *)
  Definition bad_unsorted : okv enterprise_val :=
    [(kpo 2, EV_EnterpriseUndPurchaseOrder (dpo 2 7 1)); (kpo 1, EV_EnterpriseUndPurchaseOrder (dpo 1 7 1))].
  Example sorted_needed_refuted :
    okv_sorted bad_unsorted = false /\
    all_pages_by_key_cb 3 (store_items bad_unsorted) (cbk (dreq 7 1)) 1 = [dpo 2 7 1; dpo 2 7 1; dpo 2 7 1] /\
    go_st_GetPurchaseOrder bad_unsorted 1 = Ok (dpo 1 7 1, true).
  Proof. vm_compute. repeat split; reflexivity. Qed.
  Definition bad_typed : okv enterprise_val := [(kpo 1, EV_bytes (be64 1))].
  Example typed_needed_refuted :
    okv_sorted bad_typed = true /\
    all_pages_by_key_cb 2 (store_items bad_typed) (cbk (dreq go_zero_addr 0)) 1 = [zero_go_EnterpriseUndPurchaseOrder] /\
    go_st_GetPurchaseOrder bad_typed 1 = Panic OKV_PANIC_UNMARSHAL /\ go_st_GetAllPurchaseOrders bad_typed = Panic OKV_PANIC_UNMARSHAL.
  Proof. vm_compute. repeat split; reflexivity. Qed.
  Definition bad_key : okv enterprise_val := [(kpo 1, EV_EnterpriseUndPurchaseOrder (dpo 2 7 1))].
  Example key_needed_refuted :
    okv_sorted bad_key = true /\
    all_pages_by_key_cb 2 (store_items bad_key) (cbk (dreq 7 1)) 1 = [dpo 2 7 1] /\
    go_st_GetPurchaseOrder bad_key 2 = Ok (zero_go_EnterpriseUndPurchaseOrder, false).
  Proof. vm_compute. repeat split; reflexivity. Qed.
  (* the range of the id (part of [ent_wf]): the writer accepts an order whose id field is 2^64 + 3 and files it under the
     key of 3 *)
  Example range_needed_refuted :
    (do r <- go_st_SetPurchaseOrder [] (dpo (2 ^ 64 + 3) 7 1); Ok (store_items (fst r))) = Ok [(3%N, dpo (2 ^ 64 + 3) 7 1)].
  Proof. vm_compute. reflexivity. Qed.
End Ent.

(* ================================================================== *)
(* x/stream: Streams / AllStreamsForSender / AllStreamsForReceiver      *)
(* ================================================================== *)
(* These three queries go through query.GenericFilteredPaginate (same observable loop as FilteredPaginate, see
   model/Paginate.v: [generic_filtered_paginate]); their callbacks look at the KEY (prefix already stripped by prefix.Store)
   to recover (receiver, sender) - translated as go_stream_*_callback in GeneratedKeys.v - and the SDK appends the
   callback's result.  The store keys are byte strings, not numbers: the pagination model wants numeric keys that are
   order-isomorphic to them, here the RANK 2*i+1 of the i-th entry of the prefix listing (model/Paginate.v: "any strictly
   monotone map will do").  An item's value is the raw store entry (byte key, value), so that the filter can be the
   GENERATED key callback. *)
Fixpoint rank_from {A} (i : N) (l : list A) : list (N * A) :=
  match l with [] => [] | x :: r => ((2 * i + 1)%N, x) :: rank_from (i + 1)%N r end.

Lemma rank_from_snd {A} i (l : list A) : map snd (rank_from i l) = l.
Proof. revert i. induction l as [|x r IH]; intros i; cbn [rank_from map snd]; [reflexivity|]. rewrite IH. reflexivity. Qed.

Lemma rank_from_length {A} i (l : list A) : length (rank_from i l) = length l.
Proof. rewrite <- (rank_from_snd i l) at 2. rewrite map_length. reflexivity. Qed.

Lemma rank_from_sorted {A} i (l : list A) : Sorted N.lt (map fst (rank_from i l)).
Proof.
  revert i. induction l as [|x r IH]; intros i; cbn [rank_from map fst]; [constructor|].
  constructor; [apply IH|]. destruct r as [|y r]; cbn [rank_from map fst]; constructor. lia.
Qed.

Lemma filter_filter_prefix {V} (st : okv V) P Q :
  (forall k, is_prefix Q k = true -> is_prefix P k = true) ->
  okv_prefix st Q = filter (fun kv => is_prefix Q (fst kv)) (okv_prefix st P).
Proof.
  intros H. unfold okv_prefix. induction st as [|[k v] r IH]; cbn; [reflexivity|].
  destruct (is_prefix Q k) eqn:EQ.
  - rewrite (H k EQ). cbn. rewrite EQ, IH. reflexivity.
  - destruct (is_prefix P k); cbn; [rewrite EQ|]; exact IH.
Qed.

Lemma NoDup_map_filter {A B} (f : A -> B) (g : A -> bool) (l : list A) : NoDup (map f l) -> NoDup (map f (filter g l)).
Proof.
  induction l as [|a l IH]; cbn; intros H; [constructor|]. inversion H as [|? ? Hn Hd]; subst.
  destruct (g a); cbn; [|apply IH, Hd]. constructor; [|apply IH, Hd].
  intros Hin. apply Hn. apply in_map_iff in Hin. destruct Hin as [b [E Hb]]. apply filter_In in Hb.
  apply in_map_iff. exists b. split; [exact E | exact (proj1 Hb)].
Qed.

Module Str.
  Import MC.GeneratedKeys MC.GeneratedStreamTypes MC.GeneratedStreamStore.
  Import MC.proofs.GeneratedKeysEq MC.proofs.GeneratedStreamStoreEq.
  Notation entry := (list N * stream_val)%type.
  Notation result := (list N * list N * go_Stream)%type.       (* StreamResult{Receiver, Sender, Stream} *)
  Notation kcb := (list N -> outcome (option (list N * list N))).
  Notation listing st := (go_st_IterateAllStreams st (fun acc_ a_ => Ok (acc_ ++ [a_], false)) []).

  (* what GenericFilteredPaginate walks over prefix.NewStore(kv, P): the raw entries under P, keyed by rank *)
  Definition store_items (P : list N) (st : okv stream_val) : list (N * entry) := rank_from 0 (okv_prefix st P).
  (* a generated key callback run on the entry's key with the prefix stripped: the hit test and the result *)
  Definition hitv (cb : kcb) (P : list N) (e : entry) : bool :=
    match cb (strip_prefix P (fst e)) with Ok (Some _) => true | _ => false end.
  Definition cb_result (cb : kcb) (P : list N) (e : entry) : result :=
    match cb (strip_prefix P (fst e)), snd e with
    | Ok (Some (r, s)), SV_Stream x => (r, s, x)
    | _, _ => ([], [], zero_go_Stream)
    end.
  Definition results (cb : kcb) (P : list N) (its : list (N * entry)) : list result :=
    map (fun it => cb_result cb P (snd it)) its.
  (* one page as the handler returns it: (results, NextKey as a rank, Total) *)
  Definition page (cb : kcb) (P : list N) (st : okv stream_val) (preq : page_req) : outcome (list result * option N * N) :=
    omap (fun r => (results cb P (res_items r), res_next_key r, res_total r))
         (generic_filtered_paginate (store_items P st) (vflt (hitv cb P)) preq).
  Definition four_walks (cb : kcb) P st (fuel : nat) (limit : N) : list (list result) :=
    [ results cb P (all_pages_by_key fuel (store_items P st) (vflt (hitv cb P)) limit);
      results cb P (all_pages_by_offset fuel (store_items P st) (vflt (hitv cb P)) limit);
      results cb P (all_pages_by_key_rev fuel (store_items P st) (vflt (hitv cb P)) limit);
      results cb P (all_pages_by_offset_rev fuel (store_items P st) (vflt (hitv cb P)) limit) ].

  Lemma store_items_sorted P st : Sorted N.lt (map fst (store_items P st)).
  Proof. apply rank_from_sorted. Qed.
  Lemma store_items_snd P st : map snd (store_items P st) = okv_prefix st P.
  Proof. apply rank_from_snd. Qed.
  Lemma store_items_length_le P st : (length (store_items P st) <= length st)%nat.
  Proof. unfold store_items, okv_prefix. rewrite rank_from_length. apply filter_length_le_os. Qed.

  Lemma results_matching cb P st :
    results cb P (filter (fun kv => vflt (hitv cb P) (fst kv) (snd kv)) (store_items P st)) =
    map (cb_result cb P) (filter (hitv cb P) (okv_prefix st P)).
  Proof. unfold results. rewrite <- (map_map snd (cb_result cb P)), map_snd_filter, store_items_snd. reflexivity. Qed.

  (* ---- the three key callbacks on the key of a stored stream ---- *)
  Lemma afsk_skey r s : r <> [] -> s <> [] -> addresses_from_stream_key (skey r s) = Some (r, s).
  Proof.
    intros Nr Ns. unfold skey. cbn [str_encode].
    rewrite (length_prefix_nonempty r Nr), (length_prefix_nonempty s Ns).
    replace (0x11 :: (N.of_nat (length r) :: r) ++ N.of_nat (length s) :: s)%N
      with (0x11 :: N.of_nat (length r) :: r ++ N.of_nat (length s) :: s ++ [])%N
      by (rewrite app_nil_r; reflexivity).
    apply addresses_from_stream_key_shape; rewrite Nat2N.id; reflexivity.
  Qed.

  Lemma all_strip r s : str_prefix_all ++ strip_prefix str_prefix_all (skey r s) = skey r s.
  Proof. reflexivity. Qed.

  Lemma cb_streams r s : r <> [] -> s <> [] ->
    go_stream_Streams_callback (strip_prefix str_prefix_all (skey r s)) = Ok (Some (r, s)).
  Proof. intros Nr Ns. rewrite gen_str_Streams_callback_raw, all_strip, afsk_skey by assumption. reflexivity. Qed.

  Lemma cb_sender sender r s : r <> [] -> s <> [] ->
    go_stream_AllStreamsForSender_callback sender (strip_prefix str_prefix_all (skey r s)) =
    Ok (if key_eqb s sender then Some (r, s) else None).
  Proof.
    intros Nr Ns. rewrite gen_str_AllStreamsForSender_callback_raw, all_strip, afsk_skey by assumption.
    cbn [sender_filter]. destruct (key_eqb s sender) eqn:E; [|reflexivity]. apply key_eqb_spec in E. subst s. reflexivity.
  Qed.

  Lemma cb_receiver rcv s : s <> [] ->
    go_stream_AllStreamsForReceiver_callback rcv (strip_prefix (str_prefix_receiver rcv) (skey rcv s)) = Ok (Some (rcv, s)).
  Proof.
    intros Ns. rewrite gen_str_AllStreamsForReceiver_callback_raw. unfold skey. rewrite strip_receiver_prefix.
    rewrite (length_prefix_nonempty s Ns). rewrite <- (app_nil_r s) at 2.
    rewrite first_address_shape by (rewrite Nat2N.id; reflexivity). reflexivity.
  Qed.

  (* which stream keys lie in the by-receiver prefix store *)
  Lemma recv_prefix_skey rcv r s : rcv <> [] -> r <> [] ->
    is_prefix (str_prefix_receiver rcv) (skey r s) = key_eqb r rcv.
  Proof.
    intros Nc Nr. destruct (key_eqb r rcv) eqn:E.
    - apply key_eqb_spec in E. subst r. unfold str_prefix_receiver, skey. cbn [str_encode].
      apply (is_prefix_app (0x11%N :: length_prefix rcv) (length_prefix s)).
    - destruct (is_prefix (str_prefix_receiver rcv) (skey r s)) eqn:Ep; [|reflexivity]. exfalso.
      apply is_prefix_spec in Ep. destruct Ep as [t Et]. unfold str_prefix_receiver, skey in Et. cbn [str_encode] in Et.
      rewrite (length_prefix_nonempty r Nr), (length_prefix_nonempty rcv Nc) in Et. cbn [app] in Et.
      apply cons_eq_inv in Et. destruct Et as [_ Et]. apply cons_eq_inv in Et. destruct Et as [El Et]. apply Nat2N.inj in El.
      destruct (app_inv_same_len r rcv _ _ El Et) as [-> _].
      rewrite (proj2 (key_eqb_spec rcv rcv) eq_refl) in E. discriminate E.
  Qed.

  Lemma recv_under_all rcv k : is_prefix (str_prefix_receiver rcv) k = true -> is_prefix str_prefix_all k = true.
  Proof.
    unfold str_prefix_receiver, str_prefix_all. destruct k as [|y k]; [discriminate|].
    rewrite !is_prefix_cons. intros H. apply andb_true_iff in H. rewrite (proj1 H). reflexivity.
  Qed.

  (* ---- the core: a callback that answers [sel] on the stored streams pages [filter sel] of the decoded listing ---- *)
  Lemma results_filter (cb : kcb) P (sel : result -> bool) (LP : list result) :
    Forall addrs_ok LP ->
    (forall a, In a LP -> cb (strip_prefix P (skey (fst (fst a)) (snd (fst a)))) = Ok (if sel a then Some (fst a) else None)) ->
    map (cb_result cb P) (filter (hitv cb P) (map entry_of LP)) = filter sel LP.
  Proof.
    induction LP as [|[[r s] x] LP IH]; intros Hok Hcb; [reflexivity|].
    inversion Hok as [|? ? _ Hok']; subst. cbn [map filter].
    pose proof (Hcb (r, s, x) (or_introl eq_refl)) as E. cbn [fst snd] in E.
    unfold hitv at 1. unfold entry_of at 1. cbn [fst snd]. rewrite E.
    destruct (sel (r, s, x)); cbn [map].
    - unfold cb_result at 1. unfold entry_of at 1. cbn [fst snd]. rewrite E. f_equal. apply IH; [exact Hok' | intros a Ha; apply Hcb; right; exact Ha].
    - apply IH; [exact Hok' | intros a Ha; apply Hcb; right; exact Ha].
  Qed.

  (* the specification of a stream list query: prefix store P, key callback cb, selection sel on (receiver, sender, stream) *)
  Definition query_spec (cb : kcb) (P : list N) (sel : result -> bool) : Prop :=
    forall st L, stream_store_wf st -> listing st = Ok L ->
      map (cb_result cb P) (filter (hitv cb P) (okv_prefix st P)) = filter sel L /\
      (forall k v, In (k, v) (okv_prefix st P) -> exists o, cb (strip_prefix P k) = Ok o).

  Definition sel_all (_ : result) : bool := true.
  Definition sel_sender (sender : list N) (a : result) : bool := key_eqb (snd (fst a)) sender.
  Definition sel_receiver (rcv : list N) (a : result) : bool := key_eqb (fst (fst a)) rcv.

  Lemma filter_true {A} (l : list A) : filter (fun _ => true) l = l.
  Proof. induction l as [|a l IH]; cbn; [reflexivity | rewrite IH; reflexivity]. Qed.

  Lemma entry_in_inv (L : list result) k v : Forall addrs_ok L -> In (k, v) (map entry_of L) ->
    exists r s x, In (r, s, x) L /\ r <> [] /\ s <> [] /\ k = skey r s /\ v = SV_Stream x.
  Proof.
    intros F Hin. apply in_map_iff in Hin. destruct Hin as [[[r s] x] [E Hin]]. rewrite Forall_forall in F.
    destruct (F _ Hin) as [Hr Hs]. cbn [fst snd] in Hr, Hs. unfold entry_of in E. cbn [fst snd] in E. injection E as <- <-.
    exists r, s, x. repeat split; try exact Hin; apply addr_ok_nonempty; assumption.
  Qed.

  Theorem spec_streams : query_spec go_stream_Streams_callback str_prefix_all sel_all.
  Proof.
    intros st L W HL. destruct (list_entries st L W HL) as [M F]. change stream_StreamKeyPrefix with str_prefix_all in M.
    rewrite <- M. split.
    - unfold sel_all. rewrite (results_filter _ _ (fun _ => true) L F); [reflexivity|].
      intros [[r s] x] Ha. rewrite Forall_forall in F. destruct (F _ Ha) as [Hr Hs]. cbn [fst snd] in *.
      apply cb_streams; apply addr_ok_nonempty; assumption.
    - intros k v Hin. destruct (entry_in_inv L k v F Hin) as (r & s & x & _ & Nr & Ns & -> & _).
      rewrite cb_streams by assumption. eauto.
  Qed.

  Theorem spec_sender sender : query_spec (go_stream_AllStreamsForSender_callback sender) str_prefix_all (sel_sender sender).
  Proof.
    intros st L W HL. destruct (list_entries st L W HL) as [M F]. change stream_StreamKeyPrefix with str_prefix_all in M.
    rewrite <- M. split.
    - apply (results_filter _ _ (sel_sender sender) L F).
      intros [[r s] x] Ha. rewrite Forall_forall in F. destruct (F _ Ha) as [Hr Hs]. cbn [fst snd] in *.
      unfold sel_sender. cbn [fst snd]. apply cb_sender; apply addr_ok_nonempty; assumption.
    - intros k v Hin. destruct (entry_in_inv L k v F Hin) as (r & s & x & _ & Nr & Ns & -> & _).
      rewrite cb_sender by assumption. eauto.
  Qed.

  Lemma receiver_prefix_listing rcv st L : rcv <> [] -> stream_store_wf st -> listing st = Ok L ->
    okv_prefix st (str_prefix_receiver rcv) = map entry_of (filter (sel_receiver rcv) L) /\ Forall addrs_ok (filter (sel_receiver rcv) L).
  Proof.
    intros Nc W HL. destruct (list_entries st L W HL) as [M F]. change stream_StreamKeyPrefix with str_prefix_all in M.
    split.
    - rewrite (filter_filter_prefix st str_prefix_all (str_prefix_receiver rcv) (recv_under_all rcv)), <- M.
      clear M HL. induction L as [|[[r s] x] L IH]; [reflexivity|]. inversion F as [|? ? Ha F']; subst. cbn [map filter].
      destruct Ha as [Hr _]. cbn [fst snd] in Hr. unfold entry_of at 1. cbn [fst snd].
      rewrite recv_prefix_skey by (try exact Nc; apply addr_ok_nonempty, Hr). change (sel_receiver rcv (r, s, x)) with (key_eqb r rcv).
      destruct (key_eqb r rcv); cbn [map]; rewrite (IH F'); reflexivity.
    - rewrite Forall_forall in *. intros a Ha. apply filter_In in Ha. apply F, (proj1 Ha).
  Qed.

  Theorem spec_receiver rcv : rcv <> [] ->
    query_spec (go_stream_AllStreamsForReceiver_callback rcv) (str_prefix_receiver rcv) (sel_receiver rcv).
  Proof.
    intros Nc st L W HL. destruct (receiver_prefix_listing rcv st L Nc W HL) as [M F]. rewrite M.
    assert (Hrcv : forall a, In a (filter (sel_receiver rcv) L) -> fst (fst a) = rcv).
    { intros a Ha. apply filter_In in Ha. apply key_eqb_spec, (proj2 Ha). }
    split.
    - rewrite (results_filter _ _ (fun _ => true) _ F); [apply filter_true|].
      intros [[r s] x] Ha. pose proof (Hrcv _ Ha) as Er. cbn [fst snd] in Er. subst r. cbn [fst snd].
      rewrite Forall_forall in F. destruct (F _ Ha) as [_ Hs]. cbn [fst snd] in Hs. apply cb_receiver, addr_ok_nonempty, Hs.
    - intros k v Hin. destruct (entry_in_inv _ k v F Hin) as (r & s & x & Ha & Nr & Ns & -> & _).
      pose proof (Hrcv _ Ha) as Er. cbn [fst snd] in Er. subst r. rewrite cb_receiver by assumption. eauto.
  Qed.

  (* ---- C20 for a stream list query that meets its specification ---- *)
  Section Query.
    Variable cb : kcb.
    Variable P : list N.
    Variable sel : result -> bool.
    Hypothesis Hq : query_spec cb P sel.

    (* the selected streams of the generated listing: pointwise, what the generated point reader finds and sel accepts *)
    Lemma selected_spec st L : stream_store_wf st -> okv_sorted st = true -> listing st = Ok L ->
      NoDup (map fst (filter sel L)) /\
      (forall r s x, In (r, s, x) (filter sel L) <->
         addr_ok r /\ addr_ok s /\ go_st_GetStream st r s = Ok (x, true) /\ sel (r, s, x) = true).
    Proof.
      intros W Hs HL. split; [apply NoDup_map_filter, (list_nodup st L W Hs HL)|].
      intros r s x. rewrite filter_In, (list_point st L W Hs HL r s x). tauto.
    Qed.

    Definition walk_asc (st : okv stream_val) (w : list result) : Prop :=
      (exists L, listing st = Ok L /\ w = filter sel L) /\
      NoDup (map fst w) /\
      (forall r s x, In (r, s, x) w <-> addr_ok r /\ addr_ok s /\ go_st_GetStream st r s = Ok (x, true) /\ sel (r, s, x) = true).
    Definition walk_desc (st : okv stream_val) (w : list result) : Prop :=
      (exists L, listing st = Ok L /\ w = rev (filter sel L)) /\
      NoDup (map fst w) /\
      (forall r s x, In (r, s, x) w <-> addr_ok r /\ addr_ok s /\ go_st_GetStream st r s = Ok (x, true) /\ sel (r, s, x) = true).

    Lemma asc_intro st w L : stream_store_wf st -> okv_sorted st = true -> listing st = Ok L -> w = filter sel L -> walk_asc st w.
    Proof.
      intros W Hs HL ->. split; [exists L; split; [exact HL | reflexivity]|]. exact (selected_spec st L W Hs HL).
    Qed.
    Lemma desc_intro st w L : stream_store_wf st -> okv_sorted st = true -> listing st = Ok L -> w = rev (filter sel L) -> walk_desc st w.
    Proof.
      intros W Hs HL ->. destruct (selected_spec st L W Hs HL) as [Hn Hm].
      split; [exists L; split; [exact HL | reflexivity]|]. split.
      - rewrite map_rev. apply NoDup_rev, Hn.
      - intros r s x. rewrite <- in_rev. apply Hm.
    Qed.

    Lemma results_rev (its : list (N * entry)) : results cb P (rev its) = rev (results cb P its).
    Proof. unfold results. apply map_rev. Qed.

    Theorem key_walk st limit fuel : stream_store_wf st -> okv_sorted st = true ->
      (1 <= limit)%N -> (limit + 1 < two64N)%N -> (N.of_nat (length (store_items P st)) < two64N)%N ->
      (length (store_items P st) + 1 <= fuel)%nat ->
      walk_asc st (results cb P (all_pages_by_key fuel (store_items P st) (vflt (hitv cb P)) limit)).
    Proof.
      intros W Hs H1 H2 H3 H4. destruct (list_total st W) as [L HL]. apply (asc_intro st _ L W Hs HL).
      rewrite key_pages_partition by (try assumption; apply store_items_sorted).
      rewrite results_matching. apply (Hq st L W HL).
    Qed.

    Theorem offset_walk st limit fuel : stream_store_wf st -> okv_sorted st = true ->
      (1 <= limit)%N -> (N.of_nat (length (store_items P st)) + limit + 1 < two64N)%N ->
      (length (store_items P st) + 1 <= fuel)%nat ->
      walk_asc st (results cb P (all_pages_by_offset fuel (store_items P st) (vflt (hitv cb P)) limit)).
    Proof.
      intros W Hs H1 H2 H3. destruct (list_total st W) as [L HL]. apply (asc_intro st _ L W Hs HL).
      rewrite offset_pages_partition by assumption. rewrite results_matching. apply (Hq st L W HL).
    Qed.

    Theorem key_walk_rev st limit fuel : stream_store_wf st -> okv_sorted st = true ->
      (1 <= limit)%N -> (limit + 1 < two64N)%N -> (N.of_nat (length (store_items P st)) < two64N)%N ->
      (length (store_items P st) + 1 <= fuel)%nat ->
      walk_desc st (results cb P (all_pages_by_key_rev fuel (store_items P st) (vflt (hitv cb P)) limit)).
    Proof.
      intros W Hs H1 H2 H3 H4. destruct (list_total st W) as [L HL]. apply (desc_intro st _ L W Hs HL).
      rewrite key_pages_partition_rev by (try assumption; apply store_items_sorted).
      rewrite results_rev, results_matching. f_equal. apply (Hq st L W HL).
    Qed.

    Theorem offset_walk_rev st limit fuel : stream_store_wf st -> okv_sorted st = true ->
      (1 <= limit)%N -> (N.of_nat (length (store_items P st)) + limit + 1 < two64N)%N ->
      (length (store_items P st) + 1 <= fuel)%nat ->
      walk_desc st (results cb P (all_pages_by_offset_rev fuel (store_items P st) (vflt (hitv cb P)) limit)).
    Proof.
      intros W Hs H1 H2 H3. destruct (list_total st W) as [L HL]. apply (desc_intro st _ L W Hs HL).
      rewrite offset_pages_partition_rev by assumption.
      rewrite results_rev, results_matching. f_equal. apply (Hq st L W HL).
    Qed.

    (* no callback call of a walk / page panics: the model's filter (which cannot fail) loses nothing *)
    Theorem callbacks_total st : stream_store_wf st ->
      forall k v, In (k, v) (okv_prefix st P) -> exists o, cb (strip_prefix P k) = Ok o.
    Proof. intros W. destruct (list_total st W) as [L HL]. exact (proj2 (Hq st L W HL)). Qed.

    (* one page, any page request *)
    Theorem single_page st preq res nk tot : stream_store_wf st -> okv_sorted st = true ->
      page cb P st preq = Ok (res, nk, tot) ->
      (forall r s x, In (r, s, x) res -> addr_ok r /\ addr_ok s /\ go_st_GetStream st r s = Ok (x, true) /\ sel (r, s, x) = true) /\
      ((pr_offset preq < two64N)%N -> (pr_limit preq < two64N)%N -> (N.of_nat (length (store_items P st)) < two64N)%N ->
       (length res <= N.to_nat (eff_limit preq))%nat).
    Proof.
      intros W Hs H. unfold page, generic_filtered_paginate in H.
      destruct (filtered_paginate (store_items P st) (vflt (hitv cb P)) preq) as [r0|c|c] eqn:E; try discriminate H.
      cbn [omap] in H. injection H as <- <- <-.
      destruct (single_page_sound (store_items P st) (vflt (hitv cb P)) preq r0 (store_items_sorted P st) E) as [Ha [_ Hb]].
      destruct (list_total st W) as [L HL]. destruct (selected_spec st L W Hs HL) as [_ Hm].
      split.
      - intros r s x Hin. apply Hm. rewrite <- (proj1 (Hq st L W HL)), <- results_matching.
        unfold results in *. apply in_map_iff in Hin. destruct Hin as [it [Eit Hit]]. apply in_map_iff. exists it.
        split; [exact Eit|]. apply filter_In. exact (Ha it Hit).
      - intros B1 B2 B3. unfold results. rewrite map_length. apply Hb; assumption.
    Qed.

    Theorem total_count st preq res nk tot : stream_store_wf st ->
      (match pr_key preq with KeyAt _ => False | _ => True end) ->
      (pr_count_total preq = true \/ pr_limit preq = 0%N) ->
      (N.of_nat (length (store_items P st)) < two64N)%N ->
      page cb P st preq = Ok (res, nk, tot) ->
      exists L, listing st = Ok L /\ tot = N.of_nat (length (filter sel L)).
    Proof.
      intros W Hk Hc Hl H. unfold page, generic_filtered_paginate in H.
      destruct (filtered_paginate (store_items P st) (vflt (hitv cb P)) preq) as [r0|c|c] eqn:E; try discriminate H.
      cbn [omap] in H. injection H as <- <- <-.
      destruct (list_total st W) as [L HL]. exists L. split; [exact HL|].
      rewrite (total_count (store_items P st) (vflt (hitv cb P)) preq r0 Hk Hc Hl E).
      rewrite <- (proj1 (Hq st L W HL)), <- results_matching. unfold results. rewrite map_length. reflexivity.
    Qed.

    (* consistent with the point reader, complete: each of the four walks *)
    Theorem walks_point_consistent st limit fuel : stream_store_wf st -> okv_sorted st = true ->
      (1 <= limit)%N -> (N.of_nat (length (store_items P st)) + limit + 1 < two64N)%N ->
      (length (store_items P st) + 1 <= fuel)%nat ->
      forall w, In w (four_walks cb P st fuel limit) ->
        (forall r s x, In (r, s, x) w <-> addr_ok r /\ addr_ok s /\ go_st_GetStream st r s = Ok (x, true) /\ sel (r, s, x) = true) /\
        NoDup (map fst w).
    Proof.
      intros W Hs H1 H2 H3 w Hin. unfold four_walks in Hin. cbn [In] in Hin.
      destruct Hin as [<-|[<-|[<-|[<-|[]]]]].
      - destruct (key_walk st limit fuel W Hs H1 ltac:(lia) ltac:(lia) H3) as [_ [Hn Hm]]. split; assumption.
      - destruct (offset_walk st limit fuel W Hs H1 H2 H3) as [_ [Hn Hm]]. split; assumption.
      - destruct (key_walk_rev st limit fuel W Hs H1 ltac:(lia) ltac:(lia) H3) as [_ [Hn Hm]]. split; assumption.
      - destruct (offset_walk_rev st limit fuel W Hs H1 H2 H3) as [_ [Hn Hm]]. split; assumption.
    Qed.

    (* a write shows up *)
    Theorem write_shows_up st r s x st' u limit fuel : stream_store_wf st -> okv_sorted st = true ->
      addr_ok r -> addr_ok s -> go_st_SetStream st r s x = Ok (st', u) ->
      (1 <= limit)%N -> (N.of_nat (length (store_items P st')) + limit + 1 < two64N)%N ->
      (length (store_items P st') + 1 <= fuel)%nat ->
      stream_store_wf st' /\ okv_sorted st' = true /\
      forall w, In w (four_walks cb P st' fuel limit) ->
        (sel (r, s, x) = true -> In (r, s, x) w) /\
        (forall r' s' x', In (r', s', x') w <->
           ((r', s', x') = (r, s, x) /\ sel (r, s, x) = true) \/
           ((r', s') <> (r, s) /\ addr_ok r' /\ addr_ok s' /\ go_st_GetStream st r' s' = Ok (x', true) /\ sel (r', s', x') = true)).
    Proof.
      intros W Hs Hr Hsd E H1 H2 H3.
      assert (W' : stream_store_wf st') by (apply (SetStream_wf st st' r s x u); try assumption; apply addr_ok_nonempty; assumption).
      assert (Hs' : okv_sorted st' = true) by (apply (SetStream_sorted st st' r s x u); assumption).
      split; [exact W'|]. split; [exact Hs'|]. intros w Hin.
      destruct (walks_point_consistent st' limit fuel W' Hs' H1 H2 H3 w Hin) as [Hm _].
      assert (Hy : forall r' s' x', In (r', s', x') w <->
           ((r', s', x') = (r, s, x) /\ sel (r, s, x) = true) \/
           ((r', s') <> (r, s) /\ addr_ok r' /\ addr_ok s' /\ go_st_GetStream st r' s' = Ok (x', true) /\ sel (r', s', x') = true)).
      { intros r' s' x'. rewrite Hm.
        assert (Hdec : (r', s') = (r, s) \/ (r', s') <> (r, s)).
        { destruct (list_eq_dec N.eq_dec r' r) as [->|Nr]; [destruct (list_eq_dec N.eq_dec s' s) as [->|Ns]|].
          - left. reflexivity.
          - right. intros X. injection X as X. contradiction.
          - right. intros X. injection X as X _. contradiction. }
        split.
        - intros (Hr' & Hs'' & G & Hsel). destruct Hdec as [X|Hne].
          + injection X as -> ->. left. rewrite (stream_get_after_set st st' r s x u E) in G. injection G as <-.
            split; [reflexivity | exact Hsel].
          + right. rewrite (proj1 (stream_set_other st st' r s x u r' s' (addr_ok_nonempty _ Hr) (addr_ok_nonempty _ Hsd)
                                     (addr_ok_nonempty _ Hr') (addr_ok_nonempty _ Hs'') Hne E)) in G.
            exact (conj Hne (conj Hr' (conj Hs'' (conj G Hsel)))).
        - intros [[X Hsel]|(Hne & Hr' & Hs'' & G & Hsel)].
          + injection X as -> -> ->. exact (conj Hr (conj Hsd (conj (stream_get_after_set st st' r s x u E) Hsel))).
          + refine (conj Hr' (conj Hs'' (conj _ Hsel))).
            rewrite (proj1 (stream_set_other st st' r s x u r' s' (addr_ok_nonempty _ Hr) (addr_ok_nonempty _ Hsd)
                              (addr_ok_nonempty _ Hr') (addr_ok_nonempty _ Hs'') Hne E)). exact G. }
      split; [|exact Hy]. intros Hsel. apply Hy. left. split; [reflexivity | exact Hsel].
    Qed.
  End Query.

  (* the prefix stores the three handlers open, and the three selections *)
  Lemma prefixes :
    go_stream_Streams_prefix = Ok str_prefix_all /\ go_stream_AllStreamsForSender_prefix = Ok str_prefix_all /\
    (forall rcv, addr_ok rcv -> go_stream_AllStreamsForReceiver_prefix rcv = Ok (str_prefix_receiver rcv)).
  Proof.
    split; [reflexivity|]. split; [reflexivity|]. intros rcv [_ H]. apply gen_str_AllStreamsForReceiver_prefix_ok. exact H.
  Qed.
  Lemma sel_defs :
    (forall a, sel_all a = true) /\
    (forall sender r s x, sel_sender sender (r, s, x) = key_eqb s sender) /\
    (forall rcv r s x, sel_receiver rcv (r, s, x) = key_eqb r rcv).
  Proof. repeat split. Qed.
  Lemma store_items_def P st : store_items P st = rank_from 0 (okv_prefix st P).
  Proof. reflexivity. Qed.
  Lemma store_items_length_after_write P st r s x st' u : go_st_SetStream st r s x = Ok (st', u) ->
    (length (store_items P st') <= S (length (store_items P st)))%nat.
  Proof.
    intros E. apply SetStream_inv in E. destruct E as [-> _]. unfold store_items. rewrite !rank_from_length.
    unfold okv_prefix. generalize (fun kv : list N * stream_val => is_prefix P (fst kv)). intros f.
    generalize (skey r s) (SV_Stream x). intros k v.
    induction st as [|[k' v'] rest IH]; cbn [okv_set].
    - cbn [filter]. destruct (f (k, v)); cbn [List.length]; lia.
    - destruct (key_eqb k k') eqn:Ek.
      + cbn [filter]. destruct (f (k, v)); destruct (f (k', v')); cbn [List.length]; lia.
      + destruct (lex_lt k k'); cbn [filter].
        * destruct (f (k, v)); destruct (f (k', v')); cbn [List.length]; lia.
        * destruct (f (k', v')); cbn [List.length]; lia.
  Qed.

  (* ---- a run: params and 5 streams written out of key order with the generated writer; receiver [2;2] has two bytes
          (its keys sort after the one-byte receivers: the length byte comes first) ---- *)
  Definition dx (n : Z) : go_Stream := mk_go_Stream (go_zero_denom, 100 + n) n 0 0 true.
  Definition demo_run : outcome (okv stream_val) :=
    do r <- go_st_SetParams [] (mk_go_Params 5);
    do r <- go_st_SetStream (fst r) [2; 2]%N [1]%N (dx 1);
    do r <- go_st_SetStream (fst r) [9]%N [3]%N (dx 2);
    do r <- go_st_SetStream (fst r) [9]%N [1]%N (dx 3);
    do r <- go_st_SetStream (fst r) [4]%N [1]%N (dx 4);
    do r <- go_st_SetStream (fst r) [2; 2]%N [3]%N (dx 5);
    Ok (fst r).
  Definition demo : okv stream_val := match demo_run with Ok s => s | _ => [] end.
  Definition dpreq k o l ct rv : page_req :=
    {| pr_key := k; pr_offset := o; pr_limit := l; pr_count_total := ct; pr_reverse := rv |}.
  Notation A4_1 := ([4%N], [1%N], dx 4). Notation A9_1 := ([9%N], [1%N], dx 3). Notation A9_3 := ([9%N], [3%N], dx 2).
  Notation A22_1 := ([2%N; 2%N], [1%N], dx 1). Notation A22_3 := ([2%N; 2%N], [3%N], dx 5).

  Example demo_store : demo_run = Ok demo /\ okv_sorted demo = true /\
    listing demo = Ok [A4_1; A9_1; A9_3; A22_1; A22_3] /\
    map fst (store_items str_prefix_all demo) = [1; 3; 5; 7; 9]%N.
  Proof. vm_compute. repeat split; reflexivity. Qed.
  Example demo_wf : stream_store_wf demo.
  Proof.
    split.
    - intros v Hin. vm_compute in Hin. repeat (destruct Hin as [Hin|Hin]; [try discriminate Hin; injection Hin as <-; eauto|]). contradiction.
    - intros k v Hin Hp. vm_compute in Hin.
      destruct Hin as [Hin|Hin]; [injection Hin as <- <-; discriminate Hp|].
      repeat (destruct Hin as [Hin|Hin];
              [injection Hin as <- <-;
               first [ solve [exists [4%N], [1%N]; eexists; (split; [unfold addr_ok; cbn; lia|]); (split; [unfold addr_ok; cbn; lia|]); split; reflexivity]
                     | solve [exists [9%N], [1%N]; eexists; (split; [unfold addr_ok; cbn; lia|]); (split; [unfold addr_ok; cbn; lia|]); split; reflexivity]
                     | solve [exists [9%N], [3%N]; eexists; (split; [unfold addr_ok; cbn; lia|]); (split; [unfold addr_ok; cbn; lia|]); split; reflexivity]
                     | solve [exists [2%N; 2%N], [1%N]; eexists; (split; [unfold addr_ok; cbn; lia|]); (split; [unfold addr_ok; cbn; lia|]); split; reflexivity]
                     | solve [exists [2%N; 2%N], [3%N]; eexists; (split; [unfold addr_ok; cbn; lia|]); (split; [unfold addr_ok; cbn; lia|]); split; reflexivity] ]|]).
      contradiction.
  Qed.
  (* Streams, limit 2: by key forward, by key reverse, by offset *)
  Example demo_streams_page1 : page go_stream_Streams_callback str_prefix_all demo (dpreq KeyNil 0 2 false false)
    = Ok ([A4_1; A9_1], Some 5%N, 0%N).
  Proof. vm_compute. reflexivity. Qed.
  Example demo_streams_page2 : page go_stream_Streams_callback str_prefix_all demo (dpreq (KeyAt 5) 0 2 false false)
    = Ok ([A9_3; A22_1], Some 9%N, 0%N).
  Proof. vm_compute. reflexivity. Qed.
  Example demo_streams_page3 : page go_stream_Streams_callback str_prefix_all demo (dpreq (KeyAt 9) 0 2 false false)
    = Ok ([A22_3], None, 0%N).
  Proof. vm_compute. reflexivity. Qed.
  Example demo_streams_walks : four_walks go_stream_Streams_callback str_prefix_all demo 6 2 =
    [ [A4_1; A9_1; A9_3; A22_1; A22_3]; [A4_1; A9_1; A9_3; A22_1; A22_3];
      [A22_3; A22_1; A9_3; A9_1; A4_1]; [A22_3; A22_1; A9_3; A9_1; A4_1] ].
  Proof. vm_compute. reflexivity. Qed.
  (* AllStreamsForSender [1]: the two streams of sender [3] are excluded *)
  Example demo_sender_page1 : page (go_stream_AllStreamsForSender_callback [1%N]) str_prefix_all demo (dpreq KeyNil 0 2 true false)
    = Ok ([A4_1; A9_1], Some 7%N, 3%N).
  Proof. vm_compute. reflexivity. Qed.
  Example demo_sender_walks : four_walks (go_stream_AllStreamsForSender_callback [1%N]) str_prefix_all demo 6 2 =
    [ [A4_1; A9_1; A22_1]; [A4_1; A9_1; A22_1]; [A22_1; A9_1; A4_1]; [A22_1; A9_1; A4_1] ].
  Proof. vm_compute. reflexivity. Qed.
  (* AllStreamsForReceiver [9]: its own prefix store *)
  Example demo_receiver_walks :
    map fst (store_items (str_prefix_receiver [9%N]) demo) = [1; 3]%N /\
    four_walks (go_stream_AllStreamsForReceiver_callback [9%N]) (str_prefix_receiver [9%N]) demo 3 1 =
    [ [A9_1; A9_3]; [A9_1; A9_3]; [A9_3; A9_1]; [A9_3; A9_1] ].
  Proof. vm_compute. split; reflexivity. Qed.
  Example demo_points :
    map (fun a => go_st_GetStream demo (fst (fst a)) (snd (fst a))) [A4_1; A9_1; A9_3; A22_1; A22_3] =
    map (fun a => Ok (snd a, true)) [A4_1; A9_1; A9_3; A22_1; A22_3].
  Proof. vm_compute. reflexivity. Qed.
  Example demo_write :
    (do r <- go_st_SetStream demo [5%N] [1%N] (dx 6);
     Ok (results (go_stream_AllStreamsForSender_callback [1%N]) str_prefix_all
           (all_pages_by_key 7 (store_items str_prefix_all (fst r)) (vflt (hitv (go_stream_AllStreamsForSender_callback [1%N]) str_prefix_all)) 2)))
    = Ok [A4_1; ([5%N], [1%N], dx 6); A9_1; A22_1].
  Proof. vm_compute. reflexivity. Qed.

  (* ---- the hypotheses are needed ---- *)
  (* [okv_sorted]: rank keys are ascending whatever the store, so the walks still partition the listing; but a list
     with one key twice (not a store) is listed twice while the point reader sees the first entry only *)
  Definition bad_dup : okv stream_val := [(skey [9%N] [1%N], SV_Stream (dx 1)); (skey [9%N] [1%N], SV_Stream (dx 2))].
  Example sorted_needed_refuted :
    okv_sorted bad_dup = false /\
    results go_stream_Streams_callback str_prefix_all (all_pages_by_key 3 (store_items str_prefix_all bad_dup) (vflt (hitv go_stream_Streams_callback str_prefix_all)) 1)
      = [([9%N], [1%N], dx 1); ([9%N], [1%N], dx 2)] /\
    go_st_GetStream bad_dup [9%N] [1%N] = Ok (dx 1, true).
  Proof. vm_compute. repeat split; reflexivity. Qed.
  (* [stream_store_wf], non-empty addresses: LengthPrefix leaves the empty address without a length byte; the key parser
     of the callback panics on such a key (Go: the query fails), the pagination model - whose filter cannot fail - skips it *)
  Definition bad_empty : okv stream_val := [(skey [] [7%N], SV_Stream (dx 1))].
  Example wf_needed_refuted :
    okv_sorted bad_empty = true /\
    go_stream_Streams_callback (strip_prefix str_prefix_all (skey [] [7%N])) = Panic GO_PANIC_KEYLEN /\
    page go_stream_Streams_callback str_prefix_all bad_empty (dpreq KeyNil 0 2 true false) = Ok ([], None, 0%N).
  Proof. vm_compute. repeat split; reflexivity. Qed.
  (* AllStreamsForReceiver, receiver non-empty: GetStreamsByReceiverKey [] is the whole stream section and the callback
     then reads the receiver's length-prefixed bytes as the sender *)
  Example receiver_nonempty_needed_refuted :
    str_prefix_receiver [] = str_prefix_all /\
    results (go_stream_AllStreamsForReceiver_callback []) (str_prefix_receiver [])
      (all_pages_by_key 6 (store_items (str_prefix_receiver []) demo) (vflt (hitv (go_stream_AllStreamsForReceiver_callback []) (str_prefix_receiver []))) 5)
    = [([], [4%N], dx 4); ([], [9%N], dx 3); ([], [9%N], dx 2); ([], [2%N; 2%N], dx 1); ([], [2%N; 2%N], dx 5)].
  Proof. vm_compute. split; reflexivity. Qed.
End Str.
