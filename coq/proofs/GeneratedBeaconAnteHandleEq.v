(* The WHOLE fee decorator of x/beacon (x/beacon/ante/ante.go: CheckIsBeaconTx, checkBeaconFees, checkFeePayerHasFunds,
   checkBeaconMaxSlots, AnteHandle), as re-generated on every run into GeneratedBeaconAnte.v against the primitives of
   model/AnteWorld.v, is the model's decorator (model/App.v, Section RegAnte: own_msgs, check_fees, payer_has_funds,
   check_max_slots, reg_ante with pick_bcn), read through model/BeaconAnteGenSpec.v (anymsg_of, gotx_of).

   The generated text is walked in the [..._unfold] lemmas only, with generic tactics (loop bodies are picked from the
   goal, no generated temporary is named); everything else goes through proofs/GeneratedAnteCommon.v (module-independent)
   and proofs/GeneratedBeaconAnteEq.v (the fee loop over the registry world, reused for the copy over [aworld]).
   (The two registry modules' generated files define the same names: one file per module.) *)
From Coq Require Import ZifyBool.
From MC Require Import lib.Prelude lib.AMap lib.GoSdk GeneratedBeaconTypes model.Bank model.Registry model.Enterprise
  model.App model.AppSpec model.BeaconAntePrims GeneratedBeaconAnte model.BeaconAnteGenSpec.
From MC Require model.RegistryWorld GeneratedBeaconKeeper.
From MC Require Import proofs.BankProofs proofs.EnterpriseProofs proofs.AppFeeProofs proofs.GeneratedAnteCommon.
From MC Require proofs.GeneratedBeaconAnteEq.
Local Open Scope Z_scope.

Module OA := GeneratedBeaconAnteEq.      (* the older copy's theorems (fee check over [rworld]) *)
Module LP := GeneratedWrkchainAnteEq.    (* loop lemmas *)

#[local] Arguments go_range : simpl never.

Ltac split_msg m :=
  destruct m; try reflexivity;
  match goal with r : reg_msg |- _ => destruct r; reflexivity end.

(* the world of the decorator, cut out of its ingredients *)
Notation aw now check b e rs := (mk_aworld now check b e rs) (only parsing).

(* ================================================================= *)
(* A1. CheckIsBeaconTx, checkBeaconFees                                *)
(* ================================================================= *)

Theorem gen_bcn_ante_CheckIsTx_eq : forall t,
  go_CheckIsBeaconTx (gotx_of t) = Ok (negb (Nat.eqb (List.length (own_msgs pick_bcn t)) 0)).
Proof.
  intros t. rewrite OA.has_own_existsb. unfold go_CheckIsBeaconTx. cbv zeta. cbn [gotx_of Tx_Msgs].
  rewrite LP.go_range_map.
  match goal with |- context [go_range ?b _ _] =>
    rewrite (LP.go_range_first b (OA.picked pick_bcn) true) by (intros m []; split_msg m)
  end.
  destruct (existsb _ _); reflexivity.
Qed.

(* the fee check over [aworld] is the older copy over the registry world [aw_rworld w] (same Go text, the fee getters
   of model/AnteWorld.v delegate to those of model/RegistryWorld.v) *)
Lemma gen_bcn_ante_checkFees_unfold w t :
  go_checkBeaconFees w (gotx_of t) =
  if negb (existsb (fun c => fst c =? reg_GetParamDenom w) (tx_fee t)) then Err exported_ErrIncorrectFeeDenomination
  else
    do res <- go_range (fun m => OA.ante_step (aw_rworld w) (pick_bcn m)) (tx_msgs t) ((reg_GetParamDenom w, 0), 0);
    match res with
    | LRet r => Ok r
    | LCont (expected, _) =>
        let sent := Coins_AmountOf (tx_fee t) (reg_GetParamDenom w) in
        if Int_LT sent (Coin_Amount expected) then Err exported_ErrInsufficientBeaconFee
        else if Int_GT sent (Coin_Amount expected) then Err exported_ErrTooMuchBeaconFee
        else Ok tt
    end.
Proof.
  unfold go_checkBeaconFees. cbv zeta. cbn [gotx_of Tx_Msgs Tx_Fee].
  change (reg_GetZeroFeeAsCoin w) with (Ok (A := go_coin) (reg_GetParamDenom w, 0)). cbn [obind].
  match goal with |- context [go_range ?b (tx_fee t) _] =>
    rewrite (LP.go_range_flag b (fun c => fst c =? reg_GetParamDenom w))
      by (intros c fl; unfold Coin_Denom; destruct (fst c =? reg_GetParamDenom w); reflexivity)
  end.
  cbn [obind]. rewrite orb_false_r.
  destruct (negb _); [reflexivity|].
  rewrite LP.go_range_map.
  match goal with |- context [go_range ?b (tx_msgs t) _] =>
    rewrite (LP.go_range_ext b (fun m => OA.ante_step (aw_rworld w) (pick_bcn m))) by (intros m [ef n]; split_msg m)
  end.
  destruct (go_range _ _ _) as [[[ef n]|r]| |]; reflexivity.
Qed.

Theorem gen_bcn_ante_checkFees_old : forall w t,
  go_checkBeaconFees w (gotx_of t) = GeneratedBeaconKeeper.go_checkBeaconFees (aw_rworld w) (gotx_of t).
Proof. intros w t. rewrite gen_bcn_ante_checkFees_unfold, OA.gen_bcn_checkFees_unfold. reflexivity. Qed.

Theorem gen_bcn_ante_checkFees_eq : forall now check b e rs t,
  OA.fees_fit (r_params rs) ->
  (forall o id n, In (MBcn (RPurchase o id n)) (tx_msgs t) -> 0 <= n < two63) ->
  go_checkBeaconFees (aw now check b e rs) (gotx_of t) = check_fees pick_bcn rs t.
Proof. intros now check b e rs t F Hn. rewrite gen_bcn_ante_checkFees_old. exact (OA.gen_bcn_checkFees_eq now 0 rs t F Hn). Qed.

(* for every transaction whose purchase counts are uint64 values: the model's check, the panic code apart
   (Go: GO_PANIC_NEGCOIN = 4 from sdk.NewCoin; model: PANIC_NEGFEE = 55) *)
Theorem gen_bcn_ante_checkFees_total : forall now check b e rs t,
  OA.fees_fit (r_params rs) -> 0 < rp_fee_purchase (r_params rs) ->
  (forall o id n, In (MBcn (RPurchase o id n)) (tx_msgs t) -> 0 <= n < two64) ->
  go_checkBeaconFees (aw now check b e rs) (gotx_of t) =
  match check_fees pick_bcn rs t with Panic _ => Panic GO_PANIC_NEGCOIN | o => o end.
Proof.
  intros now check b e rs t F Fp U. rewrite gen_bcn_ante_checkFees_old. exact (OA.gen_bcn_checkFees_total now 0 rs t F Fp U).
Qed.

Corollary gen_bcn_ante_checkFees_as_go_panic : forall now check b e rs t,
  OA.fees_fit (r_params rs) -> 0 < rp_fee_purchase (r_params rs) ->
  (forall o id n, In (MBcn (RPurchase o id n)) (tx_msgs t) -> 0 <= n < two64) ->
  go_checkBeaconFees (aw now check b e rs) (gotx_of t) = as_go_panic (check_fees pick_bcn rs t).
Proof.
  intros now check b e rs t F Fp U. rewrite (gen_bcn_ante_checkFees_total now check b e rs t F Fp U).
  destruct (check_fees pick_bcn rs t) as [[]|c|c] eqn:E; try reflexivity.
  rewrite (check_fees_panic_code _ _ _ _ E). reflexivity.
Qed.

Theorem gen_bcn_ante_checkFees_huge_purchase : forall now check b e rs t o id n,
  OA.fees_fit (r_params rs) -> 0 < rp_fee_purchase (r_params rs) ->
  In (MBcn (RPurchase o id n)) (tx_msgs t) -> two63 <= n < two64 ->
  existsb (fun c => fst c =? rp_denom (r_params rs)) (tx_fee t) = true ->
  go_checkBeaconFees (aw now check b e rs) (gotx_of t) = Panic GO_PANIC_NEGCOIN /\
  check_fees pick_bcn rs t = Panic PANIC_NEGFEE.
Proof.
  intros now check b e rs t o id n F Fp I N D. rewrite gen_bcn_ante_checkFees_old.
  exact (OA.gen_bcn_checkFees_huge_purchase now 0 rs t o id n F Fp I N D).
Qed.

(* C06 for the generated check: accepted only with exactly the sum of the fees of the own messages *)
Theorem gen_bcn_ante_checkFees_exact : forall now check b e rs t,
  OA.fees_fit (r_params rs) -> 0 < rp_fee_purchase (r_params rs) ->
  (forall o id n, In (MBcn (RPurchase o id n)) (tx_msgs t) -> 0 <= n < two64) ->
  go_checkBeaconFees (aw now check b e rs) (gotx_of t) = Ok tt ->
  fee_amount_of (tx_fee t) (rp_denom (r_params rs)) = expected_fee pick_bcn rs t /\
  existsb (fun c => fst c =? rp_denom (r_params rs)) (tx_fee t) = true /\
  existsb (fun r => match r with RPurchase _ _ n => two63 <=? n | _ => false end) (own_msgs pick_bcn t) = false.
Proof.
  intros now check b e rs t F Fp U H. rewrite gen_bcn_ante_checkFees_old in H.
  exact (OA.gen_bcn_checkFees_exact now 0 rs t F Fp U H).
Qed.

(* ================================================================= *)
(* A2. checkFeePayerHasFunds                                          *)
(* ================================================================= *)

Lemma gen_bcn_ante_funds_unfold w tx :
  go_checkFeePayerHasFunds w tx = funds_go w (Tx_FeePayer tx) (Tx_Fee tx).
Proof. reflexivity. Qed.

(* the funds check counts the liquid balance plus the locked amount of the FEE PAYER, in the denomination of the fee coin
   of the module's fee denomination.  Hypotheses: the bank table has one entry per (account, denomination) and no negative
   balance, the payer's locked amount is not negative, the fee names each denomination once (a valid sdk.Coins).
   [Tx_FeePayer (gotx_of t)] is [tx_payer t] by definition. *)
Theorem gen_bcn_ante_funds_eq : forall now check b e rs t,
  bank_wf b -> bank_nonneg b -> 0 <= snd (locked_coin e (tx_payer t)) -> NoDup (map fst (tx_fee t)) ->
  go_checkFeePayerHasFunds (aw now check b e rs) (gotx_of t) = payer_has_funds rs b e t.
Proof. intros now check b e rs t W N Lk Nd. rewrite gen_bcn_ante_funds_unfold. exact (funds_go_eq now check b e rs t W N Lk Nd). Qed.

(* the fee does not name the module's denomination: the same panic on both sides *)
Theorem gen_bcn_ante_funds_missing_denom : forall now check b e rs t,
  0 <= snd (locked_coin e (tx_payer t)) -> NoDup (map fst (tx_fee t)) -> coins_valid (tx_fee t) = true ->
  fee_find (tx_fee t) (rp_denom (r_params rs)) = None ->
  go_checkFeePayerHasFunds (aw now check b e rs) (gotx_of t) = Panic GO_PANIC_NILCOIN /\
  payer_has_funds rs b e t = Panic PANIC_NILCOIN /\ GO_PANIC_NILCOIN = PANIC_NILCOIN.
Proof. intros now check b e rs t. rewrite gen_bcn_ante_funds_unfold. apply funds_go_missing_denom. Qed.


(* read as a statement about funds: for a valid fee naming the module's denomination, the generated check accepts exactly
   when the FEE PAYER's liquid balance plus its locked amount (when locked in that denomination) cover the fee coin *)
Theorem gen_bcn_ante_funds_iff : forall now check b e rs t fee,
  bank_wf b -> bank_nonneg b -> 0 <= snd (locked_coin e (tx_payer t)) -> NoDup (map fst (tx_fee t)) ->
  coins_valid (tx_fee t) = true -> fee_find (tx_fee t) (rp_denom (r_params rs)) = Some fee ->
  (go_checkFeePayerHasFunds (aw now check b e rs) (gotx_of t) = Ok tt <->
   snd fee <= balance b (tx_payer t) (fst fee) +
              (if fst (locked_coin e (tx_payer t)) =? fst fee then snd (locked_coin e (tx_payer t)) else 0)).
Proof.
  intros now check b e rs t fee W N Lk Nd Cv F. rewrite (gen_bcn_ante_funds_eq now check b e rs t W N Lk Nd).
  exact (payer_has_funds_iff rs b e t fee Cv F).
Qed.

(* ... and otherwise refuses with ErrInsufficientFunds *)
Theorem gen_bcn_ante_funds_short : forall now check b e rs t fee,
  bank_wf b -> bank_nonneg b -> 0 <= snd (locked_coin e (tx_payer t)) -> NoDup (map fst (tx_fee t)) ->
  coins_valid (tx_fee t) = true -> fee_find (tx_fee t) (rp_denom (r_params rs)) = Some fee ->
  balance b (tx_payer t) (fst fee) +
    (if fst (locked_coin e (tx_payer t)) =? fst fee then snd (locked_coin e (tx_payer t)) else 0) < snd fee ->
  go_checkFeePayerHasFunds (aw now check b e rs) (gotx_of t) = Err ERR_FEE_FUNDS.
Proof.
  intros now check b e rs t fee W N Lk Nd Cv F Sh. rewrite (gen_bcn_ante_funds_eq now check b e rs t W N Lk Nd).
  unfold payer_has_funds. rewrite Cv, F. cbn [negb]. cbv zeta.
  match goal with |- context [if ?c then _ else _] => destruct c eqn:C end; [reflexivity|lia].
Qed.

(* ================================================================= *)
(* A3. checkBeaconMaxSlots                                             *)
(* ================================================================= *)

(* no hypothesis: the Go map over (id -> {max, want}) is the model's table, uint64 additions wrap the same way
   (u64_add = wrap64 of the sum), and both final loops say "some entry has max < want" *)
Theorem gen_bcn_ante_maxSlots_eq : forall now check b e rs t,
  go_checkBeaconMaxSlots (aw now check b e rs) (gotx_of t) = check_max_slots pick_bcn rs t.
Proof.
  intros now check b e rs t. set (w := mk_aworld now check b e rs).
  unfold go_checkBeaconMaxSlots. cbv zeta. cbn [gotx_of Tx_Msgs]. rewrite LP.go_range_map.
  match goal with |- context [go_range ?body (tx_msgs t) _] =>
    rewrite (LP.go_range_ext body
               (fun m => slots_step _ mk_go_checkBeaconMaxSlots_b checkBeaconMaxSlots_b_max checkBeaconMaxSlots_b_want w (pick_bcn m)))
      by (intros m pd; split_msg m)
  end.
  destruct (slots_loop _ mk_go_checkBeaconMaxSlots_b checkBeaconMaxSlots_b_max checkBeaconMaxSlots_b_want
              (fun _ _ => eq_refl) (fun _ _ => eq_refl) pick_bcn rs w (tx_msgs t) eq_refl [])
    as (pd' & E & T).
  rewrite E. cbn [obind].
  match goal with |- context [go_range ?body pd' tt] =>
    rewrite (slots_final _ checkBeaconMaxSlots_b_max checkBeaconMaxSlots_b_want body exported_ErrExceedsMaxStorage)
      by (intros [k v] []; reflexivity)
  end.
  unfold check_max_slots.
  rewrite (max_slots_table_fold pick_bcn rs t), own_msgs_own_of, T. cbn [tbl_of map].
  destruct (existsb _ _); reflexivity.
Qed.

(* ================================================================= *)
(* A4. AnteHandle                                                     *)
(* ================================================================= *)

Lemma gen_bcn_AnteHandle_unfold w t :
  go_AnteHandle w (gotx_of t) false =
  if Nat.eqb (List.length (own_msgs pick_bcn t)) 0 then Ok tt else
  do _ <- (if aw_check w then go_checkBeaconFees w (gotx_of t) else Ok tt);
  do _ <- go_checkFeePayerHasFunds w (gotx_of t);
  go_checkBeaconMaxSlots w (gotx_of t).
Proof.
  unfold go_AnteHandle. cbv zeta. cbn [negb]. rewrite gen_bcn_ante_CheckIsTx_eq. cbn [obind].
  destruct (Nat.eqb _ 0); cbn [negb]; [reflexivity|].
  unfold aw_IsCheckTx. destruct (aw_check w); cbn [andb negb obind].
  - destruct (go_checkBeaconFees w (gotx_of t)) as [[]| |]; cbn [obind]; try reflexivity.
    destruct (go_checkFeePayerHasFunds w (gotx_of t)) as [[]| |]; cbn [obind]; try reflexivity.
    destruct (go_checkBeaconMaxSlots w (gotx_of t)) as [[]| |]; reflexivity.
  - destruct (go_checkFeePayerHasFunds w (gotx_of t)) as [[]| |]; cbn [obind]; try reflexivity.
    destruct (go_checkBeaconMaxSlots w (gotx_of t)) as [[]| |]; reflexivity.
Qed.

(* a simulation (simulate = true) skips the fee check like DeliverTx does *)
Lemma gen_bcn_AnteHandle_simulate now check b e rs tx :
  go_AnteHandle (aw now check b e rs) tx true = go_AnteHandle (aw now false b e rs) tx false.
Proof.
  unfold go_AnteHandle. cbv zeta. cbn [negb]. destruct (go_CheckIsBeaconTx tx) as [[|]| |]; cbn [obind negb]; try reflexivity.
  unfold aw_IsCheckTx. cbn [aw_check]. rewrite andb_false_r. reflexivity.
Qed.

Lemma reg_ante_unfold pick rs check b e t :
  reg_ante pick rs check b e t =
  if Nat.eqb (List.length (own_msgs pick t)) 0 then Ok tt else
  do _ <- (if check then check_fees pick rs t else Ok tt);
  do _ <- payer_has_funds rs b e t;
  check_max_slots pick rs t.
Proof. unfold reg_ante. destruct (own_msgs pick t); reflexivity. Qed.

(* the hypotheses of the fee check, needed at CheckTx only *)
Definition fee_hyps (rs : reg_state) (t : tx) : Prop :=
  OA.fees_fit (r_params rs) /\ 0 < rp_fee_purchase (r_params rs) /\
  (forall o id n, In (MBcn (RPurchase o id n)) (tx_msgs t) -> 0 <= n < two64).
(* the hypotheses of the funds check *)
Definition funds_hyps (b : bank) (e : ent_state) (t : tx) : Prop :=
  bank_wf b /\ bank_nonneg b /\ 0 <= snd (locked_coin e (tx_payer t)) /\ NoDup (map fst (tx_fee t)).

(* ---- the whole decorator: the model's, the code of the "negative coin amount" panic apart ---- *)
Theorem gen_bcn_AnteHandle_eq : forall now check b e rs t,
  (check = true -> fee_hyps rs t) -> funds_hyps b e t ->
  go_AnteHandle (aw now check b e rs) (gotx_of t) false = as_go_panic (reg_ante pick_bcn rs check b e t).
Proof.
  intros now check b e rs t Hf (W & N & Lk & Nd).
  rewrite gen_bcn_AnteHandle_unfold, reg_ante_unfold. cbn [aw_check].
  destruct (Nat.eqb _ 0); [reflexivity|].
  rewrite (gen_bcn_ante_funds_eq now check b e rs t W N Lk Nd), gen_bcn_ante_maxSlots_eq.
  assert (Tail : forall o : outcome unit, (forall c, o = Panic c -> go_panic_code c = c) ->
            (do _ <- o; check_max_slots pick_bcn rs t) = as_go_panic (do _ <- o; check_max_slots pick_bcn rs t)).
  { intros [[]|c|c] Hc; cbn [obind as_go_panic]; try reflexivity.
    - destruct (check_max_slots pick_bcn rs t) as [[]|c|c] eqn:M; try reflexivity.
      exfalso. exact (check_max_slots_no_panic _ _ _ _ M).
    - rewrite (Hc c eq_refl). reflexivity. }
  assert (Funds : forall c, payer_has_funds rs b e t = Panic c -> go_panic_code c = c).
  { intros c Hc. rewrite (payer_has_funds_panic_code _ _ _ _ _ Hc). reflexivity. }
  destruct check.
  - destruct (Hf eq_refl) as (F & Fp & U).
    rewrite (gen_bcn_ante_checkFees_as_go_panic now true b e rs t F Fp U).
    destruct (check_fees pick_bcn rs t) as [[]|c|c]; cbn [obind as_go_panic]; try reflexivity.
    exact (Tail _ Funds).
  - cbn [obind]. exact (Tail _ Funds).
Qed.

(* read the other way: renaming that one panic code of the generated decorator gives the model's outcome *)
Corollary gen_bcn_AnteHandle_model : forall now check b e rs t,
  (check = true -> fee_hyps rs t) -> funds_hyps b e t ->
  as_model_panic (go_AnteHandle (aw now check b e rs) (gotx_of t) false) = reg_ante pick_bcn rs check b e t.
Proof. intros now check b e rs t Hf Hb. rewrite (gen_bcn_AnteHandle_eq now check b e rs t Hf Hb). apply as_model_go_panic. Qed.

(* DeliverTx (the fee check does not run): equal as they are *)
Theorem gen_bcn_AnteHandle_deliver_eq : forall now b e rs t,
  funds_hyps b e t ->
  go_AnteHandle (aw now false b e rs) (gotx_of t) false = reg_ante pick_bcn rs false b e t.
Proof.
  intros now b e rs t Hb. rewrite (gen_bcn_AnteHandle_eq now false b e rs t ltac:(discriminate) Hb).
  destruct (reg_ante pick_bcn rs false b e t) as [[]|c|c] eqn:E; try reflexivity.
  destruct (reg_ante_panic_code _ _ _ _ _ _ _ E) as [->| ->]; [|reflexivity].
  exfalso. unfold reg_ante in E. destruct (own_msgs pick_bcn t); [discriminate|]. cbn [obind] in E.
  destruct (payer_has_funds rs b e t) as [[]|?|c'] eqn:G; cbn [obind] in E; try discriminate.
  - exact (check_max_slots_no_panic _ _ _ _ E).
  - injection E as ->. apply payer_has_funds_panic_code in G. discriminate G.
Qed.

(* CheckTx without a purchase of 2^63 slots or more: equal as they are *)
Theorem gen_bcn_AnteHandle_check_eq : forall now b e rs t,
  OA.fees_fit (r_params rs) ->
  (forall o id n, In (MBcn (RPurchase o id n)) (tx_msgs t) -> 0 <= n < two63) ->
  funds_hyps b e t ->
  go_AnteHandle (aw now true b e rs) (gotx_of t) false = reg_ante pick_bcn rs true b e t.
Proof.
  intros now b e rs t F Hn (W & N & Lk & Nd).
  rewrite gen_bcn_AnteHandle_unfold, reg_ante_unfold. cbn [aw_check].
  rewrite (gen_bcn_ante_checkFees_eq now true b e rs t F Hn),
          (gen_bcn_ante_funds_eq now true b e rs t W N Lk Nd), gen_bcn_ante_maxSlots_eq.
  reflexivity.
Qed.

(* ---- C06 through the generated decorator: a transaction with a Beacon message that the generated AnteHandle accepts at
   CheckTx pays exactly the expected fee, its payer holds (liquid + locked) at least the fee coin of the module's
   denomination, and no registration is asked for more slots than it can still buy ---- *)
Theorem gen_bcn_AnteHandle_accepts : forall now b e rs t,
  fee_hyps rs t -> funds_hyps b e t ->
  own_msgs pick_bcn t <> [] ->
  go_AnteHandle (aw now true b e rs) (gotx_of t) false = Ok tt ->
  check_fees pick_bcn rs t = Ok tt /\ payer_has_funds rs b e t = Ok tt /\ check_max_slots pick_bcn rs t = Ok tt.
Proof.
  intros now b e rs t Hf Hb Ne H.
  rewrite (gen_bcn_AnteHandle_eq now true b e rs t (fun _ => Hf) Hb) in H.
  unfold reg_ante in H. destruct (own_msgs pick_bcn t) as [|r l]; [contradiction|].
  destruct (check_fees pick_bcn rs t) as [[]|?|?]; cbn [obind as_go_panic] in H; try discriminate H.
  destruct (payer_has_funds rs b e t) as [[]|?|?]; cbn [obind as_go_panic] in H; try discriminate H.
  destruct (check_max_slots pick_bcn rs t) as [[]|?|?]; try discriminate H. auto.
Qed.


(* the same, spelled out (props/C06.v: C06_exact_fee_bcn) *)
Theorem gen_bcn_AnteHandle_accepts_exact : forall now b e rs t,
  fee_hyps rs t -> funds_hyps b e t ->
  own_msgs pick_bcn t <> [] ->
  go_AnteHandle (aw now true b e rs) (gotx_of t) false = Ok tt ->
  fee_amount_of (tx_fee t) (rp_denom (r_params rs)) = expected_fee pick_bcn rs t /\
  (exists fee, fee_find (tx_fee t) (rp_denom (r_params rs)) = Some fee /\
     snd fee <= balance b (tx_payer t) (fst fee) +
                (if fst (locked_coin e (tx_payer t)) =? fst fee then snd (locked_coin e (tx_payer t)) else 0)) /\
  (forall id m want, In (id, (m, want)) (max_slots_table pick_bcn rs t) -> want <= m).
Proof.
  intros now b e rs t Hf Hb Ne H. destruct (gen_bcn_AnteHandle_accepts now b e rs t Hf Hb Ne H) as (H1 & H2 & H3).
  apply check_fees_ok_inv in H1 as (H1 & _). apply payer_has_funds_ok_inv in H2 as (_ & H2).
  split; [exact H1|]. split; [exact H2|]. exact (check_max_slots_ok_inv _ _ _ H3).
Qed.

(* a single purchase: accepted at CheckTx only if the slots asked for are at most those that can still be bought *)
Theorem gen_bcn_AnteHandle_accepts_single_purchase : forall now b e rs t o id n,
  fee_hyps rs t -> funds_hyps b e t ->
  own_msgs pick_bcn t = [RPurchase o id n] ->
  go_AnteHandle (aw now true b e rs) (gotx_of t) false = Ok tt ->
  n <= max_purchasable rs id.
Proof.
  intros now b e rs t o id n Hf Hb O H.
  destruct (gen_bcn_AnteHandle_accepts now b e rs t Hf Hb ltac:(rewrite O; discriminate) H) as (_ & _ & H3).
  rewrite (check_max_slots_single _ _ _ _ _ _ O) in H3. destruct (max_purchasable rs id <? n) eqn:C; [discriminate|lia].
Qed.

(* ================================================================= *)
(* the hypotheses cannot be dropped                                   *)
(* ================================================================= *)

Definition hx_tx (n : Z) (fee : list coin) : tx :=
  {| tx_msgs := [MBcn (RPurchase 1 1 n)]; tx_fee := fee; tx_granter := None; tx_sig_ok := true |}.

(* the raw outcomes differ on a purchase of 2^63 slots at CheckTx: the panic code (4 against the model's 55) *)
Example gen_bcn_AnteHandle_panic_code_refuted :
  go_AnteHandle (aw 0 true (fx_bank 100) (fx_ent 0) fx_rs) (gotx_of (hx_tx two63 [(NUND, 5)])) false = Panic GO_PANIC_NEGCOIN /\
  reg_ante pick_bcn fx_rs true (fx_bank 100) (fx_ent 0) (hx_tx two63 [(NUND, 5)]) = Panic PANIC_NEGFEE.
Proof. vm_compute. split; reflexivity. Qed.

(* a fee with one denomination twice (not a valid sdk.Coins; excluded by [tx_wf]): the generated funds check refuses it *)
Example gen_bcn_AnteHandle_dup_denom_refuted :
  let t := hx_tx 1 [(NUND, 5); (NUND, 5)] in
  go_AnteHandle (aw 0 false (fx_bank 100) (fx_ent 0) fx_rs) (gotx_of t) false = Err sdkerrors_ErrInvalidCoins /\
  reg_ante pick_bcn fx_rs false (fx_bank 100) (fx_ent 0) t = Err ERR_FEE_MAX_STORAGE.
Proof. vm_compute. split; reflexivity. Qed.

(* examples: the three stages *)
Example gen_bcn_AnteHandle_ex :
  let rs := {| r_params := r_params fx_rs; r_next := 2; r_regs := []; r_limits := [(1, 100)]; r_recs := [] |} in
  let w c bal lk := aw 0 c (fx_bank bal) (fx_ent lk) rs in
  (* exact fee, funds: 3 liquid + 7 locked cover 10 *)
  go_AnteHandle (w true 3 7) (gotx_of (hx_tx 2 [(NUND, 10)])) false = Ok tt /\
  (* one short in funds *)
  go_AnteHandle (w true 3 6) (gotx_of (hx_tx 2 [(NUND, 10)])) false = Err ERR_FEE_FUNDS /\
  (* wrong fee: refused at CheckTx, not looked at at DeliverTx *)
  go_AnteHandle (w true 30 0) (gotx_of (hx_tx 2 [(NUND, 11)])) false = Err ERR_FEE_TOO_MUCH /\
  go_AnteHandle (w false 30 0) (gotx_of (hx_tx 2 [(NUND, 11)])) false = Ok tt /\
  (* 901 slots when 900 can still be bought (limit 100 of 1000) *)
  go_AnteHandle (w false 10000 0) (gotx_of (hx_tx 901 [(NUND, 4505)])) false = Err ERR_FEE_MAX_STORAGE /\
  go_AnteHandle (w false 10000 0) (gotx_of (hx_tx 900 [(NUND, 4500)])) false = Ok tt /\
  (* DeliverTx with a fee that does not name the denomination: the nil-coin panic, as in the model *)
  go_AnteHandle (w false 10 0) (gotx_of (hx_tx 1 [(7, 5)])) false = Panic PANIC_NILCOIN /\
  reg_ante pick_bcn rs false (fx_bank 10) (fx_ent 0) (hx_tx 1 [(7, 5)]) = Panic PANIC_NILCOIN /\
  (* no Beacon message: not looked at *)
  go_AnteHandle (w true 0 0) (gotx_of (fx_tx [(7, 5)])) false = Ok tt.
Proof. vm_compute. repeat split; reflexivity. Qed.

Print Assumptions gen_bcn_ante_CheckIsTx_eq.
Print Assumptions gen_bcn_ante_checkFees_old.
Print Assumptions gen_bcn_ante_checkFees_eq.
Print Assumptions gen_bcn_ante_checkFees_total.
Print Assumptions gen_bcn_ante_checkFees_exact.
Print Assumptions gen_bcn_ante_funds_eq.
Print Assumptions gen_bcn_ante_funds_missing_denom.
Print Assumptions gen_bcn_ante_maxSlots_eq.
Print Assumptions gen_bcn_AnteHandle_eq.
Print Assumptions gen_bcn_AnteHandle_model.
Print Assumptions gen_bcn_AnteHandle_deliver_eq.
Print Assumptions gen_bcn_AnteHandle_check_eq.
Print Assumptions gen_bcn_AnteHandle_accepts.
Print Assumptions gen_bcn_AnteHandle_accepts_exact.
Print Assumptions gen_bcn_AnteHandle_accepts_single_purchase.
Print Assumptions gen_bcn_ante_funds_iff.
Print Assumptions gen_bcn_ante_funds_short.
Print Assumptions gen_bcn_AnteHandle_panic_code_refuted.
Print Assumptions gen_bcn_AnteHandle_dup_denom_refuted.
