(* Params.Validate of /repo/x/stream/types/params.go as generated on every run (go_validateBaseValidatorFee and
   go_Params_Validate at the head of coq/GeneratedStreamKeeper.v) computes exactly what the hand-written
   [str_params_valid] of model/Stream.v computes: 0 <= ValidatorFee <= 1 (a LegacyDec: an integer scaled by 10^18),
   error class stream_ErrInvalidParams = 40 otherwise.  No hypothesis.

   The proof never mentions a temporary of the generated file nor the nesting / order of its tests: the walker splits
   whatever boolean test heads the goal and closes the leaves by linear arithmetic. *)
From Coq Require Import ZifyBool.
From MC Require Import lib.Prelude lib.GoSdk GeneratedFns GeneratedStreamTypes model.Stream model.StreamKeeperPrims
  GeneratedStreamKeeper.
Local Open Scope Z_scope.

(* the primitives of lib/GoSdk.v met here, as comparisons *)
Lemma Dec_One_is_model : Dec_One = DEC_ONE.
Proof. reflexivity. Qed.

Ltac pv_norm :=
  cbv beta zeta; cbn [obind negb];
  unfold Dec_IsNil, Dec_IsNegative, Dec_GT; rewrite ?Dec_One_is_model.
Ltac pv_step :=
  match goal with
  | |- context [if ?b then _ else _] =>
      lazymatch b with
      | context [if _ then _ else _] => fail
      | _ => let H := fresh "T" in destruct b eqn:H
      end
  end.
Ltac pv_walk := pv_norm; repeat (pv_step; pv_norm); try reflexivity; try (exfalso; lia).

Lemma gen_str_validateBaseValidatorFee_eq : forall v,
  go_validateBaseValidatorFee v = if str_params_valid v then Ok tt else Err stream_ErrInvalidParams.
Proof.
  intros v. unfold go_validateBaseValidatorFee, str_params_valid. pv_walk.
Qed.

Theorem gen_str_Params_Validate_eq : forall p,
  go_Params_Validate p = if str_params_valid (Params_ValidatorFee p) then Ok tt else Err stream_ErrInvalidParams.
Proof.
  intros p. unfold go_Params_Validate. rewrite gen_str_validateBaseValidatorFee_eq.
  destruct (str_params_valid (Params_ValidatorFee p)); reflexivity.
Qed.

(* corollaries: the verdict, and the function never panics *)
Corollary gen_str_Params_Validate_ok_iff : forall p,
  go_Params_Validate p = Ok tt <-> str_params_valid (Params_ValidatorFee p) = true.
Proof.
  intros p. rewrite gen_str_Params_Validate_eq. destruct (str_params_valid (Params_ValidatorFee p)); split;
    intros H; try reflexivity; discriminate H.
Qed.

Corollary gen_str_Params_Validate_ok_range : forall p,
  go_Params_Validate p = Ok tt <-> 0 <= Params_ValidatorFee p <= DEC_ONE.
Proof.
  intros p. rewrite gen_str_Params_Validate_ok_iff. unfold str_params_valid. lia.
Qed.

Corollary gen_str_Params_Validate_no_panic : forall p c, go_Params_Validate p <> Panic c.
Proof.
  intros p c. rewrite gen_str_Params_Validate_eq. destruct (str_params_valid (Params_ValidatorFee p)); discriminate.
Qed.

(* the error code is the model's *)
Lemma stream_ErrInvalidParams_is_40 : stream_ErrInvalidParams = 40.
Proof. reflexivity. Qed.

Print Assumptions gen_str_Params_Validate_eq.
Print Assumptions gen_str_Params_Validate_ok_range.
Print Assumptions gen_str_Params_Validate_no_panic.
