(* types/denom.go ConvertUndDenomination as GENERATED from the source (GeneratedDenom.v) equals the hand-written model
   of C19 (model/Denom.v: convert) - on every input string. *)
From MC Require Import lib.Prelude model.Denom model.DenomPrims GeneratedDenom.
From MC Require proofs.DenomProofs.
From Coq Require Import String NArith Lia.
Open Scope N_scope.

Definition denom_name (d : denom) : string := match d with Fund => "fund"%string | Nund => "nund"%string end.
Definition other (d : denom) : denom := match d with Fund => Nund | Nund => Fund end.

(* the error / success classes of the two sides *)
Definition lift_convert (o : option string) : outcome string :=
  match o with Some r => Ok r | None => Err types_ErrInvalidAmount end.

Lemma pow10_pos k : 0 < pow10 k.
Proof. unfold pow10. apply N.neq_0_lt_0. apply N.pow_nonzero. discriminate. Qed.

Lemma rat_den_pos a : rat_den a <> 0.
Proof. unfold rat_den. pose proof (pow10_pos (frac_len a)). lia. Qed.

(* the constants read from the source *)
Lemma gen_denom_constants :
  types_FundDenom = "fund"%string /\ types_NundDenom = "nund"%string /\ types_nundPerFund = nund_per_fund /\
  types_DefaultDenomination = "nund"%string /\ types_BaseDenomination = "fund"%string.
Proof. repeat split. Qed.

(* FUND -> nund *)
Theorem gen_convert_fund_to_nund : forall s,
  go_ConvertUndDenomination s "fund" "nund" = lift_convert (convert s Fund).
Proof.
  intros s. unfold go_ConvertUndDenomination, convert, lift_convert, Rat_SetString.
  cbn [String.eqb Ascii.eqb Bool.eqb types_FundDenom types_NundDenom].
  destruct (parse_amount s) as [a|]; cbn [negb obind]; [|reflexivity].
  unfold BigInt_Quo, Rat_Num, Rat_Denom, Rat_Mul, Rat_SetInt, BigInt_String, to_nund. cbn [fst snd].
  rewrite N.mul_1_r. destruct (rat_den a =? 0) eqn:E; [apply N.eqb_eq in E; destruct (rat_den_pos a E)|].
  cbn [obind]. reflexivity.
Qed.

(* nund -> FUND *)
Theorem gen_convert_nund_to_fund : forall s,
  go_ConvertUndDenomination s "nund" "fund" = lift_convert (convert s Nund).
Proof.
  intros s. unfold go_ConvertUndDenomination, convert, lift_convert, Rat_SetString.
  cbn [String.eqb Ascii.eqb Bool.eqb types_FundDenom types_NundDenom].
  destruct (parse_amount s) as [a|]; cbn [negb obind]; [|reflexivity].
  unfold Rat_Quo, Rat_SetInt, Rat_FloatString9, to_fund. cbn [fst snd obind].
  change (types_nundPerFund =? 0) with false. cbn [obind fst snd].
  rewrite N.mul_1_r. reflexivity.
Qed.

(* both directions at once *)
Theorem gen_convert_eq : forall s d,
  go_ConvertUndDenomination s (denom_name d) (denom_name (other d)) = lift_convert (convert s d).
Proof. intros s [|]; [apply gen_convert_fund_to_nund | apply gen_convert_nund_to_fund]. Qed.

(* the same denomination on both sides: the amount is echoed with its denomination, unparsed *)
Theorem gen_convert_same : forall s d, go_ConvertUndDenomination s d d = Ok (s ++ d)%string.
Proof. intros s d. unfold go_ConvertUndDenomination. rewrite String.eqb_refl. reflexivity. Qed.

(* any other source denomination: the empty string, no error (what the Go code does) *)
Theorem gen_convert_unknown : forall s from to,
  from <> to -> from <> "fund"%string -> from <> "nund"%string -> go_ConvertUndDenomination s from to = Ok EmptyString.
Proof.
  intros s from to H1 H2 H3. unfold go_ConvertUndDenomination.
  destruct (String.eqb_spec from to); [contradiction|].
  unfold types_FundDenom, types_NundDenom.
  destruct (String.eqb_spec from "fund"); [contradiction|].
  destruct (String.eqb_spec from "nund"); [contradiction|]. reflexivity.
Qed.

(* the function never panics *)
Theorem gen_convert_no_panic : forall s from to c, go_ConvertUndDenomination s from to <> Panic c.
Proof.
  intros s from to c. unfold go_ConvertUndDenomination.
  destruct (String.eqb from to); [discriminate|].
  destruct (String.eqb from types_FundDenom).
  - unfold Rat_SetString. destruct (parse_amount s) as [a|]; cbn [negb]; [|discriminate].
    unfold BigInt_Quo, Rat_Num, Rat_Denom, Rat_Mul, Rat_SetInt. cbn [fst snd]. rewrite N.mul_1_r.
    destruct (rat_den a =? 0) eqn:E; [apply N.eqb_eq in E; destruct (rat_den_pos a E)|]. cbn [obind]. discriminate.
  - destruct (String.eqb from types_NundDenom); [|discriminate].
    unfold Rat_SetString. destruct (parse_amount s) as [a|]; cbn [negb]; [|discriminate].
    unfold Rat_Quo, Rat_SetInt. cbn [fst snd]. change (types_nundPerFund =? 0) with false. cbn [obind]. discriminate.
Qed.

Print Assumptions gen_convert_eq.
Print Assumptions gen_convert_same.
Print Assumptions gen_convert_unknown.
Print Assumptions gen_convert_no_panic.

(* ---- C19 on the generated function (string level) ---- *)
Lemma convert_of_num s d r : convert_num s d = Some r -> convert s d = Some (r ++ denom_name (other d))%string.
Proof.
  unfold convert_num, convert. destruct (parse_amount s) as [a|]; [|discriminate].
  destruct d; intros [= <-]; reflexivity.
Qed.

Lemma app_assoc_s (a b c : string) : ((a ++ b) ++ c = a ++ (b ++ c))%string.
Proof. induction a as [|ch a IH]; cbn; [reflexivity | rewrite IH; reflexivity]. Qed.

(* nund printed as a natural converts to floor(n / 10^9) "." (n mod 10^9 on nine digits) "fund" *)
Theorem gen_nund_to_fund_string : forall n : N,
  go_ConvertUndDenomination (print_N n) "nund" "fund" =
  Ok (print_N (n / 1000000000) ++ "." ++ pad9 (n mod 1000000000) ++ "fund")%string.
Proof.
  intros n. rewrite gen_convert_nund_to_fund.
  rewrite (convert_of_num _ Nund _ (DenomProofs.nund_to_fund_string n)). cbn [lift_convert other denom_name].
  rewrite !app_assoc_s. reflexivity.
Qed.

(* FUND printed with nine decimals converts to exactly q * 10^9 + r nund *)
Theorem gen_fund_string_to_nund : forall q r : N, r < 1000000000 ->
  go_ConvertUndDenomination (print_N q ++ "." ++ pad9 r)%string "fund" "nund" =
  Ok (print_N (q * 1000000000 + r) ++ "nund")%string.
Proof.
  intros q r H. rewrite gen_convert_fund_to_nund.
  rewrite (convert_of_num _ Fund _ (DenomProofs.fund_string_to_nund q r H)). reflexivity.
Qed.

(* there and back through the generated function: nund -> fund -> nund returns the original natural *)
Theorem gen_roundtrip_nund : forall n : N,
  exists s, go_ConvertUndDenomination (print_N n) "nund" "fund" = Ok (s ++ "fund")%string /\
            go_ConvertUndDenomination s "fund" "nund" = Ok (print_N n ++ "nund")%string.
Proof.
  intros n. destruct (DenomProofs.roundtrip_nund_string n) as (s & H1 & H2). exists s. split.
  - rewrite gen_convert_nund_to_fund, (convert_of_num _ Nund _ H1). reflexivity.
  - rewrite gen_convert_fund_to_nund, (convert_of_num _ Fund _ H2). reflexivity.
Qed.

(* ... and fund -> nund -> fund returns the original nine-decimal string *)
Theorem gen_roundtrip_fund : forall q r : N, r < 1000000000 ->
  exists s, go_ConvertUndDenomination (print_N q ++ "." ++ pad9 r)%string "fund" "nund" = Ok (s ++ "nund")%string /\
            go_ConvertUndDenomination s "nund" "fund" = Ok ((print_N q ++ "." ++ pad9 r) ++ "fund")%string.
Proof.
  intros q r H. destruct (DenomProofs.roundtrip_fund_string q r H) as (s & H1 & H2). exists s. split.
  - rewrite gen_convert_fund_to_nund, (convert_of_num _ Fund _ H1). reflexivity.
  - rewrite gen_convert_nund_to_fund, (convert_of_num _ Nund _ H2). reflexivity.
Qed.

Print Assumptions gen_nund_to_fund_string.
Print Assumptions gen_fund_string_to_nund.
Print Assumptions gen_roundtrip_nund.
Print Assumptions gen_roundtrip_fund.
