(* Proofs about model/Paginate.v (cosmos-sdk FilteredPaginate / GenericFilteredPaginate). *)
From MC Require Import lib.Prelude model.Paginate.
From Coq Require Import NArith Sorted Relations RelationClasses ZifyN ZifyNat ZifyBool.
Local Open Scope N_scope.
Local Notation length := List.length.

(* ------------------------------------------------------------------------------------------ *)
(* uint64 *)

Lemma u64_small : forall n, n < two64N -> u64 n = n.
Proof. intros n Hn. unfold u64. apply N.mod_small. exact Hn. Qed.

Lemma two64N_pos : 0 < two64N.
Proof. reflexivity. Qed.

Lemma u64_lt : forall n, u64 n < two64N.
Proof. intros n. unfold u64. apply N.mod_lt. discriminate. Qed.

(* [u64 (o + l)] for uint64 operands: either exact, or it wrapped below [o] *)
Lemma u64_add_cases : forall o l, o < two64N -> l < two64N ->
  (o + l < two64N /\ u64 (o + l) = o + l) \/ (two64N <= o + l /\ u64 (o + l) + two64N = o + l).
Proof.
  intros o l Ho Hl.
  destruct (N.lt_ge_cases (o + l) two64N) as [Hlt | Hge].
  - left. split; [exact Hlt | apply u64_small; exact Hlt].
  - right. split; [exact Hge|].
    unfold u64.
    assert (Hlt2 : o + l - two64N < two64N) by lia.
    replace (o + l) with ((o + l - two64N) + 1 * two64N) at 1 by lia.
    rewrite N.mod_add by discriminate.
    rewrite N.mod_small by exact Hlt2. lia.
Qed.

Lemma default_limit_lt : default_limit < two64N.
Proof. reflexivity. Qed.

Global Opaque two64N u64.

(* ------------------------------------------------------------------------------------------ *)
(* list helpers *)

Section ListHelpers.
  Context {A : Type}.

  Lemma skipn_firstn_glue : forall (F : list A) (o m : nat),
    (o <= m)%nat -> (m <= length F)%nat ->
    skipn o (firstn m F) ++ skipn m F = skipn o F.
  Proof.
    intros F o m Hom Hm.
    rewrite <- (firstn_skipn m F) at 3.
    rewrite skipn_app.
    rewrite firstn_length_le by exact Hm.
    replace (o - m)%nat with O by lia.
    reflexivity.
  Qed.

  Lemma filter_nth_split : forall (p : A -> bool) (L : list A) (m : nat) (y : A),
    nth_error (filter p L) m = Some y ->
    exists a b, L = a ++ y :: b /\ filter p a = firstn m (filter p L) /\ length (filter p a) = m.
  Proof.
    intros p L. induction L as [|x L IH]; intros m y Hn.
    - cbn in Hn. destruct m; discriminate.
    - cbn [filter] in Hn |- *. destruct (p x) eqn:Hpx.
      + destruct m as [|m].
        * cbn in Hn. injection Hn as Hxy. subst y.
          exists [], L. repeat split.
        * cbn [nth_error] in Hn. destruct (IH m y Hn) as (a & b & HL & Hf & Hlen).
          exists (x :: a), b. cbn [app]. split; [f_equal; exact HL|].
          cbn [filter]. rewrite Hpx. cbn [firstn length].
          split; [f_equal; exact Hf | f_equal; exact Hlen].
      + destruct (IH m y Hn) as (a & b & HL & Hf & Hlen).
        exists (x :: a), b. cbn [app]. split; [f_equal; exact HL|].
        cbn [filter]. rewrite Hpx. split; assumption.
  Qed.
  Lemma NoDup_app_r : forall (a b : list A), NoDup (a ++ b) -> NoDup b.
  Proof.
    induction a as [|x a IH]; intros b Hnd.
    - exact Hnd.
    - cbn [app] in Hnd. inversion Hnd as [|x' l' Hnin Hnd']; subst. exact (IH b Hnd').
  Qed.

  Lemma NoDup_app_l : forall (a b : list A), NoDup (a ++ b) -> NoDup a.
  Proof.
    induction a as [|x a IH]; intros b Hnd.
    - constructor.
    - cbn [app] in Hnd. inversion Hnd as [|x' l' Hnin Hnd']; subst. constructor.
      + intros Hin. apply Hnin. apply in_or_app. left. exact Hin.
      + exact (IH b Hnd').
  Qed.
End ListHelpers.

(* ------------------------------------------------------------------------------------------ *)
(* sorted stores *)

Definition keys_sorted {V} (items : list (N * V)) : Prop := Sorted N.lt (map fst items).

Section Sorted.
  Context {V : Type}.
  Implicit Types items l p s : list (N * V).

  Lemma keys_sorted_strong : forall items, keys_sorted items -> StronglySorted N.lt (map fst items).
  Proof.
    intros items Hs. apply Sorted_StronglySorted; [|exact Hs].
    intros a b c Hab Hbc. exact (N.lt_trans _ _ _ Hab Hbc).
  Qed.

  Lemma sorted_app_lt : forall p x s, StronglySorted N.lt (map fst (p ++ x :: s)) ->
    Forall (fun y => fst y < fst x) p.
  Proof.
    induction p as [|q p IH]; intros x s Hs.
    - constructor.
    - cbn [app map] in Hs. inversion Hs as [|k ks Hss Hall]; subst.
      constructor.
      + rewrite Forall_forall in Hall. apply Hall.
        rewrite map_app. apply in_or_app. right. left. reflexivity.
      + exact (IH x s Hss).
  Qed.

  Lemma sorted_NoDup : forall items, keys_sorted items -> NoDup items.
  Proof.
    intros items Hs. apply keys_sorted_strong in Hs.
    apply (NoDup_map_inv fst).
    induction Hs as [|k ks Hss IH Hall].
    - constructor.
    - constructor; [|exact IH].
      intros Hin. rewrite Forall_forall in Hall. specialize (Hall k Hin). lia.
  Qed.

  Lemma drop_lt_app : forall k p s, Forall (fun y => fst y < k) p -> drop_lt k (p ++ s) = drop_lt k s.
  Proof.
    intros k p s Hall. induction Hall as [|q p Hq Hall IH].
    - reflexivity.
    - cbn [app drop_lt]. apply N.ltb_lt in Hq. rewrite Hq. exact IH.
  Qed.

  Lemma take_lt_app : forall k p x s, Forall (fun y => fst y < k) p -> fst x = k ->
    take_lt k (p ++ x :: s) = p.
  Proof.
    intros k p x s Hall Hx. induction Hall as [|q p Hq Hall IH].
    - cbn [app take_lt]. rewrite Hx, N.ltb_irrefl. reflexivity.
    - cbn [app take_lt]. apply N.ltb_lt in Hq. rewrite Hq, IH. reflexivity.
  Qed.

  Lemma drop_lt_at : forall p x s, keys_sorted (p ++ x :: s) -> drop_lt (fst x) (p ++ x :: s) = x :: s.
  Proof.
    intros p x s Hs. apply keys_sorted_strong in Hs.
    rewrite drop_lt_app by exact (sorted_app_lt p x s Hs).
    cbn [drop_lt]. rewrite N.ltb_irrefl. reflexivity.
  Qed.

  Lemma take_lt_at : forall p x s, keys_sorted (p ++ x :: s) -> take_lt (fst x) (p ++ x :: s) = p.
  Proof.
    intros p x s Hs. apply keys_sorted_strong in Hs.
    apply take_lt_app; [exact (sorted_app_lt p x s Hs) | reflexivity].
  Qed.

  (* [drop_lt] is a suffix, [take_lt] a prefix, without any sortedness *)
  Lemma drop_lt_suffix : forall k l, exists p, l = p ++ drop_lt k l.
  Proof.
    intros k l. induction l as [|x l [p Hp]].
    - exists []. reflexivity.
    - cbn [drop_lt]. destruct (fst x <? k).
      + exists (x :: p). cbn [app]. rewrite <- Hp. reflexivity.
      + exists []. reflexivity.
  Qed.

  Lemma take_lt_prefix : forall k l, exists s, l = take_lt k l ++ s.
  Proof.
    intros k l. induction l as [|x l [s Hs]].
    - exists []. reflexivity.
    - cbn [take_lt]. destruct (fst x <? k).
      + exists s. cbn [app]. rewrite <- Hs. reflexivity.
      + exists (x :: l). reflexivity.
  Qed.

  (* what getIterator yields is made of stored items, each at most once *)
  Lemma iter_seq_sound : forall items start reverse seq,
    iter_seq items start reverse = Ok seq ->
    (forall x, In x seq -> In x items) /\ (NoDup items -> NoDup seq) /\ (length seq <= length items)%nat.
  Proof.
    intros items start reverse seq Hseq. unfold iter_seq in Hseq.
    assert (Hrev : (forall x, In x (rev items) -> In x items) /\ (NoDup items -> NoDup (rev items))
                   /\ (length (rev items) <= length items)%nat).
    { split; [|split].
      - intros x Hx. apply in_rev. exact Hx.
      - apply NoDup_rev.
      - rewrite rev_length. lia. }
    assert (Htake : forall k, (forall x, In x (rev (take_lt k items)) -> In x items)
                   /\ (NoDup items -> NoDup (rev (take_lt k items)))
                   /\ (length (rev (take_lt k items)) <= length items)%nat).
    { intros k. destruct (take_lt_prefix k items) as [s Hs]. split; [|split].
      - intros x Hx. apply in_rev in Hx. rewrite Hs. apply in_or_app. left. exact Hx.
      - intros Hnd. apply NoDup_rev. rewrite Hs in Hnd. exact (NoDup_app_l _ _ Hnd).
      - rewrite rev_length. rewrite Hs at 2. rewrite app_length. lia. }
    assert (Hdrop : forall k, (forall x, In x (drop_lt k items) -> In x items)
                   /\ (NoDup items -> NoDup (drop_lt k items))
                   /\ (length (drop_lt k items) <= length items)%nat).
    { intros k. destruct (drop_lt_suffix k items) as [p Hp]. split; [|split].
      - intros x Hx. rewrite Hp. apply in_or_app. right. exact Hx.
      - intros Hnd. rewrite Hp in Hnd. exact (NoDup_app_r _ _ Hnd).
      - rewrite Hp at 2. rewrite app_length. lia. }
    destruct reverse.
    - destruct start as [k|].
      + destruct (drop_lt k items) as [|x [|y t]].
        * injection Hseq as <-. exact Hrev.
        * discriminate.
        * injection Hseq as <-. apply Htake.
      + injection Hseq as <-. exact Hrev.
    - injection Hseq as <-. destruct start as [k|].
      + apply Hdrop.
      + split; [|split]; auto.
  Qed.
End Sorted.

(* ------------------------------------------------------------------------------------------ *)
(* the two loops *)

Section Loops.
  Context {V : Type}.
  Variable flt : N -> V -> bool.
  Implicit Types seq rest pre post its : list (N * V).

  Lemma hit_filter_cons_true : forall x l, hit flt x = true -> filter (hit flt) (x :: l) = x :: filter (hit flt) l.
  Proof. intros x l Hx. cbn [filter]. rewrite Hx. reflexivity. Qed.
  Lemma hit_filter_cons_false : forall x l, hit flt x = false -> filter (hit flt) (x :: l) = filter (hit flt) l.
  Proof. intros x l Hx. cbn [filter]. rewrite Hx. reflexivity. Qed.

  (* --- key mode --- *)
  Lemma key_loop_spec : forall limit, limit < two64N -> forall seq n, n <= limit ->
    exists pre post,
      seq = pre ++ post /\
      key_loop flt limit seq n = (filter (hit flt) pre, option_map fst (hd_error post)) /\
      (n < limit -> seq <> [] -> pre <> []) /\
      (length (filter (hit flt) pre) <= N.to_nat (limit - n))%nat.
  Proof.
    intros limit Hlim. induction seq as [|x rest IH]; intros n Hn.
    - exists [], []. split; [reflexivity|]. split; [reflexivity|]. split.
      + intros _ H. exact H.
      + cbn [filter length]. lia.
    - cbn [key_loop]. destruct (N.eqb_spec n limit) as [He|Hne].
      + exists [], (x :: rest). split; [reflexivity|]. split; [reflexivity|]. split.
        * intros Hlt. lia.
        * cbn [filter length]. lia.
      + assert (Hn1 : n + 1 <= limit) by lia.
        destruct (hit flt x) eqn:Hx.
        * rewrite u64_small by lia.
          destruct (IH (n + 1) Hn1) as (pre & post & Hseq & Hkl & _ & Hlen).
          exists (x :: pre), post. rewrite Hkl. rewrite hit_filter_cons_true by exact Hx.
          split; [cbn [app]; f_equal; exact Hseq|]. split; [reflexivity|]. split.
          -- intros _ _. discriminate.
          -- cbn [length]. lia.
        * destruct (IH n Hn) as (pre & post & Hseq & Hkl & _ & Hlen).
          exists (x :: pre), post. rewrite Hkl. rewrite hit_filter_cons_false by exact Hx.
          split; [cbn [app]; f_equal; exact Hseq|]. split; [reflexivity|]. split.
          -- intros _ _. discriminate.
          -- exact Hlen.
  Qed.

  (* --- offset mode: one iteration --- *)
  Definition step_n (x : N * V) (n : N) : N := if hit flt x then u64 (n + 1) else n.
  Definition step_em (o e : N) (x : N * V) (n : N) : bool := hit flt x && ((o <=? n) && (n <? e)).
  Definition step_nk (e1 : N) (x : N * V) (n1 : N) (nk : option N) : option N :=
    if n1 =? e1 then match nk with None => Some (fst x) | Some _ => nk end else nk.

  Lemma offset_loop_cons : forall o e e1 ct x rest n nk,
    offset_loop flt o e e1 ct (x :: rest) n nk =
    if (step_n x n =? e1) && negb ct
    then ((if step_em o e x n then [x] else []), step_nk e1 x (step_n x n) nk, step_n x n)
    else let '(its, nk', n') := offset_loop flt o e e1 ct rest (step_n x n) (step_nk e1 x (step_n x n) nk) in
         ((if step_em o e x n then x :: its else its), nk', n').
  Proof. reflexivity. Qed.

  Lemma step_em_hit : forall o e x n, step_em o e x n = true -> hit flt x = true.
  Proof. intros o e x n H. unfold step_em in H. apply andb_prop in H. exact (proj1 H). Qed.

  (* any request: accumulated items are matching items of the sequence, each at most once *)
  Lemma offset_loop_sound : forall o e e1 ct seq n nk its nk' n',
    offset_loop flt o e e1 ct seq n nk = (its, nk', n') ->
    (forall y, In y its -> In y seq /\ hit flt y = true) /\ (NoDup seq -> NoDup its).
  Proof.
    intros o e e1 ct. induction seq as [|x rest IH]; intros n nk its nk' n' H.
    - cbn [offset_loop] in H. injection H as <- _ _. split; [intros y []|intros _; constructor].
    - rewrite offset_loop_cons in H.
      destruct ((step_n x n =? e1) && negb ct).
      + injection H as <- _ _. destruct (step_em o e x n) eqn:Hem.
        * split.
          -- intros y [<-|[]]. split; [left; reflexivity | exact (step_em_hit _ _ _ _ Hem)].
          -- intros _. constructor; [intros []|constructor].
        * split; [intros y []|intros _; constructor].
      + destruct (offset_loop flt o e e1 ct rest (step_n x n) (step_nk e1 x (step_n x n) nk))
          as [[its0 nk0] n0] eqn:Hrec.
        injection H as <- _ _.
        destruct (IH _ _ _ _ _ Hrec) as [HIn HNd].
        destruct (step_em o e x n) eqn:Hem.
        * split.
          -- intros y [<-|Hy].
             ++ split; [left; reflexivity | exact (step_em_hit _ _ _ _ Hem)].
             ++ destruct (HIn y Hy) as [H1 H2]. split; [right; exact H1 | exact H2].
          -- intros Hnd. inversion Hnd as [|x' l' Hnin Hnd']; subst. constructor.
             ++ intros Hy. apply Hnin. exact (proj1 (HIn x Hy)).
             ++ exact (HNd Hnd').
        * split.
          -- intros y Hy. destruct (HIn y Hy) as [H1 H2]. split; [right; exact H1 | exact H2].
          -- intros Hnd. inversion Hnd as [|x' l' Hnin Hnd']; subst. exact (HNd Hnd').
  Qed.

  Lemma step_n_nowrap : forall x rest n, n + N.of_nat (length (x :: rest)) < two64N ->
    step_n x n = (if hit flt x then n + 1 else n) /\ step_n x n + N.of_nat (length rest) < two64N.
  Proof.
    intros x rest n Hb. cbn [length] in Hb. unfold step_n. destruct (hit flt x).
    - rewrite u64_small by lia. split; [reflexivity | lia].
    - split; [reflexivity | lia].
  Qed.

  (* Total: with countTotal the loop never breaks and counts every hit *)
  Lemma offset_loop_total : forall o e e1 seq n nk its nk' n',
    n + N.of_nat (length seq) < two64N ->
    offset_loop flt o e e1 true seq n nk = (its, nk', n') ->
    n' = n + N.of_nat (length (filter (hit flt) seq)).
  Proof.
    intros o e e1. induction seq as [|x rest IH]; intros n nk its nk' n' Hb H.
    - cbn [offset_loop] in H. injection H as _ _ <-. cbn [filter length]. lia.
    - rewrite offset_loop_cons in H. cbn [negb] in H. rewrite andb_false_r in H.
      destruct (offset_loop flt o e e1 true rest (step_n x n) (step_nk e1 x (step_n x n) nk))
        as [[its0 nk0] n0] eqn:Hrec.
      injection H as _ _ <-.
      destruct (step_n_nowrap x rest n Hb) as [Hn1 Hb1].
      rewrite (IH _ _ _ _ _ Hb1 Hrec). rewrite Hn1.
      destruct (hit flt x) eqn:Hx.
      + rewrite hit_filter_cons_true by exact Hx. cbn [length]. lia.
      + rewrite hit_filter_cons_false by exact Hx. lia.
  Qed.

  (* at most end - max(offset, numHits) items are accumulated (truncated subtraction) *)
  Lemma offset_loop_length : forall o e e1 ct seq n nk its nk' n',
    n + N.of_nat (length seq) < two64N ->
    offset_loop flt o e e1 ct seq n nk = (its, nk', n') ->
    (length its <= N.to_nat (e - N.max o n))%nat.
  Proof.
    intros o e e1 ct. induction seq as [|x rest IH]; intros n nk its nk' n' Hb H.
    - cbn [offset_loop] in H. injection H as <- _ _. cbn [length]. lia.
    - rewrite offset_loop_cons in H.
      destruct (step_n_nowrap x rest n Hb) as [Hn1 Hb1].
      assert (Hem : step_em o e x n = true -> hit flt x = true /\ o <= n /\ n < e).
      { unfold step_em. intros Ht. apply andb_prop in Ht. destruct Ht as [H1 H2].
        apply andb_prop in H2. destruct H2 as [H2 H3].
        apply N.leb_le in H2. apply N.ltb_lt in H3. auto. }
      destruct ((step_n x n =? e1) && negb ct).
      + injection H as <- _ _. destruct (step_em o e x n).
        * destruct (Hem eq_refl) as (_ & Ho & He). cbn [length]. lia.
        * cbn [length]. lia.
      + destruct (offset_loop flt o e e1 ct rest (step_n x n) (step_nk e1 x (step_n x n) nk))
          as [[its0 nk0] n0] eqn:Hrec.
        injection H as <- _ _.
        pose proof (IH _ _ _ _ _ Hb1 Hrec) as Hlen.
        destruct (step_em o e x n).
        * destruct (Hem eq_refl) as (Hx & Ho & He). rewrite Hx in Hn1. rewrite Hn1 in Hlen.
          cbn [length]. lia.
        * destruct (hit flt x); rewrite Hn1 in Hlen; lia.
  Qed.

  (* --- offset mode without wrap-around: exact description --- *)

  (* once numHits is past end, nothing more is accumulated and nextKey stays *)
  Lemma offset_loop_past : forall o e ct seq n k0 its nk' n',
    e < n -> n + N.of_nat (length seq) < two64N ->
    offset_loop flt o e (e + 1) ct seq n (Some k0) = (its, nk', n') ->
    its = [] /\ nk' = Some k0.
  Proof.
    intros o e ct. induction seq as [|x rest IH]; intros n k0 its nk' n' Hn Hb H.
    - cbn [offset_loop] in H. injection H as <- <- _. split; reflexivity.
    - rewrite offset_loop_cons in H.
      destruct (step_n_nowrap x rest n Hb) as [Hn1 Hb1].
      assert (Hem : step_em o e x n = false).
      { unfold step_em. replace (n <? e) with false by (symmetry; apply N.ltb_ge; lia).
        rewrite !andb_false_r. reflexivity. }
      assert (Hnk : step_nk (e + 1) x (step_n x n) (Some k0) = Some k0).
      { unfold step_nk. destruct (step_n x n =? e + 1); reflexivity. }
      rewrite Hem, Hnk in H.
      destruct ((step_n x n =? e + 1) && negb ct).
      + injection H as <- <- _. split; reflexivity.
      + destruct (offset_loop flt o e (e + 1) ct rest (step_n x n) (Some k0))
          as [[its0 nk0] n0] eqn:Hrec.
        injection H as <- <- _.
        apply (IH (step_n x n) k0 its0 nk0 n0); [|exact Hb1|exact Hrec].
        rewrite Hn1. destruct (hit flt x); lia.
  Qed.

  Lemma offset_loop_spec : forall o e ct seq n its nk' n',
    n <= e -> n + N.of_nat (length seq) < two64N ->
    offset_loop flt o e (e + 1) ct seq n None = (its, nk', n') ->
    its = skipn (N.to_nat (o - n)) (firstn (N.to_nat (e - n)) (filter (hit flt) seq)) /\
    nk' = option_map fst (nth_error (filter (hit flt) seq) (N.to_nat (e - n))).
  Proof.
    intros o e ct. induction seq as [|x rest IH]; intros n its nk' n' Hn Hb H.
    - cbn [offset_loop] in H. injection H as <- <- _. cbn [filter].
      rewrite firstn_nil, skipn_nil. split; [reflexivity|].
      destruct (N.to_nat (e - n)); reflexivity.
    - rewrite offset_loop_cons in H.
      destruct (step_n_nowrap x rest n Hb) as [Hn1 Hb1].
      destruct (hit flt x) eqn:Hx.
      + rewrite hit_filter_cons_true by exact Hx.
        destruct (N.eq_dec n e) as [Hne|Hne].
        * (* this hit is number end+1: it becomes nextKey *)
          assert (Hat : step_n x n =? e + 1 = true) by (apply N.eqb_eq; lia).
          assert (Hem : step_em o e x n = false).
          { unfold step_em. replace (n <? e) with false by (symmetry; apply N.ltb_ge; lia).
            rewrite !andb_false_r. reflexivity. }
          assert (Hnk : step_nk (e + 1) x (step_n x n) None = Some (fst x)).
          { unfold step_nk. rewrite Hat. reflexivity. }
          rewrite Hat, Hem, Hnk in H. cbn [andb] in H.
          replace (N.to_nat (e - n)) with O by lia. cbn [firstn nth_error option_map].
          rewrite skipn_nil.
          destruct ct; cbn [negb] in H.
          -- destruct (offset_loop flt o e (e + 1) true rest (step_n x n) (Some (fst x)))
               as [[its0 nk0] n0] eqn:Hrec.
             injection H as <- <- _.
             apply (offset_loop_past o e true rest (step_n x n) (fst x) its0 nk0 n0); [lia|exact Hb1|exact Hrec].
          -- injection H as <- <- _. split; reflexivity.
        * assert (Hat : step_n x n =? e + 1 = false) by (apply N.eqb_neq; lia).
          assert (Hnk : step_nk (e + 1) x (step_n x n) None = None).
          { unfold step_nk. rewrite Hat. reflexivity. }
          rewrite Hat, Hnk in H. cbn [andb] in H.
          destruct (offset_loop flt o e (e + 1) ct rest (step_n x n) None)
            as [[its0 nk0] n0] eqn:Hrec.
          assert (Hn1e : step_n x n <= e) by lia.
          destruct (IH _ _ _ _ Hn1e Hb1 Hrec) as [Hits Hnk'].
          rewrite Hn1 in Hits, Hnk'.
          replace (N.to_nat (e - n)) with (S (N.to_nat (e - (n + 1)))) by lia.
          cbn [firstn nth_error].
          unfold step_em in H. rewrite Hx in H. cbn [andb] in H.
          replace (n <? e) with true in H by (symmetry; apply N.ltb_lt; lia).
          rewrite andb_true_r in H.
          destruct (N.leb_spec o n) as [Hon|Hon]; injection H as <- <- _.
          -- replace (N.to_nat (o - n)) with O by lia.
             replace (N.to_nat (o - (n + 1))) with O in Hits by lia.
             cbn [skipn] in Hits |- *. split; [f_equal; exact Hits | exact Hnk'].
          -- replace (N.to_nat (o - n)) with (S (N.to_nat (o - (n + 1)))) by lia.
             cbn [skipn]. split; [exact Hits | exact Hnk'].
      + rewrite hit_filter_cons_false by exact Hx.
        assert (Hat : step_n x n =? e + 1 = false) by (apply N.eqb_neq; lia).
        assert (Hnk : step_nk (e + 1) x (step_n x n) None = None).
        { unfold step_nk. rewrite Hat. reflexivity. }
        assert (Hem : step_em o e x n = false).
        { unfold step_em. rewrite Hx. reflexivity. }
        rewrite Hat, Hnk, Hem in H. cbn [andb] in H.
        destruct (offset_loop flt o e (e + 1) ct rest (step_n x n) None)
          as [[its0 nk0] n0] eqn:Hrec.
        injection H as <- <- _.
        rewrite Hn1 in Hrec, Hb1.
        exact (IH _ _ _ _ Hn Hb1 Hrec).
  Qed.
End Loops.

(* ------------------------------------------------------------------------------------------ *)
(* more list helpers *)

Lemma filter_length_le' : forall {A} (p : A -> bool) (l : list A), (length (filter p l) <= length l)%nat.
Proof.
  intros A p l. induction l as [|x l IH]; cbn [filter length]; [lia|].
  destruct (p x); cbn [length]; lia.
Qed.

Lemma filter_rev' : forall {A} (p : A -> bool) (l : list A), filter p (rev l) = rev (filter p l).
Proof.
  intros A p l. induction l as [|x l IH]; [reflexivity|].
  cbn [rev filter]. rewrite filter_app, IH. cbn [filter].
  destruct (p x); cbn [rev]; [reflexivity | rewrite app_nil_r; reflexivity].
Qed.

Section KeyLoopSound.
  Context {V : Type}.
  Variable flt : N -> V -> bool.

  Lemma key_loop_sound : forall limit (seq : list (N * V)) n its nk,
    key_loop flt limit seq n = (its, nk) ->
    (forall y, In y its -> In y seq /\ hit flt y = true) /\ (NoDup seq -> NoDup its).
  Proof.
    intros limit. induction seq as [|x rest IH]; intros n its nk H.
    - cbn [key_loop] in H. injection H as <- _. split; [intros y []|intros _; constructor].
    - cbn [key_loop] in H. destruct (n =? limit).
      + injection H as <- _. split; [intros y []|intros _; constructor].
      + destruct (hit flt x) eqn:Hx.
        * destruct (key_loop flt limit rest (u64 (n + 1))) as [its0 nk0] eqn:Hrec.
          injection H as <- _. destruct (IH _ _ _ Hrec) as [HIn HNd]. split.
          -- intros y [<-|Hy].
             ++ split; [left; reflexivity|exact Hx].
             ++ destruct (HIn y Hy) as [H1 H2]. split; [right; exact H1|exact H2].
          -- intros Hnd. inversion Hnd as [|x' l' Hnin Hnd']; subst. constructor.
             ++ intros Hy. apply Hnin. exact (proj1 (HIn x Hy)).
             ++ exact (HNd Hnd').
        * destruct (IH _ _ _ H) as [HIn HNd]. split.
          -- intros y Hy. destruct (HIn y Hy) as [H1 H2]. split; [right; exact H1|exact H2].
          -- intros Hnd. inversion Hnd as [|x' l' Hnin Hnd']; subst. exact (HNd Hnd').
  Qed.
End KeyLoopSound.

(* ------------------------------------------------------------------------------------------ *)
(* single pages *)

Definition mkreq (k : page_key) (o l : N) (ct rv : bool) : page_req :=
  {| pr_key := k; pr_offset := o; pr_limit := l; pr_count_total := ct; pr_reverse := rv |}.

(* the order in which the (un-keyed) iterator runs through the store *)
Definition full_seq {V} (items : list (N * V)) (reverse : bool) : list (N * V) :=
  if reverse then rev items else items.

Section Pages.
  Context {V : Type}.
  Variable flt : N -> V -> bool.
  Variable items : list (N * V).
  Notation Fl := (filter (hit flt)).

  Lemma iter_seq_none : forall reverse, iter_seq items None reverse = Ok (full_seq items reverse).
  Proof. intros [|]; reflexivity. Qed.

  Lemma full_seq_length : forall reverse, length (full_seq items reverse) = length items.
  Proof. intros [|]; [apply rev_length | reflexivity]. Qed.

  Lemma eff_limit_pos : forall k o l ct rv, 1 <= l -> eff_limit (mkreq k o l ct rv) = l /\ eff_count_total (mkreq k o l ct rv) = ct.
  Proof.
    intros k o l ct rv Hl. unfold eff_limit, eff_count_total, mkreq. cbn [pr_limit pr_count_total].
    replace (l =? 0) with false by (symmetry; apply N.eqb_neq; lia). split; reflexivity.
  Qed.

  (* offset mode away from the uint64 boundary *)
  Lemma offset_page_spec : forall reverse o l ct,
    1 <= l -> o + l + 1 < two64N -> N.of_nat (length items) < two64N ->
    filtered_paginate items flt (mkreq KeyNil o l ct reverse) =
    Ok {| res_items := skipn (N.to_nat o) (firstn (N.to_nat (o + l)) (Fl (full_seq items reverse)));
          res_next_key := option_map fst (nth_error (Fl (full_seq items reverse)) (N.to_nat (o + l)));
          res_total := if ct then N.of_nat (length (Fl (full_seq items reverse))) else 0 |}.
  Proof.
    intros reverse o l ct Hl Hol Hlen.
    destruct (eff_limit_pos KeyNil o l ct reverse Hl) as [Hel Hect].
    unfold filtered_paginate. rewrite Hel, Hect.
    unfold mkreq. cbn [pr_key pr_offset pr_reverse].
    rewrite andb_false_r. rewrite iter_seq_none. cbn [obind].
    rewrite (u64_small (o + l)) by lia. rewrite (u64_small (o + l + 1)) by lia.
    destruct (offset_loop flt o (o + l) (o + l + 1) ct (full_seq items reverse) 0 None)
      as [[its nk] n] eqn:Hloop.
    assert (Hb : 0 + N.of_nat (length (full_seq items reverse)) < two64N)
      by (rewrite full_seq_length; lia).
    destruct (offset_loop_spec flt o (o + l) ct _ 0 its nk n ltac:(lia) Hb Hloop) as [Hits Hnk].
    repeat rewrite N.sub_0_r in Hits. repeat rewrite N.sub_0_r in Hnk. rewrite Hits, Hnk.
    destruct ct.
    - rewrite (offset_loop_total flt _ _ _ _ _ _ _ _ _ Hb Hloop). rewrite N.add_0_l. reflexivity.
    - reflexivity.
  Qed.

  (* key mode *)
  Lemma key_page_spec : forall reverse k l ct seq,
    1 <= l -> l < two64N -> iter_seq items (Some k) reverse = Ok seq ->
    exists pre post,
      seq = pre ++ post /\
      filtered_paginate items flt (mkreq (KeyAt k) 0 l ct reverse) =
        Ok {| res_items := Fl pre; res_next_key := option_map fst (hd_error post); res_total := 0 |} /\
      (seq <> [] -> pre <> []).
  Proof.
    intros reverse k l ct seq Hl Hl64 Hseq.
    destruct (eff_limit_pos (KeyAt k) 0 l ct reverse Hl) as [Hel _].
    destruct (key_loop_spec flt l Hl64 seq 0 ltac:(lia)) as (pre & post & Hsp & Hkl & Hne & _).
    exists pre, post. split; [exact Hsp|]. split.
    - unfold filtered_paginate. rewrite Hel. unfold mkreq. cbn [pr_key pr_offset pr_reverse].
      cbn [N.ltb N.compare andb]. rewrite Hseq. cbn [obind]. rewrite Hkl. reflexivity.
    - apply Hne. lia.
  Qed.

  (* ---- any request whatsoever: soundness of a single page ---- *)
  Lemma page_sound : forall req r,
    filtered_paginate items flt req = Ok r ->
    (forall x, In x (res_items r) -> In x items /\ hit flt x = true) /\
    (NoDup items -> NoDup (res_items r)) /\
    (pr_offset req < two64N -> pr_limit req < two64N -> N.of_nat (length items) < two64N ->
     (length (res_items r) <= N.to_nat (eff_limit req))%nat).
  Proof.
    intros req r H. unfold filtered_paginate in H.
    destruct ((0 <? pr_offset req) && match pr_key req with KeyNil => false | _ => true end);
      [discriminate|].
    assert (Hefl : pr_limit req < two64N -> eff_limit req < two64N).
    { unfold eff_limit. destruct (pr_limit req =? 0); [intros _; exact default_limit_lt | auto]. }
    assert (Hoff : forall seq, iter_seq items None (pr_reverse req) = Ok seq ->
      (let end_ := u64 (pr_offset req + eff_limit req) in
       let '(its, nk, n) := offset_loop flt (pr_offset req) end_ (u64 (end_ + 1)) (eff_count_total req) seq 0 None in
       Ok {| res_items := its; res_next_key := nk; res_total := if eff_count_total req then n else 0 |}) = Ok r ->
      (forall x, In x (res_items r) -> In x items /\ hit flt x = true) /\
      (NoDup items -> NoDup (res_items r)) /\
      (pr_offset req < two64N -> pr_limit req < two64N -> N.of_nat (length items) < two64N ->
       (length (res_items r) <= N.to_nat (eff_limit req))%nat)).
    { intros seq Hseq H0. cbv zeta in H0.
      destruct (offset_loop flt (pr_offset req) (u64 (pr_offset req + eff_limit req))
                  (u64 (u64 (pr_offset req + eff_limit req) + 1)) (eff_count_total req) seq 0 None)
        as [[its nk] n] eqn:Hloop.
      injection H0 as <-. cbn [res_items].
      destruct (iter_seq_sound items None (pr_reverse req) seq Hseq) as (HsIn & HsNd & HsLen).
      destruct (offset_loop_sound flt _ _ _ _ _ _ _ _ _ _ Hloop) as [HIn HNd].
      split; [|split].
      - intros x Hx. destruct (HIn x Hx) as [H1 H2]. split; [exact (HsIn x H1)|exact H2].
      - intros Hnd. exact (HNd (HsNd Hnd)).
      - intros Ho Hl Hlen.
        assert (Hb : 0 + N.of_nat (length seq) < two64N) by lia.
        pose proof (offset_loop_length flt _ _ _ _ _ _ _ _ _ _ Hb Hloop) as Hlen'.
        destruct (u64_add_cases (pr_offset req) (eff_limit req) Ho (Hefl Hl)) as [[_ He]|[_ He]]; lia. }
    destruct (pr_key req) as [| |k].
    - destruct (iter_seq items None (pr_reverse req)) as [seq| |] eqn:Hseq; cbn [obind] in H; try discriminate.
      exact (Hoff seq eq_refl H).
    - destruct (iter_seq items None (pr_reverse req)) as [seq| |] eqn:Hseq; cbn [obind] in H; try discriminate.
      exact (Hoff seq eq_refl H).
    - destruct (iter_seq items (Some k) (pr_reverse req)) as [seq| |] eqn:Hseq; cbn [obind] in H; try discriminate.
      destruct (key_loop flt (eff_limit req) seq 0) as [its nk] eqn:Hloop.
      injection H as <-. cbn [res_items].
      destruct (iter_seq_sound items (Some k) (pr_reverse req) seq Hseq) as (HsIn & HsNd & HsLen).
      destruct (key_loop_sound flt _ _ _ _ _ Hloop) as [HIn HNd].
      split; [|split].
      + intros x Hx. destruct (HIn x Hx) as [H1 H2]. split; [exact (HsIn x H1)|exact H2].
      + intros Hnd. exact (HNd (HsNd Hnd)).
      + intros Ho Hl Hlen.
        destruct (key_loop_spec flt (eff_limit req) (Hefl Hl) seq 0 ltac:(lia))
          as (pre & post & _ & Hkl & _ & Hlen').
        rewrite Hkl in Hloop. injection Hloop as <- _. lia.
  Qed.

  (* ---- Total ---- *)
  Lemma page_total : forall req r,
    (match pr_key req with KeyAt _ => False | _ => True end) ->
    eff_count_total req = true ->
    N.of_nat (length items) < two64N ->
    filtered_paginate items flt req = Ok r ->
    res_total r = N.of_nat (length (Fl items)).
  Proof.
    intros req r Hk Hct Hlen H. unfold filtered_paginate in H.
    destruct ((0 <? pr_offset req) && match pr_key req with KeyNil => false | _ => true end);
      [discriminate|].
    assert (Hoff :
      (do seq <- iter_seq items None (pr_reverse req);
       let end_ := u64 (pr_offset req + eff_limit req) in
       let '(its, nk, n) := offset_loop flt (pr_offset req) end_ (u64 (end_ + 1)) (eff_count_total req) seq 0 None in
       Ok {| res_items := its; res_next_key := nk; res_total := if eff_count_total req then n else 0 |}) = Ok r ->
      res_total r = N.of_nat (length (Fl items))).
    { rewrite iter_seq_none. cbn [obind]. cbv zeta. rewrite Hct. intros H0.
      destruct (offset_loop flt (pr_offset req) (u64 (pr_offset req + eff_limit req))
                  (u64 (u64 (pr_offset req + eff_limit req) + 1)) true (full_seq items (pr_reverse req)) 0 None)
        as [[its nk] n] eqn:Hloop.
      injection H0 as <-. cbn [res_total].
      assert (Hb : 0 + N.of_nat (length (full_seq items (pr_reverse req))) < two64N)
        by (rewrite full_seq_length; lia).
      rewrite (offset_loop_total flt _ _ _ _ _ _ _ _ _ Hb Hloop). rewrite N.add_0_l.
      unfold full_seq. destruct (pr_reverse req); [|reflexivity].
      rewrite filter_rev', rev_length. reflexivity. }
    destruct (pr_key req); [exact (Hoff H) | exact (Hoff H) | contradiction].
  Qed.
End Pages.

(* ------------------------------------------------------------------------------------------ *)
(* clients paging to the end *)

Section Drivers.
  Context {V : Type}.
  Variable flt : N -> V -> bool.
  Variable items : list (N * V).
  Variable reverse : bool.
  Variable l : N.
  Hypothesis Hl : 1 <= l.
  Notation Fl := (filter (hit flt)).
  Let F := Fl (full_seq items reverse).

  Lemma F_length_le : (length F <= length items)%nat.
  Proof.
    unfold F. etransitivity; [apply filter_length_le'|]. rewrite full_seq_length. lia.
  Qed.

  (* ---- by offset ---- *)
  Lemma follow_offsets_spec :
    N.of_nat (length items) + l + 1 < two64N ->
    forall fuel o, (N.to_nat o <= length F)%nat -> (length F - N.to_nat o < fuel)%nat ->
    follow_offsets fuel items flt l reverse o = skipn (N.to_nat o) F.
  Proof.
    intros Hb. pose proof F_length_le as HF.
    induction fuel as [|fuel IH]; intros o Ho Hf; [lia|].
    cbn [follow_offsets].
    pose proof (offset_page_spec flt items reverse o l false Hl ltac:(lia) ltac:(lia)) as Hp.
    unfold mkreq in Hp. rewrite Hp. clear Hp. cbn [res_items res_next_key]. fold F.
    destruct (nth_error F (N.to_nat (o + l))) as [y|] eqn:Hn; cbn [option_map].
    - assert (Hlt : (N.to_nat (o + l) < length F)%nat) by (apply nth_error_Some; congruence).
      rewrite u64_small by lia. rewrite IH by lia.
      apply skipn_firstn_glue; lia.
    - apply nth_error_None in Hn. rewrite firstn_all2 by lia. rewrite app_nil_r. reflexivity.
  Qed.

  Theorem follow_offsets_all : forall fuel,
    N.of_nat (length items) + l + 1 < two64N -> (length items + 1 <= fuel)%nat ->
    follow_offsets fuel items flt l reverse 0 = F.
  Proof.
    intros fuel Hb Hfuel. pose proof F_length_le as HF.
    rewrite follow_offsets_spec by (try exact Hb; lia). reflexivity.
  Qed.

  (* ---- by key ---- *)
  Hypothesis Hl64 : l < two64N.
  (* getIterator started at the key of a stored item that is not the first of the run yields the
     run from that item on *)
  Hypothesis Hiter : forall a y b, full_seq items reverse = a ++ y :: b -> a <> [] ->
    iter_seq items (Some (fst y)) reverse = Ok (y :: b).

  Lemma follow_keys_chain : forall fuel a y b,
    full_seq items reverse = a ++ y :: b -> a <> [] -> (length (y :: b) <= fuel)%nat ->
    follow_keys fuel items flt l reverse (KeyAt (fst y)) = Fl (y :: b).
  Proof.
    induction fuel as [|fuel IH]; intros a y b Hfull Ha Hfuel; [cbn [length] in Hfuel; lia|].
    cbn [follow_keys].
    destruct (key_page_spec flt items reverse (fst y) l false (y :: b) Hl Hl64 (Hiter a y b Hfull Ha))
      as (pre & post & Hsp & Hp & Hne).
    unfold mkreq in Hp. rewrite Hp. clear Hp. cbn [res_items res_next_key].
    specialize (Hne ltac:(discriminate)).
    destruct post as [|y' b']; cbn [hd_error option_map].
    - rewrite app_nil_r in Hsp |- *. rewrite Hsp. reflexivity.
    - rewrite (IH (a ++ pre) y' b').
      + rewrite Hsp, filter_app. reflexivity.
      + rewrite Hfull, Hsp, <- app_assoc. reflexivity.
      + intros Hnil. apply app_eq_nil in Hnil. exact (Ha (proj1 Hnil)).
      + assert (Hlen : length (y :: b) = (length pre + length (y' :: b'))%nat)
          by (rewrite Hsp, app_length; reflexivity).
        destruct pre; [contradiction|]. cbn [length] in Hlen, Hfuel |- *. lia.
  Qed.

  Theorem follow_keys_all : forall fuel,
    l + 1 < two64N -> N.of_nat (length items) < two64N -> (length items + 1 <= fuel)%nat ->
    follow_keys fuel items flt l reverse KeyNil = F.
  Proof.
    intros fuel Hl1 Hlen Hfuel. destruct fuel as [|fuel]; [lia|].
    cbn [follow_keys].
    pose proof (offset_page_spec flt items reverse 0 l false Hl ltac:(lia) Hlen) as Hp.
    unfold mkreq in Hp. rewrite Hp. clear Hp. cbn [res_items res_next_key].
    rewrite N.add_0_l. change (N.to_nat 0) with O. cbn [skipn]. fold F.
    destruct (nth_error F (N.to_nat l)) as [y|] eqn:Hn; cbn [option_map].
    - destruct (filter_nth_split _ _ _ _ Hn) as (a & b & Hfull & Hfa & Hla).
      rewrite (follow_keys_chain fuel a y b Hfull).
      + unfold F. rewrite <- Hfa. rewrite Hfull, filter_app. reflexivity.
      + intros ->. cbn [filter length] in Hla. lia.
      + assert (Hlen' : length (full_seq items reverse) = (length a + length (y :: b))%nat)
          by (rewrite Hfull, app_length; reflexivity).
        rewrite full_seq_length in Hlen'.
        assert (Ha : (1 <= length a)%nat).
        { pose proof (filter_length_le' (hit flt) a). lia. }
        lia.
    - apply nth_error_None in Hn. rewrite firstn_all2 by lia. rewrite app_nil_r. reflexivity.
  Qed.
End Drivers.

(* the iterator hypothesis holds for a store with strictly increasing keys, in both directions *)
Section IterAtKey.
  Context {V : Type}.
  Variable items : list (N * V).
  Hypothesis Hs : keys_sorted items.

  Lemma iter_at_key_fwd : forall a y b, full_seq items false = a ++ y :: b -> a <> [] ->
    iter_seq items (Some (fst y)) false = Ok (y :: b).
  Proof.
    intros a y b Hfull _. cbn [full_seq] in Hfull. unfold iter_seq.
    rewrite Hfull in Hs |- *. rewrite (drop_lt_at a y b Hs). reflexivity.
  Qed.

  Lemma iter_at_key_rev : forall a y b, full_seq items true = a ++ y :: b -> a <> [] ->
    iter_seq items (Some (fst y)) true = Ok (y :: b).
  Proof.
    intros a y b Hfull Ha. cbn [full_seq] in Hfull.
    destruct (exists_last Ha) as (a' & z & ->).
    assert (Hitems : items = rev b ++ y :: z :: rev a').
    { rewrite <- (rev_involutive items), Hfull.
      rewrite rev_app_distr. cbn [rev]. rewrite rev_app_distr. cbn [rev app].
      rewrite <- !app_assoc. reflexivity. }
    unfold iter_seq. rewrite Hitems in Hs |- *.
    rewrite (drop_lt_at (rev b) y (z :: rev a') Hs).
    replace (rev b ++ y :: z :: rev a') with ((rev b ++ [y]) ++ z :: rev a') in Hs |- *
      by (rewrite <- app_assoc; reflexivity).
    cbn [fst]. rewrite (take_lt_at (rev b ++ [y]) z (rev a') Hs).
    rewrite rev_app_distr, rev_involutive. reflexivity.
  Qed.
End IterAtKey.

(* ------------------------------------------------------------------------------------------ *)
(* headline statements *)

Section Headlines.
  Context {V : Type}.
  Variable items : list (N * V).
  Variable flt : N -> V -> bool.
  Notation matching := (filter (fun kv => flt (fst kv) (snd kv))).

  Theorem key_pages_partition : forall limit fuel,
    keys_sorted items -> 1 <= limit -> limit + 1 < two64N -> N.of_nat (length items) < two64N ->
    (length items + 1 <= fuel)%nat ->
    all_pages_by_key fuel items flt limit = matching items.
  Proof.
    intros limit fuel Hs Hl Hl1 Hlen Hfuel. unfold all_pages_by_key.
    rewrite (follow_keys_all flt items false limit Hl ltac:(lia) (iter_at_key_fwd items Hs) fuel Hl1 Hlen Hfuel).
    reflexivity.
  Qed.

  Theorem key_pages_partition_rev : forall limit fuel,
    keys_sorted items -> 1 <= limit -> limit + 1 < two64N -> N.of_nat (length items) < two64N ->
    (length items + 1 <= fuel)%nat ->
    all_pages_by_key_rev fuel items flt limit = rev (matching items).
  Proof.
    intros limit fuel Hs Hl Hl1 Hlen Hfuel. unfold all_pages_by_key_rev.
    rewrite (follow_keys_all flt items true limit Hl ltac:(lia) (iter_at_key_rev items Hs) fuel Hl1 Hlen Hfuel).
    cbn [full_seq]. apply filter_rev'.
  Qed.

  Theorem offset_pages_partition : forall limit fuel,
    1 <= limit -> N.of_nat (length items) + limit + 1 < two64N ->
    (length items + 1 <= fuel)%nat ->
    all_pages_by_offset fuel items flt limit = matching items.
  Proof.
    intros limit fuel Hl Hb Hfuel. unfold all_pages_by_offset.
    rewrite (follow_offsets_all flt items false limit Hl fuel Hb Hfuel). reflexivity.
  Qed.

  Theorem offset_pages_partition_rev : forall limit fuel,
    1 <= limit -> N.of_nat (length items) + limit + 1 < two64N ->
    (length items + 1 <= fuel)%nat ->
    all_pages_by_offset_rev fuel items flt limit = rev (matching items).
  Proof.
    intros limit fuel Hl Hb Hfuel. unfold all_pages_by_offset_rev.
    rewrite (follow_offsets_all flt items true limit Hl fuel Hb Hfuel).
    cbn [full_seq]. apply filter_rev'.
  Qed.

  Theorem single_page_sound : forall req r,
    keys_sorted items ->
    filtered_paginate items flt req = Ok r ->
    (forall x, In x (res_items r) -> In x items /\ flt (fst x) (snd x) = true) /\
    NoDup (res_items r) /\
    (pr_offset req < two64N -> pr_limit req < two64N -> N.of_nat (length items) < two64N ->
     (length (res_items r) <= N.to_nat (eff_limit req))%nat).
  Proof.
    intros req r Hs H. destruct (page_sound flt items req r H) as (H1 & H2 & H3).
    split; [exact H1|]. split; [exact (H2 (sorted_NoDup items Hs))|exact H3].
  Qed.

  Theorem total_count : forall req r,
    (match pr_key req with KeyAt _ => False | _ => True end) ->
    (pr_count_total req = true \/ pr_limit req = 0) ->
    N.of_nat (length items) < two64N ->
    filtered_paginate items flt req = Ok r ->
    res_total r = N.of_nat (length (matching items)).
  Proof.
    intros req r Hk Hct Hlen H.
    apply (page_total flt items req r Hk); [|exact Hlen|exact H].
    unfold eff_count_total. destruct Hct as [Hct|Hct].
    - rewrite Hct. destruct (pr_limit req =? 0); reflexivity.
    - rewrite Hct. reflexivity.
  Qed.
End Headlines.

(* ------------------------------------------------------------------------------------------ *)
(* observations at the edges *)

Definition max_u64 : N := 18446744073709551615.    (* query.MaxLimit = math.MaxUint64 *)

(* OBSERVATION 1 (end+1 wraps to 0).  With limit = MaxUint64 ("MaxLimit is the maximum limit the
   paginate function can handle") and offset 0, end = 2^64-1 and end+1 = 0, so "numHits == end+1"
   holds as soon as the first visited item does NOT match: the loop breaks there (CountTotal unset),
   the page is empty and NextKey is the first key of the store, although matching items exist.
   A client paging by offset then stops at the second request (offset+limit wrapped) with nothing;
   a client paging by key recovers, because key mode does no arithmetic on limit. *)
Lemma obs_limit_wrap :
  exists (items : list (N * N)) (flt : N -> N -> bool) (limit : N),
    keys_sorted items /\ 1 <= limit /\ limit < two64N /\
    filter (fun kv => flt (fst kv) (snd kv)) items = [(2, 1); (3, 1)] /\
    filtered_paginate items flt (mkreq KeyNil 0 limit false false)
      = Ok {| res_items := []; res_next_key := Some 1; res_total := 0 |} /\
    all_pages_by_offset (length items + 1) items flt limit = [] /\
    all_pages_by_key (length items + 1) items flt limit = [(2, 1); (3, 1)].
Proof.
  exists [(1, 0); (2, 1); (3, 1)], (fun _ v => v =? 1), max_u64.
  split; [|split; [|split; [|split; [|split; [|split]]]]].
  - unfold keys_sorted. cbn [map fst]. repeat constructor.
  - vm_compute. discriminate.
  - vm_compute. reflexivity.
  - vm_compute. reflexivity.
  - vm_compute. reflexivity.
  - vm_compute. reflexivity.
  - vm_compute. reflexivity.
Qed.

(* OBSERVATION 2 (offset+limit wraps).  offset = 2^64-1, limit = 2: end = 1, nothing is ever
   accumulated, NextKey is the key of the 2nd matching item. *)
Lemma obs_offset_wrap :
  exists (items : list (N * N)) (flt : N -> N -> bool),
    keys_sorted items /\
    filtered_paginate items flt (mkreq KeyNil max_u64 2 false false)
      = Ok {| res_items := []; res_next_key := Some 3; res_total := 0 |}.
Proof.
  exists [(1, 0); (2, 1); (3, 1)], (fun _ v => v =? 1). split.
  - unfold keys_sorted. cbn [map fst]. repeat constructor.
  - vm_compute. reflexivity.
Qed.

(* OBSERVATION 3 (reverse + key = the greatest stored key panics inside getIterator), for every
   non-empty store, filter, limit and count_total. *)
Lemma reverse_last_key_panics : forall {V} (p : list (N * V)) (x : N * V) flt l ct,
  keys_sorted (p ++ [x]) ->
  filtered_paginate (p ++ [x]) flt (mkreq (KeyAt (fst x)) 0 l ct true) = Panic pg_panic_iter.
Proof.
  intros V p x flt l ct Hs. unfold filtered_paginate, mkreq. cbn [pr_key pr_offset pr_reverse].
  cbn [N.ltb N.compare andb]. unfold iter_seq. rewrite (drop_lt_at p x [] Hs). reflexivity.
Qed.
