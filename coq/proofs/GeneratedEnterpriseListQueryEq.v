(* x/enterprise EnterpriseUndPurchaseOrders: the FilteredPaginate callback generated from the Go source
   (GeneratedEnterpriseKeeper.go_EnterpriseUndPurchaseOrders_callback) is "append iff filter &&
   accumulate, report filter" for the specification filter [ent_po_flt] (model/QueryFilterSpec.v), on
   every input (the callback makes no bech32 check, it never fails); hence the SDK loop driven by it is
   the hand-written pagination model with that filter, and C20 holds of its pages. *)
From MC Require Import lib.Prelude lib.GoSdk GeneratedEnterpriseTypes model.EnterpriseKeeperPrims GeneratedEnterpriseKeeper.
From MC Require Import model.Paginate model.PaginateCallback model.QueryFilterSpec proofs.PaginateProofs proofs.PaginateCallbackEq.
From Coq Require Import NArith Sorted.
Local Open Scope Z_scope.

Theorem ent_callback_law : forall req po acc xs,
  go_EnterpriseUndPurchaseOrders_callback req po acc xs =
  Ok (if ent_po_flt req po && acc then xs ++ [po] else xs, ent_po_flt req po).
Proof.
  intros req po acc xs.
  unfold go_EnterpriseUndPurchaseOrders_callback, ent_po_flt, AddrStr_EqualFold, go_append.
  destruct (QueryEnterpriseUndPurchaseOrdersRequest_Status req =? 0);
    destruct (EnterpriseUndPurchaseOrder_Status po =? QueryEnterpriseUndPurchaseOrdersRequest_Status req);
    destruct (QueryEnterpriseUndPurchaseOrdersRequest_Purchaser req =? go_zero_addr);
    destruct (EnterpriseUndPurchaseOrder_Purchaser po =? QueryEnterpriseUndPurchaseOrdersRequest_Purchaser req);
    destruct acc; reflexivity.
Qed.

Theorem ent_callback_filter_append : forall req,
  filter_append_cb (go_EnterpriseUndPurchaseOrders_callback req) (ent_po_flt req).
Proof. intros req v acc xs. apply ent_callback_law. Qed.

(* ---- FilteredPaginate driven by the generated callback = the model with the spec filter ---- *)
Local Open Scope N_scope.
Local Notation length := List.length.

Theorem ent_query_is_model : forall (items : list (N * go_EnterpriseUndPurchaseOrder)) req preq,
  list_query_cb items (go_EnterpriseUndPurchaseOrders_callback req) preq =
  omap page_of_model (filtered_paginate items (fun _ po => ent_po_flt req po) preq).
Proof. intros. apply (list_query_cb_eq _ _ (ent_callback_filter_append req)). Qed.

Theorem ent_query_from_is_model : forall (items : list (N * go_EnterpriseUndPurchaseOrder)) req preq st0,
  filtered_paginate_cb items (go_EnterpriseUndPurchaseOrders_callback req) preq st0 =
  omap (fun r => {| cres_state := st0 ++ map snd (res_items r);
                    cres_next_key := res_next_key r; cres_total := res_total r |})
       (filtered_paginate items (fun _ po => ent_po_flt req po) preq).
Proof. intros. apply (filtered_paginate_cb_eq_from _ _ (ent_callback_filter_append req)). Qed.

(* ---- C20 for the pages the handler produces with the generated callback ---- *)
Theorem ent_key_pages_partition : forall (items : list (N * go_EnterpriseUndPurchaseOrder)) req (limit : N) (fuel : nat),
  Sorted N.lt (map fst items) ->
  1 <= limit -> limit + 1 < two64N -> N.of_nat (length items) < two64N ->
  (length items + 1 <= fuel)%nat ->
  all_pages_by_key_cb fuel items (go_EnterpriseUndPurchaseOrders_callback req) limit = filter (ent_po_flt req) (map snd items).
Proof. intros items req. apply (cb_key_pages_partition _ _ (ent_callback_filter_append req)). Qed.

Theorem ent_offset_pages_partition : forall (items : list (N * go_EnterpriseUndPurchaseOrder)) req (limit : N) (fuel : nat),
  1 <= limit -> N.of_nat (length items) + limit + 1 < two64N ->
  (length items + 1 <= fuel)%nat ->
  all_pages_by_offset_cb fuel items (go_EnterpriseUndPurchaseOrders_callback req) limit = filter (ent_po_flt req) (map snd items).
Proof. intros items req. apply (cb_offset_pages_partition _ _ (ent_callback_filter_append req)). Qed.

Theorem ent_key_pages_partition_rev : forall (items : list (N * go_EnterpriseUndPurchaseOrder)) req (limit : N) (fuel : nat),
  Sorted N.lt (map fst items) ->
  1 <= limit -> limit + 1 < two64N -> N.of_nat (length items) < two64N ->
  (length items + 1 <= fuel)%nat ->
  all_pages_by_key_rev_cb fuel items (go_EnterpriseUndPurchaseOrders_callback req) limit = rev (filter (ent_po_flt req) (map snd items)).
Proof. intros items req. apply (cb_key_pages_partition_rev _ _ (ent_callback_filter_append req)). Qed.

Theorem ent_offset_pages_partition_rev : forall (items : list (N * go_EnterpriseUndPurchaseOrder)) req (limit : N) (fuel : nat),
  1 <= limit -> N.of_nat (length items) + limit + 1 < two64N ->
  (length items + 1 <= fuel)%nat ->
  all_pages_by_offset_rev_cb fuel items (go_EnterpriseUndPurchaseOrders_callback req) limit = rev (filter (ent_po_flt req) (map snd items)).
Proof. intros items req. apply (cb_offset_pages_partition_rev _ _ (ent_callback_filter_append req)). Qed.

Theorem ent_single_page_sound : forall (items : list (N * go_EnterpriseUndPurchaseOrder)) req (preq : page_req) r,
  Sorted N.lt (map fst items) ->
  list_query_cb items (go_EnterpriseUndPurchaseOrders_callback req) preq = Ok r ->
  exists its : list (N * go_EnterpriseUndPurchaseOrder),
    cres_state r = map snd its /\
    (forall x, In x its -> In x items /\ ent_po_flt req (snd x) = true) /\
    NoDup its /\
    (pr_offset preq < two64N -> pr_limit preq < two64N -> N.of_nat (length items) < two64N ->
     (length (cres_state r) <= N.to_nat (eff_limit preq))%nat).
Proof. intros items req. apply (cb_single_page_sound _ _ (ent_callback_filter_append req)). Qed.

Theorem ent_total_count : forall (items : list (N * go_EnterpriseUndPurchaseOrder)) req (preq : page_req) r,
  (match pr_key preq with KeyAt _ => False | _ => True end) ->
  (pr_count_total preq = true \/ pr_limit preq = 0) ->
  N.of_nat (length items) < two64N ->
  list_query_cb items (go_EnterpriseUndPurchaseOrders_callback req) preq = Ok r ->
  cres_total r = N.of_nat (length (filter (ent_po_flt req) (map snd items))).
Proof. intros items req. apply (cb_total_count _ _ (ent_callback_filter_append req)). Qed.
