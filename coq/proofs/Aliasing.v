(* Aliasing sites (DESIGN 0.5, "value semantics of the translation").

   The translator renders Go slices, maps and messages as immutable Gallina values, so a defect that lives in ALIASING
   cannot be seen by the theorems about the translated code: an [append] onto a sub-slice overwrites the tail of the array
   the sub-slice was cut from; a write ([copy], [binary.*.PutUint*], an indexed assignment) into bytes that were not
   allocated in the same function may land in bytes owned by the store cache ([store.Get] returns them unshared with
   nobody: every cache layer and the IAVL node cache hold the same array), which changes what a node remembers outside
   any committed write (C01); a decorator or a ValidateBasic that assigns to a field of the message it was handed changes
   what DeliverTx executes and what is stored, away from what was signed (C06, C08, C09).

   [aliasing_sites] (regenerated from /repo on every run by translator/goalias.go) lists every such construct in the
   packages on the consensus path: app, ante, types, x/<module>{,/keeper,/ante,/exported,/types}.  The list is PINNED here
   to the sites that were reviewed by hand and found harmless (below); a new site breaks the obligation. *)
From Coq Require Import String List Bool.
From MC Require Import Generated.
Import ListNotations.
Local Open Scope string_scope.

(* reviewed: the two prepend helpers shift a slice they have just grown by append (x = append(x, y); copy(x[1:], x);
   x[0] = y) - the slice is the export listing being built, never store bytes; [pd.want] is a field of a helper struct
   allocated in the decorator (a map of *b{max, want}), not of a message; [sdr], [genesisState], [supplyCoins] are a
   registry map, a test helper's map and the page of coins the supply query rewrites in place (its own copy). *)
Definition aliasing_sites_reviewed : list string :=
  ["app/test_helpers.go: convertGenesisStateToNund: index-write genesisState";
   "app/test_helpers.go: convertGenesisStateToNund: index-write genesisState";
   "app/test_helpers.go: convertGenesisStateToNund: index-write genesisState";
   "x/beacon/ante/ante.go: checkBeaconMaxSlots: field-write pd.want";
   "x/beacon/keeper/record.go: prependTimestamp: index-write x";
   "x/beacon/keeper/record.go: prependTimestamp: write-into-foreign-bytes x[1:]";
   "x/beacon/module.go: AppModule.RegisterStoreDecoder: index-write sdr";
   "x/enterprise/keeper/locked.go: Keeper.GetTotalSupplyWithLockedNundRemoved: index-write supplyCoins";
   "x/enterprise/module.go: AppModule.RegisterStoreDecoder: index-write sdr";
   "x/stream/module_simulation.go: AppModule.RegisterStoreDecoder: index-write sdr";
   "x/wrkchain/ante/ante.go: checkWrkChainMaxSlots: field-write pd.want";
   "x/wrkchain/keeper/record.go: prependBlock: index-write x";
   "x/wrkchain/keeper/record.go: prependBlock: write-into-foreign-bytes x[1:]";
   "x/wrkchain/module.go: AppModule.RegisterStoreDecoder: index-write sdr"].

Theorem aliasing_sites_pinned : aliasing_sites = aliasing_sites_reviewed.
Proof. vm_compute. reflexivity. Qed.

Fixpoint str_has (needle hay : string) : bool :=
  match hay with
  | EmptyString => match needle with EmptyString => true | _ => false end
  | String _ rest => if prefix needle hay then true else str_has needle rest
  end.

Definition sites_of (kind : string) : list string := filter (str_has kind) aliasing_sites.

(* no append onto a sub-slice anywhere on the consensus path *)
Theorem no_append_onto_subslice : sites_of ": append-onto-subslice " = [].
Proof. vm_compute. reflexivity. Qed.

(* bytes not allocated in the same function are written only by the two prepend helpers of the export listings *)
Theorem foreign_byte_writes_only_in_prepend :
  sites_of ": write-into-foreign-bytes " =
  ["x/beacon/keeper/record.go: prependTimestamp: write-into-foreign-bytes x[1:]";
   "x/wrkchain/keeper/record.go: prependBlock: write-into-foreign-bytes x[1:]"].
Proof. vm_compute. reflexivity. Qed.

(* the ante decorators and the exported message classifiers assign to no field except their own tally struct's *)
Theorem ante_field_writes_only_own_tally :
  sites_of ": field-write " =
  ["x/beacon/ante/ante.go: checkBeaconMaxSlots: field-write pd.want";
   "x/wrkchain/ante/ante.go: checkWrkChainMaxSlots: field-write pd.want"].
Proof. vm_compute. reflexivity. Qed.

(* in particular no ValidateBasic / GetSigners / GetSignBytes / Validate method of x/<module>/types assigns to a field *)
Theorem msg_methods_write_no_field :
  filter (str_has "/types/") (sites_of ": field-write ") = [].
Proof. vm_compute. reflexivity. Qed.

(* the detector is not vacuous: it recognises each kind on the spelling the translator emits *)
Example sites_of_recognises :
  map (fun k => length (filter (str_has k)
    ["x/wrkchain/exported/exported.go: FlattenMsgs: append-onto-subslice msgs[:i]";
     "x/wrkchain/types/keys.go: PutWrkChainIDBytes: write-into-foreign-bytes bz";
     "x/wrkchain/ante/ante.go: checkWrkChainMaxSlots: field-write pd.Number";
     "x/wrkchain/types/msgs.go: *MsgRegisterWrkChain.ValidateBasic: field-write msg.Moniker"]))
    [": append-onto-subslice "; ": write-into-foreign-bytes "; ": field-write "; "/types/"] = [1; 1; 2; 2].
Proof. vm_compute. reflexivity. Qed.
