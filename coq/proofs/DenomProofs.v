(* Proofs about the model of ConvertUndDenomination (model/Denom.v): exactness of the
   FUND <-> nund conversion and round trips, at value level and at string level
   (through the real printer [print_N]/[pad9] and the real parser [parse_amount]). *)
From MC Require Import lib.Prelude model.Denom.
From Coq Require Import DecimalString DecimalN DecimalPos DecimalFacts NArith Lia.
From Coq Require Import ZifyN ZifyNat ZifyBool.
Import Decimal.
Open Scope N_scope.

(* ------------------------------------------------------------------ *)
(* powers of ten                                                        *)

Lemma pow10_0 : pow10 0 = 1.
Proof. reflexivity. Qed.

Lemma pow10_S k : pow10 (S k) = 10 * pow10 k.
Proof. unfold pow10. rewrite Nat2N.inj_succ, N.pow_succ_r'. reflexivity. Qed.

Lemma pow10_add a b : pow10 (a + b) = pow10 a * pow10 b.
Proof. unfold pow10. rewrite Nat2N.inj_add, N.pow_add_r. reflexivity. Qed.

Lemma pow10_9 : pow10 9 = 1000000000.
Proof. vm_compute. reflexivity. Qed.

Lemma pow10_nz k : pow10 k <> 0.
Proof. unfold pow10. apply N.pow_nonzero. discriminate. Qed.

Lemma pow10_pos k : 0 < pow10 k.
Proof. apply N.neq_0_lt_0, pow10_nz. Qed.

Lemma pow10_lt_inv a b : pow10 a < pow10 b -> (a < b)%nat.
Proof.
  unfold pow10. intros H.
  apply N.pow_lt_mono_r_iff in H; [lia | reflexivity].
Qed.

Lemma pow10_split f : (f <= 9)%nat -> pow10 f * pow10 (9 - f) = 1000000000.
Proof.
  intros H. rewrite <- pow10_add.
  replace (f + (9 - f))%nat with 9%nat by lia. apply pow10_9.
Qed.

Lemma npf_nz : nund_per_fund <> 0.
Proof. unfold nund_per_fund. discriminate. Qed.

(* ------------------------------------------------------------------ *)
(* the number a [uint] denotes (most significant digit first)           *)

Fixpoint val_acc (d : uint) (acc : N) : N :=
  match d with
  | Nil => acc
  | D0 l => val_acc l (10 * acc)
  | D1 l => val_acc l (1 + 10 * acc)
  | D2 l => val_acc l (2 + 10 * acc)
  | D3 l => val_acc l (3 + 10 * acc)
  | D4 l => val_acc l (4 + 10 * acc)
  | D5 l => val_acc l (5 + 10 * acc)
  | D6 l => val_acc l (6 + 10 * acc)
  | D7 l => val_acc l (7 + 10 * acc)
  | D8 l => val_acc l (8 + 10 * acc)
  | D9 l => val_acc l (9 + 10 * acc)
  end.

Lemma pos_acc_val d : forall acc, Npos (Pos.of_uint_acc d acc) = val_acc d (Npos acc).
Proof.
  induction d; intros acc; cbn [Pos.of_uint_acc val_acc];
    try reflexivity; rewrite IHd; reflexivity.
Qed.

Lemma of_uint_val d : N.of_uint d = val_acc d 0.
Proof.
  unfold N.of_uint.
  induction d; cbn [Pos.of_uint val_acc]; try reflexivity;
    [ exact IHd | rewrite pos_acc_val; reflexivity .. ].
Qed.

Lemma val_acc_split d : forall acc, val_acc d acc = acc * pow10 (nb_digits d) + val_acc d 0.
Proof.
  induction d; intros acc; cbn [val_acc nb_digits];
    [ rewrite pow10_0; ring | .. ];
    rewrite (IHd (_ + 10 * acc)) || rewrite (IHd (10 * acc));
    rewrite (IHd (_ + 10 * 0)) || rewrite (IHd (10 * 0));
    rewrite pow10_S; ring.
Qed.

Lemma val_acc_lt d : val_acc d 0 < pow10 (nb_digits d).
Proof.
  induction d; cbn [val_acc nb_digits];
    [ rewrite pow10_0; reflexivity | .. ];
    rewrite val_acc_split, pow10_S; lia.
Qed.

(* a numeral with k digits denotes a number < 10^k *)
Lemma of_uint_lt d : N.of_uint d < pow10 (nb_digits d).
Proof. rewrite of_uint_val. apply val_acc_lt. Qed.

(* a non-empty numeral with non-zero leading digit and k digits denotes a number >= 10^(k-1) *)
Lemma of_uint_ge d :
  d <> Nil -> (forall d', d <> D0 d') -> pow10 (pred (nb_digits d)) <= N.of_uint d.
Proof.
  intros Hn Hz. rewrite of_uint_val.
  destruct d; [ congruence | exfalso; eapply Hz; reflexivity | .. ];
    cbn [val_acc nb_digits pred]; rewrite val_acc_split; lia.
Qed.

Lemma of_uint_iter_D0 k u : N.of_uint (Nat.iter k D0 u) = N.of_uint u.
Proof.
  induction k; [reflexivity|].
  change (Nat.iter (S k) D0 u) with (D0 (Nat.iter k D0 u)). exact IHk.
Qed.

Lemma to_uint_nonnil n : N.to_uint n <> Nil.
Proof.
  destruct n; [discriminate|]. apply DecimalPos.Unsigned.to_uint_nonnil.
Qed.

Lemma to_uint_unorm n : unorm (N.to_uint n) = N.to_uint n.
Proof.
  rewrite <- DecimalN.Unsigned.to_of, DecimalN.Unsigned.of_to. reflexivity.
Qed.

(* printed naturals below 10^k have at most k digits (k >= 1) *)
Lemma nb_digits_to_uint_le n k :
  (1 <= k)%nat -> n < pow10 k -> (nb_digits (N.to_uint n) <= k)%nat.
Proof.
  intros Hk Hn.
  destruct n as [|p]; [exact Hk|].
  set (d := N.to_uint (N.pos p)).
  assert (Hu : unorm d = d) by apply to_uint_unorm.
  assert (Hnz : d <> zero) by apply DecimalPos.Unsigned.to_uint_nonzero.
  assert (Hh : nzhead d = d).
  { unfold unorm in Hu. destruct (nzhead d) eqn:E; try exact Hu.
    exfalso. apply Hnz. symmetry. exact Hu. }
  assert (Hnil : d <> Nil) by apply to_uint_nonnil.
  assert (Hd0 : forall d', d <> D0 d').
  { intros d' E. apply (nzhead_nonzero d d'). rewrite Hh. exact E. }
  pose proof (of_uint_ge d Hnil Hd0) as Hge.
  unfold d in Hge at 2. rewrite DecimalN.Unsigned.of_to in Hge.
  assert (Hlt : pow10 (pred (nb_digits d)) < pow10 k) by lia.
  apply pow10_lt_inv in Hlt. lia.
Qed.

(* ------------------------------------------------------------------ *)
(* value-level theorems                                                 *)

Lemma to_nund_exact (a : amount) : (frac_len a <= 9)%nat ->
  to_nund a = N.of_uint (am_int a) * 1000000000 + N.of_uint (am_frac a) * pow10 (9 - frac_len a).
Proof.
  intros H. unfold to_nund, rat_num, rat_den, nund_per_fund.
  rewrite <- (pow10_split _ H).
  set (f := frac_len a). set (I := N.of_uint (am_int a)). set (F := N.of_uint (am_frac a)).
  replace ((I * pow10 f + F) * (pow10 f * pow10 (9 - f)))
    with ((I * (pow10 f * pow10 (9 - f)) + F * pow10 (9 - f)) * pow10 f) by ring.
  apply N.div_mul. apply pow10_nz.
Qed.

Lemma to_nund_floor (a : amount) :
  to_nund a * rat_den a <= rat_num a * 1000000000 < (to_nund a + 1) * rat_den a.
Proof.
  unfold to_nund, nund_per_fund.
  set (X := rat_num a * 1000000000). set (D := rat_den a).
  assert (HD : D <> 0) by apply pow10_nz.
  split.
  - rewrite N.mul_comm. apply N.mul_div_le. exact HD.
  - rewrite N.add_1_r, N.mul_comm. apply N.mul_succ_div_gt. exact HD.
Qed.

Lemma float_string9_int n :
  float_string9 n (1 * nund_per_fund) = (n / nund_per_fund, n mod nund_per_fund).
Proof.
  unfold float_string9. rewrite N.mul_1_l. cbv zeta.
  rewrite (N.mod_mul _ _ npf_nz), (N.div_mul _ _ npf_nz).
  destruct (N.leb_spec nund_per_fund (2 * 0)) as [H|H]; [|reflexivity].
  exfalso. unfold nund_per_fund in H. lia.
Qed.

Lemma to_fund_exact (a : amount) : am_frac a = Nil ->
  to_fund a = (N.of_uint (am_int a) / 1000000000, N.of_uint (am_int a) mod 1000000000).
Proof.
  intros H. unfold to_fund, rat_num, rat_den, frac_len. rewrite H.
  cbn [nb_digits]. rewrite pow10_0.
  change (N.of_uint Nil) with 0. rewrite N.mul_1_r, N.add_0_r.
  apply float_string9_int.
Qed.

Lemma float_string9_snd_lt num den : den <> 0 -> snd (float_string9 num den) < nund_per_fund.
Proof.
  intros Hd. unfold float_string9. cbv zeta.
  set (r := num mod den).
  assert (Hr : r < den) by (apply N.mod_lt; exact Hd).
  assert (H1 : r * nund_per_fund / den < nund_per_fund).
  { apply N.div_lt_upper_bound; [exact Hd|].
    apply N.mul_lt_mono_pos_r; [|exact Hr]. unfold nund_per_fund. reflexivity. }
  set (r1 := r * nund_per_fund / den) in *.
  destruct (den <=? 2 * ((r * nund_per_fund) mod den)); [|exact H1].
  destruct (N.leb_spec nund_per_fund (r1 + 1)) as [H|H]; cbn [snd]; lia.
Qed.

Lemma to_fund_snd_lt (a : amount) : snd (to_fund a) < 1000000000.
Proof.
  unfold to_fund. apply float_string9_snd_lt.
  apply N.neq_mul_0. split; [apply pow10_nz | apply npf_nz].
Qed.

(* ------------------------------------------------------------------ *)
(* printer facts                                                        *)

Lemma length_append (s t : string) :
  String.length (s ++ t) = (String.length s + String.length t)%nat.
Proof. induction s; cbn [append String.length plus]; [reflexivity | rewrite IHs; reflexivity]. Qed.

Lemma length_zeros k : String.length (zeros k) = k.
Proof. induction k; cbn [zeros String.length]; [reflexivity | rewrite IHk; reflexivity]. Qed.

Lemma length_sou d : String.length (NilEmpty.string_of_uint d) = nb_digits d.
Proof.
  induction d; cbn [NilEmpty.string_of_uint String.length nb_digits];
    [reflexivity | rewrite IHd; reflexivity ..].
Qed.

Lemma print_N_nilempty n : print_N n = NilEmpty.string_of_uint (N.to_uint n).
Proof.
  unfold print_N, NilZero.string_of_uint.
  pose proof (to_uint_nonnil n) as H.
  destruct (N.to_uint n); [congruence | reflexivity ..].
Qed.

Lemma length_print_N_le n k : (1 <= k)%nat -> n < pow10 k -> (String.length (print_N n) <= k)%nat.
Proof.
  intros Hk Hn. rewrite print_N_nilempty, length_sou. apply nb_digits_to_uint_le; assumption.
Qed.

Lemma pad9_length n : n < 1000000000 -> String.length (pad9 n) = 9%nat.
Proof.
  intros H. unfold pad9. rewrite length_append, length_zeros.
  assert (String.length (print_N n) <= 9)%nat.
  { apply length_print_N_le; [lia | rewrite pow10_9; exact H]. }
  lia.
Qed.

Lemma frac_field_width (a : amount) :
  snd (to_fund a) < 1000000000 /\ String.length (pad9 (snd (to_fund a))) = 9%nat.
Proof.
  split; [apply to_fund_snd_lt | apply pad9_length, to_fund_snd_lt].
Qed.

(* ------------------------------------------------------------------ *)
(* value-level round trip                                               *)

Lemma frac_scaled_lt (a : amount) : (frac_len a <= 9)%nat ->
  N.of_uint (am_frac a) * pow10 (9 - frac_len a) < 1000000000.
Proof.
  intros H. rewrite <- (pow10_split _ H).
  apply N.mul_lt_mono_pos_r; [apply pow10_pos | apply of_uint_lt].
Qed.

Lemma roundtrip_fund (a : amount) : (frac_len a <= 9)%nat ->
  to_fund {| am_int := N.to_uint (to_nund a); am_frac := Nil |}
  = (N.of_uint (am_int a), N.of_uint (am_frac a) * pow10 (9 - frac_len a)).
Proof.
  intros H. rewrite to_fund_exact by reflexivity.
  cbn [am_int]. rewrite DecimalN.Unsigned.of_to, (to_nund_exact a H).
  pose proof (frac_scaled_lt a H) as Hlt.
  set (I := N.of_uint (am_int a)) in *.
  set (F := N.of_uint (am_frac a) * pow10 (9 - frac_len a)) in *.
  f_equal.
  - rewrite N.div_add_l by discriminate. rewrite (N.div_small _ _ Hlt). apply N.add_0_r.
  - rewrite N.add_comm, N.mod_add by discriminate. apply N.mod_small. exact Hlt.
Qed.

(* ------------------------------------------------------------------ *)
(* parser facts                                                         *)

Lemma split_dot_digits d :
  split_dot (NilEmpty.string_of_uint d) = (NilEmpty.string_of_uint d, None).
Proof.
  induction d; cbn [NilEmpty.string_of_uint]; [reflexivity | ..];
    cbn [split_dot]; rewrite IHd; reflexivity.
Qed.

Lemma split_dot_digits_dot d s :
  split_dot (NilEmpty.string_of_uint d ++ String "."%char s) = (NilEmpty.string_of_uint d, Some s).
Proof.
  induction d; cbn [NilEmpty.string_of_uint append]; [reflexivity | ..];
    cbn [split_dot]; rewrite IHd; reflexivity.
Qed.

Lemma has_dot_digits d : has_dot (NilEmpty.string_of_uint d) = false.
Proof.
  induction d; cbn [NilEmpty.string_of_uint]; [reflexivity | ..];
    cbn [has_dot]; exact IHd.
Qed.

(* a printed natural parses back to itself, with empty fractional part *)
Lemma parse_print_N n :
  parse_amount (print_N n) = Some {| am_int := N.to_uint n; am_frac := Nil |}.
Proof.
  rewrite print_N_nilempty. unfold parse_amount.
  rewrite split_dot_digits, NilEmpty.usu.
  pose proof (to_uint_nonnil n) as H.
  destruct (N.to_uint n); [congruence | reflexivity ..].
Qed.

(* the nine-digit numeral printed by [pad9] *)
Definition pad_u (r : N) : uint := Nat.iter (9 - nb_digits (N.to_uint r)) D0 (N.to_uint r).

Lemma sou_iter_D0 k u :
  NilEmpty.string_of_uint (Nat.iter k D0 u) = (zeros k ++ NilEmpty.string_of_uint u)%string.
Proof.
  induction k; [reflexivity|].
  change (Nat.iter (S k) D0 u) with (D0 (Nat.iter k D0 u)).
  cbn [NilEmpty.string_of_uint zeros append]. rewrite IHk. reflexivity.
Qed.

Lemma pad9_pad_u r : pad9 r = NilEmpty.string_of_uint (pad_u r).
Proof.
  unfold pad9, pad_u. rewrite print_N_nilempty, length_sou, sou_iter_D0. reflexivity.
Qed.

Lemma nb_digits_pad_u r : r < 1000000000 -> nb_digits (pad_u r) = 9%nat.
Proof.
  intros H. unfold pad_u. rewrite nb_digits_iter_D0.
  assert (nb_digits (N.to_uint r) <= 9)%nat.
  { apply nb_digits_to_uint_le; [lia | rewrite pow10_9; exact H]. }
  lia.
Qed.

Lemma of_uint_pad_u r : N.of_uint (pad_u r) = r.
Proof. unfold pad_u. rewrite of_uint_iter_D0. apply DecimalN.Unsigned.of_to. Qed.

(* "q.rrrrrrrrr" parses to integer part q and the nine-digit fractional numeral *)
Lemma parse_print_fund q r :
  parse_amount (print_N q ++ "." ++ pad9 r)
  = Some {| am_int := N.to_uint q; am_frac := pad_u r |}.
Proof.
  rewrite print_N_nilempty, pad9_pad_u. unfold parse_amount.
  change ("." ++ NilEmpty.string_of_uint (pad_u r))%string
    with (String "."%char (NilEmpty.string_of_uint (pad_u r))).
  rewrite split_dot_digits_dot, NilEmpty.usu, has_dot_digits, NilEmpty.usu.
  pose proof (to_uint_nonnil q) as H.
  destruct (N.to_uint q); [congruence | reflexivity ..].
Qed.

(* ------------------------------------------------------------------ *)
(* string-level theorems                                                *)

Lemma nund_to_fund_string n :
  convert_num (print_N n) Nund
  = Some (print_N (n / 1000000000) ++ "." ++ pad9 (n mod 1000000000))%string.
Proof.
  unfold convert_num. rewrite parse_print_N.
  rewrite to_fund_exact by reflexivity.
  cbn [am_int]. rewrite DecimalN.Unsigned.of_to. reflexivity.
Qed.

Lemma fund_string_to_nund q r : r < 1000000000 ->
  convert_num (print_N q ++ "." ++ pad9 r) Fund = Some (print_N (q * 1000000000 + r)).
Proof.
  intros Hr. unfold convert_num. rewrite parse_print_fund.
  rewrite to_nund_exact; unfold frac_len; cbn [am_int am_frac];
    rewrite (nb_digits_pad_u _ Hr); [|lia].
  rewrite DecimalN.Unsigned.of_to, of_uint_pad_u.
  change (9 - 9)%nat with 0%nat. rewrite pow10_0, N.mul_1_r. reflexivity.
Qed.

Lemma roundtrip_nund_string n :
  exists s, convert_num (print_N n) Nund = Some s /\ convert_num s Fund = Some (print_N n).
Proof.
  eexists. split; [apply nund_to_fund_string|].
  rewrite fund_string_to_nund by (apply N.mod_lt; discriminate).
  f_equal. f_equal.
  rewrite N.mul_comm. symmetry. apply N.div_mod. discriminate.
Qed.

(* string-level round trip in the other direction: a FUND amount printed with nine
   decimals converts to nund and back to the same string *)
Lemma roundtrip_fund_string q r : r < 1000000000 ->
  exists s, convert_num (print_N q ++ "." ++ pad9 r) Fund = Some s
            /\ convert_num s Nund = Some (print_N q ++ "." ++ pad9 r)%string.
Proof.
  intros Hr. eexists. split; [apply fund_string_to_nund; exact Hr|].
  rewrite nund_to_fund_string.
  rewrite N.div_add_l by discriminate. rewrite (N.div_small _ _ Hr), N.add_0_r.
  rewrite N.add_comm, N.mod_add by discriminate. rewrite (N.mod_small _ _ Hr).
  reflexivity.
Qed.
