(* REFINEMENT: the GENERATED store accessors of x/wrkchain (GeneratedWrkchainStore.v, go_st_*, over the ordered
   byte-keyed store of model/KVStore.v) IMPLEMENT the hand-written primitives of model/RegistryWorld.v +
   model/WrkchainKeeperPrims.v (reg_*, over the abstract registry state [reg_state] of model/Registry.v) the
   keeper-level translation is written against.

   Correspondence (by name and meaning):
     go_st_GetParams                     reg_GetParams
     go_st_SetParams                     reg_SetParams (= reg_store_params o params_of_go)
     go_st_GetParamDenom                 reg_GetParamDenom
     go_st_GetParamDefaultStorageLimit   reg_GetParamDefaultStorageLimit
     go_st_GetParamMaxStorageLimit       reg_GetParamMaxStorageLimit
     go_st_GetParam{Registration,Record,PurchaseStorage}Fee   the rp_fee_* field the reg_Get*FeeAsCoin primitives wrap
     go_st_GetHighestWrkChainID          reg_GetHighestID
     go_st_SetHighestWrkChainID          reg_SetHighestID
     go_st_IsWrkChainRegistered          reg_IsRegistered
     go_st_GetWrkChain                   reg_GetEntity
     go_st_SetWrkChain                   reg_SetEntity (= reg_put_entity o of_go_entity)
     go_st_GetAllWrkChains / IterateWrkChains      reg_GetAllEntities
     go_st_HasWrkChainStorageLimit       ahas id (r_limits ..)
     go_st_GetWrkChainStorageLimit       reg_GetStorageLimit
     go_st_SetWrkChainStorageLimit       reg_SetStorageLimit
     go_st_SetWrkChainBlock              reg_SetRecord (= reg_put_record o rec_of_go)
     go_st_IsWrkChainBlockRecorded       ahas (id, h) (r_recs ..)
     go_st_GetWrkChainBlock              reg_GetRecord
     go_st_deleteWrkChainHash            reg_DeleteRecord
     go_st_GetLastWrkChainHeightInState  reg_LowestKeyInState (= lowest_key of model/Registry.v)
     go_st_GetAllWrkChainBlockHashes / IterateWrkChainBlockHashes{,Reverse,Paginated}
                                         sort_by_key (records_of id (r_recs ..))  (what reg_GetRecordsForExport caps)

   [Rreg s st] is the representation relation; readers agree, writers simulate, listings agree, the initial store is
   related, and the simulation composes over any history of writes (run_sim).
   What the relation has to exclude although the primitives tolerate it is shown necessary by *_refuted Examples. *)
From Coq Require Import ZArith NArith List Bool Lia Sorted Permutation.
From MC Require Import lib.Prelude lib.AMap lib.GoSdk model.Keys model.KeyPrims model.KVStore model.StoreCodecPrims.
From MC Require Import model.Bank model.Registry model.Genesis model.WrkchainKeeperPrims.
From MC Require Import GeneratedKeys GeneratedWrkchainTypes GeneratedWrkchainKeeper GeneratedWrkchainStore.
From MC Require Import proofs.KeysProofs proofs.GeneratedKeysEq proofs.KVStoreFacts proofs.KVStoreFacts2Wrkchain.
From MC Require Import proofs.GenesisBisim proofs.GeneratedWrkchainStoreEq proofs.GeneratedWrkchainParamsEq.
Import ListNotations.
Open Scope Z_scope.

(* ================================================================== *)
(* 0. small library: association maps, insertion sort by key, visits     *)
(* ================================================================== *)

Section AMapMore.
  Context {K V : Type} `{EqKey K}.

  Lemma aget_of_In k v (m : amap K V) : NoDup (akeys m) -> In (k, v) m -> aget k m = Some v.
  Proof.
    induction m as [|[k1 v1] r IH]; intros ND Hin; [destruct Hin|].
    inversion ND as [|? ? NI ND']; subst. cbn. destruct Hin as [E|Hin].
    - inversion E; subst. rewrite keqb_refl. reflexivity.
    - destruct (keqb k k1) eqn:E.
      + apply keqb_spec in E; subst. exfalso. apply NI. change k1 with (fst (k1, v)). apply in_map. exact Hin.
      + apply IH; assumption.
  Qed.

  Lemma aset_In k v (m : amap K V) k' v' : In (k', v') (aset k v m) -> (k' = k /\ v' = v) \/ In (k', v') m.
  Proof.
    induction m as [|[k1 v1] r IH]; cbn.
    - intros [E|[]]. inversion E; subst. left; split; reflexivity.
    - destruct (keqb k k1); cbn.
      + intros [E|Hin]; [inversion E; subst; left; split; reflexivity | right; right; exact Hin].
      + intros [E|Hin]; [right; left; exact E|]. destruct (IH Hin) as [X|X]; [left; exact X | right; right; exact X].
  Qed.

  Lemma adel_In k (m : amap K V) k' v' : In (k', v') (adel k m) -> In (k', v') m.
  Proof.
    induction m as [|[k1 v1] r IH]; cbn; [tauto|].
    destruct (keqb k k1); cbn; [intros X; right; exact X | intros [E|X]; [left; exact E | right; apply IH; exact X]].
  Qed.
End AMapMore.

(* insertion sort of a Z-keyed list by its key: the order a byte store lists them in *)
Section ZSort.
  Context {V : Type}.

  Fixpoint zinsert (x : Z * V) (l : list (Z * V)) : list (Z * V) :=
    match l with
    | [] => [x]
    | y :: r => if fst x <? fst y then x :: l else y :: zinsert x r
    end.
  Definition zsort (l : list (Z * V)) : list (Z * V) := fold_right zinsert [] l.
  Definition zlt (a b : Z * V) : Prop := fst a < fst b.

  Lemma zinsert_perm x l : Permutation (zinsert x l) (x :: l).
  Proof.
    induction l as [|y r IH]; cbn; [apply Permutation_refl|].
    destruct (fst x <? fst y); [apply Permutation_refl|].
    eapply perm_trans; [apply perm_skip; exact IH | apply perm_swap].
  Qed.

  Lemma zsort_perm l : Permutation (zsort l) l.
  Proof.
    induction l as [|a l IH]; cbn; [constructor|].
    eapply perm_trans; [apply zinsert_perm | apply perm_skip; exact IH].
  Qed.

  Lemma zsort_In x l : In x (zsort l) <-> In x l.
  Proof. split; apply Permutation_in; [apply zsort_perm | symmetry; apply zsort_perm]. Qed.

  Lemma zinsert_sorted x l : StronglySorted zlt l -> ~ In (fst x) (map fst l) -> StronglySorted zlt (zinsert x l).
  Proof.
    induction l as [|y r IH]; intros HS NI; cbn.
    - constructor; constructor.
    - inversion HS as [|? ? HS' HF]; subst. destruct (Z.ltb_spec (fst x) (fst y)) as [L|L].
      + constructor; [exact HS|]. constructor; [exact L|]. rewrite Forall_forall in *.
        intros b Hb. specialize (HF b Hb). unfold zlt in *. lia.
      + assert (Hne : fst y <> fst x) by (intros E; apply NI; left; exact E).
        constructor; [apply IH; [exact HS' | intros I; apply NI; right; exact I]|].
        apply Forall_forall. intros b Hb. apply (Permutation_in _ (zinsert_perm x r)) in Hb.
        destruct Hb as [<-|Hb]; [unfold zlt; lia | rewrite Forall_forall in HF; apply HF; exact Hb].
  Qed.

  Lemma zsort_sorted l : NoDup (map fst l) -> StronglySorted zlt (zsort l).
  Proof.
    induction l as [|a l IH]; intros ND; cbn; [constructor|].
    inversion ND as [|? ? NI ND']; subst. apply zinsert_sorted; [apply IH; exact ND'|].
    intros I. apply NI. eapply Permutation_in; [apply Permutation_map, zsort_perm | exact I].
  Qed.

  (* an ascending list is its own sorting *)
  Lemma zsort_id l : StronglySorted zlt l -> zsort l = l.
  Proof.
    induction 1 as [|a l HS IH HF]; [reflexivity|].
    change (zsort (a :: l)) with (zinsert a (zsort l)). rewrite IH.
    destruct l as [|y r]; cbn; [reflexivity|]. inversion HF as [|? ? H1 _]; subst. unfold zlt in H1.
    destruct (Z.ltb_spec (fst a) (fst y)); [reflexivity | lia].
  Qed.

  Lemma keys_sorted_zlt l : StronglySorted Z.lt (map fst l) -> StronglySorted zlt l.
  Proof.
    induction l as [|a l IH]; intros HS; [constructor|]. cbn in HS. inversion HS as [|? ? HS' HF]; subst.
    constructor; [apply IH; exact HS'|]. apply Forall_forall. intros b Hb. rewrite Forall_forall in HF.
    apply HF. apply in_map. exact Hb.
  Qed.
End ZSort.

(* model/Genesis.v's sort_by_key is that sort *)
Lemma insert_by_key_zinsert x l : insert_by_key x l = zinsert x l.
Proof. induction l as [|y r IH]; cbn; [reflexivity|]. rewrite IH. reflexivity. Qed.
Lemma sort_by_key_zsort l : sort_by_key l = zsort l.
Proof. induction l as [|a l IH]; cbn; [reflexivity|]. unfold sort_by_key in IH. rewrite IH. apply insert_by_key_zinsert. Qed.

Lemma records_of_In id recs t rc : In (t, rc) (records_of id recs) <-> In ((id, t), rc) recs.
Proof.
  unfold records_of. rewrite in_map_iff. split.
  - intros [[[i h] r] [E Hin]]. cbn in E. inversion E; subst. apply filter_In in Hin. destruct Hin as [Hin F].
    cbn in F. apply Z.eqb_eq in F. subst. exact Hin.
  - intros Hin. exists ((id, t), rc). split; [reflexivity|]. apply filter_In. split; [exact Hin | cbn; apply Z.eqb_refl].
Qed.

Lemma records_of_nodup id (recs : amap (Z * Z) record) : NoDup (akeys recs) -> NoDup (map fst (records_of id recs)).
Proof.
  induction recs as [|[[i h] r] m IH]; intros ND; [constructor|].
  inversion ND as [|? ? NI ND']; subst. unfold records_of. cbn [filter fst snd].
  destruct (i =? id) eqn:E; [|apply IH; exact ND'].
  apply Z.eqb_eq in E. subst i. cbn [map fst snd]. constructor; [|apply IH; exact ND'].
  intros Hin. apply in_map_iff in Hin. destruct Hin as [[h' r'] [Eh Hin]]. cbn in Eh. subst h'.
  apply records_of_In in Hin. apply NI. change (id, h) with (fst ((id, h), r')). apply in_map. exact Hin.
Qed.

(* in-order visit of a list by a Go iteration callback: stop when the callback answers true *)
Fixpoint visit {A St : Type} (cb : St -> A -> outcome (St * bool)) (l : list A) (st : St) : outcome St :=
  match l with
  | [] => Ok st
  | a :: r => do res <- cb st a; if snd res then Ok (fst res) else visit cb r (fst res)
  end.

Lemma visit_append {A} (l : list A) acc : visit (fun acc_ a_ => Ok (acc_ ++ [a_], false)) l acc = Ok (acc ++ l).
Proof.
  revert acc. induction l as [|a l IH]; intros acc; cbn.
  - rewrite app_nil_r. reflexivity.
  - rewrite IH. rewrite <- app_assoc. reflexivity.
Qed.

Section IterVisit.
  Context {V : Type}.

  Lemma iterate_visit {A St} (dec : list N -> V -> outcome A) (cb : St -> A -> outcome (St * bool)) (es : okv V) l st :
    Forall2 (fun a e => dec (fst e) (snd e) = Ok a) l es ->
    okv_iterate dec cb es st = visit cb l st.
  Proof.
    intros H. revert st. induction H as [|a [k v] l es Ha _ IH]; intros st; cbn; [reflexivity|].
    cbn in Ha. rewrite Ha. cbn. destruct (cb st a) as [[st' b]| |]; cbn; [|reflexivity|reflexivity].
    destruct b; [reflexivity | apply IH].
  Qed.

  Lemma decode_all_Forall2 {A} (dec : list N -> V -> outcome A) (es : okv V) l :
    Forall2 (fun a e => dec (fst e) (snd e) = Ok a) l es -> decode_all dec es = Ok l.
  Proof.
    induction 1 as [|a [k v] l es Ha _ IH]; cbn; [reflexivity|]. cbn in Ha. rewrite Ha. cbn. rewrite IH. reflexivity.
  Qed.
End IterVisit.

Lemma Forall2_rev {A B} (R : A -> B -> Prop) l1 l2 : Forall2 R l1 l2 -> Forall2 R (rev l1) (rev l2).
Proof.
  induction 1 as [|a b l1 l2 Hab _ IH]; cbn; [constructor|].
  apply Forall2_app; [exact IH | constructor; [exact Hab | constructor]].
Qed.
Lemma Forall2_firstn {A B} (R : A -> B -> Prop) n l1 l2 : Forall2 R l1 l2 -> Forall2 R (firstn n l1) (firstn n l2).
Proof. intros H. revert n. induction H; intros [|n]; cbn; constructor; auto. Qed.
Lemma Forall2_skipn {A B} (R : A -> B -> Prop) n l1 l2 : Forall2 R l1 l2 -> Forall2 R (skipn n l1) (skipn n l2).
Proof. intros H. revert n. induction H; intros [|n]; cbn; try constructor; auto. Qed.

Lemma strongly_map_fwd {A B} (f : A -> B) (P : A -> A -> Prop) (Q : B -> B -> Prop) l :
  StronglySorted P l -> (forall a b, In a l -> In b l -> P a b -> Q (f a) (f b)) -> StronglySorted Q (map f l).
Proof. intros HS HQ. eapply StronglySorted_map_in; eassumption. Qed.

(* ================================================================== *)
(* 1. keys and the conversions of the primitives                         *)
(* ================================================================== *)

Definition u64 (x : Z) : Prop := 0 <= x < 2 ^ 64.

(* the keys, as definitions (the notations kreg / klimit / kblock / pblocks of GeneratedWrkchainStoreEq.v unfolded) *)
Definition kReg (id : Z) : list N := kreg id.
Definition kLim (id : Z) : list N := klimit id.
Definition kRec (id t : Z) : list N := kblock id t.
Definition pRecs (id : Z) : list N := pblocks id.

Lemma hd_kReg id : hd 0%N (kReg id) = 1%N. Proof. reflexivity. Qed.
Lemma hd_kLim id : hd 0%N (kLim id) = 3%N. Proof. reflexivity. Qed.
Lemma hd_kRec id t : hd 0%N (kRec id t) = 2%N. Proof. reflexivity. Qed.
Lemma hd_Params : hd 0%N kparams = 4%N. Proof. reflexivity. Qed.
Lemma hd_Highest : hd 0%N khighest = 32%N. Proof. reflexivity. Qed.

Lemma kReg_under id : is_prefix wrk_prefix_regs (kReg id) = true. Proof. reflexivity. Qed.
Lemma kRec_under id t : is_prefix (pRecs id) (kRec id t) = true. Proof. apply pblocks_kblock_same. Qed.
Lemma kRec_not_under id id' t : u64 id -> u64 id' -> id <> id' -> is_prefix (pRecs id) (kRec id' t) = false.
Proof. intros. apply pblocks_kblock_other; assumption. Qed.

Lemma kReg_inj a b : u64 a -> u64 b -> kReg a = kReg b -> a = b.
Proof. apply kreg_inj. Qed.
Lemma kLim_inj a b : u64 a -> u64 b -> kLim a = kLim b -> a = b.
Proof. apply klimit_inj. Qed.
Lemma kRec_inj a t b u : u64 a -> u64 t -> u64 b -> u64 u -> kRec a t = kRec b u -> a = b /\ t = u.
Proof. apply kblock_inj. Qed.
Lemma kReg_order a b : u64 a -> u64 b -> (lex_lt (kReg a) (kReg b) = true <-> a < b).
Proof.
  intros Ha Hb. unfold kReg, wrk_encode. rewrite reg_order_reg by (apply u64_wf; assumption).
  unfold u64 in *. apply u64_to_N_lt; lia.
Qed.
Lemma kRec_order a t u : u64 a -> u64 t -> u64 u -> (lex_lt (kRec a t) (kRec a u) = true <-> t < u).
Proof.
  intros Ha Ht Hu. unfold kRec, wrk_encode. rewrite reg_order_record_same_id by (apply u64_wf; assumption).
  unfold u64 in *. apply u64_to_N_lt; lia.
Qed.

(* the specifications of GeneratedWrkchainStoreEq.v, over these keys *)
Lemma GetParams_spec (s : store) : go_st_GetParams s = wrkchain_unmarshal_Params (okv_get s kparams).
Proof. apply spec_GetParams. Qed.
Lemma SetParams_spec (s : store) p : go_st_SetParams s p = do _ <- go_Params_Validate p; Ok (okv_set s kparams (WV_Params p), tt).
Proof. apply spec_SetParams. Qed.
Lemma SetParams_inv (s s' : store) p : go_st_SetParams s p = Ok (s', tt) ->
  go_Params_Validate p = Ok tt /\ s' = okv_set s kparams (WV_Params p).
Proof.
  rewrite SetParams_spec. destruct (go_Params_Validate p) as [[]| |]; cbn [obind]; intros H; try discriminate.
  injection H as <-. split; reflexivity.
Qed.
Lemma GetHighest_spec (s : store) : go_st_GetHighestWrkChainID s = rd_highest (okv_get s khighest).
Proof. apply spec_GetHighestWrkChainID. Qed.
Lemma SetHighest_spec (s : store) id : go_st_SetHighestWrkChainID s id = Ok (okv_set s khighest (WV_bytes (be64 (Z.to_N id))), tt).
Proof. apply spec_SetHighestWrkChainID. Qed.
Lemma SetWrkChain_spec (s : store) wc : go_st_SetWrkChain s wc = Ok (okv_set s (kReg (WrkChain_WrkchainId wc)) (WV_WrkChain wc), tt).
Proof. apply spec_SetWrkChain. Qed.
Lemma IsRegistered_spec (s : store) id : go_st_IsWrkChainRegistered s id = Ok (rd_has (okv_get s (kReg id))).
Proof. apply spec_IsWrkChainRegistered. Qed.
Lemma GetWrkChain_spec (s : store) id : go_st_GetWrkChain s id = rd_wrkchain (okv_get s (kReg id)).
Proof. apply spec_GetWrkChain. Qed.
Lemma HasLimit_spec (s : store) id : go_st_HasWrkChainStorageLimit s id = Ok (rd_has (okv_get s (kLim id))).
Proof. apply spec_HasWrkChainStorageLimit. Qed.
Lemma GetLimit_spec (s : store) id : go_st_GetWrkChainStorageLimit s id = rd_limit id (okv_get s (kLim id)).
Proof. apply spec_GetWrkChainStorageLimit. Qed.
Lemma SetLimit_spec (s : store) id l :
  go_st_SetWrkChainStorageLimit s id l = Ok (okv_set s (kLim id) (WV_WrkChainStorageLimit (mk_go_WrkChainStorageLimit id l)), tt).
Proof. apply spec_SetWrkChainStorageLimit. Qed.
Lemma SetBlock_spec (s : store) id b :
  go_st_SetWrkChainBlock s id b = Ok (okv_set s (kRec id (WrkChainBlock_Height b)) (WV_WrkChainBlock b), tt).
Proof. apply spec_SetWrkChainBlock. Qed.
Lemma IsRecorded_spec (s : store) id h : go_st_IsWrkChainBlockRecorded s id h = Ok (rd_has (okv_get s (kRec id h))).
Proof. apply spec_IsWrkChainBlockRecorded. Qed.
Lemma GetBlock_spec (s : store) id h : go_st_GetWrkChainBlock s id h = rd_block (okv_get s (kRec id h)).
Proof. apply spec_GetWrkChainBlock. Qed.
Lemma deleteHash_spec (s : store) id h : go_st_deleteWrkChainHash s id h = Ok (okv_del s (kRec id h), tt).
Proof. apply spec_deleteWrkChainHash. Qed.
Lemma IterateWrkChains_spec {St} (s : store) (cb : St -> go_WrkChain -> outcome (St * bool)) st :
  go_st_IterateWrkChains s cb st = okv_iterate dec_wrkchain cb (okv_prefix s wrk_prefix_regs) st.
Proof. apply spec_IterateWrkChains. Qed.
Lemma GetAllWrkChains_spec (s : store) : go_st_GetAllWrkChains s = decode_all dec_wrkchain (okv_prefix s wrk_prefix_regs).
Proof. apply spec_GetAllWrkChains. Qed.
Lemma IterateBlocks_spec {St} (s : store) id (cb : St -> go_WrkChainBlock -> outcome (St * bool)) st :
  go_st_IterateWrkChainBlockHashes s id cb st = okv_iterate dec_block cb (okv_prefix s (pRecs id)) st.
Proof. apply spec_IterateWrkChainBlockHashes. Qed.
Lemma IterateBlocksReverse_spec {St} (s : store) id (cb : St -> go_WrkChainBlock -> outcome (St * bool)) st :
  go_st_IterateWrkChainBlockHashesReverse s id cb st = okv_iterate dec_block cb (rev (okv_prefix s (pRecs id))) st.
Proof. apply spec_IterateWrkChainBlockHashesReverse. Qed.
Lemma IterateBlocksPaginated_spec {St} (s : store) id page limit (cb : St -> go_WrkChainBlock -> outcome (St * bool)) st :
  go_st_IterateWrkChainBlockHashesPaginated s id page limit cb st =
  do es <- okv_iter_prefix_paginated s (pRecs id) (Z.to_N page) (Z.to_N limit); okv_iterate dec_block cb es st.
Proof. apply spec_IterateWrkChainBlockHashesPaginated. Qed.
Lemma GetAllBlocks_spec (s : store) id : go_st_GetAllWrkChainBlockHashes s id = decode_all dec_block (okv_prefix s (pRecs id)).
Proof. apply spec_GetAllWrkChainBlockHashes. Qed.
Lemma GetLastHeight_spec (s : store) id :
  go_st_GetLastWrkChainHeightInState s id =
  match okv_prefix s (pRecs id) with
  | [] => Ok 0
  | (_, v) :: _ => do b <- wrkchain_unmarshal_WrkChainBlock (Some v); Ok (WrkChainBlock_Height b)
  end.
Proof. apply spec_GetLastWrkChainHeightInState. Qed.

(* the record conversions written inline in reg_SetRecord / reg_GetRecord *)
Definition rec_of_go (b : go_WrkChainBlock) : record :=
  {| rc_key := WrkChainBlock_Height b;
     rc_hashes := [WrkChainBlock_Blockhash b; WrkChainBlock_Parenthash b; WrkChainBlock_Hash1 b; WrkChainBlock_Hash2 b; WrkChainBlock_Hash3 b];
     rc_time := WrkChainBlock_SubTime b |}.
Definition rec_to_go (rc : record) : go_WrkChainBlock :=
  mk_go_WrkChainBlock (rc_key rc) (nth 0 (rc_hashes rc) EmptyString) (nth 1 (rc_hashes rc) EmptyString)
    (nth 2 (rc_hashes rc) EmptyString) (nth 3 (rc_hashes rc) EmptyString) (nth 4 (rc_hashes rc) EmptyString) (rc_time rc).
(* the shape of the hash list the conversion is a bijection on: exactly five hashes *)
Definition five (l : list string) : Prop := exists a b c d e, l = [a; b; c; d; e].

Lemma reg_SetRecord_eq w id b : reg_SetRecord w id b = reg_put_record w id (rec_of_go b).
Proof. reflexivity. Qed.
Lemma reg_GetRecord_eq w id t :
  reg_GetRecord w id t = match aget (id, t) (r_recs (rw_reg w)) with Some rc => (rec_to_go rc, true) | None => (zero_go_WrkChainBlock, false) end.
Proof. reflexivity. Qed.

(* the wrkchain entity conversion drops nothing: a bijection without side conditions *)
Lemma to_go_of_go_entity g : to_go_entity (of_go_entity g) = g.
Proof. destruct g; reflexivity. Qed.
Lemma of_go_to_go_entity rg : of_go_entity (to_go_entity rg) = rg.
Proof. destruct rg; reflexivity. Qed.

Lemma rec_to_of_go b : rec_to_go (rec_of_go b) = b.
Proof. destruct b; reflexivity. Qed.
Lemma rec_of_to_go rc : five (rc_hashes rc) -> rec_of_go (rec_to_go rc) = rc.
Proof. destruct rc as [k hs t]; cbn. intros (a & b & c & d & e & ->). reflexivity. Qed.
(* a hash list of another length is not what the conversion gives back *)
Example rec_of_to_go_refuted :
  let rc := {| rc_key := 1; rc_hashes := ["h"%string]; rc_time := 0 |} in rec_of_go (rec_to_go rc) <> rc.
Proof. cbv zeta. intros E. discriminate E. Qed.
Lemma rec_of_go_five b : five (rc_hashes (rec_of_go b)).
Proof. unfold five. cbn. do 5 eexists. reflexivity. Qed.
Lemma params_to_of_go p : params_to_go (params_of_go p) = p.
Proof. destruct p; reflexivity. Qed.
Lemma params_of_to_go p : params_of_go (params_to_go p) = p.
Proof. destruct p; reflexivity. Qed.

(* what the store holds for an abstract entry *)
Definition v_reg (rg : registration) : wrkchain_val := WV_WrkChain (to_go_entity rg).
Definition v_lim (id l : Z) : wrkchain_val := WV_WrkChainStorageLimit (mk_go_WrkChainStorageLimit id l).
Definition v_rec (rc : record) : wrkchain_val := WV_WrkChainBlock (rec_to_go rc).

(* ================================================================== *)
(* 2. the representation relation                                        *)
(* ================================================================== *)

(* AMap well-formedness: keys pairwise distinct and in the uint64 range; every entry keyed by its own id / height;
   the hash list of the shape the record conversion needs *)
Definition regs_wf (m : amap Z registration) : Prop :=
  NoDup (akeys m) /\ forall id rg, In (id, rg) m -> u64 id /\ rg_id rg = id.
Definition limits_wf (m : amap Z Z) : Prop :=
  NoDup (akeys m) /\ forall id l, In (id, l) m -> u64 id.
Definition recs_wf (m : amap (Z * Z) record) : Prop :=
  NoDup (akeys m) /\
  forall id t rc, In ((id, t), rc) m -> u64 id /\ u64 t /\ rc_key rc = t /\ five (rc_hashes rc).

(* the keys a related store may hold *)
Definition key_ok (k : list N) : Prop :=
  k = kparams \/ k = khighest \/
  (exists id, u64 id /\ k = kReg id) \/ (exists id, u64 id /\ k = kLim id) \/
  (exists id t, u64 id /\ u64 t /\ k = kRec id t).

Record Rreg (s : store) (st : reg_state) : Prop := {
  R_sorted : okv_sorted s = true;
  R_params : okv_get s kparams = Some (WV_Params (params_to_go (r_params st)));
  R_next_range : u64 (r_next st);
  R_next : okv_get s khighest = Some (WV_bytes (be64 (Z.to_N (r_next st))));
  R_regs_wf : regs_wf (r_regs st);
  R_regs : forall id, u64 id -> okv_get s (kReg id) = option_map v_reg (aget id (r_regs st));
  R_limits_wf : limits_wf (r_limits st);
  R_limits : forall id, u64 id -> okv_get s (kLim id) = option_map (v_lim id) (aget id (r_limits st));
  R_recs_wf : recs_wf (r_recs st);
  R_recs : forall id t, u64 id -> u64 t -> okv_get s (kRec id t) = option_map v_rec (aget (id, t) (r_recs st));
  R_complete : forall k v, In (k, v) s -> key_ok k
}.

(* ---- keys of different kinds differ ---- *)
Lemma key_neq_hd (a b : list N) : hd 0%N a <> hd 0%N b -> a <> b.
Proof. intros H E. apply H. rewrite E. reflexivity. Qed.
Ltac kind_neq :=
  apply key_neq_hd; rewrite ?hd_kReg, ?hd_kLim, ?hd_kRec, ?hd_Params, ?hd_Highest; discriminate.

Lemma complete_set (s : store) K v0 : (forall k v, In (k, v) s -> key_ok k) -> key_ok K ->
  forall k v, In (k, v) (okv_set s K v0) -> key_ok k.
Proof. intros H HK k v Hin. apply set_in in Hin. destruct Hin as [[-> _]|Hin]; [exact HK | eapply H; exact Hin]. Qed.
Lemma complete_del (s : store) K : (forall k v, In (k, v) s -> key_ok k) ->
  forall k v, In (k, v) (okv_del s K) -> key_ok k.
Proof. intros H k v Hin. apply del_in in Hin. eapply H; exact Hin. Qed.

(* a related store is well-formed in the sense of GeneratedWrkchainStoreEq.v (so its listing theorems apply) *)
Lemma Rreg_store_wf s st : Rreg s st -> wrk_store_wf s.
Proof.
  intros R k v Hin. pose proof (in_get _ _ _ (R_sorted _ _ R) Hin) as G.
  destruct (R_complete _ _ R _ _ Hin) as [->|[->|[[id [Hid ->]]|[[id [Hid ->]]|[id [t [Hid [Ht ->]]]]]]]].
  - rewrite (R_params _ _ R) in G. injection G as <-. reflexivity.
  - rewrite (R_next _ _ R) in G. injection G as <-. reflexivity.
  - rewrite (R_regs _ _ R) in G by exact Hid. destruct (aget id (r_regs st)) as [rg|] eqn:A; [|discriminate G].
    cbn [option_map] in G. injection G as <-. apply aget_In in A. destruct (R_regs_wf _ _ R) as [_ W].
    destruct (W _ _ A) as [_ E]. cbn [wrk_entry_wf v_reg to_go_entity WrkChain_WrkchainId]. rewrite E. split; [exact Hid | reflexivity].
  - rewrite (R_limits _ _ R) in G by exact Hid. destruct (aget id (r_limits st)) as [l|]; [|discriminate G].
    cbn [option_map] in G. injection G as <-. reflexivity.
  - rewrite (R_recs _ _ R) in G by assumption. destruct (aget (id, t) (r_recs st)) as [rc|] eqn:A; [|discriminate G].
    cbn [option_map] in G. injection G as <-. apply aget_In in A. destruct (R_recs_wf _ _ R) as [_ W].
    destruct (W _ _ _ A) as [_ [_ [E _]]]. cbn [wrk_entry_wf v_rec rec_to_go WrkChainBlock_Height]. rewrite E.
    split; [exact Ht|]. exists id. split; [exact Hid | reflexivity].
Qed.

Theorem Rreg_sorted_wf s st : Rreg s st -> okv_sorted s = true /\ wrk_store_wf s.
Proof. intros R. split; [exact (R_sorted _ _ R) | exact (Rreg_store_wf _ _ R)]. Qed.

(* ================================================================== *)
(* 3. READERS agree                                                      *)
(* ================================================================== *)

Section Readers.
  Variables (s : store) (w : rworld).
  Hypothesis R : Rreg s (rw_reg w).

  Lemma GetParams_refines : go_st_GetParams s = Ok (reg_GetParams w).
  Proof. rewrite GetParams_spec, (R_params _ _ R). reflexivity. Qed.

  Lemma GetParamDenom_refines : go_st_GetParamDenom s = Ok (reg_GetParamDenom w).
  Proof. unfold go_st_GetParamDenom. rewrite GetParams_refines. reflexivity. Qed.
  Lemma GetParamDefaultStorageLimit_refines : go_st_GetParamDefaultStorageLimit s = Ok (reg_GetParamDefaultStorageLimit w).
  Proof. unfold go_st_GetParamDefaultStorageLimit. rewrite GetParams_refines. reflexivity. Qed.
  Lemma GetParamMaxStorageLimit_refines : go_st_GetParamMaxStorageLimit s = Ok (reg_GetParamMaxStorageLimit w).
  Proof. unfold go_st_GetParamMaxStorageLimit. rewrite GetParams_refines. reflexivity. Qed.
  Lemma GetParamRegistrationFee_refines : go_st_GetParamRegistrationFee s = Ok (rp_fee_register (r_params (rw_reg w))).
  Proof. unfold go_st_GetParamRegistrationFee. rewrite GetParams_refines. reflexivity. Qed.
  Lemma GetParamRecordFee_refines : go_st_GetParamRecordFee s = Ok (rp_fee_record (r_params (rw_reg w))).
  Proof. unfold go_st_GetParamRecordFee. rewrite GetParams_refines. reflexivity. Qed.
  Lemma GetParamPurchaseStorageFee_refines : go_st_GetParamPurchaseStorageFee s = Ok (rp_fee_purchase (r_params (rw_reg w))).
  Proof. unfold go_st_GetParamPurchaseStorageFee. rewrite GetParams_refines. reflexivity. Qed.

  Lemma GetHighestID_refines : go_st_GetHighestWrkChainID s = reg_GetHighestID w.
  Proof.
    pose proof (R_next_range _ _ R) as Hr. unfold u64 in Hr.
    rewrite GetHighest_spec, (R_next _ _ R). cbn [rd_highest].
    rewrite gen_wrk_GetWrkChainIDFromBytes_eq, de64_checked_be64 by (apply wf_id_lt, u64_wf; exact Hr).
    cbn [lift_opt obind]. rewrite Z2N.id by lia. reflexivity.
  Qed.

  Lemma IsRegistered_refines id : u64 id -> go_st_IsWrkChainRegistered s id = Ok (reg_IsRegistered w id).
  Proof.
    intros Hid. rewrite IsRegistered_spec, (R_regs _ _ R) by exact Hid.
    unfold reg_IsRegistered, ahas. destruct (aget id (r_regs (rw_reg w))); reflexivity.
  Qed.

  Lemma GetEntity_refines id : u64 id -> go_st_GetWrkChain s id = Ok (reg_GetEntity w id).
  Proof.
    intros Hid. rewrite GetWrkChain_spec, (R_regs _ _ R) by exact Hid.
    unfold reg_GetEntity. destruct (aget id (r_regs (rw_reg w))); reflexivity.
  Qed.

  Lemma HasStorageLimit_refines id : u64 id -> go_st_HasWrkChainStorageLimit s id = Ok (ahas id (r_limits (rw_reg w))).
  Proof.
    intros Hid. rewrite HasLimit_spec, (R_limits _ _ R) by exact Hid.
    unfold ahas. destruct (aget id (r_limits (rw_reg w))); reflexivity.
  Qed.

  Lemma GetStorageLimit_refines id : u64 id -> go_st_GetWrkChainStorageLimit s id = Ok (reg_GetStorageLimit w id).
  Proof.
    intros Hid. rewrite GetLimit_spec, (R_limits _ _ R) by exact Hid.
    unfold reg_GetStorageLimit. destruct (aget id (r_limits (rw_reg w))); reflexivity.
  Qed.

  Lemma IsRecorded_refines id t : u64 id -> u64 t ->
    go_st_IsWrkChainBlockRecorded s id t = Ok (ahas (id, t) (r_recs (rw_reg w))).
  Proof.
    intros Hid Ht. rewrite IsRecorded_spec, (R_recs _ _ R) by assumption.
    unfold ahas. destruct (aget (id, t) (r_recs (rw_reg w))); reflexivity.
  Qed.

  Lemma GetRecord_refines id t : u64 id -> u64 t -> go_st_GetWrkChainBlock s id t = Ok (reg_GetRecord w id t).
  Proof.
    intros Hid Ht. rewrite GetBlock_spec, (R_recs _ _ R) by assumption.
    rewrite reg_GetRecord_eq. destruct (aget (id, t) (r_recs (rw_reg w))); reflexivity.
  Qed.
End Readers.

(* ================================================================== *)
(* 4. WRITERS simulate                                                   *)
(* ================================================================== *)

(* ---- the relation is preserved by one set / delete at the key of the abstract update ---- *)
Lemma R_set_params s st p : Rreg s st ->
  Rreg (okv_set s kparams (WV_Params p))
       {| r_params := params_of_go p; r_next := r_next st; r_regs := r_regs st; r_limits := r_limits st; r_recs := r_recs st |}.
Proof.
  intros [Hs Hp Hnr Hn Hrw Hr Hlw Hl Hcw Hc Hk]. constructor; cbn [r_params r_next r_regs r_limits r_recs].
  - apply set_sorted; exact Hs.
  - rewrite get_set_same, params_to_of_go. reflexivity.
  - exact Hnr.
  - rewrite get_set_other by kind_neq. exact Hn.
  - exact Hrw.
  - intros id Hid. rewrite get_set_other by kind_neq. apply Hr; exact Hid.
  - exact Hlw.
  - intros id Hid. rewrite get_set_other by kind_neq. apply Hl; exact Hid.
  - exact Hcw.
  - intros id t Hid Ht. rewrite get_set_other by kind_neq. apply Hc; assumption.
  - apply complete_set; [exact Hk | left; reflexivity].
Qed.

Lemma R_set_highest s st v : Rreg s st -> u64 v ->
  Rreg (okv_set s khighest (WV_bytes (be64 (Z.to_N v))))
       {| r_params := r_params st; r_next := v; r_regs := r_regs st; r_limits := r_limits st; r_recs := r_recs st |}.
Proof.
  intros [Hs Hp Hnr Hn Hrw Hr Hlw Hl Hcw Hc Hk] Hv. constructor; cbn [r_params r_next r_regs r_limits r_recs].
  - apply set_sorted; exact Hs.
  - rewrite get_set_other by kind_neq. exact Hp.
  - exact Hv.
  - rewrite get_set_same. reflexivity.
  - exact Hrw.
  - intros id Hid. rewrite get_set_other by kind_neq. apply Hr; exact Hid.
  - exact Hlw.
  - intros id Hid. rewrite get_set_other by kind_neq. apply Hl; exact Hid.
  - exact Hcw.
  - intros id t Hid Ht. rewrite get_set_other by kind_neq. apply Hc; assumption.
  - apply complete_set; [exact Hk | right; left; reflexivity].
Qed.

Lemma R_set_entity s st g : Rreg s st -> u64 (WrkChain_WrkchainId g) ->
  Rreg (okv_set s (kReg (WrkChain_WrkchainId g)) (WV_WrkChain g))
       (with_regs st (aset (WrkChain_WrkchainId g) (of_go_entity g) (r_regs st)) (r_limits st) (r_recs st)).
Proof.
  intros [Hs Hp Hnr Hn [Hnd Hrw] Hr Hlw Hl Hcw Hc Hk] Hg.
  constructor; cbn [with_regs r_params r_next r_regs r_limits r_recs].
  - apply set_sorted; exact Hs.
  - rewrite get_set_other by kind_neq. exact Hp.
  - exact Hnr.
  - rewrite get_set_other by kind_neq. exact Hn.
  - split; [apply NoDup_akeys_aset; exact Hnd|]. intros id rg Hin. apply aset_In in Hin.
    destruct Hin as [[-> ->]|Hin]; [split; [exact Hg | reflexivity] | apply Hrw; exact Hin].
  - intros id Hid. destruct (Z.eq_dec id (WrkChain_WrkchainId g)) as [->|Hne].
    + rewrite get_set_same, aget_aset_eq. cbn [option_map]. unfold v_reg. rewrite to_go_of_go_entity. reflexivity.
    + rewrite get_set_other by (intros E; apply Hne; apply kReg_inj; assumption).
      rewrite aget_aset_neq by congruence. apply Hr; exact Hid.
  - exact Hlw.
  - intros id Hid. rewrite get_set_other by kind_neq. apply Hl; exact Hid.
  - exact Hcw.
  - intros id t Hid Ht. rewrite get_set_other by kind_neq. apply Hc; assumption.
  - apply complete_set; [exact Hk|]. right; right; left. exists (WrkChain_WrkchainId g). split; [exact Hg | reflexivity].
Qed.

Lemma R_set_limit s st id l : Rreg s st -> u64 id ->
  Rreg (okv_set s (kLim id) (v_lim id l)) (with_regs st (r_regs st) (aset id l (r_limits st)) (r_recs st)).
Proof.
  intros [Hs Hp Hnr Hn Hrw Hr [Hnd Hlw] Hl Hcw Hc Hk] Hi.
  constructor; cbn [with_regs r_params r_next r_regs r_limits r_recs].
  - apply set_sorted; exact Hs.
  - rewrite get_set_other by kind_neq. exact Hp.
  - exact Hnr.
  - rewrite get_set_other by kind_neq. exact Hn.
  - exact Hrw.
  - intros id' Hid. rewrite get_set_other by kind_neq. apply Hr; exact Hid.
  - split; [apply NoDup_akeys_aset; exact Hnd|]. intros id' l' Hin. apply aset_In in Hin.
    destruct Hin as [[-> ->]|Hin]; [exact Hi | eapply Hlw; exact Hin].
  - intros id' Hid. destruct (Z.eq_dec id' id) as [->|Hne].
    + rewrite get_set_same, aget_aset_eq. reflexivity.
    + rewrite get_set_other by (intros E; apply Hne; apply kLim_inj; assumption).
      rewrite aget_aset_neq by congruence. apply Hl; exact Hid.
  - exact Hcw.
  - intros id' t Hid Ht. rewrite get_set_other by kind_neq. apply Hc; assumption.
  - apply complete_set; [exact Hk|]. right; right; right; left. exists id. split; [exact Hi | reflexivity].
Qed.

Lemma R_set_record s st id b : Rreg s st -> u64 id -> u64 (WrkChainBlock_Height b) ->
  Rreg (okv_set s (kRec id (WrkChainBlock_Height b)) (WV_WrkChainBlock b))
       (with_regs st (r_regs st) (r_limits st) (aset (id, WrkChainBlock_Height b) (rec_of_go b) (r_recs st))).
Proof.
  intros [Hs Hp Hnr Hn Hrw Hr Hlw Hl [Hnd Hcw] Hc Hk] Hi Hb.
  constructor; cbn [with_regs r_params r_next r_regs r_limits r_recs].
  - apply set_sorted; exact Hs.
  - rewrite get_set_other by kind_neq. exact Hp.
  - exact Hnr.
  - rewrite get_set_other by kind_neq. exact Hn.
  - exact Hrw.
  - intros id' Hid. rewrite get_set_other by kind_neq. apply Hr; exact Hid.
  - exact Hlw.
  - intros id' Hid. rewrite get_set_other by kind_neq. apply Hl; exact Hid.
  - split; [apply NoDup_akeys_aset; exact Hnd|]. intros id' t' rc Hin. apply aset_In in Hin.
    destruct Hin as [[E ->]|Hin]; [|eapply Hcw; exact Hin]. inversion E; subst.
    split; [exact Hi|]. split; [exact Hb|]. split; [reflexivity | apply rec_of_go_five].
  - intros id' t' Hid Ht.
    destruct (Z.eq_dec id' id) as [->|Hne]; [destruct (Z.eq_dec t' (WrkChainBlock_Height b)) as [->|Hne]|].
    + rewrite get_set_same, aget_aset_eq. cbn [option_map]. unfold v_rec. rewrite rec_to_of_go. reflexivity.
    + rewrite get_set_other by (intros E; apply kRec_inj in E; try assumption; destruct E as [_ E]; exact (Hne E)).
      rewrite aget_aset_neq by congruence. apply Hc; assumption.
    + rewrite get_set_other by (intros E; apply kRec_inj in E; try assumption; destruct E as [E _]; exact (Hne E)).
      rewrite aget_aset_neq by congruence. apply Hc; assumption.
  - apply complete_set; [exact Hk|]. right; right; right; right.
    exists id, (WrkChainBlock_Height b). split; [exact Hi|]. split; [exact Hb | reflexivity].
Qed.

Lemma R_del_record s st id t : Rreg s st -> u64 id -> u64 t ->
  Rreg (okv_del s (kRec id t)) (with_regs st (r_regs st) (r_limits st) (adel (id, t) (r_recs st))).
Proof.
  intros [Hs Hp Hnr Hn Hrw Hr Hlw Hl [Hnd Hcw] Hc Hk] Hi Ht0.
  constructor; cbn [with_regs r_params r_next r_regs r_limits r_recs].
  - apply del_sorted; exact Hs.
  - rewrite get_del_other by kind_neq. exact Hp.
  - exact Hnr.
  - rewrite get_del_other by kind_neq. exact Hn.
  - exact Hrw.
  - intros id' Hid. rewrite get_del_other by kind_neq. apply Hr; exact Hid.
  - exact Hlw.
  - intros id' Hid. rewrite get_del_other by kind_neq. apply Hl; exact Hid.
  - split; [apply NoDup_akeys_adel; exact Hnd|]. intros id' t' rc Hin. apply adel_In in Hin. eapply Hcw; exact Hin.
  - intros id' t' Hid Ht.
    destruct (Z.eq_dec id' id) as [->|Hne]; [destruct (Z.eq_dec t' t) as [->|Hne]|].
    + rewrite get_del_same by exact Hs. rewrite aget_adel_eq by exact Hnd. reflexivity.
    + rewrite get_del_other by (intros E; apply kRec_inj in E; try assumption; destruct E as [_ E]; exact (Hne E)).
      rewrite aget_adel_neq by congruence. apply Hc; assumption.
    + rewrite get_del_other by (intros E; apply kRec_inj in E; try assumption; destruct E as [E _]; exact (Hne E)).
      rewrite aget_adel_neq by congruence. apply Hc; assumption.
  - apply complete_del; exact Hk.
Qed.

(* ---- outcome simulation: same class, same code, related states ---- *)
Definition sim_res (oa : outcome (rworld * unit)) (oc : outcome (store * unit)) : Prop :=
  match oa, oc with
  | Ok (w', _), Ok (s', _) => Rreg s' (rw_reg w')
  | Err a, Err c => a = c
  | Panic a, Panic c => a = c
  | _, _ => False
  end.

(* a denomination that Params.Validate does not hand to sdk.ValidateDenom's own error: well-formed, or blank *)
Definition denom_ok (p : go_Params) : Prop := 0 <= Params_Denom p \/ Params_Denom p = go_zero_denom.

(* SetParams: under the uint64 reading of the four `== 0`-tested fields the verdicts agree; on acceptance the states
   stay related; on refusal the primitive's code is 40 and the generated code's is wrk_params_err p (40, or 1 for a
   malformed non-blank denomination) *)
Theorem SetParams_refines s w p : Rreg s (rw_reg w) -> wrk_params_nonneg p ->
  match reg_SetParams w p, go_st_SetParams s p with
  | Ok (w', _), Ok (s', _) => reg_params_valid (params_of_go p) = true /\ Rreg s' (rw_reg w')
  | Err a, Err c => reg_params_valid (params_of_go p) = false /\ a = wrkchain_ErrInvalidParams /\ c = wrk_params_err p
  | _, _ => False
  end.
Proof.
  intros R Hp. rewrite SetParams_spec, (gen_wrk_Params_Validate_eq p Hp).
  unfold reg_SetParams, reg_store_params. destruct (reg_params_valid (params_of_go p)); cbn [obind].
  - split; [reflexivity|]. cbn [rw_reg with_reg]. apply R_set_params. exact R.
  - split; [reflexivity|]. split; reflexivity.
Qed.

Theorem SetParams_sim s w p : Rreg s (rw_reg w) -> wrk_params_nonneg p -> denom_ok p ->
  sim_res (reg_SetParams w p) (go_st_SetParams s p).
Proof.
  intros R Hp Hd. pose proof (SetParams_refines s w p R Hp) as H. unfold sim_res.
  destruct (reg_SetParams w p) as [[w' []]|a|a], (go_st_SetParams s p) as [[s' []]|c|c]; try contradiction.
  - apply H.
  - destruct H as [_ [-> ->]]. unfold wrk_params_err.
    destruct ((Params_Denom p <? 0) && negb (Params_Denom p =? go_zero_denom)) eqn:E; [|reflexivity].
    exfalso. unfold denom_ok in Hd. lia.
Qed.

Theorem SetHighestID_sim s w v : Rreg s (rw_reg w) -> u64 v ->
  sim_res (reg_SetHighestID w v) (go_st_SetHighestWrkChainID s v).
Proof.
  intros R Hv. rewrite SetHighest_spec. unfold reg_SetHighestID, sim_res. cbn [rw_reg with_reg].
  apply R_set_highest; assumption.
Qed.

Theorem SetEntity_sim s w g : Rreg s (rw_reg w) -> u64 (WrkChain_WrkchainId g) ->
  sim_res (reg_SetEntity w g) (go_st_SetWrkChain s g).
Proof.
  intros R Hg. rewrite SetWrkChain_spec. unfold reg_SetEntity, reg_put_entity, sim_res. cbn [rw_reg with_reg].
  apply R_set_entity; assumption.
Qed.

Theorem SetStorageLimit_sim s w id l : Rreg s (rw_reg w) -> u64 id ->
  sim_res (reg_SetStorageLimit w id l) (go_st_SetWrkChainStorageLimit s id l).
Proof.
  intros R Hi. rewrite SetLimit_spec. unfold reg_SetStorageLimit, sim_res. cbn [rw_reg with_reg].
  apply R_set_limit; assumption.
Qed.

Theorem SetRecord_sim s w id b : Rreg s (rw_reg w) -> u64 id -> u64 (WrkChainBlock_Height b) ->
  sim_res (reg_SetRecord w id b) (go_st_SetWrkChainBlock s id b).
Proof.
  intros R Hi Hb. rewrite SetBlock_spec, reg_SetRecord_eq. unfold reg_put_record, sim_res. cbn [rw_reg with_reg].
  apply R_set_record; assumption.
Qed.

Theorem DeleteRecord_sim s w id t : Rreg s (rw_reg w) -> u64 id -> u64 t ->
  sim_res (reg_DeleteRecord w id t) (go_st_deleteWrkChainHash s id t).
Proof.
  intros R Hi Ht. rewrite deleteHash_spec. unfold reg_DeleteRecord, sim_res. cbn [rw_reg with_reg].
  apply R_del_record; assumption.
Qed.

(* the writers other than SetParams always succeed on both sides *)
Theorem writers_ok s w :
  (forall v, exists s' w', go_st_SetHighestWrkChainID s v = Ok (s', tt) /\ reg_SetHighestID w v = Ok (w', tt)) /\
  (forall g, exists s' w', go_st_SetWrkChain s g = Ok (s', tt) /\ reg_SetEntity w g = Ok (w', tt)) /\
  (forall id l, exists s' w', go_st_SetWrkChainStorageLimit s id l = Ok (s', tt) /\ reg_SetStorageLimit w id l = Ok (w', tt)) /\
  (forall id b, exists s' w', go_st_SetWrkChainBlock s id b = Ok (s', tt) /\ reg_SetRecord w id b = Ok (w', tt)) /\
  (forall id t, exists s' w', go_st_deleteWrkChainHash s id t = Ok (s', tt) /\ reg_DeleteRecord w id t = Ok (w', tt)).
Proof.
  split; [|split; [|split; [|split]]]; intros; eexists; eexists.
  - split; [apply SetHighest_spec | reflexivity].
  - split; [apply SetWrkChain_spec | reflexivity].
  - split; [apply SetLimit_spec | reflexivity].
  - split; [apply SetBlock_spec | reflexivity].
  - split; [apply deleteHash_spec | reflexivity].
Qed.

(* the five always-succeeding writers, in the plain form: both sides return Ok and the new states are related *)
Theorem writers_refine s w : Rreg s (rw_reg w) ->
  (forall v, u64 v ->
     exists s' w', go_st_SetHighestWrkChainID s v = Ok (s', tt) /\ reg_SetHighestID w v = Ok (w', tt) /\ Rreg s' (rw_reg w')) /\
  (forall g, u64 (WrkChain_WrkchainId g) ->
     exists s' w', go_st_SetWrkChain s g = Ok (s', tt) /\ reg_SetEntity w g = Ok (w', tt) /\ Rreg s' (rw_reg w')) /\
  (forall id l, u64 id ->
     exists s' w', go_st_SetWrkChainStorageLimit s id l = Ok (s', tt) /\ reg_SetStorageLimit w id l = Ok (w', tt) /\ Rreg s' (rw_reg w')) /\
  (forall id b, u64 id -> u64 (WrkChainBlock_Height b) ->
     exists s' w', go_st_SetWrkChainBlock s id b = Ok (s', tt) /\ reg_SetRecord w id b = Ok (w', tt) /\ Rreg s' (rw_reg w')) /\
  (forall id t, u64 id -> u64 t ->
     exists s' w', go_st_deleteWrkChainHash s id t = Ok (s', tt) /\ reg_DeleteRecord w id t = Ok (w', tt) /\ Rreg s' (rw_reg w')).
Proof.
  intros R. destruct (writers_ok s w) as [O1 [O2 [O3 [O4 O5]]]]. split; [|split; [|split; [|split]]].
  - intros v Hv. destruct (O1 v) as [s' [w' [E1 E2]]]. exists s', w'. split; [exact E1|]. split; [exact E2|].
    pose proof (SetHighestID_sim s w v R Hv) as H. rewrite E1, E2 in H. exact H.
  - intros g Hg. destruct (O2 g) as [s' [w' [E1 E2]]]. exists s', w'. split; [exact E1|]. split; [exact E2|].
    pose proof (SetEntity_sim s w g R Hg) as H. rewrite E1, E2 in H. exact H.
  - intros id l Hi. destruct (O3 id l) as [s' [w' [E1 E2]]]. exists s', w'. split; [exact E1|]. split; [exact E2|].
    pose proof (SetStorageLimit_sim s w id l R Hi) as H. rewrite E1, E2 in H. exact H.
  - intros id b Hi Hb. destruct (O4 id b) as [s' [w' [E1 E2]]]. exists s', w'. split; [exact E1|]. split; [exact E2|].
    pose proof (SetRecord_sim s w id b R Hi Hb) as H. rewrite E1, E2 in H. exact H.
  - intros id t Hi Ht. destruct (O5 id t) as [s' [w' [E1 E2]]]. exists s', w'. split; [exact E1|]. split; [exact E2|].
    pose proof (DeleteRecord_sim s w id t R Hi Ht) as H. rewrite E1, E2 in H. exact H.
Qed.

(* ================================================================== *)
(* 5. LISTINGS                                                           *)
(* ================================================================== *)

Lemma sorted_same_members (a b : store) : okv_sorted a = true -> okv_sorted b = true ->
  (forall k v, In (k, v) a <-> In (k, v) b) -> a = b.
Proof.
  intros Ha Hb H. apply okv_ext; [exact Ha | exact Hb|]. intros k. destruct (okv_get a k) as [v|] eqn:Ea.
  - apply get_in in Ea. apply H in Ea. symmetry. apply in_get; assumption.
  - destruct (okv_get b k) as [v|] eqn:Eb; [|reflexivity]. apply get_in in Eb. apply H in Eb.
    apply (in_get _ _ _ Ha) in Eb. congruence.
Qed.

(* a Z-keyed list rendered as store entries, by a key builder that is monotone on the uint64 range *)
Section EncList.
  Context {V : Type} (K : Z -> list N) (E : V -> wrkchain_val).
  Hypothesis K_order : forall a b, u64 a -> u64 b -> (lex_lt (K a) (K b) = true <-> a < b).

  Definition enc_list (l : list (Z * V)) : store := map (fun kv => (K (fst kv), E (snd kv))) l.

  Lemma enc_list_sorted l : (forall kv, In kv l -> u64 (fst kv)) -> StronglySorted zlt l -> okv_sorted (enc_list l) = true.
  Proof.
    induction l as [|[a v] l IH]; intros HR HS; [reflexivity|].
    inversion HS as [|? ? HS' HF]; subst. cbn [enc_list map fst snd]. apply sorted_cons. split.
    - apply IH; [intros kv Hin; apply HR; right; exact Hin | exact HS'].
    - intros k' v' Hin. apply in_map_iff in Hin. destruct Hin as [[b vb] [Eq Hin]]. cbn [fst snd] in Eq. inversion Eq; subst.
      apply K_order; [apply (HR (a, v)); left; reflexivity | apply (HR (b, vb)); right; exact Hin|].
      rewrite Forall_forall in HF. apply (HF (b, vb) Hin).
  Qed.
End EncList.

Lemma wrkchains_decode (l : list (Z * registration)) :
  Forall2 (fun a e => dec_wrkchain (fst e) (snd e) = Ok a) (map (fun kv => to_go_entity (snd kv)) l) (enc_list kReg v_reg l).
Proof. induction l as [|[a v] l IH]; cbn; constructor; [reflexivity | exact IH]. Qed.

Lemma blocks_decode id (l : list (Z * record)) :
  Forall2 (fun a e => dec_block (fst e) (snd e) = Ok a) (map (fun kv => rec_to_go (snd kv)) l) (enc_list (kRec id) v_rec l).
Proof. induction l as [|[a v] l IH]; cbn; constructor; [reflexivity | exact IH]. Qed.

(* ---- the entries under the registration prefix are exactly the registrations, in ascending id ---- *)
Lemma regs_prefix s st : Rreg s st ->
  okv_prefix s wrk_prefix_regs = enc_list kReg v_reg (zsort (r_regs st)).
Proof.
  intros R. destruct (R_regs_wf _ _ R) as [ND W]. apply sorted_same_members.
  - apply prefix_sorted, (R_sorted _ _ R).
  - apply (enc_list_sorted kReg v_reg kReg_order).
    + intros [id rg] Hin. apply (proj1 (zsort_In _ _)) in Hin. apply (W id rg Hin).
    + apply zsort_sorted. exact ND.
  - intros k v. rewrite prefix_in. split.
    + intros [Hin P].
      destruct (R_complete _ _ R _ _ Hin) as [->|[->|[[id [Hid ->]]|[[id [Hid ->]]|[id [t [Hid [Ht ->]]]]]]]]; try discriminate P.
      apply (in_get _ _ _ (R_sorted _ _ R)) in Hin. rewrite (R_regs _ _ R) in Hin by exact Hid.
      destruct (aget id (r_regs st)) as [rg|] eqn:G; [|discriminate Hin]. cbn [option_map] in Hin. injection Hin as <-.
      apply in_map_iff. exists (id, rg). split; [reflexivity|]. apply (proj2 (zsort_In _ _)). apply aget_In. exact G.
    + intros Hin. apply in_map_iff in Hin. destruct Hin as [[id rg] [Eq Hin]]. cbn [fst snd] in Eq. injection Eq as <- <-.
      apply (proj1 (zsort_In _ _)) in Hin. destruct (W id rg Hin) as [Hid _]. split; [|apply kReg_under].
      apply get_in. rewrite (R_regs _ _ R) by exact Hid. rewrite (aget_of_In _ _ _ ND Hin). reflexivity.
Qed.

(* GetAllWrkChains / IterateWrkChains: the registrations sorted by id *)
Theorem GetAllEntities_refines s w : Rreg s (rw_reg w) ->
  let l := map (fun kv => to_go_entity (snd kv)) (zsort (r_regs (rw_reg w))) in
  go_st_GetAllWrkChains s = Ok l /\
  (forall (St : Type) (cb : St -> go_WrkChain -> outcome (St * bool)) st, go_st_IterateWrkChains s cb st = visit cb l st) /\
  Permutation l (reg_GetAllEntities w) /\
  StronglySorted (fun a b => WrkChain_WrkchainId a < WrkChain_WrkchainId b) l.
Proof.
  intros R l. pose proof (regs_prefix s _ R) as P. pose proof (wrkchains_decode (zsort (r_regs (rw_reg w)))) as D.
  split; [|split; [|split]].
  - rewrite GetAllWrkChains_spec, P. apply decode_all_Forall2. exact D.
  - intros St cb st. rewrite IterateWrkChains_spec, P. apply iterate_visit. exact D.
  - unfold l, reg_GetAllEntities. apply Permutation_map, zsort_perm.
  - destruct (R_regs_wf _ _ R) as [ND W]. unfold l.
    apply (strongly_map_fwd _ zlt); [apply zsort_sorted; exact ND|].
    intros [a ra] [b rb] Ha Hb L. apply (proj1 (zsort_In _ _)) in Ha. apply (proj1 (zsort_In _ _)) in Hb.
    destruct (W a ra Ha) as [_ Ea]. destruct (W b rb Hb) as [_ Eb]. unfold zlt in L. cbn [fst snd to_go_entity WrkChain_WrkchainId] in *. lia.
Qed.

(* the primitive's own order (the association list as it stands) is the store's when the ids ascend *)
Theorem GetAllEntities_refines_sorted s w : Rreg s (rw_reg w) -> StronglySorted Z.lt (akeys (r_regs (rw_reg w))) ->
  go_st_GetAllWrkChains s = Ok (reg_GetAllEntities w) /\
  (forall (St : Type) (cb : St -> go_WrkChain -> outcome (St * bool)) st,
     go_st_IterateWrkChains s cb st = visit cb (reg_GetAllEntities w) st).
Proof.
  intros R HS. destruct (GetAllEntities_refines s w R) as [H1 [H2 _]].
  rewrite (zsort_id _ (keys_sorted_zlt _ HS)) in H1, H2. split; [exact H1 | exact H2].
Qed.

Theorem GetAllEntities_refines_perm s w : Rreg s (rw_reg w) ->
  exists l, go_st_GetAllWrkChains s = Ok l /\ Permutation l (reg_GetAllEntities w).
Proof. intros R. destruct (GetAllEntities_refines s w R) as [H1 [_ [H3 _]]]. eexists. split; [exact H1 | exact H3]. Qed.

(* ---- the entries under one WRKChain's block prefix are exactly its records, in ascending height ---- *)
Lemma recs_prefix s st id : Rreg s st -> u64 id ->
  okv_prefix s (pRecs id) = enc_list (kRec id) v_rec (zsort (records_of id (r_recs st))).
Proof.
  intros R Hi. destruct (R_recs_wf _ _ R) as [ND W]. apply sorted_same_members.
  - apply prefix_sorted, (R_sorted _ _ R).
  - apply (enc_list_sorted (kRec id) v_rec (fun t u => kRec_order id t u Hi)).
    + intros [t rc] Hin. apply (proj1 (zsort_In _ _)) in Hin. apply records_of_In in Hin. apply (W id t rc Hin).
    + apply zsort_sorted. apply records_of_nodup. exact ND.
  - intros k v. rewrite prefix_in. split.
    + intros [Hin P].
      destruct (R_complete _ _ R _ _ Hin) as [->|[->|[[id' [Hid ->]]|[[id' [Hid ->]]|[id' [t [Hid [Ht ->]]]]]]]]; try discriminate P.
      assert (id' = id) as ->.
      { destruct (Z.eq_dec id' id) as [E|NE]; [exact E|]. rewrite kRec_not_under in P by (try assumption; congruence). discriminate P. }
      apply (in_get _ _ _ (R_sorted _ _ R)) in Hin. rewrite (R_recs _ _ R) in Hin by assumption.
      destruct (aget (id, t) (r_recs st)) as [rc|] eqn:G; [|discriminate Hin]. cbn [option_map] in Hin. injection Hin as <-.
      apply in_map_iff. exists (t, rc). split; [reflexivity|]. apply (proj2 (zsort_In _ _)). apply records_of_In. apply aget_In. exact G.
    + intros Hin. apply in_map_iff in Hin. destruct Hin as [[t rc] [Eq Hin]]. cbn [fst snd] in Eq. injection Eq as <- <-.
      apply (proj1 (zsort_In _ _)) in Hin. apply records_of_In in Hin. destruct (W id t rc Hin) as [_ [Ht _]].
      split; [|apply kRec_under]. apply get_in. rewrite (R_recs _ _ R) by assumption. rewrite (aget_of_In _ _ _ ND Hin). reflexivity.
Qed.

(* GetAllWrkChainBlockHashes / IterateWrkChainBlockHashes / ..Reverse / ..Paginated of one WRKChain: its records in
   ascending height order (model/Genesis.v's sort_by_key o records_of, what reg_GetRecordsForExport takes the newest of);
   the paginated iterator visits the [limit] entries behind the first (page-1)*limit ones, and page 0 is outside the
   store description (a panic) *)
Theorem GetAllRecords_refines s w id : Rreg s (rw_reg w) -> u64 id ->
  let l := map (fun kr => rec_to_go (snd kr)) (sort_by_key (records_of id (r_recs (rw_reg w)))) in
  go_st_GetAllWrkChainBlockHashes s id = Ok l /\
  (forall (St : Type) (cb : St -> go_WrkChainBlock -> outcome (St * bool)) st,
     go_st_IterateWrkChainBlockHashes s id cb st = visit cb l st) /\
  (forall (St : Type) (cb : St -> go_WrkChainBlock -> outcome (St * bool)) st,
     go_st_IterateWrkChainBlockHashesReverse s id cb st = visit cb (rev l) st) /\
  (forall (St : Type) page limit (cb : St -> go_WrkChainBlock -> outcome (St * bool)) st, 1 <= page ->
     go_st_IterateWrkChainBlockHashesPaginated s id page limit cb st =
     visit cb (firstn (Z.to_nat limit) (skipn (Z.to_nat ((page - 1) * Z.max 0 limit)) l)) st) /\
  (forall (St : Type) page limit (cb : St -> go_WrkChainBlock -> outcome (St * bool)) st, page <= 0 ->
     go_st_IterateWrkChainBlockHashesPaginated s id page limit cb st = Panic OKV_PANIC_PAGE) /\
  StronglySorted (fun a b => WrkChainBlock_Height a < WrkChainBlock_Height b) l /\
  (forall b, In b l <-> exists rc, aget (id, WrkChainBlock_Height b) (r_recs (rw_reg w)) = Some rc /\ b = rec_to_go rc).
Proof.
  intros R Hi l. unfold l. rewrite sort_by_key_zsort. clear l.
  pose proof (recs_prefix s _ id R Hi) as P. pose proof (blocks_decode id (zsort (records_of id (r_recs (rw_reg w))))) as D.
  destruct (R_recs_wf _ _ R) as [ND W].
  split; [|split; [|split; [|split; [|split; [|split]]]]].
  - rewrite GetAllBlocks_spec, P. apply decode_all_Forall2. exact D.
  - intros St cb st. rewrite IterateBlocks_spec, P. apply iterate_visit. exact D.
  - intros St cb st. rewrite IterateBlocksReverse_spec, P. apply iterate_visit. apply Forall2_rev. exact D.
  - intros St page limit cb st Hpg. rewrite IterateBlocksPaginated_spec. unfold okv_iter_prefix_paginated.
    assert (Ep : (Z.to_N page =? 0)%N = false) by (apply N.eqb_neq; lia). rewrite Ep. cbn [obind]. rewrite P.
    assert (E1 : N.to_nat (Z.to_N limit) = Z.to_nat limit) by (destruct limit; reflexivity).
    assert (E2 : N.to_nat ((Z.to_N page - 1) * Z.to_N limit) = Z.to_nat ((page - 1) * Z.max 0 limit)).
    { replace (Z.to_N page - 1)%N with (Z.to_N (page - 1)) by lia.
      replace (Z.to_N limit) with (Z.to_N (Z.max 0 limit)) by lia.
      rewrite <- Z2N.inj_mul by lia. apply Z_N_nat. }
    rewrite E1, E2. apply iterate_visit. apply Forall2_firstn, Forall2_skipn. exact D.
  - intros St page limit cb st Hpg. rewrite IterateBlocksPaginated_spec. unfold okv_iter_prefix_paginated.
    assert (Ep : (Z.to_N page =? 0)%N = true) by (apply N.eqb_eq; lia). rewrite Ep. reflexivity.
  - apply (strongly_map_fwd _ zlt); [apply zsort_sorted, records_of_nodup; exact ND|].
    intros [a ra] [b rb] Ha Hb L. apply (proj1 (zsort_In _ _)) in Ha. apply (proj1 (zsort_In _ _)) in Hb.
    apply records_of_In in Ha. apply records_of_In in Hb.
    destruct (W id a ra Ha) as [_ [_ [Ea _]]]. destruct (W id b rb Hb) as [_ [_ [Eb _]]].
    unfold zlt in L. cbn [fst snd rec_to_go WrkChainBlock_Height] in *. lia.
  - intros b. rewrite in_map_iff. split.
    + intros [[t rc] [<- Hin]]. apply (proj1 (zsort_In _ _)) in Hin. apply records_of_In in Hin.
      destruct (W id t rc Hin) as [_ [_ [Ek _]]]. exists rc. cbn [snd rec_to_go WrkChainBlock_Height]. rewrite Ek.
      split; [apply aget_of_In; assumption | reflexivity].
    + intros [rc [G ->]]. apply aget_In in G. destruct (W _ _ _ G) as [_ [_ [Ek _]]].
      exists (WrkChainBlock_Height (rec_to_go rc), rc). split; [reflexivity|].
      apply (proj2 (zsort_In _ _)). apply records_of_In. exact G.
Qed.

(* what the exporting primitive keeps of that listing *)
Lemma skipn_In_incl {A} n (l : list A) x : In x (skipn n l) -> In x l.
Proof. intros H. rewrite <- (firstn_skipn n l). apply in_or_app. right. exact H. Qed.
Lemma newest_map {A B} (f : A -> B) cap l : newest cap (map f l) = map f (newest cap l).
Proof. unfold newest. rewrite map_length, skipn_map. reflexivity. Qed.

Theorem GetRecordsForExport_refines s w id l : Rreg s (rw_reg w) -> u64 id -> go_st_GetAllWrkChainBlockHashes s id = Ok l ->
  map (fun b => mk_go_WrkChainBlockGenesisExport (WrkChainBlock_Height b) (WrkChainBlock_Blockhash b) (WrkChainBlock_Parenthash b)
                  (WrkChainBlock_Hash1 b) (WrkChainBlock_Hash2 b) (WrkChainBlock_Hash3 b) (WrkChainBlock_SubTime b))
      (newest EXPORT_CAP l) = reg_GetRecordsForExport w id.
Proof.
  intros R Hi Hl. destruct (GetAllRecords_refines s w id R Hi) as [H _]. rewrite Hl in H. injection H as ->.
  destruct (R_recs_wf _ _ R) as [ND W]. unfold reg_GetRecordsForExport.
  rewrite newest_map, map_map. apply map_ext_in. intros [t rc] Hin.
  cbn [fst snd rec_to_go WrkChainBlock_Height WrkChainBlock_Blockhash WrkChainBlock_Parenthash WrkChainBlock_Hash1
       WrkChainBlock_Hash2 WrkChainBlock_Hash3 WrkChainBlock_SubTime]. unfold hash_n.
  assert (Hin' : In (t, rc) (sort_by_key (records_of id (r_recs (rw_reg w))))).
  { unfold newest in Hin. eapply skipn_In_incl; exact Hin. }
  rewrite sort_by_key_zsort in Hin'. apply (proj1 (zsort_In _ _)) in Hin'. apply records_of_In in Hin'.
  destruct (W id t rc Hin') as [_ [_ [Ek _]]]. rewrite Ek. reflexivity.
Qed.

(* ---- GetLastWrkChainHeightInState = reg_LowestKeyInState ---- *)
(* unconditionally: the height of the first entry of the ascending listing, 0 when there is none *)
Theorem LowestKeyInState_refines_min s w id : Rreg s (rw_reg w) -> u64 id ->
  go_st_GetLastWrkChainHeightInState s id = Ok (hd 0 (map fst (sort_by_key (records_of id (r_recs (rw_reg w)))))).
Proof.
  intros R Hi. rewrite sort_by_key_zsort. rewrite GetLastHeight_spec. rewrite (recs_prefix s _ id R Hi).
  destruct (R_recs_wf _ _ R) as [ND W].
  destruct (zsort (records_of id (r_recs (rw_reg w)))) as [|[t rc] r] eqn:E; [reflexivity|].
  cbn [enc_list map fst snd hd v_rec wrkchain_unmarshal_WrkChainBlock obind rec_to_go WrkChainBlock_Height].
  assert (Hin : In (t, rc) (zsort (records_of id (r_recs (rw_reg w))))) by (rewrite E; left; reflexivity).
  apply (proj1 (zsort_In _ _)) in Hin. apply records_of_In in Hin. destruct (W id t rc Hin) as [_ [_ [Ek _]]].
  rewrite Ek. reflexivity.
Qed.

(* the primitive: lowest_key of model/Registry.v reads 0 as "none", so it is the least height only when no record of
   that WRKChain sits at height 0 (ValidateBasic refuses height 0; see LowestKeyInState_zero_height_refuted) *)
Theorem LowestKeyInState_refines s w id : Rreg s (rw_reg w) -> u64 id ->
  (forall h rc, In ((id, h), rc) (r_recs (rw_reg w)) -> 1 <= h) ->
  go_st_GetLastWrkChainHeightInState s id = Ok (reg_LowestKeyInState w id).
Proof.
  intros R Hi Hpos. unfold reg_LowestKeyInState.
  apply GetLastWrkChainHeightInState_lowest_key; [exact Hi | exact (R_sorted _ _ R) | exact (Rreg_store_wf _ _ R) | | exact Hpos].
  destruct (R_recs_wf _ _ R) as [ND W]. intros h. split.
  - intros [rc Hin]. destruct (W _ _ _ Hin) as [_ [Hh _]]. split; [exact Hh|].
    rewrite (IsRecorded_refines s w R id h Hi Hh). unfold ahas. rewrite (aget_of_In _ _ _ ND Hin). reflexivity.
  - intros [Hh E]. rewrite (IsRecorded_refines s w R id h Hi Hh) in E. unfold ahas in E.
    destruct (aget (id, h) (r_recs (rw_reg w))) as [rc|] eqn:G; [|discriminate E]. exists rc. apply aget_In. exact G.
Qed.

(* ================================================================== *)
(* 6. the INITIAL store                                                  *)
(* ================================================================== *)

Definition init_state (p : go_Params) (v : Z) : reg_state :=
  {| r_params := params_of_go p; r_next := v; r_regs := []; r_limits := []; r_recs := [] |}.

(* the store built from [] by SetParams + SetHighestWrkChainID represents the state with those parameters / counter
   and empty maps *)
Theorem init_refines p v s1 s2 : go_st_SetParams [] p = Ok (s1, tt) -> go_st_SetHighestWrkChainID s1 v = Ok (s2, tt) -> u64 v ->
  Rreg s2 (init_state p v).
Proof.
  intros H1 H2 Hv. apply SetParams_inv in H1 as [_ ->]. rewrite SetHighest_spec in H2.
  assert (E : s2 = [(kparams, WV_Params p); (khighest, WV_bytes (be64 (Z.to_N v)))])
    by (injection H2 as <-; reflexivity).
  subst s2. clear H2. constructor; cbn [init_state r_params r_next r_regs r_limits r_recs].
  - reflexivity.
  - rewrite params_to_of_go. reflexivity.
  - exact Hv.
  - reflexivity.
  - split; [constructor | intros ? ? []].
  - intros id _. reflexivity.
  - split; [constructor | intros ? ? []].
  - intros id _. reflexivity.
  - split; [constructor | intros ? ? ? []].
  - intros id t _ _. reflexivity.
  - intros k v0 [E|[E|[]]]; inversion E; subst; [left | right; left]; reflexivity.
Qed.

(* ... and the two primitives run on a world with empty maps produce exactly that state, with the same verdict *)
Theorem init_sim p v w : wrk_params_nonneg p -> u64 v ->
  r_regs (rw_reg w) = [] -> r_limits (rw_reg w) = [] -> r_recs (rw_reg w) = [] ->
  match (do x <- reg_SetParams w p; reg_SetHighestID (fst x) v), (do x <- go_st_SetParams [] p; go_st_SetHighestWrkChainID (fst x) v) with
  | Ok (w2, _), Ok (s2, _) => rw_reg w2 = init_state p v /\ Rreg s2 (rw_reg w2)
  | Err a, Err c => a = wrkchain_ErrInvalidParams /\ c = wrk_params_err p
  | _, _ => False
  end.
Proof.
  intros Hp Hv E1 E2 E3.
  destruct (go_st_SetParams [] p) as [[s1 []]|c|c] eqn:G.
  - pose proof G as G'. apply SetParams_inv in G' as [V _]. apply (gen_wrk_Params_Validate_ok_iff p Hp) in V.
    unfold reg_SetParams, reg_store_params. rewrite V. cbn [obind fst]. rewrite SetHighest_spec.
    unfold reg_SetHighestID. cbn [rw_reg with_reg r_params r_next r_regs r_limits r_recs]. rewrite E1, E2, E3.
    split; [reflexivity|]. eapply init_refines; [exact G | apply SetHighest_spec | exact Hv].
  - rewrite SetParams_spec, (gen_wrk_Params_Validate_eq p Hp) in G.
    unfold reg_SetParams, reg_store_params. destruct (reg_params_valid (params_of_go p)); cbn [obind] in *; [discriminate G|].
    injection G as <-. split; reflexivity.
  - rewrite SetParams_spec, (gen_wrk_Params_Validate_eq p Hp) in G.
    destruct (reg_params_valid (params_of_go p)); cbn [obind] in G; discriminate G.
Qed.

(* ================================================================== *)
(* 7. COMPOSITION over histories of writes                               *)
(* ================================================================== *)

Inductive sop :=
| OSetParams (p : go_Params)
| OSetHighest (v : Z)
| OSetEntity (g : go_WrkChain)
| OSetLimit (id l : Z)
| OSetRecord (id : Z) (b : go_WrkChainBlock)
| ODelRecord (id t : Z).

(* abstract step: the primitives; concrete step: the generated accessors *)
Definition astep (w : rworld) (o : sop) : outcome (rworld * unit) :=
  match o with
  | OSetParams p => reg_SetParams w p
  | OSetHighest v => reg_SetHighestID w v
  | OSetEntity g => reg_SetEntity w g
  | OSetLimit id l => reg_SetStorageLimit w id l
  | OSetRecord id b => reg_SetRecord w id b
  | ODelRecord id t => reg_DeleteRecord w id t
  end.
Definition cstep (s : store) (o : sop) : outcome (store * unit) :=
  match o with
  | OSetParams p => go_st_SetParams s p
  | OSetHighest v => go_st_SetHighestWrkChainID s v
  | OSetEntity g => go_st_SetWrkChain s g
  | OSetLimit id l => go_st_SetWrkChainStorageLimit s id l
  | OSetRecord id b => go_st_SetWrkChainBlock s id b
  | ODelRecord id t => go_st_deleteWrkChainHash s id t
  end.

(* the arguments are what Go's uint64 fields can hold (and the denomination is not malformed-but-non-blank) *)
Definition op_ok (o : sop) : Prop :=
  match o with
  | OSetParams p => wrk_params_nonneg p /\ denom_ok p
  | OSetHighest v => u64 v
  | OSetEntity g => u64 (WrkChain_WrkchainId g)
  | OSetLimit id _ => u64 id
  | OSetRecord id b => u64 id /\ u64 (WrkChainBlock_Height b)
  | ODelRecord id t => u64 id /\ u64 t
  end.

Fixpoint arun (w : rworld) (ops : list sop) : outcome rworld :=
  match ops with [] => Ok w | o :: r => do x <- astep w o; arun (fst x) r end.
Fixpoint crun (s : store) (ops : list sop) : outcome store :=
  match ops with [] => Ok s | o :: r => do x <- cstep s o; crun (fst x) r end.

Definition sim_end (oa : outcome rworld) (oc : outcome store) : Prop :=
  match oa, oc with
  | Ok w', Ok s' => Rreg s' (rw_reg w')
  | Err a, Err c => a = c
  | Panic a, Panic c => a = c
  | _, _ => False
  end.

Theorem step_sim s w o : Rreg s (rw_reg w) -> op_ok o -> sim_res (astep w o) (cstep s o).
Proof.
  intros R Hk. destruct o; cbn [astep cstep op_ok] in *.
  - destruct Hk. apply SetParams_sim; assumption.
  - apply SetHighestID_sim; assumption.
  - apply SetEntity_sim; assumption.
  - apply SetStorageLimit_sim; assumption.
  - destruct Hk. apply SetRecord_sim; assumption.
  - destruct Hk. apply DeleteRecord_sim; assumption.
Qed.

Theorem run_sim ops : forall s w, Rreg s (rw_reg w) -> Forall op_ok ops -> sim_end (arun w ops) (crun s ops).
Proof.
  induction ops as [|o ops IH]; intros s w R HF; cbn [arun crun]; [exact R|].
  inversion HF as [|? ? Ho HF']; subst. pose proof (step_sim s w o R Ho) as H. unfold sim_res in H.
  destruct (astep w o) as [[w1 []]|a|a], (cstep s o) as [[s1 []]|c|c]; cbn [obind fst]; try contradiction.
  - apply IH; assumption.
  - exact H.
  - exact H.
Qed.

(* no step of such a history panics, on either side *)
Theorem run_no_panic ops s w : Rreg s (rw_reg w) -> Forall op_ok ops ->
  (forall c, arun w ops <> Panic c) /\ (forall c, crun s ops <> Panic c).
Proof.
  revert s w. induction ops as [|o ops IH]; intros s w R HF; cbn [arun crun]; [split; intros c E; discriminate E|].
  inversion HF as [|? ? Ho HF']; subst. pose proof (step_sim s w o R Ho) as H. unfold sim_res in H.
  assert (Ha : forall c, astep w o <> Panic c).
  { destruct o; cbn [astep]; intros c E; try discriminate E.
    unfold reg_SetParams, reg_store_params in E. destruct (reg_params_valid (params_of_go p)); discriminate E. }
  destruct (astep w o) as [[w1 []]|a|a], (cstep s o) as [[s1 []]|c|c]; cbn [obind fst]; try contradiction.
  - apply (IH s1 w1); assumption.
  - split; intros c' E; discriminate E.
  - exfalso. apply (Ha a). reflexivity.
Qed.

(* ---- everything a reader can see, packaged: related states are observationally equal ---- *)
Definition readers_agree (s : store) (w : rworld) : Prop :=
  go_st_GetParams s = Ok (reg_GetParams w) /\
  go_st_GetParamDenom s = Ok (reg_GetParamDenom w) /\
  go_st_GetParamDefaultStorageLimit s = Ok (reg_GetParamDefaultStorageLimit w) /\
  go_st_GetParamMaxStorageLimit s = Ok (reg_GetParamMaxStorageLimit w) /\
  go_st_GetParamRegistrationFee s = Ok (rp_fee_register (r_params (rw_reg w))) /\
  go_st_GetParamRecordFee s = Ok (rp_fee_record (r_params (rw_reg w))) /\
  go_st_GetParamPurchaseStorageFee s = Ok (rp_fee_purchase (r_params (rw_reg w))) /\
  go_st_GetHighestWrkChainID s = reg_GetHighestID w /\
  (forall id, u64 id -> go_st_IsWrkChainRegistered s id = Ok (reg_IsRegistered w id)) /\
  (forall id, u64 id -> go_st_GetWrkChain s id = Ok (reg_GetEntity w id)) /\
  (forall id, u64 id -> go_st_HasWrkChainStorageLimit s id = Ok (ahas id (r_limits (rw_reg w)))) /\
  (forall id, u64 id -> go_st_GetWrkChainStorageLimit s id = Ok (reg_GetStorageLimit w id)) /\
  (forall id t, u64 id -> u64 t -> go_st_IsWrkChainBlockRecorded s id t = Ok (ahas (id, t) (r_recs (rw_reg w)))) /\
  (forall id t, u64 id -> u64 t -> go_st_GetWrkChainBlock s id t = Ok (reg_GetRecord w id t)) /\
  go_st_GetAllWrkChains s = Ok (map (fun kv => to_go_entity (snd kv)) (zsort (r_regs (rw_reg w)))) /\
  (forall id, u64 id -> go_st_GetAllWrkChainBlockHashes s id =
                        Ok (map (fun kr => rec_to_go (snd kr)) (sort_by_key (records_of id (r_recs (rw_reg w)))))) /\
  (forall id, u64 id -> go_st_GetLastWrkChainHeightInState s id =
                        Ok (hd 0 (map fst (sort_by_key (records_of id (r_recs (rw_reg w))))))) /\
  (forall id, u64 id -> (forall h rc, In ((id, h), rc) (r_recs (rw_reg w)) -> 1 <= h) ->
                        go_st_GetLastWrkChainHeightInState s id = Ok (reg_LowestKeyInState w id)).

Theorem readers_refine s w : Rreg s (rw_reg w) -> readers_agree s w.
Proof.
  intros R. unfold readers_agree.
  split; [apply GetParams_refines; exact R|]. split; [apply GetParamDenom_refines; exact R|].
  split; [apply GetParamDefaultStorageLimit_refines; exact R|]. split; [apply GetParamMaxStorageLimit_refines; exact R|].
  split; [apply GetParamRegistrationFee_refines; exact R|]. split; [apply GetParamRecordFee_refines; exact R|].
  split; [apply GetParamPurchaseStorageFee_refines; exact R|]. split; [apply GetHighestID_refines; exact R|].
  split; [intros; apply IsRegistered_refines; assumption|]. split; [intros; apply GetEntity_refines; assumption|].
  split; [intros; apply HasStorageLimit_refines; assumption|]. split; [intros; apply GetStorageLimit_refines; assumption|].
  split; [intros; apply IsRecorded_refines; assumption|]. split; [intros; apply GetRecord_refines; assumption|].
  split; [apply (GetAllEntities_refines s w R)|].
  split; [intros id Hid; apply (GetAllRecords_refines s w id R Hid)|].
  split; [intros id Hid; apply LowestKeyInState_refines_min; assumption|].
  intros id Hid Hpos. apply LowestKeyInState_refines; assumption.
Qed.

Corollary run_readers ops s w s' w' : Rreg s (rw_reg w) -> Forall op_ok ops ->
  crun s ops = Ok s' -> arun w ops = Ok w' -> readers_agree s' w'.
Proof.
  intros R HF Hc Ha. pose proof (run_sim ops s w R HF) as H. rewrite Hc, Ha in H. apply readers_refine. exact H.
Qed.

(* the two runs end in the same class: an accepted history on one side is accepted on the other *)
Corollary run_same_verdict ops s w : Rreg s (rw_reg w) -> Forall op_ok ops ->
  (forall w', arun w ops = Ok w' -> exists s', crun s ops = Ok s' /\ Rreg s' (rw_reg w')) /\
  (forall s', crun s ops = Ok s' -> exists w', arun w ops = Ok w' /\ Rreg s' (rw_reg w')) /\
  (forall c, arun w ops = Err c <-> crun s ops = Err c).
Proof.
  intros R HF. pose proof (run_sim ops s w R HF) as H. unfold sim_end in H.
  destruct (arun w ops) as [w1|a|a], (crun s ops) as [s1|c|c]; try contradiction.
  - split; [|split].
    + intros w' E. injection E as <-. exists s1. split; [reflexivity | exact H].
    + intros s' E. injection E as <-. exists w1. split; [reflexivity | exact H].
    + intros c. split; intros E; discriminate E.
  - subst c. split; [|split].
    + intros w' E. discriminate E.
    + intros s' E. discriminate E.
    + intros c. split; intros E; injection E as <-; reflexivity.
  - subst c. split; [|split].
    + intros w' E. discriminate E.
    + intros s' E. discriminate E.
    + intros c. split; intros E; discriminate E.
Qed.

(* ================================================================== *)
(* 8. the store determines the abstract state                            *)
(* ================================================================== *)

Lemma to_go_entity_inj rg1 rg2 : to_go_entity rg1 = to_go_entity rg2 -> rg1 = rg2.
Proof. intros E. rewrite <- (of_go_to_go_entity rg1), <- (of_go_to_go_entity rg2), E. reflexivity. Qed.

Lemma rec_to_go_inj rc1 rc2 : five (rc_hashes rc1) -> five (rc_hashes rc2) -> rec_to_go rc1 = rec_to_go rc2 -> rc1 = rc2.
Proof. intros A1 A2 E. rewrite <- (rec_of_to_go rc1 A1), <- (rec_of_to_go rc2 A2), E. reflexivity. Qed.

(* two abstract states represented by one store have the same parameters and counter and the same maps (as maps:
   the association lists may differ in order only) *)
Theorem Rreg_functional s st1 st2 : Rreg s st1 -> Rreg s st2 ->
  r_params st1 = r_params st2 /\ r_next st1 = r_next st2 /\
  (forall id, aget id (r_regs st1) = aget id (r_regs st2)) /\
  (forall id, aget id (r_limits st1) = aget id (r_limits st2)) /\
  (forall k, aget k (r_recs st1) = aget k (r_recs st2)).
Proof.
  intros R1 R2. split; [|split; [|split; [|split]]].
  - pose proof (R_params _ _ R1) as E0. rewrite (R_params _ _ R2) in E0.
    assert (E : params_to_go (r_params st2) = params_to_go (r_params st1)) by congruence. clear E0.
    rewrite <- (params_of_to_go (r_params st1)), <- (params_of_to_go (r_params st2)), E. reflexivity.
  - pose proof (R_next _ _ R1) as E0. rewrite (R_next _ _ R2) in E0.
    assert (E : be64 (Z.to_N (r_next st2)) = be64 (Z.to_N (r_next st1))) by congruence. clear E0.
    pose proof (R_next_range _ _ R1) as H1. pose proof (R_next_range _ _ R2) as H2. unfold u64 in *.
    apply be64_inj in E; [apply Z2N.inj in E; lia | apply wf_id_lt, u64_wf; assumption ..].
  - intros id. destruct (R_regs_wf _ _ R1) as [_ W1]. destruct (R_regs_wf _ _ R2) as [_ W2].
    assert (Hu : forall st, (forall i rg, In (i, rg) (r_regs st) -> u64 i /\ rg_id rg = i) -> ~ u64 id -> aget id (r_regs st) = None).
    { intros st W N. destruct (aget id (r_regs st)) as [rg|] eqn:G; [|reflexivity]. apply aget_In in G. apply W in G. tauto. }
    assert (D : u64 id \/ ~ u64 id) by (unfold u64; lia). destruct D as [Hid|N]; [|rewrite (Hu st1 W1 N), (Hu st2 W2 N); reflexivity].
    pose proof (R_regs _ _ R1 id Hid) as E. rewrite (R_regs _ _ R2 id Hid) in E.
    destruct (aget id (r_regs st1)) as [a|] eqn:G1, (aget id (r_regs st2)) as [b|] eqn:G2; cbn [option_map] in E; try discriminate E; [|reflexivity].
    assert (E' : to_go_entity b = to_go_entity a) by (unfold v_reg in E; congruence).
    f_equal. symmetry. apply to_go_entity_inj. exact E'.
  - intros id. destruct (R_limits_wf _ _ R1) as [_ W1]. destruct (R_limits_wf _ _ R2) as [_ W2].
    assert (Hu : forall st, (forall i l, In (i, l) (r_limits st) -> u64 i) -> ~ u64 id -> aget id (r_limits st) = None).
    { intros st W N. destruct (aget id (r_limits st)) as [l|] eqn:G; [|reflexivity]. apply aget_In in G. apply W in G. tauto. }
    assert (D : u64 id \/ ~ u64 id) by (unfold u64; lia). destruct D as [Hid|N]; [|rewrite (Hu st1 W1 N), (Hu st2 W2 N); reflexivity].
    pose proof (R_limits _ _ R1 id Hid) as E. rewrite (R_limits _ _ R2 id Hid) in E.
    destruct (aget id (r_limits st1)) as [a|], (aget id (r_limits st2)) as [b|]; cbn [option_map] in E; try discriminate E; [|reflexivity].
    assert (E' : b = a) by (unfold v_lim in E; congruence). rewrite E'. reflexivity.
  - intros [id t]. destruct (R_recs_wf _ _ R1) as [_ W1]. destruct (R_recs_wf _ _ R2) as [_ W2].
    assert (Hu : forall st, (forall i u rc, In ((i, u), rc) (r_recs st) -> u64 i /\ u64 u /\ rc_key rc = u /\ five (rc_hashes rc)) ->
                 ~ (u64 id /\ u64 t) -> aget (id, t) (r_recs st) = None).
    { intros st W N. destruct (aget (id, t) (r_recs st)) as [rc|] eqn:G; [|reflexivity]. apply aget_In in G. apply W in G. tauto. }
    assert (D : (u64 id /\ u64 t) \/ ~ (u64 id /\ u64 t)) by (unfold u64; lia).
    destruct D as [[Hid Ht]|N]; [|rewrite (Hu st1 W1 N), (Hu st2 W2 N); reflexivity].
    pose proof (R_recs _ _ R1 id t Hid Ht) as E. rewrite (R_recs _ _ R2 id t Hid Ht) in E.
    destruct (aget (id, t) (r_recs st1)) as [a|] eqn:G1, (aget (id, t) (r_recs st2)) as [b|] eqn:G2; cbn [option_map] in E; try discriminate E; [|reflexivity].
    assert (E' : rec_to_go b = rec_to_go a) by (unfold v_rec in E; congruence).
    apply aget_In in G1. apply aget_In in G2. apply W1 in G1. apply W2 in G2.
    f_equal. symmetry. apply rec_to_go_inj; tauto.
Qed.

(* ================================================================== *)
(* 9. NON-VACUITY: a concrete related pair, and a concrete history       *)
(* ================================================================== *)

Definition demo_s0 : store := [(kparams, WV_Params ex_params); (khighest, WV_bytes (be64 3))].
Definition demo_w0 : rworld := mk_rworld 0 0 (init_state ex_params 3).

Lemma u64_small x : 0 <= x < 1000 -> u64 x.
Proof. unfold u64. lia. Qed.

Example demo_R0 : Rreg demo_s0 (rw_reg demo_w0).
Proof.
  apply (init_refines ex_params 3 [(kparams, WV_Params ex_params)] demo_s0);
    [vm_compute; reflexivity | vm_compute; reflexivity | apply u64_small; lia].
Qed.

Definition ok_or {A} (d : A) (o : outcome A) : A := match o with Ok a => a | _ => d end.

(* a history run from the related initial pair ends in a related pair *)
Lemma demo_run ops s' w' : Forall op_ok ops -> crun demo_s0 ops = Ok s' -> arun demo_w0 ops = Ok w' -> Rreg s' (rw_reg w').
Proof. intros HF Ec Ea. pose proof (run_sim ops demo_s0 demo_w0 demo_R0 HF) as H. rewrite Ec, Ea in H. exact H. Qed.

Ltac ops_ok :=
  repeat (apply Forall_cons; [cbn [op_ok]|]); try apply Forall_nil;
  try (apply u64_small; cbn; lia); try (split; apply u64_small; cbn; lia).

Definition demo_ops : list sop :=
  [OSetEntity (ex_wc 2 8); OSetEntity (ex_wc 1 7); OSetLimit 1 100;
   OSetRecord 1 (ex_block 20); OSetRecord 2 (ex_block 7); OSetRecord 1 (ex_block 300); OSetRecord 1 (ex_block 5);
   ODelRecord 1 20; OSetHighest 4; OSetParams (mk_go_Params 2 2 2 1 10 30)].

Lemma demo_ops_ok : Forall op_ok demo_ops.
Proof. unfold demo_ops. ops_ok. split; [unfold wrk_params_nonneg; cbn; lia | left; cbn; lia]. Qed.

Definition demo_s1 : store := ok_or [] (crun demo_s0 demo_ops).
Definition demo_w1 : rworld := ok_or demo_w0 (arun demo_w0 demo_ops).

Example demo_R1 : crun demo_s0 demo_ops = Ok demo_s1 /\ arun demo_w0 demo_ops = Ok demo_w1 /\ Rreg demo_s1 (rw_reg demo_w1).
Proof.
  assert (Ec : crun demo_s0 demo_ops = Ok demo_s1) by (vm_compute; reflexivity).
  assert (Ea : arun demo_w0 demo_ops = Ok demo_w1) by (vm_compute; reflexivity).
  split; [exact Ec|]. split; [exact Ea|]. exact (demo_run _ _ _ demo_ops_ok Ec Ea).
Qed.

(* the generated accessors and the primitives run the same history from the related initial pair and end related;
   the WRKChains were registered in the order 2, 1: the store lists them ascending, the association list as inserted *)
Example demo_related :
  exists s w, crun demo_s0 demo_ops = Ok s /\ arun demo_w0 demo_ops = Ok w /\ Rreg s (rw_reg w) /\
    List.length s = 8%nat /\
    akeys (r_regs (rw_reg w)) = [2; 1] /\
    go_st_GetAllWrkChains s = Ok [ex_wc 1 7; ex_wc 2 8] /\
    reg_GetAllEntities w = [ex_wc 2 8; ex_wc 1 7] /\
    go_st_GetAllWrkChainBlockHashes s 1 = Ok [ex_block 5; ex_block 300] /\
    go_st_IterateWrkChainBlockHashesPaginated s 1 2 1 (fun acc b => Ok (acc ++ [b], false)) [] = Ok [ex_block 300] /\
    reg_GetRecord w 1 300 = (ex_block 300, true) /\ reg_GetRecord w 1 20 = (zero_go_WrkChainBlock, false) /\
    go_st_GetLastWrkChainHeightInState s 1 = Ok 5 /\ reg_LowestKeyInState w 1 = 5 /\
    go_st_GetLastWrkChainHeightInState s 3 = Ok 0 /\ reg_LowestKeyInState w 3 = 0 /\
    go_st_GetHighestWrkChainID s = Ok 4 /\ reg_GetHighestID w = Ok 4 /\
    go_st_GetParams s = Ok (mk_go_Params 2 2 2 1 10 30) /\ reg_GetParams w = mk_go_Params 2 2 2 1 10 30.
Proof.
  exists demo_s1, demo_w1. destruct demo_R1 as [Ec [Ea R]]. split; [exact Ec|]. split; [exact Ea|]. split; [exact R|].
  repeat split; vm_compute; reflexivity.
Qed.

(* so the ascending-ids hypothesis of GetAllEntities_refines_sorted cannot be dropped *)
Example GetAllEntities_sorted_refuted :
  exists s w, Rreg s (rw_reg w) /\ go_st_GetAllWrkChains s <> Ok (reg_GetAllEntities w).
Proof.
  destruct demo_related as [s [w [_ [_ [R [_ [_ [H1 [H2 _]]]]]]]]]. exists s, w. split; [exact R|].
  rewrite H1, H2. intros E. discriminate E.
Qed.

(* ================================================================== *)
(* 10. what the relation / the theorems have to exclude                  *)
(* ================================================================== *)

(* the primitives are maps over Z; the byte store keys an id by its low 64 bits.
   (a) reading an id outside the uint64 range: the store answers for id mod 2^64, the primitive finds nothing *)
Definition rr_ops : list sop := [OSetEntity (ex_wc 0 7)].
Definition rr_s : store := ok_or [] (crun demo_s0 rr_ops).
Definition rr_w : rworld := ok_or demo_w0 (arun demo_w0 rr_ops).
Example reader_range_refuted :
  crun demo_s0 rr_ops = Ok rr_s /\ arun demo_w0 rr_ops = Ok rr_w /\ Rreg rr_s (rw_reg rr_w) /\
  go_st_GetWrkChain rr_s (2 ^ 64) = Ok (ex_wc 0 7, true) /\ reg_GetEntity rr_w (2 ^ 64) = (zero_go_WrkChain, false).
Proof.
  assert (Ec : crun demo_s0 rr_ops = Ok rr_s) by (vm_compute; reflexivity).
  assert (Ea : arun demo_w0 rr_ops = Ok rr_w) by (vm_compute; reflexivity).
  split; [exact Ec|]. split; [exact Ea|]. split; [|split; vm_compute; reflexivity].
  refine (demo_run _ _ _ _ Ec Ea). unfold rr_ops. ops_ok.
Qed.

(* (b) writing an entity whose id is outside the range: the primitive files it under 2^64, the store under 0; the
   results are not related (they already disagree on the in-range id 0) *)
Example SetEntity_range_refuted :
  exists s w, go_st_SetWrkChain demo_s0 (ex_wc (2 ^ 64) 7) = Ok (s, tt) /\ reg_SetEntity demo_w0 (ex_wc (2 ^ 64) 7) = Ok (w, tt) /\
    go_st_GetWrkChain s 0 = Ok (ex_wc (2 ^ 64) 7, true) /\ reg_GetEntity w 0 = (zero_go_WrkChain, false) /\
    ~ Rreg s (rw_reg w).
Proof.
  eexists. eexists. split; [vm_compute; reflexivity|]. split; [vm_compute; reflexivity|].
  split; [vm_compute; reflexivity|]. split; [vm_compute; reflexivity|].
  intros R. pose proof (GetEntity_refines _ _ R 0 (u64_small 0 ltac:(lia))) as X. vm_compute in X. discriminate X.
Qed.

(* (c) the same for the counter: reg_SetHighestID keeps the Z, the store its low 64 bits *)
Example SetHighestID_range_refuted :
  exists s w, go_st_SetHighestWrkChainID demo_s0 (2 ^ 64) = Ok (s, tt) /\ reg_SetHighestID demo_w0 (2 ^ 64) = Ok (w, tt) /\
    go_st_GetHighestWrkChainID s = Ok 0 /\ reg_GetHighestID w = Ok (2 ^ 64).
Proof. eexists. eexists. repeat split; vm_compute; reflexivity. Qed.

(* (d) a per-WRKChain listing / lowest height asked for an id outside the range answers for id mod 2^64 *)
Example GetAllRecords_range_refuted :
  exists s w, Rreg s (rw_reg w) /\
    go_st_GetAllWrkChainBlockHashes s (2 ^ 64 + 1) = Ok [ex_block 5; ex_block 300] /\
    records_of (2 ^ 64 + 1) (r_recs (rw_reg w)) = [] /\
    go_st_GetLastWrkChainHeightInState s (2 ^ 64 + 1) = Ok 5 /\ reg_LowestKeyInState w (2 ^ 64 + 1) = 0.
Proof.
  exists demo_s1, demo_w1. split; [apply demo_R1|]. repeat split; vm_compute; reflexivity.
Qed.

(* (e) the counter must be present: the primitive reg_GetHighestID never fails, the generated reader does on a store
   without the entry (the genesis always writes it) *)
Example GetHighestID_absent_refuted :
  go_st_GetHighestWrkChainID [] = Err STORE_ERR /\ forall w, reg_GetHighestID w = Ok (r_next (rw_reg w)).
Proof. split; [reflexivity | intros w; reflexivity]. Qed.

(* (f) SetParams: the primitive refuses every invalid set with code 40; the generated code returns sdk.ValidateDenom's
   own error (1) for a malformed non-blank denomination -- same class (refused, nothing written), different code *)
Example SetParams_code_refuted :
  let p := mk_go_Params 1 1 1 (-7) 2 10 in
  wrk_params_nonneg p /\ go_st_SetParams demo_s0 p = Err 1 /\ reg_SetParams demo_w0 p = Err 40.
Proof. cbv zeta. split; [unfold wrk_params_nonneg; cbn; lia|]. split; vm_compute; reflexivity. Qed.

(* (g) SetParams: a negative fee (not a uint64) passes the Go `== 0` test and is refused by the primitive *)
Example SetParams_nonneg_refuted :
  let p := mk_go_Params (-1) 1 1 0 2 10 in
  (exists s', go_st_SetParams demo_s0 p = Ok (s', tt)) /\ reg_SetParams demo_w0 p = Err 40.
Proof. cbv zeta. split; [eexists; vm_compute; reflexivity | vm_compute; reflexivity]. Qed.

(* (h) GetLastWrkChainHeightInState vs reg_LowestKeyInState with a record at height 0 (a uint64 the primitives and the
   relation tolerate; MsgRecordWrkChainBlock.ValidateBasic refuses it): lowest_key reads 0 as "nothing found yet", so
   on a RELATED pair the primitive answers 5 (and its answer depends on the order of the association list), the
   generated accessor the true minimum 0 *)
Definition zh_ops : list sop := [OSetEntity (ex_wc 1 7); OSetRecord 1 (ex_block 5); OSetRecord 1 (ex_block 0)].
Definition zh_s : store := ok_or [] (crun demo_s0 zh_ops).
Definition zh_w : rworld := ok_or demo_w0 (arun demo_w0 zh_ops).
Example LowestKeyInState_zero_height_refuted :
  crun demo_s0 zh_ops = Ok zh_s /\ arun demo_w0 zh_ops = Ok zh_w /\ Rreg zh_s (rw_reg zh_w) /\
  go_st_GetLastWrkChainHeightInState zh_s 1 = Ok 0 /\ reg_LowestKeyInState zh_w 1 = 5 /\
  go_st_GetAllWrkChainBlockHashes zh_s 1 = Ok [ex_block 0; ex_block 5].
Proof.
  assert (Ec : crun demo_s0 zh_ops = Ok zh_s) by (vm_compute; reflexivity).
  assert (Ea : arun demo_w0 zh_ops = Ok zh_w) by (vm_compute; reflexivity).
  split; [exact Ec|]. split; [exact Ea|]. split; [|repeat split; vm_compute; reflexivity].
  refine (demo_run _ _ _ _ Ec Ea). unfold zh_ops. ops_ok.
Qed.

(* (i) page 0 of the paginated iterator: (0-1)*limit wraps in Go; the store description panics, no primitive models it *)
Example Paginated_page0_refuted :
  go_st_IterateWrkChainBlockHashesPaginated demo_s1 1 0 1 (fun acc b => Ok (acc ++ [b], false)) [] = Panic OKV_PANIC_PAGE.
Proof. vm_compute. reflexivity. Qed.
