(* The application whose three module fee decorators are the GENERATED AnteHandle functions (model/GeneratedApp.v:
   go_wrk_ante_full, go_bcn_ante_full, go_unlock_ante_full, go_ante_full, ..., go_node_run_full) is the application of
   model/GeneratedApp.v with the hand-sequenced decorators (go_ante, ...), hence the hand-written application of
   model/App.v:

     1. the per-module AnteHandle equalities (proofs/Generated{Wrkchain,Beacon}AnteHandleEq.v,
        proofs/GeneratedEnterpriseAnteEq.v) under the application invariant [gen_inv B a] and [tx_wf t] only;
     2. go_ante_full = go_ante = ante; DeliverTx, CheckTx, the node step;
     3. the capstone [gen_node_run_full_eq], with the hypotheses of [gen_node_run_eq] and nothing more;
     4. the example history of proofs/GeneratedAppEq.v.

   No generated function is unfolded here. *)
From Coq Require Import ZArith Lia List String Bool.
From MC Require Import lib.Prelude lib.AMap lib.GoSdk model.Bank model.Registry model.Enterprise model.App model.AppSpec
  model.GeneratedApp.
From MC Require Import proofs.BankProofs proofs.AppInv proofs.AppFeeProofs proofs.GeneratedAnteCommon proofs.GeneratedAppEq
  proofs.GeneratedAppTransport.
From MC Require model.AnteWorld model.WrkchainAnteGenSpec model.BeaconAnteGenSpec model.EnterpriseAnteGenSpec
  GeneratedWrkchainAnte GeneratedBeaconAnte GeneratedEnterpriseAnte.
From MC Require proofs.EnterpriseProofs proofs.GeneratedWrkchainAnteHandleEq proofs.GeneratedBeaconAnteHandleEq
  proofs.GeneratedEnterpriseAnteEq proofs.GeneratedEnterpriseEq proofs.AppCrashProofs.
Import ListNotations.
Local Open Scope Z_scope.
Local Open Scope bool_scope.

Module WH := GeneratedWrkchainAnteHandleEq.
Module BH := GeneratedBeaconAnteHandleEq.
Module EH := GeneratedEnterpriseAnteEq.
Module EPr := EnterpriseProofs.

(* ================================================================================================ *)
(* 1. the hypotheses of the per-module theorems, from the invariant                                   *)
(* ================================================================================================ *)

Lemma inv_locked_nonneg a x : app_inv a -> 0 <= snd (locked_coin (a_ent a) x).
Proof. intros I. exact (proj2 (EPr.locked_coin_ok _ _ x (EPr.inv_s _ (ai_ent a I)))). Qed.

Lemma inv_funds_hyps_wrk a t : app_inv a -> NoDup (map fst (tx_fee t)) -> WH.funds_hyps (a_bank a) (a_ent a) t.
Proof. intros I Nd. repeat split; [exact (ai_wf a I)|exact (ai_nonneg a I)|apply inv_locked_nonneg; exact I|exact Nd]. Qed.
Lemma inv_funds_hyps_bcn a t : app_inv a -> NoDup (map fst (tx_fee t)) -> BH.funds_hyps (a_bank a) (a_ent a) t.
Proof. intros I Nd. repeat split; [exact (ai_wf a I)|exact (ai_nonneg a I)|apply inv_locked_nonneg; exact I|exact Nd]. Qed.

Lemma inv_fee_hyps_wrk B a t : gen_inv B a -> Forall msg_wf (tx_msgs t) -> WH.fee_hyps (a_wrk a) t.
Proof.
  intros [I E] W. destruct (inv_fee_purchase_pos a I) as [Pw _].
  split; [exact (gx_wrk_fees B a E)|]. split; [exact Pw|]. exact (purchases_u64_wrk t W).
Qed.
Lemma inv_fee_hyps_bcn B a t : gen_inv B a -> Forall msg_wf (tx_msgs t) -> BH.fee_hyps (a_bcn a) t.
Proof.
  intros [I E] W. destruct (inv_fee_purchase_pos a I) as [_ Pb].
  split; [exact (gx_bcn_fees B a E)|]. split; [exact Pb|]. exact (purchases_u64_bcn t W).
Qed.

(* ---- A4 under the invariant: the generated AnteHandle of each registry module on the application's state ---- *)
Theorem gen_wrk_AnteHandle_inv : forall B check a t,
  gen_inv B a -> tx_wf t ->
  GeneratedWrkchainAnte.go_AnteHandle (wrk_aworld check a) (WrkchainAnteGenSpec.gotx_of t) false =
  as_go_panic (reg_ante pick_wrk (a_wrk a) check (a_bank a) (a_ent a) t).
Proof.
  intros B check a t I W. apply WH.gen_wrk_AnteHandle_eq.
  - intros _. exact (inv_fee_hyps_wrk B a t I (tw_msgs t W)).
  - exact (inv_funds_hyps_wrk a t (proj1 I) (tw_fee t W)).
Qed.

Theorem gen_bcn_AnteHandle_inv : forall B check a t,
  gen_inv B a -> tx_wf t ->
  GeneratedBeaconAnte.go_AnteHandle (bcn_aworld check a) (BeaconAnteGenSpec.gotx_of t) false =
  as_go_panic (reg_ante pick_bcn (a_bcn a) check (a_bank a) (a_ent a) t).
Proof.
  intros B check a t I W. apply BH.gen_bcn_AnteHandle_eq.
  - intros _. exact (inv_fee_hyps_bcn B a t I (tw_msgs t W)).
  - exact (inv_funds_hyps_bcn a t (proj1 I) (tw_fee t W)).
Qed.

(* DeliverTx: the application invariant and a fee with one coin per denomination are enough *)
Theorem gen_wrk_AnteHandle_deliver_inv : forall a t,
  app_inv a -> NoDup (map fst (tx_fee t)) ->
  GeneratedWrkchainAnte.go_AnteHandle (wrk_aworld false a) (WrkchainAnteGenSpec.gotx_of t) false =
  reg_ante pick_wrk (a_wrk a) false (a_bank a) (a_ent a) t.
Proof. intros a t I Nd. apply WH.gen_wrk_AnteHandle_deliver_eq. exact (inv_funds_hyps_wrk a t I Nd). Qed.

Theorem gen_bcn_AnteHandle_deliver_inv : forall a t,
  app_inv a -> NoDup (map fst (tx_fee t)) ->
  GeneratedBeaconAnte.go_AnteHandle (bcn_aworld false a) (BeaconAnteGenSpec.gotx_of t) false =
  reg_ante pick_bcn (a_bcn a) false (a_bank a) (a_ent a) t.
Proof. intros a t I Nd. apply BH.gen_bcn_AnteHandle_deliver_eq. exact (inv_funds_hyps_bcn a t I Nd). Qed.

(* ================================================================================================ *)
(* 2. the decorators of the application, the ante chain                                               *)
(* ================================================================================================ *)

Lemma as_negcoin_panic_is o : as_negcoin_panic o = as_model_panic o.
Proof. reflexivity. Qed.

Theorem gen_wrk_ante_full_model : forall B check a t,
  gen_inv B a -> tx_wf t -> go_wrk_ante_full check a t = reg_ante pick_wrk (a_wrk a) check (a_bank a) (a_ent a) t.
Proof.
  intros B check a t I W. unfold go_wrk_ante_full.
  rewrite (gen_wrk_AnteHandle_inv B check a t I W), as_negcoin_panic_is. apply as_model_go_panic.
Qed.

Theorem gen_bcn_ante_full_model : forall B check a t,
  gen_inv B a -> tx_wf t -> go_bcn_ante_full check a t = reg_ante pick_bcn (a_bcn a) check (a_bank a) (a_ent a) t.
Proof.
  intros B check a t I W. unfold go_bcn_ante_full.
  rewrite (gen_bcn_AnteHandle_inv B check a t I W), as_negcoin_panic_is. apply as_model_go_panic.
Qed.

Theorem gen_wrk_ante_full_eq : forall B check a t,
  gen_inv B a -> tx_wf t -> go_wrk_ante_full check a t = go_wrk_ante check a t.
Proof.
  intros B check a t I W. rewrite (gen_wrk_ante_full_model B check a t I W). symmetry. apply gen_wrk_ante_eq.
  intros _. destruct I as [I E]. destruct (inv_fee_purchase_pos a I) as [Pw _].
  split; [exact (gx_wrk_fees B a E)|]. split; [exact Pw|exact (tw_msgs t W)].
Qed.

Theorem gen_bcn_ante_full_eq : forall B check a t,
  gen_inv B a -> tx_wf t -> go_bcn_ante_full check a t = go_bcn_ante check a t.
Proof.
  intros B check a t I W. rewrite (gen_bcn_ante_full_model B check a t I W). symmetry. apply gen_bcn_ante_eq.
  intros _. destruct I as [I E]. destruct (inv_fee_purchase_pos a I) as [_ Pb].
  split; [exact (gx_bcn_fees B a E)|]. split; [exact Pb|exact (tw_msgs t W)].
Qed.

(* DeliverTx *)
Lemma gen_wrk_ante_full_deliver : forall a t,
  app_inv a -> NoDup (map fst (tx_fee t)) -> go_wrk_ante_full false a t = go_wrk_ante false a t.
Proof.
  intros a t I Nd. unfold go_wrk_ante_full. rewrite (gen_wrk_AnteHandle_deliver_inv a t I Nd).
  rewrite gen_wrk_ante_eq by discriminate.
  rewrite <- (as_model_go_panic pick_wrk (a_wrk a) false (a_bank a) (a_ent a) t) at 2.
  rewrite <- (WH.gen_wrk_AnteHandle_eq (a_now a) false (a_bank a) (a_ent a) (a_wrk a) t ltac:(discriminate)
                (inv_funds_hyps_wrk a t I Nd)).
  rewrite (WH.gen_wrk_AnteHandle_deliver_eq (a_now a) (a_bank a) (a_ent a) (a_wrk a) t (inv_funds_hyps_wrk a t I Nd)).
  reflexivity.
Qed.

Lemma gen_bcn_ante_full_deliver : forall a t,
  app_inv a -> NoDup (map fst (tx_fee t)) -> go_bcn_ante_full false a t = go_bcn_ante false a t.
Proof.
  intros a t I Nd. unfold go_bcn_ante_full. rewrite (gen_bcn_AnteHandle_deliver_inv a t I Nd).
  rewrite gen_bcn_ante_eq by discriminate.
  rewrite <- (as_model_go_panic pick_bcn (a_bcn a) false (a_bank a) (a_ent a) t) at 2.
  rewrite <- (BH.gen_bcn_AnteHandle_eq (a_now a) false (a_bank a) (a_ent a) (a_bcn a) t ltac:(discriminate)
                (inv_funds_hyps_bcn a t I Nd)).
  rewrite (BH.gen_bcn_AnteHandle_deliver_eq (a_now a) (a_bank a) (a_ent a) (a_bcn a) t (inv_funds_hyps_bcn a t I Nd)).
  reflexivity.
Qed.

(* the enterprise decorator: no hypothesis *)
Theorem gen_unlock_ante_full_eq : forall a t, go_unlock_ante_full a t = GeneratedEnterpriseEq.go_unlock_ante a t.
Proof. intros a t. exact (EH.gen_ent_AnteHandle_glue a t). Qed.

Theorem gen_unlock_ante_full_model : forall a t,
  app_inv a -> coins_valid (tx_fee t) = true -> go_unlock_ante_full a t = unlock_ante a t.
Proof. intros a t I Cv. exact (EH.gen_ent_AnteHandle_eq a t I Cv). Qed.

(* ---- the ante chain ---- *)
Theorem gen_ante_full_eq : forall B check a t,
  gen_inv B a -> tx_wf t -> go_ante_full check a t = go_ante check a t.
Proof.
  intros B check a t I W. unfold go_ante_full, go_ante.
  rewrite (gen_wrk_ante_full_eq B check a t I W), (gen_bcn_ante_full_eq B check a t I W).
  destruct (negb _); [reflexivity|].
  destruct (go_wrk_ante check a t) as [[]| |]; cbn [obind]; try reflexivity.
  destruct (go_bcn_ante check a t) as [[]| |]; cbn [obind]; try reflexivity.
  rewrite gen_unlock_ante_full_eq. reflexivity.
Qed.

Theorem gen_ante_full_model : forall B check a t,
  gen_inv B a -> tx_wf t -> go_ante_full check a t = ante check a t.
Proof.
  intros B check a t I W. rewrite (gen_ante_full_eq B check a t I W). exact (gen_app_ante_eq check B a t I (tw_msgs t W)).
Qed.

Theorem gen_ante_full_deliver_eq : forall a t,
  app_inv a -> NoDup (map fst (tx_fee t)) -> go_ante_full false a t = go_ante false a t.
Proof.
  intros a t I Nd. unfold go_ante_full, go_ante.
  rewrite (gen_wrk_ante_full_deliver a t I Nd), (gen_bcn_ante_full_deliver a t I Nd).
  destruct (negb _); [reflexivity|].
  destruct (go_wrk_ante false a t) as [[]| |]; cbn [obind]; try reflexivity.
  destruct (go_bcn_ante false a t) as [[]| |]; cbn [obind]; try reflexivity.
  rewrite gen_unlock_ante_full_eq. reflexivity.
Qed.

Theorem gen_ante_full_deliver_model : forall a t,
  app_inv a -> NoDup (map fst (tx_fee t)) -> go_ante_full false a t = ante false a t.
Proof. intros a t I Nd. rewrite (gen_ante_full_deliver_eq a t I Nd). exact (gen_app_ante_deliver_eq a t I). Qed.

(* ================================================================================================ *)
(* 3. DeliverTx, CheckTx, the node                                                                    *)
(* ================================================================================================ *)

Theorem gen_deliver_tx_full_eq : forall a t,
  app_inv a -> NoDup (map fst (tx_fee t)) -> go_deliver_tx_full a t = go_deliver_tx a t.
Proof. intros a t I Nd. unfold go_deliver_tx_full, go_deliver_tx. rewrite (gen_ante_full_deliver_eq a t I Nd). reflexivity. Qed.

Theorem gen_check_tx_full_eq : forall B a t,
  gen_inv B a -> tx_wf t -> go_check_tx_full a t = go_check_tx a t.
Proof. intros B a t I W. unfold go_check_tx_full, go_check_tx. rewrite (gen_ante_full_eq B true a t I W). reflexivity. Qed.

Theorem gen_deliver_tx_full_model : forall B a t,
  tx_wf t -> Forall gmsg_ok (tx_msgs t) -> gen_inv B a -> B + leaves_l (tx_msgs t) < two63 ->
  go_deliver_tx_full a t = deliver_tx a t.
Proof.
  intros B a t W G I L. rewrite (gen_deliver_tx_full_eq a t (proj1 I) (tw_fee t W)).
  exact (gen_app_deliver_tx_eq B a t W G I L).
Qed.

Theorem gen_check_tx_full_model : forall B a t,
  tx_wf t -> Forall gmsg_ok (tx_msgs t) -> gen_inv B a -> go_check_tx_full a t = check_tx a t.
Proof. intros B a t W G I. rewrite (gen_check_tx_full_eq B a t I W). exact (gen_app_check_tx_eq B a t W G I). Qed.

Theorem gen_node_step_full_eq : forall B n o,
  gnode_inv B n -> op_wf n o -> go_node_step_full n o = go_node_step n o.
Proof.
  intros B n o (Ic & Ik & Id) W. destruct o as [now|t|t|ps| |]; cbn [go_node_step_full go_node_step op_wf] in *;
    try reflexivity.
  - destruct (n_deliver n) as [a|]; [|reflexivity].
    rewrite (gen_deliver_tx_full_eq a t (proj1 Id) (tw_fee t W)). reflexivity.
  - rewrite (gen_check_tx_full_eq B (n_check n) t Ik W). reflexivity.
Qed.

Theorem gen_node_step_full_model : forall B n o,
  gnode_inv B n -> op_wf n o -> gop_ok o -> B + op_size o < two63 -> go_node_step_full n o = node_step n o.
Proof. intros B n o I W G L. rewrite (gen_node_step_full_eq B n o I W). exact (gen_node_step_eq B n o I W G L). Qed.

Lemma gen_node_run_full : forall h B n,
  gnode_inv B n -> hist_wf n h -> ghist_ok h -> B + hist_size h < two63 ->
  go_node_run_full n h = node_run n h.
Proof.
  induction h as [|o h IH]; intros B n I W G L; [reflexivity|].
  destruct W as [Wo Wr]. inversion G as [|? ? Go Gh]; subst.
  cbn [hist_size sumsz fold_right] in *. fold (sumsz op_size h) in *. fold (hist_size h) in *.
  pose proof (op_size_nonneg o) as S0. pose proof (hist_size_nonneg h) as S1.
  cbn [go_node_run_full node_run]. rewrite (gen_node_step_full_model B n o I Wo Go ltac:(lia)).
  destruct (node_step n o) as [[n1 r]|] eqn:E; [|reflexivity].
  apply (IH (B + op_size o) n1); [|exact Wr|exact Gh|lia].
  exact (gnode_inv_step B n o n1 r I Wo Go ltac:(lia) E).
Qed.

(* ---- the capstone: the hypotheses of [gen_node_run_eq], nothing more ([hist_wf] gives [tx_wf] of every transaction,
   hence fees with one coin per denomination; the bank and enterprise facts the funds check needs are in [app_inv]) ---- *)
Theorem gen_node_run_full_eq : forall B g h,
  gen_inv B g -> hist_wf (node_init g) h -> ghist_ok h -> B + hist_size h < two63 ->
  go_node_run_full (node_init g) h = node_run (node_init g) h.
Proof. intros B g h I W G L. exact (gen_node_run_full h B (node_init g) (gnode_inv_init B g I) W G L). Qed.

Theorem gen_node_run_full_eq_from : forall B n h,
  gnode_inv B n -> hist_wf n h -> ghist_ok h -> B + hist_size h < two63 ->
  go_node_run_full n h = node_run n h.
Proof. intros B n h I W G L. exact (gen_node_run_full h B n I W G L). Qed.

Corollary gen_node_run_full_go : forall B g h,
  gen_inv B g -> hist_wf (node_init g) h -> ghist_ok h -> B + hist_size h < two63 ->
  go_node_run_full (node_init g) h = go_node_run (node_init g) h.
Proof.
  intros B g h I W G L. rewrite (gen_node_run_full_eq B g h I W G L). symmetry. exact (gen_node_run_eq B g h I W G L).
Qed.


(* ================================================================================================ *)
(* 3b. C06 through the generated decorators                                                           *)
(* ================================================================================================ *)

(* what the generated WRKChain / BEACON AnteHandle accepts at CheckTx, on a state satisfying the invariant *)
Theorem gen_wrk_AnteHandle_accepts_inv : forall B a t,
  gen_inv B a -> tx_wf t -> has_wrk t = true ->
  GeneratedWrkchainAnte.go_AnteHandle (wrk_aworld true a) (WrkchainAnteGenSpec.gotx_of t) false = Ok tt ->
  fee_amount_of (tx_fee t) (rp_denom (r_params (a_wrk a))) = expected_fee pick_wrk (a_wrk a) t /\
  (exists fee, fee_find (tx_fee t) (rp_denom (r_params (a_wrk a))) = Some fee /\
     snd fee <= balance (a_bank a) (tx_payer t) (fst fee) +
                (if fst (locked_coin (a_ent a) (tx_payer t)) =? fst fee then snd (locked_coin (a_ent a) (tx_payer t)) else 0)) /\
  (forall id m want, In (id, (m, want)) (max_slots_table pick_wrk (a_wrk a) t) -> want <= m).
Proof.
  intros B a t I W Hw H. apply (WH.gen_wrk_AnteHandle_accepts_exact (a_now a) (a_bank a) (a_ent a) (a_wrk a) t).
  - exact (inv_fee_hyps_wrk B a t I (tw_msgs t W)).
  - exact (inv_funds_hyps_wrk a t (proj1 I) (tw_fee t W)).
  - apply has_own_nonempty. exact Hw.
  - exact H.
Qed.

Theorem gen_bcn_AnteHandle_accepts_inv : forall B a t,
  gen_inv B a -> tx_wf t -> has_bcn t = true ->
  GeneratedBeaconAnte.go_AnteHandle (bcn_aworld true a) (BeaconAnteGenSpec.gotx_of t) false = Ok tt ->
  fee_amount_of (tx_fee t) (rp_denom (r_params (a_bcn a))) = expected_fee pick_bcn (a_bcn a) t /\
  (exists fee, fee_find (tx_fee t) (rp_denom (r_params (a_bcn a))) = Some fee /\
     snd fee <= balance (a_bank a) (tx_payer t) (fst fee) +
                (if fst (locked_coin (a_ent a) (tx_payer t)) =? fst fee then snd (locked_coin (a_ent a) (tx_payer t)) else 0)) /\
  (forall id m want, In (id, (m, want)) (max_slots_table pick_bcn (a_bcn a) t) -> want <= m).
Proof.
  intros B a t I W Hw H. apply (BH.gen_bcn_AnteHandle_accepts_exact (a_now a) (a_bank a) (a_ent a) (a_bcn a) t).
  - exact (inv_fee_hyps_bcn B a t I (tw_msgs t W)).
  - exact (inv_funds_hyps_bcn a t (proj1 I) (tw_fee t W)).
  - apply has_own_nonempty. exact Hw.
  - exact H.
Qed.

(* props/C06.v's statements for the CheckTx of the application with the generated decorators *)
Theorem gen_full_exact_fee_wrk : forall B a t a',
  gen_inv B a -> tx_wf t -> Forall gmsg_ok (tx_msgs t) ->
  go_check_tx_full a t = (a', TxOk) -> has_wrk t = true ->
  exists amt, fee_find (tx_fee t) (rp_denom (r_params (a_wrk a))) = Some (rp_denom (r_params (a_wrk a)), amt) /\
    amt = expected_fee pick_wrk (a_wrk a) t /\
    amt <= balance (a_bank a) (tx_payer t) (rp_denom (r_params (a_wrk a))) +
           (if fst (locked_coin (a_ent a) (tx_payer t)) =? rp_denom (r_params (a_wrk a))
            then snd (locked_coin (a_ent a) (tx_payer t)) else 0).
Proof.
  intros B a t a' I W G H Hw. rewrite (gen_check_tx_full_eq B a t I W) in H. exact (gen_exact_fee_wrk B a t a' I W G H Hw).
Qed.

Theorem gen_full_exact_fee_bcn : forall B a t a',
  gen_inv B a -> tx_wf t -> Forall gmsg_ok (tx_msgs t) ->
  go_check_tx_full a t = (a', TxOk) -> has_bcn t = true ->
  exists amt, fee_find (tx_fee t) (rp_denom (r_params (a_bcn a))) = Some (rp_denom (r_params (a_bcn a)), amt) /\
    amt = expected_fee pick_bcn (a_bcn a) t /\
    amt <= balance (a_bank a) (tx_payer t) (rp_denom (r_params (a_bcn a))) +
           (if fst (locked_coin (a_ent a) (tx_payer t)) =? rp_denom (r_params (a_bcn a))
            then snd (locked_coin (a_ent a) (tx_payer t)) else 0).
Proof.
  intros B a t a' I W G H Hw. rewrite (gen_check_tx_full_eq B a t I W) in H. exact (gen_exact_fee_bcn B a t a' I W G H Hw).
Qed.

Theorem gen_full_overflow_slots_rejected : forall B a t o id n,
  gen_inv B a -> tx_wf t -> Forall gmsg_ok (tx_msgs t) ->
  (In (MWrk (RPurchase o id n)) (tx_msgs t) \/ In (MBcn (RPurchase o id n)) (tx_msgs t)) -> two63 <= n ->
  exists r, go_check_tx_full a t = (a, r) /\ r <> TxOk.
Proof.
  intros B a t o id n I W G Hi Hn. rewrite (gen_check_tx_full_eq B a t I W).
  exact (gen_overflow_slots_rejected B a t o id n I W G Hi Hn).
Qed.

(* C05 (props/C05.v: C05_unlock_rule) for the generated enterprise decorator inside the application *)
Theorem gen_unlock_ante_full_rule : forall a t au,
  go_unlock_ante_full a t = Ok au -> app_inv a -> 0 <= tx_payer t -> coins_valid (tx_fee t) = true ->
  NoDup (map fst (tx_fee t)) -> exists u, AppLockedProofs.unlocked_by a au t u.
Proof. intros a t au H. exact (EH.gen_ent_AnteHandle_rule a t au H). Qed.

Theorem gen_unlock_ante_full_untouched : forall a t,
  is_registry_tx t = false \/ snd (locked_coin (a_ent a) (tx_payer t)) <= 0 -> go_unlock_ante_full a t = Ok a.
Proof.
  intros a t H. unfold go_unlock_ante_full, ent_world_of.
  rewrite (EH.gen_ent_AnteHandle_untouched (EnterpriseKeeperPrims.mk_eworld (a_now a) (a_bank a) (a_ent a)) t H).
  cbn [obind EnterpriseKeeperPrims.ew_bank EnterpriseKeeperPrims.ew_ent]. rewrite EH.with_ent_same. reflexivity.
Qed.

(* ================================================================================================ *)
(* 4. the example history                                                                             *)
(* ================================================================================================ *)

Example gen_node_run_full_eq_ex : go_node_run_full (node_init ex_g) gx_hist = node_run (node_init ex_g) gx_hist.
Proof. exact (gen_node_run_full_eq 1 ex_g gx_hist ex_g_gen_inv gx_hist_wf_ok gx_hist_ok gx_hist_size). Qed.

(* the same by running the generated decorators themselves *)
Fixpoint go_node_trace_full (n : node) (h : list op) : option (node * list (option tx_result)) :=
  match h with
  | [] => Some (n, [])
  | o :: r =>
      match go_node_step_full n o with
      | Some (n', x) =>
          match go_node_trace_full n' r with
          | Some (n'', xs) => Some (n'', x :: xs)
          | None => None
          end
      | None => None
      end
  end.

Example gen_node_trace_full_eq_ex_computed :
  go_node_trace_full (node_init ex_g) gx_hist = AppCrashProofs.node_trace (node_init ex_g) gx_hist.
Proof. vm_compute. reflexivity. Qed.

(* ================================================================================================ *)
(* 5. what fails without [tx_wf]'s "one coin per denomination"                                        *)
(* ================================================================================================ *)

(* a fee naming nund twice (not a valid sdk.Coins: no client can encode it into a transaction the chain accepts - the
   SDK's own fee validation refuses it before any decorator of this chain runs, a stage model/App.v's [coins_valid] only
   approximates): the generated funds check refuses the fee (Coins.IsValid), the model's goes on *)
Definition dup_tx : tx :=
  {| tx_msgs := [MWrk (RRegister 1 "m" "n" "g" "t")]; tx_fee := [(NUND, 500); (NUND, 500)]; tx_granter := None;
     tx_sig_ok := true |}.

Example gen_ante_full_dup_denom_refuted :
  gen_inv 1 ex_g /\ Forall msg_wf (tx_msgs dup_tx) /\ coins_valid (tx_fee dup_tx) = true /\ ~ tx_wf dup_tx /\
  go_ante_full true ex_g dup_tx = Err ERR_APP /\ (exists a', ante true ex_g dup_tx = Ok a').
Proof.
  split; [exact ex_g_gen_inv|]. split; [repeat constructor; cbn; lia|]. split; [reflexivity|].
  split; [intros W; pose proof (tw_fee _ W) as N; cbn in N; inversion N as [|? ? Nx _]; apply Nx; left; reflexivity|].
  split; [vm_compute; reflexivity|]. eexists. vm_compute. reflexivity.
Qed.

Print Assumptions gen_wrk_AnteHandle_inv.
Print Assumptions gen_bcn_AnteHandle_inv.
Print Assumptions gen_wrk_AnteHandle_deliver_inv.
Print Assumptions gen_bcn_AnteHandle_deliver_inv.
Print Assumptions gen_wrk_ante_full_model.
Print Assumptions gen_bcn_ante_full_model.
Print Assumptions gen_unlock_ante_full_eq.
Print Assumptions gen_unlock_ante_full_model.
Print Assumptions gen_ante_full_eq.
Print Assumptions gen_ante_full_model.
Print Assumptions gen_ante_full_deliver_model.
Print Assumptions gen_deliver_tx_full_model.
Print Assumptions gen_check_tx_full_model.
Print Assumptions gen_node_step_full_model.
Print Assumptions gen_node_run_full_eq.
Print Assumptions gen_node_run_full_eq_from.
Print Assumptions gen_node_run_full_go.
Print Assumptions gen_node_run_full_eq_ex.
Print Assumptions gen_node_trace_full_eq_ex_computed.
Print Assumptions gen_ante_full_dup_denom_refuted.
Print Assumptions gen_wrk_AnteHandle_accepts_inv.
Print Assumptions gen_bcn_AnteHandle_accepts_inv.
Print Assumptions gen_full_exact_fee_wrk.
Print Assumptions gen_full_exact_fee_bcn.
Print Assumptions gen_full_overflow_slots_rejected.
Print Assumptions gen_unlock_ante_full_rule.
Print Assumptions gen_unlock_ante_full_untouched.
