(* x/enterprise gRPC POINT queries (keeper/grpc_query.go: EnterpriseUndPurchaseOrder, LockedUndByAddress, TotalSpentEFUND,
   SpentEFUNDByAddress, Whitelist, Whitelisted, EnterpriseAccount, and the two getters GetLockedUndAmountForAccount /
   GetSpentEFUNDAmountForAccount of keeper/locked.go) as generated from the Go source on every run
   (GeneratedEnterpriseKeeper.v; the purchase-order handler is named like the record it returns and carries the suffix
   _handler).  The supply queries are in proofs/GeneratedEnterpriseQueryEq.v.

   part 1  exact behaviour of each handler on EVERY request and world: a complete case split with the error class of
           every failure, no hypothesis.  An address field that is the empty string ([go_zero_addr]) -> InvalidArgument;
           one that does not decode ([BAD_ADDR]) -> the error of sdk.AccAddressFromBech32, returned unwrapped (ERR_ENT in
           model/EnterpriseKeeperPrims.v);  EnterpriseAccount panics (sdk.Coin.Add: "invalid coin denominations")
           exactly when the stored locked entry of the account is of another denomination than the current parameter -
           which [sinv] excludes;
   part 2  the C20 clause "each returned item equals what the corresponding point query returns" for purchase orders;
           Whitelist / Whitelisted agree;
   part 3  "queries never modify state". *)
From Coq Require Import ZifyBool NArith Sorted.
From MC Require Import lib.Prelude lib.AMap lib.GoSdk GeneratedEnterpriseTypes model.Bank model.Enterprise
  model.EnterpriseSpec model.EnterpriseKeeperPrims GeneratedEnterpriseKeeper.
From MC Require Import model.Paginate model.PaginateCallback.
From MC Require Import proofs.EnterpriseProofs proofs.GeneratedEnterpriseBlockEq proofs.GeneratedEnterpriseListQueryEq.
From MC Require proofs.GeneratedEnterpriseQueryEq.
Local Open Scope Z_scope.

#[local] Arguments Z.add : simpl never.
#[local] Arguments Z.ltb : simpl never.
#[local] Arguments Z.leb : simpl never.
#[local] Arguments Z.eqb : simpl never.
#[local] Arguments aget : simpl never.
#[local] Arguments locked_coin : simpl never.
#[local] Arguments spent_coin : simpl never.
#[local] Arguments total_spent : simpl never.
#[local] Arguments mem_addr : simpl never.
#[local] Arguments balance : simpl never.

(* split on the next test or store lookup of the goal, whatever side it is on *)
Ltac pq_split :=
  cbn;
  repeat (match goal with
          | |- context [if ?c then _ else _] => destruct c eqn:?
          | |- context [match aget ?k ?m with _ => _ end] => destruct (aget k m) eqn:?
          end; cbn).

(* ------------------------------------------------------------------------------------------ *)
(* part 1: the handlers, on every request and world                                           *)
(* ------------------------------------------------------------------------------------------ *)

(* the empty string is the zero address: sdk.AccAddressFromBech32 refuses it and the undecodable strings; the handlers
   below test for the empty string themselves, first *)
Lemma AccAddress_cases a :
  ent_AccAddressFromBech32 a =
    if a =? go_zero_addr then Err ERR_ENT else if a =? BAD_ADDR then Err ERR_ENT else Ok a.
Proof.
  unfold ent_AccAddressFromBech32, addr_parses. change EMPTY_ADDR with go_zero_addr.
  destruct (a =? BAD_ADDR), (a =? go_zero_addr); reflexivity.
Qed.

(* the two getters: the stored amount, or zero of the current denomination; they never fail *)
Theorem ent_point_GetLockedUndAmountForAccount_eq : forall w a,
  go_GetLockedUndAmountForAccount w a = Ok (locked_coin (ew_ent w) a).
Proof. intros w a. reflexivity. Qed.

Theorem ent_point_GetSpentEFUNDAmountForAccount_eq : forall w a,
  go_GetSpentEFUNDAmountForAccount w a = Ok (spent_coin (ew_ent w) a).
Proof. intros w a. reflexivity. Qed.

(* EnterpriseUndPurchaseOrder: id 0 -> InvalidArgument; unknown id -> NotFound; else the stored order *)
Theorem ent_point_PurchaseOrder_cases : forall w req,
  go_EnterpriseUndPurchaseOrder_handler w req =
    let id := QueryEnterpriseUndPurchaseOrderRequest_PurchaseOrderId req in
    if id =? 0 then Err grpc_codes_InvalidArgument else
    match aget id (e_pos (ew_ent w)) with
    | Some o => Ok (mk_go_QueryEnterpriseUndPurchaseOrderResponse (to_go_po o))
    | None => Err grpc_codes_NotFound
    end.
Proof.
  intros w req. unfold go_EnterpriseUndPurchaseOrder_handler, ent_GetPurchaseOrder. cbv zeta. pq_split; reflexivity.
Qed.

(* LockedUndByAddress: "" -> InvalidArgument; undecodable -> the bech32 error; else the locked amount *)
Theorem ent_point_LockedUndByAddress_cases : forall w req,
  go_LockedUndByAddress w req =
    let a := QueryLockedUndByAddressRequest_Owner req in
    if a =? go_zero_addr then Err grpc_codes_InvalidArgument else
    if a =? BAD_ADDR then Err ERR_ENT else
    Ok (mk_go_QueryLockedUndByAddressResponse (locked_coin (ew_ent w) a)).
Proof.
  intros w req. unfold go_LockedUndByAddress, go_GetLockedUndAmountForAccount, ent_GetLockedUndForAccount.
  rewrite AccAddress_cases. cbv zeta. pq_split; reflexivity.
Qed.

(* TotalSpentEFUND: the stored total (zero of the current denomination when never written), whatever the request *)
Theorem ent_point_TotalSpentEFUND_eq : forall w req,
  go_TotalSpentEFUND w req = Ok (mk_go_QueryTotalSpentEFUNDResponse (total_spent (ew_ent w))).
Proof. intros w req. reflexivity. Qed.

(* SpentEFUNDByAddress: as LockedUndByAddress, over the spent book *)
Theorem ent_point_SpentEFUNDByAddress_cases : forall w req,
  go_SpentEFUNDByAddress w req =
    let a := QuerySpentEFUNDByAddressRequest_Address req in
    if a =? go_zero_addr then Err grpc_codes_InvalidArgument else
    if a =? BAD_ADDR then Err ERR_ENT else
    Ok (mk_go_QuerySpentEFUNDByAddressResponse (spent_coin (ew_ent w) a)).
Proof.
  intros w req. unfold go_SpentEFUNDByAddress, go_GetSpentEFUNDAmountForAccount, ent_GetSpentEFUNDForAccount.
  rewrite AccAddress_cases. cbv zeta. pq_split; reflexivity.
Qed.

(* Whitelist: the stored whitelist, in store order, whatever the request *)
Theorem ent_point_Whitelist_eq : forall w req,
  go_Whitelist w req = Ok (mk_go_QueryWhitelistResponse (e_wl (ew_ent w))).
Proof. intros w req. reflexivity. Qed.

(* Whitelisted: "" -> InvalidArgument; undecodable -> the bech32 error; else the request's address string and whether
   the address is on the whitelist *)
Theorem ent_point_Whitelisted_cases : forall w req,
  go_Whitelisted w req =
    let a := QueryWhitelistedRequest_Address req in
    if a =? go_zero_addr then Err grpc_codes_InvalidArgument else
    if a =? BAD_ADDR then Err ERR_ENT else
    Ok (mk_go_QueryWhitelistedResponse a (mem_addr a (e_wl (ew_ent w)))).
Proof.
  intros w req. unfold go_Whitelisted, ent_AddressIsWhitelisted. rewrite AccAddress_cases. cbv zeta.
  pq_split; reflexivity.
Qed.

(* the account view: bank balance of the current denomination, locked and spent eFUND, spendable = balance + locked *)
Definition account_view (w : eworld) (a : go_addr) : go_EnterpriseUserAccount :=
  let d := ep_denom (e_params (ew_ent w)) in
  let l := locked_coin (ew_ent w) a in
  mk_go_EnterpriseUserAccount a l (d, balance (ew_bank w) a d) (spent_coin (ew_ent w) a)
    (d, balance (ew_bank w) a d + snd l).

Lemma account_view_def : forall (w : eworld) a,
  account_view w a =
    let d := ep_denom (e_params (ew_ent w)) in
    mk_go_EnterpriseUserAccount a (locked_coin (ew_ent w) a) (d, balance (ew_bank w) a d) (spent_coin (ew_ent w) a)
      (d, balance (ew_bank w) a d + snd (locked_coin (ew_ent w) a)).
Proof. reflexivity. Qed.

(* EnterpriseAccount: "" -> InvalidArgument; undecodable -> the bech32 error; a locked entry of another denomination
   than the current parameter -> PANIC (Coin.Add); else the account view *)
Theorem ent_point_EnterpriseAccount_cases : forall w req,
  go_EnterpriseAccount w req =
    let a := QueryEnterpriseAccountRequest_Address req in
    if a =? go_zero_addr then Err grpc_codes_InvalidArgument else
    if a =? BAD_ADDR then Err ERR_ENT else
    if ep_denom (e_params (ew_ent w)) =? fst (locked_coin (ew_ent w) a)
    then Ok (mk_go_QueryEnterpriseAccountResponse (account_view w a))
    else Panic GO_PANIC_DENOM.
Proof.
  intros w req. unfold go_EnterpriseAccount. rewrite AccAddress_cases. cbv zeta.
  destruct (QueryEnterpriseAccountRequest_Address req =? go_zero_addr); [reflexivity|].
  destruct (QueryEnterpriseAccountRequest_Address req =? BAD_ADDR); [reflexivity|]. cbn [obind].
  rewrite GeneratedEnterpriseQueryEq.gen_ent_GetEnterpriseUserAccount_eq. cbv zeta. unfold account_view.
  destruct (ep_denom (e_params (ew_ent w)) =? fst (locked_coin (ew_ent w) (QueryEnterpriseAccountRequest_Address req)));
    reflexivity.
Qed.

(* when exactly it panics: a locked entry IS stored for the account and its denomination is not the current one *)
Lemma locked_mismatch_iff (s : ent_state) (a : addr) :
  fst (locked_coin s a) <> ep_denom (e_params s) <->
  exists l, aget a (e_locked s) = Some l /\ fst l <> ep_denom (e_params s).
Proof.
  unfold locked_coin. destruct (aget a (e_locked s)) as [l|]; cbn [fst].
  - split; [intros H; exists l; split; [reflexivity|exact H] | intros (l' & [= <-] & H); exact H].
  - split; [intros H; contradiction H; reflexivity | intros (l' & H & _); discriminate H].
Qed.

Theorem ent_point_EnterpriseAccount_panic_iff : forall w req c,
  go_EnterpriseAccount w req = Panic c <->
  c = GO_PANIC_DENOM /\
  QueryEnterpriseAccountRequest_Address req <> go_zero_addr /\ QueryEnterpriseAccountRequest_Address req <> BAD_ADDR /\
  exists l, aget (QueryEnterpriseAccountRequest_Address req) (e_locked (ew_ent w)) = Some l /\
            fst l <> ep_denom (e_params (ew_ent w)).
Proof.
  intros w req c. rewrite ent_point_EnterpriseAccount_cases. cbv zeta.
  pose proof (locked_mismatch_iff (ew_ent w) (QueryEnterpriseAccountRequest_Address req)) as M.
  destruct (Z.eqb_spec (QueryEnterpriseAccountRequest_Address req) go_zero_addr) as [E0|N0];
    [split; [intros X; discriminate X | intros (_ & H & _); contradiction]|].
  destruct (Z.eqb_spec (QueryEnterpriseAccountRequest_Address req) BAD_ADDR) as [E1|N1];
    [split; [intros X; discriminate X | intros (_ & _ & H & _); contradiction]|].
  destruct (Z.eqb_spec (ep_denom (e_params (ew_ent w)))
              (fst (locked_coin (ew_ent w) (QueryEnterpriseAccountRequest_Address req)))) as [E|N].
  - split; [intros X; discriminate X|]. intros (_ & _ & _ & Hex). apply M in Hex. congruence.
  - split.
    + intros [= <-]. split; [reflexivity|]. split; [exact N0|]. split; [exact N1|]. apply M. congruence.
    + intros (-> & _). reflexivity.
Qed.

(* under the module invariant every stored locked entry is of the current denomination: no panic, and the handler is
   total on well-formed addresses *)
Theorem ent_point_EnterpriseAccount_inv : forall now w req,
  sinv now (ew_ent w) ->
  go_EnterpriseAccount w req =
    let a := QueryEnterpriseAccountRequest_Address req in
    if a =? go_zero_addr then Err grpc_codes_InvalidArgument else
    if a =? BAD_ADDR then Err ERR_ENT else
    Ok (mk_go_QueryEnterpriseAccountResponse (account_view w a)).
Proof.
  intros now w req I. rewrite ent_point_EnterpriseAccount_cases. cbv zeta.
  destruct (QueryEnterpriseAccountRequest_Address req =? go_zero_addr); [reflexivity|].
  destruct (QueryEnterpriseAccountRequest_Address req =? BAD_ADDR); [reflexivity|].
  assert (E : fst (locked_coin (ew_ent w) (QueryEnterpriseAccountRequest_Address req)) = ep_denom (e_params (ew_ent w))).
  { destruct (Z.eq_dec (fst (locked_coin (ew_ent w) (QueryEnterpriseAccountRequest_Address req)))
                (ep_denom (e_params (ew_ent w)))) as [E|N]; [exact E|].
    apply locked_mismatch_iff in N. destruct N as (l & G & Hn).
    contradiction Hn. exact (proj1 (si_locked _ _ I _ _ G)). }
  rewrite E, Z.eqb_refl. reflexivity.
Qed.

(* the panic is real: a world whose parameter denomination was changed after an amount was locked *)
Definition panic_params : ent_params := {| ep_denom := 2; ep_min_accepts := 1; ep_time_limit := 100; ep_signers := [9] |}.
Definition panic_world : eworld :=
  mk_eworld 0 {| bal := []; supply := [] |}
    {| e_params := panic_params; e_next := 1; e_pos := []; e_raisedq := []; e_acceptedq := []; e_wl := [];
       e_locked := [(7, (1, 50))]; e_spent := []; e_totlocked := Some (1, 50); e_totspent := None |}.
Theorem ent_point_EnterpriseAccount_panics_ex :
  go_EnterpriseAccount panic_world (mk_go_QueryEnterpriseAccountRequest 7) = Panic GO_PANIC_DENOM.
Proof. vm_compute. reflexivity. Qed.

(* ------------------------------------------------------------------------------------------ *)
(* part 2: list <-> point                                                                     *)
(* ------------------------------------------------------------------------------------------ *)

(* The listing handed to the list query EnterpriseUndPurchaseOrders (props/C20generated.v:
   [items : list (N * go_EnterpriseUndPurchaseOrder)]): the purchase-order store in store order, every order under the
   number of its store key, as the protobuf record. *)
Definition ent_store_listing (s : ent_state) : list (N * go_EnterpriseUndPurchaseOrder) :=
  map (fun kv => (Z.to_N (fst kv), to_go_po (snd kv))) (e_pos s).

(* no order is stored under id 0 (ids start at 1) *)
Definition po_ids_nonzero (s : ent_state) : Prop := forall id o, aget id (e_pos s) = Some o -> id <> 0.

Lemma sinv_po_ids_nonzero now s : sinv now s -> po_ids_nonzero s.
Proof. intros I id o G. pose proof (pk_range _ _ _ _ _ (si_po _ _ I id o G)). lia. Qed.

Theorem ent_listed_is_point : forall w k v,
  NoDup (akeys (e_pos (ew_ent w))) -> pos_keyed (ew_ent w) -> po_ids_nonzero (ew_ent w) ->
  In (k, v) (ent_store_listing (ew_ent w)) ->
  k = Z.to_N (EnterpriseUndPurchaseOrder_Id v) /\
  go_EnterpriseUndPurchaseOrder_handler w (mk_go_QueryEnterpriseUndPurchaseOrderRequest (EnterpriseUndPurchaseOrder_Id v))
    = Ok (mk_go_QueryEnterpriseUndPurchaseOrderResponse v).
Proof.
  intros w k v ND HK H0 Hin. unfold ent_store_listing in Hin. apply in_map_iff in Hin.
  destruct Hin as [[id o] [E Hin]]. cbn [fst snd] in E. injection E as <- <-.
  pose proof (In_aget_NoDup _ _ _ ND Hin) as G. pose proof (HK _ _ G) as Hid. pose proof (H0 _ _ G) as Hnz.
  cbn [to_go_po EnterpriseUndPurchaseOrder_Id]. rewrite Hid. split; [reflexivity|].
  rewrite ent_point_PurchaseOrder_cases. cbn [QueryEnterpriseUndPurchaseOrderRequest_PurchaseOrderId]. cbv zeta.
  apply Z.eqb_neq in Hnz. rewrite Hnz, G. reflexivity.
Qed.

(* ... and nothing else is answered: an Ok answer of the point query is listed, under its id *)
Theorem ent_point_is_listed : forall w req resp,
  go_EnterpriseUndPurchaseOrder_handler w req = Ok resp ->
  In (Z.to_N (QueryEnterpriseUndPurchaseOrderRequest_PurchaseOrderId req),
      QueryEnterpriseUndPurchaseOrderResponse_PurchaseOrder resp) (ent_store_listing (ew_ent w)).
Proof.
  intros w req resp. rewrite ent_point_PurchaseOrder_cases. cbv zeta.
  destruct (QueryEnterpriseUndPurchaseOrderRequest_PurchaseOrderId req =? 0); [discriminate|].
  destruct (aget (QueryEnterpriseUndPurchaseOrderRequest_PurchaseOrderId req) (e_pos (ew_ent w))) as [o|] eqn:G;
    [|discriminate].
  intros [= <-]. cbn [QueryEnterpriseUndPurchaseOrderResponse_PurchaseOrder]. unfold ent_store_listing.
  apply in_map_iff. exists (QueryEnterpriseUndPurchaseOrderRequest_PurchaseOrderId req, o).
  split; [reflexivity|]. apply aget_In. exact G.
Qed.

Lemma Sorted_Nlt_NoDup (l : list N) : Sorted N.lt l -> NoDup l.
Proof.
  intros S. apply Sorted_StronglySorted in S; [|intros a b c; apply N.lt_trans].
  induction S as [|x l S IH F]; constructor; [|exact IH].
  intros Hin. rewrite Forall_forall in F. apply F in Hin. exact (N.lt_irrefl _ Hin).
Qed.

Lemma ent_listing_sorted_NoDup s : Sorted N.lt (map fst (ent_store_listing s)) -> NoDup (akeys (e_pos s)).
Proof.
  intros S. apply Sorted_Nlt_NoDup in S. unfold ent_store_listing in S. rewrite map_map in S. cbn [fst] in S.
  unfold akeys. rewrite <- (map_map fst Z.to_N) in S. exact (NoDup_map_inv _ _ S).
Qed.

(* the C20 clause for the pages of the generated list query: every item of every page EnterpriseUndPurchaseOrders'
   generated callback produces over the store listing is exactly the point query's answer for its id *)
Theorem ent_page_item_is_point : forall w req preq r v,
  Sorted N.lt (map fst (ent_store_listing (ew_ent w))) -> pos_keyed (ew_ent w) -> po_ids_nonzero (ew_ent w) ->
  list_query_cb (ent_store_listing (ew_ent w)) (go_EnterpriseUndPurchaseOrders_callback req) preq = Ok r ->
  In v (cres_state r) ->
  go_EnterpriseUndPurchaseOrder_handler w (mk_go_QueryEnterpriseUndPurchaseOrderRequest (EnterpriseUndPurchaseOrder_Id v))
    = Ok (mk_go_QueryEnterpriseUndPurchaseOrderResponse v).
Proof.
  intros w req preq r v S HK H0 Hq Hin.
  destruct (ent_single_page_sound _ _ _ _ S Hq) as [its [Est [Hits _]]].
  rewrite Est in Hin. apply in_map_iff in Hin. destruct Hin as [[k v'] [E Hx]]. cbn [snd] in E. subst v'.
  destruct (Hits _ Hx) as [Hl _].
  exact (proj2 (ent_listed_is_point w k v (ent_listing_sorted_NoDup _ S) HK H0 Hl)).
Qed.

Corollary ent_page_item_is_point_inv : forall now w req preq r v,
  sinv now (ew_ent w) ->
  Sorted N.lt (map fst (ent_store_listing (ew_ent w))) ->
  list_query_cb (ent_store_listing (ew_ent w)) (go_EnterpriseUndPurchaseOrders_callback req) preq = Ok r ->
  In v (cres_state r) ->
  go_EnterpriseUndPurchaseOrder_handler w (mk_go_QueryEnterpriseUndPurchaseOrderRequest (EnterpriseUndPurchaseOrder_Id v))
    = Ok (mk_go_QueryEnterpriseUndPurchaseOrderResponse v).
Proof.
  intros now w req preq r v I S. apply ent_page_item_is_point; [exact S| |].
  - exact (sinv_pos_keyed _ _ I).
  - exact (sinv_po_ids_nonzero _ _ I).
Qed.

Corollary ent_listed_is_point_inv : forall now w k v,
  sinv now (ew_ent w) ->
  In (k, v) (ent_store_listing (ew_ent w)) ->
  k = Z.to_N (EnterpriseUndPurchaseOrder_Id v) /\
  go_EnterpriseUndPurchaseOrder_handler w (mk_go_QueryEnterpriseUndPurchaseOrderRequest (EnterpriseUndPurchaseOrder_Id v))
    = Ok (mk_go_QueryEnterpriseUndPurchaseOrderResponse v).
Proof.
  intros now w k v I. apply ent_listed_is_point.
  - exact (si_nd_pos _ _ I).
  - exact (sinv_pos_keyed _ _ I).
  - exact (sinv_po_ids_nonzero _ _ I).
Qed.

(* Whitelist (the listing) and Whitelisted (the point query) agree: a well-formed address is reported whitelisted
   exactly when the listing contains it *)
Theorem ent_whitelist_listed_iff_point : forall w lreq a,
  a <> go_zero_addr -> a <> BAD_ADDR ->
  exists l b,
    go_Whitelist w lreq = Ok (mk_go_QueryWhitelistResponse l) /\
    go_Whitelisted w (mk_go_QueryWhitelistedRequest a) = Ok (mk_go_QueryWhitelistedResponse a b) /\
    (b = true <-> In a l).
Proof.
  intros w lreq a N0 N1. exists (e_wl (ew_ent w)), (mem_addr a (e_wl (ew_ent w))).
  split; [apply ent_point_Whitelist_eq|]. split.
  - rewrite ent_point_Whitelisted_cases. cbn [QueryWhitelistedRequest_Address]. cbv zeta.
    apply Z.eqb_neq in N0, N1. rewrite N0, N1. reflexivity.
  - unfold mem_addr. rewrite existsb_exists. split.
    + intros [x [Hx E]]. apply Z.eqb_eq in E. subst x. exact Hx.
    + intros Hin. exists a. split; [exact Hin | apply Z.eqb_refl].
Qed.

(* ------------------------------------------------------------------------------------------ *)
(* part 3: queries never modify state                                                         *)
(* ------------------------------------------------------------------------------------------ *)
(* By type: all nine functions were rendered as READERS - [eworld -> .. -> outcome response], no world is returned - so
   the caller's world is the one it had.  None of them was rendered state-passing. *)
Definition ent_point_readers :
  (eworld -> go_addr -> outcome go_coin) * (eworld -> go_addr -> outcome go_coin) *
  (eworld -> go_QueryEnterpriseUndPurchaseOrderRequest -> outcome go_QueryEnterpriseUndPurchaseOrderResponse) *
  (eworld -> go_QueryLockedUndByAddressRequest -> outcome go_QueryLockedUndByAddressResponse) *
  (eworld -> go_QueryTotalSpentEFUNDRequest -> outcome go_QueryTotalSpentEFUNDResponse) *
  (eworld -> go_QuerySpentEFUNDByAddressRequest -> outcome go_QuerySpentEFUNDByAddressResponse) *
  (eworld -> go_QueryWhitelistRequest -> outcome go_QueryWhitelistResponse) *
  (eworld -> go_QueryWhitelistedRequest -> outcome go_QueryWhitelistedResponse) *
  (eworld -> go_QueryEnterpriseAccountRequest -> outcome go_QueryEnterpriseAccountResponse) :=
  (go_GetLockedUndAmountForAccount, go_GetSpentEFUNDAmountForAccount, go_EnterpriseUndPurchaseOrder_handler,
   go_LockedUndByAddress, go_TotalSpentEFUND, go_SpentEFUNDByAddress, go_Whitelist, go_Whitelisted, go_EnterpriseAccount).

(* ... and the answers depend on the module state only (EnterpriseAccount: and the bank); never on the block time *)
Theorem ent_point_state_only : forall w w',
  ew_ent w = ew_ent w' ->
  (forall req, go_EnterpriseUndPurchaseOrder_handler w req = go_EnterpriseUndPurchaseOrder_handler w' req) /\
  (forall req, go_LockedUndByAddress w req = go_LockedUndByAddress w' req) /\
  (forall req, go_TotalSpentEFUND w req = go_TotalSpentEFUND w' req) /\
  (forall req, go_SpentEFUNDByAddress w req = go_SpentEFUNDByAddress w' req) /\
  (forall req, go_Whitelist w req = go_Whitelist w' req) /\
  (forall req, go_Whitelisted w req = go_Whitelisted w' req) /\
  (ew_bank w = ew_bank w' -> forall req, go_EnterpriseAccount w req = go_EnterpriseAccount w' req).
Proof.
  intros w w' E. repeat split.
  - intros req. rewrite !ent_point_PurchaseOrder_cases, E. reflexivity.
  - intros req. rewrite !ent_point_LockedUndByAddress_cases, E. reflexivity.
  - intros req. rewrite !ent_point_TotalSpentEFUND_eq, E. reflexivity.
  - intros req. rewrite !ent_point_SpentEFUNDByAddress_cases, E. reflexivity.
  - intros req. rewrite !ent_point_Whitelist_eq, E. reflexivity.
  - intros req. rewrite !ent_point_Whitelisted_cases, E. reflexivity.
  - intros Eb req. rewrite !ent_point_EnterpriseAccount_cases. unfold account_view. rewrite E, Eb. reflexivity.
Qed.

Print Assumptions ent_point_GetLockedUndAmountForAccount_eq.
Print Assumptions ent_point_GetSpentEFUNDAmountForAccount_eq.
Print Assumptions ent_point_PurchaseOrder_cases.
Print Assumptions ent_point_LockedUndByAddress_cases.
Print Assumptions ent_point_TotalSpentEFUND_eq.
Print Assumptions ent_point_SpentEFUNDByAddress_cases.
Print Assumptions ent_point_Whitelist_eq.
Print Assumptions ent_point_Whitelisted_cases.
Print Assumptions account_view_def.
Print Assumptions ent_point_EnterpriseAccount_cases.
Print Assumptions ent_point_EnterpriseAccount_panic_iff.
Print Assumptions ent_point_EnterpriseAccount_inv.
Print Assumptions ent_point_EnterpriseAccount_panics_ex.
Print Assumptions ent_listed_is_point.
Print Assumptions ent_point_is_listed.
Print Assumptions ent_page_item_is_point.
Print Assumptions ent_page_item_is_point_inv.
Print Assumptions ent_listed_is_point_inv.
Print Assumptions ent_whitelist_listed_iff_point.
Print Assumptions ent_point_state_only.
