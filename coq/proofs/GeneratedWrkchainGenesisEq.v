(* The genesis code generated from /repo/x/wrkchain/genesis.go (go_InitGenesis, go_ExportGenesis in
   GeneratedWrkchainKeeper.v, re-generated on every run) against the hand-written model of genesis export / import
   (model/Genesis.v: export_reg, import_reg), read through the vocabulary of model/WrkchainGenesisGenSpec.v.

   Structure (so that the proofs survive a harmless re-generation):
     part 1  `for .. range` loops: unfolding lemmas of [go_range], extensionality (by induction, no axiom), and the two
             shapes the genesis code uses - a loop that appends one element per iteration ([go_range_append]) and a loop
             whose body always continues with a function of the store ([go_range_world]).  The loop bodies are never
             named: the tactics pick them from the goal and prove the side condition by walking the body;
     part 2  ExportGenesis;
     part 3  InitGenesis (for every world and every document, valid parameters or not: [gen_wrk_InitGenesis_run]);
     part 4  export then import;
     part 5  examples showing that the hypotheses cannot be dropped. *)
From Coq Require Import ZifyBool.
From MC Require Import lib.Prelude lib.AMap lib.GoSdk GeneratedWrkchainTypes model.Bank model.Registry model.RegistrySpec
  model.Genesis model.WrkchainKeeperPrims GeneratedWrkchainKeeper model.WrkchainGenesisGenSpec.
From MC Require Import proofs.RegistryProofs proofs.GenesisLib proofs.GenesisProofs.
Local Open Scope Z_scope.

(* ================================================================= *)
(* 1. loops                                                           *)
(* ================================================================= *)

Lemma go_range_nil {A S R} (f : A -> S -> outcome (loop_res S R)) s : go_range f [] s = Ok (LCont s).
Proof. reflexivity. Qed.

Lemma go_range_cons {A S R} (f : A -> S -> outcome (loop_res S R)) x l s :
  go_range f (x :: l) s =
    (do res <- f x s; match res with LCont s' => go_range f l s' | LRet v => Ok (LRet v) end).
Proof. reflexivity. Qed.

Lemma go_range_ext {A S R} (f g : A -> S -> outcome (loop_res S R)) :
  (forall x s, f x s = g x s) -> forall l s, go_range f l s = go_range g l s.
Proof.
  intros E l. induction l as [|x l IH]; intros s; [reflexivity|].
  rewrite !go_range_cons, E. destruct (g x s) as [[s'|v]| |]; cbn [obind]; [apply IH | reflexivity ..].
Qed.

(* every iteration appends one element computed from the loop variable *)
Lemma go_range_append {A B R} (body : A -> list B -> outcome (loop_res (list B) R)) (F : A -> B) :
  (forall x s, body x s = Ok (LCont (s ++ [F x]))) ->
  forall l s, go_range body l s = Ok (LCont (s ++ map F l)).
Proof.
  intros E l. induction l as [|x l IH]; intros s.
  - rewrite go_range_nil. cbn [map]. rewrite app_nil_r. reflexivity.
  - rewrite go_range_cons, E. cbn [obind map]. rewrite IH, <- app_assoc. reflexivity.
Qed.

Lemma with_reg_with_reg w a b : with_reg (with_reg w a) b = with_reg w b.
Proof. reflexivity. Qed.
Lemma rw_reg_with_reg w a : rw_reg (with_reg w a) = a.
Proof. reflexivity. Qed.
Lemma with_reg_same w : with_reg w (rw_reg w) = w.
Proof. destruct w; reflexivity. Qed.

(* every iteration continues with a world that differs from the previous one by a function of the store *)
Lemma go_range_world {A B R} (body : A -> rworld -> outcome (loop_res rworld R)) (h : A -> B)
      (f : B -> reg_state -> reg_state) :
  (forall x w, body x w = Ok (LCont (with_reg w (f (h x) (rw_reg w))))) ->
  forall l w, go_range body l w = Ok (LCont (with_reg w (fold_left (fun s y => f y s) (map h l) (rw_reg w)))).
Proof.
  intros E l. induction l as [|x l IH]; intros w.
  - rewrite go_range_nil. cbn [map fold_left]. rewrite with_reg_same. reflexivity.
  - rewrite go_range_cons, E. cbn [obind map fold_left]. rewrite IH, with_reg_with_reg, rw_reg_with_reg. reflexivity.
Qed.

#[local] Arguments go_range : simpl never.
#[local] Arguments Z.add : simpl never.
#[local] Arguments Z.sub : simpl never.
#[local] Arguments Z.mul : simpl never.
#[local] Arguments Z.ltb : simpl never.
#[local] Arguments Z.leb : simpl never.
#[local] Arguments Z.eqb : simpl never.
#[local] Arguments Z.of_nat : simpl never.
#[local] Arguments wrap64 : simpl never.
#[local] Arguments aget : simpl never.
#[local] Arguments aset : simpl never.
#[local] Arguments newest : simpl never.
#[local] Arguments sort_by_key : simpl never.
#[local] Arguments records_of : simpl never.
#[local] Arguments reg_params_valid : simpl never.

(* ---- facts about the primitives ---- *)

Lemma wrap64_small x : 0 <= x < two64 -> wrap64 x = x.
Proof. intros H. unfold wrap64. apply Z.mod_small. exact H. Qed.

Lemma go_len_list_nil {A} : go_len_list (@nil A) = 0.
Proof. reflexivity. Qed.
Lemma go_len_list_is_0 {A} (l : list A) : (go_len_list l =? 0) = match l with [] => true | _ => false end.
Proof. unfold go_len_list. destruct l; cbn [List.length]; [reflexivity|]. apply Z.eqb_neq. lia. Qed.
Lemma go_len_list_pos {A} (l : list A) : (0 <? go_len_list l) = match l with [] => false | _ => true end.
Proof. unfold go_len_list. destruct l; cbn [List.length]; [reflexivity|]. apply Z.ltb_lt. lia. Qed.
Lemma go_index_0 {A} (x : A) l : go_index (x :: l) 0 = Ok x.
Proof. reflexivity. Qed.

Lemma params_of_to_go p : params_of_go (params_to_go p) = p.
Proof. destruct p; reflexivity. Qed.
Lemma of_to_go_entity rg : of_go_entity (to_go_entity rg) = rg.
Proof. destruct rg; reflexivity. Qed.

(* ================================================================= *)
(* 2. ExportGenesis                                                   *)
(* ================================================================= *)

(* the records of one WRKChain as the generated document carries them *)
Definition go_blocks (w : rworld) (id : Z) : list go_WrkChainBlockGenesisExport := reg_GetRecordsForExport w id.

(* what ExportGenesis appends for one stored WRKChain *)
Definition go_export_entry (w : rworld) (wc : go_WrkChain) : go_WrkChainExport :=
  let bl := go_blocks w (WrkChain_WrkchainId wc) in
  mk_go_WrkChainExport
    (mk_go_WrkChain (WrkChain_WrkchainId wc) (WrkChain_Moniker wc) (WrkChain_Name wc) (WrkChain_Genesis wc)
       (WrkChain_Type wc) (WrkChain_Lastblock wc) (Z.of_nat (List.length bl))
       (match bl with [] => 0 | b :: _ => WrkChainBlockGenesisExport_He b end)
       (WrkChain_RegTime wc) (WrkChain_Owner wc))
    (limit_of (rw_reg w) (WrkChain_WrkchainId wc)) bl.

Lemma go_blocks_length w id : Z.of_nat (List.length (go_blocks w id)) <= EXPORT_CAP.
Proof. unfold go_blocks, reg_GetRecordsForExport. rewrite map_length. apply blocks_cap. Qed.

Lemma go_storage_limit w id : WrkChainStorageLimit_InStateLimit (fst (reg_GetStorageLimit w id)) = limit_of (rw_reg w) id.
Proof. unfold reg_GetStorageLimit, limit_of. destruct (aget id (r_limits (rw_reg w))); reflexivity. Qed.

#[local] Arguments go_blocks : simpl never.
#[local] Arguments limit_of : simpl never.

(* walking the body of the export loop: only primitives are mentioned *)
Ltac xstep :=
  first
  [ progress unfold go_uint64_of_int64, go_append, go_NewGenesisState
  | progress change (reg_GetRecordsForExport ?w ?id) with (go_blocks w id)
  | rewrite go_len_list_pos
  | rewrite go_index_0
  | match goal with
    | |- context [reg_GetStorageLimit ?w ?id] =>
        let E := fresh "EL" in
        pose proof (go_storage_limit w id) as E; destruct (reg_GetStorageLimit w id) as [? ?]; cbn [fst] in E;
        try rewrite E
    | |- context [wrap64 (go_len_list ?l)] =>
        rewrite (wrap64_small (go_len_list l)) by (unfold go_len_list, two64, EXPORT_CAP in *; lia)
    | |- context [wrap64 0] => change (wrap64 0) with 0
    end
  | progress cbn [obind] ].

Ltac xwalk := cbv beta zeta; repeat xstep.

(* the loop of ExportGenesis, whatever its body is called *)
Ltac xloop w :=
  match goal with
  | |- context [go_range ?b ?l ?s] =>
      rewrite (go_range_append b (go_export_entry w))
  end.

Theorem gen_wrk_ExportGenesis_run : forall w,
  go_ExportGenesis w =
    Ok (mk_go_GenesisState (params_to_go (r_params (rw_reg w))) (r_next (rw_reg w))
          (map (go_export_entry w) (reg_GetAllEntities w))).
Proof.
  intros w. unfold go_ExportGenesis, reg_GetParams, reg_GetHighestID, drop_err. xwalk.
  rewrite go_len_list_is_0. destruct (reg_GetAllEntities w) as [|wc0 l]; [reflexivity|].
  xloop w.
  - xwalk. reflexivity.
  - intros wc recs. unfold go_export_entry.
    pose proof (go_blocks_length w (WrkChain_WrkchainId wc)) as HC. xwalk.
    destruct (go_blocks w (WrkChain_WrkchainId wc)) as [|blk0 bl]; xwalk; reflexivity.
Qed.

#[local] Arguments blocks : simpl never.
#[local] Arguments go_export_entry : simpl never.

(* ---- the generated document read as the model's ---- *)

(* reading the five hash fields of a stored record and rebuilding the list is the identity when the record carries
   exactly five hashes; the record's own key field must be the key it is stored under *)
Lemma rec_of_go_block k rc :
  rc_key rc = k -> List.length (rc_hashes rc) = 5%nat ->
  rec_of_go (mk_go_WrkChainBlockGenesisExport k (hash_n 0 rc) (hash_n 1 rc) (hash_n 2 rc) (hash_n 3 rc) (hash_n 4 rc)
               (rc_time rc)) = (k, rc).
Proof.
  destruct rc as [key hs t]. cbn [rc_key rc_hashes rc_time]. intros -> H5.
  destruct hs as [|h0 [|h1 [|h2 [|h3 [|h4 [|h5 tl]]]]]]; try discriminate H5. reflexivity.
Qed.

(* the stored records of registration [id] have the shape the WRKChain export can represent *)
Definition wrk_recs_of_ok (s : reg_state) (id : Z) : Prop :=
  forall k rc, In ((id, k), rc) (r_recs s) -> rc_key rc = k /\ List.length (rc_hashes rc) = 5%nat.

Definition wrk_recs_exportable (s : reg_state) : Prop :=
  forall kv, In kv (r_regs s) -> wrk_recs_of_ok s (rg_id (snd kv)).

Lemma go_blocks_model w id :
  wrk_recs_of_ok (rw_reg w) id -> map rec_of_go (go_blocks w id) = blocks (rw_reg w) id.
Proof.
  intros H. unfold go_blocks, reg_GetRecordsForExport, blocks. rewrite map_map.
  rewrite <- (map_id (newest EXPORT_CAP (sort_by_key (records_of id (r_recs (rw_reg w)))))) at 2.
  apply map_ext_in. intros [k rc] Hin. apply newest_incl in Hin. apply (proj1 (sort_In _ _)) in Hin.
  change (records_of id (r_recs (rw_reg w))) with (recs_of id (r_recs (rw_reg w))) in Hin.
  apply (proj1 (In_recs_of _ _ _ _)) in Hin. destruct (H k rc Hin) as [Hk H5]. cbn [fst snd]. apply rec_of_go_block; assumption.
Qed.

Lemma go_export_entry_model w rg key :
  wrk_recs_of_ok (rw_reg w) (rg_id rg) ->
  entry_of_go (go_export_entry w (to_go_entity rg)) = exp_entry (rw_reg w) (key, rg).
Proof.
  intros H. pose proof (go_blocks_model w (rg_id rg) H) as HB.
  unfold entry_of_go, go_export_entry, exp_entry, exp_rg, of_go_entity, to_go_entity. cbn.
  rewrite <- HB, map_length. f_equal. f_equal.
  destruct (go_blocks w (rg_id rg)); reflexivity.
Qed.

Theorem gen_wrk_ExportGenesis_eq : forall w,
  wrk_recs_exportable (rw_reg w) ->
  exists g, go_ExportGenesis w = Ok g /\ gen_of_go g = export_reg (rw_reg w).
Proof.
  intros w H. eexists. split; [apply gen_wrk_ExportGenesis_run|].
  rewrite export_reg_eq. unfold gen_of_go.
  cbn [GenesisState_Params GenesisState_StartingWrkchainId GenesisState_RegisteredWrkchains].
  rewrite params_of_to_go. f_equal. unfold reg_GetAllEntities. rewrite map_map, map_map.
  apply map_ext_in. intros [key rg] Hin. cbn [snd]. apply go_export_entry_model. exact (H (key, rg) Hin).
Qed.

(* what the registry invariant gives: every stored record carries the key it is stored under *)
Lemma reg_inv_rc_key h s g id k rc : reg_inv h s g -> In ((id, k), rc) (r_recs s) -> rc_key rc = k.
Proof.
  intros I Hin. pose proof (In_aget_nodup _ _ _ (inv_nd_recs _ _ _ I) Hin) as G.
  pose proof (inv_recs_reg _ _ _ I _ _ _ G) as NR.
  destruct (aget id (r_regs s)) as [rg|] eqn:GR; [|contradiction].
  destruct (inv_regs _ _ _ I _ _ GR) as [_ Hok].
  apply (proj2 (In_recs_of _ _ _ _)) in Hin. rewrite (ok_recs _ _ _ _ _ _ Hok) in Hin. apply lastn_incl in Hin.
  pose proof (ok_rckey _ _ _ _ _ _ Hok) as F. rewrite Forall_forall in F. exact (F _ Hin).
Qed.

(* every stored WRKChain record carries five hash strings (RecordWrkChainBlock always stores five) *)
Definition wrk_five_hashes (s : reg_state) : Prop :=
  forall key rc, In (key, rc) (r_recs s) -> List.length (rc_hashes rc) = 5%nat.

Lemma reg_inv_exportable h s g : reg_inv h s g -> wrk_five_hashes s -> wrk_recs_exportable s.
Proof.
  intros I H5 kv _ k rc Hin. split; [exact (reg_inv_rc_key _ _ _ _ _ _ I Hin) | exact (H5 _ _ Hin)].
Qed.

Corollary gen_wrk_ExportGenesis_eq_inv : forall w g0,
  reg_inv true (rw_reg w) g0 -> wrk_five_hashes (rw_reg w) ->
  exists g, go_ExportGenesis w = Ok g /\ gen_of_go g = export_reg (rw_reg w).
Proof. intros w g0 I H5. apply gen_wrk_ExportGenesis_eq. exact (reg_inv_exportable _ _ _ I H5). Qed.

(* ================================================================= *)
(* 3. InitGenesis                                                     *)
(* ================================================================= *)

(* what one iteration of the inner / outer loop of InitGenesis does to the store *)
Definition imp_rec (id : Z) (kr : Z * record) (s : reg_state) : reg_state :=
  with_regs s (r_regs s) (r_limits s) (aset (id, fst kr) (snd kr) (r_recs s)).
Definition imp_entry (e : gen_reg_entry) (s : reg_state) : reg_state :=
  let id := rg_id (gre_reg e) in
  fold_left (fun s kr => imp_rec id kr s) (gre_recs e)
    (with_regs s (aset id (gre_reg e) (r_regs s)) (aset id (gre_limit e) (r_limits s)) (r_recs s)).
(* the whole of InitGenesis, started on any store: parameters that do not validate are NOT stored (the error of
   SetParams is dropped) and the import goes on *)
Definition import_onto (d : gen_reg) (s : reg_state) : reg_state :=
  fold_left (fun s e => imp_entry e s) (gr_regs d)
    {| r_params := if reg_params_valid (gr_params d) then gr_params d else r_params s; r_next := gr_start d;
       r_regs := r_regs s; r_limits := r_limits s; r_recs := r_recs s |}.

#[local] Arguments imp_rec : simpl never.
#[local] Arguments imp_entry : simpl never.

(* the loops of InitGenesis, whatever their bodies are called: the side condition (the body continues with the store
   changed by [f]) is proved by walking the body *)
Ltac iprims :=
  progress unfold reg_SetParams, reg_store_params, reg_SetHighestID, reg_SetEntity, reg_put_entity,
    reg_SetStorageLimit, reg_SetRecord, reg_put_record.
Ltac iloop := fail.
Ltac istep := first [ iprims | progress cbv beta zeta | progress cbn [obind panic_on_err ignore_err] | iloop ].
Ltac iwalk := repeat istep.
Ltac iloop ::=
  match goal with
  | e : go_WrkChainExport |- context [go_range ?b (WrkChainExport_Blocks ?e') ?w0] =>
      rewrite (go_range_world b rec_of_go (imp_rec (WrkChain_WrkchainId (WrkChainExport_Wrkchain e'))))
        by (let blk := fresh "blk" in let w' := fresh "w" in intros blk w'; iwalk; reflexivity)
  | |- context [go_range ?b (GenesisState_RegisteredWrkchains ?g) ?w0] =>
      rewrite (go_range_world b entry_of_go imp_entry)
        by (let e := fresh "e" in let w' := fresh "w" in intros e w'; iwalk; reflexivity)
  end.

Theorem gen_wrk_InitGenesis_run : forall w g,
  go_InitGenesis w g = Ok (with_reg w (import_onto (gen_of_go g) (rw_reg w)), tt).
Proof.
  intros w g. unfold go_InitGenesis, import_onto, gen_of_go. cbn [gr_params gr_start gr_regs].
  iprims. destruct (reg_params_valid (params_of_go (GenesisState_Params g))); iwalk; reflexivity.
Qed.

(* ---- the interleaved writes build the same three maps as the model's three folds ---- *)

Lemma imp_recs_fold id l : forall s,
  fold_left (fun s kr => imp_rec id kr s) l s =
    with_regs s (r_regs s) (r_limits s) (fold_left (fun m2 kr => aset (id, fst kr) (snd kr) m2) l (r_recs s)).
Proof.
  induction l as [|kr l IH]; intros s; cbn [fold_left].
  - destruct s; reflexivity.
  - rewrite IH. reflexivity.
Qed.

Lemma imp_entries_fold es : forall s,
  fold_left (fun s e => imp_entry e s) es s =
    {| r_params := r_params s; r_next := r_next s;
       r_regs := fold_left (fun m e => aset (rg_id (gre_reg e)) (gre_reg e) m) es (r_regs s);
       r_limits := fold_left (fun m e => aset (rg_id (gre_reg e)) (gre_limit e) m) es (r_limits s);
       r_recs := fold_left (fun m e =>
                              fold_left (fun m2 kr => aset (rg_id (gre_reg e), fst kr) (snd kr) m2) (gre_recs e) m)
                           es (r_recs s) |}.
Proof.
  induction es as [|e es IH]; intros s; cbn [fold_left].
  - destruct s; reflexivity.
  - rewrite IH. unfold imp_entry. rewrite imp_recs_fold. reflexivity.
Qed.

(* on a fresh store and a document with valid parameters this is the model's import *)
Lemma import_onto_fresh d p0 :
  reg_params_valid (gr_params d) = true ->
  import_reg d = Some (import_onto d {| r_params := p0; r_next := 0; r_regs := []; r_limits := []; r_recs := [] |}).
Proof.
  intros V. unfold import_reg, import_onto. rewrite V, imp_entries_fold. reflexivity.
Qed.

Theorem gen_wrk_InitGenesis_eq : forall now wall p0 g,
  reg_params_valid (params_of_go (GenesisState_Params g)) = true ->
  exists s', import_reg (gen_of_go g) = Some s' /\
             go_InitGenesis (fresh_world now wall p0) g = Ok (with_reg (fresh_world now wall p0) s', tt).
Proof.
  intros now wall p0 g V. eexists. split.
  - apply (import_onto_fresh (gen_of_go g) p0). exact V.
  - rewrite gen_wrk_InitGenesis_run. reflexivity.
Qed.

(* ================================================================= *)
(* 4. export, then import into a fresh store                          *)
(* ================================================================= *)

(* the generated import of the generated export of a reachable state succeeds and yields exactly the store the
   model's round trip yields ([reg_reimported] of proofs/GenesisProofs.v) *)
Theorem gen_wrk_export_import_roundtrip : forall w g0 now wall p0,
  reg_inv true (rw_reg w) g0 -> wrk_five_hashes (rw_reg w) ->
  exists d, go_ExportGenesis w = Ok d /\
            gen_of_go d = export_reg (rw_reg w) /\
            import_reg (gen_of_go d) = Some (reg_reimported (rw_reg w)) /\
            go_InitGenesis (fresh_world now wall p0) d =
              Ok (with_reg (fresh_world now wall p0) (reg_reimported (rw_reg w)), tt).
Proof.
  intros w g0 now wall p0 I H5.
  destruct (gen_wrk_ExportGenesis_eq_inv w g0 I H5) as (d & E & M).
  exists d. split; [exact E|]. split; [exact M|].
  assert (V : reg_params_valid (params_of_go (GenesisState_Params d)) = true).
  { change (params_of_go (GenesisState_Params d)) with (gr_params (gen_of_go d)). rewrite M.
    exact (inv_params _ _ _ I). }
  destruct (gen_wrk_InitGenesis_eq now wall p0 d V) as (s' & Imp & Run).
  rewrite M, (import_export_reg true _ g0 I) in Imp. injection Imp as <-.
  split; [rewrite M; apply (import_export_reg true _ g0 I) | exact Run].
Qed.

(* exporting the re-imported store gives the very same generated document (no hypothesis on the hashes) *)
Lemma go_blocks_reimported h s g now wall now' wall' id :
  reg_inv h s g -> go_blocks (mk_rworld now' wall' (reg_reimported s)) id = go_blocks (mk_rworld now wall s) id.
Proof.
  intros I. unfold go_blocks, reg_GetRecordsForExport. cbn [rw_reg].
  change (newest EXPORT_CAP (sort_by_key (records_of id (r_recs (reg_reimported s))))) with (blocks (reg_reimported s) id).
  rewrite (blocks_reimported h s g id I). reflexivity.
Qed.

Theorem gen_wrk_export_reimported : forall h s g now wall now' wall',
  reg_inv h s g ->
  go_ExportGenesis (mk_rworld now' wall' (reg_reimported s)) = go_ExportGenesis (mk_rworld now wall s).
Proof.
  intros h s g now wall now' wall' I. rewrite !gen_wrk_ExportGenesis_run. cbn [rw_reg].
  f_equal. unfold reg_GetAllEntities. cbn [rw_reg reg_reimported r_params r_next r_regs]. f_equal.
  rewrite !map_map. apply map_ext_in. intros kv Hin. cbn [fst snd].
  unfold go_export_entry, to_go_entity, exp_rg. cbn.
  rewrite (go_blocks_reimported h s g now wall now' wall' _ I). reflexivity.
Qed.

(* ================================================================= *)
(* 5. the hypotheses cannot be dropped; a concrete world              *)
(* ================================================================= *)
Local Open Scope string_scope.

Definition exg_params : reg_params :=
  {| rp_fee_register := 1000; rp_fee_record := 1; rp_fee_purchase := 5; rp_denom := 1; rp_default_limit := 5;
     rp_max_limit := 10 |}.
Definition exg_bad_params : reg_params :=
  {| rp_fee_register := 1000; rp_fee_record := 1; rp_fee_purchase := 5; rp_denom := -1; rp_default_limit := 5;
     rp_max_limit := 10 |}.
Definition exg_p0 : reg_params :=
  {| rp_fee_register := 1; rp_fee_record := 1; rp_fee_purchase := 1; rp_denom := 2; rp_default_limit := 1;
     rp_max_limit := 1 |}.

(* InitGenesis drops the error of SetParams: with parameters that do not validate the generated code keeps the old
   parameters and imports the rest, the model's import refuses.  (x/wrkchain's ValidateGenesis rejects such a document
   before InitGenesis runs.) *)
Example gen_wrk_InitGenesis_invalid_params_differ :
  let g := mk_go_GenesisState (params_to_go exg_bad_params) 4 [] in
  reg_params_valid (params_of_go (GenesisState_Params g)) = false /\
  import_reg (gen_of_go g) = None /\
  go_InitGenesis (fresh_world 0 0 exg_p0) g =
    Ok (with_reg (fresh_world 0 0 exg_p0)
          {| r_params := exg_p0; r_next := 4; r_regs := []; r_limits := []; r_recs := [] |}, tt).
Proof. vm_compute. repeat split; reflexivity. Qed.

Definition exg_rg1 : registration :=
  {| rg_id := 1; rg_owner := 11; rg_moniker := "wc1"; rg_name := "one"; rg_genesis := "g1"; rg_type := "geth";
     rg_last := 30; rg_num := 3; rg_lowest := 10; rg_regtime := 1700000000 |}.
Definition exg_rg2 : registration :=
  {| rg_id := 2; rg_owner := 12; rg_moniker := "wc2"; rg_name := "two"; rg_genesis := "g2"; rg_type := "cosmos";
     rg_last := 0; rg_num := 0; rg_lowest := 0; rg_regtime := 1700000500 |}.
Definition exg_rec (k : Z) (h : string) : (Z * Z) * record :=
  ((1, k), {| rc_key := k; rc_hashes := [h; "p"; "x"; "y"; "z"]; rc_time := 1700000000 + k |}).
(* two registrations: the first with three records and a bought limit (7 = default 5 + 2), the second without records *)
Definition exg_state : reg_state :=
  {| r_params := exg_params; r_next := 3; r_regs := [(1, exg_rg1); (2, exg_rg2)]; r_limits := [(1, 7); (2, 5)];
     r_recs := [exg_rec 10 "a"; exg_rec 20 "b"; exg_rec 30 "c"] |}.
Definition exg_world : rworld := mk_rworld (1700001000 * NSEC) 5 exg_state.

(* a stored record with four hash strings: the generated export writes five fields (the fifth empty), the model's
   document carries the four-element list *)
Definition exg_state_4 : reg_state :=
  {| r_params := exg_params; r_next := 3; r_regs := [(1, exg_rg1)]; r_limits := [(1, 7)];
     r_recs := [((1, 10), {| rc_key := 10; rc_hashes := ["a"; "p"; "x"; "y"]; rc_time := 5 |})] |}.
Example gen_wrk_ExportGenesis_needs_five_hashes :
  exists g, go_ExportGenesis (mk_rworld 0 0 exg_state_4) = Ok g /\ gen_of_go g <> export_reg exg_state_4.
Proof. eexists. split; [vm_compute; reflexivity|]. vm_compute. discriminate. Qed.

(* a stored record whose own key field differs from the key it is stored under: the generated export writes the
   store key only, the model's document carries the record as it is *)
Definition exg_state_k : reg_state :=
  {| r_params := exg_params; r_next := 3; r_regs := [(1, exg_rg1)]; r_limits := [(1, 7)];
     r_recs := [((1, 10), {| rc_key := 11; rc_hashes := ["a"; "p"; "x"; "y"; "z"]; rc_time := 5 |})] |}.
Example gen_wrk_ExportGenesis_needs_rc_key :
  exists g, go_ExportGenesis (mk_rworld 0 0 exg_state_k) = Ok g /\ gen_of_go g <> export_reg exg_state_k.
Proof. eexists. split; [vm_compute; reflexivity|]. vm_compute. discriminate. Qed.

(* the concrete world satisfies the hypotheses of the export theorem *)
Lemma exg_state_exportable : wrk_recs_exportable exg_state.
Proof.
  intros kv _ k rc Hin. cbn in Hin.
  destruct Hin as [E|[E|[E|[]]]]; injection E as _ <- <-; split; reflexivity.
Qed.
