(* List / association-map lemmas behind the genesis round trip (C15): re-inserting the entries of a
   duplicate-free association list rebuilds the same list; [sort_by_key] is a sorted permutation;
   [newest] keeps a suffix of bounded length. *)
From MC Require Import lib.Prelude lib.AMap model.Bank model.Registry model.RegistrySpec model.Genesis.
From MC Require Import proofs.RegistryProofs.
From Coq Require Import Permutation Sorting.Sorted ZifyBool.
Ltac Zify.zify_post_hook ::= Z.div_mod_to_equations.
Local Open Scope Z_scope.

(* ================================================================= *)
(* 1. NoDup over appends                                              *)
(* ================================================================= *)

Lemma NoDup_app_iff {A} (l1 l2 : list A) :
  NoDup (l1 ++ l2) <-> NoDup l1 /\ NoDup l2 /\ (forall x, In x l1 -> ~ In x l2).
Proof.
  induction l1 as [|a l1 IH]; cbn [app].
  - split; [intros N; split; [constructor|split; [exact N|intros ? []]] | tauto].
  - split.
    + intros N. inversion N as [|? ? NI N']; subst. apply IH in N' as (N1 & N2 & D).
      split; [constructor; [intros X; apply NI, in_or_app; left; exact X | exact N1]|].
      split; [exact N2|]. intros x [<-|X]; [intros Y; apply NI, in_or_app; right; exact Y | apply D; exact X].
    + intros (N1 & N2 & D). inversion N1 as [|? ? NI N1']; subst. constructor.
      * intros X. apply in_app_or in X as [X|X]; [tauto | apply (D a); [left; reflexivity | exact X]].
      * apply IH. split; [exact N1'|split; [exact N2|]]. intros x X. apply D; right; exact X.
Qed.

Lemma NoDup_app_l {A} (l1 l2 : list A) : NoDup (l1 ++ l2) -> NoDup l1.
Proof. intros N; apply NoDup_app_iff in N; tauto. Qed.

Lemma NoDup_app_r {A} (l1 l2 : list A) : NoDup (l1 ++ l2) -> NoDup l2.
Proof. intros N; apply NoDup_app_iff in N; tauto. Qed.

(* ================================================================= *)
(* 2. rebuilding an association list by re-inserting its entries      *)
(* ================================================================= *)

Section Rebuild.
  Context {K V : Type} `{EqKey K}.

  Lemma akeys_app (m1 m2 : amap K V) : akeys (m1 ++ m2) = akeys m1 ++ akeys m2.
  Proof. unfold akeys. apply map_app. Qed.

  (* inserting a fresh key appends at the end *)
  Lemma aset_notin_app k (v : V) (m : amap K V) : ~ In k (akeys m) -> aset k v m = m ++ [(k, v)].
  Proof.
    induction m as [|[k' v'] r IH]; cbn; [reflexivity|].
    intros N. destruct (keqb k k') eqn:E.
    - apply keqb_spec in E; subst; tauto.
    - rewrite IH; tauto.
  Qed.

  Lemma fold_aset_app {A} (kf : A -> K) (vf : A -> V) (l : list A) : forall acc : amap K V,
    NoDup (akeys acc ++ map kf l) ->
    fold_left (fun m x => aset (kf x) (vf x) m) l acc = acc ++ map (fun x => (kf x, vf x)) l.
  Proof.
    induction l as [|a l IH]; intros acc ND; cbn [fold_left map].
    - rewrite app_nil_r; reflexivity.
    - cbn [map] in ND. pose proof (NoDup_remove_2 _ _ _ ND) as NI.
      assert (Hfresh : ~ In (kf a) (akeys acc)) by (intros X; apply NI, in_or_app; left; exact X).
      rewrite IH.
      + rewrite (aset_notin_app _ _ _ Hfresh), <- app_assoc. reflexivity.
      + rewrite (aset_notin_app _ _ _ Hfresh), akeys_app, <- app_assoc. exact ND.
  Qed.

  (* the key lemma: re-inserting the entries of a duplicate-free association list, in order, into the
     empty map rebuilds exactly the same list *)
  Lemma rebuild_amap (m : amap K V) :
    NoDup (akeys m) -> fold_left (fun acc kv => aset (fst kv) (snd kv) acc) m [] = m.
  Proof.
    intros ND. rewrite (fold_aset_app fst snd m []) by exact ND. cbn [app].
    rewrite <- (map_id m) at 2. apply map_ext. intros [k v]; reflexivity.
  Qed.

  Lemma NoDup_akeys_NoDup (m : amap K V) : NoDup (akeys m) -> NoDup m.
  Proof. apply NoDup_map_inv. Qed.

  (* duplicate-free maps with the same entries answer every lookup alike, and are permutations *)
  Lemma aget_ext_In (m m' : amap K V) :
    NoDup (akeys m) -> NoDup (akeys m') -> (forall k v, In (k, v) m <-> In (k, v) m') ->
    forall k, aget k m = aget k m'.
  Proof.
    intros N N' E k. destruct (aget k m) as [v|] eqn:G.
    - apply aget_In, E in G. symmetry. apply In_aget_nodup; assumption.
    - destruct (aget k m') as [v'|] eqn:G'; [|reflexivity].
      apply aget_In, E in G'. apply (In_aget_nodup _ _ _ N) in G'. congruence.
  Qed.

  Lemma perm_ext_In (m m' : amap K V) :
    NoDup (akeys m) -> NoDup (akeys m') -> (forall k v, In (k, v) m <-> In (k, v) m') -> Permutation m m'.
  Proof.
    intros N N' E. apply NoDup_Permutation; try (apply NoDup_akeys_NoDup; assumption).
    intros [k v]. apply E.
  Qed.

  (* a duplicate-free map is determined by its key list and its lookups *)
  Lemma amap_as_keys (d : V) (m : amap K V) :
    NoDup (akeys m) ->
    map (fun k => (k, match aget k m with Some v => v | None => d end)) (akeys m) = m.
  Proof.
    induction m as [|[k v] r IH]; [reflexivity|]. cbn [akeys map fst]. intros ND.
    inversion ND as [|? ? NI ND']; subst. cbn [aget]. rewrite keqb_refl. f_equal.
    rewrite <- (IH ND') at 2. apply map_ext_in. intros k' Hk'.
    rewrite keqb_neq; [reflexivity|]. intros ->. exact (NI Hk').
  Qed.
End Rebuild.

(* ================================================================= *)
(* 3. sort_by_key                                                     *)
(* ================================================================= *)

Definition key_le (x y : Z * record) : Prop := fst x <= fst y.

Lemma insert_perm x l : Permutation (insert_by_key x l) (x :: l).
Proof.
  induction l as [|y r IH]; cbn [insert_by_key]; [apply Permutation_refl|].
  destruct (fst x <? fst y); [apply Permutation_refl|].
  eapply perm_trans; [apply perm_skip, IH | apply perm_swap].
Qed.

Lemma sort_perm l : Permutation (sort_by_key l) l.
Proof.
  unfold sort_by_key. induction l as [|x l IH]; cbn [fold_right]; [apply perm_nil|].
  eapply perm_trans; [apply insert_perm | apply perm_skip, IH].
Qed.

Lemma sort_length l : List.length (sort_by_key l) = List.length l.
Proof. apply Permutation_length, sort_perm. Qed.

Lemma sort_In l x : In x (sort_by_key l) <-> In x l.
Proof.
  split; apply Permutation_in; [apply sort_perm | apply Permutation_sym, sort_perm].
Qed.

Lemma insert_sorted x l : StronglySorted key_le l -> StronglySorted key_le (insert_by_key x l).
Proof.
  induction 1 as [|y r S IH F]; cbn [insert_by_key].
  - constructor; constructor.
  - destruct (fst x <? fst y) eqn:E.
    + constructor; [constructor; assumption|]. constructor; [unfold key_le; lia|].
      rewrite Forall_forall in *. intros z Hz. specialize (F z Hz). unfold key_le in *; lia.
    + constructor; [exact IH|]. rewrite Forall_forall in *. intros z Hz.
      apply (Permutation_in _ (insert_perm x r)) in Hz. destruct Hz as [<-|Hz]; [unfold key_le; lia | auto].
Qed.

Lemma sort_sorted l : StronglySorted key_le (sort_by_key l).
Proof.
  unfold sort_by_key. induction l as [|x l IH]; cbn [fold_right]; [constructor | apply insert_sorted, IH].
Qed.

(* with distinct keys the order is strict *)
Lemma sorted_nodup_si l :
  StronglySorted key_le l -> NoDup (map fst l) -> strictly_increasing (map fst l).
Proof.
  induction 1 as [|x r S IH F]; cbn [map]; [intros _; exact I|].
  intros ND. inversion ND as [|? ? NI ND']; subst. apply si_cons. split; [|apply IH; exact ND'].
  intros y Hy. apply in_map_iff in Hy as (z & <- & Hz).
  rewrite Forall_forall in F. specialize (F z Hz). unfold key_le in F.
  assert (fst x <> fst z) by (intros E; apply NI; rewrite E; apply in_map; exact Hz). lia.
Qed.

Lemma sort_strict l : NoDup (map fst l) -> strictly_increasing (map fst (sort_by_key l)).
Proof.
  intros ND. apply sorted_nodup_si; [apply sort_sorted|].
  eapply Permutation_NoDup; [|exact ND]. apply Permutation_map, Permutation_sym, sort_perm.
Qed.

(* a list already in strictly ascending key order is left alone *)
Lemma sort_id l : strictly_increasing (map fst l) -> sort_by_key l = l.
Proof.
  unfold sort_by_key. induction l as [|x l IH]; [reflexivity|]. cbn [map fold_right].
  intros S. apply si_cons in S as [Hall S]. rewrite (IH S).
  destruct l as [|y r]; [reflexivity|]. cbn [insert_by_key].
  assert (fst x < fst y) by (apply Hall; left; reflexivity).
  destruct (fst x <? fst y) eqn:E; [reflexivity | lia].
Qed.

Lemma sort_idem l : NoDup (map fst l) -> sort_by_key (sort_by_key l) = sort_by_key l.
Proof. intros ND. apply sort_id, sort_strict, ND. Qed.

(* ================================================================= *)
(* 4. newest                                                          *)
(* ================================================================= *)

Lemma newest_all {A} cap (l : list A) : Z.of_nat (List.length l) <= cap -> newest cap l = l.
Proof. intros L. unfold newest. replace (Z.to_nat _) with 0%nat by lia. reflexivity. Qed.

Lemma newest_length {A} cap (l : list A) :
  0 <= cap -> Z.of_nat (List.length (newest cap l)) = Z.min (Z.of_nat (List.length l)) cap.
Proof. intros C. unfold newest. rewrite skipn_length. lia. Qed.

(* the dropped part is a prefix: [newest] keeps the last [cap] elements *)
Lemma newest_split {A} cap (l : list A) :
  exists pre, l = pre ++ newest cap l /\
              Z.of_nat (List.length pre) = Z.max 0 (Z.of_nat (List.length l) - Z.max 0 cap).
Proof.
  unfold newest. exists (firstn (Z.to_nat (Z.of_nat (List.length l) - cap)) l). split.
  - symmetry. apply firstn_skipn.
  - rewrite firstn_length. lia.
Qed.

Lemma newest_incl {A} cap (l : list A) x : In x (newest cap l) -> In x l.
Proof.
  destruct (newest_split cap l) as (pre & E & _). intros X. rewrite E. apply in_or_app; right; exact X.
Qed.

Lemma newest_idem {A} cap (l : list A) : 0 <= cap -> newest cap (newest cap l) = newest cap l.
Proof. intros C. apply newest_all. rewrite newest_length by exact C. lia. Qed.

Lemma newest_map {A B} (f : A -> B) cap l : map f (newest cap l) = newest cap (map f l).
Proof. unfold newest. rewrite map_length, skipn_map. reflexivity. Qed.

Lemma newest_si cap l : strictly_increasing l -> strictly_increasing (newest cap l).
Proof.
  intros S. destruct (newest_split cap l) as (pre & E & _). rewrite E in S. apply si_app in S. tauto.
Qed.

(* every dropped key is below every kept key *)
Lemma newest_largest cap l :
  strictly_increasing l ->
  exists pre, l = pre ++ newest cap l /\ forall a b, In a pre -> In b (newest cap l) -> a < b.
Proof.
  intros S. destruct (newest_split cap l) as (pre & E & _). exists pre. split; [exact E|].
  rewrite E in S. apply si_app in S. tauto.
Qed.

Lemma newest_nodup {A} cap (l : list A) : NoDup l -> NoDup (newest cap l).
Proof.
  intros N. destruct (newest_split cap l) as (pre & E & _). rewrite E in N. eapply NoDup_app_r; eauto.
Qed.
