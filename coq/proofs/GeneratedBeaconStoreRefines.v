(* REFINEMENT: the GENERATED store accessors of x/beacon (GeneratedBeaconStore.v, go_st_*, over the ordered byte-keyed
   store of model/KVStore.v) IMPLEMENT the hand-written primitives of model/RegistryWorld.v + model/BeaconKeeperPrims.v
   (reg_*, over the abstract registry state [reg_state] of model/Registry.v) the keeper-level translation is written
   against.

   Correspondence (by name and meaning):
     go_st_GetParams                     reg_GetParams
     go_st_SetParams                     reg_SetParams (= reg_store_params o params_of_go)
     go_st_GetParamDenom                 reg_GetParamDenom
     go_st_GetParamDefaultStorageLimit   reg_GetParamDefaultStorageLimit
     go_st_GetParamMaxStorageLimit       reg_GetParamMaxStorageLimit
     go_st_GetParam{Registration,Record,PurchaseStorage}Fee   the rp_fee_* field the reg_Get*FeeAsCoin primitives wrap
     go_st_GetHighestBeaconID            reg_GetHighestID
     go_st_SetHighestBeaconID            reg_SetHighestID
     go_st_IsBeaconRegistered            reg_IsRegistered
     go_st_GetBeacon                     reg_GetEntity
     go_st_SetBeacon                     reg_SetEntity (= reg_put_entity o of_go_entity)
     go_st_GetAllBeacons / IterateBeacons          reg_GetAllEntities
     go_st_HasBeaconStorageLimit         ahas id (r_limits ..)
     go_st_GetBeaconStorageLimit         reg_GetStorageLimit
     go_st_SetBeaconStorageLimit         reg_SetStorageLimit
     go_st_SetBeaconTimestamp            reg_SetRecord (= reg_put_record o rec_of_go)
     go_st_IsBeaconTimestampRecordedByID ahas (id, t) (r_recs ..)
     go_st_GetBeaconTimestampByID        reg_GetRecord
     go_st_deleteBeaconTimestamp         reg_DeleteRecord
     go_st_GetAllBeaconTimestamps / IterateBeaconTimestamps{,Reverse}
                                         sort_by_key (records_of id (r_recs ..))  (what reg_GetRecordsForExport caps)

   [Rreg s st] is the representation relation; readers agree, writers simulate, listings agree, the initial store is
   related, and the simulation composes over any history of writes (run_sim).
   What the relation has to exclude although the primitives tolerate it is shown necessary by *_refuted Examples. *)
From Coq Require Import ZArith NArith List Bool Lia Sorted Permutation.
From MC Require Import lib.Prelude lib.AMap lib.GoSdk model.Keys model.KeyPrims model.KVStore model.StoreCodecPrims.
From MC Require Import model.Bank model.Registry model.Genesis model.BeaconKeeperPrims.
From MC Require Import GeneratedKeys GeneratedBeaconTypes GeneratedBeaconKeeper GeneratedBeaconStore.
From MC Require Import proofs.KeysProofs proofs.GeneratedKeysEq proofs.KVStoreFacts proofs.KVStoreFacts2Beacon.
From MC Require Import proofs.GeneratedBeaconStoreEq proofs.GeneratedBeaconParamsEq.
Import ListNotations.
Open Scope Z_scope.

(* ================================================================== *)
(* 0. small library: association maps, insertion sort by key             *)
(* ================================================================== *)

Section AMapMore.
  Context {K V : Type} `{EqKey K}.

  Lemma aget_of_In k v (m : amap K V) : NoDup (akeys m) -> In (k, v) m -> aget k m = Some v.
  Proof.
    induction m as [|[k1 v1] r IH]; intros ND Hin; [destruct Hin|].
    inversion ND as [|? ? NI ND']; subst. cbn. destruct Hin as [E|Hin].
    - inversion E; subst. rewrite keqb_refl. reflexivity.
    - destruct (keqb k k1) eqn:E.
      + apply keqb_spec in E; subst. exfalso. apply NI. change k1 with (fst (k1, v)). apply in_map. exact Hin.
      + apply IH; assumption.
  Qed.

  Lemma aset_In k v (m : amap K V) k' v' : In (k', v') (aset k v m) -> (k' = k /\ v' = v) \/ In (k', v') m.
  Proof.
    induction m as [|[k1 v1] r IH]; cbn.
    - intros [E|[]]. inversion E; subst. left; split; reflexivity.
    - destruct (keqb k k1); cbn.
      + intros [E|Hin]; [inversion E; subst; left; split; reflexivity | right; right; exact Hin].
      + intros [E|Hin]; [right; left; exact E|]. destruct (IH Hin) as [X|X]; [left; exact X | right; right; exact X].
  Qed.

  Lemma adel_In k (m : amap K V) k' v' : In (k', v') (adel k m) -> In (k', v') m.
  Proof.
    induction m as [|[k1 v1] r IH]; cbn; [tauto|].
    destruct (keqb k k1); cbn; [intros X; right; exact X | intros [E|X]; [left; exact E | right; apply IH; exact X]].
  Qed.

  Lemma aget_Some_key k v (m : amap K V) : aget k m = Some v -> In k (akeys m).
  Proof. intros G. apply aget_In in G. change k with (fst (k, v)). apply in_map. exact G. Qed.
End AMapMore.

(* insertion sort of a Z-keyed list by its key: the order a byte store lists them in *)
Section ZSort.
  Context {V : Type}.

  Fixpoint zinsert (x : Z * V) (l : list (Z * V)) : list (Z * V) :=
    match l with
    | [] => [x]
    | y :: r => if fst x <? fst y then x :: l else y :: zinsert x r
    end.
  Definition zsort (l : list (Z * V)) : list (Z * V) := fold_right zinsert [] l.
  Definition zlt (a b : Z * V) : Prop := fst a < fst b.

  Lemma zinsert_perm x l : Permutation (zinsert x l) (x :: l).
  Proof.
    induction l as [|y r IH]; cbn; [apply Permutation_refl|].
    destruct (fst x <? fst y); [apply Permutation_refl|].
    eapply perm_trans; [apply perm_skip; exact IH | apply perm_swap].
  Qed.

  Lemma zsort_perm l : Permutation (zsort l) l.
  Proof.
    induction l as [|a l IH]; cbn; [constructor|].
    eapply perm_trans; [apply zinsert_perm | apply perm_skip; exact IH].
  Qed.

  Lemma zsort_In x l : In x (zsort l) <-> In x l.
  Proof. split; apply Permutation_in; [apply zsort_perm | symmetry; apply zsort_perm]. Qed.

  Lemma zinsert_sorted x l : StronglySorted zlt l -> ~ In (fst x) (map fst l) -> StronglySorted zlt (zinsert x l).
  Proof.
    induction l as [|y r IH]; intros HS NI; cbn.
    - constructor; constructor.
    - inversion HS as [|? ? HS' HF]; subst. destruct (Z.ltb_spec (fst x) (fst y)) as [L|L].
      + constructor; [exact HS|]. constructor; [exact L|]. rewrite Forall_forall in *.
        intros b Hb. specialize (HF b Hb). unfold zlt in *. lia.
      + assert (Hne : fst y <> fst x) by (intros E; apply NI; left; exact E).
        constructor; [apply IH; [exact HS' | intros I; apply NI; right; exact I]|].
        apply Forall_forall. intros b Hb. apply (Permutation_in _ (zinsert_perm x r)) in Hb.
        destruct Hb as [<-|Hb]; [unfold zlt; lia | rewrite Forall_forall in HF; apply HF; exact Hb].
  Qed.

  Lemma zsort_sorted l : NoDup (map fst l) -> StronglySorted zlt (zsort l).
  Proof.
    induction l as [|a l IH]; intros ND; cbn; [constructor|].
    inversion ND as [|? ? NI ND']; subst. apply zinsert_sorted; [apply IH; exact ND'|].
    intros I. apply NI. eapply Permutation_in; [apply Permutation_map, zsort_perm | exact I].
  Qed.

  (* an ascending list is its own sorting *)
  Lemma zsort_id l : StronglySorted zlt l -> zsort l = l.
  Proof.
    induction 1 as [|a l HS IH HF]; [reflexivity|].
    change (zsort (a :: l)) with (zinsert a (zsort l)). rewrite IH.
    destruct l as [|y r]; cbn; [reflexivity|]. inversion HF as [|? ? H1 _]; subst. unfold zlt in H1.
    destruct (Z.ltb_spec (fst a) (fst y)); [reflexivity | lia].
  Qed.

  Lemma keys_sorted_zlt l : StronglySorted Z.lt (map fst l) -> StronglySorted zlt l.
  Proof. intros H. apply (strongly_map fst Z.lt zlt l H). intros a b _ _ X. exact X. Qed.
End ZSort.

(* model/Genesis.v's sort_by_key is that sort *)
Lemma insert_by_key_zinsert x l : insert_by_key x l = zinsert x l.
Proof. induction l as [|y r IH]; cbn; [reflexivity|]. rewrite IH. reflexivity. Qed.
Lemma sort_by_key_zsort l : sort_by_key l = zsort l.
Proof. induction l as [|a l IH]; cbn; [reflexivity|]. unfold sort_by_key in IH. rewrite IH. apply insert_by_key_zinsert. Qed.

Lemma records_of_In id recs t rc : In (t, rc) (records_of id recs) <-> In ((id, t), rc) recs.
Proof.
  unfold records_of. rewrite in_map_iff. split.
  - intros [[[i h] r] [E Hin]]. cbn in E. inversion E; subst. apply filter_In in Hin. destruct Hin as [Hin F].
    cbn in F. apply Z.eqb_eq in F. subst. exact Hin.
  - intros Hin. exists ((id, t), rc). split; [reflexivity|]. apply filter_In. split; [exact Hin | cbn; apply Z.eqb_refl].
Qed.

Lemma records_of_nodup id (recs : amap (Z * Z) record) : NoDup (akeys recs) -> NoDup (map fst (records_of id recs)).
Proof.
  induction recs as [|[[i h] r] m IH]; intros ND; [constructor|].
  inversion ND as [|? ? NI ND']; subst. unfold records_of. cbn [filter fst snd].
  destruct (i =? id) eqn:E; [|apply IH; exact ND'].
  apply Z.eqb_eq in E. subst i. cbn [map fst snd]. constructor; [|apply IH; exact ND'].
  intros Hin. apply in_map_iff in Hin. destruct Hin as [[h' r'] [Eh Hin]]. cbn in Eh. subst h'.
  apply records_of_In in Hin. apply NI. change (id, h) with (fst ((id, h), r')). apply in_map. exact Hin.
Qed.

(* ================================================================== *)
(* 1. the conversions of the primitives                                  *)
(* ================================================================== *)

Definition u64 (x : Z) : Prop := 0 <= x < 2 ^ 64.

(* the record conversions written inline in reg_SetRecord / reg_GetRecord *)
Definition rec_of_go (b : go_BeaconTimestamp) : record :=
  {| rc_key := BeaconTimestamp_TimestampId b; rc_hashes := [BeaconTimestamp_Hash b]; rc_time := BeaconTimestamp_SubmitTime b |}.
Definition rec_to_go (rc : record) : go_BeaconTimestamp :=
  mk_go_BeaconTimestamp (rc_key rc) (rc_time rc) (nth 0 (rc_hashes rc) EmptyString).

Lemma reg_SetRecord_eq w id b : reg_SetRecord w id b = reg_put_record w id (rec_of_go b).
Proof. reflexivity. Qed.
Lemma reg_GetRecord_eq w id t :
  reg_GetRecord w id t = match aget (id, t) (r_recs (rw_reg w)) with Some rc => (rec_to_go rc, true) | None => (zero_go_BeaconTimestamp, false) end.
Proof. reflexivity. Qed.

Lemma to_go_of_go_entity g : to_go_entity (of_go_entity g) = g.
Proof. destruct g; reflexivity. Qed.
Lemma of_go_to_go_entity rg : rg_genesis rg = EmptyString -> rg_type rg = EmptyString -> of_go_entity (to_go_entity rg) = rg.
Proof. destruct rg; cbn. intros -> ->. reflexivity. Qed.
(* the two fields the beacon conversion drops must be fixed for the conversion to be a bijection *)
Example of_go_to_go_entity_refuted :
  let rg := {| rg_id := 1; rg_owner := 1; rg_moniker := EmptyString; rg_name := EmptyString; rg_genesis := "g"%string;
               rg_type := EmptyString; rg_last := 0; rg_num := 0; rg_lowest := 0; rg_regtime := 0 |} in
  of_go_entity (to_go_entity rg) <> rg.
Proof. cbv zeta. intros E. discriminate E. Qed.

Lemma rec_to_of_go b : rec_to_go (rec_of_go b) = b.
Proof. destruct b; reflexivity. Qed.
Lemma rec_of_to_go rc : (exists h, rc_hashes rc = [h]) -> rec_of_go (rec_to_go rc) = rc.
Proof. destruct rc as [k hs t]; cbn. intros [h ->]. reflexivity. Qed.
Lemma params_to_of_go p : params_to_go (params_of_go p) = p.
Proof. destruct p; reflexivity. Qed.
Lemma params_of_to_go p : params_of_go (params_to_go p) = p.
Proof. destruct p; reflexivity. Qed.

(* what the store holds for an abstract entry *)
Definition v_reg (rg : registration) : beacon_val := BV_Beacon (to_go_entity rg).
Definition v_lim (id l : Z) : beacon_val := BV_BeaconStorageLimit (mk_go_BeaconStorageLimit id l).
Definition v_rec (rc : record) : beacon_val := BV_BeaconTimestamp (rec_to_go rc).

(* ================================================================== *)
(* 2. the representation relation                                        *)
(* ================================================================== *)

(* AMap well-formedness: keys pairwise distinct and in the uint64 range; every entry keyed by its own id; the fields
   the conversions drop / reshape fixed *)
Definition regs_wf (m : amap Z registration) : Prop :=
  NoDup (akeys m) /\
  forall id rg, In (id, rg) m -> u64 id /\ rg_id rg = id /\ rg_genesis rg = EmptyString /\ rg_type rg = EmptyString.
Definition limits_wf (m : amap Z Z) : Prop :=
  NoDup (akeys m) /\ forall id l, In (id, l) m -> u64 id.
Definition recs_wf (m : amap (Z * Z) record) : Prop :=
  NoDup (akeys m) /\
  forall id t rc, In ((id, t), rc) m -> u64 id /\ u64 t /\ rc_key rc = t /\ exists h, rc_hashes rc = [h].

(* the keys a related store may hold *)
Definition key_ok (k : list N) : Prop :=
  k = beacon_ParamsKey \/ k = beacon_HighestBeaconIDKey \/
  (exists id, u64 id /\ k = kReg id) \/ (exists id, u64 id /\ k = kLim id) \/
  (exists id t, u64 id /\ u64 t /\ k = kRec id t).

Record Rreg (s : store) (st : reg_state) : Prop := {
  R_sorted : okv_sorted s = true;
  R_params : okv_get s beacon_ParamsKey = Some (BV_Params (params_to_go (r_params st)));
  R_next_range : u64 (r_next st);
  R_next : okv_get s beacon_HighestBeaconIDKey = Some (BV_bytes (be64 (Z.to_N (r_next st))));
  R_regs_wf : regs_wf (r_regs st);
  R_regs : forall id, u64 id -> okv_get s (kReg id) = option_map v_reg (aget id (r_regs st));
  R_limits_wf : limits_wf (r_limits st);
  R_limits : forall id, u64 id -> okv_get s (kLim id) = option_map (v_lim id) (aget id (r_limits st));
  R_recs_wf : recs_wf (r_recs st);
  R_recs : forall id t, u64 id -> u64 t -> okv_get s (kRec id t) = option_map v_rec (aget (id, t) (r_recs st));
  R_complete : forall k v, In (k, v) s -> key_ok k
}.

(* ---- keys of different kinds differ ---- *)
Lemma key_neq_hd (a b : list N) : hd 0%N a <> hd 0%N b -> a <> b.
Proof. intros H E. apply H. rewrite E. reflexivity. Qed.
Lemma hd_Params : hd 0%N beacon_ParamsKey = 4%N. Proof. reflexivity. Qed.
Lemma hd_Highest : hd 0%N beacon_HighestBeaconIDKey = 32%N. Proof. reflexivity. Qed.
Ltac kind_neq :=
  apply key_neq_hd; rewrite ?hd_kReg, ?hd_kLim, ?hd_kRec, ?hd_Params, ?hd_Highest; discriminate.

Lemma complete_set (s : store) K v0 : (forall k v, In (k, v) s -> key_ok k) -> key_ok K ->
  forall k v, In (k, v) (okv_set s K v0) -> key_ok k.
Proof. intros H HK k v Hin. apply set_in in Hin. destruct Hin as [[-> _]|Hin]; [exact HK | eapply H; exact Hin]. Qed.
Lemma complete_del (s : store) K : (forall k v, In (k, v) s -> key_ok k) ->
  forall k v, In (k, v) (okv_del s K) -> key_ok k.
Proof. intros H k v Hin. apply del_in in Hin. eapply H; exact Hin. Qed.

(* ================================================================== *)
(* 3. READERS agree                                                      *)
(* ================================================================== *)

Section Readers.
  Variables (s : store) (w : rworld).
  Hypothesis R : Rreg s (rw_reg w).

  Lemma GetParams_refines : go_st_GetParams s = Ok (reg_GetParams w).
  Proof. rewrite GetParams_spec, (R_params _ _ R). reflexivity. Qed.

  Lemma GetParamDenom_refines : go_st_GetParamDenom s = Ok (reg_GetParamDenom w).
  Proof. unfold go_st_GetParamDenom. rewrite GetParams_refines. reflexivity. Qed.
  Lemma GetParamDefaultStorageLimit_refines : go_st_GetParamDefaultStorageLimit s = Ok (reg_GetParamDefaultStorageLimit w).
  Proof. unfold go_st_GetParamDefaultStorageLimit. rewrite GetParams_refines. reflexivity. Qed.
  Lemma GetParamMaxStorageLimit_refines : go_st_GetParamMaxStorageLimit s = Ok (reg_GetParamMaxStorageLimit w).
  Proof. unfold go_st_GetParamMaxStorageLimit. rewrite GetParams_refines. reflexivity. Qed.
  Lemma GetParamRegistrationFee_refines : go_st_GetParamRegistrationFee s = Ok (rp_fee_register (r_params (rw_reg w))).
  Proof. unfold go_st_GetParamRegistrationFee. rewrite GetParams_refines. reflexivity. Qed.
  Lemma GetParamRecordFee_refines : go_st_GetParamRecordFee s = Ok (rp_fee_record (r_params (rw_reg w))).
  Proof. unfold go_st_GetParamRecordFee. rewrite GetParams_refines. reflexivity. Qed.
  Lemma GetParamPurchaseStorageFee_refines : go_st_GetParamPurchaseStorageFee s = Ok (rp_fee_purchase (r_params (rw_reg w))).
  Proof. unfold go_st_GetParamPurchaseStorageFee. rewrite GetParams_refines. reflexivity. Qed.

  Lemma GetHighestID_refines : go_st_GetHighestBeaconID s = reg_GetHighestID w.
  Proof.
    pose proof (R_next_range _ _ R) as Hr. unfold u64 in Hr.
    rewrite GetHighestBeaconID_spec, (R_next _ _ R). cbn [rd_Highest].
    rewrite gen_bcn_GetBeaconIDFromBytes_eq, de64_checked_be64 by (apply wf_id_lt, wf_id_Z; exact Hr).
    cbn [lift_opt obind]. rewrite Z2N.id by lia. reflexivity.
  Qed.

  Lemma IsRegistered_refines id : u64 id -> go_st_IsBeaconRegistered s id = Ok (reg_IsRegistered w id).
  Proof.
    intros Hid. rewrite IsBeaconRegistered_spec, (R_regs _ _ R) by exact Hid.
    unfold reg_IsRegistered, ahas. destruct (aget id (r_regs (rw_reg w))); reflexivity.
  Qed.

  Lemma GetEntity_refines id : u64 id -> go_st_GetBeacon s id = Ok (reg_GetEntity w id).
  Proof.
    intros Hid. rewrite GetBeacon_spec, (R_regs _ _ R) by exact Hid.
    unfold reg_GetEntity. destruct (aget id (r_regs (rw_reg w))); reflexivity.
  Qed.

  Lemma HasStorageLimit_refines id : u64 id -> go_st_HasBeaconStorageLimit s id = Ok (ahas id (r_limits (rw_reg w))).
  Proof.
    intros Hid. rewrite HasBeaconStorageLimit_spec, (R_limits _ _ R) by exact Hid.
    unfold ahas. destruct (aget id (r_limits (rw_reg w))); reflexivity.
  Qed.

  Lemma GetStorageLimit_refines id : u64 id -> go_st_GetBeaconStorageLimit s id = Ok (reg_GetStorageLimit w id).
  Proof.
    intros Hid. rewrite GetBeaconStorageLimit_spec, (R_limits _ _ R) by exact Hid.
    unfold reg_GetStorageLimit. destruct (aget id (r_limits (rw_reg w))); reflexivity.
  Qed.

  Lemma IsRecorded_refines id t : u64 id -> u64 t ->
    go_st_IsBeaconTimestampRecordedByID s id t = Ok (ahas (id, t) (r_recs (rw_reg w))).
  Proof.
    intros Hid Ht. rewrite IsBeaconTimestampRecordedByID_spec, (R_recs _ _ R) by assumption.
    unfold ahas. destruct (aget (id, t) (r_recs (rw_reg w))); reflexivity.
  Qed.

  Lemma GetRecord_refines id t : u64 id -> u64 t -> go_st_GetBeaconTimestampByID s id t = Ok (reg_GetRecord w id t).
  Proof.
    intros Hid Ht. rewrite GetBeaconTimestampByID_spec, (R_recs _ _ R) by assumption.
    rewrite reg_GetRecord_eq. destruct (aget (id, t) (r_recs (rw_reg w))); reflexivity.
  Qed.
End Readers.

(* ================================================================== *)
(* 4. WRITERS simulate                                                   *)
(* ================================================================== *)

(* ---- the relation is preserved by one set / delete at the key of the abstract update ---- *)
Lemma R_set_params s st p : Rreg s st ->
  Rreg (okv_set s beacon_ParamsKey (BV_Params p))
       {| r_params := params_of_go p; r_next := r_next st; r_regs := r_regs st; r_limits := r_limits st; r_recs := r_recs st |}.
Proof.
  intros [Hs Hp Hnr Hn Hrw Hr Hlw Hl Hcw Hc Hk]. constructor; cbn [r_params r_next r_regs r_limits r_recs].
  - apply set_sorted; exact Hs.
  - rewrite get_set_same, params_to_of_go. reflexivity.
  - exact Hnr.
  - rewrite get_set_other by kind_neq. exact Hn.
  - exact Hrw.
  - intros id Hid. rewrite get_set_other by kind_neq. apply Hr; exact Hid.
  - exact Hlw.
  - intros id Hid. rewrite get_set_other by kind_neq. apply Hl; exact Hid.
  - exact Hcw.
  - intros id t Hid Ht. rewrite get_set_other by kind_neq. apply Hc; assumption.
  - apply complete_set; [exact Hk | left; reflexivity].
Qed.

Lemma R_set_highest s st v : Rreg s st -> u64 v ->
  Rreg (okv_set s beacon_HighestBeaconIDKey (BV_bytes (be64 (Z.to_N v))))
       {| r_params := r_params st; r_next := v; r_regs := r_regs st; r_limits := r_limits st; r_recs := r_recs st |}.
Proof.
  intros [Hs Hp Hnr Hn Hrw Hr Hlw Hl Hcw Hc Hk] Hv. constructor; cbn [r_params r_next r_regs r_limits r_recs].
  - apply set_sorted; exact Hs.
  - rewrite get_set_other by kind_neq. exact Hp.
  - exact Hv.
  - rewrite get_set_same. reflexivity.
  - exact Hrw.
  - intros id Hid. rewrite get_set_other by kind_neq. apply Hr; exact Hid.
  - exact Hlw.
  - intros id Hid. rewrite get_set_other by kind_neq. apply Hl; exact Hid.
  - exact Hcw.
  - intros id t Hid Ht. rewrite get_set_other by kind_neq. apply Hc; assumption.
  - apply complete_set; [exact Hk | right; left; reflexivity].
Qed.

Lemma R_set_entity s st g : Rreg s st -> u64 (Beacon_BeaconId g) ->
  Rreg (okv_set s (kReg (Beacon_BeaconId g)) (BV_Beacon g))
       (with_regs st (aset (Beacon_BeaconId g) (of_go_entity g) (r_regs st)) (r_limits st) (r_recs st)).
Proof.
  intros [Hs Hp Hnr Hn [Hnd Hrw] Hr Hlw Hl Hcw Hc Hk] Hg.
  constructor; cbn [with_regs r_params r_next r_regs r_limits r_recs].
  - apply set_sorted; exact Hs.
  - rewrite get_set_other by kind_neq. exact Hp.
  - exact Hnr.
  - rewrite get_set_other by kind_neq. exact Hn.
  - split; [apply NoDup_akeys_aset; exact Hnd|]. intros id rg Hin. apply aset_In in Hin.
    destruct Hin as [[-> ->]|Hin]; [repeat split; try reflexivity; apply Hg | apply Hrw; exact Hin].
  - intros id Hid. destruct (Z.eq_dec id (Beacon_BeaconId g)) as [->|Hne].
    + rewrite get_set_same, aget_aset_eq. cbn [option_map]. unfold v_reg. rewrite to_go_of_go_entity. reflexivity.
    + rewrite get_set_other by (intros E; apply Hne; apply kReg_inj; assumption).
      rewrite aget_aset_neq by congruence. apply Hr; exact Hid.
  - exact Hlw.
  - intros id Hid. rewrite get_set_other by kind_neq. apply Hl; exact Hid.
  - exact Hcw.
  - intros id t Hid Ht. rewrite get_set_other by kind_neq. apply Hc; assumption.
  - apply complete_set; [exact Hk|]. right; right; left. exists (Beacon_BeaconId g). split; [exact Hg | reflexivity].
Qed.

Lemma R_set_limit s st id l : Rreg s st -> u64 id ->
  Rreg (okv_set s (kLim id) (v_lim id l)) (with_regs st (r_regs st) (aset id l (r_limits st)) (r_recs st)).
Proof.
  intros [Hs Hp Hnr Hn Hrw Hr [Hnd Hlw] Hl Hcw Hc Hk] Hi.
  constructor; cbn [with_regs r_params r_next r_regs r_limits r_recs].
  - apply set_sorted; exact Hs.
  - rewrite get_set_other by kind_neq. exact Hp.
  - exact Hnr.
  - rewrite get_set_other by kind_neq. exact Hn.
  - exact Hrw.
  - intros id' Hid. rewrite get_set_other by kind_neq. apply Hr; exact Hid.
  - split; [apply NoDup_akeys_aset; exact Hnd|]. intros id' l' Hin. apply aset_In in Hin.
    destruct Hin as [[-> ->]|Hin]; [exact Hi | eapply Hlw; exact Hin].
  - intros id' Hid. destruct (Z.eq_dec id' id) as [->|Hne].
    + rewrite get_set_same, aget_aset_eq. reflexivity.
    + rewrite get_set_other by (intros E; apply Hne; apply kLim_inj; assumption).
      rewrite aget_aset_neq by congruence. apply Hl; exact Hid.
  - exact Hcw.
  - intros id' t Hid Ht. rewrite get_set_other by kind_neq. apply Hc; assumption.
  - apply complete_set; [exact Hk|]. right; right; right; left. exists id. split; [exact Hi | reflexivity].
Qed.

Lemma R_set_record s st id b : Rreg s st -> u64 id -> u64 (BeaconTimestamp_TimestampId b) ->
  Rreg (okv_set s (kRec id (BeaconTimestamp_TimestampId b)) (BV_BeaconTimestamp b))
       (with_regs st (r_regs st) (r_limits st) (aset (id, BeaconTimestamp_TimestampId b) (rec_of_go b) (r_recs st))).
Proof.
  intros [Hs Hp Hnr Hn Hrw Hr Hlw Hl [Hnd Hcw] Hc Hk] Hi Hb.
  constructor; cbn [with_regs r_params r_next r_regs r_limits r_recs].
  - apply set_sorted; exact Hs.
  - rewrite get_set_other by kind_neq. exact Hp.
  - exact Hnr.
  - rewrite get_set_other by kind_neq. exact Hn.
  - exact Hrw.
  - intros id' Hid. rewrite get_set_other by kind_neq. apply Hr; exact Hid.
  - exact Hlw.
  - intros id' Hid. rewrite get_set_other by kind_neq. apply Hl; exact Hid.
  - split; [apply NoDup_akeys_aset; exact Hnd|]. intros id' t' rc Hin. apply aset_In in Hin.
    destruct Hin as [[E ->]|Hin]; [|eapply Hcw; exact Hin]. inversion E; subst.
    split; [exact Hi|]. split; [exact Hb|]. split; [reflexivity|]. eexists; reflexivity.
  - intros id' t' Hid Ht.
    destruct (Z.eq_dec id' id) as [->|Hne]; [destruct (Z.eq_dec t' (BeaconTimestamp_TimestampId b)) as [->|Hne]|].
    + rewrite get_set_same, aget_aset_eq. cbn [option_map]. unfold v_rec. rewrite rec_to_of_go. reflexivity.
    + rewrite get_set_other by (intros E; apply Hne; eapply kRec_inj_same; eassumption).
      rewrite aget_aset_neq by congruence. apply Hc; assumption.
    + rewrite get_set_other by (intros E; apply kRec_inj in E; try assumption; destruct E as [E _]; exact (Hne E)).
      rewrite aget_aset_neq by congruence. apply Hc; assumption.
  - apply complete_set; [exact Hk|]. right; right; right; right.
    exists id, (BeaconTimestamp_TimestampId b). split; [exact Hi|]. split; [exact Hb | reflexivity].
Qed.

Lemma R_del_record s st id t : Rreg s st -> u64 id -> u64 t ->
  Rreg (okv_del s (kRec id t)) (with_regs st (r_regs st) (r_limits st) (adel (id, t) (r_recs st))).
Proof.
  intros [Hs Hp Hnr Hn Hrw Hr Hlw Hl [Hnd Hcw] Hc Hk] Hi Ht0.
  constructor; cbn [with_regs r_params r_next r_regs r_limits r_recs].
  - apply del_sorted; exact Hs.
  - rewrite get_del_other by kind_neq. exact Hp.
  - exact Hnr.
  - rewrite get_del_other by kind_neq. exact Hn.
  - exact Hrw.
  - intros id' Hid. rewrite get_del_other by kind_neq. apply Hr; exact Hid.
  - exact Hlw.
  - intros id' Hid. rewrite get_del_other by kind_neq. apply Hl; exact Hid.
  - split; [apply NoDup_akeys_adel; exact Hnd|]. intros id' t' rc Hin. apply adel_In in Hin. eapply Hcw; exact Hin.
  - intros id' t' Hid Ht.
    destruct (Z.eq_dec id' id) as [->|Hne]; [destruct (Z.eq_dec t' t) as [->|Hne]|].
    + rewrite get_del_same by exact Hs. rewrite aget_adel_eq by exact Hnd. reflexivity.
    + rewrite get_del_other by (intros E; apply Hne; eapply kRec_inj_same; eassumption).
      rewrite aget_adel_neq by congruence. apply Hc; assumption.
    + rewrite get_del_other by (intros E; apply kRec_inj in E; try assumption; destruct E as [E _]; exact (Hne E)).
      rewrite aget_adel_neq by congruence. apply Hc; assumption.
  - apply complete_del; exact Hk.
Qed.

(* ---- outcome simulation: same class, same code, related states ---- *)
Definition sim_res (oa : outcome (rworld * unit)) (oc : outcome (store * unit)) : Prop :=
  match oa, oc with
  | Ok (w', _), Ok (s', _) => Rreg s' (rw_reg w')
  | Err a, Err c => a = c
  | Panic a, Panic c => a = c
  | _, _ => False
  end.

(* a denomination that Params.Validate does not hand to sdk.ValidateDenom's own error: well-formed, or blank *)
Definition denom_ok (p : go_Params) : Prop := 0 <= Params_Denom p \/ Params_Denom p = go_zero_denom.

(* SetParams: under the uint64 reading of the four `== 0`-tested fields the verdicts agree; on acceptance the states
   stay related; on refusal the primitive's code is 40 and the generated code's is bcn_params_err p (40, or 1 for a
   malformed non-blank denomination) *)
Theorem SetParams_refines s w p : Rreg s (rw_reg w) -> bcn_params_nonneg p ->
  match reg_SetParams w p, go_st_SetParams s p with
  | Ok (w', _), Ok (s', _) => reg_params_valid (params_of_go p) = true /\ Rreg s' (rw_reg w')
  | Err a, Err c => reg_params_valid (params_of_go p) = false /\ a = beacon_ErrInvalidParams /\ c = bcn_params_err p
  | _, _ => False
  end.
Proof.
  intros R Hp. rewrite SetParams_spec, (gen_bcn_Params_Validate_eq p Hp).
  unfold reg_SetParams, reg_store_params. destruct (reg_params_valid (params_of_go p)); cbn [obind].
  - split; [reflexivity|]. cbn [rw_reg with_reg]. apply R_set_params. exact R.
  - split; [reflexivity|]. split; reflexivity.
Qed.

Theorem SetParams_sim s w p : Rreg s (rw_reg w) -> bcn_params_nonneg p -> denom_ok p ->
  sim_res (reg_SetParams w p) (go_st_SetParams s p).
Proof.
  intros R Hp Hd. pose proof (SetParams_refines s w p R Hp) as H. unfold sim_res.
  destruct (reg_SetParams w p) as [[w' []]|a|a], (go_st_SetParams s p) as [[s' []]|c|c]; try contradiction.
  - apply H.
  - destruct H as [_ [-> ->]]. unfold bcn_params_err.
    destruct ((Params_Denom p <? 0) && negb (Params_Denom p =? go_zero_denom)) eqn:E; [|reflexivity].
    exfalso. unfold denom_ok in Hd. lia.
Qed.

Theorem SetHighestID_sim s w v : Rreg s (rw_reg w) -> u64 v ->
  sim_res (reg_SetHighestID w v) (go_st_SetHighestBeaconID s v).
Proof.
  intros R Hv. rewrite SetHighestBeaconID_spec. unfold reg_SetHighestID, sim_res. cbn [rw_reg with_reg].
  apply R_set_highest; assumption.
Qed.

Theorem SetEntity_sim s w g : Rreg s (rw_reg w) -> u64 (Beacon_BeaconId g) ->
  sim_res (reg_SetEntity w g) (go_st_SetBeacon s g).
Proof.
  intros R Hg. rewrite SetBeacon_spec. unfold reg_SetEntity, reg_put_entity, sim_res. cbn [rw_reg with_reg].
  apply R_set_entity; assumption.
Qed.

Theorem SetStorageLimit_sim s w id l : Rreg s (rw_reg w) -> u64 id ->
  sim_res (reg_SetStorageLimit w id l) (go_st_SetBeaconStorageLimit s id l).
Proof.
  intros R Hi. rewrite SetBeaconStorageLimit_spec. unfold reg_SetStorageLimit, sim_res. cbn [rw_reg with_reg].
  apply R_set_limit; assumption.
Qed.

Theorem SetRecord_sim s w id b : Rreg s (rw_reg w) -> u64 id -> u64 (BeaconTimestamp_TimestampId b) ->
  sim_res (reg_SetRecord w id b) (go_st_SetBeaconTimestamp s id b).
Proof.
  intros R Hi Hb. rewrite SetBeaconTimestamp_spec, reg_SetRecord_eq. unfold reg_put_record, sim_res. cbn [rw_reg with_reg].
  apply R_set_record; assumption.
Qed.

Theorem DeleteRecord_sim s w id t : Rreg s (rw_reg w) -> u64 id -> u64 t ->
  sim_res (reg_DeleteRecord w id t) (go_st_deleteBeaconTimestamp s id t).
Proof.
  intros R Hi Ht. rewrite deleteBeaconTimestamp_spec. unfold reg_DeleteRecord, sim_res. cbn [rw_reg with_reg].
  apply R_del_record; assumption.
Qed.

(* the writers other than SetParams always succeed on both sides *)
Theorem writers_ok s w :
  (forall v, exists s' w', go_st_SetHighestBeaconID s v = Ok (s', tt) /\ reg_SetHighestID w v = Ok (w', tt)) /\
  (forall g, exists s' w', go_st_SetBeacon s g = Ok (s', tt) /\ reg_SetEntity w g = Ok (w', tt)) /\
  (forall id l, exists s' w', go_st_SetBeaconStorageLimit s id l = Ok (s', tt) /\ reg_SetStorageLimit w id l = Ok (w', tt)) /\
  (forall id b, exists s' w', go_st_SetBeaconTimestamp s id b = Ok (s', tt) /\ reg_SetRecord w id b = Ok (w', tt)) /\
  (forall id t, exists s' w', go_st_deleteBeaconTimestamp s id t = Ok (s', tt) /\ reg_DeleteRecord w id t = Ok (w', tt)).
Proof.
  split; [|split; [|split; [|split]]]; intros; eexists; eexists.
  - split; [apply SetHighestBeaconID_spec | reflexivity].
  - split; [apply SetBeacon_spec | reflexivity].
  - split; [apply SetBeaconStorageLimit_spec | reflexivity].
  - split; [apply SetBeaconTimestamp_spec | reflexivity].
  - split; [apply deleteBeaconTimestamp_spec | reflexivity].
Qed.

(* the five always-succeeding writers, in the plain form: both sides return Ok and the new states are related *)
Theorem writers_refine s w : Rreg s (rw_reg w) ->
  (forall v, u64 v ->
     exists s' w', go_st_SetHighestBeaconID s v = Ok (s', tt) /\ reg_SetHighestID w v = Ok (w', tt) /\ Rreg s' (rw_reg w')) /\
  (forall g, u64 (Beacon_BeaconId g) ->
     exists s' w', go_st_SetBeacon s g = Ok (s', tt) /\ reg_SetEntity w g = Ok (w', tt) /\ Rreg s' (rw_reg w')) /\
  (forall id l, u64 id ->
     exists s' w', go_st_SetBeaconStorageLimit s id l = Ok (s', tt) /\ reg_SetStorageLimit w id l = Ok (w', tt) /\ Rreg s' (rw_reg w')) /\
  (forall id b, u64 id -> u64 (BeaconTimestamp_TimestampId b) ->
     exists s' w', go_st_SetBeaconTimestamp s id b = Ok (s', tt) /\ reg_SetRecord w id b = Ok (w', tt) /\ Rreg s' (rw_reg w')) /\
  (forall id t, u64 id -> u64 t ->
     exists s' w', go_st_deleteBeaconTimestamp s id t = Ok (s', tt) /\ reg_DeleteRecord w id t = Ok (w', tt) /\ Rreg s' (rw_reg w')).
Proof.
  intros R. destruct (writers_ok s w) as [O1 [O2 [O3 [O4 O5]]]]. split; [|split; [|split; [|split]]].
  - intros v Hv. destruct (O1 v) as [s' [w' [E1 E2]]]. exists s', w'. split; [exact E1|]. split; [exact E2|].
    pose proof (SetHighestID_sim s w v R Hv) as H. rewrite E1, E2 in H. exact H.
  - intros g Hg. destruct (O2 g) as [s' [w' [E1 E2]]]. exists s', w'. split; [exact E1|]. split; [exact E2|].
    pose proof (SetEntity_sim s w g R Hg) as H. rewrite E1, E2 in H. exact H.
  - intros id l Hi. destruct (O3 id l) as [s' [w' [E1 E2]]]. exists s', w'. split; [exact E1|]. split; [exact E2|].
    pose proof (SetStorageLimit_sim s w id l R Hi) as H. rewrite E1, E2 in H. exact H.
  - intros id b Hi Hb. destruct (O4 id b) as [s' [w' [E1 E2]]]. exists s', w'. split; [exact E1|]. split; [exact E2|].
    pose proof (SetRecord_sim s w id b R Hi Hb) as H. rewrite E1, E2 in H. exact H.
  - intros id t Hi Ht. destruct (O5 id t) as [s' [w' [E1 E2]]]. exists s', w'. split; [exact E1|]. split; [exact E2|].
    pose proof (DeleteRecord_sim s w id t R Hi Ht) as H. rewrite E1, E2 in H. exact H.
Qed.

(* ================================================================== *)
(* 5. LISTINGS                                                           *)
(* ================================================================== *)

Lemma sorted_same_members (a b : store) : okv_sorted a = true -> okv_sorted b = true ->
  (forall k v, In (k, v) a <-> In (k, v) b) -> a = b.
Proof.
  intros Ha Hb H. apply okv_ext; [exact Ha | exact Hb|]. intros k. destruct (okv_get a k) as [v|] eqn:Ea.
  - apply get_in in Ea. apply H in Ea. symmetry. apply in_get; assumption.
  - destruct (okv_get b k) as [v|] eqn:Eb; [|reflexivity]. apply get_in in Eb. apply H in Eb.
    apply (in_get _ _ _ Ha) in Eb. congruence.
Qed.

(* a Z-keyed list rendered as store entries, by a key builder that is monotone on the uint64 range *)
Section EncList.
  Context {V : Type} (K : Z -> list N) (E : V -> beacon_val).
  Hypothesis K_order : forall a b, u64 a -> u64 b -> (lex_lt (K a) (K b) = true <-> a < b).

  Definition enc_list (l : list (Z * V)) : store := map (fun kv => (K (fst kv), E (snd kv))) l.

  Lemma enc_list_sorted l : (forall kv, In kv l -> u64 (fst kv)) -> StronglySorted zlt l -> okv_sorted (enc_list l) = true.
  Proof.
    induction l as [|[a v] l IH]; intros HR HS; [reflexivity|].
    inversion HS as [|? ? HS' HF]; subst. cbn [enc_list map fst snd]. apply sorted_cons. split.
    - apply IH; [intros kv Hin; apply HR; right; exact Hin | exact HS'].
    - intros k' v' Hin. apply in_map_iff in Hin. destruct Hin as [[b vb] [Eq Hin]]. cbn [fst snd] in Eq. inversion Eq; subst.
      apply K_order; [apply (HR (a, v)); left; reflexivity | apply (HR (b, vb)); right; exact Hin|].
      rewrite Forall_forall in HF. apply (HF (b, vb) Hin).
  Qed.
End EncList.

Lemma beacons_decode (l : list (Z * registration)) :
  Forall2 (fun a e => dec_Beacon (fst e) (snd e) = Ok a) (map (fun kv => to_go_entity (snd kv)) l) (enc_list kReg v_reg l).
Proof. induction l as [|[a v] l IH]; cbn; constructor; [reflexivity | exact IH]. Qed.

Lemma timestamps_decode id (l : list (Z * record)) :
  Forall2 (fun a e => dec_Timestamp (fst e) (snd e) = Ok a) (map (fun kv => rec_to_go (snd kv)) l) (enc_list (kRec id) v_rec l).
Proof. induction l as [|[a v] l IH]; cbn; constructor; [reflexivity | exact IH]. Qed.

(* ---- the entries under the beacon prefix are exactly the registrations, in ascending id ---- *)
Lemma regs_prefix s st : Rreg s st ->
  okv_prefix s beacon_RegisteredBeaconPrefix = enc_list kReg v_reg (zsort (r_regs st)).
Proof.
  intros R. destruct (R_regs_wf _ _ R) as [ND W]. apply sorted_same_members.
  - apply prefix_sorted, (R_sorted _ _ R).
  - apply (enc_list_sorted kReg v_reg kReg_order).
    + intros [id rg] Hin. apply (proj1 (zsort_In _ _)) in Hin. apply (W id rg Hin).
    + apply zsort_sorted. exact ND.
  - intros k v. rewrite prefix_in. split.
    + intros [Hin P].
      destruct (R_complete _ _ R _ _ Hin) as [->|[->|[[id [Hid ->]]|[[id [Hid ->]]|[id [t [Hid [Ht ->]]]]]]]]; try discriminate P.
      apply (in_get _ _ _ (R_sorted _ _ R)) in Hin. rewrite (R_regs _ _ R) in Hin by exact Hid.
      destruct (aget id (r_regs st)) as [rg|] eqn:G; [|discriminate Hin]. cbn [option_map] in Hin. injection Hin as <-.
      apply in_map_iff. exists (id, rg). split; [reflexivity|]. apply (proj2 (zsort_In _ _)). apply aget_In. exact G.
    + intros Hin. apply in_map_iff in Hin. destruct Hin as [[id rg] [Eq Hin]]. cbn [fst snd] in Eq. injection Eq as <- <-.
      apply (proj1 (zsort_In _ _)) in Hin. destruct (W id rg Hin) as [Hid _]. split; [|apply kReg_under].
      apply get_in. rewrite (R_regs _ _ R) by exact Hid. rewrite (aget_of_In _ _ _ ND Hin). reflexivity.
Qed.

Lemma strongly_map_fwd {A B} (f : A -> B) (P : A -> A -> Prop) (Q : B -> B -> Prop) l :
  StronglySorted P l -> (forall a b, In a l -> In b l -> P a b -> Q (f a) (f b)) -> StronglySorted Q (map f l).
Proof.
  induction 1 as [|a l HS IH HF]; intros HQ; cbn; [constructor|]. constructor.
  - apply IH. intros x y Hx Hy. apply HQ; right; assumption.
  - apply Forall_forall. intros b Hb. apply in_map_iff in Hb. destruct Hb as [x [<- Hx]].
    rewrite Forall_forall in HF. apply HQ; [left; reflexivity | right; exact Hx | apply HF; exact Hx].
Qed.

(* GetAllBeacons / IterateBeacons: the registrations sorted by id *)
Theorem GetAllEntities_refines s w : Rreg s (rw_reg w) ->
  let l := map (fun kv => to_go_entity (snd kv)) (zsort (r_regs (rw_reg w))) in
  go_st_GetAllBeacons s = Ok l /\
  (forall (St : Type) (cb : St -> go_Beacon -> outcome (St * bool)) st, go_st_IterateBeacons s cb st = visit cb l st) /\
  Permutation l (reg_GetAllEntities w) /\
  StronglySorted (fun a b => Beacon_BeaconId a < Beacon_BeaconId b) l.
Proof.
  intros R l. pose proof (regs_prefix s _ R) as P. pose proof (beacons_decode (zsort (r_regs (rw_reg w)))) as D.
  split; [|split; [|split]].
  - rewrite GetAllBeacons_spec, P, (iterate_visit _ _ _ _ _ D), visit_append. reflexivity.
  - intros St cb st. rewrite IterateBeacons_spec, P. apply iterate_visit. exact D.
  - unfold l, reg_GetAllEntities. apply Permutation_map, zsort_perm.
  - destruct (R_regs_wf _ _ R) as [ND W]. unfold l.
    apply (strongly_map_fwd _ zlt); [apply zsort_sorted; exact ND|].
    intros [a ra] [b rb] Ha Hb L. apply (proj1 (zsort_In _ _)) in Ha. apply (proj1 (zsort_In _ _)) in Hb.
    destruct (W a ra Ha) as [_ [Ea _]]. destruct (W b rb Hb) as [_ [Eb _]]. unfold zlt in L. cbn [fst snd to_go_entity Beacon_BeaconId] in *. lia.
Qed.

(* the primitive's own order (the association list as it stands) is the store's when the ids ascend *)
Theorem GetAllEntities_refines_sorted s w : Rreg s (rw_reg w) -> StronglySorted Z.lt (akeys (r_regs (rw_reg w))) ->
  go_st_GetAllBeacons s = Ok (reg_GetAllEntities w) /\
  (forall (St : Type) (cb : St -> go_Beacon -> outcome (St * bool)) st,
     go_st_IterateBeacons s cb st = visit cb (reg_GetAllEntities w) st).
Proof.
  intros R HS. destruct (GetAllEntities_refines s w R) as [H1 [H2 _]].
  rewrite (zsort_id _ (keys_sorted_zlt _ HS)) in H1, H2. split; [exact H1 | exact H2].
Qed.

Theorem GetAllEntities_refines_perm s w : Rreg s (rw_reg w) ->
  exists l, go_st_GetAllBeacons s = Ok l /\ Permutation l (reg_GetAllEntities w).
Proof. intros R. destruct (GetAllEntities_refines s w R) as [H1 [_ [H3 _]]]. eexists. split; [exact H1 | exact H3]. Qed.

(* ---- the entries under one beacon's timestamp prefix are exactly its records, in ascending timestamp id ---- *)
Lemma recs_prefix s st id : Rreg s st -> u64 id ->
  okv_prefix s (pRecs id) = enc_list (kRec id) v_rec (zsort (records_of id (r_recs st))).
Proof.
  intros R Hi. destruct (R_recs_wf _ _ R) as [ND W]. apply sorted_same_members.
  - apply prefix_sorted, (R_sorted _ _ R).
  - apply (enc_list_sorted (kRec id) v_rec (kRec_order id)).
    + intros [t rc] Hin. apply (proj1 (zsort_In _ _)) in Hin. apply records_of_In in Hin. apply (W id t rc Hin).
    + apply zsort_sorted. apply records_of_nodup. exact ND.
  - intros k v. rewrite prefix_in. split.
    + intros [Hin P].
      destruct (R_complete _ _ R _ _ Hin) as [->|[->|[[id' [Hid ->]]|[[id' [Hid ->]]|[id' [t [Hid [Ht ->]]]]]]]]; try discriminate P.
      assert (id' = id) as ->.
      { pose proof (kRec_under_inv id id' t P) as E. apply kRec_inj in E; try assumption. apply E. }
      apply (in_get _ _ _ (R_sorted _ _ R)) in Hin. rewrite (R_recs _ _ R) in Hin by assumption.
      destruct (aget (id, t) (r_recs st)) as [rc|] eqn:G; [|discriminate Hin]. cbn [option_map] in Hin. injection Hin as <-.
      apply in_map_iff. exists (t, rc). split; [reflexivity|]. apply (proj2 (zsort_In _ _)). apply records_of_In. apply aget_In. exact G.
    + intros Hin. apply in_map_iff in Hin. destruct Hin as [[t rc] [Eq Hin]]. cbn [fst snd] in Eq. injection Eq as <- <-.
      apply (proj1 (zsort_In _ _)) in Hin. apply records_of_In in Hin. destruct (W id t rc Hin) as [_ [Ht _]].
      split; [|apply kRec_under]. apply get_in. rewrite (R_recs _ _ R) by assumption. rewrite (aget_of_In _ _ _ ND Hin). reflexivity.
Qed.

(* GetAllBeaconTimestamps / IterateBeaconTimestamps / ..Reverse of one beacon: its records in ascending key order
   (model/Genesis.v's sort_by_key o records_of, what reg_GetRecordsForExport takes the newest of) *)
Theorem GetAllRecords_refines s w id : Rreg s (rw_reg w) -> u64 id ->
  let l := map (fun kr => rec_to_go (snd kr)) (sort_by_key (records_of id (r_recs (rw_reg w)))) in
  go_st_GetAllBeaconTimestamps s id = Ok l /\
  (forall (St : Type) (cb : St -> go_BeaconTimestamp -> outcome (St * bool)) st,
     go_st_IterateBeaconTimestamps s id cb st = visit cb l st) /\
  (forall (St : Type) (cb : St -> go_BeaconTimestamp -> outcome (St * bool)) st,
     go_st_IterateBeaconTimestampsReverse s id cb st = visit cb (rev l) st) /\
  StronglySorted (fun a b => BeaconTimestamp_TimestampId a < BeaconTimestamp_TimestampId b) l /\
  (forall b, In b l <-> exists rc, aget (id, BeaconTimestamp_TimestampId b) (r_recs (rw_reg w)) = Some rc /\ b = rec_to_go rc).
Proof.
  intros R Hi l. unfold l. rewrite sort_by_key_zsort. clear l.
  pose proof (recs_prefix s _ id R Hi) as P. pose proof (timestamps_decode id (zsort (records_of id (r_recs (rw_reg w))))) as D.
  destruct (R_recs_wf _ _ R) as [ND W].
  split; [|split; [|split; [|split]]].
  - rewrite GetAllBeaconTimestamps_spec, P, (iterate_visit _ _ _ _ _ D), visit_append. reflexivity.
  - intros St cb st. rewrite IterateBeaconTimestamps_spec, P. apply iterate_visit. exact D.
  - intros St cb st. rewrite IterateBeaconTimestampsReverse_spec, P. apply iterate_visit. apply Forall2_rev. exact D.
  - apply (strongly_map_fwd _ zlt); [apply zsort_sorted, records_of_nodup; exact ND|].
    intros [a ra] [b rb] Ha Hb L. apply (proj1 (zsort_In _ _)) in Ha. apply (proj1 (zsort_In _ _)) in Hb.
    apply records_of_In in Ha. apply records_of_In in Hb.
    destruct (W id a ra Ha) as [_ [_ [Ea _]]]. destruct (W id b rb Hb) as [_ [_ [Eb _]]].
    unfold zlt in L. cbn [fst snd rec_to_go BeaconTimestamp_TimestampId] in *. lia.
  - intros b. rewrite in_map_iff. split.
    + intros [[t rc] [<- Hin]]. apply (proj1 (zsort_In _ _)) in Hin. apply records_of_In in Hin.
      destruct (W id t rc Hin) as [_ [_ [Ek _]]]. exists rc. cbn [snd rec_to_go BeaconTimestamp_TimestampId]. rewrite Ek.
      split; [apply aget_of_In; assumption | reflexivity].
    + intros [rc [G ->]]. apply aget_In in G. destruct (W _ _ _ G) as [_ [_ [Ek _]]].
      exists (BeaconTimestamp_TimestampId (rec_to_go rc), rc). split; [reflexivity|].
      apply (proj2 (zsort_In _ _)). apply records_of_In. exact G.
Qed.

(* what the exporting primitive keeps of that listing *)
Lemma skipn_In_incl {A} n (l : list A) x : In x (skipn n l) -> In x l.
Proof. intros H. rewrite <- (firstn_skipn n l). apply in_or_app. right. exact H. Qed.
Lemma newest_map {A B} (f : A -> B) cap l : newest cap (map f l) = map f (newest cap l).
Proof. unfold newest. rewrite map_length, skipn_map. reflexivity. Qed.

Theorem GetRecordsForExport_refines s w id l : Rreg s (rw_reg w) -> u64 id -> go_st_GetAllBeaconTimestamps s id = Ok l ->
  map (fun b => mk_go_BeaconTimestampGenesisExport (BeaconTimestamp_TimestampId b) (BeaconTimestamp_SubmitTime b) (BeaconTimestamp_Hash b))
      (newest EXPORT_CAP l) = reg_GetRecordsForExport w id.
Proof.
  intros R Hi Hl. destruct (GetAllRecords_refines s w id R Hi) as [H _]. rewrite Hl in H. injection H as ->.
  destruct (R_recs_wf _ _ R) as [ND W]. unfold reg_GetRecordsForExport.
  rewrite newest_map, map_map. apply map_ext_in. intros [t rc] Hin. cbn [fst snd rec_to_go BeaconTimestamp_TimestampId BeaconTimestamp_SubmitTime BeaconTimestamp_Hash].
  assert (Hin' : In (t, rc) (sort_by_key (records_of id (r_recs (rw_reg w))))).
  { unfold newest in Hin. eapply skipn_In_incl; exact Hin. }
  rewrite sort_by_key_zsort in Hin'. apply (proj1 (zsort_In _ _)) in Hin'. apply records_of_In in Hin'.
  destruct (W id t rc Hin') as [_ [_ [Ek _]]]. rewrite Ek. reflexivity.
Qed.

(* ================================================================== *)
(* 6. the INITIAL store                                                  *)
(* ================================================================== *)

Definition init_state (p : go_Params) (v : Z) : reg_state :=
  {| r_params := params_of_go p; r_next := v; r_regs := []; r_limits := []; r_recs := [] |}.

(* the store built from [] by SetParams + SetHighestBeaconID represents the state with those parameters / counter
   and empty maps *)
Theorem init_refines p v s1 s2 : go_st_SetParams [] p = Ok (s1, tt) -> go_st_SetHighestBeaconID s1 v = Ok (s2, tt) -> u64 v ->
  Rreg s2 (init_state p v).
Proof.
  intros H1 H2 Hv. apply SetParams_inv in H1 as [_ ->]. rewrite SetHighestBeaconID_spec in H2.
  assert (E : s2 = [(beacon_ParamsKey, BV_Params p); (beacon_HighestBeaconIDKey, BV_bytes (be64 (Z.to_N v)))])
    by (injection H2 as <-; reflexivity).
  subst s2. clear H2. constructor; cbn [init_state r_params r_next r_regs r_limits r_recs].
  - reflexivity.
  - rewrite params_to_of_go. reflexivity.
  - exact Hv.
  - reflexivity.
  - split; [constructor | intros ? ? []].
  - intros id _. reflexivity.
  - split; [constructor | intros ? ? []].
  - intros id _. reflexivity.
  - split; [constructor | intros ? ? ? []].
  - intros id t _ _. reflexivity.
  - intros k v0 [E|[E|[]]]; inversion E; subst; [left | right; left]; reflexivity.
Qed.

(* ... and the two primitives run on a world with empty maps produce exactly that state, with the same verdict *)
Theorem init_sim p v w : bcn_params_nonneg p -> u64 v ->
  r_regs (rw_reg w) = [] -> r_limits (rw_reg w) = [] -> r_recs (rw_reg w) = [] ->
  match (do x <- reg_SetParams w p; reg_SetHighestID (fst x) v), (do x <- go_st_SetParams [] p; go_st_SetHighestBeaconID (fst x) v) with
  | Ok (w2, _), Ok (s2, _) => rw_reg w2 = init_state p v /\ Rreg s2 (rw_reg w2)
  | Err a, Err c => a = beacon_ErrInvalidParams /\ c = bcn_params_err p
  | _, _ => False
  end.
Proof.
  intros Hp Hv E1 E2 E3.
  destruct (go_st_SetParams [] p) as [[s1 []]|c|c] eqn:G.
  - pose proof G as G'. apply SetParams_inv in G' as [V _]. apply (gen_bcn_Params_Validate_ok_iff p Hp) in V.
    unfold reg_SetParams, reg_store_params. rewrite V. cbn [obind fst]. rewrite SetHighestBeaconID_spec.
    unfold reg_SetHighestID. cbn [rw_reg with_reg r_params r_next r_regs r_limits r_recs]. rewrite E1, E2, E3.
    split; [reflexivity|]. eapply init_refines; [exact G | apply SetHighestBeaconID_spec | exact Hv].
  - rewrite SetParams_spec, (gen_bcn_Params_Validate_eq p Hp) in G.
    unfold reg_SetParams, reg_store_params. destruct (reg_params_valid (params_of_go p)); cbn [obind] in *; [discriminate G|].
    injection G as <-. split; reflexivity.
  - rewrite SetParams_spec, (gen_bcn_Params_Validate_eq p Hp) in G.
    destruct (reg_params_valid (params_of_go p)); cbn [obind] in G; discriminate G.
Qed.

(* ================================================================== *)
(* 7. COMPOSITION over histories of writes                               *)
(* ================================================================== *)

Inductive sop :=
| OSetParams (p : go_Params)
| OSetHighest (v : Z)
| OSetEntity (g : go_Beacon)
| OSetLimit (id l : Z)
| OSetRecord (id : Z) (b : go_BeaconTimestamp)
| ODelRecord (id t : Z).

(* abstract step: the primitives; concrete step: the generated accessors *)
Definition astep (w : rworld) (o : sop) : outcome (rworld * unit) :=
  match o with
  | OSetParams p => reg_SetParams w p
  | OSetHighest v => reg_SetHighestID w v
  | OSetEntity g => reg_SetEntity w g
  | OSetLimit id l => reg_SetStorageLimit w id l
  | OSetRecord id b => reg_SetRecord w id b
  | ODelRecord id t => reg_DeleteRecord w id t
  end.
Definition cstep (s : store) (o : sop) : outcome (store * unit) :=
  match o with
  | OSetParams p => go_st_SetParams s p
  | OSetHighest v => go_st_SetHighestBeaconID s v
  | OSetEntity g => go_st_SetBeacon s g
  | OSetLimit id l => go_st_SetBeaconStorageLimit s id l
  | OSetRecord id b => go_st_SetBeaconTimestamp s id b
  | ODelRecord id t => go_st_deleteBeaconTimestamp s id t
  end.

(* the arguments are what Go's uint64 fields can hold (and the denomination is not malformed-but-non-blank) *)
Definition op_ok (o : sop) : Prop :=
  match o with
  | OSetParams p => bcn_params_nonneg p /\ denom_ok p
  | OSetHighest v => u64 v
  | OSetEntity g => u64 (Beacon_BeaconId g)
  | OSetLimit id _ => u64 id
  | OSetRecord id b => u64 id /\ u64 (BeaconTimestamp_TimestampId b)
  | ODelRecord id t => u64 id /\ u64 t
  end.

Fixpoint arun (w : rworld) (ops : list sop) : outcome rworld :=
  match ops with [] => Ok w | o :: r => do x <- astep w o; arun (fst x) r end.
Fixpoint crun (s : store) (ops : list sop) : outcome store :=
  match ops with [] => Ok s | o :: r => do x <- cstep s o; crun (fst x) r end.

Definition sim_end (oa : outcome rworld) (oc : outcome store) : Prop :=
  match oa, oc with
  | Ok w', Ok s' => Rreg s' (rw_reg w')
  | Err a, Err c => a = c
  | Panic a, Panic c => a = c
  | _, _ => False
  end.

Theorem step_sim s w o : Rreg s (rw_reg w) -> op_ok o -> sim_res (astep w o) (cstep s o).
Proof.
  intros R Hk. destruct o; cbn [astep cstep op_ok] in *.
  - destruct Hk. apply SetParams_sim; assumption.
  - apply SetHighestID_sim; assumption.
  - apply SetEntity_sim; assumption.
  - apply SetStorageLimit_sim; assumption.
  - destruct Hk. apply SetRecord_sim; assumption.
  - destruct Hk. apply DeleteRecord_sim; assumption.
Qed.

Theorem run_sim ops : forall s w, Rreg s (rw_reg w) -> Forall op_ok ops -> sim_end (arun w ops) (crun s ops).
Proof.
  induction ops as [|o ops IH]; intros s w R HF; cbn [arun crun]; [exact R|].
  inversion HF as [|? ? Ho HF']; subst. pose proof (step_sim s w o R Ho) as H. unfold sim_res in H.
  destruct (astep w o) as [[w1 []]|a|a], (cstep s o) as [[s1 []]|c|c]; cbn [obind fst]; try contradiction.
  - apply IH; assumption.
  - exact H.
  - exact H.
Qed.

(* no step of such a history panics, on either side *)
Theorem run_no_panic ops s w : Rreg s (rw_reg w) -> Forall op_ok ops ->
  (forall c, arun w ops <> Panic c) /\ (forall c, crun s ops <> Panic c).
Proof.
  revert s w. induction ops as [|o ops IH]; intros s w R HF; cbn [arun crun]; [split; intros c E; discriminate E|].
  inversion HF as [|? ? Ho HF']; subst. pose proof (step_sim s w o R Ho) as H. unfold sim_res in H.
  assert (Ha : forall c, astep w o <> Panic c).
  { destruct o; cbn [astep]; intros c E; try discriminate E.
    unfold reg_SetParams, reg_store_params in E. destruct (reg_params_valid (params_of_go p)); discriminate E. }
  destruct (astep w o) as [[w1 []]|a|a], (cstep s o) as [[s1 []]|c|c]; cbn [obind fst]; try contradiction.
  - apply (IH s1 w1); assumption.
  - split; intros c' E; discriminate E.
  - exfalso. apply (Ha a). reflexivity.
Qed.

(* ---- everything a reader can see, packaged: related states are observationally equal ---- *)
Definition readers_agree (s : store) (w : rworld) : Prop :=
  go_st_GetParams s = Ok (reg_GetParams w) /\
  go_st_GetParamDenom s = Ok (reg_GetParamDenom w) /\
  go_st_GetParamDefaultStorageLimit s = Ok (reg_GetParamDefaultStorageLimit w) /\
  go_st_GetParamMaxStorageLimit s = Ok (reg_GetParamMaxStorageLimit w) /\
  go_st_GetParamRegistrationFee s = Ok (rp_fee_register (r_params (rw_reg w))) /\
  go_st_GetParamRecordFee s = Ok (rp_fee_record (r_params (rw_reg w))) /\
  go_st_GetParamPurchaseStorageFee s = Ok (rp_fee_purchase (r_params (rw_reg w))) /\
  go_st_GetHighestBeaconID s = reg_GetHighestID w /\
  (forall id, u64 id -> go_st_IsBeaconRegistered s id = Ok (reg_IsRegistered w id)) /\
  (forall id, u64 id -> go_st_GetBeacon s id = Ok (reg_GetEntity w id)) /\
  (forall id, u64 id -> go_st_HasBeaconStorageLimit s id = Ok (ahas id (r_limits (rw_reg w)))) /\
  (forall id, u64 id -> go_st_GetBeaconStorageLimit s id = Ok (reg_GetStorageLimit w id)) /\
  (forall id t, u64 id -> u64 t -> go_st_IsBeaconTimestampRecordedByID s id t = Ok (ahas (id, t) (r_recs (rw_reg w)))) /\
  (forall id t, u64 id -> u64 t -> go_st_GetBeaconTimestampByID s id t = Ok (reg_GetRecord w id t)) /\
  go_st_GetAllBeacons s = Ok (map (fun kv => to_go_entity (snd kv)) (zsort (r_regs (rw_reg w)))) /\
  (forall id, u64 id -> go_st_GetAllBeaconTimestamps s id =
                        Ok (map (fun kr => rec_to_go (snd kr)) (sort_by_key (records_of id (r_recs (rw_reg w)))))).

Theorem readers_refine s w : Rreg s (rw_reg w) -> readers_agree s w.
Proof.
  intros R. unfold readers_agree.
  split; [apply GetParams_refines; exact R|]. split; [apply GetParamDenom_refines; exact R|].
  split; [apply GetParamDefaultStorageLimit_refines; exact R|]. split; [apply GetParamMaxStorageLimit_refines; exact R|].
  split; [apply GetParamRegistrationFee_refines; exact R|]. split; [apply GetParamRecordFee_refines; exact R|].
  split; [apply GetParamPurchaseStorageFee_refines; exact R|]. split; [apply GetHighestID_refines; exact R|].
  split; [intros; apply IsRegistered_refines; assumption|]. split; [intros; apply GetEntity_refines; assumption|].
  split; [intros; apply HasStorageLimit_refines; assumption|]. split; [intros; apply GetStorageLimit_refines; assumption|].
  split; [intros; apply IsRecorded_refines; assumption|]. split; [intros; apply GetRecord_refines; assumption|].
  split; [apply (GetAllEntities_refines s w R)|]. intros id Hid. apply (GetAllRecords_refines s w id R Hid).
Qed.

Corollary run_readers ops s w s' w' : Rreg s (rw_reg w) -> Forall op_ok ops ->
  crun s ops = Ok s' -> arun w ops = Ok w' -> readers_agree s' w'.
Proof.
  intros R HF Hc Ha. pose proof (run_sim ops s w R HF) as H. rewrite Hc, Ha in H. apply readers_refine. exact H.
Qed.

(* the two runs end in the same class: an accepted history on one side is accepted on the other *)
Corollary run_same_verdict ops s w : Rreg s (rw_reg w) -> Forall op_ok ops ->
  (forall w', arun w ops = Ok w' -> exists s', crun s ops = Ok s' /\ Rreg s' (rw_reg w')) /\
  (forall s', crun s ops = Ok s' -> exists w', arun w ops = Ok w' /\ Rreg s' (rw_reg w')) /\
  (forall c, arun w ops = Err c <-> crun s ops = Err c).
Proof.
  intros R HF. pose proof (run_sim ops s w R HF) as H. unfold sim_end in H.
  destruct (arun w ops) as [w1|a|a], (crun s ops) as [s1|c|c]; try contradiction.
  - split; [|split].
    + intros w' E. injection E as <-. exists s1. split; [reflexivity | exact H].
    + intros s' E. injection E as <-. exists w1. split; [reflexivity | exact H].
    + intros c. split; intros E; discriminate E.
  - subst c. split; [|split].
    + intros w' E. discriminate E.
    + intros s' E. discriminate E.
    + intros c. split; intros E; injection E as <-; reflexivity.
  - subst c. split; [|split].
    + intros w' E. discriminate E.
    + intros s' E. discriminate E.
    + intros c. split; intros E; discriminate E.
Qed.

(* ================================================================== *)
(* 8. the store determines the abstract state                            *)
(* ================================================================== *)

Lemma to_go_entity_inj rg1 rg2 :
  rg_genesis rg1 = EmptyString -> rg_type rg1 = EmptyString -> rg_genesis rg2 = EmptyString -> rg_type rg2 = EmptyString ->
  to_go_entity rg1 = to_go_entity rg2 -> rg1 = rg2.
Proof. intros A1 B1 A2 B2 E. rewrite <- (of_go_to_go_entity rg1 A1 B1), <- (of_go_to_go_entity rg2 A2 B2), E. reflexivity. Qed.

Lemma rec_to_go_inj rc1 rc2 : (exists h, rc_hashes rc1 = [h]) -> (exists h, rc_hashes rc2 = [h]) ->
  rec_to_go rc1 = rec_to_go rc2 -> rc1 = rc2.
Proof. intros A1 A2 E. rewrite <- (rec_of_to_go rc1 A1), <- (rec_of_to_go rc2 A2), E. reflexivity. Qed.

(* two abstract states represented by one store have the same parameters and counter and the same maps (as maps:
   the association lists may differ in order only) *)
Theorem Rreg_functional s st1 st2 : Rreg s st1 -> Rreg s st2 ->
  r_params st1 = r_params st2 /\ r_next st1 = r_next st2 /\
  (forall id, aget id (r_regs st1) = aget id (r_regs st2)) /\
  (forall id, aget id (r_limits st1) = aget id (r_limits st2)) /\
  (forall k, aget k (r_recs st1) = aget k (r_recs st2)).
Proof.
  intros R1 R2. split; [|split; [|split; [|split]]].
  - pose proof (R_params _ _ R1) as E0. rewrite (R_params _ _ R2) in E0.
    assert (E : params_to_go (r_params st2) = params_to_go (r_params st1)) by congruence. clear E0.
    rewrite <- (params_of_to_go (r_params st1)), <- (params_of_to_go (r_params st2)), E. reflexivity.
  - pose proof (R_next _ _ R1) as E0. rewrite (R_next _ _ R2) in E0.
    assert (E : be64 (Z.to_N (r_next st2)) = be64 (Z.to_N (r_next st1))) by congruence. clear E0.
    pose proof (R_next_range _ _ R1) as H1. pose proof (R_next_range _ _ R2) as H2. unfold u64 in *.
    apply be64_inj in E; [apply Z2N.inj in E; lia | apply wf_id_lt, wf_id_Z; assumption ..].
  - intros id. destruct (R_regs_wf _ _ R1) as [_ W1]. destruct (R_regs_wf _ _ R2) as [_ W2].
    assert (Hu : forall st, (forall i rg, In (i, rg) (r_regs st) -> u64 i /\ rg_id rg = i /\ rg_genesis rg = EmptyString /\ rg_type rg = EmptyString) ->
                 ~ u64 id -> aget id (r_regs st) = None).
    { intros st W N. destruct (aget id (r_regs st)) as [rg|] eqn:G; [|reflexivity]. apply aget_In in G. apply W in G. tauto. }
    assert (D : u64 id \/ ~ u64 id) by (unfold u64; lia). destruct D as [Hid|N]; [|rewrite (Hu st1 W1 N), (Hu st2 W2 N); reflexivity].
    pose proof (R_regs _ _ R1 id Hid) as E. rewrite (R_regs _ _ R2 id Hid) in E.
    destruct (aget id (r_regs st1)) as [a|] eqn:G1, (aget id (r_regs st2)) as [b|] eqn:G2; cbn [option_map] in E; try discriminate E; [|reflexivity].
    assert (E' : to_go_entity b = to_go_entity a) by (unfold v_reg in E; congruence).
    apply aget_In in G1. apply aget_In in G2. apply W1 in G1. apply W2 in G2.
    f_equal. symmetry. apply to_go_entity_inj; tauto.
  - intros id. destruct (R_limits_wf _ _ R1) as [_ W1]. destruct (R_limits_wf _ _ R2) as [_ W2].
    assert (Hu : forall st, (forall i l, In (i, l) (r_limits st) -> u64 i) -> ~ u64 id -> aget id (r_limits st) = None).
    { intros st W N. destruct (aget id (r_limits st)) as [l|] eqn:G; [|reflexivity]. apply aget_In in G. apply W in G. tauto. }
    assert (D : u64 id \/ ~ u64 id) by (unfold u64; lia). destruct D as [Hid|N]; [|rewrite (Hu st1 W1 N), (Hu st2 W2 N); reflexivity].
    pose proof (R_limits _ _ R1 id Hid) as E. rewrite (R_limits _ _ R2 id Hid) in E.
    destruct (aget id (r_limits st1)) as [a|], (aget id (r_limits st2)) as [b|]; cbn [option_map] in E; try discriminate E; [|reflexivity].
    assert (E' : b = a) by (unfold v_lim in E; congruence). rewrite E'. reflexivity.
  - intros [id t]. destruct (R_recs_wf _ _ R1) as [_ W1]. destruct (R_recs_wf _ _ R2) as [_ W2].
    assert (Hu : forall st, (forall i u rc, In ((i, u), rc) (r_recs st) -> u64 i /\ u64 u /\ rc_key rc = u /\ exists h, rc_hashes rc = [h]) ->
                 ~ (u64 id /\ u64 t) -> aget (id, t) (r_recs st) = None).
    { intros st W N. destruct (aget (id, t) (r_recs st)) as [rc|] eqn:G; [|reflexivity]. apply aget_In in G. apply W in G. tauto. }
    assert (D : (u64 id /\ u64 t) \/ ~ (u64 id /\ u64 t)) by (unfold u64; lia).
    destruct D as [[Hid Ht]|N]; [|rewrite (Hu st1 W1 N), (Hu st2 W2 N); reflexivity].
    pose proof (R_recs _ _ R1 id t Hid Ht) as E. rewrite (R_recs _ _ R2 id t Hid Ht) in E.
    destruct (aget (id, t) (r_recs st1)) as [a|] eqn:G1, (aget (id, t) (r_recs st2)) as [b|] eqn:G2; cbn [option_map] in E; try discriminate E; [|reflexivity].
    assert (E' : rec_to_go b = rec_to_go a) by (unfold v_rec in E; congruence).
    apply aget_In in G1. apply aget_In in G2. apply W1 in G1. apply W2 in G2.
    f_equal. symmetry. apply rec_to_go_inj; tauto.
Qed.

(* ================================================================== *)
(* 9. NON-VACUITY: a concrete related pair, and a concrete history       *)
(* ================================================================== *)

Definition demo_s0 : store :=
  [(beacon_ParamsKey, BV_Params demo_params); (beacon_HighestBeaconIDKey, BV_bytes (be64 3))].
Definition demo_w0 : rworld := mk_rworld 0 0 (init_state demo_params 3).

Lemma u64_small x : 0 <= x < 1000 -> u64 x.
Proof. unfold u64. lia. Qed.

Example demo_R0 : Rreg demo_s0 (rw_reg demo_w0).
Proof.
  apply (init_refines demo_params 3 [(beacon_ParamsKey, BV_Params demo_params)] demo_s0);
    [vm_compute; reflexivity | vm_compute; reflexivity | apply u64_small; lia].
Qed.

Definition demo_ops : list sop :=
  [OSetEntity (demo_beacon 2); OSetEntity (demo_beacon 1); OSetLimit 1 100;
   OSetRecord 1 (demo_ts 2); OSetRecord 2 (demo_ts 5); OSetRecord 1 (demo_ts 3); OSetRecord 1 (demo_ts 1);
   ODelRecord 1 2; OSetHighest 4; OSetParams (mk_go_Params 2 2 2 1 10 30)].

Lemma demo_ops_ok : Forall op_ok demo_ops.
Proof.
  unfold demo_ops. repeat (apply Forall_cons; [cbn [op_ok]|]); try apply Forall_nil;
    try (apply u64_small; cbn; lia); try (split; apply u64_small; cbn; lia).
  split; [unfold bcn_params_nonneg; cbn; lia | left; cbn; lia].
Qed.

Definition demo_s1 : store := match crun demo_s0 demo_ops with Ok s => s | _ => [] end.
Definition demo_w1 : rworld := match arun demo_w0 demo_ops with Ok w => w | _ => demo_w0 end.

Example demo_R1 : crun demo_s0 demo_ops = Ok demo_s1 /\ arun demo_w0 demo_ops = Ok demo_w1 /\ Rreg demo_s1 (rw_reg demo_w1).
Proof.
  assert (Ec : crun demo_s0 demo_ops = Ok demo_s1) by (vm_compute; reflexivity).
  assert (Ea : arun demo_w0 demo_ops = Ok demo_w1) by (vm_compute; reflexivity).
  split; [exact Ec|]. split; [exact Ea|].
  pose proof (run_sim demo_ops demo_s0 demo_w0 demo_R0 demo_ops_ok) as H. rewrite Ec, Ea in H. exact H.
Qed.

(* the generated accessors and the primitives run the same history from the related initial pair and end related;
   the beacons were registered in the order 2, 1: the store lists them ascending, the association list as inserted *)
Example demo_related :
  exists s w, crun demo_s0 demo_ops = Ok s /\ arun demo_w0 demo_ops = Ok w /\ Rreg s (rw_reg w) /\
    List.length s = 8%nat /\
    akeys (r_regs (rw_reg w)) = [2; 1] /\
    go_st_GetAllBeacons s = Ok [demo_beacon 1; demo_beacon 2] /\
    reg_GetAllEntities w = [demo_beacon 2; demo_beacon 1] /\
    go_st_GetAllBeaconTimestamps s 1 = Ok [demo_ts 1; demo_ts 3] /\
    reg_GetRecord w 1 3 = (demo_ts 3, true) /\ reg_GetRecord w 1 2 = (zero_go_BeaconTimestamp, false) /\
    go_st_GetHighestBeaconID s = Ok 4 /\ reg_GetHighestID w = Ok 4 /\
    go_st_GetParams s = Ok (mk_go_Params 2 2 2 1 10 30) /\ reg_GetParams w = mk_go_Params 2 2 2 1 10 30.
Proof.
  exists demo_s1, demo_w1. destruct demo_R1 as [Ec [Ea R]]. split; [exact Ec|]. split; [exact Ea|]. split; [exact R|].
  repeat split; vm_compute; reflexivity.
Qed.

(* so the ascending-ids hypothesis of GetAllEntities_refines_sorted cannot be dropped *)
Example GetAllEntities_sorted_refuted :
  exists s w, Rreg s (rw_reg w) /\ go_st_GetAllBeacons s <> Ok (reg_GetAllEntities w).
Proof.
  destruct demo_related as [s [w [_ [_ [R [_ [_ [H1 [H2 _]]]]]]]]]. exists s, w. split; [exact R|].
  rewrite H1, H2. intros E. discriminate E.
Qed.

(* ================================================================== *)
(* 10. what the relation has to exclude                                  *)
(* ================================================================== *)

(* the primitives are maps over Z; the byte store keys an id by its low 64 bits.
   (a) reading an id outside the uint64 range: the store answers for id mod 2^64, the primitive finds nothing *)
Example reader_range_refuted :
  exists s w, cstep demo_s0 (OSetEntity (demo_beacon 0)) = Ok (s, tt) /\ astep demo_w0 (OSetEntity (demo_beacon 0)) = Ok (w, tt) /\
    Rreg s (rw_reg w) /\
    go_st_GetBeacon s (2 ^ 64) = Ok (demo_beacon 0, true) /\ reg_GetEntity w (2 ^ 64) = (zero_go_Beacon, false).
Proof.
  eexists. eexists. split; [vm_compute; reflexivity|]. split; [vm_compute; reflexivity|]. split; [|split; vm_compute; reflexivity].
  assert (Ho : op_ok (OSetEntity (demo_beacon 0))) by (apply u64_small; cbn; lia).
  pose proof (step_sim demo_s0 demo_w0 _ demo_R0 Ho) as H. vm_compute in H. vm_compute. exact H.
Qed.

(* (b) writing an entity whose id is outside the range: the primitive files it under 2^64, the store under 0; the
   results are not related (they already disagree on the in-range id 0) *)
Example SetEntity_range_refuted :
  exists s w, go_st_SetBeacon demo_s0 (demo_beacon (2 ^ 64)) = Ok (s, tt) /\ reg_SetEntity demo_w0 (demo_beacon (2 ^ 64)) = Ok (w, tt) /\
    go_st_GetBeacon s 0 = Ok (demo_beacon (2 ^ 64), true) /\ reg_GetEntity w 0 = (zero_go_Beacon, false) /\
    ~ Rreg s (rw_reg w).
Proof.
  eexists. eexists. split; [vm_compute; reflexivity|]. split; [vm_compute; reflexivity|].
  split; [vm_compute; reflexivity|]. split; [vm_compute; reflexivity|].
  intros R. pose proof (GetEntity_refines _ _ R 0 (u64_small 0 ltac:(lia))) as X. vm_compute in X. discriminate X.
Qed.

(* (c) the same for the counter: reg_SetHighestID keeps the Z, the store its low 64 bits *)
Example SetHighestID_range_refuted :
  exists s w, go_st_SetHighestBeaconID demo_s0 (2 ^ 64) = Ok (s, tt) /\ reg_SetHighestID demo_w0 (2 ^ 64) = Ok (w, tt) /\
    go_st_GetHighestBeaconID s = Ok 0 /\ reg_GetHighestID w = Ok (2 ^ 64).
Proof. eexists. eexists. repeat split; vm_compute; reflexivity. Qed.

(* (d) a per-beacon listing asked for an id outside the range lists the records of id mod 2^64 *)
Example GetAllRecords_range_refuted :
  exists s w, Rreg s (rw_reg w) /\
    go_st_GetAllBeaconTimestamps s (2 ^ 64 + 1) = Ok [demo_ts 1; demo_ts 3] /\
    records_of (2 ^ 64 + 1) (r_recs (rw_reg w)) = [].
Proof.
  exists demo_s1, demo_w1. split; [apply demo_R1|]. split; vm_compute; reflexivity.
Qed.

(* (e) the counter must be present: the primitive reg_GetHighestID never fails, the generated reader does on a store
   without the entry (the genesis always writes it) *)
Example GetHighestID_absent_refuted :
  go_st_GetHighestBeaconID [] = Err STORE_ERR /\ forall w, reg_GetHighestID w = Ok (r_next (rw_reg w)).
Proof. split; [reflexivity | intros w; reflexivity]. Qed.

(* (f) SetParams: the primitive refuses every invalid set with code 40; the generated code returns sdk.ValidateDenom's
   own error (1) for a malformed non-blank denomination -- same class (refused, nothing written), different code *)
Example SetParams_code_refuted :
  let p := mk_go_Params 1 1 1 (-7) 2 10 in
  bcn_params_nonneg p /\ go_st_SetParams demo_s0 p = Err 1 /\ reg_SetParams demo_w0 p = Err 40.
Proof. cbv zeta. split; [unfold bcn_params_nonneg; cbn; lia|]. split; vm_compute; reflexivity. Qed.

(* (g) SetParams: a negative fee (not a uint64) passes the Go `== 0` test and is refused by the primitive *)
Example SetParams_nonneg_refuted :
  let p := mk_go_Params (-1) 1 1 0 2 10 in
  (exists s', go_st_SetParams demo_s0 p = Ok (s', tt)) /\ reg_SetParams demo_w0 p = Err 40.
Proof. cbv zeta. split; [eexists; vm_compute; reflexivity | vm_compute; reflexivity]. Qed.
