(* C01 (crash / replay part): the node model keeps three states (committed, deliver, check).
   A crash throws the deliver and check states away and reopens from the committed one.  Because
   BeginBlock starts from the committed state, replaying the interrupted block reaches the same
   committed state (and the same per-transaction results) as a node that never stopped. *)
From MC Require Import lib.Prelude lib.AMap model.Bank model.Stream model.Registry model.Enterprise
  model.App model.AppSpec.
From MC Require Import proofs.BankProofs proofs.AppFrame proofs.AppAuthProofs proofs.AppFeeProofs.
From Coq Require Import Permutation.
Local Open Scope Z_scope.

(* ---------- blocks and traces ---------- *)

Definition block_ops (now : Z) (txs : list tx) (props : list (list msg)) : list op :=
  OpBegin now :: map OpDeliver txs ++ [OpEnd props; OpCommit].

(* the part of a block before its commit *)
Definition block_body (now : Z) (txs : list tx) (props : list (list msg)) : list op :=
  OpBegin now :: map OpDeliver txs ++ [OpEnd props].

Lemma block_ops_body now txs props : block_ops now txs props = block_body now txs props ++ [OpCommit].
Proof. unfold block_ops, block_body. cbn. rewrite <- app_assoc. reflexivity. Qed.

(* run a history keeping the result of every step *)
Fixpoint node_trace (n : node) (h : list op) : option (node * list (option tx_result)) :=
  match h with
  | [] => Some (n, [])
  | o :: r =>
      match node_step n o with
      | Some (n', x) =>
          match node_trace n' r with
          | Some (n'', xs) => Some (n'', x :: xs)
          | None => None
          end
      | None => None
      end
  end.

Lemma node_trace_run h : forall n, option_map fst (node_trace n h) = node_run n h.
Proof.
  induction h as [|o r IH]; intros n; cbn; [reflexivity|].
  destruct (node_step n o) as [[n' x]|]; [|reflexivity].
  rewrite <- IH. destruct (node_trace n' r) as [[n'' xs]|]; reflexivity.
Qed.

Lemma node_run_app h1 : forall h2 n,
  node_run n (h1 ++ h2) = match node_run n h1 with Some n1 => node_run n1 h2 | None => None end.
Proof.
  induction h1 as [|o r IH]; intros h2 n; cbn; [reflexivity|].
  destruct (node_step n o) as [[n' x]|]; [apply IH | reflexivity].
Qed.

(* ---------- what a step reads ---------- *)

Definition is_commit (o : op) : bool := match o with OpCommit => true | _ => false end.
Definition is_check (o : op) : bool := match o with OpCheck _ => true | _ => false end.

(* only Commit changes the committed state *)
Lemma step_keeps_committed n o n' x :
  node_step n o = Some (n', x) -> is_commit o = false -> n_committed n' = n_committed n.
Proof.
  destruct o as [now|t|t|ps| |]; cbn; intros H C; try discriminate C.
  - destruct (begin_block (n_committed n) now); [|discriminate]. injection H as <- _. reflexivity.
  - destruct (n_deliver n) as [a|]; [|discriminate]. destruct (deliver_tx a t) as [a' r].
    injection H as <- _. reflexivity.
  - destruct (check_tx (n_check n) t) as [c' r]. injection H as <- _. reflexivity.
  - destruct (n_deliver n) as [a|]; [|discriminate]. injection H as <- _. reflexivity.
  - injection H as <- _. reflexivity.
Qed.

Lemma run_keeps_committed h : forall n n',
  node_run n h = Some n' -> forallb (fun o => negb (is_commit o)) h = true ->
  n_committed n' = n_committed n.
Proof.
  induction h as [|o r IH]; intros n n' H F; cbn in *.
  - injection H as <-. reflexivity.
  - apply andb_true_iff in F as [F1 F2]. apply negb_true_iff in F1.
    destruct (node_step n o) as [[n1 x]|] eqn:E; [|discriminate].
    rewrite (IH _ _ H F2). eapply step_keeps_committed; eauto.
Qed.

(* two nodes that agree on the committed and deliver states (the check states may differ) *)
Definition sim (n n' : node) : Prop := n_committed n = n_committed n' /\ n_deliver n = n_deliver n'.

(* every step except CheckTx is a function of (committed, deliver) only *)
Lemma step_sim n n' o :
  sim n n' -> is_check o = false ->
  match node_step n o, node_step n' o with
  | Some (m, x), Some (m', x') => sim m m' /\ x = x'
  | None, None => True
  | _, _ => False
  end.
Proof.
  intros [Ec Ed] C. destruct o as [now|t|t|ps| |]; cbn in *; try discriminate C.
  - rewrite <- Ec. destruct (begin_block (n_committed n) now); [|exact I].
    split; [split; cbn; auto | reflexivity].
  - rewrite <- Ed. destruct (n_deliver n) as [a|]; [|exact I].
    destruct (deliver_tx a t) as [a' r]. split; [split; cbn; auto | reflexivity].
  - rewrite <- Ed. destruct (n_deliver n) as [a|]; [|exact I].
    split; [split; cbn; auto | reflexivity].
  - rewrite <- Ed. destruct (n_deliver n) as [a|]; [|exact I].
    split; [split; cbn; auto | reflexivity].
  - split; [split; cbn; auto | reflexivity].
Qed.

(* what is observable of a trace, the check state left out *)
Definition obs (p : node * list (option tx_result)) := (n_committed (fst p), n_deliver (fst p), snd p).

Lemma trace_sim h : forall n n',
  sim n n' -> forallb (fun o => negb (is_check o)) h = true ->
  option_map obs (node_trace n h) = option_map obs (node_trace n' h).
Proof.
  induction h as [|o r IH]; intros n n' S F; cbn in *.
  - destruct S as [Ec Ed]. unfold obs; cbn. rewrite Ec, Ed. reflexivity.
  - apply andb_true_iff in F as [F1 F2]. apply negb_true_iff in F1.
    pose proof (step_sim n n' o S F1) as X.
    destruct (node_step n o) as [[m x]|], (node_step n' o) as [[m' x']|]; try contradiction; [|reflexivity].
    destruct X as [S' <-]. specialize (IH m m' S' F2).
    destruct (node_trace m r) as [[m2 xs]|], (node_trace m' r) as [[m2' xs']|]; cbn in *; try discriminate.
    + unfold obs in *; cbn in *. injection IH as -> -> ->. reflexivity.
    + reflexivity.
Qed.

(* BeginBlock reads the committed state only: a block starting with it forgets the deliver state *)
Lemma begin_forgets_deliver n n' now :
  n_committed n = n_committed n' ->
  match node_step n (OpBegin now), node_step n' (OpBegin now) with
  | Some (m, x), Some (m', x') => sim m m' /\ x = x'
  | None, None => True
  | _, _ => False
  end.
Proof.
  intros Ec. cbn. rewrite <- Ec. destruct (begin_block (n_committed n) now); [|exact I].
  split; [split; cbn; auto | reflexivity].
Qed.

Lemma block_no_check now txs props :
  forallb (fun o => negb (is_check o)) (block_ops now txs props) = true.
Proof.
  unfold block_ops. cbn. rewrite forallb_app. cbn. rewrite andb_true_r.
  induction txs as [|t r IH]; cbn; auto.
Qed.

Lemma body_no_commit now txs props :
  forallb (fun o => negb (is_commit o)) (block_body now txs props) = true.
Proof.
  unfold block_body. cbn. rewrite forallb_app. cbn. rewrite andb_true_r.
  induction txs as [|t r IH]; cbn; auto.
Qed.

Lemma forallb_prefix {A} (f : A -> bool) pre suf : forallb f (pre ++ suf) = true -> forallb f pre = true.
Proof. rewrite forallb_app. intros H. apply andb_true_iff in H. tauto. Qed.

(* ---------- the committed state and all results after a block depend only on (committed, block) ---------- *)

Theorem block_function_of_committed n n' now txs props :
  n_committed n = n_committed n' ->
  option_map obs (node_trace n (block_ops now txs props)) =
  option_map obs (node_trace n' (block_ops now txs props)).
Proof.
  intros Ec. pose proof (block_no_check now txs props) as F.
  unfold block_ops in *. set (rest := map OpDeliver txs ++ [OpEnd props; OpCommit]) in *.
  cbn [node_trace]. cbn [forallb] in F. apply andb_true_iff in F as [_ F].
  pose proof (begin_forgets_deliver n n' now Ec) as X.
  destruct (node_step n (OpBegin now)) as [[m x]|], (node_step n' (OpBegin now)) as [[m' x']|];
    try contradiction; [|reflexivity].
  destruct X as [S <-]. pose proof (trace_sim rest m m' S F) as T.
  destruct (node_trace m rest) as [[m2 xs]|], (node_trace m' rest) as [[m2' xs']|]; cbn in *; try discriminate.
  - unfold obs in *; cbn in *. injection T as -> -> ->. reflexivity.
  - reflexivity.
Qed.

Lemma obs_committed (x y : option (node * list (option tx_result))) :
  option_map obs x = option_map obs y ->
  option_map n_committed (option_map fst x) = option_map n_committed (option_map fst y) /\
  option_map n_deliver (option_map fst x) = option_map n_deliver (option_map fst y) /\
  option_map snd x = option_map snd y.
Proof.
  destruct x as [[m xs]|], y as [[m' xs']|]; cbn; try discriminate; [|auto].
  unfold obs; cbn. intros [= -> -> ->]. auto.
Qed.

Theorem results_function_of_inputs n n' now txs props :
  n_committed n = n_committed n' -> n_deliver n = None -> n_deliver n' = None ->
  option_map n_committed (node_run n (block_ops now txs props)) =
  option_map n_committed (node_run n' (block_ops now txs props)) /\
  option_map n_deliver (node_run n (block_ops now txs props)) =
  option_map n_deliver (node_run n' (block_ops now txs props)) /\
  option_map snd (node_trace n (block_ops now txs props)) =
  option_map snd (node_trace n' (block_ops now txs props)).
Proof.
  intros Ec _ _. rewrite <- !node_trace_run. apply obs_committed.
  apply block_function_of_committed. exact Ec.
Qed.

(* ---------- crash anywhere inside the block, then replay ---------- *)

Theorem crash_replay n now txs props pre suf n1 :
  n_deliver n = None ->
  pre ++ suf = block_body now txs props ->          (* any prefix of the block that stops before Commit *)
  node_run n pre = Some n1 ->
  exists n2,
    node_step n1 OpCrash = Some (n2, None) /\
    n_committed n2 = n_committed n /\ n_deliver n2 = None /\ n_check n2 = n_committed n /\
    option_map n_committed (node_run n2 (block_ops now txs props)) =
    option_map n_committed (node_run n (block_ops now txs props)) /\
    option_map n_deliver (node_run n2 (block_ops now txs props)) =
    option_map n_deliver (node_run n (block_ops now txs props)) /\
    option_map snd (node_trace n2 (block_ops now txs props)) =
    option_map snd (node_trace n (block_ops now txs props)).
Proof.
  intros Hd Hpre Hrun.
  assert (n_committed n1 = n_committed n) as Ec.
  { apply (run_keeps_committed pre); [exact Hrun|].
    apply (forallb_prefix _ pre suf). rewrite Hpre. apply body_no_commit. }
  eexists. split; [reflexivity|]. cbn [n_committed n_deliver n_check].
  repeat split; auto.
  all: rewrite <- ?node_trace_run;
    apply obs_committed, block_function_of_committed; cbn; exact Ec.
Qed.

(* crashing right after Commit loses nothing *)
Theorem crash_after_commit n n1 n2 :
  node_step n OpCommit = Some (n1, None) -> node_step n1 OpCrash = Some (n2, None) ->
  n_committed n2 = n_committed n1 /\ n_deliver n2 = None /\ n_check n2 = n_committed n1 /\
  n2 = n1 /\ n_deliver n = Some (n_committed n1).
Proof.
  cbn. destruct (n_deliver n) as [a|]; [|discriminate].
  intros [= <-] [= <-]. cbn. auto.
Qed.

(* a crash is idempotent and a crash between blocks changes only the check state *)
Theorem crash_between_blocks n n2 :
  n_deliver n = None -> node_step n OpCrash = Some (n2, None) ->
  n_committed n2 = n_committed n /\ n_deliver n2 = n_deliver n.
Proof. intros Hd [= <-]. cbn. auto. Qed.

(* the whole block, crash-free vs. crash + replay, as one statement about histories *)
Theorem crash_replay_history n now txs props pre suf :
  n_deliver n = None -> pre ++ suf = block_body now txs props ->
  node_run n pre <> None ->
  option_map n_committed (node_run n (pre ++ OpCrash :: block_ops now txs props)) =
  option_map n_committed (node_run n (block_ops now txs props)).
Proof.
  intros Hd Hpre Hrun. destruct (node_run n pre) as [n1|] eqn:E; [|congruence].
  destruct (crash_replay n now txs props pre suf n1 Hd Hpre E) as (n2 & S & _ & _ & _ & R & _).
  rewrite node_run_app, E. cbn [node_run]. rewrite S. exact R.
Qed.

(* ---------- the two audited map iterations: the outcome ignores the iteration order ---------- *)

Theorem maxslots_perm_invariant (tbl tbl' : list (Z * (Z * Z))) :
  Permutation tbl tbl' ->
  existsb (fun kv => fst (snd kv) <? snd (snd kv)) tbl = existsb (fun kv => fst (snd kv) <? snd (snd kv)) tbl'.
Proof. apply existsb_perm. Qed.

(* check_max_slots is that test on the table *)
Theorem check_max_slots_is_existsb pick rs t :
  check_max_slots pick rs t =
  if existsb (fun kv => fst (snd kv) <? snd (snd kv)) (max_slots_table pick rs t)
  then Err ERR_FEE_MAX_STORAGE else Ok tt.
Proof. reflexivity. Qed.

(* ---------- the audited wall-clock read: the stored submit time is never the default ---------- *)

Inductive submsg (x : msg) : msg -> Prop :=
| sub_here : submsg x x
| sub_exec g inner i : In i inner -> submsg x i -> submsg x (MExec g inner).

Lemma validate_inner_all f inner :
  fold_left (fun acc i => do _ <- acc; validate_basic f i) inner (Ok tt) = Ok tt ->
  Forall (fun i => validate_basic f i = Ok tt) inner.
Proof.
  intros H.
  change (ofold (fun (_ : unit) i => validate_basic f i) inner (Ok tt) = Ok tt) in H.
  revert H. apply ofold_forall. intros [] m []. auto.
Qed.

Lemma validate_basic_sub : forall f m x,
  validate_basic f m = Ok tt -> submsg x m -> exists f', validate_basic f' x = Ok tt.
Proof.
  induction f as [|f IH]; intros m x V S; [discriminate V|].
  destruct S as [|g inner i Hi S]; [eauto|].
  cbn in V. destruct (Nat.eqb (List.length inner) 0); [discriminate|].
  apply validate_inner_all in V. rewrite Forall_forall in V.
  exact (IH i x (V i Hi) S).
Qed.

Lemma validate_beacon_record f owner id key hashes :
  validate_basic f (MBcn (RRecord owner id key hashes)) = Ok tt -> key <> 0.
Proof.
  destruct f as [|f]; [discriminate|]. cbn.
  destruct (id =? 0); [discriminate|].
  destruct (is_empty (hd EmptyString hashes)); [discriminate|].
  destruct (key =? 0) eqn:K; [discriminate|]. intros _. apply Z.eqb_neq. exact K.
Qed.

Theorem beacon_wallclock_unreachable f m owner id key hashes :
  validate_basic f m = Ok tt -> submsg (MBcn (RRecord owner id key hashes)) m -> key <> 0.
Proof.
  intros V S. destruct (validate_basic_sub f m _ V S) as [f' V'].
  eapply validate_beacon_record; eauto.
Qed.

Lemma validate_all_each t :
  validate_all t = Ok tt -> Forall (fun m => validate_basic (tx_fuel t) m = Ok tt) (tx_msgs t).
Proof.
  unfold validate_all. destruct (tx_msgs t) as [|m0 ms] eqn:E; [discriminate|].
  rewrite <- E. apply validate_inner_all.
Qed.

(* whole transactions: a beacon record anywhere in an accepted tx carries a non-zero submit time *)
Theorem beacon_wallclock_unreachable_tx t m owner id key hashes :
  validate_all t = Ok tt -> In m (tx_msgs t) -> submsg (MBcn (RRecord owner id key hashes)) m -> key <> 0.
Proof.
  intros V Hm S. apply validate_all_each in V. rewrite Forall_forall in V.
  eapply beacon_wallclock_unreachable; eauto.
Qed.

(* the record stored for a beacon carries exactly the message's submit time *)
Theorem beacon_record_time_is_message_field now s rg key hashes :
  let '(s', k, _) := record_new false now s rg key hashes in
  forall rc, aget (rg_id rg, k) (r_recs s') = Some rc -> rc_time rc = key \/ limit_of s (rg_id rg) < rg_num rg + 1.
Proof.
  unfold record_new. cbn.
  destruct (limit_of s (rg_id rg) <? rg_num rg + 1) eqn:L.
  - cbn. intros rc _. right. apply Z.ltb_lt. exact L.
  - cbn. intros rc G. left. rewrite aget_aset_eq in G. injection G as <-. reflexivity.
Qed.
