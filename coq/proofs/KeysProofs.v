(* Proofs about the byte-level key model (model/Keys.v) -- property C18. *)

From Coq Require Import ZArith NArith List Bool Arith Lia.
From Coq Require Import ZifyN ZifyNat ZifyBool.
From MC Require Import model.Keys.
Import ListNotations.
Open Scope N_scope.

(* ================================================================== *)
(* 0. small list facts                                                  *)
(* ================================================================== *)

Definition bytes (l : list N) : Prop := Forall (fun b => b < 256) l.

Lemma firstn_length_app {A} (a b : list A) : firstn (length a) (a ++ b) = a.
Proof. induction a; cbn; [destruct b; reflexivity | f_equal; assumption]. Qed.

Lemma skipn_length_app {A} (a b : list A) : skipn (length a) (a ++ b) = b.
Proof. induction a; cbn; auto. Qed.

Lemma app_inv_same_len {A} (a1 a2 b1 b2 : list A) :
  length a1 = length a2 -> a1 ++ b1 = a2 ++ b2 -> a1 = a2 /\ b1 = b2.
Proof.
  revert a2. induction a1 as [|x a1 IH]; intros [|y a2] L E; cbn in *; try discriminate; auto.
  injection E as -> E. injection L as L. destruct (IH _ L E) as [-> ->]. auto.
Qed.

Lemma cons_eq_inv {A} (x y : A) a b : x :: a = y :: b -> x = y /\ a = b.
Proof. intros H. injection H. auto. Qed.

Lemma key_eqb_spec a b : key_eqb a b = true <-> a = b.
Proof.
  revert b. induction a as [|x a IH]; intros [|y b]; cbn; split; intros H;
    try discriminate; auto.
  - apply andb_true_iff in H as [H1 H2]. apply N.eqb_eq in H1. apply IH in H2. congruence.
  - injection H as -> ->. rewrite N.eqb_refl. cbn. apply IH. reflexivity.
Qed.

(* ================================================================== *)
(* 1. is_prefix                                                         *)
(* ================================================================== *)

Lemma is_prefix_spec p k : is_prefix p k = true <-> exists r, k = p ++ r.
Proof.
  revert k. induction p as [|x p IH]; intros k; cbn.
  - split; eauto.
  - destruct k as [|y k].
    + split; [discriminate | intros [r H]; discriminate H].
    + rewrite andb_true_iff, N.eqb_eq, IH. split.
      * intros [-> [r ->]]. eauto.
      * intros [r H]. injection H as -> ->. eauto.
Qed.

Lemma is_prefix_app p r : is_prefix p (p ++ r) = true.
Proof. apply is_prefix_spec. eauto. Qed.

Lemma is_prefix_same_len_app p a b :
  length p = length a -> (is_prefix p (a ++ b) = true <-> p = a).
Proof.
  intros L. rewrite is_prefix_spec. split.
  - intros [r E]. symmetry. apply (app_inv_same_len a p b r); auto.
  - intros ->. eauto.
Qed.

Lemma is_prefix1 p q l : is_prefix [p] (q :: l) = (p =? q).
Proof. cbn. apply andb_true_r. Qed.

Lemma is_prefix_cons x y p k : is_prefix (x :: p) (y :: k) = (x =? y) && is_prefix p k.
Proof. reflexivity. Qed.

(* ================================================================== *)
(* 2. lex_lt : bytes.Compare is a strict total order                    *)
(* ================================================================== *)

Lemma lex_lt_cons x y a b :
  lex_lt (x :: a) (y :: b) = (x <? y) || ((x =? y) && lex_lt a b).
Proof. reflexivity. Qed.

Lemma lex_lt_cons_same x a b : lex_lt (x :: a) (x :: b) = lex_lt a b.
Proof. cbn. rewrite N.ltb_irrefl, N.eqb_refl. reflexivity. Qed.

Lemma lex_lt_irrefl a : lex_lt a a = false.
Proof. induction a; [reflexivity|]. rewrite lex_lt_cons_same. assumption. Qed.

Lemma lex_lt_trans a b c : lex_lt a b = true -> lex_lt b c = true -> lex_lt a c = true.
Proof.
  revert b c. induction a as [|x a IH]; intros [|y b] [|z c]; cbn; try discriminate; auto.
  intros H1 H2.
  apply orb_true_iff in H1. apply orb_true_iff in H2. apply orb_true_iff.
  rewrite andb_true_iff in *. rewrite N.ltb_lt, N.eqb_eq in *.
  destruct H1 as [H1|[H1 H1']], H2 as [H2|[H2 H2']]; try (left; lia).
  right. split; [lia|]. eapply IH; eauto.
Qed.

Lemma lex_lt_total a b : lex_lt a b = true \/ a = b \/ lex_lt b a = true.
Proof.
  revert b. induction a as [|x a IH]; intros [|y b]; cbn; auto.
  destruct (N.lt_trichotomy x y) as [H|[H|H]].
  - left. apply orb_true_iff. left. apply N.ltb_lt. assumption.
  - subst y. rewrite N.ltb_irrefl, N.eqb_refl. cbn.
    destruct (IH b) as [H|[H|H]]; auto. subst. auto.
  - right. right. apply orb_true_iff. left. apply N.ltb_lt. assumption.
Qed.

Lemma lex_lt_app_same_len a1 a2 b1 b2 :
  length a1 = length a2 ->
  (lex_lt (a1 ++ b1) (a2 ++ b2) = true <->
   lex_lt a1 a2 = true \/ (a1 = a2 /\ lex_lt b1 b2 = true)).
Proof.
  revert a2. induction a1 as [|x a1 IH]; intros [|y a2] L; try discriminate L.
  - cbn [app]. split; [auto | intros [H|[_ H]]; [discriminate H | exact H]].
  - injection L as L. cbn [app]. rewrite !lex_lt_cons.
    rewrite !orb_true_iff, !andb_true_iff, (IH a2 L), N.ltb_lt, N.eqb_eq.
    split.
    + intros [H|[-> [H|[-> H]]]]; auto.
    + intros [[H|[-> H]]|[E H]]; auto. injection E as -> ->. auto.
Qed.

(* ================================================================== *)
(* 3. big-endian digit strings: lexicographic order = numeric order      *)
(* ================================================================== *)

Lemma de_acc_lt_mono l1 : forall l2 a1 a2,
  length l1 = length l2 -> bytes l1 -> bytes l2 -> a1 < a2 ->
  de_acc a1 l1 < de_acc a2 l2.
Proof.
  induction l1 as [|x l1 IH]; intros [|y l2] a1 a2 L B1 B2 H; try discriminate L; cbn; auto.
  injection L as L. inversion B1; inversion B2; subst.
  apply IH; auto. lia.
Qed.

Lemma lex_lt_de_acc l1 : forall l2 a,
  length l1 = length l2 -> bytes l1 -> bytes l2 ->
  (lex_lt l1 l2 = true <-> de_acc a l1 < de_acc a l2).
Proof.
  induction l1 as [|x l1 IH]; intros [|y l2] a L B1 B2; try discriminate L.
  - cbn. split; [discriminate | lia].
  - injection L as L. inversion B1; inversion B2; subst.
    rewrite lex_lt_cons. cbn [de_acc].
    destruct (N.lt_trichotomy x y) as [H|[H|H]].
    + assert (x <? y = true) as -> by (apply N.ltb_lt; assumption). cbn.
      split; auto. intros _. apply de_acc_lt_mono; auto. lia.
    + subst y. rewrite N.ltb_irrefl, N.eqb_refl. cbn. apply IH; auto.
    + assert (x <? y = false) as -> by (apply N.ltb_ge; lia).
      assert (x =? y = false) as -> by (apply N.eqb_neq; lia). cbn.
      split; [discriminate|]. intros H'.
      assert (de_acc (a * 256 + y) l2 < de_acc (a * 256 + x) l1)
        by (apply de_acc_lt_mono; auto; lia).
      lia.
Qed.

(* ================================================================== *)
(* 4. be64 / de64                                                       *)
(* ================================================================== *)

Lemma wf_id_lt n : wf_id n = true <-> n < 2 ^ 64.
Proof. unfold wf_id. apply N.ltb_lt. Qed.

Lemma be64_length n : length (be64 n) = 8%nat.
Proof. reflexivity. Qed.

Lemma be64_bytes n : bytes (be64 n).
Proof.
  unfold be64, bytes. repeat constructor; apply N.mod_lt; discriminate.
Qed.

Lemma div_step n a : a <> 0 -> n / (a * 256) = (n / a) / 256.
Proof. intros. rewrite N.div_div by lia. reflexivity. Qed.

Lemma de_acc_be64 n : n < 2 ^ 64 -> de_acc 0 (be64 n) = n.
Proof.
  intros H. change (2 ^ 64) with 18446744073709551616 in H.
  unfold be64. cbn [de_acc].
  change 72057594037927936 with (281474976710656 * 256).
  rewrite (div_step n 281474976710656) by discriminate.
  change 281474976710656 with (1099511627776 * 256).
  rewrite (div_step n 1099511627776) by discriminate.
  change 1099511627776 with (4294967296 * 256).
  rewrite (div_step n 4294967296) by discriminate.
  change 4294967296 with (16777216 * 256).
  rewrite (div_step n 16777216) by discriminate.
  change 16777216 with (65536 * 256).
  rewrite (div_step n 65536) by discriminate.
  change 65536 with (256 * 256).
  rewrite (div_step n 256) by discriminate.
  set (q1 := n / 256). set (q2 := q1 / 256). set (q3 := q2 / 256).
  set (q4 := q3 / 256). set (q5 := q4 / 256). set (q6 := q5 / 256). set (q7 := q6 / 256).
  pose proof (N.div_mod' n 256) as E0. fold q1 in E0.
  pose proof (N.div_mod' q1 256) as E1. fold q2 in E1.
  pose proof (N.div_mod' q2 256) as E2. fold q3 in E2.
  pose proof (N.div_mod' q3 256) as E3. fold q4 in E3.
  pose proof (N.div_mod' q4 256) as E4. fold q5 in E4.
  pose proof (N.div_mod' q5 256) as E5. fold q6 in E5.
  pose proof (N.div_mod' q6 256) as E6. fold q7 in E6.
  assert (H7 : q7 < 256).
  { clearbody q1 q2 q3 q4 q5 q6 q7.
    pose proof (N.mod_lt n 256). pose proof (N.mod_lt q1 256). pose proof (N.mod_lt q2 256).
    pose proof (N.mod_lt q3 256). pose proof (N.mod_lt q4 256). pose proof (N.mod_lt q5 256).
    pose proof (N.mod_lt q6 256). lia. }
  rewrite (N.mod_small q7 256 H7).
  clearbody q1 q2 q3 q4 q5 q6 q7.
  lia.
Qed.

Lemma de64_be64 n : n < 2 ^ 64 -> de64 (be64 n) = n.
Proof. intros H. unfold de64. change (firstn 8 (be64 n)) with (be64 n). apply de_acc_be64, H. Qed.

Lemma de64_be64_app n t : n < 2 ^ 64 -> de64 (be64 n ++ t) = n.
Proof. intros H. unfold de64. change (firstn 8 (be64 n ++ t)) with (be64 n). apply de_acc_be64, H. Qed.

Lemma de64_checked_be64 n : n < 2 ^ 64 -> de64_checked (be64 n) = Some n.
Proof. intros H. unfold de64_checked. cbn [length be64 Nat.ltb Nat.leb]. f_equal. apply de64_be64, H. Qed.

Lemma be64_inj a b : a < 2 ^ 64 -> b < 2 ^ 64 -> be64 a = be64 b -> a = b.
Proof. intros Ha Hb E. rewrite <- (de_acc_be64 a Ha), <- (de_acc_be64 b Hb), E. reflexivity. Qed.

Theorem be64_order a b :
  a < 2 ^ 64 -> b < 2 ^ 64 -> (lex_lt (be64 a) (be64 b) = true <-> a < b).
Proof.
  intros Ha Hb.
  rewrite (lex_lt_de_acc (be64 a) (be64 b) 0 eq_refl (be64_bytes a) (be64_bytes b)).
  rewrite (de_acc_be64 a Ha), (de_acc_be64 b Hb). reflexivity.
Qed.

(* be64 truncates to 64 bits, as a Go uint64 conversion would *)
Lemma be64_mod n : be64 (n mod 2 ^ 64) = be64 n.
Proof.
  change (2 ^ 64) with 18446744073709551616.
  unfold be64. repeat (f_equal; [solve [zify; Z.div_mod_to_equations; lia] | ]).
  f_equal. zify; Z.div_mod_to_equations; lia.
Qed.

(* ================================================================== *)
(* 5. well-formedness, unfolded                                         *)
(* ================================================================== *)

Lemma wf_addr_spec a :
  wf_addr a = true <-> (1 <= length a <= 255)%nat /\ bytes a.
Proof.
  unfold wf_addr, bytes. rewrite !andb_true_iff, !Nat.leb_le, forallb_forall, Forall_forall.
  split.
  - intros [[H1 H2] H3]. repeat split; auto. intros x Hx. apply N.ltb_lt, H3, Hx.
  - intros [[H1 H2] H3]. repeat split; auto. intros x Hx. apply N.ltb_lt, H3, Hx.
Qed.

Lemma wf_addr_nonempty a : wf_addr a = true -> a <> [].
Proof. intros H ->. discriminate H. Qed.

Lemma length_prefix_nonempty a :
  a <> [] -> length_prefix a = N.of_nat (length a) :: a.
Proof. destruct a; [congruence | reflexivity]. Qed.

Lemma length_prefix_wf a :
  wf_addr a = true -> length_prefix a = N.of_nat (length a) :: a.
Proof. intros H. apply length_prefix_nonempty, wf_addr_nonempty, H. Qed.

(* the length byte really is a byte for a legal address *)
Lemma length_prefix_bytes a : wf_addr a = true -> bytes (length_prefix a).
Proof.
  intros H. rewrite (length_prefix_wf a H). apply wf_addr_spec in H as [[H1 H2] H3].
  constructor; [lia | exact H3].
Qed.

(* ================================================================== *)
(* 6. enterprise                                                        *)
(* ================================================================== *)

Ltac id_lt :=
  repeat match goal with
         | H : wf_id _ = true |- _ => apply wf_id_lt in H
         | H : (_ && _) = true |- _ => apply andb_true_iff in H; destruct H
         end.

Theorem ent_injective k1 k2 :
  wf_ent_key k1 = true -> wf_ent_key k2 = true ->
  ent_encode k1 = ent_encode k2 -> k1 = k2.
Proof.
  intros W1 W2 E.
  destruct k1, k2; cbn [ent_encode wf_ent_key] in *; try discriminate E; try reflexivity;
    apply cons_eq_inv in E as [_ E]; id_lt;
    try (f_equal; apply be64_inj; assumption); congruence.
Qed.

(* section membership is decided by the first byte alone *)
Ltac range_tac k :=
  let H := fresh "H" in
  destruct k; cbn [ent_encode reg_encode str_encode]; rewrite is_prefix1;
  (split;
   [ intro H; try discriminate H; eauto
   | intro H; repeat match goal with H' : exists _, _ |- _ => destruct H' end;
     try discriminate; reflexivity ]).

Theorem ent_range_po k :
  is_prefix ent_prefix_po (ent_encode k) = true <-> exists id, k = EkPO id.
Proof. unfold ent_prefix_po. range_tac k. Qed.

Theorem ent_range_locked k :
  is_prefix ent_prefix_locked (ent_encode k) = true <-> exists a, k = EkLocked a.
Proof. unfold ent_prefix_locked. range_tac k. Qed.

Theorem ent_range_whitelist k :
  is_prefix ent_prefix_whitelist (ent_encode k) = true <-> exists a, k = EkWhitelist a.
Proof. unfold ent_prefix_whitelist. range_tac k. Qed.

Theorem ent_range_raised k :
  is_prefix ent_prefix_raised (ent_encode k) = true <-> exists id, k = EkRaised id.
Proof. unfold ent_prefix_raised. range_tac k. Qed.

Theorem ent_range_accepted k :
  is_prefix ent_prefix_accepted (ent_encode k) = true <-> exists id, k = EkAccepted id.
Proof. unfold ent_prefix_accepted. range_tac k. Qed.

Theorem ent_range_spent k :
  is_prefix ent_prefix_spent (ent_encode k) = true <-> exists a, k = EkSpent a.
Proof. unfold ent_prefix_spent. range_tac k. Qed.

Definition ent_prefixes : list (list N) :=
  [ent_prefix_po; ent_prefix_locked; ent_prefix_whitelist;
   ent_prefix_raised; ent_prefix_accepted; ent_prefix_spent].

(* the single-byte keys 0x20, 0x07, 0x98, 0x99 are in nobody's range *)
Theorem ent_singletons_in_no_range k P :
  In k [EkHighestPO; EkParams; EkTotalSpent; EkTotalLocked] ->
  In P ent_prefixes -> is_prefix P (ent_encode k) = false.
Proof.
  cbn [In ent_prefixes].
  intros [<-|[<-|[<-|[<-|[]]]]] [<-|[<-|[<-|[<-|[<-|[<-|[]]]]]]]; reflexivity.
Qed.

Lemma order_cons_be64 p a b :
  wf_id a = true -> wf_id b = true ->
  (lex_lt (p :: be64 a) (p :: be64 b) = true <-> a < b).
Proof. intros; id_lt. rewrite lex_lt_cons_same. apply be64_order; assumption. Qed.

Theorem ent_order_po a b : wf_id a = true -> wf_id b = true ->
  (lex_lt (ent_encode (EkPO a)) (ent_encode (EkPO b)) = true <-> a < b).
Proof. apply order_cons_be64. Qed.

Theorem ent_order_raised a b : wf_id a = true -> wf_id b = true ->
  (lex_lt (ent_encode (EkRaised a)) (ent_encode (EkRaised b)) = true <-> a < b).
Proof. apply order_cons_be64. Qed.

Theorem ent_order_accepted a b : wf_id a = true -> wf_id b = true ->
  (lex_lt (ent_encode (EkAccepted a)) (ent_encode (EkAccepted b)) = true <-> a < b).
Proof. apply order_cons_be64. Qed.

(* SplitRaisedQueueKey / SplitAcceptedQueueKey recover the id *)
Theorem ent_split_raised id : wf_id id = true ->
  split_queue_key (ent_encode (EkRaised id)) = Some id.
Proof. intros; id_lt. cbn [ent_encode split_queue_key be64 length Nat.eqb]. f_equal. apply de64_be64; assumption. Qed.

Theorem ent_split_accepted id : wf_id id = true ->
  split_queue_key (ent_encode (EkAccepted id)) = Some id.
Proof. intros; id_lt. cbn [ent_encode split_queue_key be64 length Nat.eqb]. f_equal. apply de64_be64; assumption. Qed.

(* ================================================================== *)
(* 7. wrkchain / beacon                                                 *)
(* ================================================================== *)

Theorem reg_injective k1 k2 :
  wf_reg_key k1 = true -> wf_reg_key k2 = true ->
  reg_encode k1 = reg_encode k2 -> k1 = k2.
Proof.
  intros W1 W2 E.
  destruct k1, k2; cbn [reg_encode wf_reg_key] in *; try discriminate E; try reflexivity;
    apply cons_eq_inv in E as [_ E]; id_lt;
    try (f_equal; apply be64_inj; assumption).
  apply app_inv_same_len in E as [E1 E2]; [|reflexivity].
  f_equal; apply be64_inj; assumption.
Qed.

Theorem reg_range_regs k :
  is_prefix wrk_prefix_regs (reg_encode k) = true <-> exists id, k = RkReg id.
Proof. unfold wrk_prefix_regs. range_tac k. Qed.

Theorem reg_range_records_all k :
  is_prefix wrk_prefix_records_all (reg_encode k) = true <-> exists id h, k = RkRecord id h.
Proof. unfold wrk_prefix_records_all. range_tac k. Qed.

Theorem reg_range_limits k :
  is_prefix wrk_prefix_limits (reg_encode k) = true <-> exists id, k = RkLimit id.
Proof. unfold wrk_prefix_limits. range_tac k. Qed.

(* the per-registration record range selects that registration's records only *)
Theorem reg_range_records_of id k :
  wf_id id = true -> wf_reg_key k = true ->
  (is_prefix (wrk_prefix_records_of id) (reg_encode k) = true <-> exists h, k = RkRecord id h).
Proof.
  intros Wi Wk. unfold wrk_prefix_records_of.
  destruct k; cbn [reg_encode wf_reg_key] in *; rewrite is_prefix_cons.
  1,2,4,5: split; [intro H; discriminate H | intros [h H]; discriminate H].
  id_lt. cbn [N.eqb Pos.eqb andb].
  rewrite (is_prefix_same_len_app (be64 id) (be64 id0) (be64 h) eq_refl). split.
  - intros E. apply be64_inj in E; auto. subst. eauto.
  - intros [h' E]. injection E as -> _. reflexivity.
Qed.

Definition reg_prefixes (id : N) : list (list N) :=
  [wrk_prefix_regs; wrk_prefix_records_all; wrk_prefix_records_of id; wrk_prefix_limits].

(* the single-byte keys 0x20 and 0x04 are in nobody's range *)
Theorem reg_singletons_in_no_range k id P :
  In k [RkHighestId; RkParams] -> In P (reg_prefixes id) -> is_prefix P (reg_encode k) = false.
Proof.
  cbn [In reg_prefixes].
  intros [<-|[<-|[]]] [<-|[<-|[<-|[<-|[]]]]]; reflexivity.
Qed.

Theorem reg_order_reg a b : wf_id a = true -> wf_id b = true ->
  (lex_lt (reg_encode (RkReg a)) (reg_encode (RkReg b)) = true <-> a < b).
Proof. apply order_cons_be64. Qed.

Theorem reg_order_limit a b : wf_id a = true -> wf_id b = true ->
  (lex_lt (reg_encode (RkLimit a)) (reg_encode (RkLimit b)) = true <-> a < b).
Proof. apply order_cons_be64. Qed.

(* records are ordered lexicographically by (id, height) *)
Theorem reg_order_record i1 h1 i2 h2 :
  wf_id i1 = true -> wf_id h1 = true -> wf_id i2 = true -> wf_id h2 = true ->
  (lex_lt (reg_encode (RkRecord i1 h1)) (reg_encode (RkRecord i2 h2)) = true
   <-> i1 < i2 \/ (i1 = i2 /\ h1 < h2)).
Proof.
  intros; id_lt. cbn [reg_encode]. rewrite lex_lt_cons_same.
  rewrite (lex_lt_app_same_len (be64 i1) (be64 i2) (be64 h1) (be64 h2) eq_refl).
  rewrite !be64_order by assumption.
  split; intros [?|[E ?]]; auto; right; split; auto.
  - apply be64_inj; assumption.
  - congruence.
Qed.

(* within one registration: ascending height *)
Corollary reg_order_record_same_id i h1 h2 :
  wf_id i = true -> wf_id h1 = true -> wf_id h2 = true ->
  (lex_lt (reg_encode (RkRecord i h1)) (reg_encode (RkRecord i h2)) = true <-> h1 < h2).
Proof.
  intros. rewrite reg_order_record by assumption. split; [|auto].
  intros [?|[_ ?]]; [lia | assumption].
Qed.

(* ================================================================== *)
(* 8. stream                                                            *)
(* ================================================================== *)

Lemma length_prefix_inj_app r1 r2 t1 t2 :
  r1 <> [] -> r2 <> [] ->
  length_prefix r1 ++ t1 = length_prefix r2 ++ t2 -> r1 = r2 /\ t1 = t2.
Proof.
  intros N1 N2. rewrite !length_prefix_nonempty by assumption. cbn [app].
  intros E. apply cons_eq_inv in E as [L E].
  apply Nat2N.inj in L. apply app_inv_same_len in E; assumption.
Qed.

Theorem str_injective k1 k2 :
  wf_str_key k1 = true -> wf_str_key k2 = true ->
  str_encode k1 = str_encode k2 -> k1 = k2.
Proof.
  intros W1 W2 E.
  destruct k1 as [|r1 s1], k2 as [|r2 s2]; cbn [str_encode wf_str_key] in *;
    try discriminate E; try reflexivity.
  apply andb_true_iff in W1 as [Wr1 Ws1]. apply andb_true_iff in W2 as [Wr2 Ws2].
  apply cons_eq_inv in E as [_ E].
  apply length_prefix_inj_app in E as [-> E]; try (apply wf_addr_nonempty; assumption).
  rewrite <- (app_nil_r (length_prefix s1)), <- (app_nil_r (length_prefix s2)) in E.
  apply length_prefix_inj_app in E as [-> _]; try (apply wf_addr_nonempty; assumption).
  reflexivity.
Qed.

Theorem str_range_all k :
  is_prefix str_prefix_all (str_encode k) = true <-> exists r s, k = SkStream r s.
Proof. unfold str_prefix_all. range_tac k. Qed.

(* the by-receiver range selects exactly that receiver's streams: the length
   byte is what prevents a receiver whose address is a prefix of another's
   from capturing the other's streams *)
Theorem str_range_receiver r k :
  wf_addr r = true -> wf_str_key k = true ->
  (is_prefix (str_prefix_receiver r) (str_encode k) = true <-> exists s, k = SkStream r s).
Proof.
  intros Wr Wk. unfold str_prefix_receiver.
  destruct k as [|r' s]; cbn [str_encode wf_str_key] in *; rewrite is_prefix_cons.
  - split; [intro H; discriminate H | intros [s H]; discriminate H].
  - apply andb_true_iff in Wk as [Wr' Ws].
    cbn [N.eqb Pos.eqb andb].
    rewrite (length_prefix_wf r Wr), (length_prefix_wf r' Wr'). cbn [app].
    rewrite is_prefix_cons, andb_true_iff, N.eqb_eq. split.
    + intros [L P]. apply Nat2N.inj in L.
      apply (is_prefix_same_len_app r r' (length_prefix s) L) in P. subst. eauto.
    + intros [s' E]. injection E as -> _. split; [reflexivity|].
      apply is_prefix_app.
Qed.

Theorem str_params_in_no_range r :
  is_prefix str_prefix_all (str_encode SkParams) = false /\
  is_prefix (str_prefix_receiver r) (str_encode SkParams) = false.
Proof. split; reflexivity. Qed.

(* --- parsers ------------------------------------------------------- *)

Lemma parse_lp_at key a b c start n :
  key = a ++ b ++ c -> start = length a -> n = length b ->
  parse_lp key start n = Some (b, (start + n)%nat).
Proof.
  intros -> -> ->. unfold parse_lp.
  assert ((length (a ++ b ++ c) <? length a + length b)%nat = false) as ->
    by (apply Nat.ltb_ge; rewrite !app_length; lia).
  rewrite skipn_length_app, firstn_length_app. reflexivity.
Qed.

(* AddressesFromStreamKey on any key of the documented shape; the first byte
   is not inspected and trailing bytes are ignored *)
Lemma addresses_from_stream_key_shape p lr r ls s t :
  length r = N.to_nat lr -> length s = N.to_nat ls ->
  addresses_from_stream_key (p :: lr :: r ++ ls :: s ++ t) = Some (r, s).
Proof.
  intros Lr Ls. unfold addresses_from_stream_key.
  set (key := p :: lr :: r ++ ls :: s ++ t).
  rewrite (parse_lp_at key [p] [lr] (r ++ ls :: s ++ t) 1 1) by reflexivity.
  cbn [Nat.add].
  rewrite (parse_lp_at key [p; lr] r (ls :: s ++ t) 2 (N.to_nat lr)); auto.
  rewrite (parse_lp_at key ([p; lr] ++ r) [ls] (s ++ t) (2 + N.to_nat lr) 1);
    [ | unfold key; cbn [app]; rewrite <- ?app_assoc; reflexivity
      | rewrite app_length, Lr; reflexivity | reflexivity ].
  rewrite (parse_lp_at key ([p; lr] ++ r ++ [ls]) s t (2 + N.to_nat lr + 1) (N.to_nat ls));
    [ | unfold key; cbn [app]; rewrite <- ?app_assoc; reflexivity
      | rewrite !app_length, Lr; cbn [length]; lia | auto ].
  assert ((length key <? 2 + N.to_nat lr + 1 + N.to_nat ls)%nat = false) as ->.
  { apply Nat.ltb_ge. unfold key. cbn [length]. rewrite !app_length. cbn [length].
    rewrite app_length. lia. }
  reflexivity.
Qed.

Lemma str_encode_shape r s :
  wf_addr r = true -> wf_addr s = true ->
  str_encode (SkStream r s) =
  0x11 :: N.of_nat (length r) :: r ++ N.of_nat (length s) :: s ++ [].
Proof.
  intros Wr Ws. cbn [str_encode].
  rewrite (length_prefix_wf r Wr), (length_prefix_wf s Ws), app_nil_r. reflexivity.
Qed.

(* IterateAllStreams (genesis export, invariants): full store key *)
Theorem str_roundtrip r s :
  wf_addr r = true -> wf_addr s = true ->
  addresses_from_stream_key (str_encode (SkStream r s)) = Some (r, s).
Proof.
  intros Wr Ws. rewrite (str_encode_shape r s Wr Ws).
  apply addresses_from_stream_key_shape; rewrite Nat2N.id; reflexivity.
Qed.

(* Streams / AllStreamsForSender queries: prefix store strips 0x11, the
   callback puts it back *)
Theorem str_streams_query_roundtrip r s :
  wf_addr r = true -> wf_addr s = true ->
  streams_query_addresses (str_encode (SkStream r s)) = Some (r, s).
Proof.
  intros Wr Ws. unfold streams_query_addresses, strip_prefix, str_prefix_all.
  rewrite <- (str_roundtrip r s Wr Ws). reflexivity.
Qed.

(* FirstAddressFromStreamStoreKey (fixed code) on <len><addr><anything> *)
Lemma first_address_shape ls s t :
  length s = N.to_nat ls ->
  first_address_from_stream_store_key (ls :: s ++ t) = Some s.
Proof.
  intros L. unfold first_address_from_stream_store_key. rewrite <- L.
  cbn [Nat.add Nat.leb length Nat.sub skipn].
  assert ((length s <=? length (s ++ t))%nat = true) as ->
    by (apply Nat.leb_le; rewrite app_length; lia).
  rewrite Nat.sub_0_r, firstn_length_app. reflexivity.
Qed.

(* the helper before the fix: fine for len <= 254 ... *)
Lemma first_address_legacy_shape ls s t :
  ls < 255 -> length s = N.to_nat ls ->
  first_address_from_stream_store_key_legacy (ls :: s ++ t) = Some s.
Proof.
  intros B L. unfold first_address_from_stream_store_key_legacy.
  rewrite (N.mod_small (1 + ls) 256) by lia.
  replace (N.to_nat (1 + ls)) with (S (length s)) by lia.
  cbn [Nat.leb length Nat.sub skipn].
  assert ((length s <=? length (s ++ t))%nat = true) as ->
    by (apply Nat.leb_le; rewrite app_length; lia).
  cbn [andb]. rewrite Nat.sub_0_r, firstn_length_app. reflexivity.
Qed.

(* ... and on <255><anything>: uint8 overflow of 1+addrLen, Go panicked *)
Lemma first_address_legacy_255 t :
  first_address_from_stream_store_key_legacy (255 :: t) = None.
Proof. reflexivity. Qed.

Lemma strip_receiver_prefix r s :
  strip_prefix (str_prefix_receiver r) (str_encode (SkStream r s)) = length_prefix s.
Proof.
  unfold strip_prefix, str_prefix_receiver. cbn [str_encode].
  change (0x11 :: length_prefix r ++ length_prefix s)
    with ((0x11 :: length_prefix r) ++ length_prefix s).
  apply skipn_length_app.
Qed.

(* AllStreamsForReceiver query (fixed code): correct for every legal sender,
   1..255 bytes *)
Theorem str_receiver_query_sender r s :
  wf_addr r = true -> wf_addr s = true ->
  receiver_query_sender r (str_encode (SkStream r s)) = Some s.
Proof.
  intros Wr Ws. unfold receiver_query_sender.
  rewrite strip_receiver_prefix, (length_prefix_wf s Ws).
  rewrite <- (app_nil_r s) at 2.
  apply first_address_shape. rewrite Nat2N.id. reflexivity.
Qed.

(* Before the fix: correct for senders of 1..254 bytes ... *)
Theorem legacy_receiver_query_sender r s :
  wf_addr r = true -> wf_addr s = true -> (length s <= 254)%nat ->
  receiver_query_sender_legacy r (str_encode (SkStream r s)) = Some s.
Proof.
  intros Wr Ws L. unfold receiver_query_sender_legacy.
  rewrite strip_receiver_prefix, (length_prefix_wf s Ws).
  rewrite <- (app_nil_r s) at 2.
  apply first_address_legacy_shape; [lia | rewrite Nat2N.id; reflexivity].
Qed.

(* ... and a panic for every legal 255-byte sender *)
Theorem legacy_receiver_query_sender_255 r s :
  wf_addr s = true -> length s = 255%nat ->
  receiver_query_sender_legacy r (str_encode (SkStream r s)) = None.
Proof.
  intros Ws L. unfold receiver_query_sender_legacy.
  rewrite strip_receiver_prefix, (length_prefix_wf s Ws), L.
  apply first_address_legacy_255.
Qed.

(* Before the fix, "a stream listed by the chain is reported with exactly the
   sender it was created with" failed for AllStreamsForReceiver when the sender
   is a (legal) 255-byte address; the fixed helper reports it correctly. *)
Theorem legacy_receiver_query_sender_refuted :
  exists r s, wf_addr r = true /\ wf_addr s = true /\
    addresses_from_stream_key (str_encode (SkStream r s)) = Some (r, s) /\
    receiver_query_sender r (str_encode (SkStream r s)) = Some s /\
    receiver_query_sender_legacy r (str_encode (SkStream r s)) = None.
Proof.
  exists [0x01], (repeat 0xAB 255).
  repeat split; reflexivity.
Qed.

(* Why wf_addr demands a non-empty address: LengthPrefix returns the empty
   slice unchanged (no length byte), so empty addresses would alias. *)
Example str_empty_address_collision :
  str_encode (SkStream [] [0x07]) = str_encode (SkStream [0x07] []) /\
  SkStream [] [0x07] <> SkStream [0x07] [].
Proof. split; [reflexivity | discriminate]. Qed.

(* ================================================================== *)
(* 9. writes and deletes do not disturb other entities                  *)
(* ================================================================== *)

Section Isolation.
  Context {V : Type}.

  Lemma kv_get_set_same (st : kv V) k v : kv_get (kv_set st k v) k = Some v.
  Proof. unfold kv_get, kv_set. rewrite (proj2 (key_eqb_spec k k) eq_refl). reflexivity. Qed.

  Lemma kv_get_del_same (st : kv V) k : kv_get (kv_del st k) k = None.
  Proof. unfold kv_get, kv_del. rewrite (proj2 (key_eqb_spec k k) eq_refl). reflexivity. Qed.

  Lemma kv_get_set_other (st : kv V) k k' v : k <> k' -> kv_get (kv_set st k v) k' = kv_get st k'.
  Proof.
    intros Hn. unfold kv_get, kv_set. destruct (key_eqb k k') eqn:E; [|reflexivity].
    apply key_eqb_spec in E. contradiction.
  Qed.

  Lemma kv_get_del_other (st : kv V) k k' : k <> k' -> kv_get (kv_del st k) k' = kv_get st k'.
  Proof.
    intros Hn. unfold kv_get, kv_del. destruct (key_eqb k k') eqn:E; [|reflexivity].
    apply key_eqb_spec in E. contradiction.
  Qed.

  Theorem ent_isolated (st : kv V) k1 k2 v :
    wf_ent_key k1 = true -> wf_ent_key k2 = true -> k1 <> k2 ->
    kv_get (kv_set st (ent_encode k1) v) (ent_encode k2) = kv_get st (ent_encode k2) /\
    kv_get (kv_del st (ent_encode k1)) (ent_encode k2) = kv_get st (ent_encode k2).
  Proof.
    intros W1 W2 Hn.
    assert (ent_encode k1 <> ent_encode k2) by (intro E; apply Hn, ent_injective; assumption).
    split; [apply kv_get_set_other | apply kv_get_del_other]; assumption.
  Qed.

  Theorem reg_isolated (st : kv V) k1 k2 v :
    wf_reg_key k1 = true -> wf_reg_key k2 = true -> k1 <> k2 ->
    kv_get (kv_set st (reg_encode k1) v) (reg_encode k2) = kv_get st (reg_encode k2) /\
    kv_get (kv_del st (reg_encode k1)) (reg_encode k2) = kv_get st (reg_encode k2).
  Proof.
    intros W1 W2 Hn.
    assert (reg_encode k1 <> reg_encode k2) by (intro E; apply Hn, reg_injective; assumption).
    split; [apply kv_get_set_other | apply kv_get_del_other]; assumption.
  Qed.

  Theorem str_isolated (st : kv V) k1 k2 v :
    wf_str_key k1 = true -> wf_str_key k2 = true -> k1 <> k2 ->
    kv_get (kv_set st (str_encode k1) v) (str_encode k2) = kv_get st (str_encode k2) /\
    kv_get (kv_del st (str_encode k1)) (str_encode k2) = kv_get st (str_encode k2).
  Proof.
    intros W1 W2 Hn.
    assert (str_encode k1 <> str_encode k2) by (intro E; apply Hn, str_injective; assumption).
    split; [apply kv_get_set_other | apply kv_get_del_other]; assumption.
  Qed.
End Isolation.
