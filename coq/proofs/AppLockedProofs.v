(* C05 (locked eFUND is spent only as WRKChain/BEACON fees), and the application-level parts of
   C04 (no user transaction moves the enterprise escrow except by fee unlocking) and
   C10 (only stream operations move the stream escrow). *)
From MC Require Import lib.Prelude lib.AMap model.Bank model.Stream model.StreamSpec model.Registry
  model.RegistrySpec model.Enterprise model.EnterpriseSpec model.App model.AppSpec.
From MC Require Import proofs.BankProofs proofs.StreamProofs proofs.EnterpriseProofs proofs.EnterpriseC03
  proofs.EnterpriseC04 proofs.AppFrame proofs.AppAuthProofs proofs.AppFeeProofs proofs.AppParamsProofs
  proofs.AppInv proofs.AppSupplyProofs.
From Coq Require Import ZifyBool.
Ltac Zify.zify_post_hook ::= Z.div_mod_to_equations.
Local Open Scope Z_scope.

(* ================================================================= *)
(* the books only move in the ante stage                             *)
(* ================================================================= *)

Theorem messages_never_move_locked f a m a' :
  exec_msg f a m = Ok a' ->
  e_locked (a_ent a') = e_locked (a_ent a) /\ e_spent (a_ent a') = e_spent (a_ent a) /\
  e_totlocked (a_ent a') = e_totlocked (a_ent a) /\ e_totspent (a_ent a') = e_totspent (a_ent a).
Proof.
  intros H. pose proof (exec_msg_books f a m a' H) as B. unfold books in B.
  injection B as -> -> -> ->. auto.
Qed.

Lemma exec_all_books a t a' : exec_all a t = Ok a' -> books (a_ent a') = books (a_ent a).
Proof.
  apply (exec_all_rel (fun a a' => books (a_ent a') = books (a_ent a)) (fun _ => True)); auto.
  - intros; congruence.
  - intros f0 a0 m0 a1 X _ H. eapply exec_leaf_books; eauto.
Qed.

Lemma exec_all_xfer_user a t a' :
  Forall msg_wf (tx_msgs t) -> exec_all a t = Ok a' -> xfer q_user (a_bank a) (a_bank a').
Proof.
  intros F. rewrite Forall_forall in F.
  apply (exec_all_rel (fun a a' => xfer q_user (a_bank a) (a_bank a')) msg_wf); auto.
  - intros; apply xf_refl.
  - intros; eapply xfer_trans; eauto.
  - intros f0 a0 m0 a1 X Wm H. eapply xfer_mono; [|eapply exec_leaf_xfer; eauto].
    intros x y. apply q_leaf_user. apply msg_wf_signer; exact Wm.
  - intros; eapply msg_wf_inner; eauto.
Qed.

Lemma books_amounts e e' x :
  books e' = books e ->
  snd (locked_coin e' x) = snd (locked_coin e x) /\ snd (spent_coin e' x) = snd (spent_coin e x).
Proof.
  unfold books. intros [= El Es _ _]. rewrite !snd_locked_coin, !snd_spent_coin.
  unfold amount_coin. rewrite El, Es. auto.
Qed.

(* ================================================================= *)
(* the unlock rule                                                   *)
(* ================================================================= *)

(* what a stage did to the books and the escrow, summarised by the one number [u] it unlocked *)
Definition unlocked_by (a a1 : app) (t : tx) (u : Z) : Prop :=
  let d := ep_denom (e_params (a_ent a)) in
  let L := snd (locked_coin (a_ent a) (tx_payer t)) in
  let f := fee_amount_of (tx_fee t) d in
  0 <= u <= L /\
  (u <> 0 -> is_registry_tx t = true /\ u = Z.min f L) /\
  (forall x, snd (locked_coin (a_ent a1) x) = snd (locked_coin (a_ent a) x) - (if x =? tx_payer t then u else 0)) /\
  (forall x, snd (spent_coin (a_ent a1) x) = snd (spent_coin (a_ent a) x) + (if x =? tx_payer t then u else 0)) /\
  (forall d', balance (a_bank a1) ENT_MACC d' = balance (a_bank a) ENT_MACC d' - (if d' =? d then u else 0)) /\
  snd (total_locked (a_ent a1)) = snd (total_locked (a_ent a)) - u /\
  snd (total_spent (a_ent a1)) = snd (total_spent (a_ent a)) + u.

Lemma unlocked_by_zero a t : app_inv a -> unlocked_by a a t 0.
Proof.
  intros I. unfold unlocked_by.
  pose proof (locked_coin_ok _ _ (tx_payer t) (inv_s _ (ai_ent a I))) as [_ L0]. cbn [w_ent ew] in L0.
  repeat split; try lia; try congruence.
  - intros x. destruct (x =? tx_payer t); lia.
  - intros x. destruct (x =? tx_payer t); lia.
  - intros d'. destruct (d' =? ep_denom (e_params (a_ent a))); lia.
Qed.

Lemma unlock_state_amounts s payer u x :
  snd (locked_coin (unlock_state s payer u) x) = snd (locked_coin s x) - (if x =? payer then u else 0) /\
  snd (spent_coin (unlock_state s payer u) x) = snd (spent_coin s x) + (if x =? payer then u else 0).
Proof.
  destruct (unlock_state_books s payer u) as (A1 & A2 & _ & _ & Ao & _).
  rewrite !snd_locked_coin, !snd_spent_coin.
  destruct (x =? payer) eqn:E.
  - apply Z.eqb_eq in E. subst x. unfold amount_coin in *. split; [exact A1 | exact A2].
  - apply Z.eqb_neq in E. destruct (Ao x E) as [B1 B2]. unfold amount_coin. rewrite B1, B2. split; lia.
Qed.

Lemma unlock_ante_rule a t au :
  unlock_ante a t = Ok au -> app_inv a -> 0 <= tx_payer t -> coins_valid (tx_fee t) = true ->
  NoDup (map fst (tx_fee t)) -> exists u, unlocked_by a au t u.
Proof.
  unfold unlock_ante. intros H I Hp Cv Nd.
  destruct (is_registry_tx t) eqn:R; cbn [andb] in H.
  2:{ injection H as <-. exists 0. apply unlocked_by_zero; auto. }
  destruct (0 <? snd (locked_coin (a_ent a) (tx_payer t))) eqn:Lp.
  2:{ injection H as <-. exists 0. apply unlocked_by_zero; auto. }
  dobind H. destruct a0 as [b' e']. injection H as <-.
  pose proof (inv_s _ (ai_ent a I)) as Si. cbn [w_ent w_now ew] in Si.
  pose proof (inv_escrow0 _ (ai_ent a I)) as E0. cbn [w_ent w_bank ew] in E0.
  pose proof (coins_valid_pos _ Cv) as Pos.
  destruct (unlock_ok_inv _ _ _ _ _ _ _ Si E0 Pos Nd E) as (_ & Cases). cbv zeta in Cases.
  set (s := a_ent a) in *. set (payer := tx_payer t) in *.
  set (L := snd (locked_coin s payer)) in *. set (f := fee_amount_of (tx_fee t) (dn s)) in *.
  assert (forall u b1, bank_send (a_bank a) ENT_MACC payer (dn s) u = Ok b1 -> 0 <= u <= L ->
                       (u <> 0 -> u = Z.min f L) ->
                       unlocked_by a (with_ent a b1 (unlock_state s payer u)) t u) as Build.
  { intros u b1 Sd Hu Hm. unfold unlocked_by. cbn [a_ent a_bank with_ent]. fold s payer L.
    destruct (unlock_state_books s payer u) as (_ & _ & T1 & T2 & _).
    apply bank_send_inv in Sd as (_ & _ & (Mv & _)).
    repeat split; auto; try lia.
    - intros x. apply (unlock_state_amounts s payer u x).
    - intros x. apply (unlock_state_amounts s payer u x).
    - intros d'. rewrite Mv. change (ep_denom (e_params s)) with (dn s).
      assert ((ENT_MACC =? payer) = false) as Ne by (unfold ENT_MACC; lia).
      rewrite Ne, Z.eqb_refl. cbn [andb]. destruct (d' =? dn s); lia. }
  assert (0 <= L) as L0 by lia.
  destruct Cases as [(C1 & Fe & Sd & ->)|[(C2 & Sd & ->)|(C3 & C4 & -> & ->)]].
  - exists f. apply Build; auto; [|lia].
    assert (0 < f). { rewrite Fe in Pos. inversion Pos; subst. cbn [snd] in *. lia. }
    lia.
  - exists L. apply Build; auto; lia.
  - exists 0. replace (with_ent a (a_bank a) s) with a by (destruct a; reflexivity).
    apply unlocked_by_zero; auto.
Qed.

Lemma ante_rule check a t a1 :
  ante check a t = Ok a1 -> app_inv a -> tx_wf t -> 0 <= tx_payer t -> exists u, unlocked_by a a1 t u.
Proof.
  intros H I W Hp.
  destruct (ante_stages check a t a1 H) as (Cv & _ & _ & _ & au & U & D).
  destruct (unlock_ante_rule a t au U I Hp Cv (tw_fee t W)) as (u & Hu & Hm & Hl & Hs & Hb & Ht & Hts).
  destruct (deduct_fee_xfer au t a1 D) as (XF & Ee & _).
  exists u. unfold unlocked_by. rewrite Ee.
  refine (conj Hu (conj Hm (conj Hl (conj Hs (conj _ (conj Ht Hts)))))).
  intros d'. rewrite <- Hb.
  apply xfer_other with (Q := q_fee t); [exact XF|].
  pose proof (fee_payer_nonneg t Hp (tw_granter t W)) as Fp.
  unfold q_fee, ENT_MACC, FEE_COLLECTOR. intros x y [-> ->]. split; lia.
Qed.

Lemma unlocked_by_after a a1 a2 t u :
  unlocked_by a a1 t u -> books (a_ent a2) = books (a_ent a1) ->
  e_params (a_ent a2) = e_params (a_ent a1) ->
  (forall d, balance (a_bank a2) ENT_MACC d = balance (a_bank a1) ENT_MACC d) ->
  unlocked_by a a2 t u.
Proof.
  intros (Hu & Hm & Hl & Hs & Hb & Ht & Hts) B P Be. unfold unlocked_by.
  assert (snd (total_locked (a_ent a2)) = snd (total_locked (a_ent a1)) /\
          snd (total_spent (a_ent a2)) = snd (total_spent (a_ent a1))) as [T1 T2].
  { unfold books in B. injection B as _ _ Etl Ets. unfold total_locked, total_spent. rewrite Etl, Ets, P. auto. }
  refine (conj Hu (conj Hm (conj _ (conj _ (conj _ (conj _ _)))))).
  - intros x. rewrite (proj1 (books_amounts _ _ x B)). apply Hl.
  - intros x. rewrite (proj2 (books_amounts _ _ x B)). apply Hs.
  - intros d. rewrite Be. apply Hb.
  - lia.
  - lia.
Qed.

(* DeliverTx as a whole *)
Theorem deliver_rule a t a' r :
  deliver_tx a t = (a', r) -> app_inv a -> tx_wf t ->
  exists u, unlocked_by a a' t u /\ (u <> 0 -> exists a1, ante false a t = Ok a1).
Proof.
  unfold deliver_tx. intros H I W.
  assert (exists u, unlocked_by a a t u /\ (u <> 0 -> exists a1, ante false a t = Ok a1)) as Z0.
  { exists 0. split; [apply unlocked_by_zero; auto | congruence]. }
  destruct (validate_all t) as [u0|c|c] eqn:V; try (injection H as <- _; exact Z0).
  apply validate_all_unit in V. pose proof (validate_all_payer t V (tw_msgs t W)) as Hp.
  destruct (ante false a t) as [a1|c|c] eqn:A; try (injection H as <- _; exact Z0).
  destruct (ante_rule false a t a1 A I W Hp) as (u & Hu).
  exists u. split; [|eauto].
  destruct (exec_all a1 t) as [a2|c|c] eqn:E; injection H as <- _; auto.
  apply unlocked_by_after with a1; auto.
  - eapply exec_all_books; eauto.
  - destruct (ante_inv false a t a1 A Hp W I) as [I1 _].
    pose proof (exec_all_user_frame a1 t a2 E) as F.
    assert (forall m, In m (tx_msgs t) -> 0 <= msg_signer m) as Sg.
    { intros m Hm. apply msg_wf_signer. pose proof (tw_msgs t W) as Fw. rewrite Forall_forall in Fw. auto. }
    destruct (F Sg (ai_grants a1 I1)) as [_ Pp]. unfold params_of in Pp. congruence.
  - apply xfer_other with (Q := q_user); [eapply exec_all_xfer_user; eauto; apply W|].
    intros x y. apply q_user_not_ent.
Qed.

Theorem check_rule a t a' r :
  check_tx a t = (a', r) -> app_inv a -> tx_wf t ->
  exists u, unlocked_by a a' t u /\ (u <> 0 -> r = TxOk /\ ante true a t = Ok a').
Proof.
  unfold check_tx. intros H I W.
  assert (exists u, unlocked_by a a t u /\ (u <> 0 -> r = TxOk /\ ante true a t = Ok a)) as Z0.
  { exists 0. split; [apply unlocked_by_zero; auto | congruence]. }
  destruct (validate_all t) as [u0|c|c] eqn:V; try (injection H as <- _; exact Z0).
  apply validate_all_unit in V. pose proof (validate_all_payer t V (tw_msgs t W)) as Hp.
  destruct (ante true a t) as [a1|c|c] eqn:A; try (injection H as <- _; exact Z0).
  injection H as <- <-.
  destruct (ante_rule true a t a1 A I W Hp) as (u & Hu). exists u. auto.
Qed.

(* the statement of the property, account by account *)
Definition unlock_rule_at (check : bool) (a a' : app) (t : tx) : Prop :=
  forall x,
    let l := snd (locked_coin (a_ent a) x) in
    let l' := snd (locked_coin (a_ent a') x) in
    l' <= l /\
    (l' < l ->
       x = tx_payer t /\ is_registry_tx t = true /\ (exists a1, ante check a t = Ok a1) /\
       l - l' = Z.min (fee_amount_of (tx_fee t) (ep_denom (e_params (a_ent a)))) l /\
       snd (spent_coin (a_ent a') x) - snd (spent_coin (a_ent a) x) = l - l').

Lemma unlocked_by_rule check a a' t u :
  unlocked_by a a' t u -> (u <> 0 -> exists a1, ante check a t = Ok a1) -> unlock_rule_at check a a' t.
Proof.
  intros (Hu & Hm & Hl & Hs & _) Ha x. cbv zeta. rewrite Hl, Hs.
  destruct (x =? tx_payer t) eqn:E.
  - apply Z.eqb_eq in E. subst x. split; [lia|]. intros Lt.
    assert (u <> 0) as Nz by lia. destruct (Hm Nz) as [R Mn].
    repeat split; auto; lia.
  - split; [lia|]. intros Lt. lia.
Qed.

Theorem unlock_rule a t a' r :
  app_inv a -> tx_wf t -> deliver_tx a t = (a', r) -> unlock_rule_at false a a' t.
Proof.
  intros I W H. destruct (deliver_rule a t a' r H I W) as (u & Hu & Ha).
  eapply unlocked_by_rule; eauto.
Qed.

Theorem check_tx_same_rule a t a' r :
  app_inv a -> tx_wf t -> check_tx a t = (a', r) -> unlock_rule_at true a a' t.
Proof.
  intros I W H. destruct (check_rule a t a' r H I W) as (u & Hu & Ha).
  eapply unlocked_by_rule; eauto. intros Nz. destruct (Ha Nz) as [_ A]. eauto.
Qed.

Theorem rejected_tx_changes_nothing a t a' r :
  deliver_tx a t = (a', r) ->
  (exists c, r = TxRejected c \/ r = TxPanicked 0 c \/ r = TxPanicked 1 c) -> a' = a.
Proof.
  intros H (c & [R | [R | R]]); subst r; exact (failed_tx_atomic a t a' _ H).
Qed.

(* order completion leaves every ordinary account's liquid balance as it was *)
Theorem completion_keeps_spendable a now a' :
  app_inv a -> begin_wf a now -> begin_block a now = Some a' ->
  forall x d, 0 <= x -> balance (a_bank a') x d = balance (a_bank a) x d.
Proof.
  intros I W H x d Hx. destruct (begin_block_inv a now a' H) as (b1 & e1 & E & St & ->).
  pose proof (begin_op_wf a now W) as Wo.
  destruct (begin_completes_accepted _ _ _ (ai_ent a I) Wo St) as (_ & _ & _ & _ & Bo). cbn [w_bank ew] in Bo.
  cbn [a_bank with_ent]. rewrite (xfer_other q_sweep b1 (sweep_fees b1) x (sweep_fees_xfer b1)).
  - apply Bo. unfold ENT_MACC. lia.
  - intros f t q. destruct (q_sweep_parties f t q) as (_ & _ & _ & _ & ? & ?). split; lia.
Qed.

(* what completion does to the locked balances: + the accepted amounts, per purchaser *)
Theorem completion_locks a now a' :
  app_inv a -> begin_wf a now -> begin_block a now = Some a' ->
  forall x, snd (locked_coin (a_ent a') x) - snd (locked_coin (a_ent a) x) =
            asum (fun o => if (po_status o =? ST_ACCEPTED) && (po_purchaser o =? x) then po_amount o else 0)
                 (e_pos (a_ent a)).
Proof.
  intros I W H x. destruct (begin_block_inv a now a' H) as (b1 & e1 & E & St & ->).
  pose proof (begin_op_wf a now W) as Wo.
  destruct (begin_completes_accepted _ _ _ (ai_ent a I) Wo St) as (_ & Hl & _). cbn [w_ent ew] in Hl.
  cbn [a_ent with_ent]. rewrite !snd_locked_coin. apply Hl.
Qed.

(* ================================================================= *)
(* C04, application level                                            *)
(* ================================================================= *)

Theorem user_tx_cannot_move_escrow a t a' r :
  app_inv a -> tx_wf t -> deliver_tx a t = (a', r) ->
  let d := ep_denom (e_params (a_ent a)) in
  let l := snd (locked_coin (a_ent a) (tx_payer t)) in
  let l' := snd (locked_coin (a_ent a') (tx_payer t)) in
  (forall d', balance (a_bank a') ENT_MACC d' = balance (a_bank a) ENT_MACC d' - (if d' =? d then l - l' else 0)) /\
  0 <= l - l' /\
  (forall d', balance (a_bank a') ENT_MACC d' <> balance (a_bank a) ENT_MACC d' ->
     d' = d /\ is_registry_tx t = true /\ (exists a1, ante false a t = Ok a1) /\
     l - l' = Z.min (fee_amount_of (tx_fee t) d) l).
Proof.
  intros I W H. cbv zeta.
  destruct (deliver_rule a t a' r H I W) as (u & (Hu & Hm & Hl & Hs & Hb & _) & Ha).
  rewrite (Hl (tx_payer t)), Z.eqb_refl.
  replace (snd (locked_coin (a_ent a) (tx_payer t)) - (snd (locked_coin (a_ent a) (tx_payer t)) - u)) with u by lia.
  split; [exact Hb|]. split; [lia|].
  intros d' Ne. rewrite Hb in Ne.
  destruct (d' =? ep_denom (e_params (a_ent a))) eqn:Ed; [|lia].
  apply Z.eqb_eq in Ed. assert (u <> 0) as Nz by lia. destruct (Hm Nz) as [R Mn]. auto.
Qed.

Theorem user_msgs_never_touch_escrow f a m a' :
  msg_wf m -> exec_msg f a m = Ok a' ->
  forall d, balance (a_bank a') ENT_MACC d = balance (a_bank a) ENT_MACC d.
Proof.
  intros W H. apply xfer_other with (Q := q_user).
  - exact (exec_msg_xfer_user f a m a' W H).
  - exact q_user_not_ent.
Qed.

Definition books_clauses (a : app) : Prop :=
  let s := a_ent a in
  let d := ep_denom (e_params s) in
  balance (a_bank a) ENT_MACC d = snd (total_locked s) /\
  snd (total_locked s) = asum snd (e_locked s) /\
  snd (total_spent s) = asum snd (e_spent s) /\
  (forall x, amount_coin s x (e_locked s) + amount_coin s x (e_spent s) = completed_sum s x) /\
  (forall d', d' <> d -> balance (a_bank a) ENT_MACC d' = 0) /\
  fst (total_locked s) = d /\ fst (total_spent s) = d /\
  0 <= snd (total_locked s) /\ 0 <= snd (total_spent s) /\
  (forall x c, aget x (e_locked s) = Some c -> fst c = d /\ 0 <= snd c) /\
  (forall x c, aget x (e_spent s) = Some c -> fst c = d /\ 0 <= snd c).

Lemma app_inv_books a : app_inv a -> books_clauses a.
Proof. intros I. exact (books_balance (ew a) (ai_ent a I)). Qed.

Theorem books_balance_reachable_app g h n :
  app_inv g -> hist_wf (node_init g) h -> node_run (node_init g) h = Some n ->
  books_clauses (n_committed n) /\ books_clauses (n_check n) /\
  match n_deliver n with Some a => books_clauses a | None => True end.
Proof.
  intros I W H. destruct (app_inv_node_run g h n I W H) as (Ic & Ik & Id).
  split; [apply app_inv_books; auto | split; [apply app_inv_books; auto|]].
  destruct (n_deliver n); [apply app_inv_books; auto | trivial].
Qed.

(* ================================================================= *)
(* C10, application level                                            *)
(* ================================================================= *)

Theorem only_stream_ops_move_escrow f a m a' :
  msg_wf m -> no_str m = true -> exec_msg f a m = Ok a' ->
  forall d, balance (a_bank a') STREAM_MACC d = balance (a_bank a) STREAM_MACC d.
Proof.
  intros W Ns H. apply xfer_other with (Q := q_send).
  - eapply exec_msg_xfer_send; eauto.
  - intros x y. apply q_send_not_stream.
Qed.

Theorem ante_keeps_stream_escrow check a t a1 :
  ante check a t = Ok a1 -> 0 <= tx_payer t -> (forall g, tx_granter t = Some g -> 0 <= g) ->
  forall d, balance (a_bank a1) STREAM_MACC d = balance (a_bank a) STREAM_MACC d.
Proof.
  intros H Hp Hg. apply xfer_other with (Q := q_ante t); [eapply ante_xfer; eauto|].
  pose proof (fee_payer_nonneg t Hp Hg) as Fp.
  unfold q_ante, q_unlock, q_fee, STREAM_MACC, ENT_MACC, FEE_COLLECTOR.
  intros x y [[-> ->]|[-> ->]]; split; lia.
Qed.

Theorem begin_block_keeps_stream_escrow a now a' :
  app_inv a -> begin_wf a now -> begin_block a now = Some a' ->
  forall d, balance (a_bank a') STREAM_MACC d = balance (a_bank a) STREAM_MACC d.
Proof.
  intros I W H d. destruct (begin_block_inv a now a' H) as (b1 & e1 & E & St & ->).
  pose proof (begin_op_wf a now W) as Wo.
  destruct (begin_completes_accepted _ _ _ (ai_ent a I) Wo St) as (_ & _ & _ & _ & Bo). cbn [w_bank ew] in Bo.
  cbn [a_bank with_ent]. rewrite (xfer_other q_sweep b1 (sweep_fees b1) STREAM_MACC (sweep_fees_xfer b1)).
  - apply Bo. discriminate.
  - intros f t q. destruct (q_sweep_parties f t q) as (_ & _ & ? & ? & _). split; congruence.
Qed.

(* governance parameter updates do not touch the bank at all *)
Lemma exec_proposal_params_bank a ms :
  (forall m, In m ms -> is_param_update m = true) -> a_bank (exec_proposal a ms) = a_bank a.
Proof.
  intros W. rewrite exec_proposal_ofold.
  destruct (ofold (fun a1 m => exec_msg (S (S (msg_depth m))) a1 m) ms (Ok a)) as [a'|?|?] eqn:E; auto.
  revert E. apply (ofold_rel (fun a1 m => exec_msg (S (S (msg_depth m))) a1 m)
    (fun a a' => a_bank a' = a_bank a) (fun m => is_param_update m = true)); auto.
  - intros; congruence.
  - intros a0 m a1 Pm H. destruct m; try discriminate Pm.
    exact (exec_leaf_bank _ a0 (MUpdParams authority u) a1 eq_refl H).
Qed.

Theorem end_block_params_keeps_bank props : forall a,
  (forall ms m, In ms props -> In m ms -> is_param_update m = true) -> a_bank (end_block a props) = a_bank a.
Proof.
  unfold end_block. induction props as [|ms rest IH]; intros a W; cbn [fold_left]; [reflexivity|].
  rewrite IH.
  - apply exec_proposal_params_bank. intros m Hm. apply (W ms m); [left; reflexivity | exact Hm].
  - intros ms' m H1 H2. apply (W ms' m); [right; exact H1 | exact H2].
Qed.

(* a whole transaction without stream messages *)
Theorem tx_without_stream_keeps_escrow a t a' r :
  deliver_tx a t = (a', r) -> tx_wf t -> forallb no_str (tx_msgs t) = true ->
  forall d, balance (a_bank a') STREAM_MACC d = balance (a_bank a) STREAM_MACC d.
Proof.
  unfold deliver_tx. intros H W Ns d.
  destruct (validate_all t) as [u0|c|c] eqn:V; try (injection H as <- _; reflexivity).
  apply validate_all_unit in V. pose proof (validate_all_payer t V (tw_msgs t W)) as Hp.
  destruct (ante false a t) as [a1|c|c] eqn:A; try (injection H as <- _; reflexivity).
  pose proof (ante_keeps_stream_escrow false a t a1 A Hp (tw_granter t W) d) as E1.
  destruct (exec_all a1 t) as [a2|c|c] eqn:E; injection H as <- _; auto.
  rewrite <- E1. apply xfer_other with (Q := q_send); [|intros x y; apply q_send_not_stream].
  revert E. apply (exec_all_rel (fun a a' => xfer q_send (a_bank a) (a_bank a')) (fun m => msg_wf m /\ no_str m = true)).
  - intros; apply xf_refl.
  - intros; eapply xfer_trans; eauto.
  - intros f0 a0 m0 a3 X Wm H. eapply exec_msg_xfer_send; eauto.
  - intros g inner i [Wm Nm] Hi. split; [eapply msg_wf_inner; eauto | eapply no_str_inner; eauto].
  - intros m Hm. pose proof (tw_msgs t W) as Fw. rewrite Forall_forall in Fw.
    rewrite forallb_forall in Ns. auto.
Qed.

Theorem escrow_backed_reachable_app g h n :
  app_inv g -> hist_wf (node_init g) h -> node_run (node_init g) h = Some n ->
  escrow_backed (a_bank (n_committed n)) (a_str (n_committed n)) /\
  escrow_backed (a_bank (n_check n)) (a_str (n_check n)) /\
  match n_deliver n with Some a => escrow_backed (a_bank a) (a_str a) | None => True end.
Proof.
  intros I W H. destruct (app_inv_node_run g h n I W H) as (Ic & Ik & Id).
  split; [apply (si_backed _ _ _ (ai_str _ Ic)) | split; [apply (si_backed _ _ _ (ai_str _ Ik))|]].
  destruct (n_deliver n); [apply (si_backed _ _ _ (ai_str _ Id)) | trivial].
Qed.
