(* The keeper and message-server code generated from /repo/x/stream/keeper/{stream,msg_server}.go
   (coq/GeneratedStreamKeeper.v, re-generated on every run, written against model/StreamKeeperPrims.v)
   computes exactly what the hand-written model of model/Stream.v computes, on every state satisfying the
   invariant [str_inv] (which every reachable state satisfies: proofs/StreamProofs.v).

   Structure (so that the proofs survive a harmless re-generation):
     part 1  facts about the primitives of model/StreamKeeperPrims.v and lib/GoSdk.v, each proved separately;
     part 2  a tactic that walks any body built from those primitives: it never mentions a temporary of the
             generated file, nor the nesting of its tests;
     part 3  the keeper functions;
     part 4  the message server, steps and runs. *)
From Coq Require Import ZifyBool.
From MC Require Import lib.Prelude lib.AMap lib.GoSdk GeneratedFns GeneratedStreamTypes model.Bank model.Stream
  model.StreamSpec model.StreamKeeperPrims GeneratedStreamKeeper model.StreamGenSpec.
From MC Require Import proofs.StreamArith proofs.BankProofs proofs.StreamProofs proofs.GeneratedFnsEq.
Local Open Scope Z_scope.

(* ------------------------------------------------------------------------------------------ *)
(* part 1: the primitives                                                                     *)
(* ------------------------------------------------------------------------------------------ *)

(* --- times --- *)
Lemma time_storable_bounds t : time_storable t = true -> TS_MIN <= unix t <= TS_MAX.
Proof. unfold time_storable. intros H. apply andb_true_iff in H. lia. Qed.

Lemma storable_diff a b : time_storable a = true -> time_storable b = true ->
  - two63 < Time_Unix a - Time_Unix b < two63.
Proof.
  intros Ha Hb. apply time_storable_bounds in Ha, Hb. rewrite Time_Unix_eq.
  unfold TS_MIN, TS_MAX in *. unfold two63. lia.
Qed.

Lemma Time_Before_or_Equal a b : (Time_Before a b || Time_Equal a b)%bool = (a <=? b).
Proof. unfold Time_Before, Time_Equal. lia. Qed.

Lemma Time_epoch : Time_UTC (Time_FromUnix 0 0) = 0.
Proof. reflexivity. Qed.

Lemma Time_UTC_id t : Time_UTC t = t.
Proof. reflexivity. Qed.

(* --- sdk.Coin: stated over a coin [c], so that the lemmas apply whatever alias types the pair carries --- *)
Lemma Coin_invalid (c : go_coin) :
  (Coin_IsNil c || Coin_IsNegative c || Coin_IsZero c)%bool = (snd c <=? 0).
Proof. unfold Coin_IsNil, Coin_IsNegative, Coin_IsZero. lia. Qed.

Lemma Coin_nil_or_negative (c : go_coin) : (Coin_IsNil c || Coin_IsNegative c)%bool = (snd c <? 0).
Proof. reflexivity. Qed.

Lemma Coin_IsLT_same (a b : go_coin) : fst a = fst b -> Coin_IsLT a b = Ok (snd a <? snd b).
Proof. intros E. unfold Coin_IsLT. rewrite E, Z.eqb_refl. reflexivity. Qed.

Lemma Coin_Add_same (a b : go_coin) : fst a = fst b -> Coin_Add a b = Ok (fst a, snd a + snd b).
Proof. intros E. unfold Coin_Add. rewrite E, Z.eqb_refl. reflexivity. Qed.

Lemma sdk_NewCoins1_pos (c : go_coin) : 0 < snd c -> sdk_NewCoins1 c = Ok [c].
Proof.
  intros H. unfold sdk_NewCoins1. destruct (snd c <? 0) eqn:E1; [lia|]. destruct (snd c =? 0) eqn:E2; [lia|].
  reflexivity.
Qed.

Lemma sdk_NewCoins1_zero (c : go_coin) : snd c = 0 -> sdk_NewCoins1 c = Ok [].
Proof. intros H. unfold sdk_NewCoins1. rewrite H. reflexivity. Qed.

(* --- the generated pure functions (proofs/GeneratedFnsEq.v), over a coin --- *)
Lemma CalculateDuration_coin (c : go_coin) rate : - two63 <= rate < two63 ->
  go_CalculateDuration c rate = calculate_duration (snd c) rate.
Proof. destruct c as [d a]. apply gen_CalculateDuration_eq. Qed.

Lemma CalculateAmountToClaim_coin now dzt lot (c : go_coin) rate :
  0 <= rate -> time_storable now = true -> time_storable lot = true ->
  go_CalculateAmountToClaim now dzt lot c rate =
    Ok ((fst c, fst (calculate_amount_to_claim now dzt lot (snd c) rate)),
        (fst c, snd (calculate_amount_to_claim now dzt lot (snd c) rate))).
Proof.
  intros Hr Hn Hl. destruct c as [d a]. apply gen_CalculateAmountToClaim_eq_strong; [exact Hr|].
  apply storable_diff; assumption.
Qed.

Lemma CalculateValidatorFee_coin vf (c : go_coin) : 0 <= vf <= DEC_ONE -> 0 <= snd c ->
  go_CalculateValidatorFee vf c =
    Ok ((fst c, fst (calculate_validator_fee vf (snd c))), (fst c, snd (calculate_validator_fee vf (snd c)))).
Proof. intros Hv Hc. destruct c as [d a]. apply gen_CalculateValidatorFee_eq; assumption. Qed.

(* --- x/bank over one coin --- *)
Lemma send_all_nil b f t : send_all b f t [] = Ok b.
Proof. reflexivity. Qed.

Lemma send_all_one b f t (c : go_coin) : send_all b f t [c] = bank_send b f t (fst c) (snd c).
Proof. cbn [send_all]. destruct (bank_send b f t (fst c) (snd c)); reflexivity. Qed.

Lemma bank_m2m_one w f t (c : go_coin) :
  bank_SendCoinsFromModuleToModule w f t [c] =
    do b <- bank_send (kw_bank w) f t (fst c) (snd c); Ok (with_bank w b, tt).
Proof. unfold bank_SendCoinsFromModuleToModule. rewrite send_all_one. reflexivity. Qed.

Lemma bank_a2m_one w f t (c : go_coin) :
  bank_SendCoinsFromAccountToModule w f t [c] =
    do b <- bank_send (kw_bank w) f t (fst c) (snd c); Ok (with_bank w b, tt).
Proof. unfold bank_SendCoinsFromAccountToModule. rewrite send_all_one. reflexivity. Qed.

Lemma bank_m2a_one w f t (c : go_coin) :
  bank_SendCoinsFromModuleToAccount w f t [c] =
    do b <- bank_send_m2a (kw_bank w) f t (fst c) (snd c); Ok (with_bank w b, tt).
Proof.
  unfold bank_SendCoinsFromModuleToAccount, bank_send_m2a. rewrite send_all_one.
  destruct (blocked t); reflexivity.
Qed.

(* --- the store --- *)
Lemma str_GetStream_world now b s r sn :
  str_GetStream (world now b s) r sn =
    match aget (r, sn) (s_streams s) with Some st => (to_go_stream st, true) | None => (zero_go_Stream, false) end.
Proof. reflexivity. Qed.

Lemma str_IsStream_world now b s r sn : str_IsStream (world now b s) r sn = ahas (r, sn) (s_streams s).
Proof. reflexivity. Qed.

Lemma str_SetStream_world now b s r sn g :
  str_SetStream (world now b s) r sn g = do s' <- set_stream s r sn (of_go_stream g); Ok (world now b s', tt).
Proof. reflexivity. Qed.

Lemma str_DeleteStream_world now b s r sn :
  str_DeleteStream (world now b s) r sn = Ok (world now b (with_streams s (adel (r, sn) (s_streams s))), tt).
Proof. reflexivity. Qed.

Lemma of_to_go_stream st : of_go_stream (to_go_stream st) = st.
Proof. destruct st; reflexivity. Qed.

Lemma with_bank_world now b s b' : with_bank (world now b s) b' = world now b' s.
Proof. reflexivity. Qed.

Lemma with_str_world now b s s' : with_str (world now b s) s' = world now b s'.
Proof. reflexivity. Qed.

(* the error classes *)
Lemma stream_errs :
  stream_ErrInvalidData = ERR_INVALID_DATA /\ stream_ErrStreamDoesNotExist = ERR_INVALID_DATA /\
  stream_ErrStreamExists = ERR_INVALID_DATA /\ stream_ErrStreamNotCancellable = ERR_INVALID_DATA /\
  sdkerrors_ErrUnauthorized = ERR_UNAUTHORIZED.
Proof. repeat split. Qed.

(* ------------------------------------------------------------------------------------------ *)
(* part 2: walking a generated body                                                           *)
(* ------------------------------------------------------------------------------------------ *)

(* boolean tests met so far, as propositions *)
Ltac prop_tests :=
  repeat match goal with
         | H : (_ <? _) = true |- _ => apply Z.ltb_lt in H
         | H : (_ <? _) = false |- _ => apply Z.ltb_ge in H
         | H : (_ <=? _) = true |- _ => apply Z.leb_le in H
         | H : (_ <=? _) = false |- _ => apply Z.leb_gt in H
         | H : (_ =? _) = true |- _ => apply Z.eqb_eq in H
         | H : (_ =? _) = false |- _ => apply Z.eqb_neq in H
         | H : negb _ = true |- _ => apply negb_true_iff in H
         | H : negb _ = false |- _ => apply negb_false_iff in H
         end.

Ltac kside :=
  first [ assumption
        | solve [ prop_tests; first [ lia | split; lia | unfold two63 in *; lia ] ] ].

(* the names the walker may unfold: plumbing only, no arithmetic *)
Ltac knorm :=
  cbn [obind fst snd negb andb orb lift lift0 world kw_now kw_bank kw_str with_bank with_str
       to_go_stream of_go_stream claim_coins claimed
       Stream_Deposit Stream_FlowRate Stream_LastOutflowTime Stream_DepositZeroTime Stream_Cancellable
       set_Stream_Deposit set_Stream_FlowRate set_Stream_LastOutflowTime set_Stream_DepositZeroTime
       set_Stream_Cancellable Params_ValidatorFee
       st_denom st_deposit st_rate st_lot st_dzt st_cancellable s_valfee s_streams with_streams
       cr_receiver cr_fee cr_total cr_remaining
       Coin_Denom Coin_Amount
       MsgCreateStream_Receiver MsgCreateStream_Sender MsgCreateStream_Deposit MsgCreateStream_FlowRate
       MsgClaimStream_Sender MsgClaimStream_Receiver
       MsgClaimStreamResponse_TotalClaimed MsgClaimStreamResponse_StreamPayment
       MsgClaimStreamResponse_ValidatorFee MsgClaimStreamResponse_RemainingDeposit
       MsgTopUpDeposit_Receiver MsgTopUpDeposit_Sender MsgTopUpDeposit_Deposit
       MsgTopUpDepositResponse_DepositAmount MsgTopUpDepositResponse_CurrentDeposit
       MsgTopUpDepositResponse_DepositZeroTime
       MsgUpdateFlowRate_Receiver MsgUpdateFlowRate_Sender MsgUpdateFlowRate_FlowRate
       MsgCancelStream_Receiver MsgCancelStream_Sender
       MsgUpdateParams_Authority MsgUpdateParams_Params].

(* facts recorded in the context are used to rewrite the goal *)
Ltac kknown :=
  match goal with
  | H : ?x = Some _ |- context [?x] => rewrite H
  | H : ?x = None |- context [?x] => rewrite H
  | H : ?x = (_, _) |- context [?x] => rewrite H
  | H : ?x = Ok _ |- context [?x] => rewrite H
  | H : ?x = true |- context [?x] => rewrite H
  | H : ?x = false |- context [?x] => rewrite H
  end.

Ltac kcoin := cbn [fst snd]; first [ reflexivity | kside ].

Ltac kprim :=
  match goal with
  | |- context [Time_UTC ?t] => rewrite (Time_UTC_id t)
  | |- context [Time_FromUnix 0 0] => change (Time_FromUnix 0 0) with 0
  | |- context [(Time_Before ?a ?b || Time_Equal ?a ?b)%bool] => rewrite (Time_Before_or_Equal a b)
  | |- context [(Coin_IsNil ?c || Coin_IsNegative ?c || Coin_IsZero ?c)%bool] => rewrite (Coin_invalid c)
  | |- context [(Coin_IsNil ?c || Coin_IsNegative ?c)%bool] => rewrite (Coin_nil_or_negative c)
  | |- context [Coin_IsLT ?a ?b] => rewrite (Coin_IsLT_same a b) by kcoin
  | |- context [Coin_Add ?a ?b] => rewrite (Coin_Add_same a b) by kcoin
  | |- context [sdk_NewCoin ?d ?a] => rewrite (sdk_NewCoin_ok d a) by kcoin
  | |- context [sdk_NewCoins1 ?c] => rewrite (sdk_NewCoins1_pos c) by kcoin
  | |- context [bank_SendCoinsFromModuleToModule ?w ?f ?t [?c]] => rewrite (bank_m2m_one w f t c)
  | |- context [bank_SendCoinsFromAccountToModule ?w ?f ?t [?c]] => rewrite (bank_a2m_one w f t c)
  | |- context [bank_SendCoinsFromModuleToAccount ?w ?f ?t [?c]] => rewrite (bank_m2a_one w f t c)
  | |- context [go_CalculateDuration ?c ?r] => rewrite (CalculateDuration_coin c r) by kcoin
  | |- context [go_CalculateAmountToClaim ?now ?dzt ?lot ?c ?rate] =>
      rewrite (CalculateAmountToClaim_coin now dzt lot c rate) by kcoin
  | |- context [go_CalculateValidatorFee ?vf ?c] => rewrite (CalculateValidatorFee_coin vf c) by kcoin
  | |- context [go_addSeconds ?t ?s] => change (go_addSeconds t s) with (Ok (add_seconds t s))
  end.

(* split on the next test: innermost first, so that the two sides stay in step; a branch the recorded
   facts exclude is closed at once *)
(* a call whose result is not yet known: nothing inside it is left to split on *)
Ltac katom o :=
  lazymatch o with
  | Ok _ => fail | Err _ => fail | Panic _ => fail
  | context [obind _ _] => fail
  | context [lift _ _ _] => fail
  | context [lift0 _ _ _] => fail
  | context [if _ then _ else _] => fail
  | context [match _ with Some _ => _ | None => _ end] => fail
  | context [match _ with pair _ _ => _ end] => fail
  | _ => idtac
  end.

Ltac ksplit :=
  match goal with
  | |- context [if ?c then _ else _] =>
      lazymatch c with
      | context [if _ then _ else _] => fail
      | context [match _ with Some _ => _ | None => _ end] => fail
      | _ => destruct c eqn:?
      end
  | |- context [match ?x with Some _ => _ | None => _ end] => destruct x eqn:?
  | |- context [lift _ _ ?o] => katom o; destruct o as [[[? ?] ?]|?|?] eqn:?
  | |- context [lift0 _ _ ?o] => katom o; destruct o as [[? ?]|?|?] eqn:?
  | |- context [obind ?o _] => katom o; destruct o as [?|?|?] eqn:?
  end; try (exfalso; prop_tests; first [ lia | congruence ]).

Ltac kunfold :=
  progress unfold str_GetStream, str_IsStream, str_SetStream, str_DeleteStream, str_GetParams,
    of_go_stream, to_go_stream, set_Stream_Deposit, set_Stream_FlowRate, set_Stream_LastOutflowTime,
    set_Stream_DepositZeroTime, set_Stream_Cancellable, set_stream, claim_coins, claimed,
    with_bank, with_str, world, ahas,
    Int_GT, sdk_NewInt, sdk_NewIntFromUint64, Coin_Denom, Coin_Amount,
    sdk_AccAddressFromBech32, bank_BlockedAddr, MOD_stream, MOD_fee_collector, KEEPER_authority,
    stream_ErrInvalidData, stream_ErrStreamDoesNotExist, stream_ErrStreamExists,
    stream_ErrStreamNotCancellable, sdkerrors_ErrUnauthorized, govtypes_ErrInvalidSigner.

(* calls of generated functions already proved equal to the model, and the facts a successful model call
   establishes: both are extended below, as the theorems become available *)
Ltac kcall := fail.
Ltac kfacts := idtac.

Ltac kstep := first [ progress knorm | kunfold | kknown | kcall | kprim | ksplit; kfacts ].
Ltac kwalk := repeat kstep.

(* ------------------------------------------------------------------------------------------ *)
(* part 3: the keeper                                                                          *)
(* ------------------------------------------------------------------------------------------ *)

(* 0. addSeconds *)
Theorem gen_addSeconds_eq : forall t secs, go_addSeconds t secs = Ok (add_seconds t secs).
Proof. reflexivity. Qed.

(* what the invariant says about one stored stream, in the form the side conditions need *)
Lemma stream_facts now b s r sn st :
  str_inv now b s -> aget (r, sn) (s_streams s) = Some st ->
  1 <= st_rate st < two63 /\ - two63 <= st_rate st /\ 0 <= st_rate st /\ 0 <= st_deposit st /\
  time_storable (st_lot st) = true /\ time_storable (st_dzt st) = true /\ time_storable now = true /\
  0 <= s_valfee s <= DEC_ONE /\ blocked r = false.
Proof.
  intros I Hg. pose proof (si_streams _ _ _ I _ _ Hg) as [Hr Hd Hl Hls Hds _].
  pose proof (si_valfee _ _ _ I). pose proof (si_receivers _ _ _ I _ _ _ Hg).
  destruct (si_now _ _ _ I). unfold two63 in *. repeat split; auto; lia.
Qed.

(* 1. ClaimFromStream *)
Theorem gen_ClaimFromStream_eq : forall now b s (r sn : addr), str_inv now b s ->
  go_ClaimFromStream (world now b s) r sn = lift now (claim_coins (denom_of s r sn)) (claim_from_stream now b s r sn).
Proof.
  intros now b s r sn I.
  unfold go_ClaimFromStream, claim_from_stream, denom_of.
  destruct (aget (r, sn) (s_streams s)) as [st|] eqn:Hg; [|kwalk; reflexivity].
  destruct (stream_facts _ _ _ _ _ _ I Hg) as (Hr & Hr' & Hr'' & Hd & Hls & Hds & Hns & Hvf & Hbl).
  destruct (calculate_amount_to_claim now (st_dzt st) (st_lot st) (st_deposit st) (st_rate st))
    as [total remaining] eqn:Ec.
  destruct (calculate_validator_fee (s_valfee s) total) as [recv fee] eqn:Ef.
  assert (Hfee : 0 <= total -> 0 <= recv).
  { intros Ht. pose proof (fee_split (s_valfee s) total Hvf Ht) as Hf. rewrite Ef in Hf. tauto. }
  kwalk; try reflexivity.
Qed.

(* after a successful claim the invariant holds again and the stream is still there *)
Lemma claim_after now b s (r sn : addr) st b1 s1 c :
  str_inv now b s -> aget (r, sn) (s_streams s) = Some st ->
  claim_from_stream now b s r sn = Ok (b1, s1, c) ->
  str_inv now b1 s1 /\ aget (r, sn) (s_streams s1) = Some (claimed now st (cr_remaining c)) /\
  0 <= cr_remaining c.
Proof.
  intros I Hg H.
  destruct (claim_spec _ _ _ _ _ _ _ _ _ I Hg H) as (I1 & _ & _ & _ & Ht & Hrem & _ & _ & _ & _ & Hs1 & _).
  split; [exact I1|]. split; [|lia].
  rewrite Hs1. cbn [with_streams s_streams]. apply aget_aset_eq.
Qed.

Ltac kcall ::=
  match goal with
  | I : str_inv ?now ?b ?s |- context [go_ClaimFromStream (mk_kworld ?now ?b ?s) ?r ?sn] =>
      change (go_ClaimFromStream (mk_kworld now b s) r sn) with (go_ClaimFromStream (world now b s) r sn);
      rewrite (gen_ClaimFromStream_eq now b s r sn I)
  end.

Ltac kfacts ::=
  try match goal with
      | I : str_inv ?now ?b ?s, Hg : aget (?r, ?sn) (s_streams ?s) = Some ?st,
        H : claim_from_stream ?now ?b ?s ?r ?sn = Ok (?b1, ?s1, ?c) |- _ =>
          lazymatch goal with
          | _ : str_inv now b1 s1 |- _ => fail
          | _ => destruct (claim_after now b s r sn st b1 s1 c I Hg H) as (? & ? & ?)
          end
      end.

(* 2. AddDeposit *)
Theorem gen_AddDeposit_eq : forall now b s (r sn : addr) (d : denom) amt, str_inv now b s -> 0 < amt ->
  go_AddDeposit (world now b s) r sn (d, amt) = lift0 now true (add_deposit now b s r sn d amt).
Proof.
  intros now b s r sn d amt I Ha.
  unfold go_AddDeposit, add_deposit.
  destruct (aget (r, sn) (s_streams s)) as [st|] eqn:Hg; [|kwalk; reflexivity].
  destruct (stream_facts _ _ _ _ _ _ I Hg) as (Hr & Hr' & Hr'' & Hd & Hls & Hds & Hns & Hvf & Hbl).
  kwalk; try reflexivity.
Qed.

(* 3. SetNewFlowRate *)
Theorem gen_SetNewFlowRate_eq : forall now b s (r sn : addr) rate, str_inv now b s -> 1 <= rate < two63 ->
  go_SetNewFlowRate (world now b s) r sn rate = lift0 now tt (set_new_flow_rate now b s r sn rate).
Proof.
  intros now b s r sn rate I Hrate.
  assert (Hrate' : - two63 <= rate) by (unfold two63 in *; lia).
  unfold go_SetNewFlowRate, set_new_flow_rate.
  destruct (aget (r, sn) (s_streams s)) as [st|] eqn:Hg; [|kwalk; reflexivity].
  destruct (stream_facts _ _ _ _ _ _ I Hg) as (Hr & Hr' & Hr'' & Hd & Hls & Hds & Hns & Hvf & Hbl).
  kwalk; try reflexivity.
Qed.

(* 4. CancelStreamBySenderReceiver *)
Theorem gen_CancelStream_keeper_eq : forall now b s (r sn : addr), str_inv now b s ->
  go_CancelStreamBySenderReceiver (world now b s) r sn = lift0 now tt (cancel_stream now b s r sn).
Proof.
  intros now b s r sn I.
  unfold go_CancelStreamBySenderReceiver, cancel_stream.
  destruct (aget (r, sn) (s_streams s)) as [st|] eqn:Hg; [|kwalk; reflexivity].
  destruct (stream_facts _ _ _ _ _ _ I Hg) as (Hr & Hr' & Hr'' & Hd & Hls & Hds & Hns & Hvf & Hbl).
  kwalk; try reflexivity.
Qed.

(* ------------------------------------------------------------------------------------------ *)
(* part 4: the message server, steps, runs                                                     *)
(* ------------------------------------------------------------------------------------------ *)

(* CreateStream calls AddDeposit on the state CreateNewStream has just written: an empty stream that
   expired at the Unix epoch.  That intermediate state satisfies the invariant. *)
Lemma create_state_inv now b s (r sn : addr) (d : denom) rate :
  str_inv now b s -> blocked r = false -> aget (r, sn) (s_streams s) = None -> 1 <= rate < two63 ->
  str_inv now b (with_streams s (aset (r, sn) {| st_denom := d; st_deposit := 0; st_rate := rate; st_lot := now;
                                                 st_dzt := 0; st_cancellable := true |} (s_streams s))).
Proof.
  intros I Hb Hg Hr. destruct (si_now _ _ _ I) as [Hns Hn0].
  apply inv_set with (b := b); auto.
  - constructor; cbn [st_rate st_deposit st_lot st_dzt]; auto; try lia.
  - intros d'. rewrite Hg. cbn [dep_opt]. unfold dep_in. cbn [st_denom st_deposit].
    destruct (d =? d'); lia.
Qed.

(* a successful top-up keeps the stream *)
Lemma add_deposit_keeps now b s (r sn : addr) (d : denom) amt st b2 s2 :
  str_inv now b s -> aget (r, sn) (s_streams s) = Some st -> 0 < amt ->
  add_deposit now b s r sn d amt = Ok (b2, s2) ->
  exists st2, aget (r, sn) (s_streams s2) = Some st2.
Proof.
  intros I Hg Ha H.
  destruct (add_deposit_spec _ _ _ _ _ _ _ _ _ _ I Hg Ha H) as (_ & _ & _ & b1 & s1 & st1 & lot' & dzt' & _ & Hs2 & _).
  eexists. rewrite Hs2. cbn [with_streams s_streams]. apply aget_aset_eq.
Qed.

Ltac kinv := first [ assumption | apply create_state_inv; kside ].

Ltac kcall ::=
  match goal with
  | |- context [go_ClaimFromStream (mk_kworld ?now ?b ?s) ?r ?sn] =>
      change (go_ClaimFromStream (mk_kworld now b s) r sn) with (go_ClaimFromStream (world now b s) r sn);
      rewrite (gen_ClaimFromStream_eq now b s r sn) by kinv
  | |- context [go_AddDeposit (mk_kworld ?now ?b ?s) ?r ?sn (?d, ?amt)] =>
      change (go_AddDeposit (mk_kworld now b s) r sn (d, amt)) with (go_AddDeposit (world now b s) r sn (d, amt));
      rewrite (gen_AddDeposit_eq now b s r sn d amt) by first [ kinv | kside ]
  | |- context [go_SetNewFlowRate (mk_kworld ?now ?b ?s) ?r ?sn ?rate] =>
      change (go_SetNewFlowRate (mk_kworld now b s) r sn rate) with (go_SetNewFlowRate (world now b s) r sn rate);
      rewrite (gen_SetNewFlowRate_eq now b s r sn rate) by first [ kinv | kside ]
  | |- context [go_CancelStreamBySenderReceiver (mk_kworld ?now ?b ?s) ?r ?sn] =>
      change (go_CancelStreamBySenderReceiver (mk_kworld now b s) r sn)
        with (go_CancelStreamBySenderReceiver (world now b s) r sn);
      rewrite (gen_CancelStream_keeper_eq now b s r sn) by kinv
  end.

Ltac kfacts ::=
  try match goal with
      | I : str_inv ?now ?b ?s, Hg : aget (?r, ?sn) (s_streams ?s) = Some ?st,
        H : claim_from_stream ?now ?b ?s ?r ?sn = Ok (?b1, ?s1, ?c) |- _ =>
          lazymatch goal with
          | _ : str_inv now b1 s1 |- _ => fail
          | _ => destruct (claim_after now b s r sn st b1 s1 c I Hg H) as (? & ? & ?)
          end
      | I : str_inv ?now ?b ?s, Hg : aget (?r, ?sn) (s_streams ?s) = Some ?st,
        H : add_deposit ?now ?b ?s ?r ?sn ?d ?amt = Ok (?b2, ?s2) |- _ =>
          lazymatch goal with
          | _ : aget (r, sn) (s_streams s2) = Some _ |- _ => fail
          | _ => destruct (add_deposit_keeps now b s r sn d amt st b2 s2 I Hg ltac:(kside) H) as (? & ?)
          end
      end.

Ltac kfinish :=
  first [ reflexivity
        | repeat match goal with c : claim_res |- _ => destruct c end; reflexivity ].

(* 5. the message server.  Of [str_msg_wf] only the int64 range of the flow rates is needed (the Go field is
   an int64); ValidateBasic is not needed at all: the server repeats the checks it relies on. *)
Definition str_msg_rate_ok (m : str_msg) : Prop :=
  match m with
  | SCreate _ _ _ _ rate => rate < two63
  | SUpdateFlow _ _ rate => rate < two63
  | _ => True
  end.

Theorem gen_msg_exec_eq_rate : forall now b s m, str_inv now b s -> str_msg_rate_ok m ->
  go_msg_exec (world now b s) m = lift now (fun x => x) (str_exec now b s m).
Proof.
  intros now b s m I Hwf.
  destruct m as [sn r d amt rate | sn r | sn r d amt | sn r rate | sn r]; cbn [str_msg_rate_ok] in Hwf;
    unfold go_msg_exec, str_exec, go_CreateStream, go_CreateNewStream, go_ClaimStream, go_TopUpDeposit,
      go_UpdateFlowRate, go_CancelStream;
    kwalk; kfinish.
Qed.

Theorem gen_msg_exec_eq : forall now b s m, str_inv now b s -> str_msg_wf m ->
  go_msg_exec (world now b s) m = lift now (fun x => x) (str_exec now b s m).
Proof.
  intros now b s m I [_ Hwf]. apply gen_msg_exec_eq_rate; [exact I|].
  destruct m; cbn [str_msg_rate_ok]; auto.
Qed.

(* 6. one step, a whole history *)
Theorem gen_step_eq : forall t b s m, str_inv t b s -> str_msg_wf m ->
  go_step (b, s) (t, m) = str_step (b, s) (t, m).
Proof.
  intros t b s m I W. unfold go_step, str_step. cbn [fst snd].
  destruct (str_validate_basic m); try reflexivity.
  rewrite (gen_msg_exec_eq t b s m I W).
  destruct (str_exec t b s m) as [[[b' s'] resp]|?|?]; reflexivity.
Qed.

Theorem gen_run_eq : forall now0 b0 s0 h, str_inv now0 b0 s0 -> times_sorted now0 h ->
  go_run (b0, s0) h = str_run (b0, s0) h.
Proof.
  intros now0 b0 s0 h. revert now0 b0 s0.
  induction h as [|[t m] h IH]; intros now0 b0 s0 I TS; [reflexivity|].
  cbn [times_sorted] in TS. destruct TS as (Hle & Hst & W & TS).
  unfold go_run, str_run. cbn [fold_left].
  rewrite (gen_step_eq t b0 s0 m (inv_time_mono _ _ _ _ I Hle Hst) W).
  pose proof (str_step_preserves_inv _ _ _ _ _ I Hle Hst W) as I1.
  destruct (str_step (b0, s0) (t, m)) as [b1 s1]. cbn [fst snd] in I1.
  exact (IH t b1 s1 I1 TS).
Qed.

(* 7. UpdateParams *)
Theorem gen_UpdateParams_eq : forall w (auth : addr) vf,
  go_UpdateParams w (mk_go_MsgUpdateParams auth (mk_go_Params vf)) =
    if negb (auth =? GOV_MACC) then Err 42
    else if str_params_valid vf
         then Ok (with_str w {| s_valfee := vf; s_streams := s_streams (kw_str w) |}, mk_go_MsgUpdateParamsResponse)
         else Err 40.
Proof.
  intros w auth vf. unfold go_UpdateParams, str_SetParams, KEEPER_authority, govtypes_ErrInvalidSigner.
  cbn [MsgUpdateParams_Authority MsgUpdateParams_Params Params_ValidatorFee].
  rewrite (Z.eqb_sym GOV_MACC auth).
  destruct (auth =? GOV_MACC); cbn [negb]; [|reflexivity].
  destruct (str_params_valid vf); reflexivity.
Qed.

(* ------------------------------------------------------------------------------------------ *)
(* part 5: theorems about the model, transported to the generated code                        *)
(* ------------------------------------------------------------------------------------------ *)

Theorem gen_escrow_backed_reachable : forall now0 b0 s0 h,
  str_inv now0 b0 s0 -> times_sorted now0 h ->
  escrow_backed (fst (go_run (b0, s0) h)) (snd (go_run (b0, s0) h)).
Proof.
  intros now0 b0 s0 h I T. rewrite (gen_run_eq now0 b0 s0 h I T).
  exact (escrow_backed_reachable now0 b0 s0 h I T).
Qed.

Theorem gen_claim_succeeds : forall now b s (sn r : addr) st,
  str_inv now b s -> aget (r, sn) (s_streams s) = Some st -> 0 < st_deposit st ->
  exists b' s' c, go_msg_exec (world now b s) (SClaim sn r) = Ok (world now b' s', RClaim c).
Proof.
  intros now b s sn r st I Hg Hd.
  rewrite (gen_msg_exec_eq_rate now b s (SClaim sn r) I Logic.I).
  destruct (claim_succeeds now b s sn r st I Hg Hd) as (b' & s' & c & ->).
  exists b', s', c. reflexivity.
Qed.

Theorem gen_cancel_succeeds : forall now b s (sn r : addr) st,
  str_inv now b s -> aget (r, sn) (s_streams s) = Some st ->
  st_cancellable st = true -> blocked sn = false ->
  exists b' s', go_msg_exec (world now b s) (SCancel sn r) = Ok (world now b' s', RNone).
Proof.
  intros now b s sn r st I Hg Hc Hb.
  rewrite (gen_msg_exec_eq_rate now b s (SCancel sn r) I Logic.I).
  destruct (cancel_succeeds now b s sn r st I Hg Hc Hb) as (b' & s' & ->).
  exists b', s'. reflexivity.
Qed.

Theorem gen_topup_succeeds : forall now b s (sn r : addr) st amt,
  str_inv now b s -> aget (r, sn) (s_streams s) = Some st -> 0 < amt ->
  sn <> r -> sn <> STREAM_MACC -> sn <> FEE_COLLECTOR ->
  amt <= balance b sn (st_denom st) -> amt / st_rate st < two63 ->
  time_storable (add_seconds (if st_dzt st <=? now then now else st_dzt st) (amt / st_rate st)) = true ->
  exists b' s' resp, go_msg_exec (world now b s) (STopUp sn r (st_denom st) amt) = Ok (world now b' s', resp).
Proof.
  intros now b s sn r st amt I Hg Ha N1 N2 N3 Hbal Hq Hst.
  rewrite (gen_msg_exec_eq_rate now b s (STopUp sn r (st_denom st) amt) I Logic.I).
  destruct (topup_succeeds now b s sn r st amt I Hg Ha N1 N2 N3 Hbal Hq Hst) as (b' & s' & resp & ->).
  exists b', s', resp. reflexivity.
Qed.

Theorem gen_no_arith_panic_claim_cancel : forall now b s (sn r : addr),
  str_inv now b s ->
  (forall c, go_msg_exec (world now b s) (SClaim sn r) <> Panic c) /\
  (forall c, go_msg_exec (world now b s) (SCancel sn r) <> Panic c).
Proof.
  intros now b s sn r I.
  destruct (no_arith_panic_claim_cancel now b s sn r I) as [H1 H2].
  split; intros c.
  - rewrite (gen_msg_exec_eq_rate now b s (SClaim sn r) I Logic.I).
    destruct (str_exec now b s (SClaim sn r)) as [[[b' s'] resp]|e|p] eqn:E; cbn [lift]; try discriminate.
    intros [= ->]. exact (H1 c eq_refl).
  - rewrite (gen_msg_exec_eq_rate now b s (SCancel sn r) I Logic.I).
    destruct (str_exec now b s (SCancel sn r)) as [[[b' s'] resp]|e|p] eqn:E; cbn [lift]; try discriminate.
    intros [= ->]. exact (H2 c eq_refl).
Qed.

(* The hypothesis [0 < amt] of gen_AddDeposit_eq cannot be weakened to [0 <= amt]: for a zero coin sdk.NewCoins
   yields the empty Coins and x/bank moves nothing, whereas the model's bank_send rewrites the two balances
   (same amounts, but the stores differ as data).  ValidateBasic and the server reject a zero top-up before
   AddDeposit is reached, so no reachable call has amt = 0. *)
Definition ex_bank_escrow_only : bank := {| bal := [((STREAM_MACC, 0), 100000)]; supply := [(0, 100000)] |}.

Lemma ex_inv_escrow_only : str_inv ex_now ex_bank_escrow_only (snd ex_bs1).
Proof.
  destruct ex_inv1 as [K S B V R N].
  (* escrow backing [B]: the two banks agree, by computation, on every balance of the module account *)
  constructor; [exact K | exact S | exact B | exact V | exact R | exact N].
Qed.

Example gen_AddDeposit_zero_amount_refuted :
  str_inv ex_now ex_bank_escrow_only (snd ex_bs1) /\ 0 <= 0 /\
  go_AddDeposit (world ex_now ex_bank_escrow_only (snd ex_bs1)) 2 1 (0, 0)
    <> lift0 ex_now true (add_deposit ex_now ex_bank_escrow_only (snd ex_bs1) 2 1 0 0).
Proof. split; [exact ex_inv_escrow_only|]. split; [lia|]. vm_compute. intro X; discriminate X. Qed.

Print Assumptions gen_addSeconds_eq.
Print Assumptions gen_ClaimFromStream_eq.
Print Assumptions gen_AddDeposit_eq.
Print Assumptions gen_SetNewFlowRate_eq.
Print Assumptions gen_CancelStream_keeper_eq.
Print Assumptions gen_msg_exec_eq_rate.
Print Assumptions gen_msg_exec_eq.
Print Assumptions gen_step_eq.
Print Assumptions gen_run_eq.
Print Assumptions gen_UpdateParams_eq.
Print Assumptions gen_escrow_backed_reachable.
Print Assumptions gen_claim_succeeds.
Print Assumptions gen_cancel_succeeds.
Print Assumptions gen_topup_succeeds.
Print Assumptions gen_no_arith_panic_claim_cancel.
Print Assumptions gen_AddDeposit_zero_amount_refuted.
