(* The message server of x/enterprise as generated from /repo/x/enterprise/keeper/{msg_server.go,purchase.go,whitelist.go}
   and the ValidateBasic methods of /repo/x/enterprise/types/msgs.go (coq/GeneratedEnterpriseKeeper.v, re-generated on every
   run) compute what the hand-written model (model/Enterprise.v: ent_exec, ent_validate_basic, ent_set_params) computes,
   outcome for outcome, error codes included, under the hypotheses listed with each theorem; each is shown necessary by a
   refutation (part 5).

     part 1  the loops of the message server (is the signer authorised; has the signer decided already);
     part 2  the primitives of model/EnterpriseKeeperPrims.v met in the message server;
     part 3  the message server: UndPurchaseOrder, ProcessUndPurchaseOrder, WhitelistAddress, UpdateParams;
     part 4  ValidateBasic;
     part 5  the hypotheses cannot be dropped; a concrete world.
   The walker is the one of proofs/GeneratedEnterpriseBlockEq.v: no temporary of the generated file is mentioned and the
   nesting of its tests is not relied upon. *)
From Coq Require Import ZifyBool.
From MC Require Import lib.Prelude lib.AMap lib.GoSdk GeneratedEnterpriseTypes model.Bank model.Enterprise
  model.EnterpriseSpec model.EnterpriseKeeperPrims GeneratedEnterpriseKeeper model.EnterpriseGenSpec.
From MC Require Import proofs.BankProofs proofs.EnterpriseProofs proofs.GeneratedEnterpriseEq
  proofs.GeneratedEnterpriseBlockEq.
Local Open Scope Z_scope.

(* ------------------------------------------------------------------------------------------ *)
(* part 1: the loops                                                                          *)
(* ------------------------------------------------------------------------------------------ *)

(* `for _, a := range signers { if signer.Equals(a) { isAuthorised = true } }` *)
Lemma auth_loop {R} (f : go_addr -> bool -> outcome (loop_res bool R)) (sg : Z) :
  (forall a acc, f a acc = Ok (LCont (if sg =? a then true else acc))) ->
  forall l acc, go_range f l acc = Ok (LCont (acc || mem_addr sg l)).
Proof.
  intros Hf l. induction l as [|a r IH]; intros acc.
  - cbn. rewrite orb_false_r. reflexivity.
  - rewrite go_range_cons, Hf. cbn [obind]. rewrite IH. unfold mem_addr. cbn [existsb].
    destruct (sg =? a); cbn [orb]; [rewrite orb_true_r; reflexivity|reflexivity].
Qed.

(* `for _, d := range decisions { if d.Signer == signer { return err } }` *)
Lemma dup_loop {S R} (f : go_PurchaseOrderDecision -> S -> outcome (loop_res S R)) (sg : Z) (E : Z) :
  (forall g st, f g st = if sg =? PurchaseOrderDecision_Signer g then Err E else Ok (LCont st)) ->
  forall ds st, go_range f (map to_go_decision ds) st =
                  if existsb (fun d => d_signer d =? sg) ds then Err E else Ok (LCont st).
Proof.
  intros Hf ds. induction ds as [|d r IH]; intros st; [reflexivity|].
  cbn [map existsb]. rewrite go_range_cons, Hf. cbn [to_go_decision PurchaseOrderDecision_Signer].
  rewrite (Z.eqb_sym (d_signer d) sg). destruct (sg =? d_signer d); cbn [obind orb]; [reflexivity|apply IH].
Qed.

Lemma mem_addr_filter_bad (a : Z) (l : list Z) :
  a <> BAD_ADDR /\ a <> EMPTY_ADDR -> mem_addr a (filter (A:=Z) addr_parses l) = mem_addr a l.
Proof.
  intros [N N']. unfold mem_addr. induction l as [|x r IH]; [reflexivity|]. cbn [filter existsb].
  destruct (addr_parses x) eqn:E; cbn [existsb]; rewrite IH; [reflexivity|].
  unfold addr_parses in E. destruct (a =? x) eqn:E2; [lia|reflexivity].
Qed.

(* ------------------------------------------------------------------------------------------ *)
(* part 2: the primitives                                                                     *)
(* ------------------------------------------------------------------------------------------ *)

Lemma Whitelisted_world n b s a : ent_AddressIsWhitelisted (mk_eworld n b s) a = mem_addr a (e_wl s).
Proof. reflexivity. Qed.
Lemma GetHighest_world n b s : ent_GetHighestPurchaseOrderID (mk_eworld n b s) = Ok (e_next s).
Proof. reflexivity. Qed.
Lemma SetHighest_world n b s x : ent_SetHighestPurchaseOrderID (mk_eworld n b s) x = Ok (mk_eworld n b (with_next s x), tt).
Proof. reflexivity. Qed.
Lemma AddRaised_world n b s id :
  ent_AddPoToRaisedQueue (mk_eworld n b s) id =
    Ok (mk_eworld n b (with_pos s (e_pos s) (e_raisedq s ++ [id]) (e_acceptedq s)), tt).
Proof. reflexivity. Qed.
Lemma Exists_world n b s id :
  ent_PurchaseOrderExists (mk_eworld n b s) id = match aget id (e_pos s) with Some _ => true | None => false end.
Proof. reflexivity. Qed.
Lemma AddWl_world n b s a : ent_AddAddressToWhitelist (mk_eworld n b s) a = Ok (mk_eworld n b (with_wl s (e_wl s ++ [a])), tt).
Proof. reflexivity. Qed.
Lemma RemoveWl_world n b s a :
  ent_RemoveAddressFromWhitelist (mk_eworld n b s) a = Ok (mk_eworld n b (with_wl s (remove_z a (e_wl s))), tt).
Proof. reflexivity. Qed.
Lemma Signers_world n b s :
  ent_GetParamEntSignersAsAddressArray (mk_eworld n b s) = filter addr_parses (ep_signers (e_params s)).
Proof. reflexivity. Qed.
Lemma SetParams_world n b s p :
  ent_SetParams (mk_eworld n b s) p =
    match ent_set_params s (params_of_go p) with Ok s' => Ok (mk_eworld n b s', tt) | Err c => Err c | Panic c => Panic c end.
Proof. unfold ent_SetParams. cbn [ew_ent]. destruct (ent_set_params s (params_of_go p)); reflexivity. Qed.

Lemma u64_add_small a b : 0 <= a + b < two64 -> u64_add a b = a + b.
Proof. intros H. unfold u64_add. apply wrap64_small. exact H. Qed.

#[local] Arguments go_IsAuthorisedToDecide : simpl never.

(* the error codes of the message server, as the model's *)
Ltac errnorm :=
  unfold sdkerrors_ErrUnauthorized, sdkerrors_ErrInvalidAddress, sdkerrors_ErrInvalidCoins, sdkerrors_ErrUnknownRequest,
    enterprise_ErrInvalidDenomination, enterprise_ErrInvalidData, enterprise_ErrNotAuthorisedToRaisePO,
    enterprise_ErrPurchaseOrderDoesNotExist, enterprise_ErrInvalidDecision, enterprise_ErrInvalidStatus,
    enterprise_ErrInvalidWhitelistAction, enterprise_ErrPurchaseOrderNotRaised, enterprise_ErrPurchaseOrderAlreadyProcessed,
    enterprise_ErrSignerAlreadyMadeDecision, enterprise_ErrAlreadyWhitelisted, enterprise_ErrAddressNotWhitelisted,
    govtypes_ErrInvalidSigner, enterprise_WhitelistActionAdd, enterprise_WhitelistActionRemove,
    enterprise_WhitelistActionNil in *.

(* IsAuthorisedToDecide: membership in the decoded signer list *)
Lemma gen_ent_IsAuthorisedToDecide_eq : forall w (sg : addr),
  go_IsAuthorisedToDecide w sg = Ok (mem_addr sg (ent_GetParamEntSignersAsAddressArray w)).
Proof.
  intros w sg. unfold go_IsAuthorisedToDecide. cbv zeta.
  match goal with
  | |- context [go_range ?f ?l ?s] => rewrite (auth_loop f sg)
  end; [reflexivity|].
  intros a acc. cbv beta iota zeta. unfold Addr_Equals. destruct (sg =? a); reflexivity.
Qed.

Ltac mprim :=
  match goal with
  | |- context [ent_AddressIsWhitelisted (mk_eworld ?n ?b ?s) ?a] => rewrite (Whitelisted_world n b s a)
  | |- context [ent_GetHighestPurchaseOrderID (mk_eworld ?n ?b ?s)] => rewrite (GetHighest_world n b s)
  | |- context [ent_SetHighestPurchaseOrderID (mk_eworld ?n ?b ?s) ?x] => rewrite (SetHighest_world n b s x)
  | |- context [ent_AddPoToRaisedQueue (mk_eworld ?n ?b ?s) ?x] => rewrite (AddRaised_world n b s x)
  | |- context [ent_PurchaseOrderExists (mk_eworld ?n ?b ?s) ?x] => rewrite (Exists_world n b s x)
  | |- context [ent_AddAddressToWhitelist (mk_eworld ?n ?b ?s) ?x] => rewrite (AddWl_world n b s x)
  | |- context [ent_RemoveAddressFromWhitelist (mk_eworld ?n ?b ?s) ?x] => rewrite (RemoveWl_world n b s x)
  | |- context [ent_GetParamEntSignersAsAddressArray (mk_eworld ?n ?b ?s)] => rewrite (Signers_world n b s)
  | |- context [ent_GetParamDenom (mk_eworld ?n ?b ?s)] => rewrite (GetParamDenom_world n b s)
  | |- context [ent_SetParams (mk_eworld ?n ?b ?s) ?p] => rewrite (SetParams_world n b s p)
  | |- context [go_IsAuthorisedToDecide ?w ?sg] => rewrite (gen_ent_IsAuthorisedToDecide_eq w sg)
  | H : ?a <> BAD_ADDR /\ ?a <> EMPTY_ADDR |- context [mem_addr ?a (filter addr_parses ?l)] =>
      rewrite (mem_addr_filter_bad a l H)
  | H : ?a <> BAD_ADDR /\ ?a <> EMPTY_ADDR |- context [addr_parses ?a] => rewrite (addr_parses_true a H)
  | H : 0 <= ?z < two64 |- context [wrap64 ?z] => rewrite (wrap64_small z H)
  | |- context [u64_add ?a ?b] => rewrite (u64_add_small a b) by lia
  end.

Ltac mnorm :=
  cbn [MsgUndPurchaseOrder_Purchaser MsgUndPurchaseOrder_Amount MsgUndPurchaseOrderResponse_PurchaseOrderId
       MsgProcessUndPurchaseOrder_PurchaseOrderId MsgProcessUndPurchaseOrder_Decision MsgProcessUndPurchaseOrder_Signer
       MsgWhitelistAddress_Address MsgWhitelistAddress_Signer MsgWhitelistAddress_Action
       MsgUpdateParams_Authority MsgUpdateParams_Params elift map_err andb orb app].

Ltac mstate :=
  first [ progress unfold with_next, with_wl, of_go_decision
        | progress cbn [e_params e_next e_pos e_raisedq e_acceptedq e_wl e_locked e_spent e_totlocked e_totspent
                        d_signer d_decision d_time map] ].

Ltac mstep :=
  first [ progress tnorm | progress bnorm | progress mnorm | progress cbv beta iota zeta
        | eknown | bprim | mprim | bstate | mstate | bsplit ].
Ltac mwalk := repeat mstep.
Ltac mdone := first [ reflexivity | exfalso; prop_tests; first [ lia | congruence ] ].

(* ------------------------------------------------------------------------------------------ *)
(* part 3: the message server                                                                 *)
(* ------------------------------------------------------------------------------------------ *)

(* what the equality needs of a message and the world it is delivered in:
     - the addresses it names parse (the model has no notion of an address that does not; the signer's does, or the
       signature check would have failed; for the whitelist target: part 5);
     - the block time, in seconds, fits uint64 (it is written into the order / the decision);
     - the next purchase order id is not the last uint64 (the counter is incremented in uint64);
     - the order decided on is filed under its own id (SetPurchaseOrder files it under po.Id). *)
Definition ent_msg_ok (w : eworld) (m : ent_msg) : Prop :=
  match m with
  | ERaise p _ _ =>
      (p <> BAD_ADDR /\ p <> EMPTY_ADDR) /\ 0 <= ew_now w / NSEC < two64 /\ 0 <= e_next (ew_ent w) < two64 - 1
  | EDecide sg poid _ =>
      (sg <> BAD_ADDR /\ sg <> EMPTY_ADDR) /\ 0 <= ew_now w / NSEC < two64 /\
      (forall o, aget poid (e_pos (ew_ent w)) = Some o -> po_id o = poid)
  | EWhitelist sg t _ => (sg <> BAD_ADDR /\ sg <> EMPTY_ADDR) /\ (t <> BAD_ADDR /\ t <> EMPTY_ADDR)
  end.

Lemma gen_ent_UndPurchaseOrder_eq : forall w p d amt,
  ent_msg_ok w (ERaise p d amt) ->
  ent_msg_exec w (ERaise p d amt) = elift w (ent_exec (ew_now w / NSEC) (ew_ent w) (ERaise p d amt)).
Proof.
  intros [n b s] p d amt (Hp & Hn & Hx). cbn [ew_now ew_ent] in *.
  unfold ent_msg_exec, go_UndPurchaseOrder, go_RaiseNewPurchaseOrder, ent_exec, Coin_Denom, Coin_IsPositive,
    go_uint64_of_int64, Time_Unix.
  stnorm. errnorm. mwalk; mdone.
Qed.

Ltac dup_step_tac :=
  let g := fresh "g" in let st := fresh "st" in
  intros g st; cbv beta iota zeta; unfold Addr_String;
  match goal with |- context [if ?c then _ else _] => destruct c end; reflexivity.

Lemma gen_ent_ProcessUndPurchaseOrder_eq : forall w sg poid dec,
  ent_msg_ok w (EDecide sg poid dec) ->
  ent_msg_exec w (EDecide sg poid dec) = elift w (ent_exec (ew_now w / NSEC) (ew_ent w) (EDecide sg poid dec)).
Proof.
  intros [n b s] sg poid dec (Hp & Hn & Hk). cbn [ew_now ew_ent] in *.
  unfold ent_msg_exec, go_ProcessUndPurchaseOrder, go_ProcessPurchaseOrderDecision, go_ValidPurchaseOrderAcceptRejectStatus,
    ent_exec, is_signer, go_append, Addr_String, go_uint64_of_int64, Time_Unix.
  stnorm. errnorm.
  repeat first [ mstep
               | match goal with
                 | |- context [go_range ?f (map to_go_decision ?ds) ?st] =>
                     rewrite (dup_loop f sg ERR_ENT_ALREADY) by dup_step_tac
                 | |- context [aset (po_id ?o)] => rewrite (Hk o ltac:(first [eassumption|reflexivity]))
                 end
               | rewrite map_app ]; mdone.
Qed.

Lemma gen_ent_WhitelistAddress_eq : forall w sg t act,
  ent_msg_ok w (EWhitelist sg t act) ->
  ent_msg_exec w (EWhitelist sg t act) = elift w (ent_exec (ew_now w / NSEC) (ew_ent w) (EWhitelist sg t act)).
Proof.
  intros [n b s] sg t act (Hp & Ht). cbn [ew_now ew_ent] in *.
  unfold ent_msg_exec, go_WhitelistAddress, go_ProcessWhitelistAction, go_ValidWhitelistAction, ent_exec, is_signer.
  stnorm. errnorm. mwalk; mdone.
Qed.

Theorem gen_ent_msg_exec_eq : forall w m,
  ent_msg_ok w m ->
  ent_msg_exec w m = elift w (ent_exec (ew_now w / NSEC) (ew_ent w) m).
Proof.
  intros w [p d amt|sg poid dec|sg t act] H.
  - exact (gen_ent_UndPurchaseOrder_eq w p d amt H).
  - exact (gen_ent_ProcessUndPurchaseOrder_eq w sg poid dec H).
  - exact (gen_ent_WhitelistAddress_eq w sg t act H).
Qed.

(* the same with one set of hypotheses for all messages *)
Definition ent_msg_addrs_ok (m : ent_msg) : Prop :=
  match m with
  | ERaise p _ _ => p <> BAD_ADDR /\ p <> EMPTY_ADDR
  | EDecide sg _ _ => sg <> BAD_ADDR /\ sg <> EMPTY_ADDR
  | EWhitelist sg t _ => (sg <> BAD_ADDR /\ sg <> EMPTY_ADDR) /\ (t <> BAD_ADDR /\ t <> EMPTY_ADDR)
  end.

Corollary gen_ent_msg_exec_eq_uniform : forall w m,
  ent_msg_addrs_ok m -> 0 <= ew_now w / NSEC < two64 -> 0 <= e_next (ew_ent w) < two64 - 1 -> pos_keyed (ew_ent w) ->
  ent_msg_exec w m = elift w (ent_exec (ew_now w / NSEC) (ew_ent w) m).
Proof.
  intros w m Ha Hn Hx K. apply gen_ent_msg_exec_eq. destruct m; cbn [ent_msg_ok ent_msg_addrs_ok] in *.
  - tauto.
  - split; [exact Ha|]. split; [exact Hn|]. intros o G. exact (K _ _ G).
  - exact Ha.
Qed.

(* on a world satisfying the invariant of C03 / C04, for a well-formed message ([ent_op_wf]: the signer is an account, the
   whitelist target a proper address): only the bound on the id counter is left *)
Corollary gen_ent_msg_exec_eq_inv : forall w m,
  ent_inv w -> ent_op_wf w (OMsg m) -> e_next (w_ent w) < two64 - 1 ->
  ent_msg_exec (eworld_of_ent w) m = elift (eworld_of_ent w) (ent_exec (w_now w) (w_ent w) m).
Proof.
  intros w m I (Hs & Hm) Hx. pose proof (inv_s _ I) as Is. pose proof (inv_now _ I) as Hn.
  assert (Ed : ew_now (eworld_of_ent w) / NSEC = w_now w) by (cbn [eworld_of_ent ew_now]; apply Z.div_mul; discriminate).
  rewrite <- Ed. change (w_ent w) with (ew_ent (eworld_of_ent w)). apply gen_ent_msg_exec_eq_uniform.
  - destruct m; cbn [ent_msg_addrs_ok ent_signer] in *; unfold BAD_ADDR, EMPTY_ADDR; lia.
  - rewrite Ed. unfold two63, two64 in *. lia.
  - cbn [eworld_of_ent ew_ent]. pose proof (si_next _ _ Is). lia.
  - exact (sinv_pos_keyed _ _ Is).
Qed.

(* UpdateParams: the authority check, then SetParams (Params.Validate and the write) *)
Theorem gen_ent_UpdateParams_eq : forall w auth p,
  go_UpdateParams w (mk_go_MsgUpdateParams auth p) =
    if negb (auth =? GOV_MACC) then Err 42
    else match ent_set_params (ew_ent w) (params_of_go p) with
         | Ok s => Ok (with_ent w s, mk_go_MsgUpdateParamsResponse)
         | Err c => Err c
         | Panic c => Panic c
         end.
Proof.
  intros [n b s] auth p. unfold go_UpdateParams, KEEPER_authority. errnorm. mnorm. rewrite (Z.eqb_sym GOV_MACC auth).
  mwalk; try mdone. destruct (ent_set_params s (params_of_go p)); reflexivity.
Qed.

(* ------------------------------------------------------------------------------------------ *)
(* part 4: ValidateBasic                                                                      *)
(* ------------------------------------------------------------------------------------------ *)

(* the model's stateless checks do not look at the addresses (part 5); for messages whose addresses parse: *)
Theorem gen_ent_validate_basic_eq : forall m,
  ent_msg_addrs_ok m -> ent_go_validate_basic m = ent_validate_basic m.
Proof.
  intros [p d amt|sg poid dec|sg t act] H; cbn [ent_msg_addrs_ok] in H;
    try match type of H with (_ /\ _) /\ _ => destruct H as [H H'] end;
    unfold ent_go_validate_basic, ent_validate_basic, go_MsgUndPurchaseOrder_ValidateBasic,
      go_MsgProcessUndPurchaseOrder_ValidateBasic, go_MsgWhitelistAddress_ValidateBasic,
      go_ValidPurchaseOrderAcceptRejectStatus, go_ValidWhitelistAction, Coin_IsValid, Coin_IsZero, Coin_IsNegative;
    stnorm; errnorm; mwalk; mdone.
Qed.

(* ------------------------------------------------------------------------------------------ *)
(* part 5: the hypotheses cannot be dropped                                                   *)
(* ------------------------------------------------------------------------------------------ *)
(* world: xb_w0 of proofs/GeneratedEnterpriseBlockEq.v (signer 9, whitelist [7], next id 10, orders 1..5, order 5 raised
   and undecided) *)

Definition msg_model (w : eworld) (m : ent_msg) : outcome (eworld * Z) :=
  elift w (ent_exec (ew_now w / NSEC) (ew_ent w) m).

Definition msg_after (o : outcome (eworld * Z)) : eworld := match o with Ok (w, _) => w | _ => xb_w0 end.

Lemma xb_w0_msg_hyps :
  0 <= ew_now xb_w0 / NSEC < two64 /\ 0 <= e_next (ew_ent xb_w0) < two64 - 1 /\ pos_keyed (ew_ent xb_w0).
Proof.
  split; [vm_compute; split; [intro X; discriminate X|reflexivity]|].
  split; [vm_compute; split; [intro X; discriminate X|reflexivity]|]. exact (proj1 (proj2 (proj2 xb_w0_hyps))).
Qed.

(* a purchaser string that is not an address: the generated code answers ErrInvalidAddress first, the model looks for
   it in the whitelist *)
Example gen_msg_raise_bad_purchaser_refuted :
  ent_msg_exec xb_w0 (ERaise BAD_ADDR NUND 5) = Err ERR_ENT /\
  msg_model xb_w0 (ERaise BAD_ADDR NUND 5) = Err ERR_ENT_NOT_WL.
Proof. split; vm_compute; reflexivity. Qed.

Example gen_msg_decide_bad_signer_refuted :
  ent_msg_exec xb_w0 (EDecide BAD_ADDR 5 ST_ACCEPTED) = Err ERR_ENT /\
  msg_model xb_w0 (EDecide BAD_ADDR 5 ST_ACCEPTED) = Err ERR_ENT_UNAUTH.
Proof. split; vm_compute; reflexivity. Qed.

(* a whitelist target that is not an address: refused by the generated code, WHITELISTED by the model *)
Example gen_msg_whitelist_bad_target_refuted :
  ent_msg_exec xb_w0 (EWhitelist 9 BAD_ADDR 1) = Err ERR_ENT /\
  (exists w', msg_model xb_w0 (EWhitelist 9 BAD_ADDR 1) = Ok (w', 0) /\ e_wl (ew_ent w') = [7; BAD_ADDR]).
Proof. split; [vm_compute; reflexivity|]. eexists. split; vm_compute; reflexivity. Qed.

Example gen_msg_whitelist_bad_signer_refuted :
  ent_msg_exec xb_w0 (EWhitelist BAD_ADDR 8 1) = Err ERR_ENT /\
  msg_model xb_w0 (EWhitelist BAD_ADDR 8 1) = Err ERR_ENT_UNAUTH.
Proof. split; vm_compute; reflexivity. Qed.

(* the id counter at its last value: the generated code wraps it to 0, the model goes on to 2^64 *)
Example gen_msg_raise_last_id_refuted :
  let w := mk_eworld (xb_sec * NSEC) xe_bank0
             {| e_params := xb_params 1; e_next := two64 - 1; e_pos := []; e_raisedq := []; e_acceptedq := [];
                e_wl := [7]; e_locked := []; e_spent := []; e_totlocked := None; e_totspent := None |} in
  (exists w', ent_msg_exec w (ERaise 7 NUND 5) = Ok (w', two64 - 1) /\ e_next (ew_ent w') = 0) /\
  (exists w', msg_model w (ERaise 7 NUND 5) = Ok (w', two64 - 1) /\ e_next (ew_ent w') = two64).
Proof. cbv zeta. split; eexists; split; vm_compute; reflexivity. Qed.

(* a block time before 1970: the raise time written differs *)
Example gen_msg_raise_negative_time_refuted :
  let w := mk_eworld (-1) xe_bank0 (xb_state (xb_params 1) [] [] []) in
  (exists w', ent_msg_exec w (ERaise 7 NUND 5) = Ok (w', 10) /\
              option_map po_raise_time (aget 10 (e_pos (ew_ent w'))) = Some (two64 - 1)) /\
  (exists w', msg_model w (ERaise 7 NUND 5) = Ok (w', 10) /\
              option_map po_raise_time (aget 10 (e_pos (ew_ent w'))) = Some (-1)).
Proof. cbv zeta. split; eexists; split; vm_compute; reflexivity. Qed.

(* an order filed under 5 whose Id field says 6: the decision is written under 6 by the generated code *)
Example gen_msg_decide_unkeyed_refuted :
  let w := mk_eworld (xb_sec * NSEC) xe_bank0
             (xb_state (xb_params 1) [(5, xb_po 6 ST_RAISED (xb_sec - 10) [])] [5] []) in
  (exists w', ent_msg_exec w (EDecide 9 5 ST_ACCEPTED) = Ok (w', 0) /\ akeys (e_pos (ew_ent w')) = [5; 6]) /\
  (exists w', msg_model w (EDecide 9 5 ST_ACCEPTED) = Ok (w', 0) /\ akeys (e_pos (ew_ent w')) = [5]).
Proof. cbv zeta. split; eexists; split; vm_compute; reflexivity. Qed.

(* ValidateBasic: the generated code refuses a message naming a string that is not an address, the model's stateless
   check passes it *)
Example gen_validate_basic_bad_address_refuted :
  ent_go_validate_basic (ERaise BAD_ADDR NUND 5) = Err ERR_ENT /\ ent_validate_basic (ERaise BAD_ADDR NUND 5) = Ok tt /\
  ent_go_validate_basic (EDecide BAD_ADDR 1 ST_ACCEPTED) = Err ERR_ENT /\
  ent_validate_basic (EDecide BAD_ADDR 1 ST_ACCEPTED) = Ok tt /\
  ent_go_validate_basic (EWhitelist BAD_ADDR 7 1) = Err ERR_ENT /\ ent_validate_basic (EWhitelist BAD_ADDR 7 1) = Ok tt /\
  ent_go_validate_basic (EWhitelist 9 BAD_ADDR 1) = Err ERR_ENT /\ ent_validate_basic (EWhitelist 9 BAD_ADDR 1) = Ok tt.
Proof. repeat split; vm_compute; reflexivity. Qed.

Print Assumptions gen_ent_IsAuthorisedToDecide_eq.
Print Assumptions gen_ent_msg_exec_eq.
Print Assumptions gen_ent_msg_exec_eq_uniform.
Print Assumptions gen_ent_msg_exec_eq_inv.
Print Assumptions gen_ent_UpdateParams_eq.
Print Assumptions gen_ent_validate_basic_eq.
Print Assumptions gen_msg_raise_bad_purchaser_refuted.
Print Assumptions gen_msg_decide_bad_signer_refuted.
Print Assumptions gen_msg_whitelist_bad_target_refuted.
Print Assumptions gen_msg_whitelist_bad_signer_refuted.
Print Assumptions gen_msg_raise_last_id_refuted.
Print Assumptions gen_msg_raise_negative_time_refuted.
Print Assumptions gen_msg_decide_unkeyed_refuted.
Print Assumptions gen_validate_basic_bad_address_refuted.
