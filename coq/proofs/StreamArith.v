(* Pure arithmetic facts about the three functions of x/stream/types/utils.go and addSeconds,
   as modelled in model/Stream.v.  No state, no bank. *)
From MC Require Import lib.Prelude lib.AMap model.Bank model.Stream model.StreamSpec.
From Coq Require Import ZifyBool.
Ltac Zify.zify_post_hook ::= Z.div_mod_to_equations.

Local Open Scope Z_scope.

(* ---------- whole seconds ---------- *)

(* Go: now.Unix() - lot.Unix(), minus one when now.Nanosecond() < lot.Nanosecond() *)
Lemma go_seconds_floor now lot :
  (if nanos now <? nanos lot then unix now - unix lot - 1 else unix now - unix lot)
  = whole_seconds (now - lot).
Proof. unfold nanos, unix, whole_seconds, NS. destruct (_ <? _) eqn:E; lia. Qed.

Lemma whole_seconds_nonneg dt : 0 <= dt -> 0 <= whole_seconds dt.
Proof. unfold whole_seconds, NS. lia. Qed.

Lemma whole_seconds_le dt : whole_seconds dt * NS <= dt.
Proof. unfold whole_seconds, NS. lia. Qed.

(* ---------- CalculateAmountToClaim ---------- *)

Lemma catc_before_zero now dzt lot deposit rate :
  lot <= now -> now < dzt -> 0 <= rate -> 0 <= deposit ->
  calculate_amount_to_claim now dzt lot deposit rate =
    (Z.min deposit (rate * whole_seconds (now - lot)),
     deposit - Z.min deposit (rate * whole_seconds (now - lot))).
Proof.
  intros Hl Hd Hr Hdep. unfold calculate_amount_to_claim.
  destruct (dzt <=? now) eqn:E; [lia|].
  cbv zeta. rewrite go_seconds_floor.
  pose proof (whole_seconds_nonneg (now - lot) ltac:(lia)) as Hw.
  set (w := whole_seconds (now - lot)) in *.
  destruct (w <? 0) eqn:E2; [lia|].
  rewrite (Z.mul_comm w rate).
  destruct (rate * w <? deposit) eqn:E3.
  - rewrite Z.min_r by lia. reflexivity.
  - rewrite Z.min_l by lia. f_equal. lia.
Qed.

Lemma catc_at_or_after_zero now dzt lot deposit rate :
  dzt <= now -> calculate_amount_to_claim now dzt lot deposit rate = (deposit, 0).
Proof.
  intros H. unfold calculate_amount_to_claim. destruct (dzt <=? now) eqn:E; [reflexivity|lia].
Qed.

(* shape of the result, no assumption on the times *)
Lemma catc_bounds now dzt lot deposit rate :
  0 <= rate -> 0 <= deposit ->
  let '(total, remaining) := calculate_amount_to_claim now dzt lot deposit rate in
  0 <= total <= deposit /\ remaining = deposit - total.
Proof.
  intros Hr Hd. unfold calculate_amount_to_claim.
  destruct (dzt <=? now); [lia|]. cbv zeta.
  set (s1 := if nanos now <? nanos lot then _ else _).
  set (secs := if s1 <? 0 then 0 else s1).
  assert (0 <= secs) by (unfold secs; destruct (s1 <? 0) eqn:?; lia).
  assert (0 <= secs * rate) by (apply Z.mul_nonneg_nonneg; lia).
  destruct (secs * rate <? deposit) eqn:E; lia.
Qed.

Lemma catc_zero_deposit now dzt lot rate :
  0 <= rate -> calculate_amount_to_claim now dzt lot 0 rate = (0, 0).
Proof.
  intros Hr. pose proof (catc_bounds now dzt lot 0 rate Hr ltac:(lia)) as H.
  destruct (calculate_amount_to_claim now dzt lot 0 rate) as [t r]. f_equal; lia.
Qed.

(* ---------- CalculateDuration ---------- *)

Lemma duration_exact deposit rate q :
  calculate_duration deposit rate = Ok q -> 1 <= rate -> 0 <= deposit -> q = deposit / rate.
Proof.
  unfold calculate_duration. intros H Hr Hd.
  destruct (rate <=? 0) eqn:E1; [lia|].
  destruct (0 <? deposit) eqn:E2.
  - destruct (deposit / rate <? two63) eqn:E3; [|discriminate]. injection H as <-. reflexivity.
  - injection H as <-. assert (deposit = 0) by lia. subst. reflexivity.
Qed.

Lemma duration_ok deposit rate :
  1 <= rate -> 0 <= deposit -> deposit / rate < two63 ->
  calculate_duration deposit rate = Ok (deposit / rate).
Proof.
  unfold calculate_duration. intros Hr Hd Hq.
  destruct (rate <=? 0) eqn:E1; [lia|].
  destruct (0 <? deposit) eqn:E2.
  - destruct (deposit / rate <? two63) eqn:E3; [reflexivity|lia].
  - assert (deposit = 0) by lia. subst. reflexivity.
Qed.

Lemma duration_range deposit rate q :
  calculate_duration deposit rate = Ok q -> 0 <= q < two63.
Proof.
  unfold calculate_duration. intros H.
  destruct (rate <=? 0) eqn:E1; [injection H as <-; unfold two63; lia|].
  destruct (0 <? deposit) eqn:E2; [|injection H as <-; unfold two63; lia].
  destruct (deposit / rate <? two63) eqn:E3; [|discriminate]. injection H as <-.
  split; [|lia]. apply Z.div_pos; lia.
Qed.

Lemma duration_not_err deposit rate c : calculate_duration deposit rate <> Err c.
Proof.
  unfold calculate_duration.
  destruct (rate <=? 0); [discriminate|]. destruct (0 <? deposit); [|discriminate].
  destruct (_ <? two63); discriminate.
Qed.

(* ---------- addSeconds ---------- *)

Lemma unix_nanos t : t = unix t * NS + nanos t.
Proof. unfold unix, nanos, NS. lia. Qed.

Lemma i64_of_id z : - two63 <= z < two63 -> i64_of z = z.
Proof. unfold i64_of, two63, two64. lia. Qed.

Lemma add_seconds_exact t secs :
  TS_MIN <= unix t + secs <= TS_MAX -> add_seconds t secs = t + secs * NS.
Proof.
  intros H. unfold add_seconds. rewrite i64_of_id by (unfold TS_MIN, TS_MAX, two63 in *; lia).
  rewrite (unix_nanos t) at 3. lia.
Qed.

Lemma unix_add_seconds t secs : unix (add_seconds t secs) = i64_of (unix t + secs).
Proof. unfold add_seconds. generalize (i64_of (unix t + secs)). intros z. unfold unix, nanos, NS. lia. Qed.

Lemma add_seconds_wrap_not_storable t secs :
  time_storable t = true -> 0 <= secs < two63 ->
  time_storable (add_seconds t secs) = true -> add_seconds t secs = t + secs * NS.
Proof.
  unfold time_storable. rewrite unix_add_seconds. intros Ht Hs Ha.
  apply add_seconds_exact.
  assert (Hx : TS_MIN <= unix t <= TS_MAX) by lia. clear Ht.
  revert Ha Hx Hs. generalize (unix t). intros u.
  unfold i64_of, TS_MIN, TS_MAX, two63, two64. lia.
Qed.

(* an in-range sum is stored as is *)
Lemma add_seconds_storable_iff t secs :
  time_storable t = true -> 0 <= secs < two63 ->
  time_storable (add_seconds t secs) = true <-> unix t + secs <= TS_MAX.
Proof.
  unfold time_storable. rewrite unix_add_seconds. intros Ht Hs.
  assert (Hx : TS_MIN <= unix t <= TS_MAX) by lia. clear Ht.
  revert Hx Hs. generalize (unix t). intros u.
  unfold i64_of, TS_MIN, TS_MAX, two63, two64. lia.
Qed.

Lemma time_storable_shift t secs :
  time_storable (t + secs * NS) = true <-> TS_MIN <= unix t + secs <= TS_MAX.
Proof.
  unfold time_storable, unix.
  replace ((t + secs * NS) / NS) with (t / NS + secs) by (unfold NS; lia). lia.
Qed.

(* ---------- CalculateValidatorFee ---------- *)

Lemma fee_split vf claim :
  0 <= vf <= DEC_ONE -> 0 <= claim ->
  let '(recv, fee) := calculate_validator_fee vf claim in
  fee = (claim * vf) / DEC_ONE /\ recv = claim - fee /\ 0 <= fee <= claim /\ 0 <= recv.
Proof.
  intros Hv Hc. unfold calculate_validator_fee.
  assert (Hb : 0 <= claim * vf / DEC_ONE <= claim).
  { split.
    - apply Z.div_pos; [apply Z.mul_nonneg_nonneg; lia | unfold DEC_ONE; lia].
    - apply Z.div_le_upper_bound; [unfold DEC_ONE; lia|].
      rewrite (Z.mul_comm DEC_ONE). apply Z.mul_le_mono_nonneg_l; lia. }
  destruct (0 <? vf) eqn:E.
  - lia.
  - assert (vf = 0) by lia. subst vf. rewrite Z.mul_0_r. cbn [Z.div]. rewrite Zdiv_0_l. lia.
Qed.

(* ---------- the sustain inequality ---------- *)

(* a release strictly before the deposit-zero time keeps the stream funded up to that time,
   never empties it, and never pays more than rate x elapsed time *)
Lemma claim_preserves_sustain D r lot dzt t :
  0 < r -> lot <= t -> t < dzt ->
  r * (dzt - lot) <= D * NS ->
  let c := Z.min D (r * whole_seconds (t - lot)) in
  r * (dzt - t) <= (D - c) * NS /\ 0 < D - c /\ 0 <= c /\
  c = r * whole_seconds (t - lot) /\ c * NS <= r * (t - lot).
Proof.
  intros Hr Hlt Htd Hinv. cbv zeta.
  pose proof (whole_seconds_nonneg (t - lot) ltac:(lia)) as Hq0.
  pose proof (whole_seconds_le (t - lot)) as Hq1.
  set (q := whole_seconds (t - lot)) in *.
  assert (Hrq : r * q * NS <= r * (t - lot)).
  { rewrite <- Z.mul_assoc. apply Z.mul_le_mono_nonneg_l; lia. }
  assert (Hpos : 0 < r * (dzt - t)) by (apply Z.mul_pos_pos; lia).
  assert (Hsplit : r * (dzt - lot) = r * (dzt - t) + r * (t - lot)) by lia.
  assert (0 <= r * q) by (apply Z.mul_nonneg_nonneg; lia).
  unfold NS in *.
  destruct (Z.min_spec D (r * q)) as [[Hlt' ->]|[Hge ->]]; lia.
Qed.

(* top-up of a running stream *)
Lemma topup_preserves_sustain D r lot dzt a :
  0 < r -> 0 <= a -> r * (dzt - lot) <= D * NS ->
  r * (dzt + (a / r) * NS - lot) <= (D + a) * NS.
Proof.
  intros Hr Ha Hinv.
  pose proof (Z.mul_div_le a r Hr) as H.
  assert (r * (a / r) * NS <= a * NS) by (apply Z.mul_le_mono_nonneg_r; unfold NS; lia).
  unfold NS in *. lia.
Qed.

(* (re)start from [now] with deposit D at rate r *)
Lemma restart_sustain D r now :
  0 < r -> 0 <= D -> r * (now + (D / r) * NS - now) <= D * NS.
Proof.
  intros Hr HD.
  pose proof (Z.mul_div_le D r Hr) as H.
  assert (r * (D / r) * NS <= D * NS) by (apply Z.mul_le_mono_nonneg_r; unfold NS; lia).
  unfold NS in *. lia.
Qed.
